"""C17 projections: what a font looks like when glyphs are addressed by NAME, plus by-gid
observations from independent readers (HarfBuzz, harness.rawsfnt).  Nothing here decides
anything: it only records.  Equality-only values are frozen to hashable tuples so that the
caller can intern them (common.Interner) and let TLC compare the ids.

Two views are produced from a font FILE (bytes):

  name views   (reorder)   per glyph name a dict field -> frozen value; per table key -> frozen value
  scale views  (scale_upem) per table a flat list of leaves (path, kind, value, h) with
               kind "I" (must be identical), "D" (design-unit number, bound h/2, see ScaleUpem.tla),
               "E" (a derived extent whose inputs are rounded reals on both sides: the trace builder adds
               4 + 4*ceil(k) to h) or "M" (CFF FontMatrix * upem, must stay put); pen coordinates are
               recorded in half units (path suffix "x2"); a leaf ("I", "non-integer-coordinates") marks a
               glyph / entry whose numbers are fractional before scaling (dropped on both sides, counted)
"""
import io

from fontTools.pens.recordingPen import RecordingPen
from fontTools.ttLib import TTFont
from fontTools.ttLib.tables import otBase
from fontTools.ttLib.tables import otTables as ot

from . import hb as HB
from . import otl_project
from . import rawsfnt


def freeze(v):
    if isinstance(v, (list, tuple)):
        return tuple(freeze(x) for x in v)
    if isinstance(v, dict):
        return tuple(sorted(((freeze(k), freeze(x)) for k, x in v.items()), key=repr))
    if isinstance(v, (set, frozenset)):
        return tuple(sorted((freeze(x) for x in v), key=repr))
    if isinstance(v, bytearray):
        return bytes(v)
    if isinstance(v, (str, int, float, bytes, bool)) or v is None:
        return v
    if hasattr(v, "__dict__") and not callable(v):
        return (type(v).__name__, freeze({k: x for k, x in vars(v).items() if not k.startswith("_")}))
    return repr(v)


def load(data, lazy=None):
    return TTFont(io.BytesIO(data), lazy=lazy, recalcTimestamp=False)


def save(font):
    buf = io.BytesIO()
    font.save(buf)
    return buf.getvalue()


# ---------------------------------------------------------------------------
# generic dump of otData objects (glyphs appear as names)
def ot_dump(obj, skip=()):
    """Canonical nested tuple of an otTables object tree; attribute order fixed by name."""
    if isinstance(obj, otBase.BaseTable):
        obj.ensureDecompiled() if hasattr(obj, "ensureDecompiled") else None
        items = []
        for k in sorted(vars(obj)):
            if k.startswith("_") or k in skip or k in ("reader", "writer", "font", "table", "tableTag", "tableClass"):
                continue
            items.append((k, ot_dump(getattr(obj, k), skip)))
        fmt = getattr(obj, "Format", None)
        return (type(obj).__name__, fmt, tuple(items))
    if isinstance(obj, otBase.ValueRecord):
        return ("ValueRecord", tuple((k, ot_dump(v, skip)) for k, v in sorted(vars(obj).items())))
    if isinstance(obj, (list, tuple)):
        return tuple(ot_dump(x, skip) for x in obj)
    if isinstance(obj, dict):
        return tuple(sorted(((freeze(k), ot_dump(v, skip)) for k, v in obj.items()), key=repr))
    return freeze(obj)


def walk_ot(obj, fn, seen=None):
    """Call fn(o) for every otBase.BaseTable reachable from obj."""
    if seen is None:
        seen = set()
    if isinstance(obj, otBase.BaseTable):
        if id(obj) in seen:
            return
        seen.add(id(obj))
        if hasattr(obj, "ensureDecompiled"):
            obj.ensureDecompiled()
        fn(obj)
        for k, v in list(vars(obj).items()):
            if not k.startswith("_") and k not in ("reader", "font"):
                walk_ot(v, fn, seen)
    elif isinstance(obj, (list, tuple)):
        for x in obj:
            walk_ot(x, fn, seen)
    elif isinstance(obj, dict):
        for x in obj.values():
            walk_ot(x, fn, seen)
    elif isinstance(obj, otBase.ValueRecord):
        for v in vars(obj).values():
            walk_ot(v, fn, seen)


OT_TABLES = ("GSUB", "GPOS", "GDEF", "MATH", "BASE", "JSTF", "COLR", "HVAR", "VVAR", "MVAR", "STAT", "VARC", "avar")


def sorted_by_gid_sequences(font):
    """Every glyph-id sequence of the FILE that the OpenType specification requires to be in
    strictly ascending glyph-id order, as (where, [gid...]) in stored order."""
    gid = font.getGlyphID
    out = []
    for tag in ("GSUB", "GPOS", "GDEF", "MATH", "BASE", "JSTF", "COLR", "VARC"):
        if tag not in font or not hasattr(font[tag], "table"):
            continue
        covs = []

        def visit(o, covs=covs):
            if isinstance(o, ot.Coverage):
                covs.append(("%s:Coverage" % tag, [gid(g) for g in o.glyphs]))
            elif isinstance(o, ot.PairSet):
                covs.append(("%s:PairSet" % tag, [gid(r.SecondGlyph) for r in o.PairValueRecord]))
            elif isinstance(o, ot.BaseGlyphList):
                covs.append(("COLR:BaseGlyphList", [gid(r.BaseGlyph) for r in o.BaseGlyphPaintRecord]))
            elif isinstance(o, ot.JstfLangSys) or type(o).__name__ == "ExtenderGlyph":
                gl = getattr(o, "ExtenderGlyph", None)
                if isinstance(gl, list) and all(isinstance(x, str) for x in gl):
                    covs.append(("JSTF:ExtenderGlyph", [gid(x) for x in gl]))

        walk_ot(font[tag].table, visit)
        out.extend(covs)
    if "COLR" in font and getattr(font["COLR"], "version", 1) == 0:
        out.append(("COLR:BaseGlyphRecord", [gid(g) for g in font["COLR"].ColorLayers.keys()]))
    if "VORG" in font:
        out.append(("VORG:vertOriginYMetrics", [gid(g) for g in font["VORG"].VOriginRecords.keys()]))
    return out


# ---------------------------------------------------------------------------
# per-name view
def _store_regions(store):
    if store is None or getattr(store, "VarRegionList", None) is None:
        return []
    regs = []
    for r in store.VarRegionList.Region:
        regs.append(tuple((a.StartCoord, a.PeakCoord, a.EndCoord) for a in r.VarRegionAxis))
    return regs


def _varidx_row(store, regs, idx):
    if idx == 0xFFFFFFFF:
        return ("none",)
    outer, inner = idx >> 16, idx & 0xFFFF
    if outer >= len(store.VarData):
        return ("bad-outer", outer)
    vd = store.VarData[outer]
    if inner >= len(vd.Item):
        return ("bad-inner", outer, inner)
    return tuple((regs[ri] if ri < len(regs) else ("bad-region", ri), d) for ri, d in zip(vd.VarRegionIndex, vd.Item[inner]))


def _metric_var_rows(font, tag, mapattr, order):
    t = font[tag].table
    store = t.VarStore
    regs = _store_regions(store)
    m = getattr(t, mapattr, None)
    rows = {}
    for gid, n in enumerate(order):
        if m is not None:
            idx = m.mapping.get(n)
            if idx is None:
                rows[n] = ("unmapped",)
                continue
        else:
            idx = gid  # implicit: outer 0, inner = glyph id
        rows[n] = _varidx_row(store, regs, idx)
    return rows


def _paint_dump(paint, layers, depth=0):
    """COLRv1 paint tree with PaintColrLayers resolved against the LayerList."""
    if paint is None:
        return None
    if depth > 40:
        return ("deep",)
    items = []
    if paint.Format == 1:  # PaintColrLayers
        first, num = paint.FirstLayerIndex, paint.NumLayers
        return ("ColrLayers", tuple(_paint_dump(layers[i], layers, depth + 1) if i < len(layers) else ("bad-layer", i)
                                    for i in range(first, first + num)))
    for k in sorted(vars(paint)):
        if k.startswith("_") or k in ("reader", "font"):
            continue
        v = getattr(paint, k)
        if isinstance(v, ot.Paint):
            items.append((k, _paint_dump(v, layers, depth + 1)))
        else:
            items.append((k, ot_dump(v)))
    return ("Paint", paint.Format, tuple(items))


def name_views(font):
    """{glyph name: {field: frozen value}} for a fully loaded font."""
    order = font.getGlyphOrder()
    V = {n: {} for n in order}
    gs = font.getGlyphSet()
    for n in order:
        pen = RecordingPen()
        try:
            gs[n].draw(pen)
            V[n]["outline"] = freeze(pen.value)
        except Exception as e:  # recorded, compared like any value
            V[n]["outline"] = ("draw-error", type(e).__name__)
    for tag in ("hmtx", "vmtx"):
        if tag in font:
            m = font[tag].metrics
            for n in order:
                V[n][tag] = freeze(m.get(n))
    if "VORG" in font:
        t = font["VORG"]
        for n in order:
            V[n]["VORG"] = t.VOriginRecords.get(n, ("default", t.defaultVertOriginY))
    if "hdmx" in font:
        h = font["hdmx"].hdmx
        for n in order:
            V[n]["hdmx"] = tuple((ppem, h[ppem].get(n)) for ppem in sorted(h))
    if "LTSH" in font:
        for n in order:
            V[n]["LTSH"] = font["LTSH"].yPels.get(n)
    if "glyf" in font:
        glyf = font["glyf"]
        for n in order:
            g = glyf[n]
            prog = getattr(g, "program", None)
            extra = [g.numberOfContours, bytes(prog.getBytecode()) if prog is not None and hasattr(prog, "getBytecode") else None]
            if g.isComposite():
                extra.append(tuple((c.glyphName, c.flags, getattr(c, "x", None), getattr(c, "y", None),
                                    getattr(c, "firstPt", None), getattr(c, "secondPt", None),
                                    freeze(getattr(c, "transform", None))) for c in g.components))
            elif g.numberOfContours > 0:
                extra.append((tuple(g.endPtsOfContours), bytes(g.flags), tuple(map(tuple, g.coordinates))))
            V[n]["glyf"] = tuple(extra)
    if "gvar" in font:
        gv = font["gvar"].variations
        for n in order:
            V[n]["gvar"] = tuple((freeze(tv.axes), freeze(tv.coordinates)) for tv in gv.get(n, []))
    for tag, attrs in (("HVAR", ("AdvWidthMap", "LsbMap", "RsbMap")), ("VVAR", ("AdvHeightMap", "TsbMap", "BsbMap", "VOrgMap"))):
        if tag in font:
            t = font[tag].table
            for a in attrs:
                if a in ("AdvWidthMap", "AdvHeightMap") or getattr(t, a, None) is not None:
                    rows = _metric_var_rows(font, tag, a, order)
                    # (without a map the delta-set row of a glyph is its glyph id: OpenType HVAR "implicit" mapping)
                    for n in order:
                        V[n][tag + "." + a] = rows[n]
    if "COLR" in font:
        c = font["COLR"]
        if getattr(c, "version", 1) == 0:
            for n in order:
                ls = c.ColorLayers.get(n)
                V[n]["COLR0"] = None if ls is None else tuple((l.name, l.colorID) for l in ls)
        else:
            t = c.table
            layers = t.LayerList.Paint if getattr(t, "LayerList", None) is not None else []
            v1 = {}
            if getattr(t, "BaseGlyphList", None) is not None:
                for r in t.BaseGlyphList.BaseGlyphPaintRecord:
                    v1.setdefault(r.BaseGlyph, []).append(_paint_dump(r.Paint, layers))
            v0 = {}
            if getattr(t, "BaseGlyphRecordArray", None) is not None:
                lr = t.LayerRecordArray.LayerRecord
                for r in t.BaseGlyphRecordArray.BaseGlyphRecord:
                    v0.setdefault(r.BaseGlyph, []).append(tuple((lr[i].LayerGlyph, lr[i].PaletteIndex)
                                                                for i in range(r.FirstLayerIndex, r.FirstLayerIndex + r.NumLayers)))
            clips = {}
            if getattr(t, "ClipList", None) is not None:
                for g, box in t.ClipList.clips.items():
                    clips[g] = ot_dump(box)
            for n in order:
                V[n]["COLR1"] = (freeze(v1.get(n)), freeze(v0.get(n)), clips.get(n))
    for tag in ("CFF ", "CFF2"):
        if tag in font:
            top = font[tag].cff.topDictIndex[0]
            cs = top.CharStrings
            for n in order:
                try:
                    c, sel = cs.getItemAndSelector(n)
                    c.decompile()
                    priv = getattr(c, "private", None)
                    pd = None
                    if priv is not None:
                        pd = tuple((k, freeze(v)) for k, v in sorted(vars(priv).items())
                                   if not k.startswith("_") and k not in ("file", "offset", "strings", "rawDict", "Subrs", "isCFF2", "vstore"))
                    V[n][tag.strip() + ".program"] = freeze(c.program)
                    V[n][tag.strip() + ".fd"] = (sel, pd)        # Font DICT index (FDSelect) and the Private DICT it selects
                except Exception as e:
                    V[n][tag.strip() + ".program"] = ("cs-error", type(e).__name__)
    if "GDEF" in font and getattr(font["GDEF"].table, "GlyphClassDef", None) is not None:
        cd = font["GDEF"].table.GlyphClassDef.classDefs
        for n in order:
            V[n]["GDEF.class"] = cd.get(n, 0)
    if "sbix" in font:
        for n in order:
            rec = []
            for ppem, strike in sorted(font["sbix"].strikes.items()):
                g = strike.glyphs.get(n)
                rec.append((ppem, None if g is None else (g.graphicType, g.originOffsetX, g.originOffsetY, freeze(g.imageData))))
            V[n]["sbix"] = tuple(rec)
    if "VARC" in font:
        t = font["VARC"].table
        comp = {}
        for g, c in zip(t.Coverage.glyphs, t.VarCompositeGlyphs.VarCompositeGlyph):
            comp.setdefault(g, []).append(tuple(freeze(sorted((k, freeze(v) if not hasattr(v, "__dict__") else freeze(sorted(vars(v).items())))
                                                              for k, v in vars(cc).items())) for cc in c.components))
        for n in order:
            V[n]["VARC"] = freeze(comp.get(n))
    return V


def cmap_view(font):
    """[(platformID, platEncID, format, language, ((code, name)...), uvs)] in stored order."""
    out = []
    if "cmap" not in font:
        return ()
    for st in font["cmap"].tables:
        uvs = getattr(st, "uvsDict", None)
        out.append((st.platformID, st.platEncID, st.format, getattr(st, "language", 0),
                    tuple(sorted(st.cmap.items())) if st.format != 14 else (),
                    freeze({k: sorted(v, key=repr) for k, v in uvs.items()}) if uvs else None))
    return tuple(out)


# ---- GSUB / GPOS / GDEF / MATH by name ------------------------------------------
def _canon_subtable(ty, st):
    """otl_project keeps file order where the order is gid order; make those orders name-keyed
    (stable sorts: the order WITHIN one first glyph is semantic and is preserved)."""
    st = dict(st)
    if ty == "sub4":
        st["l"] = sorted(st["l"], key=lambda r: r[0][0])
    elif ty == "ctx":
        st["r"] = sorted(st["r"], key=lambda r: r["i"][0] if r["i"] else [])
    elif ty == "pos2" and st.get("f") == 1:
        st["p"] = sorted(st["p"], key=lambda r: (r[0], r[1]))
    return st


def layout_views(font, gmap):
    """{key: frozen} for GSUB/GPOS/GDEF from harness.otl_project (glyphs as gmap ids, i.e. by NAME)."""
    out = {}
    layout, unsupported = otl_project.project_layout(font, gmap, adv={})
    for tag in ("gsub", "gpos"):
        tb = layout[tag]
        for i, lk in enumerate(tb["lookups"]):
            lk = dict(lk)
            lk["st"] = [_canon_subtable(lk["ty"], s) for s in lk["st"]]
            out["%s.lookup%d" % (tag.upper(), i)] = freeze(lk)
        out[tag.upper() + ".features"] = freeze(tb["fl"])
    out["GDEF.classes"] = freeze(layout["gdef"])
    return out, layout


def table_views(font, gmap):
    """Name-keyed projections of whole tables: {key: frozen value}, plus the abstract layout."""
    out, layout = layout_views(font, gmap)
    if "GDEF" in font:
        t = font["GDEF"].table
        lc = getattr(t, "LigCaretList", None)
        if lc is not None and lc.Coverage is not None:
            out["GDEF.LigCaretList"] = freeze({g: ot_dump(v) for g, v in zip(lc.Coverage.glyphs, lc.LigGlyph)})
        al = getattr(t, "AttachList", None)
        if al is not None and al.Coverage is not None:
            out["GDEF.AttachList"] = freeze({g: ot_dump(v) for g, v in zip(al.Coverage.glyphs, al.AttachPoint)})
        out["GDEF.VarStore"] = ot_dump(getattr(t, "VarStore", None))
    if "GPOS" in font:
        # device / variation-index records hang off value records and anchors; keep them name-keyed
        # by dumping every lookup's records through the abstract rule they belong to is what
        # layout_views does for the numbers; the devices themselves are compared as a multiset.
        devs = []

        def visit(o):
            if isinstance(o, ot.Device):
                devs.append(ot_dump(o))

        walk_ot(font["GPOS"].table, visit)
        out["GPOS.devices"] = freeze(sorted(devs, key=repr))
    if "MATH" in font:
        t = font["MATH"].table
        out["MATH.constants"] = ot_dump(getattr(t, "MathConstants", None))
        gi = getattr(t, "MathGlyphInfo", None)
        if gi is not None:
            ic = gi.MathItalicsCorrectionInfo
            if ic is not None:
                out["MATH.italics"] = freeze({g: ot_dump(v) for g, v in zip(ic.Coverage.glyphs, ic.ItalicsCorrection)})
            ta = gi.MathTopAccentAttachment
            if ta is not None:
                out["MATH.topaccent"] = freeze({g: ot_dump(v) for g, v in zip(ta.TopAccentCoverage.glyphs, ta.TopAccentAttachment)})
            es = gi.ExtendedShapeCoverage
            if es is not None:
                out["MATH.extended"] = freeze(set(es.glyphs))
            ki = gi.MathKernInfo
            if ki is not None:
                out["MATH.kern"] = freeze({g: ot_dump(v) for g, v in zip(ki.MathKernCoverage.glyphs, ki.MathKernInfoRecords)})
        mv = getattr(t, "MathVariants", None)
        if mv is not None:
            out["MATH.minoverlap"] = mv.MinConnectorOverlap
            if mv.VertGlyphCoverage is not None:
                out["MATH.vert"] = freeze({g: ot_dump(v) for g, v in zip(mv.VertGlyphCoverage.glyphs, mv.VertGlyphConstruction)})
            if mv.HorizGlyphCoverage is not None:
                out["MATH.horiz"] = freeze({g: ot_dump(v) for g, v in zip(mv.HorizGlyphCoverage.glyphs, mv.HorizGlyphConstruction)})
    if "kern" in font:
        out["kern"] = tuple((getattr(k, "version", None), getattr(k, "coverage", None), freeze(getattr(k, "kernTable", None)))
                            for k in font["kern"].kernTables)
    if "post" in font:
        p = font["post"]
        out["post.header"] = (p.formatType, p.italicAngle, p.underlinePosition, p.underlineThickness, p.isFixedPitch)
    for tag in ("hhea", "vhea"):
        if tag in font:
            out[tag] = freeze({k: v for k, v in vars(font[tag]).items()
                               if k not in ("numberOfHMetrics", "numberOfVMetrics", "tableTag") and not k.startswith("_")})
    if "maxp" in font:
        out["maxp"] = freeze({k: v for k, v in vars(font["maxp"]).items() if k != "tableTag"})
    if "head" in font:
        out["head"] = freeze({k: v for k, v in vars(font["head"]).items() if k not in ("checkSumAdjustment", "tableTag", "modified")})
    return out, layout


SEMANTIC_TABLES = {"GlyphOrder", "head", "hhea", "vhea", "maxp", "glyf", "loca", "CFF ", "CFF2", "hmtx", "vmtx", "VORG", "hdmx",
                   "LTSH", "gvar", "HVAR", "VVAR", "COLR", "GSUB", "GPOS", "GDEF", "MATH", "cmap", "post", "kern", "sbix", "VARC"}


def xml_lines_view(font, tag):
    """Multiset of the table's TTX lines with positional index attributes removed: a weak but
    generic name-keyed view for tables that have no dedicated projection."""
    import re
    from fontTools.misc.xmlWriter import XMLWriter

    buf = io.BytesIO()
    w = XMLWriter(buf)
    try:
        font[tag].toXML(w, font)
    except Exception as e:
        return ("toXML-error", type(e).__name__)
    w.close()
    lines = buf.getvalue().decode("utf-8", "replace").splitlines()
    lines = [re.sub(r' index="\d+"', "", l.strip()) for l in lines]
    out = []
    for l in lines:
        if not l or l.startswith("<!--"):
            continue
        toks = l.split()
        if len(toks) > 1 and all(re.fullmatch(r"[^\s=<>]+=[^\s=<>]+", t) for t in toks):
            l = " ".join(sorted(toks))          # a line of name=value pairs is a map listed in glyph-id order
        out.append(l)
    return tuple(sorted(out))


# ---------------------------------------------------------------------------
# probes for the shaper, derived from the font's own rules
def shaping_probes(layout, inv, rng, limit):
    """Glyph-name sequences that make the font's lookups fire (first glyph of every set)."""
    probes = []

    def names(ids):
        return [inv[i] for i in ids]

    for tag in ("gsub", "gpos"):
        for lk in layout[tag]["lookups"]:
            ty = lk["ty"]
            for st in lk["st"]:
                if ty in ("sub1", "pos1"):
                    probes += [names([m[0]]) for m in st["m"]]
                elif ty in ("sub2", "sub3"):
                    probes += [names([m[0]]) for m in st["m"]]
                elif ty == "sub4":
                    probes += [names(l[0]) for l in st["l"]]
                    probes += [names(l[0] + l[0]) for l in st["l"][:3]]
                elif ty == "ctx":
                    for r in st["r"]:
                        if all(r["b"]) and all(r["i"]) and all(r["a"]):
                            for pick in (0, -1):
                                probes.append(names([s[pick] for s in reversed(r["b"])] + [s[pick] for s in r["i"]] + [s[pick] for s in r["a"]]))
                elif ty == "rsub":
                    for r in st["r"]:
                        for m in r["m"][:4]:
                            if all(r["b"]) and all(r["a"]):
                                probes.append(names([s[0] for s in reversed(r["b"])] + [m[0]] + [s[0] for s in r["a"]]))
                elif ty == "pos2":
                    if st["f"] == 1:
                        probes += [names([p[0], p[1]]) for p in st["p"]]
                    else:
                        for c in st["c"]:
                            probes.append(names([c[0][0], c[1][0]]))
                            probes.append(names([c[0][-1], c[1][-1]]))
                elif ty == "curs":
                    ex = [m[0] for m in st["m"] if m[2]]
                    en = [m[0] for m in st["m"] if m[1]]
                    probes += [names([a, b]) for a in ex[:4] for b in en[:4]]
                elif ty in ("mkb", "mkm"):
                    for b in st["bases"][:6]:
                        for m in st["marks"][:6]:
                            probes.append(names([b[0], m[0]]))
                elif ty == "mkl":
                    for l in st["ligs"][:6]:
                        for m in st["marks"][:4]:
                            probes.append(names([l[0], m[0]]))
                            probes.append(names([l[0], m[0], m[0]]))
    seen, uniq = set(), []
    for p in probes:
        t = tuple(p)
        if t and t not in seen and len(t) <= 12:
            seen.add(t)
            uniq.append(list(t))
    if len(uniq) > limit:
        uniq = [uniq[i] for i in sorted(rng.sample(range(len(uniq)), limit))]
    return uniq


def feature_systems(layout, limit=3):
    """[(script, lang, {feature: 1})] from the font's own script lists."""
    systems = {}
    for tag in ("gsub", "gpos"):
        for script, lang, ftag, _lk, _req in layout[tag]["fl"]:
            systems.setdefault((str(script), str(lang)), set()).add(str(ftag))
    out = []
    for (script, lang), feats in sorted(systems.items()):
        # a few more for the same script so that both tables' features are on
        allf = set()
        for (s2, l2), f2 in systems.items():
            if s2 == script:
                allf |= f2
        out.append((script, lang, {f: 1 for f in sorted(allf) if f not in ("rand",)}))
    return out[:limit] or [("DFLT", "dflt", {})]


DEFAULT_IGNORABLE = set([0xAD, 0x34F, 0x61C, 0x115F, 0x1160, 0x17B4, 0x17B5, 0x3164, 0xFFA0, 0xFEFF]) | set(range(0x180B, 0x1810)) | set(
    range(0x200B, 0x2010)) | set(range(0x202A, 0x202F)) | set(range(0x2060, 0x2070)) | set(range(0xFE00, 0xFE10)) | set(range(0xFFF0, 0xFFF9))


def probe_codepoints(font, rng, limit):
    cps = sorted(c for c in (font.getBestCmap() or {}) if c >= 0x20 and c not in DEFAULT_IGNORABLE and not (0x7F <= c < 0xA0)
                 and not (0xE0000 <= c <= 0xE0FFF) and not (0xD800 <= c <= 0xDFFF))
    if len(cps) > limit:
        cps = sorted(rng.sample(cps, limit))
    return cps


# ---------------------------------------------------------------------------
# HarfBuzz (independent reader) observations of a FILE
def _ints(ops):
    """HarfBuzz draw output -> integer op list, or None when a coordinate is not integral."""
    out = []
    for op, cs in ops:
        ics = []
        for c in cs:
            if c != int(c):
                return None
            ics.append(int(c))
        out.append((op, tuple(ics)))
    return tuple(out)


def hb_observe(data, order, probes, systems, cps, corners, glyph_sample=None, want_math=False):
    """By-gid and shaping observations through HarfBuzz on the bytes of a saved font."""
    sh = HB.Shaper(data)
    f = sh.otfont
    n = sh.face.glyph_count
    gids = range(n) if glyph_sample is None else glyph_sample
    obs = {"n": n, "upem": sh.upem, "gid": {}, "nominal": {}, "shape": [], "var": {}, "math": None, "extents": None}
    for g in gids:
        try:
            name = f.get_glyph_name(g)
        except Exception:
            name = None
        draw = sh.draw_glyph(g)
        rec = {"name": name, "hadv": f.get_glyph_h_advance(g), "vadv": f.get_glyph_v_advance(g),
               "vorg": tuple(f.get_glyph_v_origin(g) or ()), "draw": tuple((op, tuple(c)) for op, c in draw),
               "layers": None}
        try:
            ls = sh.face.get_glyph_color_layers(g)
            rec["layers"] = tuple((l.glyph, l.color_index) for l in ls) if ls else None
        except Exception:
            pass
        obs["gid"][g] = rec
    for cp in cps:
        obs["nominal"][cp] = f.get_nominal_glyph(cp)
    gid_of = {nm: i for i, nm in enumerate(order)}
    for si, (script, lang, feats) in enumerate(systems):
        for pi, p in enumerate(probes):
            res = sh.shape(glyphs=[gid_of[x] for x in p], features=feats, script=script, language=lang)
            obs["shape"].append((("g", si, pi), tuple((order[g] if g < len(order) else "?%d" % g, xa, ya, xo, yo) for g, xa, ya, xo, yo in res)))
    if cps:
        for si, (script, lang, feats) in enumerate(systems[:1]):
            for i in range(0, len(cps), 8):
                chunk = cps[i : i + 8]
                res = sh.shape(codepoints=chunk, features=feats, script=script, language=lang)
                obs["shape"].append((("c", si, i), tuple((order[g] if g < len(order) else "?%d" % g, xa, ya, xo, yo) for g, xa, ya, xo, yo in res)))
    for ci, loc in enumerate(corners):
        vs = HB.Shaper(data, variations=loc)
        vf = vs.otfont
        obs["var"][ci] = {g: (vf.get_glyph_h_advance(g), vf.get_glyph_v_advance(g)) for g in gids}
    try:
        fe = f.get_font_extents("ltr")
        obs["extents"] = (fe.ascender, fe.descender, fe.line_gap)
    except Exception:
        pass
    if want_math and sh.face.has_math_data:
        import uharfbuzz as hbm

        consts = []
        for k in range(0, 56):
            try:
                consts.append(f.get_math_constant(hbm.OTMathConstant(k)))
            except Exception:
                consts.append(None)
        m = {"constants": tuple(consts), "minoverlap": (f.get_math_min_connector_overlap("ttb"), f.get_math_min_connector_overlap("ltr")), "gid": {}}
        for g in gids:
            try:
                vv = tuple((v.glyph, v.advance) for v in f.get_math_glyph_variants(g, "ttb"))
                hv = tuple((v.glyph, v.advance) for v in f.get_math_glyph_variants(g, "ltr"))
                parts = []
                for d in ("ttb", "ltr"):
                    a, ic = f.get_math_glyph_assembly(g, d)
                    parts.append((tuple((p.glyph, p.start_connector_length, p.end_connector_length, p.full_advance, int(p.flags)) for p in a), ic))
                m["gid"][g] = (f.get_math_glyph_italics_correction(g), f.get_math_glyph_top_accent_attachment(g), vv, hv, tuple(parts))
            except Exception as e:
                m["gid"][g] = ("math-error", type(e).__name__)
        obs["math"] = m
    return obs


def raw_observe(data, order):
    """Independent reader (harness.rawsfnt): per-gid hmtx entries and raw glyf records (component
    glyph ids translated to names through `order`, the file's own glyph order)."""
    try:
        c = rawsfnt.parse(data)
        f = c.fonts[0]
        t = f.tables
        if b"maxp" not in t or b"hhea" not in t or b"hmtx" not in t:
            return None
        ng = rawsfnt.parse_maxp(t[b"maxp"])["numGlyphs"]
        nh = rawsfnt.parse_hhea(t[b"hhea"])["numberOfMetrics"]
        hm, _ = rawsfnt.parse_hmtx(t[b"hmtx"], nh, ng)
        out = {"n": ng, "hmtx": [tuple(x) for x in hm], "glyf": None}
        if b"glyf" in t and b"loca" in t and b"head" in t:
            head = rawsfnt.parse_head(t[b"head"])
            loca = rawsfnt.parse_loca(t[b"loca"], head["indexToLocFormat"], ng)
            recs = rawsfnt.parse_glyf(t[b"glyf"], loca)
            gl = []
            for r in recs:
                comps = tuple((order[cc["gid"]] if cc["gid"] < len(order) else "?%d" % cc["gid"], cc["a1"], cc["a2"],
                               freeze(cc["tr"]), freeze(cc["flags"])) for cc in r["comps"])
                gl.append((r["nc"], tuple(r["endPts"]), tuple(r["pts"]), comps, bytes(r["instr"])))
            out["glyf"] = gl
        return out
    except Exception as e:
        return {"error": type(e).__name__ + ": " + str(e)[:80]}


def var_corners(font, limit=2):
    if "fvar" not in font:
        return []
    out = []
    for a in font["fvar"].axes[:limit]:
        for v in (a.maxValue, a.minValue):
            if v != a.defaultValue:
                out.append({a.axisTag: v})
                break
    return out


# ---------------------------------------------------------------------------
# scale_upem views: flat leaves (path, kind, value, h)
HEAD_D = ("xMin", "yMin", "xMax", "yMax")
HHEA_D = ("ascent", "descent", "lineGap", "caretOffset")
HHEA_DERIVED = ("advanceWidthMax", "minLeftSideBearing", "minRightSideBearing", "xMaxExtent",
                "advanceHeightMax", "minTopSideBearing", "minBottomSideBearing", "yMaxExtent")
OS2_D = ("xAvgCharWidth", "ySubscriptXSize", "ySubscriptYSize", "ySubscriptXOffset", "ySubscriptYOffset", "ySuperscriptXSize",
         "ySuperscriptYSize", "ySuperscriptXOffset", "ySuperscriptYOffset", "yStrikeoutSize", "yStrikeoutPosition", "sTypoAscender",
         "sTypoDescender", "sTypoLineGap", "usWinAscent", "usWinDescent", "sxHeight", "sCapHeight")
POST_D = ("underlinePosition", "underlineThickness")

# design-unit fields of the OpenType Layout / MATH / BASE / COLR structures (from the OpenType specification)
OT_DESIGN = {
    ("ValueRecord", "XPlacement"), ("ValueRecord", "YPlacement"), ("ValueRecord", "XAdvance"), ("ValueRecord", "YAdvance"),
    ("Anchor", "XCoordinate"), ("Anchor", "YCoordinate"),
    ("CaretValue", "Coordinate"), ("BaseCoord", "Coordinate"), ("MathValueRecord", "Value"),
    ("MathConstants", "DelimitedSubFormulaMinHeight"), ("MathConstants", "DisplayOperatorMinHeight"),
    ("MathVariants", "MinConnectorOverlap"), ("MathGlyphVariantRecord", "AdvanceMeasurement"),
    ("GlyphPartRecord", "StartConnectorLength"), ("GlyphPartRecord", "EndConnectorLength"), ("GlyphPartRecord", "FullAdvance"),
    ("ClipBox", "xMin"), ("ClipBox", "yMin"), ("ClipBox", "xMax"), ("ClipBox", "yMax"),
}
MATH_PLAIN = {("MathConstants", "DelimitedSubFormulaMinHeight"), ("MathConstants", "DisplayOperatorMinHeight"),
              ("MathVariants", "MinConnectorOverlap"), ("MathGlyphVariantRecord", "AdvanceMeasurement"),
              ("GlyphPartRecord", "StartConnectorLength"), ("GlyphPartRecord", "EndConnectorLength"), ("GlyphPartRecord", "FullAdvance")}
OT_DERIVED = {("VarData", "NumShorts")}
# tables whose ItemVariationStore deltas are design units
DESIGN_STORES = {"GDEF", "HVAR", "VVAR", "MVAR", "BASE"}


def ot_leaves(obj, path, out, tag):
    if isinstance(obj, otBase.BaseTable):
        if hasattr(obj, "ensureDecompiled"):
            obj.ensureDecompiled()
        cn = type(obj).__name__
        for k in sorted(vars(obj)):
            if k.startswith("_") or k in ("reader", "writer", "font", "sortCoverageLast"):
                continue
            v = getattr(obj, k)
            if (cn, k) in OT_DERIVED:
                continue
            if cn == "VarData" and k == "Item":
                kind = "D" if tag in DESIGN_STORES else "I"
                for i, row in enumerate(v):
                    for j, d in enumerate(row):
                        out.append((path + (k, i, j), kind, d, 1))
                continue
            if (cn, k) in OT_DESIGN and isinstance(v, (int, float)):
                out.append((path + (cn, k), "D", v, 1))
            else:
                ot_leaves(v, path + (cn, k), out, tag)
    elif isinstance(obj, otBase.ValueRecord):
        for k in sorted(vars(obj)):
            v = getattr(obj, k)
            if ("ValueRecord", k) in OT_DESIGN:
                out.append((path + (k,), "D", v, 1))
            else:
                ot_leaves(v, path + (k,), out, tag)
    elif isinstance(obj, (list, tuple)):
        for i, x in enumerate(obj):
            ot_leaves(x, path + (i,), out, tag)
    elif isinstance(obj, dict):
        for k in sorted(obj, key=repr):
            ot_leaves(obj[k], path + (freeze(k),), out, tag)
    else:
        out.append((path, "I", freeze(obj), 0))


def _attr_leaves(t, dattrs, derived=(), derived_h=1, skip=(), derived_kind="D"):
    out = []
    for k in sorted(vars(t)):
        if k.startswith("_") or k in skip or k == "tableTag":
            continue
        v = getattr(t, k)
        if k in dattrs:
            out.append(((k,), "D", v, 1))
        elif k in derived:
            out.append(((k,), derived_kind, v, derived_h))
        else:
            out.append(((k,), "I", freeze(v), 0))
    return out


def _comp_depth(glyf, n, memo):
    if n in memo:
        return memo[n]
    memo[n] = 0
    g = glyf[n]
    d = 0
    if g.isComposite():
        d = 1 + max([_comp_depth(glyf, c.glyphName, memo) for c in g.components if c.glyphName in glyf.glyphs] or [0])
    memo[n] = d
    return d


def _pen_leaves(font, names, relative, out, hmul=1, location=None, key="pen"):
    """Outline through the pen API.  relative=True: every coordinate is the sum of that many stored
    deltas (charstrings), so point j (1-based over the whole glyph) has bound hmul*j/2.
    TrueType glyphs are drawn from the glyf record itself (offset 0): the glyph set would add
    lsb - xMin to every x, i.e. report a sum of three separately rounded numbers."""
    gs = font.getGlyphSet(location=location) if location else font.getGlyphSet()
    raw_glyf = font["glyf"] if ("glyf" in font and not relative and not location) else None
    varc = set(font["VARC"].table.Coverage.glyphs) if "VARC" in font else set()
    maxn = 1
    nonint = 0
    for n in names:
        pen = RecordingPen()
        try:
            if raw_glyf is not None and n not in varc:
                raw_glyf[n].draw(pen, raw_glyf, 0)
            else:
                gs[n].draw(pen)
        except Exception as e:
            out.append(((key, n), "I", ("draw-error", type(e).__name__), 0))
            continue
        j = 0
        leaves = []
        ok = True
        for oi, (op, args) in enumerate(pen.value):
            leaves.append(((key, n, oi, "op"), "I", (op, len(args)), 0))
            if op == "addComponent":
                gname, tr = args
                leaves.append(((key, n, oi, "glyph"), "I", gname, 0))
                leaves.append(((key, n, oi, "2x2"), "I", tuple(round(x * 16384) for x in tr[:4]), 0))
                for ci, c in enumerate(tr[4:]):
                    if c != int(c):
                        ok = False
                    leaves.append(((key, n, oi, "off", ci), "D", int(c), 1))
                continue
            if op == "addVarComponent":
                # VARC: (glyph name, DecomposedTransform, location); translate / centre are design units,
                # rotation / scale / skew and the axis location are not
                gname, tr, loc = args
                leaves.append(((key, n, oi, "glyph"), "I", gname, 0))
                leaves.append(((key, n, oi, "location"), "I", freeze(loc), 0))
                for a in ("rotation", "scaleX", "scaleY", "skewX", "skewY"):
                    leaves.append(((key, n, oi, a), "I", getattr(tr, a), 0))
                for a in ("translateX", "translateY", "tCenterX", "tCenterY"):
                    c = getattr(tr, a)
                    if c != int(c):
                        ok = False
                    leaves.append(((key, n, oi, a), "D", int(c), 1))
                continue
            if any(pt is not None and not isinstance(pt, (tuple, list)) for pt in args):
                # an operation this projection does not know: recorded whole, compared for identity
                leaves.append(((key, n, oi, "args"), "I", freeze(args), 0))
                continue
            for pi, pt in enumerate(args):
                if pt is None:
                    leaves.append(((key, n, oi, pi), "I", None, 0))
                    continue
                j += 1
                for ci, c in enumerate(pt):
                    # in HALF units: the implied on-curve points of a spline are midpoints of stored points
                    # (|2v' - k*2v| <= 2h/2 is the same bound h/2 on v)
                    c2 = 2 * c
                    if c2 != int(c2):
                        ok = False
                        break
                    leaves.append(((key, n, oi, pi, ci, "x2"), "D", int(c2), 2 * (hmul * j if relative else 1)))
        maxn = max(maxn, j)          # counted for every glyph: the font-wide bounds depend on it on both sides alike
        if not ok:
            nonint += 1
            out.append(((key, n), "I", "non-integer-coordinates", 0))
            continue
        out.extend(leaves)
    return maxn, nonint


CFF_DEFAULT_FONTMATRIX = (0.001, 0, 0, 0.001, 0, 0)
CFF_PRIVATE_D = ("BlueValues", "OtherBlues", "FamilyBlues", "FamilyOtherBlues", "StdHW", "StdVW", "StemSnapH", "StemSnapV",
                 "defaultWidthX", "nominalWidthX")
HINT_OPS = {"hstem", "vstem", "hstemhm", "vstemhm", "hintmask", "cntrmask"}


def scale_views(font, data, glyph_names=None):
    """{table key: [(path, kind, value, h)]} for a loaded font whose file bytes are `data`."""
    order = font.getGlyphOrder()
    names = order if glyph_names is None else glyph_names
    V = {}
    info = {"nonint": 0, "skipped": []}
    raw = rawsfnt.parse(data).fonts[0].tables
    is_cff = "CFF " in font or "CFF2" in font
    maxn = 1
    depth = 0
    transformed = False
    matched = False
    if "glyf" in font:
        glyf = font["glyf"]
        memo = {}
        out = []
        for n in order:
            g = glyf[n]
            depth = max(depth, _comp_depth(glyf, n, memo))
            if g.isComposite() and any(hasattr(c, "transform") for c in g.components):
                transformed = True
            if g.isComposite() and any(hasattr(c, "firstPt") for c in g.components):
                # point matching: the component's offset is itself a difference of two points, so a point of the
                # composite is made of four separately rounded numbers per level instead of two
                matched = True
        maxn_, nonint = _pen_leaves(font, names, False, out)
        info["nonint"] += nonint
        for n in names:
            g = glyf[n]
            prog = getattr(g, "program", None)
            out.append((("glyf", n, "program"), "I", bytes(prog.getBytecode()) if prog is not None and hasattr(prog, "getBytecode") else None, 0))
            if g.isComposite():
                for ci, c in enumerate(g.components):
                    out.append((("glyf", n, ci, "flags"), "I", c.flags & ~0x0001 & 0xFFFF, 0))   # bit 0 = word-sized args: an encoding choice
                    out.append((("glyf", n, ci, "match"), "I", (getattr(c, "firstPt", None), getattr(c, "secondPt", None)), 0))
            elif g.numberOfContours > 0:
                out.append((("glyf", n, "flags"), "I", bytes(b & 0x41 for b in g.flags), 0))
                out.append((("glyf", n, "endPts"), "I", tuple(g.endPtsOfContours), 0))
            if g.numberOfContours != 0 and not (g.isComposite() and transformed):
                h = (1 + memo.get(n, 0)) * (4 if matched else 1) if g.isComposite() else 1
                for a in ("xMin", "yMin", "xMax", "yMax"):
                    out.append((("glyf", n, a), "D", getattr(g, a, 0), h))
        V["glyf"] = out
    for tag in ("CFF ", "CFF2"):
        if tag in font:
            out = []
            maxn, nonint = _pen_leaves(font, names, True, out)
            info["nonint"] += nonint
            top = font[tag].cff.topDictIndex[0]
            cs = top.CharStrings
            # scale_upem documents that it de-subroutinizes: the operator sequence is compared on the
            # de-subroutinized programs of both files
            subr = False
            for n in order:
                c, _sel = cs.getItemAndSelector(n)
                c.decompile()
                if any(t in ("callsubr", "callgsubr") for t in c.program if isinstance(t, str)):
                    subr = True
                    break
            if subr:
                font[tag].cff.desubroutinize()
            for n in names:
                c, sel = cs.getItemAndSelector(n)
                c.decompile()
                out.append(((tag, n, "fd"), "I", sel, 0))
                out.append(((tag, n, "ops"), "I", tuple(t for t in c.program if isinstance(t, str)), 0))
                if tag == "CFF ":
                    try:
                        c.draw(RecordingPen())
                        w = c.width
                        if w == int(w):
                            out.append((("width", n, tag), "D", int(w), 2))
                        else:       # dropped on both sides by the trace builder, like fractional outlines
                            out.append((("width", n), "I", "non-integer-coordinates", 0))
                    except Exception:
                        pass
            # FontMatrix as the FILE states it: the stored operands, else the default of the CFF specification
            # (Technical Note #5176, table 9) -- not the library's default object
            fm = top.rawDict.get("FontMatrix", CFF_DEFAULT_FONTMATRIX)
            upem = font["head"].unitsPerEm
            out.append(((tag, "FontMatrix*upem"), "M", tuple(round(x * upem * 1000000) for x in fm[:4]), 0))
            for fi, fd in enumerate(getattr(top, "FDArray", None) or []):
                if "FontMatrix" in fd.rawDict:
                    out.append(((tag, "FD", fi, "FontMatrix"), "I", freeze(fd.rawDict["FontMatrix"]), 0))
            for k in ("ROS", "CIDCount", "PaintType", "CharstringType", "isFixedPitch", "ItalicAngle"):
                if hasattr(top, k):
                    out.append(((tag, k), "I", freeze(getattr(top, k)), 0))
            # Private DICT entries in character-space units that scale_upem rescales (absolute values as the
            # library presents them; BlueScale / BlueShift / BlueFuzz and the charstrings' stem hints are not compared)
            privs = [fd.Private for fd in top.FDArray] if hasattr(top, "FDArray") else [getattr(top, "Private", None)]
            for pi, pr in enumerate(privs):
                if pr is None:
                    continue
                for a in CFF_PRIVATE_D:
                    if a not in getattr(pr, "rawDict", {}):
                        continue
                    v = getattr(pr, a)
                    vals = v if isinstance(v, list) else [v]
                    if any(isinstance(x, list) or x != int(x) for x in vals):      # CFF2 blends / fractional values
                        out.append((("private", (pi, a)), "I", "non-integer-coordinates", 0))
                        continue
                    for vi, x in enumerate(vals):
                        out.append((("private", (pi, a), vi), "D", int(x), 1))
            if hasattr(top, "VarStore") and top.VarStore is not None:
                ot_leaves(top.VarStore.otVarStore.VarRegionList, (tag, "VarStore.regions"), out, tag)
            V[tag] = out
    if "CFF2" in font and "fvar" in font:
        store = font["CFF2"].cff.topDictIndex[0].VarStore
        nreg = len(store.otVarStore.VarRegionList.Region) if store is not None else 0
        for ci, loc in enumerate(var_corners(font)):
            out = []
            try:
                _pen_leaves(font, names, True, out, hmul=1 + nreg, location=loc, key="pen@%d" % ci)
                V["CFF2@corner%d" % ci] = out
            except Exception as e:
                info["skipped"].append("CFF2 corner outline: %s" % type(e).__name__)
    bb = maxn if is_cff else (1 + depth) * (4 if matched else 1) + (1 if transformed else 0)
    info["bb"] = bb      # how many separately rounded numbers an outline extent of this font is made of
    if "head" in font:
        # CFF: head's box is recomputed on save from the charstrings as intRect(real extremum of the curves): kind "E"
        # (floor/ceil of a real number that is itself within maxn/2 of the scaled one; see build_scale_trace)
        V["head"] = _attr_leaves(font["head"], (), derived=HEAD_D, derived_h=(maxn if is_cff else bb),
                                 skip=("checkSumAdjustment", "modified", "unitsPerEm", "indexToLocFormat", "flags"),
                                 derived_kind="E" if (is_cff or transformed) else "D")
        # bit 1 of head.flags is DERIVED on save ("every glyph's lsb equals its xMin", maxp.recalc): two numbers
        # one unit apart may round to the same value, so the bit is not part of NothingElse
        V["head"].append((("flags&~2",), "I", font["head"].flags & ~0x2, 0))
    for tag in ("hhea", "vhea"):
        if tag in font:
            # extents / side-bearing extremes are recomputed on save from glyph boxes; where a box is a ROUNDED real number
            # already before scaling (charstring curve extrema through intRect; composites with a 2x2 transform), that
            # rounding error is multiplied by the factor: kind "E"
            V[tag] = _attr_leaves(font[tag], HHEA_D, derived=HHEA_DERIVED, derived_h=2 + 2 * bb, skip=("numberOfHMetrics", "numberOfVMetrics"),
                                  derived_kind="E" if (is_cff or transformed) else "D")
    if "OS/2" in font:
        V["OS/2"] = _attr_leaves(font["OS/2"], OS2_D)
    if "post" in font:
        V["post"] = _attr_leaves(font["post"], POST_D, skip=("glyphOrder", "extraNames", "mapping", "data"))
    for tag in ("hmtx", "vmtx"):
        if tag in font:
            m = font[tag].metrics
            out = []
            for n in order:
                a, b = m[n]
                out.append(((n, "adv"), "D", a, 1))
                out.append(((n, "sb"), "D", b, 1))
            V[tag] = out
    if "VORG" in font:
        t = font["VORG"]
        V["VORG"] = [(("default",), "D", t.defaultVertOriginY, 1), (("version",), "I", (t.majorVersion, t.minorVersion), 0)]
        V["VORG.records"] = [((n,), "D", v, 1) for n, v in sorted(t.VOriginRecords.items())]
    if "kern" in font:
        out = []
        for ki, k in enumerate(font["kern"].kernTables):
            out.append(((ki, "hdr"), "I", (getattr(k, "version", None), getattr(k, "coverage", None), getattr(k, "format", None)), 0))
            kt = getattr(k, "kernTable", None)
            if kt is None:
                out.append(((ki, "data"), "I", freeze(getattr(k, "data", None)), 0))
                continue
            for pair in sorted(kt):
                out.append(((ki,) + tuple(pair), "D", kt[pair], 1))
        V["kern"] = out
    if "gvar" in font:
        out = []
        for n in order:
            for ti, tv in enumerate(font["gvar"].variations.get(n, [])):
                out.append(((n, ti, "axes"), "I", freeze(tv.axes), 0))
                for pi, xy in enumerate(tv.coordinates):
                    if xy is None:
                        out.append(((n, ti, pi), "I", None, 0))
                    else:
                        out.append(((n, ti, pi, 0), "D", xy[0], 1))
                        out.append(((n, ti, pi, 1), "D", xy[1], 1))
        V["gvar"] = out
    for tag in ("GSUB", "GPOS", "GDEF", "BASE", "MATH", "JSTF", "HVAR", "VVAR", "MVAR", "avar", "STAT", "COLR"):
        if tag in font and hasattr(font[tag], "table"):
            if tag == "COLR" and font["COLR"].table.Version >= 1 and getattr(font["COLR"].table, "BaseGlyphList", None) is not None:
                # COLRv1 geometry is rescaled by wrapping paints, not field by field: ClipBoxes are fields
                out = []
                cl = getattr(font["COLR"].table, "ClipList", None)
                if cl is not None:
                    ot_leaves(cl, ("ClipList",), out, tag)
                vs = getattr(font["COLR"].table, "VarStore", None)
                if vs is not None:
                    ot_leaves(vs, ("VarStore",), out, tag)
                V["COLR"] = out
                info["skipped"].append("COLRv1 paint graph (rescaled by wrapping, judged through ClipBoxes and VarStore only)")
                continue
            if tag == "MVAR" and any(r.ValueTag.startswith("gsp") for r in font["MVAR"].table.ValueRecord):
                info["skipped"].append("MVAR with gasp (ppem) value tags")
                continue
            out = []
            ot_leaves(font[tag].table, (), out, tag)
            if tag == "MATH":
                # design-unit fields that are plain (u)int16 in the MATH table, as opposed to MathValueRecords
                plain = [l for l in out if l[1] == "D" and tuple(l[0][-2:]) in MATH_PLAIN]
                V["MATH.plain-int16-fields"] = plain
                out = [l for l in out if not (l[1] == "D" and tuple(l[0][-2:]) in MATH_PLAIN)]
            V[tag] = out
    done = {"head", "hhea", "vhea", "OS/2", "post", "hmtx", "vmtx", "VORG", "kern", "gvar", "glyf", "loca", "CFF ", "CFF2", "maxp",
            "GSUB", "GPOS", "GDEF", "BASE", "MATH", "JSTF", "HVAR", "VVAR", "MVAR", "avar", "STAT", "COLR", "GlyphOrder", "VARC"}
    if "maxp" in font:
        V["maxp"] = _attr_leaves(font["maxp"], ())
    if "VARC" in font:
        info["skipped"].append("VARC (not modelled)")
    for tagb, d in sorted(raw.items()):
        tag = tagb.decode("latin-1")
        if tag not in done:
            V["raw:" + tag] = [((), "I", bytes(d), 0)]
    return V, info
