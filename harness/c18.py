"""C18 — merging fonts preserves each input's characters (fontTools.merge.Merger().merge).

(M) MC_Merge (one TLC run, MC_Merge.cfg / MC_Merge_thorough.cfg): the Merge machine of specs/Merge.tla
    (computeMegaGlyphOrder, computeMegaCmap with the duplicate rule, per-table merge, layout concatenation with glyph /
    lookup index shifting and per script-language-tag feature merging, post-merge compaction) over every ordered
    list of 2 (large family) and 3 (small family) abstract fonts: FirstWins, UniqueNames, DuplicateRule,
    DisjointShaping (OTLSem shaping of every short text), Totals, the equivalence of the relational form of the
    naming stage the judge uses, and of the one-shot operator MergeAll with the machine.  The same run explores
    idf = TRUE (the documented identification of equal duplicates, disabled in the code: same properties) and eight
    deliberately wrong stage variants, each of which must be reported (NEG); witnesses (WIT) show that no antecedent
    is vacuous.  A second run (MC_Merge_gen*.cfg) emits the lists of abstract fonts (GEN) for (R).
(R) every emitted list (a seeded sample in the quick tier; 2, 3 and 4 fonts) is realised as real font files
    (FontBuilder, TrueType and CFF flavours alternating, GSUB/GPOS compiled by feaLib), checked to project back
    to the abstract fonts, and merged by the REAL Merger; hand-written richer lists (ligatures, chains with two
    nested lookups, an Extension-wrapped chain, pair kerning, several scripts/languages, duplicates) likewise.
(V) ordered pairs / triples / quadruples of corpus fonts (binaries; in the thorough tier also the compiled whole-font
    TTX files) with equal unitsPerEm and outline flavour, seed-rotated; each list as it is (overlapping characters:
    FirstWins / DuplicateRule) and with the fonts' characters relocated to disjoint private-use blocks (DisjointShaping).
Every case is recorded as projections of the inputs and of the saved result plus HarfBuzz shaping of probe texts
on every input alone and on the merged font; Trace_C18 (TLC) decides every clause.  Model cases are in addition
compared with what Merge!MergeAll predicts (tables exactly, shaping through OTLSem on the predicted layout).
Python only drives and records.
"""
import json
import os
import random
import shutil
import threading
import time

from . import common
from .common import MachineryError

LEVEL = "model_checking"

NEG_BUGS = ["compact-off-by-one", "ctx-not-offset", "dup-reversed", "feature-first-only", "later-wins", "maxp-first",
            "no-fresh-loop", "no-rename"]
WITNESSES = ["disjoint-ctx-offset", "disjoint-gpos", "disjoint-with-lookups", "dup-conflict", "dup-differ-no-mechanism",
             "dup-differ-reachable", "dup-same", "dup-shared-script", "feature-merged", "ignorable-dup", "lookup-compacted",
             "own-locl-prepended", "renamed-past-taken", "renamed-renamed"]


# ---------------------------------------------------------------------------
# (M) and generation
def generate(chk):
    """TLC emits the lists of abstract fonts for (R): all ordered lists of 2, 3 and 4 fonts of the gen families."""
    cfg = "MC_Merge_gen" if chk.tier == "quick" else "MC_Merge_gen_thorough"
    r = chk.tlc("MC_Merge", cfg=cfg, label=cfg, workers=6, timeout=1200)
    by_len = {2: [], 3: [], 4: []}
    for p in r.prints.get("GEN", []):
        fonts = json.loads(p[0])
        by_len[len(fonts)].append(fonts)
    lists = [by_len[2], by_len[3], by_len[4]]
    if min(len(l) for l in lists) < 1000:
        raise MachineryError("%s emitted only %s lists" % (cfg, [len(l) for l in lists]))
    chk.notes["generated_lists"] = {"pairs": len(lists[0]), "triples": len(lists[1]), "quadruples": len(lists[2])}
    return lists


def _mc(chk, cfg, out, errs, workers):
    try:
        out[cfg] = chk.tlc("MC_Merge", cfg=cfg, label=cfg, workers=workers, timeout=3000)
    except Exception as e:  # re-raised in the main thread
        errs.append(e)


def start_model_checking(chk):
    """The exhaustive run, in the background while the real merger is driven."""
    out, errs = {}, []
    main = "MC_Merge" if chk.tier == "quick" else "MC_Merge_thorough"
    th = threading.Thread(target=_mc, args=(chk, main, out, errs, 5 if chk.tier == "quick" else 8))
    th.start()
    time.sleep(0.5)  # chk.tlc numbers its scratch files with a plain counter
    return {"threads": [th], "out": out, "errs": errs, "main": main}


def finish_model_checking(chk, h):
    for th in h["threads"]:
        th.join()
    if h["errs"]:
        raise h["errs"][0]
    r = h["out"][h["main"]]
    chk.log("%s: %d distinct states, %d transitions, depth %d (%.0fs)" % (h["main"], r.distinct, r.generated, r.depth, r.wall))
    wit = {p[0] for p in r.prints.get("WIT", [])}
    missing = [w for w in WITNESSES if w not in wit]
    if missing:
        raise MachineryError("MC_Merge: situations never reached (vacuous antecedents): %s" % missing)
    neg = sorted({p[0] for p in r.prints.get("NEG", [])})
    if neg != NEG_BUGS:
        raise MachineryError("MC_Merge: wrong stage variants reported %s, expected %s" % (neg, NEG_BUGS))
    chk.notes["spec_mutants_distinguished"] = neg
    chk.notes["model_witnesses"] = sorted(wit)
    # the thread updated the counters concurrently with the main thread: recompute them from the run list
    chk.states = sum(x["distinct"] for x in chk.tlc_runs)
    chk.transitions = sum(x["generated"] for x in chk.tlc_runs)


# ---------------------------------------------------------------------------
# cases
def _scale():
    """development aid (mutant triage): VERIF_C18_SCALE < 1 shrinks the samples; evidence notes record it"""
    try:
        return float(os.environ.get("VERIF_C18_SCALE", "1"))
    except ValueError:
        return 1.0


def model_cases(chk, lists):
    rng = random.Random("c18-model-%d" % chk.seed)
    quota = [700, 250, 120] if chk.tier == "quick" else [6000, len(lists[1]), 1500]
    quota = [max(20, int(q * _scale())) for q in quota]
    cases = []
    for ls, q in zip(lists, quota):
        idx = list(range(len(ls)))
        if len(idx) > q:
            idx = sorted(rng.sample(idx, q))
        for k in idx:
            fonts = ls[k]
            flavour = "ttf" if (k + chk.seed) % 2 == 0 else "cff"
            cases.append({"kind": "model", "label": "model:%d/%s/%s" % (len(fonts), common.digest(fonts), flavour), "abstract": fonts,
                          "flavour": flavour, "upem": 2048 if len(fonts) == 3 else 1000})
    return cases


def rich_cases(chk):
    from . import c18_models as M

    cases = []
    reps = 2 if chk.tier == "quick" else 6
    for r in range(reps):
        for li, kinds in enumerate(M.RICH_LISTS):
            flavour = "ttf" if (li + r + chk.seed) % 2 == 0 else "cff"
            cases.append({"kind": "rich", "label": "rich:%s/%s/%d" % ("+".join(kinds), flavour, r), "kinds": kinds, "flavour": flavour,
                          "upem": 1000, "variant": r})
    return cases


def _scan(job):
    """pool scan of one corpus font file: (label, path, upem, flavour, glyphs, chars) or a skip reason"""
    import logging

    logging.disable(logging.CRITICAL)
    label, path = job
    from fontTools.ttLib import TTFont

    try:
        f = TTFont(path, lazy=True)
        fl = "glyf" if "glyf" in f else "CFF" if "CFF " in f else None
        if fl is None:
            return (label, None, "no glyf/CFF outlines (CFF2 or bitmap only)")
        if "name" not in f or "hmtx" not in f or "cmap" not in f or "maxp" not in f:
            return (label, None, "lacks a table the merger requires (name/hmtx/cmap/maxp)")
        n = len(f.getGlyphOrder())
        return (label, path, int(f["head"].unitsPerEm), fl, n, len(f.getBestCmap() or {}))
    except Exception as e:
        return (label, None, "does not load (%s)" % type(e).__name__)


def corpus_pool(chk):
    from . import fonts

    jobs = []
    for p in common.corpus_fonts():
        if fonts.num_fonts_in(p) != 1:
            chk.skip("corpus: font collection (the merger opens single fonts)")
            continue
        jobs.append((common.rel(p), p))
    d = os.path.join(chk.work, "ttx")
    os.makedirs(d, exist_ok=True)
    # the compiled whole-font TTX files of the corpus join the pool in the thorough tier (compiling them takes minutes)
    for k, (p, b) in enumerate(fonts.compiled_ttx_fonts() if chk.tier == "thorough" else []):
        q = os.path.join(d, "t%04d.%s" % (k, "otf" if b[:4] == b"OTTO" else "ttf"))
        with open(q, "wb") as f:
            f.write(b)
        jobs.append((common.rel(p), q))
    pool = {}
    for row in common.pmap(_scan, jobs, procs=12, chunksize=8):
        if row[1] is None:
            chk.skip("corpus: " + row[2])
            continue
        label, path, upem, fl, n, nc = row
        pool.setdefault((upem, fl), []).append({"label": label, "path": path, "n": n, "chars": nc})
    return pool


def corpus_cases(chk, pool):
    from . import c18_project as P

    rng = random.Random("c18-corpus-%d" % chk.seed)
    groups = {k: sorted(v, key=lambda x: x["label"]) for k, v in pool.items() if len(v) >= 2}
    chk.notes["corpus_groups"] = {"%d/%s" % k: len(v) for k, v in sorted(groups.items())}
    budget = int((110 if chk.tier == "quick" else 700) * _scale())
    cases = []
    keys = sorted(groups)
    # every group gets a share; big homogeneous groups (the AOTS suite) do not crowd out the others
    share = {k: max(6, int(budget * (len(groups[k]) ** 0.5) / sum(len(groups[j]) ** 0.5 for j in keys))) for k in keys}
    for k in keys:
        members = groups[k]
        small = [m for m in members if m["n"] <= P.BIG] if chk.tier == "quick" else members
        if len(small) < len(members):
            chk.skip("corpus: font with more than %d glyphs (quick tier)" % P.BIG, len(members) - len(small))
        if len(small) < 2:
            continue
        seen = set()
        for t in range(share[k] * 3):
            if len([c for c in seen]) >= share[k]:
                break
            size = rng.choice([2, 2, 2, 2, 3, 3, 3, 4, 4])
            size = min(size, len(small))
            pick = tuple(rng.sample(range(len(small)), size))
            if pick in seen:
                continue
            seen.add(pick)
            fonts_ = [small[i] for i in pick]
            for variant in ("asis", "pua"):
                cases.append({"kind": "corpus", "label": "corpus:%s:%s" % (variant, "+".join(f["label"] for f in fonts_)),
                              "members": fonts_, "variant": variant})
    return cases


# ---------------------------------------------------------------------------
# worker
_REALIZED = {}


def _realize_cached(af_json, flavour, upem):
    """the gen families have few distinct fonts: a worker realises each (font, flavour, upem) once"""
    from . import c18_models as M

    key = (af_json, flavour, upem)
    if key not in _REALIZED:
        _REALIZED[key] = M.realize(json.loads(af_json), flavour, upem)
    return _REALIZED[key]


def _job(case):
    """Prepare the input files of one case in its own directory, run it, clean up."""
    import logging

    logging.disable(logging.CRITICAL)
    from . import c18_models as M
    from . import c18_project as P

    d = case["dir"]
    os.makedirs(d, exist_ok=True)
    try:
        try:
            paths = []
            if case["kind"] == "model":
                for i, af in enumerate(case["abstract"]):
                    p = os.path.join(d, "in%d.%s" % (i, "ttf" if case["flavour"] == "ttf" else "otf"))
                    with open(p, "wb") as f:
                        f.write(_realize_cached(json.dumps(af, sort_keys=True), case["flavour"], case["upem"]))
                    paths.append(p)
            elif case["kind"] == "rich":
                rng = random.Random("%s|%s" % (case["seed"], case["label"]))
                for i, kind in enumerate(case["kinds"]):
                    p = os.path.join(d, "in%d.%s" % (i, "ttf" if case["flavour"] == "ttf" else "otf"))
                    with open(p, "wb") as f:
                        f.write(M.rich_font(kind, case["flavour"], rng, case["upem"]))
                    paths.append(p)
            else:
                if case["variant"] == "asis":
                    paths = [m["path"] for m in case["members"]]
                else:
                    total = sum(m["chars"] for m in case["members"])
                    base = 0xE000 if total <= 6400 else 0x100000
                    for i, m in enumerate(case["members"]):
                        p = os.path.join(d, "in%d%s" % (i, ".otf" if m["path"].endswith(".otf") else ".ttf"))
                        base += P.relocate_cmap(m["path"], p, base)
                        paths.append(p)
        except MachineryError as e:
            return {"label": case["label"], "error": "machinery: %s" % e}
        except Exception as e:
            if case["kind"] == "corpus":
                return {"label": case["label"], "kind": "corpus", "skips": ["corpus: input cannot be re-saved with a relocated cmap (%s)" % type(e).__name__],
                        "trace": None, "stats": {}}
            import traceback

            return {"label": case["label"], "error": traceback.format_exc()[-1500:]}
        c = dict(case, paths=paths)
        return P.run_case(c)
    finally:
        shutil.rmtree(d, True)


def drive(chk, cases):
    # import everything the workers need before forking (bytecode caching is off: each worker would recompile it)
    import fontTools.feaLib.builder, fontTools.fontBuilder, fontTools.merge, fontTools.pens.recordingPen  # noqa: F401
    import fontTools.pens.t2CharStringPen, fontTools.pens.ttGlyphPen, fontTools.ttLib.tables.otTables  # noqa: F401
    from . import c18_models, c18_project, hb, otl_project, rawsfnt  # noqa: F401

    for k, c in enumerate(cases):
        c["dir"] = os.path.join(chk.work, "case%06d" % k)
        c["seed"] = chk.seed
        c["tier"] = chk.tier
    return common.pmap(_job, cases, procs=12, chunksize=4)


# ---------------------------------------------------------------------------
def _describe(t, clause):
    """human-readable detail of a rejected clause (not a verdict)"""
    try:
        m = t["m"]
        fs = t["fonts"]
        c0, c1 = clause[0], clause[1] if len(clause) > 1 else ""
        if c0 == "Totals":
            return "inputs have %s glyphs; merged: glyph order %d, maxp %d, saved maxp %d, hmtx/outlines %d/%d" % (
                [len(f["names"]) for f in fs], len(m["names"]), m["maxp"], m["fmaxp"], len(m["adv"]), len(m["out"]))
        if c0 == "UniqueNames":
            names = m["names"] if c1 == "glyph-order" else m["fnames"]
            dup = sorted({n for n in names if names.count(n) > 1})
            return "duplicate glyph names %s" % dup[:6]
        if c0 == "FirstWins":
            mc = dict((u, g) for u, g in m["cmap"])
            for i, f in enumerate(fs):
                for u, g in f["cmap"]:
                    if any(u in dict(map(tuple, e["cmap"])) for e in fs[:i]):
                        continue
                    if u not in mc:
                        return "U+%04X of input %d is not mapped" % (u, i + 1)
                    mg = mc[u]
                    if mg - 1 >= len(m["out"]) or (m["out"][mg - 1], m["adv"][mg - 1]) != (f["out"][g - 1], f["adv"][g - 1]):
                        return "U+%04X: input %d (first supporter) glyph %s adv %d; merged glyph #%d %s adv %s" % (
                            u, i + 1, f["names"][g - 1], f["adv"][g - 1], mg, m["names"][mg - 1] if mg - 1 < len(m["names"]) else "?",
                            m["adv"][mg - 1] if mg - 1 < len(m["adv"]) else "?")
        if c0 == "DisjointShaping" or c1.startswith("predicted-layout"):
            for r in t["shape"]:
                a, b = r[4], r[5]
                fa = fs[r[0] - 1]
                ia = [(fa["out"][x[0] - 1], fa["adv"][x[0] - 1]) + tuple(x[1:]) for x in a]
                ib = [(m["out"][x[0] - 1], m["adv"][x[0] - 1]) + tuple(x[1:]) if x[0] - 1 < len(m["out"]) else None for x in b]
                if ia != ib:
                    return "input %d under %s/%s text %s: alone %s, merged %s" % (
                        r[0], r[1], r[2], ["U+%04X" % u for u in r[3]], [fa["names"][x[0] - 1] for x in a],
                        [m["names"][x[0] - 1] if x[0] - 1 < len(m["names"]) else x[0] for x in b])
        if c0 == "DuplicateRule":
            for r in t["locl"]:
                f = fs[r[0] - 1]
                g = dict(map(tuple, f["cmap"]))[r[1]]
                res = r[4]
                if len(res) != 1 or res[0][0] - 1 >= len(m["out"]) or (m["out"][res[0][0] - 1], m["adv"][res[0][0] - 1]) != (f["out"][g - 1], f["adv"][g - 1]):
                    return "U+%04X under %s/%s with locl: merged font gives %s, input %d has %s" % (
                        r[1], r[2], r[3], [m["names"][x[0] - 1] if x[0] - 1 < len(m["names"]) else x[0] for x in res], r[0], f["names"][g - 1])
        if c0 == "Merge":
            return t["raised"]
        if c0 == "Stage" and c1 == "mega-glyph-order":
            return "inputs %s -> %s" % ([f["names"][:6] for f in fs], m["names"][:16])
    except Exception as e:
        return "(no detail: %s)" % e
    return ""


def judge_results(chk, results):
    traces, metas = [], []
    raised = []
    stats = {"disjoint": 0, "overlapping": 0, "shape_rows": 0, "locl_rows": 0, "renamed_glyphs": 0}
    kinds = {}
    for r in results:
        if "error" in r:
            raise MachineryError("harness error on %s:\n%s" % (r["label"], r["error"]))
        for s in r["skips"]:
            chk.skip(s)
        st = r.get("stats", {})
        if "raised" in st:
            raised.append(st["raised"])
        t = r["trace"]
        if t is None:
            continue
        traces.append(t)
        metas.append(r)
        kinds[r["kind"]] = kinds.get(r["kind"], 0) + 1
        if not t["raised"]:
            stats["disjoint" if st.get("disjoint") else "overlapping"] += 1
            stats["shape_rows"] += st.get("nshape", 0)
            stats["locl_rows"] += st.get("nlocl", 0)
            flat = [n for f in t["fonts"] for n in f["names"]]
            ren = sum(1 for a, b in zip(flat, t["m"]["names"]) if a != b)
            stats["renamed_glyphs"] += ren
            layout = any(f["hasgsub"] or f["hasgpos"] for f in t["fonts"])
            if ren and (st.get("dupchars", 0) > 0 or (st.get("disjoint") and layout and st.get("nshape", 0) > 0)):
                chk.nontriv(t["label"])
    chk.count(len(traces))
    chk.notes["cases"] = kinds
    chk.notes["case_stats"] = stats
    chk.notes["merger_raised_on_corpus"] = sorted(set(raised))[:40]
    for t in traces[:2] + [x for x in traces if x["kind"] == "corpus"][:2] + [x for x in traces if x["kind"] == "rich"][:1]:
        chk.sample({"label": t["label"], "inputs": [{"glyphs": len(f["names"]), "chars": len(f["cmap"]), "gsub": f["hasgsub"], "gpos": f["hasgpos"],
                                                     "systems": f["systems"][:4]} for f in t["fonts"]],
                    "merged_names": t["m"]["names"][:12], "shape_rows": len(t["shape"]), "locl_rows": len(t["locl"])})
    chk.log("judging %d merge cases (%s) with TLC" % (len(traces), kinds))
    # big traces first so that chunks are balanced; keep an index to report
    order = sorted(range(len(traces)), key=lambda i: -len(traces[i]["m"]["names"]))
    send = [{k: v for k, v in traces[i].items() if k not in ("label", "kind") and not k.startswith("_")} for i in order]
    back = {id(s): traces[i] for s, i in zip(send, order)}
    rej = chk.judge("Trace_C18", send, chunk=2500, multi=True, timeout=2400, workers=16)
    for s, clauses in rej:
        t = back[id(s)]
        for clause in clauses:
            c0 = clause[0] if clause else "?"
            c1 = clause[1] if len(clause) > 1 else ""
            if c0.startswith("skip:"):
                chk.skip("out of domain: " + c0[5:])
                continue
            key = "%s:%s" % (c0, c1)
            d = _describe(t, clause)
            what = "%s: clause %s %s -- %s" % (t["label"], c0, c1, d)
            chk.reject(key, what, {"label": t["label"], "kind": t["kind"], "clause": clause, "detail": d, "replay_case": t.get("_case")})


def attach_cases(results, cases):
    """keep what is needed to re-run a case in its trace (for replay files)"""
    for r, c in zip(results, cases):
        if r.get("trace") is not None:
            keep = {k: v for k, v in c.items() if k in ("kind", "label", "abstract", "flavour", "upem", "kinds", "variant", "members")}
            r["trace"]["_case"] = keep


def run(chk):
    chk.rule = ("one case = one ordered list of 2..4 font files merged by the real Merger: lists of abstract fonts exported by TLC "
                "(MC_Merge gen configurations) realised in TrueType or CFF flavour, hand-written richer lists, and seed-rotated lists "
                "of corpus fonts with equal unitsPerEm and flavour (as they are, and with their characters relocated to disjoint "
                "private-use blocks); distinct by (inputs, flavour/variant); non-trivial = at least one glyph renamed and either a "
                "character supported by two inputs or (disjoint character sets, an input with layout lookups, HarfBuzz probes compared)")
    t0 = time.time()
    cpu = lambda: sum(os.times()[:4])
    c0 = cpu()
    lists = generate(chk)
    chk.log("TLC exported %s lists of abstract fonts (%.0fs)" % ([len(l) for l in lists], time.time() - t0))
    dev_no_mc = os.environ.get("VERIF_C18_NO_MC") == "1"  # development aid (mutant triage): (M) does not depend on /repo
    mc = None if dev_no_mc else start_model_checking(chk)
    pool = corpus_pool(chk)
    cases = model_cases(chk, lists) + rich_cases(chk) + corpus_cases(chk, pool)
    if _scale() != 1.0:
        chk.notes["sample_scale"] = _scale()
    chk.log("driving the real merger on %d cases" % len(cases))
    results = drive(chk, cases)
    attach_cases(results, cases)
    chk.log("driven in %.0fs wall (cpu so far incl. children %.0fs)" % (time.time() - t0, cpu() - c0))
    if mc is not None:
        finish_model_checking(chk, mc)
    else:
        chk.notes["model_checking"] = "SKIPPED (VERIF_C18_NO_MC=1): not a complete check"
    chk.log("cpu so far incl. children %.0fs" % (cpu() - c0))
    judge_results(chk, [dict(r) for r in results])
    chk.exhaustive = False
    chk.assumptions += [
        "inputs are single-font files with glyf or CFF outlines, equal unitsPerEm and equal flavour; lists the merger refuses "
        "(its own assertion / NotImplementedError / any exception on corpus inputs) are counted as skipped",
        "the character map of an input is the union of its Unicode format 4/12 subtables when they agree (else skipped)",
        "outline identity = equality of the decomposed RecordingPen drawing of the saved files (hinting, subroutinisation ignored)",
        "named deviations of the code modelled in Merge.tla: NeverIdentify (_glyphsAreSame is not called: equal duplicates are "
        "never identified), NoGSUBNoLocl, NoLoclForDFLT, DupConflictDropped, IgnorableNotDisambiguated, SynthLookupLast, "
        "DropsUnknownTables (inputs with kern/AAT/Graphite shaping tables are not shape-compared)",
        "reachability of a differing duplicate is observed only under a language system whose script no other input declares",
        "shaping is compared under language systems the input declares in every layout table it has (HarfBuzz's script fallback, "
        "incl. HBLatnFallback, otherwise differs between the input and the merged font), all feature tags explicitly on",
        "maxp.numGlyphs of the returned TTFont object is read before saving (compile recomputes it)",
    ]


def replay(chk, rep):
    """Re-run the recorded case against the current tree."""
    case = rep["replay"].get("replay_case")
    if not case:
        raise MachineryError("replay file carries no case")
    chk.log("replaying %s" % case["label"])
    if case["kind"] == "corpus":  # compiled-TTX members live in this run's scratch directory: look the paths up again
        by_label = {m["label"]: m for v in corpus_pool(chk).values() for m in v}
        try:
            case["members"] = [by_label[m["label"]] for m in case["members"]]
        except KeyError as e:
            raise MachineryError("replay: corpus font %s not found" % e)
    results = drive(chk, [case])
    attach_cases(results, [case])
    judge_results(chk, results)
