"""C18 (R): abstract fonts of specs/Merge.tla realised as real font files.

  realize(af, flavour, upem)   one abstract font (JSON emitted by MC_Merge, *_gen*.cfg) -> bytes; TrueType ("ttf")
                               or CFF ("cff") outlines via FontBuilder, GSUB / GPOS compiled by feaLib from FEA text
                               generated from the abstract lookups
  fea_of(L, names)             the FEA text
  rich_list(rng, flavour)      hand-written lists of 2..4 fonts with richer layout (ligatures, chained contexts with two
                               nested lookups, pair kerning, several scripts and languages, differing duplicates)
Characters: abstract character u is code point CP(u): U+E000+u (private use), except the character the
configurations may declare default-ignorable (3), which is U+200C.
"""
import io

from .common import MachineryError

CP_BASE = 0xE000
IGN_CHAR = 3
IGN_CP = 0x200C


def CP(u):
    return IGN_CP if u == IGN_CHAR else CP_BASE + u


def _bytes(font):
    buf = io.BytesIO()
    font.save(buf)
    return buf.getvalue()


def _draw(pen, oid, scale=1):
    """outline number oid: one or two boxes whose size depends on oid only (equal ids <=> equal outlines)"""
    if oid == 0:
        return
    x0, y0 = 10 * oid * scale, 0
    x1, y1 = (100 * oid + 50) * scale, (100 + 37 * oid) * scale
    pen.moveTo((x0, y0))
    pen.lineTo((x0, y1))
    pen.lineTo((x1, y1))
    pen.lineTo((x1, y0))
    pen.closePath()
    if oid % 2 == 0:
        pen.moveTo((x0 + 5, y1 + 10))
        pen.lineTo((x0 + 5, y1 + 30))
        pen.lineTo((x1, y1 + 30))
        pen.closePath()


def _glyphset(s, names):
    return "[" + " ".join(names[g - 1] for g in s) + "]"


def _value(v):
    return "<%d %d %d %d>" % tuple(v)


def fea_of(L, names):
    """FEA text whose compilation yields the abstract layout L (lookups in order, features per script/language)."""
    out = []
    nm = lambda g: names[g - 1]
    for tb, pre in (("gsub", "S"), ("gpos", "P")):
        for k, lk in enumerate(L[tb]["lookups"], 1):
            body = []
            if lk.get("flag"):
                raise MachineryError("fea_of: lookup flags not generated")
            for st in lk["st"]:
                ty = lk["ty"]
                if ty == "sub1":
                    body += ["sub %s by %s;" % (nm(a), nm(b)) for a, b in st["m"]]
                elif ty == "sub2":
                    body += ["sub %s by %s;" % (nm(a), " ".join(nm(x) for x in b)) for a, b in st["m"]]
                elif ty == "sub4":
                    body += ["sub %s by %s;" % (" ".join(nm(x) for x in comps), nm(lig)) for comps, lig in st["l"]]
                elif ty == "pos1":
                    body += ["pos %s %s;" % (nm(g), _value(v)) for g, v in st["m"]]
                elif ty == "pos2" and st["f"] == 1:
                    for a, b, v1, v2 in st["p"]:
                        if any(v2):
                            body.append("pos %s %s %s %s;" % (nm(a), _value(v1), nm(b), _value(v2)))
                        else:
                            body.append("pos %s %s %s;" % (nm(a), nm(b), _value(v1)))
                elif ty == "ctx":
                    for r in st["r"]:
                        recs = {}
                        for si, li in r["n"]:
                            recs.setdefault(si, []).append(li)
                        kw = "sub" if tb == "gsub" else "pos"
                        parts = [_glyphset(s, names) for s in reversed(r["b"])]
                        for pi, s in enumerate(r["i"]):
                            parts.append(_glyphset(s, names) + "'" + "".join(" lookup %s%d" % (pre, li) for li in recs.get(pi, [])))
                        parts += [_glyphset(s, names) for s in r["a"]]
                        body.append("%s %s;" % (kw, " ".join(parts)))
                else:
                    raise MachineryError("fea_of: lookup type %r" % ty)
            out.append("lookup %s%d {\n  %s\n} %s%d;" % (pre, k, "\n  ".join(body), pre, k))
    feats = {}
    for tb, pre in (("gsub", "S"), ("gpos", "P")):
        for sc, la, tag, lks, req in L[tb]["fl"]:
            if req:
                raise MachineryError("fea_of: required features not generated")
            feats.setdefault(tag, {}).setdefault((sc, la), []).extend("%s%d" % (pre, i) for i in lks)
    for tag in sorted(feats):
        body = []
        for (sc, la) in sorted(feats[tag], key=lambda x: (x[0], x[1] != "dflt", x[1])):
            body.append("script %s;" % sc)
            body.append("language %s%s;" % (la, "" if la == "dflt" else " exclude_dflt"))
            body += ["lookup %s;" % l for l in feats[tag][(sc, la)]]
        out.append("feature %s {\n  %s\n} %s;" % (tag, "\n  ".join(body), tag))
    return "\n".join(out) + "\n"


def realize(af, flavour, upem=1000, family="VerifC18", fea=None, cmap=None):
    """One abstract font -> font file bytes.  `fea` overrides the generated FEA text; `cmap` overrides the
    code point map ({code point: glyph name})."""
    from fontTools.fontBuilder import FontBuilder
    from fontTools.feaLib.builder import addOpenTypeFeaturesFromString
    from fontTools.pens.t2CharStringPen import T2CharStringPen
    from fontTools.pens.ttGlyphPen import TTGlyphPen

    names = list(af["names"])
    ttf = flavour == "ttf"
    fb = FontBuilder(upem, isTTF=ttf)
    fb.setupGlyphOrder(names)
    fb.setupCharacterMap(cmap if cmap is not None else {CP(u): names[g - 1] for u, g in af["cmap"]})
    metrics = {n: (af["adv"][i], 0) for i, n in enumerate(names)}
    if ttf:
        glyphs = {}
        for i, n in enumerate(names):
            pen = TTGlyphPen(None)
            _draw(pen, af["out"][i])
            glyphs[n] = pen.glyph()
        fb.setupGlyf(glyphs)
        # TTGlyphPen computes xMin: keep lsb consistent with the outline
        glyf = fb.font["glyf"]
        metrics = {n: (af["adv"][i], getattr(glyf[n], "xMin", 0) if glyf[n].numberOfContours else 0) for i, n in enumerate(names)}
    else:
        cs = {}
        for i, n in enumerate(names):
            pen = T2CharStringPen(af["adv"][i], None)
            _draw(pen, af["out"][i])
            cs[n] = pen.getCharString()
        fb.setupCFF(family + "-Regular", {"FullName": family + " Regular"}, cs, {})
    fb.setupHorizontalMetrics(metrics)
    fb.setupHorizontalHeader(ascent=int(upem * 0.8), descent=-int(upem * 0.2))
    fb.setupNameTable({"familyName": family, "styleName": "Regular"})
    fb.setupOS2(sTypoAscender=int(upem * 0.8), sTypoDescender=-int(upem * 0.2), usWinAscent=int(upem * 0.9), usWinDescent=int(upem * 0.25))
    fb.setupPost()
    text = fea if fea is not None else fea_of(af["L"], names)
    if text.strip():
        addOpenTypeFeaturesFromString(fb.font, text)
    return _bytes(fb.font)


# ---------------------------------------------------------------------------
# hand-written richer lists
RICH = {
    # Latin-like font: ligature, chained context calling TWO nested lookups, pair kerning, two scripts, a language
    "lat": dict(
        names=[".notdef", "a", "b", "c", "f", "i", "f_i", "a.alt", "b.alt"],
        chars=[None, 1, 2, 4, 5, 6, None, None, None],
        fea="""
lookup ALT1 { sub a by a.alt; } ALT1;
lookup ALT2 { sub b by b.alt; } ALT2;
lookup UNUSED { sub c by a; } UNUSED;
lookup EXT useExtension { sub c' lookup ALT1 a; sub b' lookup ALT2 b; } EXT;
feature liga { script DFLT; language dflt; sub f i by f_i;
               script latn; language dflt; sub f i by f_i; language TRK exclude_dflt; sub f i by f_i; } liga;
feature ss01 { script latn; language dflt; sub a' lookup ALT1 b' lookup ALT2 c; sub c' lookup ALT1; } ss01;
feature ss02 { script DFLT; language dflt; sub a by b; script latn; language dflt; sub a by b; } ss02;
feature ss04 { script latn; language dflt; lookup EXT; } ss04;
feature kern { script DFLT; language dflt; pos a b -30; pos f_i a <10 0 25 0>;
               script latn; language dflt; pos a b -30; pos f_i a <10 0 25 0>; } kern;
"""),
    # Greek-like font with the same glyph NAMES (all renamed), its own chain and kerning, script grek only
    "grk": dict(
        names=[".notdef", "a", "b", "c", "a.alt", "x"],
        chars=[None, 7, 8, 9, None, 10],
        fea="""
lookup G1 { sub a by a.alt; } G1;
feature ss01 { script grek; language dflt; sub b a' lookup G1; sub c by x; } ss01;
feature kern { script grek; language dflt; pos a c 40; pos x <0 0 -15 0>; } kern;
"""),
    # font without layout
    "plain": dict(names=[".notdef", "p", "q"], chars=[None, 11, 12], fea=""),
    # font whose layout lives under DFLT only, GPOS only
    "dflt": dict(
        names=[".notdef", "m", "n", "a"],
        chars=[None, 13, 14, 15],
        fea="""
feature kern { script DFLT; language dflt; pos m n -55; pos n <0 0 12 0>; } kern;
feature ss03 { script DFLT; language dflt; sub m by a; } ss03;
"""),
    # overlaps with "lat" on characters 1, 2 (differing glyphs), own script cyrl: exercises the locl mechanism
    "ovl": dict(
        names=[".notdef", "a", "b", "z"],
        chars=[None, 1, 2, 16],
        fea="""
feature ss01 { script cyrl; language dflt; sub z by a; } ss01;
"""),
    # overlaps with "lat", shares script latn (locl synthesized into a shared language system)
    "ovl2": dict(
        names=[".notdef", "a", "c"],
        chars=[None, 1, 4],
        fea="""
feature locl { script latn; language dflt; sub a by c; } locl;
"""),
}


def rich_font(kind, flavour, rng, upem=1000, same_as=None):
    r = RICH[kind]
    names = r["names"]
    n = len(names)
    oid0 = {"lat": 10, "grk": 30, "plain": 50, "dflt": 60, "ovl": 80, "ovl2": 90}[kind]
    af = {"names": names, "adv": [500] + [400 + 10 * ((oid0 + i) % 37) for i in range(1, n)],
          "out": [9] + [oid0 + i for i in range(1, n)], "cmap": []}
    if kind in ("ovl", "ovl2") and rng.random() < 0.5:
        # make glyph "a" an identical duplicate of lat's "a"
        af["out"][1] = 11
        af["adv"][1] = 400 + 10 * (11 % 37)
    cmap = {CP(u): names[i] for i, u in enumerate(r["chars"]) if u is not None}
    return realize(af, flavour, upem, family="VerifC18" + kind, fea=r["fea"], cmap=cmap)


RICH_LISTS = [
    ["lat", "grk"], ["grk", "lat"], ["lat", "plain"], ["plain", "lat"], ["lat", "dflt"], ["dflt", "lat"], ["dflt", "grk"],
    ["lat", "grk", "dflt"], ["grk", "dflt", "lat"], ["plain", "grk", "lat", "dflt"], ["dflt", "plain", "lat", "grk"],
    ["lat", "ovl"], ["ovl", "lat"], ["lat", "ovl2"], ["ovl2", "lat"], ["lat", "grk", "ovl"], ["lat", "ovl", "ovl2"],
    ["grk", "lat", "ovl", "dflt"], ["ovl", "ovl2"], ["plain", "ovl", "lat"],
]
