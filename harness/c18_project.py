"""C18: recording one merge case.  Python drives and records; every accept / reject decision is TLC's (Trace_C18).

  project(font, intern, layout)   real TTFont -> abstract font of specs/Merge.tla (names, Unicode cmap, advances,
                                  interned decomposed outlines, GSUB language systems, optional otl_project layout)
  run_case(case)                  realise / load the inputs, call the REAL fontTools.merge.Merger().merge, save the
                                  result, project inputs and result, shape probe texts with HarfBuzz on every input
                                  alone and on the merged font; returns the trace (or a counted skip)
"""
import io
import logging
import os
import random
import struct
import traceback
import unicodedata

from . import common

BIG = 700  # glyphs per input beyond which the quick tier skips a corpus font (judge cost)

SHAPING_TABLES = ("kern", "morx", "mort", "kerx", "trak", "feat", "ankr", "just", "Silf", "Glat", "Gloc", "Feat", "Sill")


def _num(x):
    if isinstance(x, float) and x.is_integer():
        return int(x)
    return x


def _canon(value):
    """RecordingPen value -> hashable canonical form (integral floats as ints, None kept)"""
    out = []
    for op, args in value:
        pts = []
        for a in args:
            if a is None:
                pts.append(None)
            elif isinstance(a, tuple):
                pts.append(tuple(_num(c) for c in a))
            else:
                pts.append(_num(a))
        out.append((op, tuple(pts)))
    return tuple(out)


STANDARD_BMP = {(4, 3, 1), (4, 0, 3), (4, 0, 4), (4, 0, 6)}
STANDARD_FULL = {(12, 3, 10), (12, 0, 4), (12, 0, 6)}


def unicode_cmap(font):
    """The font's Unicode character map {code point: glyph name}, or a reason why the font is outside the domain:
    the OpenType specification pairs format 4 with the BMP encodings (platform 3 encoding 1, platform 0 encodings 3/4/6)
    and format 12 with the full-repertoire encodings (3/10, 0/4, 0/6); the merger reads exactly those (named deviation
    CmapOnlyStandardUnicode: every other subtable is dropped with a warning).  A font that carries Unicode mappings in
    any other form, or whose subtables disagree with each other, has no single character map to preserve."""
    if "cmap" not in font:
        return {}, "no cmap"
    bmp, full = [], []
    for t in font["cmap"].tables:
        key = (t.format, t.platformID, t.platEncID)
        if key in STANDARD_BMP:
            bmp.append(t)
        elif key in STANDARD_FULL:
            full.append(t)
        elif t.format == 14 or not t.isUnicode() or (t.platformID, t.platEncID) == (3, 0):
            continue  # variation sequences, Macintosh / symbol encodings: not part of the Unicode character map
        else:
            return {}, "cmap subtable with a non-standard format/platform/encoding combination (format %d, %d/%d)" % key
    union = {}
    for t in bmp + full:
        for u, g in t.cmap.items():
            if union.setdefault(u, g) != g:
                return union, "Unicode cmap subtables disagree"
    for t in (full if full else bmp):
        if dict(t.cmap) != union:
            return union, "Unicode cmap subtables of one font cover different characters"
    return union, None


def systems_of(table):
    """(all language systems, those with at least one feature, feature tags) of a GSUB/GPOS table object"""
    allsys, withf, tags = [], [], set()
    if table is None or table.ScriptList is None:
        return allsys, withf, tags
    for sr in table.ScriptList.ScriptRecord:
        pairs = []
        if sr.Script.DefaultLangSys is not None:
            pairs.append(("dflt", sr.Script.DefaultLangSys))
        pairs += [(lr.LangSysTag, lr.LangSys) for lr in sr.Script.LangSysRecord]
        for la, ls in pairs:
            allsys.append([str(sr.ScriptTag), str(la)])
            if ls.FeatureIndex or ls.ReqFeatureIndex != 0xFFFF:
                withf.append([str(sr.ScriptTag), str(la)])
    if table.FeatureList is not None:
        tags = {str(fr.FeatureTag) for fr in table.FeatureList.FeatureRecord}
    return allsys, withf, tags


def project(font, intern, layout=False, tolerant=False):
    """`tolerant` (the merged font): a glyph that cannot be drawn or has no metrics is recorded as such (outline
    identity of a sentinel, advance -1) instead of raising -- TLC then names the failing clause"""
    from fontTools.pens.recordingPen import DecomposingRecordingPen

    names = list(font.getGlyphOrder())
    gmap = {n: i + 1 for i, n in enumerate(names)}
    cm, problem = unicode_cmap(font)
    gs = font.getGlyphSet()
    out, adv = [], []
    hmtx = font["hmtx"].metrics
    for n in names:
        try:
            pen = DecomposingRecordingPen(gs)
            gs[n].draw(pen)
            out.append(intern(_canon(pen.value)))
        except Exception as e:
            if not tolerant:
                raise
            out.append(intern(("<undrawable>", type(e).__name__)))
        if n in hmtx:
            adv.append(int(hmtx[n][0]))
        elif tolerant:
            adv.append(-1)
        else:
            raise KeyError(n)
    gsub = font["GSUB"].table if "GSUB" in font else None
    gpos = font["GPOS"].table if "GPOS" in font else None
    sys_all, gsys, gtags = systems_of(gsub)
    _pa, psys, ptags = systems_of(gpos)
    req = False
    for t in (gsub, gpos):
        if t is not None and t.ScriptList is not None:
            for sr in t.ScriptList.ScriptRecord:
                for ls in [sr.Script.DefaultLangSys] + [lr.LangSys for lr in sr.Script.LangSysRecord]:
                    if ls is not None and ls.ReqFeatureIndex != 0xFFFF:
                        req = True
    af = {
        "names": names,
        "cmap": [[int(u), gmap[g]] for u, g in sorted(cm.items()) if g in gmap],
        "adv": adv,
        "out": out,
        "hasgsub": gsub is not None,
        "hasgpos": gpos is not None,
        "systems": sys_all,
        "gsys": gsys,
        "psys": psys,
    }
    info = {"cmap_problem": problem, "tags": sorted(gtags | ptags), "required": req, "gmap": gmap,
            "dangling_cmap": any(g not in gmap for g in cm.values())}
    if layout:
        from . import otl_project

        L, uns = otl_project.project_layout(font, gmap)
        af["L"] = L
        info["unsupported"] = uns
    return af, info


# Default_Ignorable_Code_Point (Unicode DerivedCoreProperties)
_DI = [(0x00AD, 0x00AD), (0x034F, 0x034F), (0x061C, 0x061C), (0x115F, 0x1160), (0x17B4, 0x17B5), (0x180B, 0x180F),
       (0x200B, 0x200F), (0x202A, 0x202E), (0x2060, 0x206F), (0x3164, 0x3164), (0xFE00, 0xFE0F), (0xFEFF, 0xFEFF),
       (0xFFA0, 0xFFA0), (0xFFF0, 0xFFF8), (0x1BCA0, 0x1BCA3), (0x1D173, 0x1D17A), (0xE0000, 0xE0FFF)]


def default_ignorable(cp):
    return any(a <= cp <= b for a, b in _DI)


def ignorable(cp):
    """characters the merger never disambiguates (named deviation IgnorableNotDisambiguated)"""
    return default_ignorable(cp) or cp == 0x25CC


def probe_ok(cp):
    """code points whose shaping is the font's business only (DESIGN section 9 rule 5): not default-ignorable, no
    canonical decomposition, no algorithmic (Hangul) composition, not a surrogate / NUL / separator, not a mark"""
    if cp <= 0 or cp > 0x10FFFF or 0xD800 <= cp <= 0xDFFF or default_ignorable(cp):
        return False
    if 0x1100 <= cp <= 0x11FF or 0xAC00 <= cp <= 0xD7A3 or cp in (0x2028, 0x2029, 0x25CC):
        return False
    d = unicodedata.decomposition(chr(cp))
    if d and not d.startswith("<"):
        return False
    cat = unicodedata.category(chr(cp))
    return cat[0] in "LNPS" or cat == "Co"


def text_ok(cps):
    s = "".join(map(chr, cps))
    return unicodedata.normalize("NFC", s) == s and unicodedata.normalize("NFD", s) == s


def rule_seqs(L, rng, limit):
    """glyph sequences that trigger the rules of a projected layout: every rule's input sequence, with and without
    its context (one representative glyph per coverage position)"""
    seqs = []
    pick = lambda s: rng.choice(s) if s else None
    for tb in ("gsub", "gpos"):
        for lk in L[tb]["lookups"]:
            ty = lk["ty"]
            for st in lk["st"]:
                if ty in ("sub1", "sub2", "sub3", "pos1"):
                    seqs += [[e[0]] for e in st["m"]]
                elif ty == "sub4":
                    seqs += [list(comps) for comps, _lig in st["l"]]
                elif ty == "ctx":
                    for r in st["r"]:
                        i = [pick(s) for s in r["i"]]
                        seqs.append([pick(s) for s in reversed(r["b"])] + i + [pick(s) for s in r["a"]])
                        seqs.append(i)
                elif ty == "rsub":
                    for r in st["r"]:
                        for e in r["m"][:4]:
                            seqs.append([pick(s) for s in reversed(r["b"])] + [e[0]] + [pick(s) for s in r["a"]])
                elif ty == "pos2":
                    if st["f"] == 1:
                        seqs += [[e[0], e[1]] for e in st["p"]]
                    else:
                        seqs += [[pick(e[0]), pick(e[1])] for e in st["c"][:40]]
                elif ty == "curs":
                    en = [e[0] for e in st["m"] if e[1]]
                    seqs += [[e[0], pick(en)] for e in st["m"][:6] if e[2]]
                elif ty in ("mkb", "mkm"):
                    for b in st["bases"][:6]:
                        seqs += [[b[0], m[0]] for m in st["marks"][:3]]
                elif ty == "mkl":
                    for l in st["ligs"][:6]:
                        seqs += [[l[0], m[0]] for m in st["marks"][:3]]
    uniq, seen = [], set()
    for s in seqs:
        if s and None not in s and tuple(s) not in seen:
            seen.add(tuple(s))
            uniq.append(s)
    return uniq if len(uniq) <= limit else rng.sample(uniq, limit)


def feature_dict(tags, only=None):
    from .hb import PLAIN_TAG_BLACKLIST

    if only is not None:
        return {t: (1 if t in only else 0) for t in tags}
    return {t: (0 if t in PLAIN_TAG_BLACKLIST else 1) for t in tags}


def hb_rows(shaper, text, feats, sc, la):
    try:
        res = shaper.shape(codepoints=list(text), features=feats, script=str(sc), language=str(la))
    except MemoryError:
        # HarfBuzz gave up (its operation / buffer limits: e.g. a contextual lookup that keeps re-entering):
        # recorded as a row naming glyph id -1, which no font has
        return [[-1, 0, 0, 0, 0]]
    return [[int(g) + 1, int(xa), int(ya), int(xo), int(yo)] for g, xa, ya, xo, yo in res]


def probe_systems(af):
    """language systems under which "shapes as with that input alone" is a meaningful request (Merge!ProbeSystems);
    recomputed by TLC as the premise of every row -- here only to choose what to shape"""
    g = {tuple(s) for s in af["gsys"]}
    p = {tuple(s) for s in af["psys"]}
    if not af["hasgsub"] and not af["hasgpos"]:
        return [("DFLT", "dflt")]
    out = []
    for s in sorted(g | p):
        if (not af["hasgsub"] or s in g) and (not af["hasgpos"] or s in p):
            out.append(s)
    return out


def choose_texts(af, info, font, rng, limit, exhaustive):
    """probe texts (code point lists) over the input's characters"""
    chars = [u for u, _g in af["cmap"] if probe_ok(u)]
    if not chars:
        return []
    if exhaustive:
        texts = [[a] for a in chars] + [[a, b] for a in chars for b in chars]
        return texts[:limit]
    texts = []
    if "L" in af:
        seqs = rule_seqs(af["L"], rng, limit)
        by_glyph = {}
        for u, g in af["cmap"]:
            if probe_ok(u):
                by_glyph.setdefault(g, u)
        for s in seqs:
            if all(g in by_glyph for g in s):
                texts.append([by_glyph[g] for g in s])
    pick = chars if len(chars) <= 8 else rng.sample(chars, 8)
    texts += [[u] for u in pick]
    for _ in range(max(4, limit // 3)):
        texts.append([rng.choice(chars) for _k in range(rng.randint(2, 3))])
    out, seen = [], set()
    for t in texts:
        if tuple(t) not in seen and text_ok(t):
            seen.add(tuple(t))
            out.append(t)
    return out[:limit]


def relocate_cmap(path, dest, base):
    """Generated variant of a corpus font: the same font with its Unicode characters moved, in order, to the private-use
    code points base, base+1, ...  (so that lists of corpus fonts with pairwise DISJOINT character sets exist)."""
    from fontTools.ttLib import TTFont
    from fontTools.ttLib.tables._c_m_a_p import CmapSubtable

    font = TTFont(path)
    cm, _p = unicode_cmap(font)
    new = {base + i: g for i, (u, g) in enumerate(sorted(cm.items()))}
    fmt = 12 if (new and max(new) > 0xFFFF) else 4
    st = CmapSubtable.newSubtable(fmt)
    st.platformID, st.platEncID, st.language = (3, 10, 0) if fmt == 12 else (3, 1, 0)
    st.cmap = new
    font["cmap"].tables = [st]
    font.flavor = None
    font.save(dest)
    return len(new)


def run_case(case):
    """One merge case in a worker process.  case = {label, kind: model|rich|corpus, paths | abstract fonts, ...}."""
    logging.disable(logging.CRITICAL)
    try:
        return _run_case(case)
    except common.MachineryError as e:
        return {"label": case["label"], "error": "machinery: %s" % e}
    except Exception:
        return {"label": case["label"], "error": traceback.format_exc()[-1500:]}


def _run_case(case):
    from fontTools.ttLib import TTFont
    from fontTools.merge import Merger
    from . import hb, rawsfnt

    label = case["label"]
    kind = case["kind"]
    tier = case["tier"]
    rng = random.Random("%s|%s" % (case["seed"], label))
    out = {"label": label, "kind": kind, "skips": [], "trace": None, "stats": {}}
    model = kind in ("model", "rich")
    paths = case["paths"]
    intern = common.Interner()

    # ---- inputs --------------------------------------------------------
    afs, infos, datas = [], [], []
    dupnames = False
    for p in paths:
        with open(p, "rb") as f:
            datas.append(f.read())
        font = TTFont(p)
        if datas[-1][:4] in (b"wOFF", b"wOF2"):  # HarfBuzz reads plain sfnt: hand it the uncompressed container
            tmp = TTFont(p)
            tmp.flavor = None
            buf = io.BytesIO()
            tmp.save(buf)
            datas[-1] = buf.getvalue()
        if "post" in font and getattr(font["post"], "mapping", None):
            dupnames = True  # the file carries non-unique glyph names; the reader renames them and restores them on save
        if "glyf" not in font and "CFF " not in font:
            out["skips"].append("input without glyf/CFF outlines")
            return out
        if "VARC" in font:
            out["skips"].append("out of domain: outlines composed by a VARC table (no merge policy: dropped, DropsUnknownTables)")
            return out
        af, info = project(font, intern, layout=model or case.get("layout", False))
        info["shaping_tables"] = [t for t in SHAPING_TABLES if t in font]
        info["gdef_classes"] = "GDEF" in font and font["GDEF"].table.GlyphClassDef is not None and bool(font["GDEF"].table.GlyphClassDef.classDefs)
        info["gdef_marks"] = info["gdef_classes"] and 3 in font["GDEF"].table.GlyphClassDef.classDefs.values()
        info["flags"] = any(lk.LookupFlag & 0x0E for tag in ("GSUB", "GPOS") if tag in font and font[tag].table.LookupList
                            for lk in font[tag].table.LookupList.Lookup)
        afs.append(af)
        infos.append(info)
        font.close()
    for info in infos:
        if info["cmap_problem"] and info["cmap_problem"] != "no cmap":
            out["skips"].append("out of domain: " + info["cmap_problem"])
            return out
        if info["dangling_cmap"]:
            out["skips"].append("out of domain: cmap maps to a glyph name outside the glyph order")
            return out
    if model:
        problem = case_matches_abstract(case, afs, infos)
        if problem:
            raise common.MachineryError("realisation of %s is not the abstract font: %s" % (label, problem))

    # ---- the real merger -------------------------------------------------
    raised = ""
    mega = None
    try:
        mega = Merger().merge(list(paths))
        mem_names = list(mega.getGlyphOrder())
        mem_maxp = int(mega["maxp"].numGlyphs)
        buf = io.BytesIO()
        mega.save(buf)
        mdata = buf.getvalue()
    except Exception as e:
        raised = "%s: %s" % (type(e).__name__, str(e)[:120])
        if not model:
            own = isinstance(e, (NotImplementedError, AssertionError)) or type(e) is Exception
            out["skips"].append("merger raised %s%s" % (type(e).__name__, " (its own refusal)" if own else ""))
            out["stats"]["raised"] = "%s :: %s" % (label, raised)
            return out
    trace = {"k": "merge", "kind": kind, "label": label, "fonts": afs, "raised": raised, "pred": False,
             "ign": sorted({u for af in afs for u, _g in af["cmap"] if ignorable(u)})}
    if raised:
        trace["m"] = {"names": [], "fnames": [], "cmap": [], "adv": [], "out": [], "maxp": 0, "fmaxp": 0, "hbn": 0}
        trace["shape"], trace["locl"] = [], []
        out["trace"] = trace
        return out

    # ---- the result, re-read from the saved bytes ---------------------------
    mfont = TTFont(io.BytesIO(mdata))
    maf, minfo = project(mfont, intern, layout=False, tolerant=True)
    if minfo["cmap_problem"]:
        raise common.MachineryError("merged font's cmap: %s" % minfo["cmap_problem"])
    # a cmap entry naming a glyph outside the glyph order is recorded as glyph 0 (never a valid glyph id)
    cm_m, _p = unicode_cmap(mfont)
    maf["cmap"] = [[int(u), minfo["gmap"].get(g, 0)] for u, g in sorted(cm_m.items())]
    raw = rawsfnt.parse(mdata).fonts[0]
    fmaxp = struct.unpack(">H", raw.tables[b"maxp"][4:6])[0]
    carried = "CFF " in mfont or ("post" in mfont and mfont["post"].formatType == 2)
    msh = hb.Shaper(mdata)
    fnames = [msh.glyph_name(g) or "" for g in range(msh.face.glyph_count)] if carried else []
    if dupnames:
        out["skips"].append("an input file carries non-unique glyph names (restored on save): names in the saved file not judged")
        fnames = []
    m = {"names": mem_names, "fnames": fnames, "cmap": maf["cmap"], "adv": maf["adv"], "out": maf["out"],
         "maxp": mem_maxp, "fmaxp": int(fmaxp), "hbn": int(msh.face.glyph_count)}
    trace["m"] = m
    mtags = minfo["tags"]

    # ---- HarfBuzz: every input alone vs the merged font ----------------------
    charsets = [{u for u, _g in af["cmap"]} for af in afs]
    disjoint = all(not (charsets[i] & charsets[j]) for i in range(len(afs)) for j in range(i))
    shape_rows, locl_rows = [], []
    want_all = model  # model cases also carry rows for overlapping character sets (judged against the prediction)
    skipped_hb = []
    shapers = {}
    for i, (af, info) in enumerate(zip(afs, infos)):
        if not (disjoint or want_all):
            break
        if info["shaping_tables"]:
            skipped_hb.append("input has %s (no merge policy: dropped) -- shaping not compared" % "/".join(info["shaping_tables"]))
            continue
        if info["required"]:
            skipped_hb.append("input has a required feature -- shaping not compared")
            continue
        if info["gdef_marks"] and af["hasgpos"] != ("GPOS" in mfont):
            skipped_hb.append("HarfBuzz fallback mark positioning (GDEF marks, GPOS present in only one of input / merged font)")
            continue
        m_gdef = "GDEF" in mfont and mfont["GDEF"].table.GlyphClassDef is not None and bool(mfont["GDEF"].table.GlyphClassDef.classDefs)
        if info["flags"] and info["gdef_classes"] != m_gdef:
            skipped_hb.append("HarfBuzz synthesizes glyph classes for an input without GDEF whose lookups ignore classes")
            continue
        sh = shapers.setdefault(i, hb.Shaper(datas[i]))
        feats = feature_dict(sorted(set(mtags) | set(info["tags"])))
        texts = choose_texts(af, info, None, rng, 40 if tier == "quick" else 120, exhaustive=(kind == "model"))
        systems = probe_systems(af)
        if kind == "corpus" and len(systems) > 2:
            systems = rng.sample(systems, 2)
        for sc, la in systems:
            for t in texts:
                shape_rows.append([i + 1, sc, la, list(t), hb_rows(sh, t, feats, sc, la), hb_rows(msh, t, feats, sc, la)])
    # locl reachability of duplicate characters
    scripts_by_font = [{s[0] for s in af["systems"]} for af in afs]
    for i, af in enumerate(afs):
        if i == 0 or not af["hasgsub"]:
            continue
        excl = [s for s in af["systems"] if s[0] != "DFLT" and all(s[0] not in scripts_by_font[k] for k in range(len(afs)) if k != i)]
        if not excl:
            continue
        earlier = set().union(*charsets[:i])
        dup = [u for u, _g in af["cmap"] if u in earlier and probe_ok(u) and not ignorable(u)]
        if not dup:
            continue
        if len(dup) > 12:
            dup = sorted(rng.sample(dup, 12))
        feats = feature_dict(sorted(set(mtags) | {"locl"}), only={"locl"})
        for sc, la in (excl if len(excl) <= 2 else rng.sample(excl, 2)):
            for u in dup:
                locl_rows.append([i + 1, u, sc, la, hb_rows(msh, [u], feats, sc, la)])
    trace["shape"] = shape_rows
    trace["locl"] = locl_rows
    for s in skipped_hb:
        out["skips"].append(s)
    # model cases: TLC also predicts the merged font with Merge!MergeAll and shapes with OTLSem
    if model:
        uns = [u for info in infos for u in info.get("unsupported", [])]
        trace["pred"] = not uns
        trace["tags"] = mtags
    out["stats"].update({"disjoint": disjoint, "nshape": len(shape_rows), "nlocl": len(locl_rows),
                         "glyphs": len(mem_names), "dupchars": sum(len(charsets[i] & set().union(*charsets[:i])) for i in range(1, len(afs)))})
    out["trace"] = trace
    return out


def case_matches_abstract(case, afs, infos):
    """(R) sanity: the realised inputs ARE the abstract fonts TLC exported (names, characters, advances, outline
    equality pattern, layout).  A mismatch is a harness bug (exit 2), never a verdict."""
    from .c18_models import CP

    if case["kind"] != "model":
        return None
    oid = {}
    for af, ab in zip(afs, case["abstract"]):
        if af["names"] != ab["names"]:
            return "names %s vs %s" % (af["names"], ab["names"])
        if af["cmap"] != sorted([CP(u), g] for u, g in ab["cmap"]):
            return "cmap %s vs %s" % (af["cmap"], ab["cmap"])
        if af["adv"] != ab["adv"]:
            return "adv"
        for real, abst in zip(af["out"], ab["out"]):
            if oid.setdefault(abst, real) != real:
                return "outline ids"
        if af["hasgsub"] != ab["hasgsub"] or af["hasgpos"] != ab["hasgpos"]:
            return "table presence"
        if sorted(af["systems"]) != sorted(list(s) for s in ab["systems"]):
            return "systems %s vs %s" % (af["systems"], ab["systems"])
        for tb in ("gsub", "gpos"):
            a, b = af["L"][tb], ab["L"][tb]
            nf = lambda fl: sorted(repr([e[0], e[1], e[2], list(e[3]), bool(e[4])]) for e in fl)
            if nf(a["fl"]) != nf(b["fl"]):
                return "%s features %s vs %s" % (tb, a["fl"], b["fl"])
            if _norm_lookups(a["lookups"]) != _norm_lookups(b["lookups"]):
                return "%s lookups %s vs %s" % (tb, a["lookups"], b["lookups"])
    if len(set(oid.values())) != len(oid):
        return "distinct abstract outlines realised alike"
    return None


def _norm_lookups(lks):
    out = []
    for lk in lks:
        sts = lk["st"]
        if lk["ty"] == "ctx":  # one Format-3 subtable per rule <-> one subtable with the rules
            sts = [{"r": [r]} for st in sts for r in st["r"]]
        out.append(repr((lk["ty"], lk["flag"], lk["mfs"], _plain(sts))))
    return out


def _plain(x):
    if isinstance(x, dict):
        return sorted((k, _plain(v)) for k, v in x.items())
    if isinstance(x, (list, tuple)):
        return [_plain(v) for v in x]
    return x
