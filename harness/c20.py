"""C20 — damaged or hostile input fails cleanly and is never executed.

(M) MC_ReaderFaults: the reader model (header / directory / table extents) on every truncation
    and header/directory byte flip of small well-formed files.
(V) reader faults on every corpus file judged by TLC against ReaderFaults.Predict;
    undecodable payloads under ignoreDecompileErrors replayed through FontLifecycle (Trace_C01);
    failing saves onto existing destinations (crash-point enumeration, one per table);
    hostile text inputs consumed under an interpreter audit hook, judged by the policy in
    Trace_C20."""
import io
import logging
import os
import random
import re
import shutil
import signal
import sys
import tempfile

from . import common, fonts
from . import rawsfnt as R
from .common import MachineryError

LEVEL = "model_checking"
MARK = "VERIFCANARY"
PREFIX = 4096


class _Timeout(Exception):
    pass


def _alarm(sec):
    def h(signum, frame):
        raise _Timeout()

    signal.signal(signal.SIGALRM, h)
    signal.alarm(sec)


def _outcome(e):
    from fontTools.ttLib import TTLibError

    if e is None:
        return "ok"
    if isinstance(e, TTLibError):
        return "error"
    return "foreign:" + type(e).__name__


def _observe(data, idx, tagids=None, excs=None):
    from fontTools.ttLib import TTFont

    tagids = {} if tagids is None else tagids

    try:
        f = TTFont(io.BytesIO(data), fontNumber=idx, lazy=True)
    except _Timeout:
        raise
    except BaseException as e:  # noqa
        return {"open": _outcome(e), "loads": []}
    loads = []
    for tag in list(f.reader.keys()):
        try:
            f.reader[tag]
            code = 0
        except _Timeout:
            raise
        except BaseException as e:  # noqa
            o = _outcome(e)
            code = 1 if o == "error" else 2
            if code == 2 and excs is not None:
                excs.append(o)
        key = tag.encode("latin-1", "replace")
        if key not in tagids:
            tagids[key] = len(tagids) + 1
        loads.append([tagids[key], code])
    return {"open": "ok", "loads": loads}


def job_reader(args):
    path, idx, seed, thorough = args
    logging.disable(logging.CRITICAL)
    rng = random.Random("%s-%d-%d" % (path, idx, seed))
    with open(path, "rb") as fh:
        data = fh.read()
    n = len(data)
    faults = [{"f": "none"}]
    # structural boundaries from the independent reader
    cuts = {0, 1, 3, 4, 5, 11, 12, 13, 43, 44, 45, 47, 48, 49, n - 1}
    try:
        c = R.parse(data)
        f = c.fonts[min(idx, len(c.fonts) - 1)]
        hdr_end = {"sfnt": 12 + 16 * f.numTables, "ttc": f.dirOffset + 12 + 16 * f.numTables,
                   "woff": 44 + 20 * f.numTables}.get(c.kind, c.header.get("dataOffset", 48))
        dir_start = f.dirOffset if c.kind == "ttc" else 0
        for e in f.entries:
            if e.offset is not None and c.kind != "woff2":
                ln = e.compLength if c.kind == "woff" else e.length
                cuts |= {e.offset - 1, e.offset, e.offset + 1, e.offset + ln - 1, e.offset + ln, e.offset + ln + 1}
        cuts |= {hdr_end - 1, hdr_end, hdr_end + 1, dir_start + 11, dir_start + 12, dir_start + 13, dir_start + 28}
        if c.kind == "ttc":
            cuts |= set(range(8, 12 + 4 * c.header["numFonts"] + 2))
        flip_range = list(range(0, min(hdr_end, 12 + 4 * 8))) + list(range(dir_start, min(hdr_end, n)))
        kind = c.kind
    except Exception:
        flip_range = list(range(0, min(n, 64)))
        kind = "?"
    extra = (range(0, n) if (thorough and n <= 6000) else [rng.randrange(0, n) for _ in range(200 if thorough else 24)])
    cuts |= set(extra)
    for k in sorted(x for x in cuts if 0 <= x < n):
        faults.append({"f": "trunc", "k": k})
    flip_range = sorted(set(flip_range))
    if not thorough and len(flip_range) > 120:
        flip_range = sorted(set(flip_range[:60]) | set(rng.sample(flip_range, 60)))
    for pos in flip_range:
        if pos >= n or pos >= PREFIX:
            continue
        for val in {0x00, 0xFF, data[pos] ^ 0x80}:
            if val != data[pos]:
                faults.append({"f": "flip", "pos": pos, "val": val})
    out = []
    tagids = {}
    _alarm(120)
    try:
        for flt in faults:
            if flt["f"] == "trunc":
                d = data[: flt["k"]]
            elif flt["f"] == "flip":
                d = data[: flt["pos"]] + bytes([flt["val"]]) + data[flt["pos"] + 1 :]
            else:
                d = data
            excs = []
            flt["obs"] = _observe(d, idx, tagids, excs)
            if excs:
                flt["exc"] = excs[0]
            out.append(flt)
    except _Timeout:
        pass
    finally:
        signal.alarm(0)
    return {"k": "reader", "label": "%s#%d" % (common.rel(path), idx), "kind": kind, "base": list(data[:PREFIX]),
            "fileLen": n, "fontNumber": idx, "faults": out, "tags": [list(k) for k in tagids]}


def job_garbage(args):
    i, seed = args
    logging.disable(logging.CRITICAL)
    rng = random.Random("garbage-%d-%d" % (i, seed))
    faults = []
    for _ in range(40):
        ln = rng.randint(0, 64)
        body = bytes(rng.getrandbits(8) for _ in range(ln))
        magic = rng.choice([b"", b"", b"\0\1\0\0", b"OTTO", b"true", b"ttcf", b"wOFF", b"wOF2", b"typ1", b"%!PS"])
        d = (magic + body)[: max(ln, len(magic))]
        tagids = {}
        faults.append({"f": "garbage", "bytes": list(d), "k": len(d), "obs": _observe(d, 0, tagids), "tags": [list(k) for k in tagids]})
    # judged with fileLen = len(bytes): encode as truncation of its own bytes
    recs = []
    for flt in faults:
        recs.append({"k": "reader", "label": "garbage#%d" % i, "kind": "garbage", "base": flt["bytes"], "fileLen": flt["k"],
                     "fontNumber": 0, "faults": [{"f": "trunc", "k": flt["k"], "obs": flt["obs"]}], "tags": flt["tags"]})
    return recs


# ---------------------------------------------------------------- keep raw
def job_keepraw(args):
    path, seed, thorough = args
    from fontTools.ttLib import TTFont
    from . import c01

    logging.disable(logging.CRITICAL)
    rng = random.Random("keepraw-%s-%d" % (path, seed))
    with open(path, "rb") as fh:
        data = fh.read()
    c = R.parse(data)
    if c.kind != "sfnt":
        return []
    f0 = c.fonts[0]
    tags = [e.tag for e in sorted(f0.entries, key=lambda e: e.offset)]
    out = []
    pick = tags if thorough else rng.sample(tags, min(4, len(tags)))
    for tag in pick:
        orig = f0.tables[tag]
        if not orig:
            continue
        variants = {
            "truncated": orig[: len(orig) // 2],
            "cut1": orig[:-1],
            "bitflip": bytes(b ^ (0xFF if rng.random() < 0.08 else 0) for b in orig),
            "garbage": bytes(rng.getrandbits(8) for _ in range(min(len(orig), 64))),
            "one": b"\x07",
        }
        for vname, payload in variants.items():
            if payload == orig:
                continue
            tables = {t: (payload if t == tag else f0.tables[t]) for t in tags}
            blob = R.build_sfnt(f0.sfntVersion, tables)
            stag = tag.decode("latin-1")
            label = "%s[%s:%s]" % (common.rel(path), stag, vname)
            bi = common.Interner()
            events = [{"a": "Open", "tags": sorted(t.decode("latin-1") for t in tags),
                       "blobs": [bi(c01.mask_blob(t.decode("latin-1"), tables[t])) for t in sorted(tags)]}]
            _alarm(20)
            try:
                f = TTFont(io.BytesIO(blob), lazy=True, ignoreDecompileErrors=True, recalcBBoxes=False, recalcTimestamp=False)
                try:
                    tbl = f[stag]
                except _Timeout:
                    raise
                except BaseException as e:  # noqa
                    out.append({"label": label, "escape": type(e).__name__, "stage": "access"})
                    continue
                from fontTools.ttLib.tables.DefaultTable import DefaultTable

                raw = type(tbl) is DefaultTable
                if not raw:
                    out.append({"label": label, "decoded": True})
                    continue  # the damaged payload still decodes: outside this clause
                loaded_before = [t for t in f.reader.keys() if f.isLoaded(t)]
                for t in loaded_before:
                    events.append({"a": "Access", "t": t, "c": 0, "raw": True if t == stag else c01.no_decoder(t)})
                buf = io.BytesIO()
                events.append({"a": "SaveBegin"})
                try:
                    f.save(buf, reorderTables=False)
                except _Timeout:
                    raise
                except BaseException as e:  # noqa
                    out.append({"label": label, "escape": type(e).__name__, "stage": "save"})
                    continue
                nb, order = c01.file_blobs(buf.getvalue(), 0)
                side = [t for t in f.reader.keys() if f.isLoaded(t) and t not in loaded_before]
                if side:
                    out.append({"label": label, "decoded": True})   # other tables got decoded while saving: not a pure pass-through scenario
                    continue
                for t in order:
                    events.append({"a": "Write", "t": t, "b": bi(c01.mask_blob(t, nb[t]))})
                events.append({"a": "SaveEnd"})
                out.append({"label": label, "events": events, "tag": stag, "lazy": "True", "sched": "keepraw:" + vname})
            except _Timeout:
                out.append({"label": label, "timeout": True})
            finally:
                signal.alarm(0)
    return out


# ---------------------------------------------------------------- atomic save
class _Boom(Exception):
    pass


def job_atomic(args):
    path, seed, thorough, work = args
    from fontTools.ttLib import TTFont, TTCollection
    from fontTools.ttLib.tables.DefaultTable import DefaultTable

    logging.disable(logging.CRITICAL)
    rng = random.Random("atomic-%s-%d" % (path, seed))

    class Bomb(DefaultTable):
        def compile(self, ttFont):
            raise _Boom("compile failure injected by the harness")

    out = []
    d = tempfile.mkdtemp(prefix="atomic-", dir=work)
    try:
        tags = [t for t in TTFont(path).keys() if t != "GlyphOrder"]
        pick = tags if thorough else rng.sample(tags, min(3, len(tags)))
        for tag in pick:
            modes = ["sfnt", "woff", "woff2", "ttc", "samefile"] if thorough else [rng.choice(["sfnt", "sfnt", "woff", "woff2"]), "ttc", "samefile"]
            for mode in modes:
                dest = os.path.join(d, "dest-%s-%s.bin" % (re.sub(r"\W", "_", tag), mode))
                before = b"ORIGINAL DESTINATION CONTENT " + os.urandom(8)
                raised = False
                try:
                    if mode == "samefile":
                        shutil.copyfile(path, dest)
                        with open(dest, "rb") as fh:
                            before = fh.read()
                        f = TTFont(dest)
                    else:
                        with open(dest, "wb") as fh:
                            fh.write(before)
                        f = TTFont(path)
                    f[tag] = Bomb(tag)
                    if mode in ("woff", "woff2"):
                        f.flavor = mode
                    if mode == "ttc":
                        ttc = TTCollection()
                        ttc.fonts = [TTFont(path), f]
                        ttc.save(dest)
                    else:
                        f.save(dest)
                except _Boom:
                    raised = True
                except Exception as e:
                    out.append({"skip": "atomic: other exception %s" % type(e).__name__})
                    continue
                exists = os.path.exists(dest)
                after = open(dest, "rb").read() if exists else b""
                out.append({"k": "atomic", "label": "%s[%s:%s]" % (common.rel(path), tag, mode), "mode": mode, "raised": raised,
                            "existedBefore": True, "existsAfter": exists, "before": 1, "after": 1 if after == before else 2,
                            "afterLen": len(after)})
    finally:
        shutil.rmtree(d, True)
    return out


# ---------------------------------------------------------------- audit canaries
_ATTR = re.compile(r'(\s)([A-Za-z_][\w:.-]*)="([^"]*)"')


def ttx_kinds(path, maxbytes=300000):
    """Enumerate (table, element, attribute) kinds with one occurrence offset each."""
    try:
        with open(path, "r", encoding="utf-8", errors="replace") as fh:
            text = fh.read(maxbytes)
    except OSError:
        return {}, ""
    kinds = {}
    table = None
    depth = 0
    for m in re.finditer(r"<(/?)([A-Za-z_][\w:.-]*)((?:\s+[A-Za-z_][\w:.-]*=\"[^\"]*\")*)\s*(/?)>", text):
        close, name, attrs, selfclose = m.groups()
        if close:
            depth -= 1
            if depth == 1:
                table = None
            continue
        if depth == 1 and name != "GlyphOrder":
            table = name
        if depth >= 1:
            for am in _ATTR.finditer(attrs):
                key = (table or name, name, am.group(2))
                if key not in kinds:
                    kinds[key] = (m.start(3) + am.start(3), m.start(3) + am.end(3))
        if not selfclose:
            depth += 1
    return kinds, text


class Auditor:
    """Interpreter audit hook (cannot be removed: one per worker process)."""

    installed = None

    def __init__(self):
        self.events = []
        self.active = False
        self.allow = []
        sys.addaudithook(self.hook)

    def hook(self, event, args):
        if not self.active:
            return
        try:
            if event == "exec":
                code = args[0]
                blob = repr(getattr(code, "co_consts", ())) + repr(getattr(code, "co_names", ()))
                self.events.append({"k": "exec", "marker": MARK in blob, "inside": True})
            elif event == "compile":
                src = args[0]
                if isinstance(src, (bytes, str)) and MARK in (src if isinstance(src, str) else src.decode("latin-1")):
                    # ast.literal_eval parses through compile(); only *execution* is forbidden, so this
                    # is recorded as information (k = "parse")
                    self.events.append({"k": "parse", "marker": True, "inside": True})
            elif event in ("os.system", "subprocess.Popen", "os.exec", "os.posix_spawn", "os.spawn"):
                self.events.append({"k": event, "marker": MARK in repr(args), "inside": True})
            elif event == "import":
                if MARK.lower() in str(args[0]).lower():
                    self.events.append({"k": "import-canary", "marker": True, "inside": True})
            elif event == "open":
                path, mode, flags = args[0], args[1], args[2]
                writing = (isinstance(mode, str) and any(c in mode for c in "wax+")) or (isinstance(flags, int) and flags & (os.O_WRONLY | os.O_RDWR | os.O_CREAT))
                if writing and isinstance(path, (str, bytes)):
                    p = os.path.realpath(os.fsdecode(path))
                    inside = any(p.startswith(a) for a in self.allow) or p.startswith("/dev/")
                    self.events.append({"k": "open-write", "marker": MARK in p, "inside": inside})
        except Exception:
            pass


def _auditor():
    if Auditor.installed is None:
        Auditor.installed = Auditor()
    return Auditor.installed


def job_canary_ttx(args):
    path, key, span, payload_name, work = args
    from fontTools.ttLib import TTFont

    logging.disable(logging.CRITICAL)
    aud = _auditor()
    d = tempfile.mkdtemp(prefix="canary-", dir=work)
    outdir = os.path.join(d, "out")
    os.makedirs(outdir)
    canary = os.path.join(d, MARK + ".fired")
    payloads = {
        "system": "__import__('os').system('touch %s')" % canary,
        "open": "open('%s','w').close()" % canary,
        "lambda": "(lambda: __import__('pathlib').Path('%s').touch())()" % canary,
        "traversal": "../../%s.traversal" % MARK,
        "format": "{0.__class__.__mro__}%s" % MARK,
    }
    with open(path, "r", encoding="utf-8", errors="replace") as fh:
        text = fh.read()
    s, e = span
    val = payloads[payload_name].replace("&", "&amp;").replace('"', "&quot;").replace("<", "&lt;")
    mod = text[:s] + val + text[e:]
    src = os.path.join(d, "in.ttx")
    with open(src, "w", encoding="utf-8") as fh:
        fh.write(mod)
    before = set(os.listdir(d))
    aud.events = []
    aud.allow = [os.path.realpath(outdir)]
    result = "ok"
    _alarm(30)
    aud.active = True
    try:
        f = TTFont()
        f.importXML(src)
        f.save(os.path.join(outdir, "out.ttf"))
    except _Timeout:
        result = "timeout"
    except BaseException as ex:  # noqa: hostile values are expected to be refused
        result = "raised:" + type(ex).__name__
    finally:
        aud.active = False
        signal.alarm(0)
    after = set(os.listdir(d))
    fired = os.path.exists(canary)
    outside = sorted(after - before - {"out"})
    events = [ev for ev in aud.events if ev["k"] != "parse" and (ev["k"] != "exec" or ev["marker"])]
    shutil.rmtree(d, True)
    return {"k": "audit", "label": "%s %s.%s@%s <- %s" % (common.rel(path), key[0], key[1], key[2], payload_name), "input": "ttx",
            "kind": list(key), "payload": payload_name, "result": result, "events": events[:50], "canaryFired": fired,
            "outsideChanged": bool(outside)}


def job_canary_varlib(args):
    name, work, seed = args
    logging.disable(logging.CRITICAL)
    from fontTools.designspaceLib import DesignSpaceDocument, VariableFontDescriptor, RangeAxisSubsetDescriptor
    from fontTools.ttLib import TTFont
    from fontTools import varLib

    aud = _auditor()
    d = tempfile.mkdtemp(prefix="varlib-", dir=work)
    try:
        proj = os.path.join(d, "a", "b", "proj")
        outdir = os.path.join(proj, "out")
        os.makedirs(outdir)
        tdata = os.path.join(common.TESTS, "varLib", "data")
        ttf_dir = os.path.join(proj, "master_ttf_interpolatable")
        os.makedirs(ttf_dir)
        ds = DesignSpaceDocument.fromfile(os.path.join(tdata, "Build.designspace"))
        for src in ds.sources:
            stem = os.path.splitext(os.path.basename(src.filename))[0]
            ttx = os.path.join(tdata, "master_ttx_interpolatable_ttf", stem + ".ttx")
            f = TTFont(recalcTimestamp=False)
            f.importXML(ttx)
            f.save(os.path.join(ttf_dir, stem + ".ttf"))
        vf = VariableFontDescriptor(name=name, axisSubsets=[RangeAxisSubsetDescriptor(name=a.name) for a in ds.axes])
        ds.variableFonts = [vf]
        ds.formatVersion = "5.0"
        dspath = os.path.join(proj, "Hostile.designspace")
        ds.write(dspath)

        def snapshot():
            s = set()
            for root, dirs, files in os.walk(d):
                for fn in files:
                    s.add(os.path.join(root, fn))
            return s

        before = snapshot()
        aud.events = []
        aud.allow = [os.path.realpath(outdir)]
        result = "ok"
        cwd = os.getcwd()
        os.chdir(proj)
        _alarm(120)
        aud.active = True
        try:
            varLib.main([dspath, "--output-dir", outdir, "-q"])
        except _Timeout:
            result = "timeout"
        except SystemExit as ex:
            result = "exit:%s" % ex.code
        except BaseException as ex:  # noqa
            result = "raised:" + type(ex).__name__
        finally:
            aud.active = False
            signal.alarm(0)
            os.chdir(cwd)
        new = snapshot() - before
        outside = [p for p in new if not os.path.realpath(p).startswith(os.path.realpath(outdir))]
        events = [ev for ev in aud.events if ev["k"] != "parse" and (ev["k"] != "exec" or ev["marker"])]
        return {"k": "audit", "label": "varLib.main variable-font name=%r" % name, "input": "designspace", "kind": ["variable-font", "name"],
                "payload": name, "result": result, "events": events[:50], "canaryFired": False, "outsideChanged": bool(outside),
                "created": [os.path.relpath(p, d) for p in sorted(new)][:6]}
    finally:
        shutil.rmtree(d, True)


def run(chk):
    thorough = chk.tier == "thorough"
    seed = chk.seed
    rng = chk.rng
    chk.rule = ("one case = one fault (truncation, byte flip, garbage, damaged payload, failing compile, hostile attribute value) "
                "applied to one corpus input and what the real library did; distinct by (input, fault); non-trivial = the fault "
                "changes what can be read (all but the 'none' control)")
    r = chk.tlc("MC_ReaderFaults", label="reader model", timeout=900)
    chk.log("reader model: %d states" % r.distinct)
    bins = fonts.binaries()
    members = [(p, i) for p in bins for i in range(fonts.num_fonts_in(p))]
    sel = members if thorough else members[:: 2] if seed % 2 == 0 else members[1::2]
    # always include every container kind
    special = [(p, i) for p, i in members if p.lower().endswith((".ttc", ".otc", ".woff", ".woff2"))]
    sel = sorted(set(sel) | set(special))
    recs = common.pmap(job_reader, [(p, i, seed, thorough) for p, i in sel], chunksize=2)
    for g in common.pmap(job_garbage, [(i, seed) for i in range(40 if thorough else 10)]):
        recs.extend(g)
    nf = sum(len(r_["faults"]) for r_ in recs)
    chk.count(nf)
    for r_ in recs:
        for flt in r_["faults"]:
            if flt["f"] != "none":
                chk.nontriv((r_["label"], flt["f"], flt.get("k", flt.get("pos")), flt.get("val")))
    chk.sample({"label": recs[0]["label"], "faults": recs[0]["faults"][1:4]})
    chk.log("reader: %d faults on %d inputs" % (nf, len(recs)))
    rej = chk.judge("Trace_C20", recs, chunk=60, timeout=1500, multi=True)
    for t, items in rej:
        for clause, idx in items:
            flt = t["faults"][idx - 1]
            obs = flt["obs"]
            exc = ""
            if obs["open"].startswith("foreign"):
                exc = obs["open"]
            else:
                exc = flt.get("exc", "")
            key = "%s:%s:%s" % (clause, t["kind"], exc.replace("foreign:", ""))
            desc = {k: v for k, v in flt.items() if k not in ("obs", "bytes")}
            chk.reject(key, "%s on %s fault=%s obs.open=%s" % (clause, t["label"], desc, obs["open"]), {"label": t["label"], "fault": desc, "clause": clause})

    # ---- KeepRaw
    singles = [p for p in bins if fonts.num_fonts_in(p) == 1 and p.lower().endswith((".ttf", ".otf"))]
    ksel = singles if thorough else rng.sample(singles, 60)
    kres = [x for xs in common.pmap(job_keepraw, [(p, seed, thorough) for p in ksel]) for x in xs]
    ktr = []
    nodec = set()
    from . import c01

    for x in kres:
        chk.count()
        if x.get("decoded"):
            chk.skip("keepraw: damaged payload still decodes (outside the clause)")
        elif x.get("timeout"):
            chk.skip("keepraw: decode of damaged payload timed out")
        elif "escape" in x:
            chk.reject("keepraw:exception-escaped-at-%s:%s" % (x["stage"], x["escape"]), "ignoreDecompileErrors=True yet %s escaped at %s: %s" % (x["escape"], x["stage"], x["label"]), x)
        else:
            ktr.append(x)
            chk.nontriv(x["label"])
            for e in x["events"]:
                if e["a"] == "Access" and e["raw"] and c01.no_decoder(e["t"]):
                    nodec.add(e["t"])
    chk.log("keepraw: %d damaged payloads kept raw and re-saved" % len(ktr))
    if ktr:
        # every raw-accessed tag is declared decoder-less for these traces: Access(raw) is then legal,
        # and FontLifecycle demands the bytes be written back verbatim
        rej = chk.judge_steps("Trace_C01", ktr, meta={"noDecoder": sorted(nodec)}, chunk=1500, timeout=900)
        for t, clause, pos in rej:
            if clause.startswith(("trace:", "model:")):
                raise MachineryError("keepraw trace malformed: %s on %s" % (clause, t["label"]))
            chk.reject("keepraw:" + clause, "%s: %s" % (t["label"], clause), {"label": t["label"], "clause": clause})
        chk.sample({"label": ktr[0]["label"], "events": ktr[0]["events"][:8]})

    # ---- AtomicSave
    asel = singles if thorough else rng.sample(singles, 24)
    ares = [x for xs in common.pmap(job_atomic, [(p, seed, thorough, chk.work) for p in asel]) for x in xs]
    atr = []
    for x in ares:
        if "skip" in x:
            chk.skip(x["skip"])
        else:
            atr.append(x)
            chk.count()
            chk.nontriv(x["label"])
    chk.log("atomic: %d failing saves" % len(atr))
    rej = chk.judge("Trace_C20", atr, timeout=600)
    for t, clause in rej:
        clause = [clause[0]]
        chk.reject("%s:%s" % (clause[0], t["mode"]), "%s on %s (after: %d bytes)" % (clause[0], t["label"], t["afterLen"]), t)
    if atr:
        chk.sample(atr[0])

    # ---- audit canaries
    ttxs = common.corpus_files(".ttx")
    allkinds = {}
    for p in sorted(ttxs, key=lambda p: os.path.getsize(p)):
        if os.path.getsize(p) > 400000:
            continue
        kinds, _text = ttx_kinds(p)
        for k, span in kinds.items():
            allkinds.setdefault(k, (p, span))
    chk.notes["ttx_attribute_kinds"] = len(allkinds)
    keys = sorted(allkinds)
    if not thorough:
        keys = rng.sample(keys, min(500, len(keys)))
    jobs = []
    for i, k in enumerate(keys):
        p, span = allkinds[k]
        names = ["system", "open", "lambda", "traversal", "format"] if thorough else [["system", "open", "lambda", "traversal", "format"][(i + seed) % 5]]
        for pn in names:
            jobs.append((p, k, span, pn, chk.work))
    cres = common.pmap(job_canary_ttx, jobs, chunksize=4)
    vnames = ["../../../" + MARK, "..%s..%s%s" % (os.sep, os.sep, MARK), "{0}" + MARK, "sub/../../../" + MARK, "Plain" + MARK]
    cres += common.pmap(job_canary_varlib, [(n, chk.work, seed) for n in vnames])
    chk.count(len(cres))
    for x in cres:
        chk.nontriv(x["label"])
    outcomes = {}
    for x in cres:
        o = x["result"].split(":")[0]
        outcomes[o] = outcomes.get(o, 0) + 1
    chk.notes["canary_outcomes"] = outcomes
    chk.log("audit: %d hostile inputs consumed (%s)" % (len(cres), outcomes))
    rej = chk.judge("Trace_C20", cres, chunk=5000, timeout=600)
    for t, clause in rej:
        chk.reject("%s:%s:%s" % (clause[0], t["input"], ".".join(t["kind"]) if t["input"] == "designspace" else t["kind"][0]),
                   "%s on %s (created: %s)" % (clause[0], t["label"], t.get("created")), {k: v for k, v in t.items() if k != "events"})
    chk.sample({k: v for k, v in cres[0].items()})
    chk.assumptions += [
        "the reader model decides sfnt, TTC and WOFF headers/directories; WOFF2 inputs are judged on the clean-failure clause only",
        "'never executed' is decided by run-time monitoring (interpreter audit events + canary files) of one occurrence of every (table, element, attribute) kind found in the corpus TTX files, not by a proof over all code paths",
        "a compile failure is injected by replacing a table object by one whose compile() raises",
    ]


def replay(chk, rep):
    run(chk)
