"""Shared infrastructure for every check: repository binding, TLC runner, evidence,
verdicts, replays, known findings.  See DESIGN.md section 3."""
import atexit
import hashlib
import json
import os
import random
import re
import shutil
import subprocess
import sys
import tempfile
import time

VERIF = os.path.dirname(os.path.dirname(os.path.abspath(__file__)))
REPO = os.environ.get("VERIF_REPO", "/repo")
SPECS = os.path.join(VERIF, "specs")
# test corpus: the tree under test if it carries one, else /repo's (scratch mutant copies hold only Lib/)
TESTS = os.path.join(REPO, "Tests") if os.path.isdir(os.path.join(REPO, "Tests")) else "/repo/Tests"
TLA_JAR = "/opt/veriftools/tla/tla2tools.jar"
TLA_DEPS = "/opt/veriftools/tla/CommunityModules-deps.jar"


class MachineryError(Exception):
    """Something in the verification machinery failed (exit 2), not a property."""


def bind_repo():
    """Make sure `fontTools` is imported from the tree under test."""
    lib = os.path.join(REPO, "Lib")
    if sys.path[0] != lib:
        sys.path.insert(0, lib)
    import fontTools

    got = os.path.realpath(os.path.dirname(fontTools.__file__))
    want = os.path.realpath(os.path.join(lib, "fontTools"))
    if got != want:
        raise MachineryError("fontTools imported from %s, wanted %s" % (got, want))
    return fontTools


def digest(obj):
    if isinstance(obj, bytes):
        return hashlib.sha256(obj).hexdigest()[:16]
    return hashlib.sha256(
        json.dumps(obj, sort_keys=True, default=repr).encode()
    ).hexdigest()[:16]


class Interner:
    """Injective map from hashable values (bytes, str, tuples) to small integers.
    Equality of ids is exactly equality of values: no hashing assumption."""

    def __init__(self):
        self.ids = {}

    def __call__(self, v):
        i = self.ids.get(v)
        if i is None:
            i = len(self.ids) + 1
            self.ids[v] = i
        return i


class TLCResult:
    def __init__(self):
        self.stdout = ""
        self.exit = None
        self.generated = 0
        self.distinct = 0
        self.depth = 0
        self.rej = []  # (tid, clause...) tuples printed as <<"REJ", ...>>
        self.prints = {}  # tag -> list of payloads
        self.errors = []
        self.wall = 0.0
        self.coverage = {}

    @property
    def ok(self):
        return self.exit == 0 and not self.errors


_TUPLE = re.compile(r'^<<\s*"([A-Z]+)",\s*(.*)>>$', re.S)


def _depth(line):
    """net <<,{,[,( nesting of a TLC output line, ignoring string literals"""
    d = 0
    i = 0
    n = len(line)
    instr = False
    while i < n:
        c = line[i]
        if instr:
            if c == "\\":
                i += 1
            elif c == '"':
                instr = False
        elif c == '"':
            instr = True
        elif line.startswith("<<", i):
            d += 1
            i += 1
        elif line.startswith(">>", i):
            d -= 1
            i += 1
        elif c in "{[(":
            d += 1
        elif c in "}])":
            d -= 1
        i += 1
    return d


def _join_wrapped(lines):
    """TLC pretty-prints values wider than ~80 columns over several lines; re-join a printed
    tuple that starts with << until its brackets balance."""
    out = []
    acc = None
    depth = 0
    for line in lines:
        if acc is None:
            if line.startswith("<<") and _depth(line) > 0:
                acc = [line.strip()]
                depth = _depth(line)
            else:
                out.append(line)
        else:
            acc.append(line.strip())
            depth += _depth(line)
            if depth <= 0:
                out.append(" ".join(acc))
                acc = None
    if acc is not None:
        out.append(" ".join(acc))
    return out


def _parse_tla_string(s):
    # TLC prints strings with \" and \\ escapes
    assert s.startswith('"') and s.endswith('"'), s
    body = s[1:-1]
    out = []
    i = 0
    while i < len(body):
        c = body[i]
        if c == "\\" and i + 1 < len(body):
            n = body[i + 1]
            out.append({"n": "\n", "t": "\t", "r": "\r", "f": "\f"}.get(n, n))
            i += 2
        else:
            out.append(c)
            i += 1
    return "".join(out)


def _parse_simple(s):
    """Parse a small TLA+ value printed on one line: ints, strings, tuples, sets."""
    s = s.strip()
    pos = 0

    def val():
        nonlocal pos
        while s[pos] == " ":
            pos += 1
        if s.startswith("<<", pos):
            pos += 2
            items = []
            while True:
                while s[pos] == " ":
                    pos += 1
                if s.startswith(">>", pos):
                    pos += 2
                    return items
                items.append(val())
                while s[pos] == " ":
                    pos += 1
                if s[pos] == ",":
                    pos += 1
        if s[pos] == "{":
            pos += 1
            items = []
            while True:
                while s[pos] == " ":
                    pos += 1
                if s[pos] == "}":
                    pos += 1
                    return items
                items.append(val())
                while s[pos] == " ":
                    pos += 1
                if s[pos] == ",":
                    pos += 1
        if s[pos] == '"':
            j = pos + 1
            while s[j] != '"':
                j += 2 if s[j] == "\\" else 1
            tok = s[pos : j + 1]
            pos = j + 1
            return _parse_tla_string(tok)
        m = re.match(r"-?\d+", s[pos:])
        if m:
            pos += m.end()
            return int(m.group())
        m = re.match(r"(TRUE|FALSE)", s[pos:])
        if m:
            pos += m.end()
            return m.group() == "TRUE"
        raise ValueError("cannot parse TLA value at %d: %r" % (pos, s[pos : pos + 40]))

    return val()


class Check:
    """One run of one property's check."""

    def __init__(self, pid, tier="quick", seed=0, level="model_checking"):
        self.pid = pid
        self.tier = tier
        self.seed = seed
        self.level = level
        self.rng = random.Random(("%s-%d" % (pid, seed)))
        self.t0 = time.time()
        self.work = tempfile.mkdtemp(prefix="verif-%s-" % pid)
        atexit.register(shutil.rmtree, self.work, True)
        self.evaluations = 0
        self.nontrivial = set()
        self.samples = []
        self.states = 0
        self.transitions = 0
        self.traces_validated = 0
        self.skipped = {}
        self.tlc_runs = []
        self.violations = []
        self.known_hits = []
        self.dup_violations = {}
        self.assumptions = []
        self.notes = {}
        self.rule = ""
        self.exhaustive = None
        self._nrun = 0
        self._known = _load_known()

    # ---- bookkeeping -------------------------------------------------
    def count(self, n=1):
        self.evaluations += n

    def nontriv(self, key):
        self.nontrivial.add(key if isinstance(key, (str, int, tuple)) else digest(key))

    def sample(self, obj, limit=6):
        if len(self.samples) < limit:
            self.samples.append(obj)

    def skip(self, reason, n=1):
        self.skipped[reason] = self.skipped.get(reason, 0) + n

    def log(self, *a):
        print("[%s %6.1fs]" % (self.pid, time.time() - self.t0), *a, flush=True)

    # ---- TLC ---------------------------------------------------------
    def tlc(
        self,
        module,
        cfg=None,
        traces=None,
        workers=16,
        timeout=900,
        simulate=None,
        depth=None,
        env=None,
        coverage=False,
        label=None,
        heap="6g",
        expect_ok=True,
        deadlock=None,
    ):
        """Run TLC on specs/<module>.tla with specs/<cfg>.cfg.  `traces` (a Python
        object) is serialised to JSON and passed through IOEnv.TRACE_FILE."""
        self._nrun += 1
        cfg = cfg or module
        meta = os.path.join(self.work, "m%d" % self._nrun)
        e = dict(os.environ)
        if traces is not None:
            tf = os.path.join(self.work, "traces%d.json" % self._nrun)
            with open(tf, "w") as f:
                json.dump(traces, f, separators=(",", ":"))
            e["TRACE_FILE"] = tf
        if env:
            e.update({k: str(v) for k, v in env.items()})
        cmd = [
            "java",
            "-XX:+UseParallelGC",
            "-Xss128m",  # specification decoders recurse once per byte / point: deep stacks for TLC's worker threads
            "-Xmx" + heap,
            "-cp",
            TLA_JAR + ":" + TLA_DEPS,
            "tlc2.TLC",
            "-workers",
            str(workers),
            "-metadir",
            meta,
            "-noGenerateSpecTE",
            "-config",
            os.path.join(SPECS, cfg + ".cfg"),
        ]
        if coverage:
            cmd += ["-coverage", "1"]
        if simulate:
            cmd += ["-simulate", simulate]
        if depth:
            cmd += ["-depth", str(depth)]
        if deadlock is False:
            cmd += ["-deadlock"]
        cmd += ["-seed", str(self.seed + 1)]
        cmd.append(os.path.join(SPECS, module + ".tla"))
        t0 = time.time()
        try:
            p = subprocess.run(
                cmd, env=e, cwd=self.work, capture_output=True, text=True, timeout=timeout
            )
        except subprocess.TimeoutExpired:
            raise MachineryError("TLC timed out after %ds on %s" % (timeout, module))
        finally:
            shutil.rmtree(meta, True)
        r = TLCResult()
        r.wall = time.time() - t0
        r.stdout = p.stdout
        r.exit = p.returncode
        for line in _join_wrapped(p.stdout.splitlines()):
            m = _TUPLE.match(line)
            if m:
                tag, rest = m.group(1), m.group(2)
                try:
                    payload = _parse_simple("<<" + rest + ">>")
                except Exception:
                    if tag == "REJ":
                        raise MachineryError("cannot parse TLC rejection line: %r" % line[:300])
                    payload = [rest]
                if tag == "REJ":
                    r.rej.append(payload)
                else:
                    r.prints.setdefault(tag, []).append(payload)
                continue
            m = re.match(
                r"^(\d+) states generated, (\d+) distinct states found", line
            )
            if m:
                r.generated, r.distinct = int(m.group(1)), int(m.group(2))
            m = re.match(r"^The depth of the complete state graph search is (\d+)", line)
            if m:
                r.depth = int(m.group(1))
            if line.startswith("Error:"):
                r.errors.append(line)
        self.states += r.distinct
        self.transitions += r.generated
        self.tlc_runs.append(
            {
                "module": module,
                "cfg": cfg,
                "label": label or module,
                "distinct": r.distinct,
                "generated": r.generated,
                "depth": r.depth,
                "wall_s": round(r.wall, 2),
                "exit": r.exit,
                "rejected": len(r.rej),
            }
        )
        if expect_ok and not r.ok:
            tail = "\n".join(p.stdout.splitlines()[-40:]) + "\n" + p.stderr[-2000:]
            raise MachineryError(
                "TLC failed on %s/%s (exit %s):\n%s" % (module, cfg, r.exit, tail)
            )
        return r

    def judge(self, module, traces, cfg=None, key=None, describe=None, chunk=20000, multi=False, **kw):
        """Batch-validate `traces` (list of dicts) with the trace spec `module`:
        each trace is one initial state, the verdict is computed by TLC in Next, rejected
        traces are printed by TLC as <<"REJ", tid, clause>>.  Returns list of
        (trace, clause) for rejected traces."""
        rejected = []
        for base in range(0, len(traces), chunk):
            part = traces[base : base + chunk]
            if not part:
                continue
            r = self.tlc(module, cfg=cfg, traces=part, **kw)
            got = {}
            for payload in r.rej:
                if multi:
                    got.setdefault(payload[0], []).append(payload[1:])
                else:
                    got[payload[0]] = payload[1:]
            # every trace must have produced a verdict state: distinct >= 2*len(part)
            if r.distinct < 2 * len(part):
                raise MachineryError(
                    "%s: TLC judged %d states for %d traces" % (module, r.distinct, len(part))
                )
            for tid, clause in got.items():
                rejected.append((part[tid - 1], clause))
            self.traces_validated += len(part) - len(got)
        return rejected

    def judge_steps(self, module, traces, meta=None, cfg=None, chunk=3000, **kw):
        """Multi-step trace validation: the trace spec consumes events through the design
        spec's actions; it prints <<"ACC", tid>> when a trace is consumed to the end and
        <<"REJ", tid, clause, l>> when an event is refused or an invariant fails.
        Returns [(trace, clause, position)] for rejected traces."""
        rejected = []
        for base in range(0, len(traces), chunk):
            part = traces[base : base + chunk]
            r = self.tlc(module, cfg=cfg, traces={"meta": meta or {}, "traces": part}, **kw)
            rej = {}
            for payload in r.rej:
                rej.setdefault(payload[0], (payload[1], payload[2] if len(payload) > 2 else 0))
            acc = {p[0] for p in r.prints.get("ACC", [])}
            for i, t in enumerate(part, 1):
                if i in rej:
                    rejected.append((t, rej[i][0], rej[i][1]))
                elif i in acc:
                    self.traces_validated += 1
                else:
                    raise MachineryError("%s: trace %d neither accepted nor rejected" % (module, i))
        return rejected

    # ---- verdicts ----------------------------------------------------
    def reject(self, key, what, replay):
        """A property clause was violated on the real code.  `key` identifies the
        root cause (used to match known findings); `replay` is a JSON-able object that
        lets --replay reproduce the case."""
        for k in self._known:
            if k.get("property") == self.pid and k.get("status") == "open" and _kmatch(k, key):
                if key not in [h[0] for h in self.known_hits]:
                    self.known_hits.append((key, k.get("what", what)))
                    print("KNOWN-FINDING: property=%s %s" % (self.pid, k.get("what", what)), flush=True)
                return False
        for v in self.violations:
            if v[0] == key:
                self.dup_violations[key] = self.dup_violations.get(key, 1) + 1
                return True
        os.makedirs(os.path.join(VERIF, "replays"), exist_ok=True)
        name = "%s-%s.json" % (self.pid, digest([key, replay])[:10])
        path = os.path.join(VERIF, "replays", name)
        with open(path, "w") as f:
            json.dump({"property": self.pid, "key": key, "what": what, "replay": replay}, f, indent=1, default=repr)
        self.violations.append((key, what, path))
        if len(self.violations) <= 20:
            print("VIOLATION property=%s replay=%s" % (self.pid, path), flush=True)
            print("  clause: %s :: %s" % (key, what), flush=True)
        return True

    # ---- evidence ----------------------------------------------------
    def finish(self):
        cov = {
            "states": self.states,
            "transitions": self.transitions,
            "traces_validated_against_impl": self.traces_validated,
            "evaluations": self.evaluations,
            "distinct_nontrivial": len(self.nontrivial),
            "rule": self.rule,
            "samples": self.samples[:6] or ["(none)"],
            "tlc_runs": self.tlc_runs,
            "skipped": self.skipped,
            "known_findings_hit": [k for k, _ in self.known_hits],
        }
        if self.exhaustive is not None:
            cov["exhaustive"] = self.exhaustive
        _typed = {"programs": int, "obligations": int, "discharged": int, "disagreements_checked": int, "states": int,
                  "transitions": int, "evaluations": int, "distinct_nontrivial": int, "traces_validated_against_impl": int,
                  "checker_cmd": str, "explanation": str, "rule": str, "trusted_base": list, "samples": list, "exhaustive": bool}
        for k, v in self.notes.items():  # free-form notes must not shadow the schema's typed keys
            if k in _typed and not (isinstance(v, _typed[k]) and not (isinstance(v, bool) and _typed[k] is int)):
                k = k + "_detail"
            cov[k] = v
        ev = {
            "property_id": self.pid,
            "tier": self.tier,
            "seed": self.seed,
            "level": self.level,
            "coverage": cov,
            "assumptions": self.assumptions,
            "wall_s": round(time.time() - self.t0, 2),
            "violations": len(self.violations),
        }
        evdir = "evidence" if os.path.realpath(REPO) == "/repo" else "evidence-scratch"
        os.makedirs(os.path.join(VERIF, evdir), exist_ok=True)
        with open(os.path.join(VERIF, evdir, self.pid + ".json"), "w") as f:
            json.dump(ev, f, indent=1, default=repr)
        self.log(
            "done: %d evaluations, %d nontrivial, %d TLC states, %d traces validated, %d violations, %d known"
            % (
                self.evaluations,
                len(self.nontrivial),
                self.states,
                self.traces_validated,
                len(self.violations),
                len(self.known_hits),
            )
        )
        for k, n in self.dup_violations.items():
            print("  (%d cases share violation key %s)" % (n, k), flush=True)
        return 1 if self.violations else 0


def _load_known():
    p = os.path.join(VERIF, "known_findings.json")
    if not os.path.exists(p):
        return []
    with open(p) as f:
        return json.load(f).get("findings", [])


def _kmatch(k, key):
    pat = k.get("key")
    if pat is None:
        return False
    if k.get("key_is_regex"):
        return re.fullmatch(pat, key) is not None
    return pat == key


def corpus_fonts(exts=(".ttf", ".otf", ".ttc", ".woff", ".woff2", ".otc")):
    out = []
    for root, _, files in os.walk(TESTS):
        for fn in files:
            if fn.lower().endswith(exts):
                out.append(os.path.join(root, fn))
    return sorted(out)


def corpus_files(ext):
    out = []
    for root, _, files in os.walk(TESTS):
        for fn in files:
            if fn.lower().endswith(ext):
                out.append(os.path.join(root, fn))
    return sorted(out)


def rel(path):
    return os.path.relpath(path, os.path.dirname(TESTS))


def pmap(fn, items, procs=14, chunksize=1):
    """Parallel map in forked worker processes (deterministic order)."""
    import multiprocessing as mp

    if len(items) <= 1 or procs <= 1:
        return [fn(x) for x in items]
    ctx = mp.get_context("fork")
    with ctx.Pool(min(procs, len(items))) as pool:
        return pool.map(fn, items, chunksize)
