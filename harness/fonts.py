"""Corpus and generated fonts shared by the whole-font checks."""
import io
import os
import re

from . import common


def binaries():
    """All binary font files of the test corpus (paths)."""
    return common.corpus_fonts()


def whole_font_ttx():
    """TTX files of the corpus that describe a whole font (not a single-table expectation)."""
    out = []
    for p in common.corpus_files(".ttx"):
        try:
            with open(p, "rb") as f:
                head = f.read(400000)
        except OSError:
            continue
        if b"<ttFont" not in head:
            continue
        need = (b"<head>", b"<maxp>", b"<hmtx>", b"<GlyphOrder>", b"<hhea>")
        if all(n in head for n in need) and (b"<glyf>" in head or b"<CFF>" in head or b"<CFF2>" in head):
            out.append(p)
    return out


def compile_ttx(path):
    """Compile a TTX file with the library under test; returns bytes or None."""
    from fontTools.ttLib import TTFont
    import logging

    logging.disable(logging.CRITICAL)
    try:
        f = TTFont(recalcTimestamp=False)
        f.importXML(path)
        buf = io.BytesIO()
        f.save(buf)
        return buf.getvalue()
    except Exception:
        return None
    finally:
        logging.disable(logging.NOTSET)


def _compile_job(p):
    return p, compile_ttx(p)


def compiled_ttx_fonts(paths=None, procs=14):
    paths = whole_font_ttx() if paths is None else paths
    res = common.pmap(_compile_job, paths, procs=procs)
    return [(p, b) for p, b in res if b]


def num_fonts_in(path):
    with open(path, "rb") as f:
        sig = f.read(12)
    if sig[:4] == b"ttcf":
        import struct

        return struct.unpack(">L", sig[8:12])[0]
    return 1


def synthetic_glyf_font(rng, nglyphs=8, max_depth=3, upem=1000):
    """A generated TrueType font with simple glyphs, composites (nested up to max_depth,
    plain XY offsets), odd advances and side bearings; returns the TTFont."""
    from fontTools.fontBuilder import FontBuilder
    from fontTools.pens.ttGlyphPen import TTGlyphPen

    names = [".notdef"] + ["g%d" % i for i in range(1, nglyphs)]
    fb = FontBuilder(upem, isTTF=True)
    fb.setupGlyphOrder(names)
    fb.setupCharacterMap({0xE000 + i: n for i, n in enumerate(names) if i})
    glyphs = {}
    depth = {}
    simple = []
    for i, n in enumerate(names):
        pen = TTGlyphPen({k: None for k in names})
        kind = rng.random()
        if i >= 2 and kind < 0.45 and simple:
            # composite of 1..3 earlier glyphs
            k = rng.randint(1, 3)
            comps = [rng.choice(names[1:i]) for _ in range(k)]
            d = 1 + max(depth[c] for c in comps)
            if d > max_depth:
                comps = [rng.choice(simple) for _ in range(k)]
                d = 1
            for c in comps:
                pen.addComponent(c, (1, 0, 0, 1, rng.randint(-300, 300), rng.randint(-300, 300)))
            depth[n] = d
        elif kind < 0.55 and i:
            depth[n] = 0  # empty glyph
        elif kind < 0.75 and i and kind >= 0.67:
            # point-to-point steps on the boundaries of the WOFF2 glyf transform's coordinate triplet encoding
            # (WOFF2 5.2: classes by |dx|, |dy| < 65 / 769 / 1280 / 4096 ...), one axis at a time and both
            steps = [0, 1, 64, 65, 255, 256, 257, 768, 769, 1279, 1280, 1281, 4095, 4096, 4097]
            x, y = rng.randint(-100, 100), rng.randint(-100, 100)
            pts = [(x, y)]
            for _s in range(rng.randint(3, 8)):
                dx = rng.choice(steps) * rng.choice([-1, 1]) if rng.random() < 0.7 else 0
                dy = rng.choice(steps) * rng.choice([-1, 1]) if (dx == 0 or rng.random() < 0.5) else 0
                x = max(-16000, min(16000, x + dx))
                y = max(-16000, min(16000, y + dy))
                pts.append((x, y))
            pen.moveTo(pts[0])
            for q in pts[1:]:
                pen.lineTo(q)
            pen.closePath()
            depth[n] = 0
            simple.append(n)
        elif kind < 0.67 and i:
            # hairline: a non-empty outline that is flat in exactly one dimension (zero-height or zero-width box);
            # placed so that, used as a component, it tends to stick out of the other components' boxes
            horizontal = rng.random() < 0.5
            fixed = rng.choice([-700, -350, 950, 1400])
            lo, hi = sorted(rng.sample(range(-900, 1600), 2))
            mid = (lo + hi) // 2
            pts = [(lo, fixed), (mid, fixed), (hi, fixed)] if horizontal else [(fixed, lo), (fixed, mid), (fixed, hi)]
            pen.moveTo(pts[0])
            pen.lineTo(pts[1])
            pen.lineTo(pts[2])
            pen.closePath()
            depth[n] = 0
            simple.append(n)
        else:
            for _c in range(rng.randint(1, 3)):
                npts = rng.randint(3, 7)
                pts = [(rng.randint(-200, 900), rng.randint(-300, 900)) for _ in range(npts)]
                pen.moveTo(pts[0])
                j = 1
                while j < npts:
                    if npts - j >= 2 and rng.random() < 0.4:
                        pen.qCurveTo(pts[j], pts[j + 1])
                        j += 2
                    else:
                        pen.lineTo(pts[j])
                        j += 1
                pen.closePath()
            depth[n] = 0
            simple.append(n)
        glyphs[n] = pen.glyph()
    fb.setupGlyf(glyphs)
    metrics = {}
    for n in names:
        g = glyphs[n]
        lsb = getattr(g, "xMin", 0) if g.numberOfContours else 0
        metrics[n] = (rng.choice([0, 500, 600, 600, 600, 1000, 1234]), lsb + rng.choice([0, 0, 0, -7, 13]))
    fb.setupHorizontalMetrics(metrics)
    fb.setupHorizontalHeader(ascent=800, descent=-200)
    fb.setupNameTable({"familyName": "Verif", "styleName": "Regular"})
    fb.setupOS2()
    fb.setupPost()
    return fb.font


def device_gpos_font():
    """A generated TrueType font whose GPOS has long record arrays (> 8 entries, the threshold at which the library
    reads arrays lazily when lazy=True) whose records carry OFFSETS to further tables: PairValueRecords, Class1Records
    and SinglePos values with Device tables, MarkRecords / BaseRecords with anchors that have Device tables."""
    from fontTools.feaLib.builder import addOpenTypeFeaturesFromString
    from fontTools.fontBuilder import FontBuilder
    from fontTools.ttLib.tables._g_l_y_f import Glyph

    bases = ["b%02d" % i for i in range(14)]
    marks = ["m%02d" % i for i in range(12)]
    names = [".notdef"] + bases + marks
    fb = FontBuilder(1000, isTTF=True)
    fb.setupGlyphOrder(names)
    fb.setupCharacterMap({0xE000 + i: n for i, n in enumerate(names) if i})
    fb.setupGlyf({n: Glyph() for n in names})
    fb.setupHorizontalMetrics({n: (500 + 7 * i, 0) for i, n in enumerate(names)})
    fb.setupHorizontalHeader(ascent=800, descent=-200)
    fb.setupNameTable({"familyName": "VerifDevice", "styleName": "Regular"})
    fb.setupOS2()
    fb.setupPost()
    fea = ["table GDEF { GlyphClassDef [%s], , [%s], ; } GDEF;" % (" ".join(bases), " ".join(marks))]
    fea.append("feature kern {")
    for i in range(1, 13):  # 12 specific pairs on the same first glyph: one PairSet with 12 PairValueRecords
        fea.append("  pos b00 b%02d <%d 0 %d 0 <device 11 %d, 12 %d> <device NULL> <device 11 %d> <device NULL>>;" % (i, -10 * i, -10 * i, -(i % 7) - 1, i % 5 + 1, i % 3 + 1))
    fea.append("} kern;")
    fea.append("feature sinf {")
    for i in range(11):  # SinglePos format 2: 11 different values with devices
        fea.append("  pos b%02d <%d 0 %d 0 <device 11 %d> <device NULL> <device 12 %d> <device NULL>>;" % (i + 1, i + 1, 2 * i + 1, i % 4 + 1, -(i % 6) - 1))
    fea.append("} sinf;")
    for k, m in enumerate(marks):
        fea.append("markClass %s <anchor %d %d <device 11 %d> <device NULL>> @MC%d;" % (m, 100 + k, 300 + 2 * k, k % 5 + 1, k % 3))
    fea.append("feature mark {")
    for k, b in enumerate(bases):
        fea.append("  pos base %s <anchor %d 500 <device 12 %d> <device 11 %d>> mark @MC0 <anchor %d 510> mark @MC1 <anchor %d 520 <device 11 -1> <device NULL>> mark @MC2;" % (b, 200 + k, k % 7 - 3 or 1, k % 4 + 1, 210 + k, 220 + k))
    fea.append("} mark;")
    addOpenTypeFeaturesFromString(fb.font, "\n".join(fea))
    import io

    buf = io.BytesIO()
    fb.font.recalcTimestamp = False
    fb.save(buf)
    return buf.getvalue()
