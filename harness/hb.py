"""HarfBuzz as an *observer* (DESIGN.md section 2 and section 9 rule 5).  Reusable.

HarfBuzz only produces trace fields ("shaped these glyphs to those glyphs/positions"); the
accept/reject decision is always a TLA+ operator.  The shaper is configured so that its behaviour
is the plain OpenType lookup-order semantics:

  * input by GLYPH ID: the buffer holds code points U+F0000 + gid (plane-15 private use: general
    category Co, never default-ignorable, no normalisation/composition, no Unicode mark category)
    and a nominal-glyph callback maps them straight to gid, so the font's cmap is not involved;
    alternatively real code points can be given (`codepoints=`), which the caller must have chosen
    outside the default-ignorable / composing ranges;
  * features are passed explicitly ({tag: value}); callers use tags that are off by default and
    not staged specially by the default shaper (ssNN, cvNN, ...);  see PLAIN_TAG_BLACKLIST;
  * direction LTR, script and language set explicitly from OpenType tags;
  * scale = upem, so positions are font units.

Known shaper conventions that remain and that a judging specification has to name:
  HBZeroMarks  glyphs of GDEF class 3 get a zero advance after GPOS (OTLSem mode "hb").

    shape(font_bytes, glyphs=[gid..] | codepoints=[cp..], features={...}, script="DFLT",
          language="dflt", variations=None) -> [(gid, x_advance, y_advance, x_offset, y_offset)]
"""
import uharfbuzz as hb

GID_BASE = 0xF0000

# feature tags the default shaper enables by itself or applies in a separate stage / with special
# treatment: probes that want plain lookup-order semantics must not rely on them
PLAIN_TAG_BLACKLIST = frozenset(
    ["rvrn", "frac", "numr", "dnom", "rand", "aalt", "size", "ltra", "ltrm", "rtla", "rtlm", "vert", "vrt2",
     "vkrn", "vpal", "vhal", "valt", "trak", "HARF", "BUZZ"]
)


class Shaper:
    """A loaded font; keeps the hb objects so that many probes are cheap."""

    def __init__(self, font_bytes, variations=None, index=0):
        self.blob = hb.Blob(font_bytes)
        self.face = hb.Face(self.blob, index)
        self.upem = self.face.upem
        self.otfont = hb.Font(self.face)
        self.otfont.scale = (self.upem, self.upem)
        if variations:
            self.otfont.set_variations(dict(variations))
        # glyph-id input font: same face, nominal glyph = code point - GID_BASE, metrics from otfont
        self.gidfont = hb.Font(self.face)
        self.gidfont.scale = (self.upem, self.upem)
        if variations:
            self.gidfont.set_variations(dict(variations))
        funcs = hb.FontFuncs.create()
        ot = self.otfont
        nglyphs = self.face.glyph_count

        def nominal(font, cp, data):
            g = cp - GID_BASE
            return g if 0 <= g < nglyphs else 0

        funcs.set_nominal_glyph_func(nominal)
        funcs.set_glyph_h_advance_func(lambda font, gid, data: ot.get_glyph_h_advance(gid))
        self.gidfont.funcs = funcs

    # -- helpers -----------------------------------------------------------
    def nominal_glyph(self, codepoint):
        return self.otfont.get_nominal_glyph(codepoint)

    def h_advance(self, gid):
        return self.otfont.get_glyph_h_advance(gid)

    def glyph_name(self, gid):
        return self.otfont.get_glyph_name(gid)

    def draw_glyph(self, gid):
        """Outline as a list of (op, [coords...]) with op in M L Q C Z."""
        out = []
        funcs = hb.DrawFuncs()
        funcs.set_move_to_func(lambda x, y, d: out.append(("M", [x, y])))
        funcs.set_line_to_func(lambda x, y, d: out.append(("L", [x, y])))
        funcs.set_quadratic_to_func(lambda cx, cy, x, y, d: out.append(("Q", [cx, cy, x, y])))
        funcs.set_cubic_to_func(lambda c1x, c1y, c2x, c2y, x, y, d: out.append(("C", [c1x, c1y, c2x, c2y, x, y])))
        funcs.set_close_path_func(lambda d: out.append(("Z", [])))
        self.otfont.draw_glyph(gid, funcs)
        return out

    def has_gdef_classes(self):
        return self.face.has_layout_glyph_classes

    def script_tags(self, table):
        return list(self.face.get_table_script_tags(table))

    # -- shaping -----------------------------------------------------------
    def shape(self, glyphs=None, codepoints=None, features=None, script="DFLT", language="dflt"):
        buf = hb.Buffer()
        if glyphs is not None:
            buf.add_codepoints([GID_BASE + g for g in glyphs])
            font = self.gidfont
        else:
            buf.add_codepoints(list(codepoints))
            font = self.otfont
        buf.direction = "LTR"
        buf.set_script_from_ot_tag(script)
        buf.set_language_from_ot_tag(language)
        buf.cluster_level = hb.BufferClusterLevel.MONOTONE_CHARACTERS
        hb.shape(font, buf, dict(features or {}))
        return [
            (i.codepoint, p.x_advance, p.y_advance, p.x_offset, p.y_offset)
            for i, p in zip(buf.glyph_infos, buf.glyph_positions)
        ]

    def shape_rel(self, glyphs, features=None, script="DFLT", language="dflt"):
        """Like shape() on glyph ids, but advances are reported relative to the nominal advance of
        the OUTPUT glyph (the form OTLSem!Shape produces)."""
        return [
            (g, xa - self.h_advance(g), ya, xo, yo)
            for g, xa, ya, xo, yo in self.shape(glyphs=glyphs, features=features, script=script, language=language)
        ]


def shape(font_bytes, glyphs=None, codepoints=None, features=None, script="DFLT", language="dflt", variations=None):
    return Shaper(font_bytes, variations).shape(glyphs, codepoints, features, script, language)
