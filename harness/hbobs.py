"""Minimal HarfBuzz observer (uharfbuzz): an independent OpenType reader of compiled fonts."""
import uharfbuzz as hb


def _font(data):
    face = hb.Face(data)
    font = hb.Font(face)
    font.scale = (face.upem, face.upem)
    return font


def advances(data, n):
    font = _font(data)
    return [font.get_glyph_h_advance(g) for g in range(n)]


def nominal(data, codepoints):
    font = _font(data)
    return [font.get_nominal_glyph(c) or 0 for c in codepoints]
