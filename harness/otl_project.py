"""Structural projection of real fontTools GSUB / GPOS / GDEF table objects into the abstract
layout JSON documented at the top of specs/OTLSem.tla.  Reusable (any font).

    layout, unsupported = project_layout(font, gmap, adv=None)

  * `font`  a TTFont (tables are read through font[tag].table) or a dict {"GSUB": otTables.GSUB, ...};
  * `gmap`  glyph name -> small integer >= 1.  Glyphs outside the map are outside the probe
            universe: they are dropped from coverages / classes, rules that can no longer match
            are dropped, and a rule that could still match but would OUTPUT an unmapped glyph is
            reported in `unsupported` (so the caller can skip-and-count) and dropped;
  * `adv`   optional {glyph name: nominal advance}; default: read from font["hmtx"] when present.

Coverage and ClassDef tables are expanded to glyph lists (class 0 = the universe minus the classified
glyphs), all subtable formats are flattened into ordered rules, Extension lookups are unwrapped.
`unsupported` is a list of (where, reason) for constructs the abstract form does not carry
(FeatureVariations, variation/device deltas, unknown lookup types, escaping outputs).
Only structure is copied; no shaping decision is taken here.
"""


class _Proj:
    def __init__(self, gmap):
        self.gmap = gmap
        self.universe = sorted(set(gmap.values()))
        self.unsupported = []

    # ---- glyph helpers -------------------------------------------------
    def g(self, name):
        return self.gmap.get(name)

    def gs(self, names):
        """glyph names -> sorted list of mapped ids"""
        return sorted({self.gmap[n] for n in names if n in self.gmap})

    def cov(self, coverage):
        return [] if coverage is None else self.gs(coverage.glyphs)

    def classes(self, classdef, restrict=None):
        """ClassDef -> function class -> sorted glyph ids (class 0 = rest of `restrict` or universe)."""
        defs = {} if classdef is None else dict(classdef.classDefs)
        by = {}
        for name, c in defs.items():
            if name in self.gmap and c != 0:
                by.setdefault(c, set()).add(self.gmap[name])
        classified = set().union(*by.values()) if by else set()
        base = set(self.universe if restrict is None else restrict)
        by[0] = base - classified
        return lambda c: sorted(by.get(c, ()))

    def note(self, where, reason):
        self.unsupported.append((where, reason))

    # ---- values / anchors --------------------------------------------------
    def value(self, v, where):
        if v is None:
            return [0, 0, 0, 0]
        for dev in ("XPlaDevice", "YPlaDevice", "XAdvDevice", "YAdvDevice"):
            d = getattr(v, dev, None)
            if d is not None and getattr(d, "DeltaFormat", 0) == 0x8000:
                self.note(where, "variation-index device in value record")
        return [int(getattr(v, a, 0) or 0) for a in ("XPlacement", "YPlacement", "XAdvance", "YAdvance")]

    def anchor(self, a, where):
        if a is None:
            return []
        if getattr(a, "Format", 1) == 3:
            for dev in ("XDeviceTable", "YDeviceTable"):
                d = getattr(a, dev, None)
                if d is not None and getattr(d, "DeltaFormat", 0) == 0x8000:
                    self.note(where, "variation-index device in anchor")
        return [int(a.XCoordinate), int(a.YCoordinate)]

    # ---- GSUB --------------------------------------------------------------
    def sub1(self, st, w):
        out = []
        for a, b in st.mapping.items():
            if a in self.gmap:
                if b in self.gmap:
                    out.append([self.gmap[a], self.gmap[b]])
                else:
                    self.note(w, "output glyph outside probe universe")
        return {"m": sorted(out)}

    def sub2(self, st, w, attr="mapping"):
        out = []
        for a, bs in getattr(st, attr).items():
            if a in self.gmap:
                if all(b in self.gmap for b in bs):
                    out.append([self.gmap[a], [self.gmap[b] for b in bs]])
                else:
                    self.note(w, "output glyph outside probe universe")
        return {"m": sorted(out)}

    def sub4(self, st, w):
        out = []
        for first, ligs in st.ligatures.items():
            for lig in ligs:  # LigatureSet order is significant
                comps = [first] + list(lig.Component)
                if all(c in self.gmap for c in comps):
                    if lig.LigGlyph in self.gmap:
                        out.append([[self.gmap[c] for c in comps], self.gmap[lig.LigGlyph]])
                    else:
                        self.note(w, "output glyph outside probe universe")
        return {"l": out}

    def rsub(self, st, w):
        m = []
        for a, b in zip(st.Coverage.glyphs, st.Substitute):
            if a in self.gmap:
                if b in self.gmap:
                    m.append([self.gmap[a], self.gmap[b]])
                else:
                    self.note(w, "output glyph outside probe universe")
        return {"r": [{"b": [self.cov(c) for c in st.BacktrackCoverage], "a": [self.cov(c) for c in st.LookAheadCoverage], "m": sorted(m)}]}

    # ---- contexts (GSUB 5/6, GPOS 7/8) ---------------------------------------
    def ctx(self, st, w, typ, chain):
        T = "Sub" if typ == "GSUB" else "Pos"
        C = "Chain" if chain else ""
        recattr = ("Subst" if typ == "GSUB" else "Pos") + "LookupRecord"

        def recs(rule):
            return [[int(r.SequenceIndex), int(r.LookupListIndex) + 1] for r in (getattr(rule, recattr) or [])]

        rules = []
        fmt = st.Format
        if fmt == 1:
            sets = getattr(st, C + T + "RuleSet")
            for first, rs in zip(st.Coverage.glyphs, sets):
                if rs is None or first not in self.gmap:
                    continue
                for rule in getattr(rs, C + T + "Rule"):
                    seqs = {
                        "b": list(rule.Backtrack) if chain else [],
                        "i": [first] + list(rule.Input),
                        "a": list(rule.LookAhead) if chain else [],
                    }
                    if not all(n in self.gmap for part in seqs.values() for n in part):
                        continue  # cannot match inside the universe
                    rules.append({k: [[self.gmap[n]] for n in v] for k, v in seqs.items()} | {"n": recs(rule)})
        elif fmt == 2:
            cov = self.cov(st.Coverage)
            if chain:
                bc, ic, ac = self.classes(st.BacktrackClassDef), self.classes(st.InputClassDef), self.classes(st.LookAheadClassDef)
            else:
                bc = ac = None
                ic = self.classes(st.ClassDef)
            sets = getattr(st, C + T + "ClassSet")
            for c0, cs in enumerate(sets):
                if cs is None:
                    continue
                first = [x for x in ic(c0) if x in cov]
                for rule in getattr(cs, C + T + "ClassRule"):
                    inp = list(rule.Input) if chain else list(rule.Class)
                    r = {
                        "b": [bc(c) for c in rule.Backtrack] if chain else [],
                        "i": [first] + [ic(c) for c in inp],
                        "a": [ac(c) for c in rule.LookAhead] if chain else [],
                        "n": recs(rule),
                    }
                    if all(r["i"]) and all(r["b"]) and all(r["a"]):
                        rules.append(r)
        elif fmt == 3:
            r = {
                "b": [self.cov(c) for c in st.BacktrackCoverage] if chain else [],
                "i": [self.cov(c) for c in (st.InputCoverage if chain else st.Coverage)],
                "a": [self.cov(c) for c in st.LookAheadCoverage] if chain else [],
                "n": recs(st),
            }
            if r["i"] and all(r["i"]) and all(r["b"]) and all(r["a"]):
                rules.append(r)
        else:
            self.note(w, "context format %r" % fmt)
        return {"r": rules}

    # ---- GPOS --------------------------------------------------------------
    def pos1(self, st, w):
        out = []
        for i, name in enumerate(st.Coverage.glyphs):
            if name in self.gmap:
                v = st.Value if st.Format == 1 else st.Value[i]
                out.append([self.gmap[name], self.value(v, w)])
        return {"m": sorted(out)}

    def pos2(self, st, w):
        v2 = bool(st.ValueFormat2)
        if st.Format == 1:
            pairs = []
            for first, pset in zip(st.Coverage.glyphs, st.PairSet):
                if first not in self.gmap:
                    continue
                for rec in pset.PairValueRecord:
                    if rec.SecondGlyph in self.gmap:
                        pairs.append([self.gmap[first], self.gmap[rec.SecondGlyph], self.value(rec.Value1, w), self.value(rec.Value2, w)])
            return {"f": 1, "v2": v2, "p": pairs}
        cov = self.cov(st.Coverage)
        c1 = self.classes(st.ClassDef1, restrict=cov)
        c2 = self.classes(st.ClassDef2)
        out = []
        for i, r1 in enumerate(st.Class1Record):
            s1 = [x for x in c1(i) if x in cov]
            if not s1:
                continue
            for j, r2 in enumerate(r1.Class2Record):
                a, b = self.value(r2.Value1, w), self.value(r2.Value2, w)
                s2 = c2(j)
                if s2 and (any(a) or any(b)):
                    out.append([s1, s2, a, b])
        return {"f": 2, "v2": v2, "cov": cov, "c": out}

    def curs(self, st, w):
        out = []
        for name, rec in zip(st.Coverage.glyphs, st.EntryExitRecord):
            if name in self.gmap:
                out.append([self.gmap[name], self.anchor(rec.EntryAnchor, w), self.anchor(rec.ExitAnchor, w)])
        return {"m": sorted(out)}

    def marks(self, coverage, array, w):
        out = []
        for name, rec in zip(coverage.glyphs, array.MarkRecord):
            if name in self.gmap:
                out.append([self.gmap[name], int(rec.Class), self.anchor(rec.MarkAnchor, w)])
        return sorted(out)

    def mkb(self, st, w):
        bases = []
        for name, rec in zip(st.BaseCoverage.glyphs, st.BaseArray.BaseRecord):
            if name in self.gmap:
                bases.append([self.gmap[name], [self.anchor(a, w) for a in rec.BaseAnchor]])
        return {"marks": self.marks(st.MarkCoverage, st.MarkArray, w), "bases": sorted(bases)}

    def mkm(self, st, w):
        bases = []
        for name, rec in zip(st.Mark2Coverage.glyphs, st.Mark2Array.Mark2Record):
            if name in self.gmap:
                bases.append([self.gmap[name], [self.anchor(a, w) for a in rec.Mark2Anchor]])
        return {"marks": self.marks(st.Mark1Coverage, st.Mark1Array, w), "bases": sorted(bases)}

    def mkl(self, st, w):
        ligs = []
        for name, att in zip(st.LigatureCoverage.glyphs, st.LigatureArray.LigatureAttach):
            if name in self.gmap:
                ligs.append([self.gmap[name], [[self.anchor(a, w) for a in comp.LigatureAnchor] for comp in att.ComponentRecord]])
        return {"marks": self.marks(st.MarkCoverage, st.MarkArray, w), "ligs": sorted(ligs)}

    # ---- lookups / tables -------------------------------------------------------
    GSUB_TY = {1: "sub1", 2: "sub2", 3: "sub3", 4: "sub4", 5: "ctx", 6: "ctx", 8: "rsub"}
    GPOS_TY = {1: "pos1", 2: "pos2", 3: "curs", 4: "mkb", 5: "mkl", 6: "mkm", 7: "ctx", 8: "ctx"}

    def lookup(self, tag, idx, lk):
        w = "%s lookup %d" % (tag, idx)
        subs = []
        ltype = lk.LookupType
        for st in lk.SubTable:
            if (tag, ltype) in (("GSUB", 7), ("GPOS", 9)):
                ltype_eff, st = st.ExtensionLookupType, st.ExtSubTable
            else:
                ltype_eff = ltype
            subs.append((ltype_eff, st))
        types = {t for t, _ in subs}
        if len(types) > 1:
            self.note(w, "extension subtables of different types")
        t = subs[0][0] if subs else ltype
        ty = (self.GSUB_TY if tag == "GSUB" else self.GPOS_TY).get(t)
        if ty is None:
            self.note(w, "lookup type %r" % t)
            return {"ty": "none", "flag": 0, "mfs": 0, "st": []}
        out = []
        for t_eff, st in subs:
            if tag == "GSUB":
                if t_eff == 1:
                    out.append(self.sub1(st, w))
                elif t_eff == 2:
                    out.append(self.sub2(st, w))
                elif t_eff == 3:
                    out.append(self.sub2(st, w, "alternates"))
                elif t_eff == 4:
                    out.append(self.sub4(st, w))
                elif t_eff in (5, 6):
                    out.append(self.ctx(st, w, tag, t_eff == 6))
                elif t_eff == 8:
                    out.append(self.rsub(st, w))
            else:
                if t_eff == 1:
                    out.append(self.pos1(st, w))
                elif t_eff == 2:
                    out.append(self.pos2(st, w))
                elif t_eff == 3:
                    out.append(self.curs(st, w))
                elif t_eff == 4:
                    out.append(self.mkb(st, w))
                elif t_eff == 5:
                    out.append(self.mkl(st, w))
                elif t_eff == 6:
                    out.append(self.mkm(st, w))
                elif t_eff in (7, 8):
                    out.append(self.ctx(st, w, tag, t_eff == 8))
        flag = int(lk.LookupFlag)
        mfs = (int(lk.MarkFilteringSet) + 1) if (flag & 0x10 and getattr(lk, "MarkFilteringSet", None) is not None) else 0
        return {"ty": ty, "flag": flag, "mfs": mfs, "st": out}

    def table(self, tag, t):
        if t is None:
            return {"lookups": [], "fl": []}
        lookups = []
        if t.LookupList is not None:
            for i, lk in enumerate(t.LookupList.Lookup):
                lookups.append(self.lookup(tag, i, lk))
        fl = []
        frecs = t.FeatureList.FeatureRecord if t.FeatureList is not None else []
        if t.ScriptList is not None:
            for srec in t.ScriptList.ScriptRecord:
                systems = []
                if srec.Script.DefaultLangSys is not None:
                    systems.append(("dflt", srec.Script.DefaultLangSys))
                for lrec in srec.Script.LangSysRecord:
                    systems.append((lrec.LangSysTag, lrec.LangSys))
                for ltag, ls in systems:
                    idxs = [(i, False) for i in ls.FeatureIndex]
                    if ls.ReqFeatureIndex != 0xFFFF:
                        idxs.append((ls.ReqFeatureIndex, True))
                    for fi, req in idxs:
                        fr = frecs[fi]
                        fl.append([srec.ScriptTag, ltag, fr.FeatureTag, [int(x) + 1 for x in fr.Feature.LookupListIndex], req])
        if getattr(t, "FeatureVariations", None) is not None:
            self.note(tag, "FeatureVariations present (default location projected only)")
        return {"lookups": lookups, "fl": fl}

    def gdef(self, t):
        n = max(self.universe) if self.universe else 0
        out = {"cls": [], "mac": [], "sets": []}
        if t is None:
            return out
        if t.GlyphClassDef is not None and t.GlyphClassDef.classDefs:
            cls = [0] * n
            for name, c in t.GlyphClassDef.classDefs.items():
                if name in self.gmap:
                    cls[self.gmap[name] - 1] = int(c)
            out["cls"] = cls
        if getattr(t, "MarkAttachClassDef", None) is not None and t.MarkAttachClassDef.classDefs:
            mac = [0] * n
            for name, c in t.MarkAttachClassDef.classDefs.items():
                if name in self.gmap:
                    mac[self.gmap[name] - 1] = int(c)
            out["mac"] = mac
        mg = getattr(t, "MarkGlyphSetsDef", None)
        if mg is not None:
            out["sets"] = [self.cov(c) for c in mg.Coverage]
        return out


def project_layout(font, gmap, adv=None):
    def tab(tag):
        try:
            if isinstance(font, dict):
                return font.get(tag)
            return font[tag].table if tag in font else None
        except KeyError:
            return None

    p = _Proj(gmap)
    n = max(p.universe) if p.universe else 0
    advs = [0] * n
    if adv is None and not isinstance(font, dict) and "hmtx" in font:
        adv = {name: font["hmtx"].metrics[name][0] for name in gmap if name in font["hmtx"].metrics}
    for name, a in (adv or {}).items():
        if name in gmap:
            advs[gmap[name] - 1] = int(a)
    layout = {
        "gdef": p.gdef(tab("GDEF")),
        "gsub": p.table("GSUB", tab("GSUB")),
        "gpos": p.table("GPOS", tab("GPOS")),
        "adv": advs,
    }
    return layout, p.unsupported
