"""Independent reader for sfnt / TTC / WOFF / WOFF2 containers and the handful of tables
whose derived fields the properties talk about (head, maxp, hhea/vhea, hmtx/vmtx, loca,
glyf).  Written from the OpenType, WOFF 1.0 and WOFF 2.0 texts; uses only struct, zlib
and brotli — never fontTools — so that it can serve as the observer that turns bytes
written by fontTools into integer fields for TLC."""
import struct
import zlib


class RawError(Exception):
    pass


def pad4(n):
    return (n + 3) & ~3


def wordsum(data):
    """OpenType table checksum: sum of big-endian uint32 words, zero padded, mod 2^32."""
    rem = len(data) % 4
    if rem:
        data = data + b"\0" * (4 - rem)
    total = 0
    # chunked unpack for speed
    n = len(data) // 4
    if n:
        total = sum(struct.unpack(">%dL" % n, data)) & 0xFFFFFFFF
    return total


def limbs(v):
    v &= 0xFFFFFFFF
    return [v >> 16, v & 0xFFFF]


class Entry:
    __slots__ = ("tag", "checksum", "offset", "length", "origLength", "compLength", "transformed", "flags")

    def __init__(self, **kw):
        for k in self.__slots__:
            setattr(self, k, kw.get(k))


class Font:
    """One sfnt directory (a TTC has several)."""

    def __init__(self):
        self.sfntVersion = None
        self.numTables = 0
        self.searchRange = self.entrySelector = self.rangeShift = None
        self.entries = []  # in directory order
        self.dirOffset = 0
        self.tables = {}  # tag -> raw (decoded / decompressed / reconstructed) bytes


class Container:
    def __init__(self):
        self.kind = None  # sfnt | ttc | woff | woff2
        self.fonts = []
        self.length = 0
        self.header = {}
        self.problems = []  # structural problems found while reading (strings)


def _read_sfnt_dir(data, off, cont):
    f = Font()
    f.dirOffset = off
    if len(data) < off + 12:
        raise RawError("short sfnt header")
    f.sfntVersion, f.numTables, f.searchRange, f.entrySelector, f.rangeShift = struct.unpack(">4sHHHH", data[off : off + 12])
    pos = off + 12
    for _ in range(f.numTables):
        if len(data) < pos + 16:
            raise RawError("short directory")
        tag, cs, o, l = struct.unpack(">4sLLL", data[pos : pos + 16])
        f.entries.append(Entry(tag=tag, checksum=cs, offset=o, length=l))
        pos += 16
    for e in f.entries:
        if e.offset + e.length > len(data):
            raise RawError("table %r beyond end of file" % e.tag)
        f.tables[e.tag] = data[e.offset : e.offset + e.length]
    return f


def parse(data):
    c = Container()
    c.length = len(data)
    sig = data[:4]
    if sig == b"ttcf":
        c.kind = "ttc"
        major, minor, n = struct.unpack(">HHL", data[4:12])
        c.header = {"major": major, "minor": minor, "numFonts": n}
        offs = struct.unpack(">%dL" % n, data[12 : 12 + 4 * n])
        c.header["offsets"] = list(offs)
        for o in offs:
            c.fonts.append(_read_sfnt_dir(data, o, c))
    elif sig == b"wOFF":
        c.kind = "woff"
        (sig, flavor, length, numTables, reserved, totalSfntSize, major, minor, metaOffset, metaLength, metaOrigLength,
         privOffset, privLength) = struct.unpack(">4s4sLHHLHHLLLLL", data[:44])
        c.header = dict(flavor=flavor, length=length, numTables=numTables, reserved=reserved, totalSfntSize=totalSfntSize,
                        metaOffset=metaOffset, metaLength=metaLength, metaOrigLength=metaOrigLength,
                        privOffset=privOffset, privLength=privLength)
        f = Font()
        f.sfntVersion = flavor
        f.numTables = numTables
        pos = 44
        for _ in range(numTables):
            tag, o, cl, ol, cs = struct.unpack(">4sLLLL", data[pos : pos + 20])
            f.entries.append(Entry(tag=tag, checksum=cs, offset=o, length=ol, origLength=ol, compLength=cl))
            pos += 20
        for e in f.entries:
            raw = data[e.offset : e.offset + e.compLength]
            if len(raw) != e.compLength:
                raise RawError("woff table beyond end")
            if e.compLength < e.origLength:
                raw = zlib.decompress(raw)
                if len(raw) != e.origLength:
                    c.problems.append("woff: inflated size mismatch for %r" % e.tag)
            elif e.compLength > e.origLength:
                c.problems.append("woff: compLength > origLength for %r" % e.tag)
            f.tables[e.tag] = raw
        c.fonts.append(f)
    elif sig == b"wOF2":
        c.kind = "woff2"
        _parse_woff2(data, c)
    else:
        c.kind = "sfnt"
        c.fonts.append(_read_sfnt_dir(data, 0, c))
    return c


# ---------------------------------------------------------------- WOFF2
_KNOWN_TAGS = [
    b"cmap", b"head", b"hhea", b"hmtx", b"maxp", b"name", b"OS/2", b"post", b"cvt ", b"fpgm", b"glyf", b"loca", b"prep",
    b"CFF ", b"VORG", b"EBDT", b"EBLC", b"gasp", b"hdmx", b"kern", b"LTSH", b"PCLT", b"VDMX", b"vhea", b"vmtx", b"BASE",
    b"GDEF", b"GPOS", b"GSUB", b"EBSC", b"JSTF", b"MATH", b"CBDT", b"CBLC", b"COLR", b"CPAL", b"SVG ", b"sbix", b"acnt",
    b"avar", b"bdat", b"bloc", b"bsln", b"cvar", b"fdsc", b"feat", b"fmtx", b"fvar", b"gvar", b"hsty", b"just", b"lcar",
    b"mort", b"morx", b"opbd", b"prop", b"trak", b"Zapf", b"Silf", b"Glat", b"Gloc", b"Feat", b"Sill",
]


def read_base128(data, pos):
    v = 0
    for i in range(5):
        b = data[pos]
        pos += 1
        if i == 0 and b == 0x80:
            raise RawError("base128 leading zero")
        if v & 0xFE000000:
            raise RawError("base128 overflow")
        v = (v << 7) | (b & 0x7F)
        if not b & 0x80:
            return v, pos
    raise RawError("base128 too long")


def read_255(data, pos):
    c = data[pos]
    pos += 1
    if c == 253:
        return (data[pos] << 8) | data[pos + 1], pos + 2
    if c == 254:
        return data[pos] + 506, pos + 1
    if c == 255:
        return data[pos] + 253, pos + 1
    return c, pos


def _parse_woff2(data, c):
    import brotli

    (sig, flavor, length, numTables, reserved, totalSfntSize, totalCompressedSize, major, minor, metaOffset, metaLength,
     metaOrigLength, privOffset, privLength) = struct.unpack(">4s4sLHHLLHHLLLLL", data[:48])
    c.header = dict(flavor=flavor, length=length, numTables=numTables, reserved=reserved, totalSfntSize=totalSfntSize,
                    totalCompressedSize=totalCompressedSize, metaOffset=metaOffset, metaLength=metaLength,
                    privOffset=privOffset, privLength=privLength)
    pos = 48
    f = Font()
    f.sfntVersion = flavor
    f.numTables = numTables
    for _ in range(numTables):
        flags = data[pos]
        pos += 1
        if flags & 0x3F == 0x3F:
            tag = data[pos : pos + 4]
            pos += 4
        else:
            tag = _KNOWN_TAGS[flags & 0x3F]
        ver = flags >> 6
        orig, pos = read_base128(data, pos)
        if tag in (b"glyf", b"loca"):
            transformed = ver == 0
        else:
            transformed = ver != 0
        tl = None
        if transformed:
            tl, pos = read_base128(data, pos)
        f.entries.append(Entry(tag=tag, origLength=orig, length=orig, compLength=tl, transformed=transformed, flags=flags))
    if flavor == b"ttcf":
        raise RawError("woff2 collections not supported by this reader")
    c.header["dataOffset"] = pos
    comp = data[pos : pos + totalCompressedSize]
    if len(comp) != totalCompressedSize:
        raise RawError("woff2 compressed stream truncated")
    raw = brotli.decompress(comp)
    total = sum((e.compLength if e.transformed else e.origLength) for e in f.entries)
    c.header["decompressedLength"] = len(raw)
    c.header["directorySum"] = total
    off = 0
    streams = {}
    for e in f.entries:
        n = e.compLength if e.transformed else e.origLength
        streams[e.tag] = raw[off : off + n]
        e.offset = off
        off += n
    c.header["woff2_streams"] = {k: len(v) for k, v in streams.items()}
    for e in f.entries:
        if not e.transformed:
            f.tables[e.tag] = streams[e.tag]
    c.woff2_transformed = {e.tag: streams[e.tag] for e in f.entries if e.transformed}
    c.fonts.append(f)


def _with_sign(flag, base):
    return base if flag & 1 else -base


def woff2_glyf_glyphs(tdata):
    """Decode a WOFF2 transformed glyf table (WOFF2 5.1) to the list of glyph records
    used by parse_glyf()."""
    (reserved, optionFlags, numGlyphs, indexFormat, nContourSz, nPointsSz, flagSz, glyphSz, compositeSz, bboxSz,
     instrSz) = struct.unpack(">HHHHLLLLLLL", tdata[:36])
    pos = 36
    streams = []
    for sz in (nContourSz, nPointsSz, flagSz, glyphSz, compositeSz, bboxSz, instrSz):
        streams.append(tdata[pos : pos + sz])
        pos += sz
    nContourS, nPointsS, flagS, glyphS, compS, bboxS, instrS = streams
    overlap = None
    if optionFlags & 1:
        n = (numGlyphs + 7) >> 3
        overlap = tdata[pos : pos + n]
        pos += n
    bitmapLen = ((numGlyphs + 31) >> 5) << 2
    bboxBitmap = bboxS[:bitmapLen]
    bp = bitmapLen
    pc = pp = fp = gp = cp = ip = 0
    glyphs = []
    for gid in range(numGlyphs):
        (nc,) = struct.unpack(">h", nContourS[pc : pc + 2])
        pc += 2
        g = {"nc": nc, "endPts": [], "pts": [], "instr": b"", "comps": [], "bbox": None, "overlap": False}
        explicit = bool(bboxBitmap[gid >> 3] & (0x80 >> (gid & 7)))
        if nc == 0:
            if explicit:
                raise RawError("woff2: empty glyph with explicit bbox")
            glyphs.append(g)
            continue
        if nc > 0:
            total = 0
            for _ in range(nc):
                n, pp = read_255(nPointsS, pp)
                total += n
                g["endPts"].append(total - 1)
            x = y = 0
            for _ in range(total):
                flag = flagS[fp]
                fp += 1
                on = not (flag >> 7)
                b0 = flag & 0x7F
                if b0 < 10:
                    dx, dy = 0, _with_sign(flag, ((b0 & 14) << 7) + glyphS[gp])
                    gp += 1
                elif b0 < 20:
                    dx, dy = _with_sign(flag, (((b0 - 10) & 14) << 7) + glyphS[gp]), 0
                    gp += 1
                elif b0 < 84:
                    b = b0 - 20
                    b1 = glyphS[gp]
                    gp += 1
                    dx = _with_sign(flag, 1 + (b & 0x30) + (b1 >> 4))
                    dy = _with_sign(flag >> 1, 1 + ((b & 0x0C) << 2) + (b1 & 0x0F))
                elif b0 < 120:
                    b = b0 - 84
                    dx = _with_sign(flag, 1 + ((b // 12) << 8) + glyphS[gp])
                    dy = _with_sign(flag >> 1, 1 + (((b % 12) >> 2) << 8) + glyphS[gp + 1])
                    gp += 2
                elif b0 < 124:
                    b1, b2, b3 = glyphS[gp], glyphS[gp + 1], glyphS[gp + 2]
                    gp += 3
                    dx = _with_sign(flag, (b1 << 4) + (b2 >> 4))
                    dy = _with_sign(flag >> 1, ((b2 & 0x0F) << 8) + b3)
                else:
                    dx = _with_sign(flag, (glyphS[gp] << 8) + glyphS[gp + 1])
                    dy = _with_sign(flag >> 1, (glyphS[gp + 2] << 8) + glyphS[gp + 3])
                    gp += 4
                x += dx
                y += dy
                g["pts"].append((x, y, 1 if on else 0))
            ilen, gp = read_255(glyphS, gp)
            g["instr"] = instrS[ip : ip + ilen]
            ip += ilen
            if overlap is not None and overlap[gid >> 3] & (0x80 >> (gid & 7)):
                g["overlap"] = True
            if explicit:
                g["bbox"] = struct.unpack(">hhhh", bboxS[bp : bp + 8])
                bp += 8
            else:
                xs = [p[0] for p in g["pts"]]
                ys = [p[1] for p in g["pts"]]
                g["bbox"] = (min(xs), min(ys), max(xs), max(ys)) if xs else (0, 0, 0, 0)
        else:
            have_instr = False
            while True:
                flags, gidx = struct.unpack(">HH", compS[cp : cp + 4])
                cp += 4
                comp, cp = _read_component_tail(compS, cp, flags, gidx)
                g["comps"].append(comp)
                if flags & 0x0100:
                    have_instr = True
                if not flags & 0x0020:
                    break
            if have_instr:
                ilen, gp = read_255(glyphS, gp)
                g["instr"] = instrS[ip : ip + ilen]
                ip += ilen
            if not explicit:
                raise RawError("woff2: composite without explicit bbox")
            g["bbox"] = struct.unpack(">hhhh", bboxS[bp : bp + 8])
            bp += 8
        glyphs.append(g)
    consumed = (pc == len(nContourS), pp == len(nPointsS), fp == len(flagS), gp == len(glyphS), cp == len(compS),
                bp == len(bboxS), ip == len(instrS))
    return glyphs, {"indexFormat": indexFormat, "numGlyphs": numGlyphs, "streams_consumed": all(consumed),
                    "optionFlags": optionFlags}


def _read_component_tail(data, pos, flags, gidx):
    if flags & 0x0001:
        a1, a2 = struct.unpack(">hh" if flags & 0x0002 else ">HH", data[pos : pos + 4])
        pos += 4
    else:
        a1, a2 = struct.unpack(">bb" if flags & 0x0002 else ">BB", data[pos : pos + 2])
        pos += 2
    tr = None
    if flags & 0x0008:
        (s,) = struct.unpack(">h", data[pos : pos + 2])
        pos += 2
        tr = (s, 0, 0, s)
    elif flags & 0x0040:
        sx, sy = struct.unpack(">hh", data[pos : pos + 4])
        pos += 4
        tr = (sx, 0, 0, sy)
    elif flags & 0x0080:
        tr = struct.unpack(">hhhh", data[pos : pos + 8])
        pos += 8
    # flag bits that only steer parsing (ARG_1_AND_2_ARE_WORDS, MORE_COMPONENTS) are dropped
    sem = flags & ~(0x0001 | 0x0020)
    return {"flags": sem, "gid": gidx, "a1": a1, "a2": a2, "tr": list(tr) if tr else None, "rawflags": flags}, pos


# ---------------------------------------------------------------- tables
def parse_head(d):
    (ver, rev, adj, magic, flags, upem, created, modified, xMin, yMin, xMax, yMax, macStyle, lowestRecPPEM, dirHint,
     locFmt, glyphFmt) = struct.unpack(">LLLLHHqqhhhhHHhhh", d[:54])
    return dict(checkSumAdjustment=adj, magic=magic, flags=flags, unitsPerEm=upem, xMin=xMin, yMin=yMin, xMax=xMax,
                yMax=yMax, indexToLocFormat=locFmt, created=created, modified=modified, length=len(d))


def parse_maxp(d):
    ver, n = struct.unpack(">LH", d[:6])
    out = {"version": ver, "numGlyphs": n}
    if ver == 0x00010000 and len(d) >= 32:
        names = ["maxPoints", "maxContours", "maxCompositePoints", "maxCompositeContours", "maxZones", "maxTwilightPoints",
                 "maxStorage", "maxFunctionDefs", "maxInstructionDefs", "maxStackElements", "maxSizeOfInstructions",
                 "maxComponentElements", "maxComponentDepth"]
        out.update(zip(names, struct.unpack(">13H", d[6:32])))
    return out


def parse_hhea(d):
    (ver, asc, desc, gap, advMax, minLsb, minRsb, xMaxExtent, rise, run, off, r1, r2, r3, r4, fmt,
     n) = struct.unpack(">LhhhHhhhhhhhhhhhH", d[:36])
    return dict(advanceMax=advMax, minLeading=minLsb, minTrailing=minRsb, maxExtent=xMaxExtent, numberOfMetrics=n,
                ascent=asc, descent=desc)


def parse_hmtx(d, numMetrics, numGlyphs):
    out = []
    pos = 0
    adv = 0
    for i in range(numGlyphs):
        if i < numMetrics:
            adv, lsb = struct.unpack(">Hh", d[pos : pos + 4])
            pos += 4
        else:
            (lsb,) = struct.unpack(">h", d[pos : pos + 2])
            pos += 2
        out.append((adv, lsb))
    return out, pos


def parse_loca(d, fmt, numGlyphs):
    if fmt == 0:
        vals = struct.unpack(">%dH" % (len(d) // 2), d[: len(d) // 2 * 2])
        return [v * 2 for v in vals]
    return list(struct.unpack(">%dL" % (len(d) // 4), d[: len(d) // 4 * 4]))


def parse_glyph(d):
    """One glyf entry -> record (points absolute)."""
    g = {"nc": 0, "endPts": [], "pts": [], "instr": b"", "comps": [], "bbox": None, "overlap": False, "flagbytes": 0}
    if not d:
        return g
    nc, xMin, yMin, xMax, yMax = struct.unpack(">hhhhh", d[:10])
    g["nc"] = nc
    g["bbox"] = (xMin, yMin, xMax, yMax)
    pos = 10
    if nc >= 0:
        g["endPts"] = list(struct.unpack(">%dH" % nc, d[pos : pos + 2 * nc]))
        pos += 2 * nc
        (il,) = struct.unpack(">H", d[pos : pos + 2])
        pos += 2
        g["instr"] = d[pos : pos + il]
        pos += il
        n = g["endPts"][-1] + 1 if nc else 0
        flags = []
        while len(flags) < n:
            f = d[pos]
            pos += 1
            flags.append(f)
            if f & 8:
                r = d[pos]
                pos += 1
                flags.extend([f] * r)
        if len(flags) != n:
            raise RawError("flag repeat overruns point count")
        xs = []
        x = 0
        for f in flags:
            if f & 2:
                dx = d[pos]
                pos += 1
                if not f & 16:
                    dx = -dx
            elif f & 16:
                dx = 0
            else:
                (dx,) = struct.unpack(">h", d[pos : pos + 2])
                pos += 2
            x += dx
            xs.append(x)
        ys = []
        y = 0
        for f in flags:
            if f & 4:
                dy = d[pos]
                pos += 1
                if not f & 32:
                    dy = -dy
            elif f & 32:
                dy = 0
            else:
                (dy,) = struct.unpack(">h", d[pos : pos + 2])
                pos += 2
            y += dy
            ys.append(y)
        g["pts"] = [(xs[i], ys[i], flags[i] & 1) for i in range(n)]
        g["overlap"] = bool(flags and flags[0] & 0x40)
        g["used"] = pos
    else:
        have_instr = False
        while True:
            flags, gidx = struct.unpack(">HH", d[pos : pos + 4])
            pos += 4
            comp, pos = _read_component_tail(d, pos, flags, gidx)
            g["comps"].append(comp)
            if flags & 0x0100:
                have_instr = True
            if not flags & 0x0020:
                break
        if have_instr:
            (il,) = struct.unpack(">H", d[pos : pos + 2])
            pos += 2
            g["instr"] = d[pos : pos + il]
            pos += il
        g["used"] = pos
    return g


def parse_glyf(glyf, offsets):
    out = []
    for i in range(len(offsets) - 1):
        out.append(parse_glyph(glyf[offsets[i] : offsets[i + 1]]))
    return out


def build_sfnt(sfntVersion, tables):
    """Assemble a plain sfnt from {tag(bytes): data}; directory sorted by tag, tables in the
    given order, checksums and search fields correct (head.checkSumAdjustment left as is)."""
    tags = list(tables)
    n = len(tags)
    p2 = 1 << (n.bit_length() - 1) if n else 0
    hdr = struct.pack(">4sHHHH", sfntVersion, n, p2 * 16, (n.bit_length() - 1) if n else 0, n * 16 - p2 * 16)
    off = 12 + 16 * n
    body = b""
    entries = {}
    for t in tags:
        d = tables[t]
        entries[t] = (wordsum(d), off, len(d))
        body += d + b"\0" * (pad4(len(d)) - len(d))
        off += pad4(len(d))
    directory = b"".join(struct.pack(">4sLLL", t, *entries[t]) for t in sorted(tags))
    return hdr + directory + body
