"""./check <Cxx> [--tier quick|thorough] [--replay FILE] [--selftest]"""
import argparse
import importlib
import json
import os
import sys
import traceback

from . import common


def main(argv=None):
    ap = argparse.ArgumentParser()
    ap.add_argument("pid")
    ap.add_argument("--tier", default=os.environ.get("VERIF_TIER") or "quick")
    ap.add_argument("--replay")
    ap.add_argument("--selftest", action="store_true")
    a = ap.parse_args(argv)
    tier = a.tier if a.tier in ("quick", "thorough") else "quick"
    try:
        seed = int(os.environ.get("VERIF_SEED", "0") or 0)
    except ValueError:
        seed = 0
    pid = a.pid.upper()
    try:
        common.bind_repo()
        mod = importlib.import_module("harness." + pid.lower())
        chk = common.Check(pid, tier, seed, level=getattr(mod, "LEVEL", "model_checking"))
        if a.replay:
            with open(a.replay) as f:
                rep = json.load(f)
            mod.replay(chk, rep)
        elif a.selftest:
            mod.selftest(chk)
        else:
            mod.run(chk)
        return chk.finish()
    except common.MachineryError as e:
        print("MACHINERY-FAILURE %s: %s" % (pid, e), flush=True)
        return 2
    except Exception:
        traceback.print_exc()
        print("MACHINERY-FAILURE %s: unexpected exception in harness" % pid, flush=True)
        return 2


if __name__ == "__main__":
    sys.exit(main())
