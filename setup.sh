#!/bin/sh
# Offline setup: verify the tool chain, parse every specification with SANY, create dirs.
set -e
cd "$(dirname "$0")"
mkdir -p evidence replays
command -v java >/dev/null
test -f /opt/veriftools/tla/tla2tools.jar
/venv/bin/python -c "import sys; sys.path.insert(0, '${VERIF_REPO:-/repo}/Lib'); import fontTools, uharfbuzz, brotli"
fail=0
cd specs
for f in *.tla; do
  if ! java -cp /opt/veriftools/tla/tla2tools.jar:/opt/veriftools/tla/CommunityModules-deps.jar tla2sany.SANY "$f" >/tmp/sany.$$ 2>&1; then
    echo "SANY failed on $f"; tail -20 /tmp/sany.$$; fail=1
  fi
done
rm -f /tmp/sany.$$
cd ..
[ $fail = 0 ] && echo "setup ok"
exit $fail
