------------------------------ MODULE AxisMap ------------------------------
(* The user <-> design coordinate map of a designspace axis (<map input= output=>):
   a piecewise-linear function through the knots, in exact rational arithmetic.
   Rationals are pairs <<n, d>> with d > 0 in lowest terms.  Knot lists are sequences
   of <<user, design>> pairs of rationals.

   Between knots the map is the straight line through the neighbouring knots and on a
   knot it takes the knot's value (designspace specification).  Outside the knots the
   specification is silent; fontTools continues with slope 1 through the end knot
   (a named choice of the implementation, transcribed here because the inverse law is
   stated for the functions as they are).                                            *)
EXTENDS Integers, Sequences, FiniteSets

RECURSIVE Gcd(_, _)
Gcd(a, b) == IF b = 0 THEN a ELSE Gcd(b, a % b)
Abs(x) == IF x < 0 THEN -x ELSE x
Norm(n, d) == LET s == IF d < 0 THEN -1 ELSE 1
                  g == Gcd(Abs(n), Abs(d))
              IN IF n = 0 THEN <<0, 1>> ELSE <<(s * n) \div g, (s * d) \div g>>
R(n) == <<n, 1>>
RAdd(a, b) == Norm(a[1] * b[2] + b[1] * a[2], a[2] * b[2])
RSub(a, b) == Norm(a[1] * b[2] - b[1] * a[2], a[2] * b[2])
RMul(a, b) == Norm(a[1] * b[1], a[2] * b[2])
RDiv(a, b) == Norm(a[1] * b[2], a[2] * b[1])
RLt(a, b) == a[1] * b[2] < b[1] * a[2]
RLe(a, b) == a[1] * b[2] <= b[1] * a[2]
REq(a, b) == a[1] * b[2] = b[1] * a[2]
IsRat(a) == a[2] > 0 /\ Gcd(Abs(a[1]), a[2]) = 1
(* all intermediate products stay far inside 32 bits when |n|, d < Small *)
Small == 1000
Fits(a) == Abs(a[1]) < Small /\ a[2] < Small

Users(K) == {K[i][1] : i \in 1..Len(K)}
(* a proper map: each input once (duplicates must agree: get_validated_map) *)
Functional(K) == \A i, j \in 1..Len(K) : REq(K[i][1], K[j][1]) => REq(K[i][2], K[j][2])
StrictlyIncreasing(K) == \A i, j \in 1..Len(K) : RLt(K[i][1], K[j][1]) => RLt(K[i][2], K[j][2])
StrictlyDecreasing(K) == \A i, j \in 1..Len(K) : RLt(K[i][1], K[j][1]) => RLt(K[j][2], K[i][2])
WeaklyIncreasing(K) == \A i, j \in 1..Len(K) : RLt(K[i][1], K[j][1]) => RLe(K[i][2], K[j][2])

(* knots with extreme / neighbouring coordinate in column c (1 user, 2 design) *)
MinIdx(K, c) == CHOOSE i \in 1..Len(K) : \A j \in 1..Len(K) : RLe(K[i][c], K[j][c])
MaxIdx(K, c) == CHOOSE i \in 1..Len(K) : \A j \in 1..Len(K) : RLe(K[j][c], K[i][c])
Lerp(x, x1, y1, x2, y2) == RAdd(y1, RDiv(RMul(RSub(y2, y1), RSub(x, x1)), RSub(x2, x1)))

(* user -> design *)
Fwd(K, v) ==
  IF Len(K) = 0 THEN v
  ELSE IF \E i \in 1..Len(K) : REq(K[i][1], v) THEN K[CHOOSE i \in 1..Len(K) : REq(K[i][1], v)][2]
  ELSE LET lo == MinIdx(K, 1) hi == MaxIdx(K, 1) IN
    IF RLt(v, K[lo][1]) THEN RAdd(v, RSub(K[lo][2], K[lo][1]))
    ELSE IF RLt(K[hi][1], v) THEN RAdd(v, RSub(K[hi][2], K[hi][1]))
    ELSE LET a == CHOOSE i \in 1..Len(K) : RLt(K[i][1], v) /\ \A j \in 1..Len(K) : RLt(K[j][1], v) => RLe(K[j][1], K[i][1])
             b == CHOOSE i \in 1..Len(K) : RLt(v, K[i][1]) /\ \A j \in 1..Len(K) : RLt(v, K[j][1]) => RLe(K[i][1], K[j][1])
         IN Lerp(v, K[a][1], K[a][2], K[b][1], K[b][2])

(* design -> user, for weakly increasing maps: the set of legitimate answers.  On a
   flat segment every user value of the segment is a preimage; fontTools returns an
   endpoint.  Outside the knots slope 1 through the end knot.                        *)
BwdSet(K, d) ==
  IF Len(K) = 0 THEN {d}
  ELSE LET lo == CHOOSE i \in 1..Len(K) : \A j \in 1..Len(K) : RLt(K[i][2], K[j][2]) \/ (REq(K[i][2], K[j][2]) /\ RLe(K[i][1], K[j][1]))
           hi == CHOOSE i \in 1..Len(K) : \A j \in 1..Len(K) : RLt(K[j][2], K[i][2]) \/ (REq(K[i][2], K[j][2]) /\ RLe(K[j][1], K[i][1]))
       IN
    IF RLt(d, K[lo][2]) THEN {RAdd(d, RSub(K[lo][1], K[lo][2]))}
    ELSE IF RLt(K[hi][2], d) THEN {RAdd(d, RSub(K[hi][1], K[hi][2]))}
    ELSE LET on == {i \in 1..Len(K) : REq(K[i][2], d)} IN
      IF on # {} THEN {K[i][1] : i \in on}
      ELSE LET a == CHOOSE i \in 1..Len(K) : RLt(K[i][2], d) /\ \A j \in 1..Len(K) : RLt(K[j][2], d) => RLe(K[j][2], K[i][2]) /\ (REq(K[j][2], K[i][2]) => RLe(K[j][1], K[i][1]))
               b == CHOOSE i \in 1..Len(K) : RLt(d, K[i][2]) /\ \A j \in 1..Len(K) : RLt(d, K[j][2]) => RLe(K[i][2], K[j][2]) /\ (REq(K[j][2], K[i][2]) => RLe(K[i][1], K[j][1]))
           IN {Lerp(d, K[a][2], K[a][1], K[b][2], K[b][1])}
Bwd(K, d) == LET S == BwdSet(K, d) IN CHOOSE u \in S : \A w \in S : RLe(u, w)

(* InverseOnMonotone *)
InverseAt(K, v) == Bwd(K, Fwd(K, v)) = v /\ Fwd(K, Bwd(K, v)) = v
(* on weakly increasing maps going back and forth returns the design value *)
RightInverseAt(K, d) == \A u \in BwdSet(K, d) : Fwd(K, u) = d
=============================================================================
