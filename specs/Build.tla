-------------------------------- MODULE Build --------------------------------
(* varLib.build: from a designspace with compatible masters to a variable font.

   Sources: designspace specification (axis <map>, source locations in design coordinates),
   OpenType 'fvar' (default normalisation), 'avar' (segment maps), "Font Variations Common
   Table Formats" (regions, scalars; module VarSem), and the mathematics of the variation
   model (module Model).

   ABSTRACT DESIGNSPACE
     axis   == [min, def, max : Rat (user space), map : Seq(<<user, design>>)]   (knots sorted
               by user value; the empty map is the identity)
     source == [loc  : Seq(Rat)          design coordinates, one per axis (dense),
                vals : Seq(Rat | Absent)] one value per ITEM; Absent = this (sparse) master
                                          does not supply the item
   An item stands for any interpolated scalar of a font: one outline coordinate, an advance,
   a kerning value, an anchor coordinate, a font-wide metric.

   ABSTRACT VARIABLE FONT
     vf == [fvar  : Seq(<<min, def, max>>)                   user-space triples
            avar  : Seq(Seq(<<from, to>>))                   one segment map per axis (normalised)
            items : Seq([base : Rat, rows : Seq(<<region, delta>>)])]

   CONTRACT (stated on a designspace and ANY abstract variable font, however obtained, so that
   it judges the projection of the font the real varLib.build produced as well as the font
   the actions below construct):
     MasterReproduced  for every item and every master m that supplies it,
                       |Eval(vf.item, Normalized(m.loc)) - m.val| <= 1/2
     AxisMapping       Normalize_VF(user) = NormalizeDesign(map(user)) for every knot, every
                       point half way between neighbouring knots and points outside the axis range
     SparseOK          an item a sparse master does not supply is built from the sub-model of
                       the masters that do: no region of the item peaks at the absent master,
                       and there the item takes the sub-model's interpolated value (up to the
                       accumulated rounding of the deltas, RoundingBudget)

   BUILD, as actions over (pc, ds, nlocs, order, vf):
     Normalise  master design locations -> normalised locations through the axis maps
                (refused unless the axes meet the stated requirements and exactly one master
                sits at the default location)
     MakeModel  master order and supports (Model!SortMasters / Model!ModelSupports); values
                follow their masters through `order`
     MakeItems  per item: sub-model of the masters that supply it, deltas by forward
                substitution with every delta ROUNDED to an integer (the step that makes 1/2 the
                exact bound: at master i the font gives  round(y) - y + value_i  with
                y = value_i - sum_{j<i} w_ij * delta_j)
     Assemble   fvar from the user triples, avar from the map knots, items as regions x deltas *)
EXTENDS Model

Absent == <<>>
Has(v) == Len(v) = 2

(* ---- rounding ---------------------------------------------------------------------------- *)
RFloor(a) == IF RBad(a) THEN RNaN ELSE RInt(a[1] \div a[2])          \* \div rounds towards -infinity
RoundHalfUp(a) == RFloor(RAdd(a, RHalf))                             \* otRound
(* |a - b| <= tol, decided without forming a - b: a computed value may have a large denominator,
   the wanted value and the tolerance are plain, and comparisons never overflow (Rat) *)
Within(a, b, tol) == LET lo == RSub(b, tol) hi == RAdd(b, tol) IN
                     ROk(a) /\ ROk(lo) /\ ROk(hi) /\ RLe(lo, a) /\ RLe(a, hi)
WithinBad(a, b, tol) == RBad(a) \/ RBad(RSub(b, tol)) \/ RBad(RAdd(b, tol))

(* ---- axes ------------------------------------------------------------------------------------ *)
UserTriple(ax) == <<ax.min, ax.def, ax.max>>
MapFwd(ax, u) == PiecewiseLinearMap(ax.map, u)
DesignTriple(ax) == <<MapFwd(ax, ax.min), MapFwd(ax, ax.def), MapFwd(ax, ax.max)>>
NormalizeDesign(ax, d) == NormalizeValue(d, DesignTriple(ax))
Clamp(v, lo, hi) == RMax(RMin(v, hi), lo)

MapOutputsAscending(m) == \A i \in 1..Len(m) - 1 : RLe(m[i][2], m[i + 1][2])
AxisWellFormed(ax) ==
  /\ ROk(ax.min) /\ ROk(ax.def) /\ ROk(ax.max)
  /\ RLe(ax.min, ax.def) /\ RLe(ax.def, ax.max)
  /\ PwlWellFormed(ax.map) /\ MapOutputsAscending(ax.map)
  /\ LET t == DesignTriple(ax) IN ROk(t[1]) /\ ROk(t[2]) /\ ROk(t[3]) /\ RLe(t[1], t[2]) /\ RLe(t[2], t[3])
(* what 'avar' can express, and varLib demands of a mapped axis (a NAMED requirement of the
   implementation: VarLibValidationError otherwise): minimum, default and maximum are map
   inputs, minimum the lowest and maximum the highest *)
AvarRequirements(ax) ==
  \/ Len(ax.map) = 0
  \/ /\ ax.map[1][1] = ax.min /\ ax.map[Len(ax.map)][1] = ax.max
     /\ \E i \in 1..Len(ax.map) : ax.map[i][1] = ax.def

(* ---- the variable font's own normalisation: 'fvar' default normalisation, then 'avar' ---------- *)
AvarMap(seg, x) == IF Len(seg) = 0 THEN x ELSE PiecewiseLinearMap(seg, x)
NormalizeVF(fv, av, u) == AvarMap(av, NormalizeValue(u, fv))

(* probe points of one axis: the axis triple, every knot inside the range, the point half way between
   each two NEIGHBOURING knots, and one unit outside the range on both sides (where both maps clamp) *)
KnotUsers(ax) == {ax.min, ax.def, ax.max} \cup {ax.map[i][1] : i \in 1..Len(ax.map)}
SortedKnots(ax) == SortSeq(SetToSeq({k \in KnotUsers(ax) : RLe(ax.min, k) /\ RLe(k, ax.max)}), LAMBDA p, q : RLt(p, q))
Probes(ax) ==
  LET K == SortedKnots(ax)
  IN {K[i] : i \in 1..Len(K)} \cup {RMul(RAdd(K[i], K[i + 1]), RHalf) : i \in 1..(Len(K) - 1)}
       \cup {RSub(ax.min, ROne), RAdd(ax.max, ROne)}
(* dt = DesignTriple(ax), passed in so that it is computed once per axis *)
AxisMappingWantT(ax, dt, u) == NormalizeValue(MapFwd(ax, Clamp(u, ax.min, ax.max)), dt)
AxisMappingWant(ax, u) == AxisMappingWantT(ax, DesignTriple(ax), u)
AxisMappingAt(ax, fv, av, u, tol) == Within(NormalizeVF(fv, av, u), AxisMappingWant(ax, u), tol)
AxisMappingAxis(ax, fv, av, tol) ==
  LET dt == DesignTriple(ax) IN \A u \in Probes(ax) : Within(NormalizeVF(fv, av, u), AxisMappingWantT(ax, dt, u), tol)
AxisMapping(axes, vf, tol) ==
  \A a \in 1..Len(axes) : AxisMappingAxis(axes[a], vf.fvar[a], vf.avar[a], tol)

(* ---- master locations ------------------------------------------------------------------------- *)
NormalizedLoc(axes, loc) == TLCEval([a \in 1..Len(axes) |-> NormalizeDesign(axes[a], loc[a])])
NormalizedLocs(axes, srcs) ==
  LET dts == TLCEval([a \in 1..Len(axes) |-> DesignTriple(axes[a])])      \* computed once per axis
  IN TLCEval([m \in 1..Len(srcs) |-> TLCEval([a \in 1..Len(axes) |-> NormalizeValue(srcs[m].loc[a], dts[a])])])
Defaults(nlocs) == {m \in 1..Len(nlocs) : AxesOf(nlocs[m]) = {}}
Providers(srcs, k) == {m \in 1..Len(srcs) : Has(srcs[m].vals[k])}

(* ---- evaluation --------------------------------------------------------------------------------- *)
ItemEval(item, loc) == RAdd(item.base, EvalDeltas(item.rows, loc))
MasterReproducedItem(item, nlocs, srcs, k) ==
  \A m \in Providers(srcs, k) : Within(ItemEval(item, nlocs[m]), srcs[m].vals[k], RHalf)
MasterReproducedAt(nl, srcs, vf) == \A k \in 1..Len(vf.items) : MasterReproducedItem(vf.items[k], nl, srcs, k)
MasterReproduced(axes, srcs, vf) == MasterReproducedAt(NormalizedLocs(axes, srcs), srcs, vf)

(* a region "peaks at" a location: per axis the peak is the coordinate (a non-participating
   axis, peak 0, only for coordinate 0); slack for encodings that round peaks (F2Dot14) *)
PeaksAt(reg, loc, slack) ==
  \A a \in 1..Len(loc) : IF TentIgnored(reg[a]) THEN RIsZero(loc[a]) ELSE Within(reg[a][2], loc[a], slack)
RowsAvoid(rows, loc, slack) == \A r \in 1..Len(rows) : RIsZero(rows[r][2]) \/ ~PeaksAt(rows[r][1], loc, slack)
SparseOmittedAt(nl, srcs, vf, slack) ==
  \A k \in 1..Len(vf.items) : \A m \in (1..Len(srcs)) \ Providers(srcs, k) :
     (* unless a provider shares the location *)
     (\E p \in Providers(srcs, k) : nl[p] = nl[m]) \/ RowsAvoid(vf.items[k].rows, nl[m], slack)
SparseOmitted(axes, srcs, vf, slack) == SparseOmittedAt(NormalizedLocs(axes, srcs), srcs, vf, slack)

(* ---- the sub-model of an item: exact interpolation and the rounding budget --------------------- *)
(* masters in MODEL order that supply item k: sequence of source indices *)
SubOrder(order, srcs, k) == SelectSeq(order, LAMBDA m : Has(srcs[m].vals[k]))
SubLocs(nlocs, sub) == TLCEval([i \in 1..Len(sub) |-> nlocs[sub[i]]])
SubVals(srcs, sub, k) == TLCEval([i \in 1..Len(sub) |-> srcs[sub[i]].vals[k]])

(* forward substitution with every delta rounded to the nearest integer (Round: any
   round-to-nearest keeps the 1/2 bound; the model uses OpenType's otRound) *)
Round(a) == RoundHalfUp(a)
RECURSIVE RoundedDeltasFrom(_, _, _, _)
RoundedDeltasFrom(W, values, i, out) ==
  IF i > Len(W) THEN out
  ELSE LET RECURSIVE sub(_, _)
           sub(j, acc) == IF j >= i THEN acc
                          ELSE LET a == IF RIsZero(W[i][j]) THEN acc ELSE RSub(acc, RMul(out[j], W[i][j]))
                               IN sub(j + 1, a)
           d == Round(sub(1, values[i]))
           out2 == Append(out, d)
       IN RoundedDeltasFrom(W, values, i + 1, out2)
RoundedDeltas(W, values) == RoundedDeltasFrom(W, values, 1, <<>>)

(* |rounded delta_j - exact delta_j| <= E[j], E[1] = 0 (the default master's value is an integer),
   E[i] = 1/2 + sum_{j<i} W[i][j] * E[j]   (scalars are in [0, 1]) *)
RECURSIVE BudgetFrom(_, _, _)
BudgetFrom(W, i, out) ==
  IF i > Len(W) THEN out
  ELSE LET RECURSIVE acc(_, _)
           acc(j, s) == IF j >= i THEN s ELSE LET s2 == RAdd(s, RMul(W[i][j], out[j])) IN acc(j + 1, s2)
           e == IF i = 1 THEN RZero ELSE acc(1, RHalf)
           out2 == Append(out, e)
       IN BudgetFrom(W, i + 1, out2)
DeltaBudget(W) == BudgetFrom(W, 1, <<>>)
RoundingBudget(W, scalars) == Dot(scalars, DeltaBudget(W))

(* ---- Build: the pieces -------------------------------------------------------------------------- *)
AxesBuildable(axes) == \A a \in 1..Len(axes) : AxisWellFormed(axes[a]) /\ AvarRequirements(axes[a])
LocationsBuildable(nlocs) ==
  /\ Cardinality(Defaults(nlocs)) = 1
  /\ \A m, q \in 1..Len(nlocs) : m # q => nlocs[m] # nlocs[q]
  /\ \A m \in 1..Len(nlocs) : ~AnyBad(nlocs[m])
(* the default master supplies every item *)
DefaultComplete(nlocs, srcs) == \A m \in Defaults(nlocs) : \A k \in 1..Len(srcs[m].vals) : Has(srcs[m].vals[k])

(* order[i] = the source sitting at the i-th location of the model *)
MasterOrder(nlocs) ==
  LET locs == SortMasters({nlocs[m] : m \in 1..Len(nlocs)})
  IN TLCEval([i \in 1..Len(locs) |-> CHOOSE m \in 1..Len(nlocs) : nlocs[m] = locs[i]])

(* _add_avar: every knot (user, design) becomes (default-normalised user, normalised design);
   -1, 0 and 1 map to themselves *)
BuildAvar(ax) ==
  LET ut == UserTriple(ax)
      dt == DesignTriple(ax)
      pairs == {<<NormalizeValue(ax.map[i][1], ut), NormalizeValue(ax.map[i][2], dt)>> : i \in 1..Len(ax.map)}
                 \cup {<<RInt(-1), RInt(-1)>>, <<RZero, RZero>>, <<ROne, ROne>>}
  IN SortSeq(SetToSeq(pairs), LAMBDA p, q : RLt(p[1], q[1]) \/ (p[1] = q[1] /\ RLt(p[2], q[2])))

BuildItem(nlocs, order, srcs, k) ==
  LET sub == SubOrder(order, srcs, k)
      locs == SubLocs(nlocs, sub)
      sups == ModelSupports(locs)
      W == DeltaWeights(ScalarMatrix(locs, sups))
      deltas == RoundedDeltas(W, SubVals(srcs, sub, k))
      rows == TLCEval([j \in 1..(Len(sub) - 1) |-> <<sups[j + 1], deltas[j + 1]>>])
  IN [base |-> deltas[1], rows |-> SelectSeq(rows, LAMBDA r : ~RIsZero(r[2]))]

BuildFvar(axes) == TLCEval([a \in 1..Len(axes) |-> UserTriple(axes[a])])
BuildAvars(axes) == TLCEval([a \in 1..Len(axes) |-> BuildAvar(axes[a])])
BuildItems(nlocs, order, srcs) == TLCEval([k \in 1..Len(srcs[1].vals) |-> BuildItem(nlocs, order, srcs, k)])

(* SparseOK, numerically, for the font Build constructs: at a master that does not supply item k
   the font gives the sub-model's exact interpolation up to the rounding budget *)
SparseInterpolates(nl, ord, srcs, vf) ==
  \A k \in 1..Len(vf.items) :
     LET absent == (1..Len(srcs)) \ Providers(srcs, k) IN
     absent = {} \/
       LET sub == SubOrder(ord, srcs, k)
           locs == SubLocs(nl, sub)
           sups == ModelSupports(locs)
           W == DeltaWeights(ScalarMatrix(locs, sups))
           exactDeltas == GetDeltas(W, SubVals(srcs, sub, k))
       IN \A m \in absent :
            LET sc == Scalars(sups, nl[m])
            IN Within(ItemEval(vf.items[k], nl[m]), Dot(sc, exactDeltas), RoundingBudget(W, sc))

(* ---- Build as actions ------------------------------------------------------------------------------
   ds    the designspace [axes, srcs] (constant during a build)
   pc    "normalise" -> "model" -> "items" -> "assemble" -> "done", or "refused"
   nlocs normalised master locations; order: model order of the sources; vf: the variable font *)
VARIABLES pc, ds, nlocs, order, vf
bvars == <<pc, ds, nlocs, order, vf>>

NoVF == [fvar |-> <<>>, avar |-> <<>>, items |-> <<>>]
BuildInit(d) == pc = "normalise" /\ ds = d /\ nlocs = <<>> /\ order = <<>> /\ vf = NoVF

Normalise ==
  /\ pc = "normalise"
  /\ LET nl == NormalizedLocs(ds.axes, ds.srcs) IN
     IF AxesBuildable(ds.axes) /\ LocationsBuildable(nl) /\ DefaultComplete(nl, ds.srcs)
     THEN nlocs' = nl /\ pc' = "model"
     ELSE nlocs' = nlocs /\ pc' = "refused"
  /\ UNCHANGED <<ds, order, vf>>
MakeModel ==
  /\ pc = "model"
  /\ order' = MasterOrder(nlocs)
  /\ pc' = "items"
  /\ UNCHANGED <<ds, nlocs, vf>>
MakeItems ==
  /\ pc = "items"
  /\ vf' = [vf EXCEPT !.items = BuildItems(nlocs, order, ds.srcs)]
  /\ pc' = "assemble"
  /\ UNCHANGED <<ds, nlocs, order>>
Assemble ==
  /\ pc = "assemble"
  /\ vf' = [vf EXCEPT !.fvar = BuildFvar(ds.axes), !.avar = BuildAvars(ds.axes)]
  /\ pc' = "done"
  /\ UNCHANGED <<ds, nlocs, order>>
BuildStep == Normalise \/ MakeModel \/ MakeItems \/ Assemble

(* ---- properties of a finished build ------------------------------------------------------------ *)
Built == pc = "done"
(* nlocs = NormalizedLocs(ds.axes, ds.srcs) by Normalise; the invariants read the variable *)
InvMasterReproduced == Built => MasterReproducedAt(nlocs, ds.srcs, vf)
(* fvar and avar are functions of the axes alone (Assemble): checked once per axis combination, on the
   designspace that has only the default master (every axis combination has one) *)
InvAxisMapping == (Built /\ Len(ds.srcs) = 1) => AxisMapping(ds.axes, vf, RZero)
InvSparseOK == Built => SparseOmittedAt(nlocs, ds.srcs, vf, RZero) /\ SparseInterpolates(nlocs, order, ds.srcs, vf)
(* the model order starts with the default master and carries every source exactly once *)
InvOrder == pc \in {"items", "assemble", "done"} =>
              /\ {order[i] : i \in 1..Len(order)} = 1..Len(ds.srcs) /\ Len(order) = Len(ds.srcs)
              /\ order[1] \in Defaults(nlocs)
=============================================================================
