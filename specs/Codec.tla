------------------------------- MODULE Codec -------------------------------
(* Decoders for the low-level wire formats of OpenType / CFF / Type 1 / WOFF2,
   written from the governing documents (OpenType spec, Adobe TN 5176/5177, Type 1
   book, WOFF2 rec., W3C IFT), independent of fontTools' own readers.  Everything is
   stated on sequences of bytes (0..255) or of character codes.  TLC integers are
   32-bit: unsigned 32-bit quantities are pairs <<hi16, lo16>> ("limbs").          *)
EXTENDS Integers, Sequences, FiniteSets, TLC

Byte == 0..255
Drop(s, n) == SubSeq(s, n + 1, Len(s))
Take(s, n) == SubSeq(s, 1, n)
Abs(x) == IF x < 0 THEN -x ELSE x
Min(a, b) == IF a < b THEN a ELSE b
Max(a, b) == IF a > b THEN a ELSE b
RECURSIVE Pow(_, _)
Pow(b, e) == IF e = 0 THEN 1 ELSE b * Pow(b, e - 1)

U16(b, i) == b[i] * 256 + b[i + 1]
S16(b, i) == LET u == U16(b, i) IN IF u >= 32768 THEN u - 65536 ELSE u
S8(x) == IF x >= 128 THEN x - 256 ELSE x
(* signed 32-bit big endian; stays inside the Java int range by construction *)
S32(b, i) == S8(b[i]) * 16777216 + b[i + 1] * 65536 + b[i + 2] * 256 + b[i + 3]
Limbs(b, i) == <<U16(b, i), U16(b, i + 2)>>

----------------------------------------------------------------------------
(* CFF DICT / Type 1 / Type 2 operand encodings (TN 5176 table 3, TN 5177 3.2).
   Result <<ok, kind, value, consumed>>; kind "int", "fixed" (16.16 raw), "real". *)

OperandInt(b, fmt) ==
  LET b0 == b[1] IN
  IF b0 >= 32 /\ b0 <= 246 THEN <<TRUE, "int", b0 - 139, 1>>
  ELSE IF b0 >= 247 /\ b0 <= 250 /\ Len(b) >= 2 THEN <<TRUE, "int", (b0 - 247) * 256 + b[2] + 108, 2>>
  ELSE IF b0 >= 251 /\ b0 <= 254 /\ Len(b) >= 2 THEN <<TRUE, "int", -((b0 - 251) * 256) - b[2] - 108, 2>>
  ELSE IF b0 = 28 /\ fmt \in {"cff", "t2"} /\ Len(b) >= 3 THEN <<TRUE, "int", S16(b, 2), 3>>
  ELSE IF b0 = 29 /\ fmt = "cff" /\ Len(b) >= 5 THEN <<TRUE, "int", S32(b, 2), 5>>
  ELSE IF b0 = 255 /\ fmt = "t1" /\ Len(b) >= 5 THEN <<TRUE, "int", S32(b, 2), 5>>
  ELSE IF b0 = 255 /\ fmt = "t2" /\ Len(b) >= 5 THEN <<TRUE, "fixed", S32(b, 2), 5>>
  ELSE <<FALSE, "bad", 0, 0>>

(* BCD real (TN 5176 table 5): nibbles 0-9 digits, a '.', b 'E', c 'E-', e '-', f end *)
Nibbles(b) == [i \in 1..(2 * Len(b)) |-> IF i % 2 = 1 THEN b[(i + 1) \div 2] \div 16 ELSE b[i \div 2] % 16]

(* parse nibble stream into <<ok, sign, mantissaDigits, fracDigits, expSign, exp, nNibblesUsed>> *)
RECURSIVE RealScan(_, _, _)
RealScan(n, i, st) ==
  (* st = [phase, sign, mant, frac, esign, exp, nd, ok] *)
  IF i > Len(n) THEN [st EXCEPT !.ok = FALSE]
  ELSE LET x == n[i] IN
    IF x = 15 THEN [st EXCEPT !.used = i]
    ELSE IF x <= 9 THEN
      IF st.phase = "exp" THEN RealScan(n, i + 1, [st EXCEPT !.exp = @ * 10 + x])
      ELSE IF st.nd >= 9 THEN [st EXCEPT !.ok = FALSE]
      ELSE RealScan(n, i + 1, [st EXCEPT !.mant = @ * 10 + x, !.nd = @ + 1,
                                         !.frac = IF st.phase = "frac" THEN @ + 1 ELSE @,
                                         !.phase = IF st.phase = "start" THEN "int" ELSE @])
    ELSE IF x = 10 /\ st.phase \in {"start", "int"} THEN RealScan(n, i + 1, [st EXCEPT !.phase = "frac"])
    ELSE IF x = 14 /\ st.phase = "start" /\ st.sign = 1 THEN RealScan(n, i + 1, [st EXCEPT !.sign = -1])
    ELSE IF x = 11 /\ st.phase \in {"int", "frac"} THEN RealScan(n, i + 1, [st EXCEPT !.phase = "exp"])
    ELSE IF x = 12 /\ st.phase \in {"int", "frac"} THEN RealScan(n, i + 1, [st EXCEPT !.phase = "exp", !.esign = -1])
    ELSE [st EXCEPT !.ok = FALSE]

(* strip trailing decimal zeros: <<m, e>> with m * 10^e preserved *)
RECURSIVE NormDec(_, _)
NormDec(m, e) == IF m = 0 THEN <<0, 0>> ELSE IF m % 10 = 0 THEN NormDec(m \div 10, e + 1) ELSE <<m, e>>

RealDecode(b) ==
  (* b starts with byte 30; value = sign * mant * 10^(esign*exp - frac) *)
  IF Len(b) < 2 \/ b[1] # 30 THEN [ok |-> FALSE, m |-> 0, e |-> 0, used |-> 0]
  ELSE LET st == RealScan(Nibbles(Drop(b, 1)), 1,
                   [phase |-> "start", sign |-> 1, mant |-> 0, frac |-> 0, esign |-> 1,
                    exp |-> 0, nd |-> 0, ok |-> TRUE, used |-> 0])
           nm == NormDec(st.sign * st.mant, st.esign * st.exp - st.frac)
       IN [ok |-> st.ok /\ st.used > 0, m |-> nm[1], e |-> nm[2],
           used |-> 1 + ((st.used + 1) \div 2)]

----------------------------------------------------------------------------
(* WOFF2 UIntBase128 (WOFF2 rec. 4.1) on limbs; <<ok, hi, lo, consumed>> *)
RECURSIVE B128(_, _, _, _)
B128(b, i, hi, lo) ==
  IF i > Len(b) \/ i > 5 THEN <<FALSE, 0, 0, 0>>
  ELSE IF i = 1 /\ b[1] = 128 THEN <<FALSE, 0, 0, 0>>            \* leading zeros
  ELSE IF hi >= 512 THEN <<FALSE, 0, 0, 0>>                       \* top 7 bits set: overflow
  ELSE LET t == lo * 128 + (b[i] % 128)
           lo2 == t % 65536
           hi2 == hi * 128 + (t \div 65536)
       IN IF b[i] < 128 THEN <<TRUE, hi2, lo2, i>> ELSE B128(b, i + 1, hi2, lo2)
Base128Decode(b) == B128(b, 1, 0, 0)

(* WOFF2 255UInt16 (WOFF2 rec. 4.2); <<ok, value, consumed>> *)
U255Decode(b) ==
  IF Len(b) = 0 THEN <<FALSE, 0, 0>>
  ELSE IF b[1] = 253 THEN IF Len(b) >= 3 THEN <<TRUE, U16(b, 2), 3>> ELSE <<FALSE, 0, 0>>
  ELSE IF b[1] = 254 THEN IF Len(b) >= 2 THEN <<TRUE, b[2] + 506, 2>> ELSE <<FALSE, 0, 0>>
  ELSE IF b[1] = 255 THEN IF Len(b) >= 2 THEN <<TRUE, b[2] + 253, 2>> ELSE <<FALSE, 0, 0>>
  ELSE <<TRUE, b[1], 1>>

(* uint32var as used by VARC (1-5 bytes selected by leading bits); <<ok, hi, lo, consumed>> *)
U32VarDecode(b) ==
  IF Len(b) = 0 THEN <<FALSE, 0, 0, 0>>
  ELSE LET b0 == b[1] IN
    IF b0 < 128 THEN <<TRUE, 0, b0, 1>>
    ELSE IF b0 < 192 /\ Len(b) >= 2 THEN <<TRUE, 0, (b0 - 128) * 256 + b[2], 2>>
    ELSE IF b0 >= 192 /\ b0 < 224 /\ Len(b) >= 3 THEN <<TRUE, b0 - 192, U16(b, 2), 3>>
    ELSE IF b0 >= 224 /\ b0 < 240 /\ Len(b) >= 4 THEN <<TRUE, (b0 - 224) * 256 + b[2], U16(b, 3), 4>>
    ELSE IF b0 >= 240 /\ Len(b) >= 5 THEN <<TRUE, U16(b, 2), U16(b, 4), 5>>
    ELSE <<FALSE, 0, 0, 0>>

----------------------------------------------------------------------------
(* gvar/cvar packed point numbers (OpenType "Packed point numbers").
   Result <<ok, points (absolute), consumed>>; count 0 means "all points". *)
RECURSIVE PointRuns(_, _, _, _, _)
PointRuns(b, pos, want, acc, last) ==
  IF Len(acc) = want THEN <<TRUE, acc, pos - 1>>
  ELSE IF Len(acc) > want \/ pos > Len(b) THEN <<FALSE, acc, 0>>
  ELSE LET hdr == b[pos]
           n == (hdr % 128) + 1
           words == hdr >= 128
           size == IF words THEN 2 * n ELSE n
       IN IF pos + size > Len(b) THEN <<FALSE, acc, 0>>
          ELSE LET RECURSIVE run(_, _, _)
                   run(k, a, l) == IF k > n THEN <<a, l>>
                                   ELSE LET d == IF words THEN U16(b, pos + 1 + 2 * (k - 1)) ELSE b[pos + k]
                                        IN run(k + 1, Append(a, l + d), l + d)
                   r == run(1, acc, last)
               IN PointRuns(b, pos + 1 + size, want, r[1], r[2])

PackedPointsDecode(b) ==
  IF Len(b) = 0 THEN <<FALSE, <<>>, 0>>
  ELSE LET two == b[1] >= 128
           cnt == IF two THEN (b[1] % 128) * 256 + b[2] ELSE b[1]
           start == IF two THEN 3 ELSE 2
       IN IF two /\ Len(b) < 2 THEN <<FALSE, <<>>, 0>>
          ELSE IF cnt = 0 THEN <<TRUE, <<>>, start - 1>>
          ELSE PointRuns(b, start, cnt, <<>>, 0)

(* packed deltas (OpenType "Packed deltas"): control byte: 0x80 zeros, 0x40 words,
   0xC0 longs, low 6 bits = count-1.  Decode until the data is exhausted. *)
RECURSIVE DeltaRuns(_, _, _)
DeltaRuns(b, pos, acc) ==
  IF pos > Len(b) THEN <<TRUE, acc>>
  ELSE LET hdr == b[pos]
           n == (hdr % 64) + 1
           kind == hdr \div 64   \* 0 bytes, 1 words, 2 zeros, 3 longs
           size == CASE kind = 0 -> n [] kind = 1 -> 2 * n [] kind = 2 -> 0 [] kind = 3 -> 4 * n
       IN IF pos + size > Len(b) THEN <<FALSE, acc>>
          ELSE LET vals == [k \in 1..n |->
                              CASE kind = 0 -> S8(b[pos + k])
                                [] kind = 1 -> S16(b, pos + 1 + 2 * (k - 1))
                                [] kind = 2 -> 0
                                [] kind = 3 -> S32(b, pos + 1 + 4 * (k - 1))]
               IN DeltaRuns(b, pos + 1 + size, acc \o vals)
PackedDeltasDecode(b) == DeltaRuns(b, 1, <<>>)

----------------------------------------------------------------------------
(* Type 1 eexec / charstring encryption (Type 1 book ch. 7): a byte-stepping
   state machine r' = ((c + r) * 52845 + 22719) mod 65536, p = c xor (r >> 8).
   52845 = 206*256 + 109; the product is reduced without leaving 31 bits.     *)
Mul52845(x) == (((x * 206) % 256) * 256 + x * 109) % 65536
NextKey(c, r) == (Mul52845((c + r) % 65536) + 22719) % 65536
RECURSIVE XorBits(_, _, _)
XorBits(a, b, n) == IF n = 0 THEN 0
                    ELSE 2 * XorBits(a \div 2, b \div 2, n - 1) + ((a + b) % 2)
Xor8(a, b) == XorBits(a, b, 8)
RECURSIVE Decrypt(_, _, _, _)
Decrypt(c, i, r, acc) == IF i > Len(c) THEN <<acc, r>>
                         ELSE Decrypt(c, i + 1, NextKey(c[i], r), Append(acc, Xor8(c[i], r \div 256)))

----------------------------------------------------------------------------
(* Fixed point <-> decimal text.  DecFixed(neg, ip, F, k, p): the p-bit fixed value of
   the decimal  (-1)^neg * (ip + F / 10^k)  under OpenType rounding floor(x + 1/2),
   by long division (all intermediates < 2 * 10^k <= 2*10^9).                    *)
RECURSIVE FracBits(_, _, _, _)
FracBits(x, m, n, acc) == IF n = 0 THEN <<acc, x>>
                          ELSE LET y == 2 * x IN FracBits(y % m, m, n - 1, 2 * acc + (y \div m))
DecFixed(neg, ip, F, k, p) ==
  LET m == Pow(10, k)
      fb == FracBits(F, m, p, 0)       \* <<floor(F/10^k * 2^p), remainder>>
      r2 == 2 * fb[2]
  IN IF neg THEN (-ip) * Pow(2, p) - fb[1] - (IF r2 > m THEN 1 ELSE 0)
     ELSE ip * Pow(2, p) + fb[1] + (IF r2 >= m THEN 1 ELSE 0)

(* parse "[-]ddd.ddd" given as character codes; <<ok, neg, ip, F, k>> *)
Digit(c) == c - 48
IsDigit(c) == c >= 48 /\ c <= 57
RECURSIVE ParseNat(_, _, _, _)
ParseNat(s, i, j, acc) == IF i > j THEN acc ELSE ParseNat(s, i + 1, j, acc * 10 + Digit(s[i]))
DecimalParse(s) ==
  LET neg == Len(s) > 0 /\ s[1] = 45
      t == IF neg THEN Drop(s, 1) ELSE s
      dots == {i \in 1..Len(t) : t[i] = 46}
  IN IF Cardinality(dots) # 1 THEN <<FALSE, FALSE, 0, 0, 0>>
     ELSE LET d == CHOOSE i \in dots : TRUE
              k == Len(t) - d
          IN IF d = 1 \/ k = 0 \/ k > 9 \/ d > 10 \/ (\E i \in 1..Len(t) : i # d /\ ~IsDigit(t[i]))
             THEN <<FALSE, FALSE, 0, 0, 0>>
             ELSE <<TRUE, neg, ParseNat(t, 1, d - 1, 0), ParseNat(t, d + 1, Len(t), 0), k>>

(* the printed decimal must round to fx, and no decimal with fewer fractional digits
   may do so ("shortest"), except that one fractional digit is always printed. *)
FixedStrOK(fx, p, s) ==
  LET d == DecimalParse(s) IN
  IF ~d[1] THEN "unparsable"
  ELSE LET neg == d[2] ip == d[3] F == d[4] k == d[5] IN
    IF DecFixed(neg, ip, F, k, p) # fx THEN "rounds-elsewhere"
    ELSE IF k > 1 /\ ( DecFixed(neg, ip, F \div 10, k - 1, p) = fx
                     \/ (F \div 10 + 1 < Pow(10, k - 1) /\ DecFixed(neg, ip, F \div 10 + 1, k - 1, p) = fx)
                     \/ (F \div 10 + 1 = Pow(10, k - 1) /\ (neg \/ ip + 1 < Pow(2, 31 - p)) /\ DecFixed(neg, ip + 1, 0, k - 1, p) = fx) )
         THEN "not-shortest"
    ELSE "ok"

(* otRound(n/d) = floor(n/d + 1/2), d > 0 *)
FloorDiv(a, b) == IF a >= 0 THEN a \div b ELSE -((-(a + 1)) \div b) - 1
OtRound(n, d) == FloorDiv(2 * n + d, 2 * d)

----------------------------------------------------------------------------
(* Calendar: days from 1904-01-01 to y-m-d (proleptic Gregorian) *)
IsLeap(y) == (y % 4 = 0 /\ y % 100 # 0) \/ y % 400 = 0
DaysBeforeYear(y) == LET z == y - 1 IN 365 * z + z \div 4 - z \div 100 + z \div 400
MonthLen(y, m) == IF m = 2 THEN (IF IsLeap(y) THEN 29 ELSE 28)
                  ELSE IF m \in {4, 6, 9, 11} THEN 30 ELSE 31
RECURSIVE DaysBeforeMonth(_, _)
DaysBeforeMonth(y, m) == IF m = 1 THEN 0 ELSE DaysBeforeMonth(y, m - 1) + MonthLen(y, m - 1)
Days1904(y, m, d) == DaysBeforeYear(y) + DaysBeforeMonth(y, m) + (d - 1) - DaysBeforeYear(1904)
(* weekday: 1904-01-01 was a Friday (Mon=0 .. Sun=6) *)
Weekday1904(days) == (4 + days) % 7

----------------------------------------------------------------------------
(* table tag <-> Python identifier (documented scheme in ttFont.tagToIdentifier):
   lower/digit -> "_"c ; upper -> c"_" ; other -> two hex digits; trailing spaces
   trimmed (keeping at least one char); a leading digit gets an extra "_".        *)
IsLower(c) == c >= 97 /\ c <= 122
IsUpper(c) == c >= 65 /\ c <= 90
HexVal(c) == IF IsDigit(c) THEN c - 48 ELSE IF c >= 97 /\ c <= 102 THEN c - 87 ELSE IF c >= 65 /\ c <= 70 THEN c - 55 ELSE -1
RECURSIVE IdentPairs(_, _, _)
IdentPairs(s, i, acc) ==
  IF i > Len(s) THEN <<TRUE, acc>>
  ELSE IF i + 1 > Len(s) THEN <<FALSE, acc>>
  ELSE IF s[i] = 95 THEN IdentPairs(s, i + 2, Append(acc, s[i + 1]))
  ELSE IF s[i + 1] = 95 THEN IdentPairs(s, i + 2, Append(acc, s[i]))
  ELSE IF HexVal(s[i]) >= 0 /\ HexVal(s[i + 1]) >= 0
       THEN IdentPairs(s, i + 2, Append(acc, HexVal(s[i]) * 16 + HexVal(s[i + 1])))
  ELSE <<FALSE, acc>>
PadTag(t) == t \o [i \in 1..(4 - Len(t)) |-> 32]
IdentToTag(s) ==
  LET s1 == IF Len(s) % 2 = 1 /\ s[1] = 95 THEN Drop(s, 1) ELSE s
      r == IdentPairs(s1, 1, <<>>)
  IN IF r[1] /\ Len(r[2]) <= 4 /\ Len(r[2]) >= 1 THEN <<TRUE, PadTag(r[2])>> ELSE <<FALSE, <<>>>>
(* a legal, caseless-unique identifier: [A-Za-z_][A-Za-z0-9_]* *)
IsIdentChar(c) == IsLower(c) \/ IsUpper(c) \/ IsDigit(c) \/ c = 95
LegalIdent(s) == Len(s) > 0 /\ ~IsDigit(s[1]) /\ \A i \in 1..Len(s) : IsIdentChar(s[i])

----------------------------------------------------------------------------
(* IFT sparse bit set (W3C IFT "Sparse Bit Set decoding"): header byte: low 2 bits
   branch-factor id {2,4,8,32}, next 5 bits height; nodes in BFS order, each a
   little-endian group of B bits; an all-zero node means "subtree completely full". *)
BFOf(id) == CASE id = 0 -> 2 [] id = 1 -> 4 [] id = 2 -> 8 [] id = 3 -> 32
(* bit j (0-based) of node number n (0-based) *)
NodeBit(b, B, n, j) ==
  IF B = 32 THEN (b[2 + 4 * n + j \div 8] \div Pow(2, j % 8)) % 2
  ELSE IF B = 8 THEN (b[2 + n] \div Pow(2, j)) % 2
  ELSE LET per == 8 \div B IN (b[2 + n \div per] \div Pow(2, (n % per) * B + j)) % 2
NodesAvail(b, B) == IF B = 32 THEN (Len(b) - 1) \div 4 ELSE IF B = 8 THEN Len(b) - 1 ELSE (Len(b) - 1) * (8 \div B)
(* BFS with an explicit queue of <<start, depth>>; returns <<ok, set, nodesRead>> *)
RECURSIVE SBS(_, _, _, _, _, _)
SBS(b, B, H, queue, n, acc) ==
  IF queue = <<>> THEN <<TRUE, acc, n>>
  ELSE IF n >= NodesAvail(b, B) THEN <<FALSE, acc, n>>
  ELSE LET start == Head(queue)[1]
           depth == Head(queue)[2]
           bits == {j \in 0..(B - 1) : NodeBit(b, B, n, j) = 1}
       IN IF bits = {}
          THEN SBS(b, B, H, Tail(queue), n + 1, acc \cup (start..(start + Pow(B, H - depth + 1) - 1)))
          ELSE IF depth = H
          THEN SBS(b, B, H, Tail(queue), n + 1, acc \cup {start + j : j \in bits})
          ELSE LET sz == Pow(B, H - depth)
                   RECURSIVE kids(_)
                   kids(j) == IF j >= B THEN <<>>
                              ELSE (IF j \in bits THEN <<<<start + j * sz, depth + 1>>>> ELSE <<>>) \o kids(j + 1)
               IN SBS(b, B, H, Tail(queue) \o kids(0), n + 1, acc)
SparseBitSetDecode(b) ==
  IF Len(b) = 0 THEN <<FALSE, {}, 0>>
  ELSE LET B == BFOf(b[1] % 4)
           H == (b[1] \div 4) % 32
       IN IF H = 0 THEN <<TRUE, {}, 0>> ELSE SBS(b, B, H, <<<<0, 1>>>>, 0, {})

----------------------------------------------------------------------------
(* sstruct: big-endian struct packing; fields [t, v] with t in b B h H l(limbs) L(limbs)
   and fixed-point fields carried as their raw integers. *)
RECURSIVE StructDecode(_, _, _, _)
StructDecode(b, pos, fmt, acc) ==
  IF fmt = <<>> THEN <<pos = Len(b) + 1, acc>>
  ELSE LET t == Head(fmt) IN
    IF t = "x" THEN StructDecode(b, pos + 1, Tail(fmt), acc)
    ELSE IF t = "b" THEN StructDecode(b, pos + 1, Tail(fmt), Append(acc, S8(b[pos])))
    ELSE IF t = "B" THEN StructDecode(b, pos + 1, Tail(fmt), Append(acc, b[pos]))
    ELSE IF t = "h" THEN StructDecode(b, pos + 2, Tail(fmt), Append(acc, S16(b, pos)))
    ELSE IF t = "H" THEN StructDecode(b, pos + 2, Tail(fmt), Append(acc, U16(b, pos)))
    ELSE IF t = "l" THEN StructDecode(b, pos + 4, Tail(fmt), Append(acc, S32(b, pos)))
    ELSE IF t = "L" THEN StructDecode(b, pos + 4, Tail(fmt), Append(acc, Limbs(b, pos)))
    ELSE <<FALSE, acc>>

(* hex strings *)
RECURSIVE HexDecode(_, _, _)
HexDecode(s, i, acc) == IF i > Len(s) THEN <<TRUE, acc>>
                        ELSE IF i + 1 > Len(s) \/ HexVal(s[i]) < 0 \/ HexVal(s[i + 1]) < 0 THEN <<FALSE, acc>>
                        ELSE HexDecode(s, i + 2, Append(acc, HexVal(s[i]) * 16 + HexVal(s[i + 1])))
=============================================================================
