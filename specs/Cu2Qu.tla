------------------------------- MODULE Cu2Qu -------------------------------
(* C13 -- curve conversion stays within tolerance and keeps masters compatible.

   Part (a): the search protocol of fontTools.cu2qu.cu2qu.curves_to_quadratic /
   curve_to_quadratic as a state machine over an abstract table  fits[c][n]
   ("the n-segment construction for curve c is within its tolerance").
   Part (b): the geometric contract in exact 32-bit integer arithmetic.

   ---- units and the error budget of part (b) --------------------------------
   The harness sends coordinates as integers in units u = 2^-S (S per trace);
   the judge doubles them, so everything below is in HALF-UNITS h = u/2.  Then the
   implied on-curve points of a TrueType quadratic spline (midpoints of successive
   off-curve points) are exact.  Every derived quantity carries a per-coordinate
   error bound e (an integer number of h), derived as follows and never tuned:
     * a coordinate that was rounded from a float to the lattice: <= 1/2 u = 1 h
       (the harness logs 0 if the conversion was exact, else 1);
     * one rounded linear interpolation RDiv: <= 1/2 h, and interpolation is a convex
       combination, so inherited errors do not grow: de Casteljau evaluation or one
       subdivision of a degree-d piece adds <= d/2 h, accounted as EvErr = 2 (cubic),
       1 (quadratic, line);
     * FLT = 1 h granted to the implementation's own binary64 rounding (its tolerance
       comparison is done in floats; 1 h >= 2^-13 exceeds that by many orders).
   A clause REJECTS only when the violation is certain after subtracting e from
   every coordinate difference, so every rejection is a real violation (soundness);
   acceptance is evidence at the sampled parameters, not a proof.

   ---- 32-bit bounds ---------------------------------------------------------
   InRange demands |coordinate| <= CMAX = 2^17 h, parameter denominators D <= DMAXDEN
   = 2^11 and tolerance <= TMAX = 2^13 h.  Largest intermediates:
     RDiv numerator 2*((D-a)*p + a*q) + D  <=  2*2^11*2^17 + 2^11  <  2^30;
     squared distances are formed only after both components were found <= 3*tol
     <= 3*2^13, so a sum of two squares is <= 2*9*2^26 < 2^31.                      *)
EXTENDS Integers, Sequences, FiniteSets

(***************************************************************************)
(* Part (a): the search protocol                                           *)
(***************************************************************************)
(* State: n (current segment count), i (curve being tried), last (last_i of the
   code, 1-based), sn[c] = segment count of the spline currently stored for curve c
   (0 = None), pc in {"run", "ret", "raise"}.  One step = one iteration of the
   `while True` loop of curves_to_quadratic.                                      *)
PInit(L) == [n |-> 1, i |-> 1, last |-> 1, sn |-> [c \in 1..L |-> 0], pc |-> "run"]

PStep(s, fits, L, MaxN) ==
  IF s.pc # "run" THEN s
  ELSE IF ~fits[s.i][s.n]
       THEN IF s.n = MaxN THEN [s EXCEPT !.pc = "raise"]
            ELSE [s EXCEPT !.n = s.n + 1, !.last = s.i]
       ELSE LET i2 == (s.i % L) + 1
            IN [s EXCEPT !.sn[s.i] = s.n, !.i = i2,
                         !.pc = IF i2 = s.last THEN "ret" ELSE "run"]

RECURSIVE PRun(_, _, _, _)
PRun(s, fits, L, MaxN) == IF s.pc # "run" THEN s ELSE PRun(PStep(s, fits, L, MaxN), fits, L, MaxN)

AllFit(fits, L, n) == \A c \in 1..L : fits[c][n]
CommonNs(fits, L, MaxN) == {n \in 1..MaxN : AllFit(fits, L, n)}

(* curve_to_quadratic (one curve): `for n in 1..MAX_N: if fits: return` *)
RECURSIVE SingleRun(_, _, _)
SingleRun(row, n, MaxN) == IF n > MaxN THEN 0 ELSE IF row[n] THEN n ELSE SingleRun(row, n + 1, MaxN)

(* The contract of a terminated state.
   SameN        every returned spline was built with the same, final n;
   Fitting      every curve fits at the returned n;
   Minimality   the returned n is the LEAST n at which ALL curves fit simultaneously.
                This is exactly what the loop gives: n only grows, and it grows from m
                to m+1 only on a witnessed failure of some curve at m.  It holds without
                any monotonicity assumption on fits.  It is NOT minimal per curve (a
                curve that alone fits at a smaller n still gets the common n), and a
                curve that fits at m but not at the common n is never returned with m.
   RaiseNotWorse  the error is raised iff no n <= MaxN fits all curves; nothing is
                returned in that case.                                              *)
SameN(s, L) == s.pc = "ret" => \A c \in 1..L : s.sn[c] = s.n
Fitting(s, fits, L) == s.pc = "ret" => AllFit(fits, L, s.n)
Minimality(s, fits, L) == s.pc = "ret" => \A m \in 1..(s.n - 1) : ~AllFit(fits, L, m)
RaiseNotWorse(s, fits, L, MaxN) ==
  /\ s.pc = "raise" => CommonNs(fits, L, MaxN) = {}
  /\ s.pc = "ret" => CommonNs(fits, L, MaxN) # {}
(* inductive facts while running *)
Progress(s, fits, L, MaxN) ==
  /\ s.n \in 1..MaxN /\ s.i \in 1..L /\ s.last \in 1..L
  /\ \A m \in 1..(s.n - 1) : ~AllFit(fits, L, m)
  /\ \A c \in 1..L : s.sn[c] # 0 => s.sn[c] <= s.n /\ fits[c][s.sn[c]]

(***************************************************************************)
(* Part (b): geometry in half-units                                        *)
(***************************************************************************)
CMAX == 131072
DMAXDEN == 2048
TMAX == 8192
FLT == 1
DEPTH == 12      \* adaptive subdivision depth of the distance lower bound
CERTDEPTH == 3   \* subdivision depth of the Bernstein certificate
PATHK == 8       \* samples per piece in the generic chain comparison

Abs(x) == IF x < 0 THEN -x ELSE x
Max(a, b) == IF a >= b THEN a ELSE b
Min(a, b) == IF a <= b THEN a ELSE b

RDiv(a, d) == (2 * a + d) \div (2 * d)          \* nearest integer to a/d (d > 0); |error| <= 1/2
Lerp1(p, q, a, D) == RDiv((D - a) * p + a * q, D)
Lerp(P, Q, a, D) == <<Lerp1(P[1], Q[1], a, D), Lerp1(P[2], Q[2], a, D)>>
MidE(P, Q) == <<(P[1] + Q[1]) \div 2, (P[2] + Q[2]) \div 2>>   \* exact on doubled coordinates

EvErr(P) == Len(P) \div 2     \* 4 points -> 2 h, 3 -> 1, 2 -> 1

(* NOTE on evaluation: TLC applies a function constructor [i \in S |-> e] lazily and
   re-evaluates e at every application, which is exponential in nested de Casteljau levels;
   the operators below therefore build explicit tuples (LET definitions are cached).    *)

(* point of the Bezier piece P (2..4 control points) at parameter a/D: nested lerps *)
DeCast(P, a, D) ==
  IF Len(P) = 2 THEN Lerp(P[1], P[2], a, D)
  ELSE IF Len(P) = 3 THEN
    LET a1 == Lerp(P[1], P[2], a, D) a2 == Lerp(P[2], P[3], a, D) IN Lerp(a1, a2, a, D)
  ELSE
    LET a1 == Lerp(P[1], P[2], a, D) a2 == Lerp(P[2], P[3], a, D) a3 == Lerp(P[3], P[4], a, D)
        b1 == Lerp(a1, a2, a, D) b2 == Lerp(a2, a3, a, D)
    IN Lerp(b1, b2, a, D)

(* control points of the cubic P restricted to [a/D, b/D] by blossoming: control point i is
   the blossom with (3-i) arguments a/D and i arguments b/D (level r interpolates at its
   r-th argument; the blossom is symmetric, so the order of arguments is free)          *)
SubPiece(P, a, b, D) ==
  LET a1 == Lerp(P[1], P[2], a, D) a2 == Lerp(P[2], P[3], a, D) a3 == Lerp(P[3], P[4], a, D)
      b1 == Lerp(P[1], P[2], b, D) b2 == Lerp(P[2], P[3], b, D) b3 == Lerp(P[3], P[4], b, D)
      aa1 == Lerp(a1, a2, a, D) aa2 == Lerp(a2, a3, a, D)
      ab1 == Lerp(a1, a2, b, D) ab2 == Lerp(a2, a3, b, D)
      bb1 == Lerp(b1, b2, b, D) bb2 == Lerp(b2, b3, b, D)
  IN << Lerp(aa1, aa2, a, D), Lerp(aa1, aa2, b, D), Lerp(ab1, ab2, b, D), Lerp(bb1, bb2, b, D) >>
(* the cubic split into n equal parameter pieces, as cu2qu does *)
RECURSIVE SplitFrom(_, _, _, _)
SplitFrom(P, j, n, acc) == IF j > n THEN acc ELSE SplitFrom(P, j + 1, n, Append(acc, SubPiece(P, j - 1, j, n)))
SplitN(P, n) == SplitFrom(P, 1, n, <<>>)

(* both halves of a piece from one de Casteljau triangle *)
Halves(P) ==
  IF Len(P) = 2 THEN LET m == Lerp(P[1], P[2], 1, 2) IN << <<P[1], m>>, <<m, P[2]>> >>
  ELSE IF Len(P) = 3 THEN
    LET a1 == Lerp(P[1], P[2], 1, 2) a2 == Lerp(P[2], P[3], 1, 2) b == Lerp(a1, a2, 1, 2)
    IN << <<P[1], a1, b>>, <<b, a2, P[3]>> >>
  ELSE
    LET a1 == Lerp(P[1], P[2], 1, 2) a2 == Lerp(P[2], P[3], 1, 2) a3 == Lerp(P[3], P[4], 1, 2)
        b1 == Lerp(a1, a2, 1, 2) b2 == Lerp(a2, a3, 1, 2) c == Lerp(b1, b2, 1, 2)
    IN << <<P[1], a1, b1, c>>, <<c, b2, a3, P[4]>> >>

(* pieces of a TrueType quadratic spline  on, off_1 .. off_k, on  with implied on-curves *)
SplinePiece(Q, j) ==
  LET k == Len(Q) - 2
  IN << IF j = 1 THEN Q[1] ELSE MidE(Q[j], Q[j + 1]),
        Q[j + 1],
        IF j = k THEN Q[k + 2] ELSE MidE(Q[j + 1], Q[j + 2]) >>
RECURSIVE SplineFrom(_, _, _)
SplineFrom(Q, j, acc) == IF j > Len(Q) - 2 THEN acc ELSE SplineFrom(Q, j + 1, Append(acc, SplinePiece(Q, j)))
SplinePieces(Q) == SplineFrom(Q, 1, <<>>)

CoordMin(P, c) == LET m == Min(P[1][c], P[2][c]) IN
  IF Len(P) = 2 THEN m ELSE IF Len(P) = 3 THEN Min(m, P[3][c]) ELSE Min(Min(m, P[3][c]), P[4][c])
CoordMax(P, c) == LET m == Max(P[1][c], P[2][c]) IN
  IF Len(P) = 2 THEN m ELSE IF Len(P) = 3 THEN Max(m, P[3][c]) ELSE Max(Max(m, P[3][c]), P[4][c])

(* certainly farther than tol, given per-coordinate error e on the difference *)
FarD(dx0, dy0, e, tol) ==
  LET dx == Max(0, dx0 - e) dy == Max(0, dy0 - e)
  IN dx > tol \/ dy > tol \/ dx * dx + dy * dy > tol * tol
(* certainly within tol *)
SureD(dx0, dy0, e, tol) ==
  LET dx == dx0 + e dy == dy0 + e
  IN dx <= tol /\ dy <= tol /\ dx * dx + dy * dy <= tol * tol

FarPt(p, q, e, tol) == FarD(Abs(p[1] - q[1]), Abs(p[2] - q[2]), e, tol)
SurePt(p, q, e, tol) == SureD(Abs(p[1] - q[1]), Abs(p[2] - q[2]), e, tol)
(* the curve piece lies in the convex hull of its control points, hence in their box *)
FarBox(p, P, e, tol) ==
  FarD(Max(0, Max(CoordMin(P, 1) - p[1], p[1] - CoordMax(P, 1))),
       Max(0, Max(CoordMin(P, 2) - p[2], p[2] - CoordMax(P, 2))), e, tol)

(* Near(p, P, e, tol, d) = FALSE  only if p is CERTAINLY farther than tol from every point
   of piece P (lower bound by adaptive subdivision of the control boxes); TRUE means
   "within tol" or "cannot be excluded at this depth".                               *)
RECURSIVE Near(_, _, _, _, _)
Near(p, P, e, tol, d) ==
  IF FarBox(p, P, e, tol) THEN FALSE
  ELSE IF d = 0 THEN TRUE
  ELSE IF SurePt(p, P[1], e, tol) \/ SurePt(p, P[Len(P)], e, tol) THEN TRUE
  ELSE LET h == Halves(P) e2 == e + EvErr(P)
           l1 == Abs(p[1] - P[1][1]) + Abs(p[2] - P[1][2])
           l2 == Abs(p[1] - P[Len(P)][1]) + Abs(p[2] - P[Len(P)][2])
       IN IF l1 <= l2      \* search the half on the nearer side first (the disjunction is lazy)
          THEN Near(p, h[1], e2, tol, d - 1) \/ Near(p, h[2], e2, tol, d - 1)
          ELSE Near(p, h[2], e2, tol, d - 1) \/ Near(p, h[1], e2, tol, d - 1)

NearPath(p, Ps, e, tol) == \E i \in 1..Len(Ps) : Near(p, Ps[i], e, tol, DEPTH)

PtsInRange(P) == \A i \in 1..Len(P) : Abs(P[i][1]) <= CMAX /\ Abs(P[i][2]) <= CMAX

(* ---- cubic -> quadratic spline ------------------------------------------------
   C: 4 control points, Q: n+2 spline points, eC / eQ input errors (h), tol (h).
   The tolerance notion: cu2qu bounds the distance between cubic piece j and quadratic
   j at EQUAL parameter; the documentation promises a "permitted deviation from the
   original curve".  Equal-parameter distance <= tol implies Hausdorff distance <= tol,
   so a sample is accepted when its equal-parameter partner is not certainly farther
   than tol, and REJECTED only when it is certainly farther than tol from the WHOLE
   other curve (a violation under either reading).                                  *)
C2QSample(C, pieces, n, j, k) ==
  [a |-> DeCast(C, 16 * (j - 1) + k, 16 * n), b |-> DeCast(pieces[j], k, 16)]

(* Bernstein certificate (sufficient, so only ever used to ACCEPT):
   the error curve of piece j, E(t) = C_j(t) - elevate(Q_j)(t), is a cubic Bezier with
   control points E0..E3; 3*E_i is integral:
       3E0 = 3(c0-q0), 3E1 = 3c1 - q0 - 2q1, 3E2 = 3c2 - 2q1 - q2, 3E3 = 3(c3-q2).
   If all control points (after midpoint subdivision to depth CERTDEPTH) are certainly
   within tol, |E(t)| <= tol for EVERY t in [0,1], not only at the samples.          *)
RECURSIVE CertE(_, _, _, _)
CertE(T, e, tol3, d) ==
  IF \A i \in 1..4 : SureD(Abs(T[i][1]), Abs(T[i][2]), e, tol3) THEN TRUE
  ELSE IF d = 0 THEN FALSE
  ELSE LET h == Halves(T) IN CertE(h[1], e + 2, tol3, d - 1) /\ CertE(h[2], e + 2, tol3, d - 1)

ErrCtl3(c, q) ==
  << <<3 * (c[1][1] - q[1][1]), 3 * (c[1][2] - q[1][2])>>,
     <<3 * c[2][1] - q[1][1] - 2 * q[2][1], 3 * c[2][2] - q[1][2] - 2 * q[2][2]>>,
     <<3 * c[3][1] - 2 * q[2][1] - q[3][1], 3 * c[3][2] - 2 * q[2][2] - q[3][2]>>,
     <<3 * (c[4][1] - q[3][1]), 3 * (c[4][2] - q[3][2])>> >>

(* pieces whose equal-parameter error is certified <= tol on the whole interval *)
C2QCertPieces(C, Q, eC, eQ, tol) ==
  LET n == Len(Q) - 2 pieces == SplinePieces(Q)
  IN {j \in 1..n : CertE(ErrCtl3(SubPiece(C, j - 1, j, n), pieces[j]), 3 * (eC + 2) + 3 * eQ, 3 * tol, CERTDEPTH)}
C2QCertified(C, Q, eC, eQ, tol) == C2QCertPieces(C, Q, eC, eQ, tol) = 1..(Len(Q) - 2)

(* certain violations <<j, k, which>> among the pieces js, sampled at t = k/16 *)
C2QBadIn(C, Q, eC, eQ, tol, js) ==
  LET n == Len(Q) - 2
      pieces == SplinePieces(Q)
      e == (eC + 2) + (eQ + 1) + FLT
  IN UNION { LET s == C2QSample(C, pieces, n, jk[1], jk[2]) IN
             IF ~FarPt(s.a, s.b, e, tol) THEN {}
             ELSE (IF NearPath(s.b, <<C>>, e, tol) THEN {} ELSE {<<jk[1], jk[2], "spline-point-off-cubic">>})
                  \cup (IF NearPath(s.a, pieces, e, tol) THEN {} ELSE {<<jk[1], jk[2], "cubic-point-off-spline">>})
           : jk \in {<<j, k>> : j \in js, k \in 0..16} }
(* a certified piece cannot contain a violation, so only the others are sampled *)
C2QBad(C, Q, eC, eQ, tol) ==
  C2QBadIn(C, Q, eC, eQ, tol, (1..(Len(Q) - 2)) \ C2QCertPieces(C, Q, eC, eQ, tol))

(* number of sampled parameters at which the equal-parameter distance itself is
   certainly > tol (the code's own, stricter notion; used by the oracle's self-test) *)
C2QParamFar(C, Q, eC, eQ, tol) ==
  LET n == Len(Q) - 2 pieces == SplinePieces(Q) e == (eC + 2) + (eQ + 1) + FLT
  IN Cardinality({jk \in {<<j, k>> : j \in 1..n, k \in 0..16} :
        LET s == C2QSample(C, pieces, n, jk[1], jk[2]) IN FarPt(s.a, s.b, e, tol)})

(* ---- generic pair of paths (reverse direction qu2cu, pens) ---------------------
   A, B: sequences of Bezier pieces (2..4 control points).  Hausdorff, both directions,
   at the parameters k/PATHK of every piece.                                         *)
PathOff(A, B, eA, eB, tol) ==      \* <<i, k>> of A's samples certainly farther than tol from B
  LET same == {i \in 1..Len(A) : \E j \in 1..Len(B) : B[j] = A[i]}   \* piece kept verbatim: lies on B
  IN {ik \in {<<i, k>> : i \in (1..Len(A)) \ same, k \in 0..PATHK} :
        ~NearPath(DeCast(A[ik[1]], ik[2], PATHK), B, eA + EvErr(A[ik[1]]) + eB + FLT, tol)}

Chained(A) == \A i \in 1..(Len(A) - 1) : A[i][Len(A[i])] = A[i + 1][1]
=============================================================================
