------------------------------- MODULE DocSem -------------------------------
(* Design-source documents (designspace documents, GLIF glyph records, fontinfo /
   kerning / groups / lib / layercontents, property lists) as TLA+ values, and the
   laws a writer/reader pair must satisfy on them.

   A document is a TREE.  A node is a tuple whose first element is its tag:
     <<"N">>                        absent / None
     <<"B", 0|1>>                   boolean
     <<"R", sgn, mant, exp>>        a number BY VALUE: sgn * mant * 2^exp, mant an odd
                                    natural given as little-endian 16-bit limbs (<<>> for 0)
     <<"I", sgn, mant, exp>>, <<"F", sgn, mant, exp>>   typed plist integer / real
     <<"S", codes>>  <<"Y", bytes>>  text (code points) / binary data
     <<"X", id>>                    a longer text, interned by the recorder: ids are equal
                                    exactly when the texts are (injective table per trace)
     <<"T", <<y, mo, d, h, mi, s>>>> plist date
     <<"L", <<node, ...>>>>         ordered list
     <<"D", <<<<key, node>>, ...>>>> mapping, keys (code-point sequences) strictly
                                    increasing in code-point order
   ReadWrite: Read(Write(d)) = d is equality of trees; Diff names where two trees part. *)
EXTENDS Integers, Sequences, FiniteSets

Min(S) == CHOOSE x \in S : \A y \in S : x <= y
LeafTags == {"N", "B", "R", "I", "F", "S", "X", "Y", "T"}

(* lexicographic order on code-point sequences *)
RECURSIVE LexLt(_, _, _)
LexLt(a, b, i) == IF i > Len(b) THEN FALSE ELSE IF i > Len(a) THEN TRUE
                  ELSE IF a[i] < b[i] THEN TRUE ELSE IF a[i] > b[i] THEN FALSE ELSE LexLt(a, b, i + 1)

RECURSIVE WellFormed(_)
WellFormed(t) ==
  /\ Len(t) >= 1
  /\ CASE t[1] = "N" -> Len(t) = 1
       [] t[1] = "B" -> Len(t) = 2 /\ t[2] \in {0, 1}
       [] t[1] \in {"R", "I", "F"} -> /\ Len(t) = 4 /\ t[2] \in {-1, 0, 1}
                                      /\ \A i \in 1..Len(t[3]) : t[3][i] \in 0..65535
                                      /\ (t[2] = 0 <=> t[3] = <<>>)
                                      /\ (t[3] # <<>> => t[3][1] % 2 = 1 /\ t[3][Len(t[3])] # 0)
                                      /\ (t[2] = 0 => t[4] = 0)
       [] t[1] \in {"S", "Y"} -> Len(t) = 2 /\ \A i \in 1..Len(t[2]) : t[2][i] >= 0
       [] t[1] = "X" -> Len(t) = 2 /\ t[2] >= 1
       [] t[1] = "T" -> Len(t) = 2 /\ Len(t[2]) = 6
       [] t[1] = "L" -> Len(t) = 2 /\ \A i \in 1..Len(t[2]) : WellFormed(t[2][i])
       [] t[1] = "D" -> /\ Len(t) = 2
                        /\ \A i \in 1..Len(t[2]) : Len(t[2][i]) = 2 /\ WellFormed(t[2][i][2])
                        /\ \A i \in 1..(Len(t[2]) - 1) : LexLt(t[2][i][1], t[2][i + 1][1], 1)
       [] OTHER -> FALSE

(* where two well-formed trees differ: <<>> when equal, else a path ending in the kind of
   difference.  Path elements are positions: the index in a list, the position of the key in
   a mapping (keys are sorted, so positions identify keys; "lost-key" positions refer to the
   first tree, "new-key" positions to the second).  Positions keep the verdict short. *)
RECURSIVE Diff(_, _)
Diff(a, b) ==
  IF a[1] # b[1] THEN <<"tag", a[1], b[1]>>
  ELSE IF a[1] = "L" THEN
    IF Len(a[2]) # Len(b[2]) THEN <<"length", Len(a[2]), Len(b[2])>>
    ELSE LET bad == {i \in 1..Len(a[2]) : a[2][i] # b[2][i]}
         IN IF bad = {} THEN <<>> ELSE <<Min(bad)>> \o Diff(a[2][Min(bad)], b[2][Min(bad)])
  ELSE IF a[1] = "D" THEN
    LET ka == [i \in 1..Len(a[2]) |-> a[2][i][1]] kb == [i \in 1..Len(b[2]) |-> b[2][i][1]] IN
    IF ka # kb THEN
       LET onlyA == {i \in 1..Len(ka) : \A j \in 1..Len(kb) : kb[j] # ka[i]}
           onlyB == {j \in 1..Len(kb) : \A i \in 1..Len(ka) : kb[j] # ka[i]}
       IN IF onlyA # {} THEN <<"lost-key", Min(onlyA)>> ELSE <<"new-key", Min(onlyB)>>
    ELSE LET bad == {i \in 1..Len(a[2]) : a[2][i][2] # b[2][i][2]}
         IN IF bad = {} THEN <<>> ELSE <<Min(bad)>> \o Diff(a[2][Min(bad)][2], b[2][Min(bad)][2])
  ELSE IF a = b THEN <<>> ELSE <<"value">>

TreeEq(a, b) == a = b     \* on well-formed trees native equality is structural equality
ReadWrite(before, after) == TreeEq(before, after)

(* -------------------------------------------------------------------------- *)
(* UpConvert: UFO 1/2 kerning groups read as UFO 3 (UFO 3 specification, "Converting
   kerning groups in UFO 1 and 2").  groups: sequence of <<name, members>>; kerning:
   sequence of <<first, second, value>>; glyphs: set of glyph names of the font.       *)
StartsWith(s, p) == Len(s) >= Len(p) /\ SubSeq(s, 1, Len(p)) = p
Strip(s, p) == IF StartsWith(s, p) THEN SubSeq(s, Len(p) + 1, Len(s)) ELSE s
MMK_L == <<64, 77, 77, 75, 95, 76, 95>>
MMK_R == <<64, 77, 77, 75, 95, 82, 95>>
KERN1 == <<112, 117, 98, 108, 105, 99, 46, 107, 101, 114, 110, 49, 46>>
KERN2 == <<112, 117, 98, 108, 105, 99, 46, 107, 101, 114, 110, 50, 46>>
SeqSet(s) == {s[i] : i \in 1..Len(s)}
GroupNames(groups) == {groups[i][1] : i \in 1..Len(groups)}
Side1Groups(groups, kerning, glyphs) ==
  {g \in GroupNames(groups) : StartsWith(g, MMK_L)} \cup
  {k[1] : k \in {x \in SeqSet(kerning) : x[1] \in GroupNames(groups) /\ x[1] \notin glyphs /\ ~StartsWith(x[1], KERN1)}}
Side2Groups(groups, kerning, glyphs) ==
  {g \in GroupNames(groups) : StartsWith(g, MMK_R)} \cup
  {k[2] : k \in {x \in SeqSet(kerning) : x[2] \in GroupNames(groups) /\ x[2] \notin glyphs /\ ~StartsWith(x[2], KERN2)}}
New1(g) == KERN1 \o Strip(g, MMK_L)
New2(g) == KERN2 \o Strip(g, MMK_R)
(* the renaming is a function of the data only when no new name meets an existing or
   another new name (otherwise the specification appends a counter in an unspecified order) *)
UpDefined(groups, kerning, glyphs) ==
  LET s1 == Side1Groups(groups, kerning, glyphs) s2 == Side2Groups(groups, kerning, glyphs)
      n1 == {New1(g) : g \in s1} n2 == {New2(g) : g \in s2}
  IN /\ Cardinality(n1) = Cardinality(s1) /\ Cardinality(n2) = Cardinality(s2)
     /\ (n1 \cup n2) \cap GroupNames(groups) = {} /\ n1 \cap n2 = {}
UpGroups(groups, kerning, glyphs) ==
  LET s1 == Side1Groups(groups, kerning, glyphs) s2 == Side2Groups(groups, kerning, glyphs)
  IN SeqSet(groups) \cup {<<New1(p[1]), p[2]>> : p \in {x \in SeqSet(groups) : x[1] \in s1}}
                    \cup {<<New2(p[1]), p[2]>> : p \in {x \in SeqSet(groups) : x[1] \in s2}}
UpKerning(groups, kerning, glyphs) ==
  LET s1 == Side1Groups(groups, kerning, glyphs) s2 == Side2Groups(groups, kerning, glyphs)
  IN {<<IF k[1] \in s1 THEN New1(k[1]) ELSE k[1], IF k[2] \in s2 THEN New2(k[2]) ELSE k[2], k[3]>> : k \in SeqSet(kerning)}

(* -------------------------------------------------------------------------- *)
(* The optional-field lattice of a designspace document: every attribute of every
   descriptor kind is either absent or carries a value from a small pool.            *)
Kinds == {"axis", "discrete", "axislabel", "loclabel", "rule", "source", "instance", "varfont", "doc", "glyph"}
Versions(kind) == IF kind = "glyph" THEN {1, 2} ELSE {4, 5}    \* GLIF 1/2; designspace 4.1/5.0
Attrs(kind) ==
  CASE kind = "axis" -> {"map", "labelNames", "hidden", "axisOrdering", "axisLabels"}
    [] kind = "discrete" -> {"map", "labelNames", "hidden", "axisOrdering", "axisLabels"}
    [] kind = "axislabel" -> {"userMinimum", "userMaximum", "elidable", "olderSibling", "linkedUserValue", "labelNames"}
    [] kind = "loclabel" -> {"elidable", "olderSibling", "labelNames", "userLocation"}
    [] kind = "rule" -> {"name", "conditionSets", "minimum", "maximum", "subs"}
    [] kind = "source" -> {"filename", "name", "familyName", "styleName", "layerName", "localisedFamilyName", "copyLib",
                           "copyGroups", "copyFeatures", "copyInfo", "muteInfo", "muteKerning", "mutedGlyphNames", "location"}
    [] kind = "instance" -> {"filename", "name", "familyName", "styleName", "postScriptFontName", "styleMapFamilyName",
                             "styleMapStyleName", "localisedFamilyName", "localisedStyleName", "localisedStyleMapFamilyName",
                             "localisedStyleMapStyleName", "designLocation", "userLocation", "locationLabel", "lib"}
    [] kind = "varfont" -> {"filename", "axisSubsets", "rangeSubset", "lib"}
    [] kind = "doc" -> {"elidedFallbackName", "rulesProcessingLast", "lib", "axisMappings", "mappingDescription"}
    [] kind = "glyph" -> {"width", "height", "unicodes", "note", "lib", "image", "guidelines", "anchors", "contours",
                          "components", "identifiers", "smooth", "pointnames"}
(* attributes that only format 5 can express: their presence forces the written format to 5.x *)
V5Only(kind) ==
  CASE kind = "axis" -> {"axisOrdering", "axisLabels"}
    [] kind = "source" -> {"localisedFamilyName"}
    [] kind = "instance" -> {"userLocation", "locationLabel"}
    [] kind = "doc" -> {}
    [] kind = "rule" -> {}
    [] kind = "glyph" -> {}
    [] OTHER -> Attrs(kind)
WholeKindV5 == {"discrete", "axislabel", "loclabel", "varfont"}
(* minimal format that can hold the point; the writer must not write less *)
EffectiveMajor(kind, present, ver) ==
  IF ver = 5 \/ kind \in WholeKindV5 \/ present \cap V5Only(kind) # {} \/ (kind = "doc" /\ "axisMappings" \in present) THEN 5 ELSE 4
EffectiveMinor(kind, present, ver) ==
  IF kind = "doc" /\ "axisMappings" \in present THEN 1 ELSE IF EffectiveMajor(kind, present, ver) = 5 THEN 0 ELSE 1
(* attributes excluded by another one (designspace specification) *)
Compatible(kind, present) ==
  /\ kind = "instance" => ~("locationLabel" \in present /\ present \cap {"designLocation", "userLocation"} # {})
  /\ kind = "varfont" => ("rangeSubset" \in present => "axisSubsets" \in present)
  /\ kind = "rule" => /\ (present \cap {"minimum", "maximum"} # {} => "conditionSets" \in present)
                      /\ present \cap {"conditionSets", "subs"} # {}      \* a rule element without children is no rule
  /\ kind = "glyph" => /\ (present \cap {"smooth", "pointnames"} # {} => "contours" \in present)
                       /\ ("identifiers" \in present => present \cap {"contours", "components", "guidelines", "anchors"} # {})
  /\ kind = "doc" => ("mappingDescription" \in present => "axisMappings" \in present)
(* GLIF 1 has no image, guidelines or identifiers *)
CompatibleVer(kind, present, ver) ==
  Compatible(kind, present) /\ (kind = "glyph" /\ ver = 1 => present \cap {"image", "guidelines", "identifiers"} = {})
=============================================================================
