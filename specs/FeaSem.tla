------------------------------- MODULE FeaSem -------------------------------
(* Meaning of a feature-file program as an OTLSem layout, written from the OpenType Feature File
   Specification (sections 2 glyph classes / value records, 4 languagesystem / feature / lookup /
   lookupflag / script / language, 5 GSUB rules, 6 GPOS rules, 9.b GDEF).

   ABSTRACT SYNTAX (what MC_FeaSem generates, harness/c11.py prints as FEA text, and the harness's AST
   projection of feaLib's parse tree must reproduce).  A program is a sequence of top-level statements,
   each a record with a kind field k:
     [k "ls", s, l]                         languagesystem s l;
     [k "cls", n, gs]                       @C<n> = [gs];
     [k "mcls", n, gs, a]                   markClass [gs] <anchor a> @M<n>;
     [k "vr", n, v]                         valueRecordDef <v> V<n>;
     [k "gdef", b, l, m]                    table GDEF { GlyphClassDef [b], [l], [m], ; } GDEF;
     [k "lookup", n, body]                  lookup L<n> { body } L<n>;
     [k "feature", t, body]                 feature t { body } t;
   body statements:
     [k "flag", f, mf, ma]                  lookupflag (bits 1 RightToLeft 2 IgnoreBaseGlyphs 4 IgnoreLigatures
                                            8 IgnoreMarks; mf / ma = <<class>> of UseMarkFilteringSet / MarkAttachmentType, or <<>>)
     [k "cls" | "mcls" | "vr", ...]         the declarations above may also stand inside a block
     [k "script", s]   [k "lang", l, inc]   script s;   language l [exclude_dflt];
     [k "lookup", n, body]  [k "ref", n]    nested lookup block;  lookup L<n>;
     [k "subtable"]                         subtable;
     [k "sub", i, o]                        sub i by o;       (single / multiple / ligature by shape)
     [k "alt", i, o]                        sub i from o;
     [k "csub", pre, inp, suf, by]          sub pre inp' suf [by ...];  inp = <<[g, ref], ...>> marked run with
                                            lookup references per position; by # <<>> = in-line replacement
     [k "isub", pre, inp, suf]              ignore sub pre inp' suf;
     [k "rsub", pre, i, suf, o]             rsub pre i' suf by o;
     [k "pos1", g, v]                       pos g v;
     [k "pos2", g1, g2, v1, v2, enum]       [enum] pos g1 g2 v1;  /  pos g1 v1 g2 v2;   (v2.t = "0": absent)
     [k "curs", g, en, ex]                  pos cursive g <anchor en> <anchor ex>;   (<<>> = NULL)
     [k "mkb" | "mkm", g, as]               pos base|mark g <anchor> mark @M ...;   as = <<[a |-> anchor, m |-> mark class], ...>>
     [k "mkl", g, comps]                    pos ligature g <anchor> mark @M ... ligComponent ...;
     [k "cpos", pre, inp, suf]              pos pre inp' suf;  inp = <<[g, ref, v], ...>> (in-line value or lookups)
     [k "ipos", pre, inp, suf]              ignore pos ...;
   glyph expressions  [t "g", v <<glyph>>] | [t "c", v <<glyphs>>] (in-line class) | [t "r", v <<class name>>];
   value expressions  [t "n", v <<xAdvance>>] | [t "v", v <<xPla, yPla, xAdv, yAdv>>] | [t "r", v <<name>>] | [t "0", v <<>>].

   RULES OF THE FEATURE FILE SPECIFICATION USED
     LookupOrder     lookups are numbered in the order in which they are defined (named blocks where the
                     block stands, anonymous ones where their first rule stands); a feature applies its
                     lookups in that order, whatever the order of references.
     RuleRuns        inside a feature, a maximal run of rules of one lookup type under one lookupflag forms
                     one lookup; a script / language statement, a lookup block or a lookup reference ends
                     the run.  SingleSubPromotion: single substitutions share a run with multiple or with
                     ligature substitutions (they are one-to-one cases of either); multiple and ligature
                     substitutions do not share a run.
     LongestLigature within a ligature lookup longer component sequences are tried first.
     PairsFirst      specific glyph pairs precede class pairs; the first specific pair for two glyphs wins;
                     class pairs fill class-based subtables in written order, a new subtable starting at
                     `subtable;` or when a class cannot join the current one (it must equal a class of the
                     subtable or be disjoint from all of them).  A second value record, when written, makes the
                     second glyph part of the pair (ValueFormat2 # 0).
     WrittenOrder    contextual rules (and `ignore` rules) are tried in written order.
     FlagScope       lookupflag holds until the next lookupflag statement or the end of the block; it is 0 at
                     the start of a feature / stand-alone lookup block and after a script statement.
     LangSys         rules before the first script statement go to every declared languagesystem (DFLT dflt
                     when none is declared); `script` selects <script, dflt>; `language` selects <script, lang>
                     and, unless exclude_dflt, starts it with the lookups the script's dflt has so far.
                     BlockScope: "the lookups the script's dflt has so far" are those of the current feature block;
                     several blocks of one feature tag add up.
     GDEFClasses     the GlyphClassDef statement defines the GDEF glyph classes; without one they are derived:
                     mark-class members and attaching marks are marks, `pos base` targets bases, `pos ligature`
                     targets ligatures.                                                                      *)
EXTENDS OTLSem

RECURSIVE FoldL(_, _, _, _)
FoldL(F(_, _), acc, seq, i) == IF i > Len(seq) THEN acc ELSE FoldL(F, F(acc, seq[i]), seq, i + 1)
Fold(F(_, _), acc, seq) == FoldL(F, acc, seq, 1)
RECURSIVE FlatL(_, _)
FlatL(ss, i) == IF i > Len(ss) THEN <<>> ELSE ss[i] \o FlatL(ss, i + 1)
Flatten(ss) == FlatL(ss, 1)
Sel(seq, T(_)) == SelectSeq(seq, T)
RECURSIVE SortSet(_)
SortSet(S) == IF S = {} THEN <<>> ELSE LET m == CHOOSE x \in S : \A y \in S : x <= y IN <<m>> \o SortSet(S \ {m})
Rev(s) == [i \in 1..Len(s) |-> s[Len(s) + 1 - i]]
Lookup1(tbl, n) == LET k == Find1(tbl, n) IN IF k = 0 THEN <<>> ELSE tbl[k][2]     \* association list
RECURSIVE Product(_)                \* all sequences picking one glyph per class, first class varying slowest
Product(cs) == IF Len(cs) = 0 THEN << <<>> >>
               ELSE LET rest == Product(Tail(cs)) IN Flatten([a \in 1..Len(cs[1]) |-> [r \in 1..Len(rest) |-> <<cs[1][a]>> \o rest[r]]])
Dedup(seq) == LET keep == {i \in 1..Len(seq) : \A j \in 1..(i - 1) : seq[j] # seq[i]} IN [k \in 1..Cardinality(keep) |-> seq[CHOOSE i \in keep : Cardinality({x \in keep : x < i}) = k - 1]]

-----------------------------------------------------------------------------
(* environment look-ups *)
Glyphs(S, ge) == IF ge.t = "r" THEN Lookup1(S.cls, ge.v[1]) ELSE ge.v
GSets(S, ges) == [i \in 1..Len(ges) |-> Glyphs(S, ges[i])]
Val(S, ve) == CASE ve.t = "n" -> <<0, 0, ve.v[1], 0>>
                [] ve.t = "v" -> ve.v
                [] ve.t = "r" -> Lookup1(S.vrs, ve.v[1])
                [] OTHER -> Zero4
MarkDefs(S, n) == Sel(S.mcls, LAMBDA d : d[1] = n)        \* <<name, glyphs, anchor>> definitions of @M<n>

S0 == [ls |-> <<>>, cls |-> <<>>, mcls |-> <<>>, vrs |-> <<>>, gd |-> <<>>, lks |-> <<>>, named |-> <<>>,
       feats |-> <<>>, msets |-> <<>>, macs |-> <<>>, cur |-> 0, flag |-> 0, mf |-> <<>>, hasmf |-> FALSE,
       script |-> "DFLT", lsys |-> <<>>, tag |-> "", blk |-> 0]

DeclaredLS(S) == IF Len(S.ls) = 0 THEN << <<"DFLT", "dflt">> >> ELSE S.ls
Register(S, idx) ==            \* a lookup created or referenced inside a feature joins the current language systems
  IF S.tag = "" THEN S
  ELSE [S EXCEPT !.feats = @ \o [k \in 1..Len(S.lsys) |-> <<S.lsys[k][1], S.lsys[k][2], S.tag, idx>>]]
(* entries are added to the open lookup of the same kind and flag, else a new lookup is opened (RuleRuns) *)
AnyCompat(rules, es) ==
  LET multi(r) == \E k \in 1..Len(r) : Len(r[k][2]) > 1
      liga(r) == \E k \in 1..Len(r) : Len(r[k][1]) > 1
  IN ~(multi(rules) /\ liga(es)) /\ ~(liga(rules) /\ multi(es))
CanJoin(S, tb, kind, es) ==
  /\ S.cur # 0
  /\ LET lk == S.lks[S.cur] IN /\ lk.tb = tb /\ lk.kind = kind /\ lk.flag = S.flag
                               /\ lk.hasmf = S.hasmf /\ lk.mf = S.mf
                               /\ (kind = "any" => AnyCompat(lk.rules, es))
AddTo(S, tb, kind, es) ==
  IF CanJoin(S, tb, kind, es) THEN [S EXCEPT !.lks[S.cur].rules = @ \o es]
  ELSE LET idx == Len(S.lks) + 1
           lk == [tb |-> tb, kind |-> kind, flag |-> S.flag, mf |-> S.mf, hasmf |-> S.hasmf, rules |-> es, nested |-> FALSE, blk |-> S.blk]
           S1 == [S EXCEPT !.lks = Append(@, lk), !.cur = idx,
                           !.named = IF S.blk # 0 THEN Append(@, <<S.blk, idx>>) ELSE @]
       IN Register(S1, idx)
(* an anonymous lookup for an in-line contextual action; never referenced by a feature *)
Nested(S, tb, kind, es) ==
  [S EXCEPT !.lks = Append(@, [tb |-> tb, kind |-> kind, flag |-> S.flag, mf |-> S.mf, hasmf |-> S.hasmf, rules |-> es, nested |-> TRUE, blk |-> 0])]

-----------------------------------------------------------------------------
(* rule -> entries *)
SubEntries(S, r) ==
  IF Len(r.i) = 1
  THEN LET ins == Glyphs(S, r.i[1]) IN
       IF Len(r.o) = 1
       THEN LET outs == Glyphs(S, r.o[1])
            IN [k \in 1..Len(ins) |-> <<<<ins[k]>>, <<IF Len(outs) = 1 THEN outs[1] ELSE outs[k]>>>>]
       ELSE [k \in 1..Len(ins) |-> <<<<ins[k]>>, [j \in 1..Len(r.o) |-> Glyphs(S, r.o[j])[1]]>>]
  ELSE LET keys == Product(GSets(S, r.i)) IN [k \in 1..Len(keys) |-> <<keys[k], <<Glyphs(S, r.o[1])[1]>>>>]

CtxRule(S, pre, inpsets, suf, recs) == [b |-> Rev(GSets(S, pre)), i |-> inpsets, a |-> GSets(S, suf), n |-> recs]
NamedIdx(S, n) == Lookup1(S.named, n)
RefRecs(S, inp) == Flatten([j \in 1..Len(inp) |-> [q \in 1..Len(inp[j].ref) |-> <<j - 1, NamedIdx(S, inp[j].ref[q])>>]])

CSub(S, r) ==
  LET sets == [j \in 1..Len(r.inp) |-> Glyphs(S, r.inp[j].g)] IN
  IF Len(r.by) = 0
  THEN AddTo(S, "gsub", "ctx", <<CtxRule(S, r.pre, sets, r.suf, RefRecs(S, r.inp))>>)
  ELSE LET S1 == AddTo(S, "gsub", "ctx", <<>>)                       \* the contextual lookup comes first
           es == SubEntries(S, [i |-> [j \in 1..Len(r.inp) |-> r.inp[j].g], o |-> r.by])
           S2 == Nested(S1, "gsub", "any", es)
       IN [S2 EXCEPT !.lks[S1.cur].rules = Append(@, CtxRule(S, r.pre, sets, r.suf, <<<<0, Len(S2.lks)>>>>))]

RECURSIVE CPosVals(_, _, _, _, _)
CPosVals(S, r, j, recs, ctxidx) ==       \* one nested single-positioning lookup per valued position
  IF j > Len(r.inp) THEN <<S, recs>>
  ELSE IF r.inp[j].v.t = "0" THEN CPosVals(S, r, j + 1, recs, ctxidx)
  ELSE LET gs == Glyphs(S, r.inp[j].g)
           S1 == Nested(S, "gpos", "pos1", [k \in 1..Len(gs) |-> <<gs[k], Val(S, r.inp[j].v)>>])
       IN CPosVals(S1, r, j + 1, Append(recs, <<j - 1, Len(S1.lks)>>), ctxidx)
CPos(S, r) ==
  LET sets == [j \in 1..Len(r.inp) |-> Glyphs(S, r.inp[j].g)]
      S1 == AddTo(S, "gpos", "ctx", <<>>)
      nv == CPosVals(S1, r, 1, <<>>, S1.cur)
      S2 == nv[1]
  IN [S2 EXCEPT !.lks[S1.cur].rules = Append(@, CtxRule(S, r.pre, sets, r.suf, nv[2] \o RefRecs(S, r.inp)))]

MarkEntries(S, as) ==      \* marks of the classes used by a rule: <<glyph, class name, anchor>>
  Flatten([k \in 1..Len(as) |-> LET ds == MarkDefs(S, as[k].m)
                                 IN Flatten([d \in 1..Len(ds) |-> [q \in 1..Len(ds[d][2]) |-> <<ds[d][2][q], as[k].m, ds[d][3]>>]])])

Pos2Entries(S, r) ==
  LET a == Glyphs(S, r.g1)
      b == Glyphs(S, r.g2)
      v1 == Val(S, r.v1)
      v2 == Val(S, r.v2)
      has2 == r.v2.t # "0"
  IN IF r.enum \/ (r.g1.t = "g" /\ r.g2.t = "g")
     THEN LET prs == Product(<<a, b>>) IN [k \in 1..Len(prs) |-> [t |-> "g", g1 |-> prs[k][1], g2 |-> prs[k][2], v1 |-> v1, v2 |-> v2, has2 |-> has2]]
     ELSE <<[t |-> "c", s1 |-> SeqRange(a), s2 |-> SeqRange(b), v1 |-> v1, v2 |-> v2, has2 |-> has2]>>

Rule(S, r) ==
  CASE r.k = "sub" -> LET es == SubEntries(S, r) IN AddTo(S, "gsub", "any", es)
    [] r.k = "alt" -> AddTo(S, "gsub", "alt", <<<<Glyphs(S, r.i)[1], Glyphs(S, r.o)>>>>)
    [] r.k = "csub" -> CSub(S, r)
    [] r.k = "isub" -> AddTo(S, "gsub", "ctx", <<CtxRule(S, r.pre, GSets(S, r.inp), r.suf, <<>>)>>)
    [] r.k = "rsub" -> LET ins == Glyphs(S, r.i) outs == Glyphs(S, r.o)
                       IN AddTo(S, "gsub", "rsub", <<[b |-> Rev(GSets(S, r.pre)), a |-> GSets(S, r.suf),
                                  m |-> [k \in 1..Len(ins) |-> <<ins[k], IF Len(outs) = 1 THEN outs[1] ELSE outs[k]>>]]>>)
    [] r.k = "pos1" -> LET gs == Glyphs(S, r.g) IN AddTo(S, "gpos", "pos1", [k \in 1..Len(gs) |-> <<gs[k], Val(S, r.v)>>])
    [] r.k = "pos2" -> AddTo(S, "gpos", "pos2", Pos2Entries(S, r))
    [] r.k = "subtable" -> IF S.cur # 0 /\ S.lks[S.cur].kind = "pos2" THEN [S EXCEPT !.lks[S.cur].rules = Append(@, [t |-> "brk"])] ELSE S
    [] r.k = "curs" -> LET gs == Glyphs(S, r.g) IN AddTo(S, "gpos", "curs", [k \in 1..Len(gs) |-> <<gs[k], r.en, r.ex>>])
    [] r.k \in {"mkb", "mkm"} -> AddTo(S, "gpos", r.k, <<[gs |-> Glyphs(S, r.g), as |-> r.as, marks |-> MarkEntries(S, r.as)]>>)
    [] r.k = "mkl" -> AddTo(S, "gpos", "mkl", <<[gs |-> Glyphs(S, r.g), comps |-> r.comps, marks |-> MarkEntries(S, Flatten(r.comps))]>>)
    [] r.k = "cpos" -> CPos(S, r)
    [] r.k = "ipos" -> AddTo(S, "gpos", "ctx", <<CtxRule(S, r.pre, GSets(S, r.inp), r.suf, <<>>)>>)

-----------------------------------------------------------------------------
(* script / language bookkeeping (LangSys) *)
RegsOf(S, s, l) == Sel(S.feats, LAMBDA e : e[1] = s /\ e[2] = l /\ e[3] = S.tag)
SetRegs(S, s, l, idxs) ==
  [S EXCEPT !.feats = Sel(@, LAMBDA e : ~(e[1] = s /\ e[2] = l /\ e[3] = S.tag)) \o [k \in 1..Len(idxs) |-> <<s, l, S.tag, idxs[k]>>]]
Language(S, l, inc) ==
  LET dfl == [k \in 1..Len(RegsOf(S, S.script, "dflt")) |-> RegsOf(S, S.script, "dflt")[k][4]]
      own == [k \in 1..Len(RegsOf(S, S.script, l)) |-> RegsOf(S, S.script, l)[k][4]]
      S1 == IF (l = "dflt" \/ inc) /\ Len(dfl) > 0 THEN SetRegs(S, S.script, l, dfl)
            ELSE SetRegs(S, S.script, l, Sel(own, LAMBDA x : ~InS(x, dfl)))
  IN [S1 EXCEPT !.cur = 0, !.lsys = << <<S.script, l>> >>]
Script(S, s) ==
  IF S.lsys = << <<s, "dflt">> >> THEN S
  ELSE Language([S EXCEPT !.script = s, !.flag = 0, !.mf = <<>>, !.hasmf = FALSE, !.cur = 0], "dflt", TRUE)

SetFlag(S, st) ==
  LET mf == IF Len(st.mf) = 0 THEN <<>> ELSE SortSet(SeqRange(Glyphs(S, st.mf[1])))
      ma == IF Len(st.ma) = 0 THEN <<>> ELSE SortSet(SeqRange(Glyphs(S, st.ma[1])))
      macs == IF Len(st.ma) = 0 \/ InS(ma, S.macs) THEN S.macs ELSE Append(S.macs, ma)
      mac == IF Len(st.ma) = 0 THEN 0 ELSE FirstIdx({k \in 1..Len(macs) : macs[k] = ma})
  IN [S EXCEPT !.flag = st.f + (IF Len(st.mf) > 0 THEN 16 ELSE 0) + 256 * mac, !.mf = mf, !.hasmf = Len(st.mf) > 0,
               !.macs = macs, !.msets = IF Len(st.mf) = 0 \/ InS(mf, S.msets) THEN @ ELSE Append(@, mf)]

Decl(S, st) ==          \* declarations (allowed at top level and inside blocks)
  CASE st.k = "ls" -> [S EXCEPT !.ls = Append(@, <<st.s, st.l>>)]
    [] st.k = "cls" -> [S EXCEPT !.cls = Append(@, <<st.n, st.gs>>)]
    [] st.k = "mcls" -> [S EXCEPT !.mcls = Append(@, <<st.n, st.gs, st.a>>)]
    [] st.k = "vr" -> [S EXCEPT !.vrs = Append(@, <<st.n, st.v>>)]
    [] st.k = "gdef" -> [S EXCEPT !.gd = <<st.b, st.l, st.m>>]
RECURSIVE Body(_, _, _)
BStmt(S, st) ==
  CASE st.k = "flag" -> SetFlag(S, st)
    [] st.k \in {"cls", "mcls", "vr"} -> Decl(S, st)
    [] st.k = "script" -> Script(S, st.s)
    [] st.k = "lang" -> Language(S, st.l, st.inc)
    [] st.k = "ref" -> Register([S EXCEPT !.cur = 0], NamedIdx(S, st.n))
    [] st.k = "lookup" -> LET S1 == Body([S EXCEPT !.cur = 0, !.blk = st.n], st.body, 1) IN [S1 EXCEPT !.cur = 0, !.blk = 0]
    [] OTHER -> Rule(S, st)
Body(S, body, i) == IF i > Len(body) THEN S ELSE Body(BStmt(S, body[i]), body, i + 1)

Top(S, st) ==
  CASE st.k \in {"ls", "cls", "mcls", "vr", "gdef"} -> Decl(S, st)
    [] st.k = "lookup" -> LET S1 == Body([S EXCEPT !.cur = 0, !.blk = st.n, !.flag = 0, !.mf = <<>>, !.hasmf = FALSE, !.tag = ""], st.body, 1)
                          IN [S1 EXCEPT !.cur = 0, !.blk = 0, !.flag = 0, !.mf = <<>>, !.hasmf = FALSE]
    [] st.k = "feature" -> LET S1 == Body([S EXCEPT !.cur = 0, !.flag = 0, !.mf = <<>>, !.hasmf = FALSE, !.tag = st.t, !.feats = <<>>,
                                                    !.script = "DFLT", !.lsys = DeclaredLS(S)], st.body, 1)
                           IN [S1 EXCEPT !.cur = 0, !.tag = "", !.flag = 0, !.mf = <<>>, !.hasmf = FALSE,
                                         !.feats = S.feats \o @]       \* BlockScope: inheritance looks at this block only

-----------------------------------------------------------------------------
(* collected rules -> OTLSem subtables *)
AnyType(es) == IF \E k \in 1..Len(es) : Len(es[k][2]) > 1 THEN "sub2"
               ELSE IF \E k \in 1..Len(es) : Len(es[k][1]) > 1 THEN "sub4" ELSE "sub1"
FirstByKey(es) == Sel([k \in 1..Len(es) |-> <<es[k], \A j \in 1..(k - 1) : es[j][1] # es[k][1]>>], LAMBDA x : x[2])
RECURSIVE ByLength(_, _)
ByLength(es, n) == IF n = 0 THEN <<>> ELSE Sel(es, LAMBDA e : Len(e[1]) = n) \o ByLength(es, n - 1)    \* LongestLigature
MaxLen(es) == IF Len(es) = 0 THEN 0 ELSE CHOOSE n \in {Len(es[k][1]) : k \in 1..Len(es)} : \A k \in 1..Len(es) : Len(es[k][1]) <= n
ConvAny(es0) ==
  LET es == [k \in 1..Len(FirstByKey(es0)) |-> FirstByKey(es0)[k][1]]
      ty == AnyType(es)
  IN IF ty = "sub1" THEN <<"sub1", <<[m |-> [k \in 1..Len(es) |-> <<es[k][1][1], es[k][2][1]>>]]>>>>
     ELSE IF ty = "sub2" THEN <<"sub2", <<[m |-> [k \in 1..Len(es) |-> <<es[k][1][1], es[k][2]>>]]>>>>
     ELSE <<"sub4", <<[l |-> LET srt == ByLength(es, MaxLen(es)) IN [k \in 1..Len(srt) |-> <<srt[k][1], srt[k][2][1]>>]]>>>>

(* PairsFirst *)
CanAddClass(classes, c) == c \in classes \/ \A d \in classes : d \cap c = {}
RECURSIVE FormSubs(_, _, _, _, _)
FormSubs(es, i, cur, done, force) ==
  IF i > Len(es) THEN (IF Len(cur) > 0 THEN Append(done, cur) ELSE done)
  ELSE LET e == es[i] IN
       IF e.t = "brk" THEN FormSubs(es, i + 1, cur, done, TRUE)
       ELSE LET ok == /\ ~force /\ Len(cur) > 0
                      /\ CanAddClass({cur[k].s1 : k \in 1..Len(cur)}, e.s1)
                      /\ CanAddClass({cur[k].s2 : k \in 1..Len(cur)}, e.s2)
            IN IF ok THEN FormSubs(es, i + 1, Append(cur, e), done, FALSE)
               ELSE FormSubs(es, i + 1, <<e>>, IF Len(cur) > 0 THEN Append(done, cur) ELSE done, FALSE)
ClassSub(cs) ==
  [f |-> 2, v2 |-> \E k \in 1..Len(cs) : cs[k].has2,
   cov |-> SortSet(UNION {cs[k].s1 : k \in 1..Len(cs)}),
   c |-> [k \in 1..Len(cs) |-> <<SortSet(cs[k].s1), SortSet(cs[k].s2), cs[k].v1, cs[k].v2>>]]
ConvPos2(es) ==
  LET gp0 == Sel(es, LAMBDA e : e.t = "g")
      gp == Sel([k \in 1..Len(gp0) |-> <<gp0[k], \A j \in 1..(k - 1) : ~(gp0[j].g1 = gp0[k].g1 /\ gp0[j].g2 = gp0[k].g2)>>], LAMBDA x : x[2])
      G(has) == LET q == Sel(gp, LAMBDA x : x[1].has2 = has)
                IN IF Len(q) = 0 THEN <<>> ELSE <<[f |-> 1, v2 |-> has, p |-> [k \in 1..Len(q) |-> <<q[k][1].g1, q[k][1].g2, q[k][1].v1, q[k][1].v2>>]]>>
      cl == FormSubs(Sel(es, LAMBDA e : e.t # "g"), 1, <<>>, <<>>, FALSE)
  IN G(FALSE) \o G(TRUE) \o [k \in 1..Len(cl) |-> ClassSub(cl[k])]

(* mark attachment: classes numbered in order of first use *)
MarkClassOrder(es) == Dedup(Flatten([k \in 1..Len(es) |-> [q \in 1..Len(es[k].marks) |-> es[k].marks[q][2]]]))
ClassNo(order, m) == FirstIdx({k \in 1..Len(order) : order[k] = m}) - 1
MarkList(es, order) ==
  LET all == Flatten([k \in 1..Len(es) |-> es[k].marks])
      fk == Sel([k \in 1..Len(all) |-> <<all[k], \A j \in 1..(k - 1) : all[j][1] # all[k][1]>>], LAMBDA x : x[2])
  IN [k \in 1..Len(fk) |-> <<fk[k][1][1], ClassNo(order, fk[k][1][2]), fk[k][1][3]>>]
AnchorsFor(as, order) ==      \* anchor per class (later statements for the same class override)
  [c \in 1..Len(order) |-> LET hits == {k \in 1..Len(as) : as[k].m = order[c]}
                           IN IF hits = {} THEN <<>> ELSE as[CHOOSE k \in hits : \A j \in hits : j <= k].a]
ConvMark(kind, es) ==
  LET order == MarkClassOrder(es)
      targets == Dedup(Flatten([k \in 1..Len(es) |-> es[k].gs]))
      AsOf(g) == Flatten([k \in 1..Len(es) |-> IF InS(g, es[k].gs) THEN es[k].as ELSE <<>>])
      LastRule(g) == es[CHOOSE k \in {k \in 1..Len(es) : InS(g, es[k].gs)} : \A j \in {j \in 1..Len(es) : InS(g, es[j].gs)} : j <= k]
  IN IF kind = "mkl"
     THEN <<[marks |-> MarkList(es, order),
             ligs |-> [t \in 1..Len(targets) |-> <<targets[t], [c \in 1..Len(LastRule(targets[t]).comps) |-> AnchorsFor(LastRule(targets[t]).comps[c], order)]>>]]>>
     ELSE <<[marks |-> MarkList(es, order),
             bases |-> [t \in 1..Len(targets) |-> <<targets[t], AnchorsFor(AsOf(targets[t]), order)>>]]>>

Conv(S, lk, idxmap) ==
  LET flag == lk.flag
      mfs == IF lk.hasmf THEN FirstIdx({k \in 1..Len(S.msets) : S.msets[k] = lk.mf}) ELSE 0
      ts == CASE lk.kind = "any" -> ConvAny(lk.rules)
              [] lk.kind = "alt" -> <<"sub3", <<[m |-> lk.rules]>>>>
              [] lk.kind = "ctx" -> <<"ctx", <<[r |-> [k \in 1..Len(lk.rules) |->
                                        [lk.rules[k] EXCEPT !.n = [q \in 1..Len(@) |-> <<@[q][1], idxmap[@[q][2]]>>]]]]>>>>
              [] lk.kind = "rsub" -> <<"rsub", [k \in 1..Len(lk.rules) |-> [r |-> <<lk.rules[k]>>]]>>
              [] lk.kind = "pos1" -> <<"pos1", <<[m |-> lk.rules]>>>>
              [] lk.kind = "pos2" -> <<"pos2", ConvPos2(lk.rules)>>
              [] lk.kind = "curs" -> <<"curs", <<[m |-> lk.rules]>>>>
              [] lk.kind \in {"mkb", "mkm", "mkl"} -> <<lk.kind, ConvMark(lk.kind, lk.rules)>>
  IN [ty |-> ts[1], flag |-> flag, mfs |-> mfs, st |-> ts[2]]

(* GDEFClasses *)
GdefOf(S, nG) ==
  LET kinds(k) == Sel(S.lks, LAMBDA lk : lk.kind = k)
      targets(k) == UNION {UNION {SeqRange(lk.rules[q].gs) : q \in 1..Len(lk.rules)} : lk \in SeqRange(kinds(k))}
      usedmarks == UNION {UNION {{lk.rules[q].marks[z][1] : z \in 1..Len(lk.rules[q].marks)} : q \in 1..Len(lk.rules)} :
                             lk \in SeqRange(kinds("mkb")) \cup SeqRange(kinds("mkm")) \cup SeqRange(kinds("mkl"))}
      marks == UNION {SeqRange(S.mcls[k][2]) : k \in 1..Len(S.mcls)} \cup usedmarks \cup targets("mkm")
      explicit == Len(S.gd) > 0
      cls == [g \in 1..nG |->
                IF explicit THEN (IF InS(g, S.gd[1]) THEN 1 ELSE IF InS(g, S.gd[2]) THEN 2 ELSE IF InS(g, S.gd[3]) THEN 3 ELSE 0)
                ELSE IF g \in marks THEN 3 ELSE IF g \in targets("mkl") THEN 2 ELSE IF g \in targets("mkb") THEN 1 ELSE 0]
      mac == [g \in 1..nG |-> FirstIdx({k \in 1..Len(S.macs) : InS(g, S.macs[k])})]
  IN [cls |-> IF \E g \in 1..nG : cls[g] # 0 THEN cls ELSE <<>>,
      mac |-> IF Len(S.macs) > 0 THEN mac ELSE <<>>,
      sets |-> S.msets]

TableOf(S, tb) ==
  LET n == Len(S.lks)
      idxmap == [i \in 1..n |-> Cardinality({j \in 1..i : S.lks[j].tb = tb})]         \* LookupOrder
      mine == Sel([i \in 1..n |-> i], LAMBDA i : S.lks[i].tb = tb)
      regs == Sel(S.feats, LAMBDA e : S.lks[e[4]].tb = tb)
      keys == Dedup([k \in 1..Len(regs) |-> <<regs[k][1], regs[k][2], regs[k][3]>>])
  IN [lookups |-> [k \in 1..Len(mine) |-> Conv(S, S.lks[mine[k]], idxmap)],
      fl |-> [k \in 1..Len(keys) |-> <<keys[k][1], keys[k][2], keys[k][3],
                 Dedup(LET r == Sel(regs, LAMBDA e : <<e[1], e[2], e[3]>> = keys[k]) IN [q \in 1..Len(r) |-> idxmap[r[q][4]]]), FALSE>>]]

Interp(prog) == Fold(Top, S0, prog)
Meaning(prog, nG, adv) ==
  LET S == Interp(prog)
  IN [gdef |-> GdefOf(S, nG), gsub |-> TableOf(S, "gsub"), gpos |-> TableOf(S, "gpos"), adv |-> adv]
=============================================================================
