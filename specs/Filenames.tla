----------------------------- MODULE Filenames -----------------------------
(* User name -> file name conversion of the UFO 3 conventions
   (unifiedfontobject.org/versions/ufo3/conventions), as implemented by
   fontTools.ufoLib.filenames / fontTools.misc.filenames:
   userNameToFileName, handleClash1, handleClash2, as a machine over the history of
   names handed out so far.

   Text is a sequence of code points (integers).  A context record cx carries what
   differs between uses:
     cx.illegal   set of code points that must not appear in a file name
     cx.reserved  set of reserved (lower-case) dot-separated parts
     cx.lc        <<code, lowerSeq>> pairs: the context-free Unicode lower-case
                  mapping of the non-ASCII characters occurring (data from the UCD);
                  ASCII is handled here, anything else maps to itself.
   MaxLen, CounterWidth, CounterLimit are 255, 15, 999999999999999 in the code and
   are scaled down for exhaustive checking.                                         *)
EXTENDS Integers, Sequences, FiniteSets

CONSTANTS MaxLen, CounterWidth, CounterLimit

Take(s, n) == SubSeq(s, 1, IF n < Len(s) THEN n ELSE Len(s))
DropLast(s, k) == IF k >= Len(s) THEN <<>> ELSE SubSeq(s, 1, Len(s) - k)
USCORE == 95
DOT == 46

(* ---- case ---------------------------------------------------------------- *)
RECURSIVE LcLookup(_, _, _)
LcLookup(lc, i, c) == IF i > Len(lc) THEN <<c>>
                      ELSE IF lc[i][1] = c THEN lc[i][2] ELSE LcLookup(lc, i + 1, c)
LowerC(cx, c) == IF c >= 65 /\ c <= 90 THEN <<c + 32>>
                 ELSE IF c < 128 THEN <<c>> ELSE LcLookup(cx.lc, 1, c)
(* concatenation of a sequence of sequences, by halving (shallow recursion; and a plain
   map when every piece is a single character, the common case) *)
RECURSIVE FlatRange(_, _, _)
FlatRange(parts, lo, hi) == IF lo > hi THEN <<>> ELSE IF lo = hi THEN parts[lo]
                            ELSE LET mid == (lo + hi) \div 2 IN FlatRange(parts, lo, mid) \o FlatRange(parts, mid + 1, hi)
Flat(parts) == IF \A i \in 1..Len(parts) : Len(parts[i]) = 1 THEN [i \in 1..Len(parts) |-> parts[i][1]]
               ELSE FlatRange(parts, 1, Len(parts))
LowerS(cx, s) == Flat([i \in 1..Len(s) |-> LowerC(cx, s[i])])

(* ---- the conversion -------------------------------------------------------- *)
FilterC(cx, c) ==      \* illegal -> "_" ; not lower-case -> char "_"
  IF c \in cx.illegal THEN <<USCORE>> ELSE IF LowerC(cx, c) # <<c>> THEN <<c, USCORE>> ELSE <<c>>
Filter(cx, s) == Flat([i \in 1..Len(s) |-> FilterC(cx, s[i])])

(* split at "." / join with "." *)
RECURSIVE SplitAt(_, _, _)
SplitAt(s, from, dots) ==      \* dots: positions of "." at or after `from`, as a set
  IF dots = {} THEN << SubSeq(s, from, Len(s)) >>
  ELSE LET d == CHOOSE x \in dots : \A y \in dots : x <= y
       IN << SubSeq(s, from, d - 1) >> \o SplitAt(s, d + 1, dots \ {d})
Split(s) == SplitAt(s, 1, {i \in 1..Len(s) : s[i] = DOT})
RECURSIVE JoinFrom(_, _, _)
JoinFrom(parts, i, acc) == IF i > Len(parts) THEN acc
                           ELSE JoinFrom(parts, i + 1, (IF i = 1 THEN acc ELSE Append(acc, DOT)) \o parts[i])
Join(parts) == JoinFrom(parts, 1, <<>>)

IsReserved(cx, part) == LowerS(cx, part) \in cx.reserved
FixParts(cx, s) == LET p == Split(s)
                   IN Join([i \in 1..Len(p) |-> IF IsReserved(cx, p[i]) THEN <<USCORE>> \o p[i] ELSE p[i]])

(* decimal digits *)
RECURSIVE Digits(_)
Digits(n) == IF n < 10 THEN <<48 + n>> ELSE Append(Digits(n \div 10), 48 + (n % 10))
RECURSIVE ZFill(_, _)
ZFill(d, w) == IF Len(d) >= w THEN d ELSE ZFill(<<48>> \o d, w)

NONAME == <<-1>>     \* stands for NameTranslationError

(* handleClash2: prefix + counter + suffix, counter = 1, 2, ... below 10^room - 1 *)
Clash2Limit(room) == IF room <= 9 THEN (LET RECURSIVE P(_) P(k) == IF k = 0 THEN 1 ELSE 10 * P(k - 1) IN P(room) - 1)
                     ELSE 2147483647
(* lower-casing distributes over concatenation and leaves digits alone, so the lowered
   head and tail are computed once for the whole counter search *)
RECURSIVE Clash2From(_, _, _, _, _, _)
Clash2From(existing, prefix, suffix, lp, ls, c) ==
  IF lp \o Digits(c) \o ls \notin existing THEN prefix \o Digits(c) \o suffix
  ELSE IF c + 1 >= Clash2Limit(MaxLen - Len(prefix) - Len(suffix)) THEN NONAME
  ELSE Clash2From(existing, prefix, suffix, lp, ls, c + 1)
Clash2(cx, existing, prefix, suffix) == Clash2From(existing, prefix, suffix, LowerS(cx, prefix), LowerS(cx, suffix), 1)

(* handleClash1: make room for the counter, then append the first free counter *)
RECURSIVE Clash1From(_, _, _, _, _, _, _, _)
Clash1From(cx, name, existing, prefix, suffix, lh, ls, c) ==
  IF lh \o ZFill(Digits(c), CounterWidth) \o ls \notin existing THEN prefix \o name \o ZFill(Digits(c), CounterWidth) \o suffix
  ELSE IF c + 1 >= CounterLimit THEN Clash2(cx, existing, prefix, suffix)
  ELSE Clash1From(cx, name, existing, prefix, suffix, lh, ls, c + 1)
Clash1(cx, name, existing, prefix, suffix) ==
  LET l == Len(prefix) + Len(name) + Len(suffix) + CounterWidth
      n1 == IF l > MaxLen THEN DropLast(name, l - MaxLen) ELSE name
  IN Clash1From(cx, n1, existing, prefix, suffix, LowerS(cx, prefix \o n1), LowerS(cx, suffix), 1)

(* stages of userNameToFileName, exposed so that a judge can name a root cause *)
Stage0(user, prefix) == IF prefix = <<>> /\ user[1] = DOT THEN <<USCORE>> \o Tail(user) ELSE user
Clipped(cx, user, prefix, suffix) == Take(Filter(cx, Stage0(user, prefix)), MaxLen - Len(prefix) - Len(suffix))
Fixed(cx, user, prefix, suffix) == FixParts(cx, Clipped(cx, user, prefix, suffix))

ToFileName(cx, user, existing, prefix, suffix) ==
  LET u == Fixed(cx, user, prefix, suffix)
      full == prefix \o u \o suffix
  IN IF LowerS(cx, full) \in existing THEN Clash1(cx, u, existing, prefix, suffix) ELSE full

(* ---- the properties, per name against the set handed out before ------------- *)
LegalName(cx, fn) == /\ \A i \in 1..Len(fn) : fn[i] \notin cx.illegal
                     /\ LET p == Split(fn) IN \A i \in 1..Len(p) : ~IsReserved(cx, p[i])
BoundedName(fn) == Len(fn) <= MaxLen
FreshName(cx, fn, existing) == LowerS(cx, fn) \notin existing

(* root cause of an over-long name: the reserved-name "_" was inserted after clipping *)
ReservedAfterClip(cx, user, prefix, suffix) ==
  LET c == Clipped(cx, user, prefix, suffix) f == FixParts(cx, c)
  IN Len(prefix) + Len(c) + Len(suffix) <= MaxLen /\ Len(f) > Len(c)
     /\ Len(prefix) + Len(f) + Len(suffix) > MaxLen

(* ---- the machine ------------------------------------------------------------ *)
(* names: history of file names handed out; existing: their lower-case forms (what a
   GlyphSet / UFOWriter passes as `existing`).                                     *)
Add(cx, user, prefix, suffix, names, existing) ==
  LET fn == ToFileName(cx, user, existing, prefix, suffix)
  IN <<Append(names, fn), existing \cup {LowerS(cx, fn)}>>

Legal(cx, names) == \A i \in 1..Len(names) : LegalName(cx, names[i])
Bounded(names) == \A i \in 1..Len(names) : BoundedName(names[i])
CaseUnique(cx, names) == Cardinality({LowerS(cx, names[i]) : i \in 1..Len(names)}) = Len(names)
=============================================================================
