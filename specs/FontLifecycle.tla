--------------------------- MODULE FontLifecycle ---------------------------
(* The life cycle of a fontTools TTFont object: a reader attached to a file (raw table
   blobs), a dictionary of decoded tables, and save() writing each table either compiled
   (if decoded) or copied verbatim (if not), dependencies first.  One action per code
   step of ttLib/ttFont.py: Open (TTFont.__init__), Access (_readTable), Edit, Delete,
   SaveBegin/Write (_writeTable -> getTableData)/SaveEnd (_save), Reopen.

   Blobs and contents are uninterpreted values.  What decoding and encoding do is
   *learned* while a behaviour unfolds: dec[<<t, b>>] is the content blob b of table t
   decodes to.  Writing a decoded table with content c as blob b records dec[<<t,b>>] = c
   - the codec hypothesis H: "what is compiled decodes to what it was compiled from".
   In the exhaustive configuration this makes TLC explore every decoder/encoder pair that
   satisfies H; in trace validation the same bookkeeping *tests* H on the real code: a
   later Access of the written blob that yields a different content has no enabled step
   (the Lossless clause).  enc is the analogous record of "content c of table t was
   compiled to b" and is enforced to be functional only when EnforceH2 (design check);
   real compilers may depend on other tables, so traces do not enforce it.          *)
EXTENDS Integers, Sequences, FiniteSets, TLC

CONSTANTS Tag,         \* table tags
          Blob,        \* raw table data values
          Content,     \* decoded content values
          NoDecoder,   \* tags the library has no decoder for (DefaultTable)
          Dep,         \* <<a, b>> : b is listed in a's `dependencies` (b is written before a)
          EnforceH2    \* compile is a function of the table's own content (design hypothesis)

VARIABLES disk,     \* [tags of the file -> Blob] the file the reader is attached to
          loaded,   \* [decoded tags -> Content]   (font.tables)
          phase,    \* "closed" | "open" | "saving"
          out,      \* [tags written so far in this save -> Blob]
          todo,     \* tags still to be written in this save
          full,     \* every table was decoded when this save began
          saved,    \* the last file written ([tag -> Blob]) or << >>
          gen,      \* number of Reopen steps so far
          prevFull, \* the save that produced `disk` started from a fully decoded font
          clean,    \* no Edit / Delete since the font was (re)opened
          dec, enc  \* learned decoder / encoder (partial functions)
vars == <<disk, loaded, phase, out, todo, full, saved, gen, prevFull, clean, dec, enc>>

Raw(b) == <<"raw", b>>                      \* content of an undecodable / decoder-less table
Dom(f) == DOMAIN f
Ext(f, k, v) == [x \in Dom(f) \cup {k} |-> IF x = k THEN v ELSE f[x]]
Del(f, k) == [x \in Dom(f) \ {k} |-> f[x]]

(* learn-or-check: f[k] = v, extending f when k is new *)
Learns(f, k, v) == k \in Dom(f) => f[k] = v
Learned(f, k, v) == IF k \in Dom(f) THEN f ELSE Ext(f, k, v)

Open(file) ==
  /\ phase = "closed"
  /\ disk' = file /\ loaded' = << >> /\ phase' = "open"
  /\ clean' = TRUE /\ UNCHANGED <<out, todo, full, saved, gen, prevFull, dec, enc>>

(* _readTable: decode a table on first access.  raw = TRUE is the DefaultTable outcome
   (no decoder, or a decoder failure with ignoreDecompileErrors). *)
Access(t, c, raw) ==
  /\ phase \in {"open", "saving"}
  /\ t \in Dom(disk) /\ t \notin Dom(loaded)
  /\ (t \in NoDecoder => raw)
  /\ IF raw THEN c = Raw(disk[t]) /\ UNCHANGED dec
     ELSE /\ Learns(dec, <<t, disk[t]>>, c)            \* decoding is a function of the blob; H
          /\ dec' = Learned(dec, <<t, disk[t]>>, c)
  /\ loaded' = Ext(loaded, t, c)
  /\ UNCHANGED <<disk, phase, out, todo, full, saved, gen, prevFull, clean, enc>>

Edit(t, c) ==
  /\ phase = "open" /\ t \in Dom(loaded) /\ loaded[t] # c /\ c[1] # "raw" /\ loaded[t][1] # "raw"
  /\ loaded' = [loaded EXCEPT ![t] = c] /\ clean' = FALSE
  /\ UNCHANGED <<disk, phase, out, todo, full, saved, gen, prevFull, dec, enc>>

Delete(t) ==
  /\ phase = "open" /\ t \in Dom(loaded) \cup Dom(disk)
  /\ loaded' = IF t \in Dom(loaded) THEN Del(loaded, t) ELSE loaded
  /\ disk' = IF t \in Dom(disk) THEN Del(disk, t) ELSE disk
  /\ clean' = FALSE
  /\ UNCHANGED <<phase, out, todo, full, saved, gen, prevFull, dec, enc>>

AllTags == Dom(disk) \cup Dom(loaded)

SaveBegin ==
  /\ phase = "open"
  /\ phase' = "saving" /\ out' = << >> /\ todo' = AllTags
  /\ full' = (AllTags \subseteq Dom(loaded) /\ \A t \in Dom(loaded) : t \in NoDecoder \/ loaded[t][1] # "raw")
  /\ UNCHANGED <<disk, loaded, saved, gen, prevFull, clean, dec, enc>>

DepsDone(t) == \A u \in todo : <<t, u>> \notin Dep \/ u = t

(* _writeTable / getTableData: compiled if decoded, the reader's bytes otherwise *)
Write(t, b) ==
  /\ phase = "saving" /\ t \in todo /\ DepsDone(t)
  /\ IF t \in Dom(loaded)
     THEN IF loaded[t][1] = "raw"
          THEN b = loaded[t][2] /\ UNCHANGED <<dec, enc>>           \* DefaultTable: data verbatim
          ELSE /\ Learns(dec, <<t, b>>, loaded[t])                  \* H
               /\ dec' = Learned(dec, <<t, b>>, loaded[t])
               /\ (EnforceH2 => Learns(enc, <<t, loaded[t]>>, b))
               /\ enc' = Learned(enc, <<t, loaded[t]>>, b)
     ELSE b = disk[t] /\ UNCHANGED <<dec, enc>>                     \* pass-through
  /\ out' = Ext(out, t, b) /\ todo' = todo \ {t}
  /\ UNCHANGED <<disk, loaded, phase, full, saved, gen, prevFull, clean>>

SaveEnd ==
  /\ phase = "saving" /\ todo = {}
  /\ phase' = "open" /\ saved' = out
  /\ UNCHANGED <<disk, loaded, out, todo, full, gen, prevFull, clean, dec, enc>>

Reopen ==
  /\ phase = "open" /\ saved # << >>
  /\ disk' = saved /\ loaded' = << >> /\ gen' = gen + 1 /\ prevFull' = full
  /\ saved' = << >> /\ clean' = TRUE
  /\ UNCHANGED <<phase, out, todo, full, dec, enc>>

(* ---- the clauses of C01 as state predicates ---- *)
(* Passthrough: a table that was not decoded when it was written is byte-identical *)
Passthrough == \A t \in Dom(out) : (t \notin Dom(loaded) /\ t \in Dom(disk)) => out[t] = disk[t]
(* tables without a decoder are always carried through verbatim *)
NoDecoderVerbatim == \A t \in Dom(out) : (t \in NoDecoder /\ t \in Dom(disk)) => out[t] = disk[t]
(* fixed point: saving a fully decoded font whose file itself came from a fully decoded
   save reproduces the file byte for byte *)
FixedPoint == (phase = "open" /\ saved # << >> /\ full /\ prevFull /\ clean /\ gen >= 1 /\ Dom(saved) = Dom(disk))
                 => \A t \in Dom(saved) : saved[t] = disk[t]
(* every table is written exactly once and nothing is dropped *)
Complete == (phase = "open" /\ saved # << >>) => Dom(saved) = AllTags
=============================================================================
