------------------------------- MODULE GlyfSem -------------------------------
(* What a TrueType glyph IS: a reference evaluator for 'glyf' outlines and horizontal
   advances at any location of a variable font, written from the OpenType texts --
     'glyf'  simple glyph description (on/off-curve points, implied on-curve points, every
             contour closed), composite glyph description (component flags, ARGS_ARE_XY_VALUES
             vs point matching, WE_HAVE_A_SCALE / AN_X_AND_Y_SCALE / A_TWO_BY_TWO in F2Dot14,
             SCALED_ / UNSCALED_COMPONENT_OFFSET, USE_MY_METRICS, ROUND_XY_TO_GRID),
     "Instructing TrueType glyphs"  phantom points (pp1 = xMin - lsb, pp2 = pp1 + advance),
     'gvar'  tuple variations: implied start/end of a tent, "all points", explicit deltas,
             inferred deltas (module IUP), composite glyphs (one pseudo point per component:
             its offset), phantom-point deltas,
     'fvar' / 'avar'  normalisation and segment maps (module VarSem),
     'HVAR'  advance deltas from an item variation store (module VarStoreSem) --
   in exact rationals (module Rat).  Nothing here is taken from fontTools' code.

   ---- data (as the independent readers harness/rawsfnt.py + harness/c05_raw.py deliver it;
        all numbers are the integers stored in the file) ----
   font F: [glyphs, hmtx, gvar, axes, avar, hvar]; glyph indices are 1-based positions in
   F.glyphs (the harness renumbers the component closure of the judged glyph injectively);
     F.glyphs[i] = [k |-> "s", gid, xMin, pts: << <<x, y, onCurve>> .. >>, ends: <<0-based last point of each contour>>]
                 | [k |-> "c", gid, xMin, comps: << [g, fl, a1, a2, tr] .. >>]   fl = the flag word,
                   tr = the 0 / 1 / 2 / 4 F2Dot14 numbers that follow the arguments
                 | [k |-> "e", gid]                                            no outline data
     F.hmtx[i]  = <<advanceWidth, lsb>>
     F.gvar[i]  = << [peak, im, all, pn, dx, dy] .. >>   peak: F2Dot14 per axis; im: <<>> or
                   <<starts, ends>>; all = 1: deltas for every point, else for the points pn
     F.axes     = << <<min, default, max>> .. >>   Fixed 16.16;   F.avar = <<>> or one segment
                   map << <<from, to>> .. >> (F2Dot14) per axis
     F.hvar     = [has, store: [regions, data], nomap, map]
   a point is <<x, y, on>> with x, y rationals; an ATOM is a Bezier segment given by its 2
   (line), 3 (quadratic) or 4 (cubic) control points <<x, y>>; an outline is a sequence of
   contours, a contour a cyclic sequence of atoms.

   Opts: the reference follows the specification when every option is TRUE; an option set
   to FALSE evaluates a NAMED DEVIATION so that a judge can tell which root cause explains
   an observed difference:
     scaled  SCALED_COMPONENT_OFFSET is honoured      (FALSE: the offset is never transformed)
     cshift  a composite glyph is placed like a simple one: phantom point 1 at the origin
             (FALSE: composite glyphs are not shifted)
     umm     USE_MY_METRICS is honoured               (FALSE: the composite keeps its own metrics)
   Equality of outlines (section 7) is up to representation -- start point of a closed contour,
   atoms that draw nothing (closing lines of length zero, repeated points) -- and a tolerance;
   it is defined twice, in rationals (for the laws) and on an integer grid (for the judge).
   ROUND_XY_TO_GRID asks the rasteriser to round the offset to the PIXEL grid; for the
   unhinted outline in font units it changes nothing (GridFit = FALSE); GridFit = TRUE gives
   the reading "round the varied offset to whole font units" for (M).                    *)
EXTENDS VarStoreSem, IUP

F2(n) == Rat(n, 16384)
Fx(n) == Rat(n, 65536)
Bit(fl, b) == (fl \div b) % 2 = 1
IMin(a, b) == IF a < b THEN a ELSE b
IMax(a, b) == IF a > b THEN a ELSE b

ARGS_ARE_XY == 2          ROUND_XY_TO_GRID == 4      HAVE_SCALE == 8
HAVE_XY_SCALE == 64       HAVE_2X2 == 128            USE_MY_METRICS == 512
SCALED_OFFSET == 2048     UNSCALED_OFFSET == 4096
MaxDepth == 6             \* nesting deeper than this is outside the modelled domain

SpecOpts == [scaled |-> TRUE, cshift |-> TRUE, umm |-> TRUE, grid |-> FALSE]

(***************************************************************************)
(* 1. Simple glyphs: contours as cyclic sequences of atoms                  *)
(***************************************************************************)
XYOf(p) == <<p[1], p[2]>>
RMid(a, b) == RMul(RHalf, RAdd(a, b))
CycSucc(n, i) == IF i = n THEN 1 ELSE i + 1

(* "If two off-curve points are consecutive, an on-curve point is implied midway" -- also
   across the end of the contour, which is closed *)
RECURSIVE ExpandFrom(_, _, _)
ExpandFrom(c, i, acc) ==
  IF i > Len(c) THEN acc
  ELSE LET p == c[i]
           q == c[CycSucc(Len(c), i)]
           a1 == Append(acc, p)
           a2 == IF p[3] = 0 /\ q[3] = 0
                 THEN Append(a1, <<RMid(p[1], q[1]), RMid(p[2], q[2]), 1>>) ELSE a1
       IN ExpandFrom(c, i + 1, a2)
Expand(c) == ExpandFrom(c, 1, <<>>)

(* r: expanded points starting and ending with the same on-curve point *)
RECURSIVE WalkAtoms(_, _, _)
WalkAtoms(r, i, acc) ==
  IF i >= Len(r) THEN acc
  ELSE IF r[i + 1][3] = 1
       THEN LET a == Append(acc, <<XYOf(r[i]), XYOf(r[i + 1])>>) IN WalkAtoms(r, i + 1, a)
       ELSE LET a == Append(acc, <<XYOf(r[i]), XYOf(r[i + 1]), XYOf(r[i + 2])>>) IN WalkAtoms(r, i + 2, a)

(* c: the points <<x, y, on>> of one contour, n >= 1.  A contour of a single point yields one
   degenerate atom (it draws nothing). *)
ContourAtoms(c) ==
  LET e == Expand(c)
      n == Len(e)
      f == CHOOSE i \in 1..n : e[i][3] = 1 /\ \A j \in 1..(i - 1) : e[j][3] = 0
      r == SubSeq(e, f, n) \o SubSeq(e, 1, f - 1) \o <<e[f]>>
  IN WalkAtoms(r, 1, <<>>)

ContourPts(pts, ends, k) == SubSeq(pts, IF k = 1 THEN 1 ELSE ends[k - 1] + 2, ends[k] + 1)
Outline(pts, ends) == TLCEval([k \in 1..Len(ends) |-> ContourAtoms(ContourPts(pts, ends, k))])

EndsWellFormed(npts, ends) ==
  /\ \A k \in 1..Len(ends) : ends[k] >= (IF k = 1 THEN 0 ELSE ends[k - 1] + 1)
  /\ (IF Len(ends) = 0 THEN npts = 0 ELSE ends[Len(ends)] + 1 = npts)

ShiftAtom(a, sx) == [i \in 1..Len(a) |-> <<RAdd(a[i][1], sx), a[i][2]>>]
ShiftOutline(o, sx) == TLCEval([k \in 1..Len(o) |-> TLCEval([j \in 1..Len(o[k]) |-> ShiftAtom(o[k][j], sx)])])
OutlineBad(o) == \E k \in 1..Len(o) : \E j \in 1..Len(o[k]) : \E i \in 1..Len(o[k][j]) :
                    RBad(o[k][j][i][1]) \/ RBad(o[k][j][i][2])

(***************************************************************************)
(* 2. Locations: fvar normalisation, avar, F2Dot14                          *)
(***************************************************************************)
AxisTriple(a) == <<Fx(a[1]), Fx(a[2]), Fx(a[3])>>
AvarMap(seg) == TLCEval([i \in 1..Len(seg) |-> <<F2(seg[i][1]), F2(seg[i][2])>>])
(* 'avar': "each axis segment map must include -1 -> -1, 0 -> 0, 1 -> 1" and be increasing *)
AvarValid(m) == /\ PwlWellFormed(m)
                /\ \A i \in 1..(Len(m) - 1) : RLe(m[i][2], m[i + 1][2])
                /\ \A v \in {RInt(-1), RZero, ROne} : \E i \in 1..Len(m) : m[i] = <<v, v>>
IsF2Dot14(v) == ROk(v) /\ 16384 % v[2] = 0 /\ RLe(RInt(-1), v) /\ RLe(v, ROne)

(* user location (one rational per axis; <<>> = no location requested) -> normalised location.
   [loc, why]: why = "" or the reason the location is outside the modelled domain.
   A segment map without entries (positionMapCount = 0) leaves the axis unmapped. *)
NormLoc(F, uloc) ==
  IF uloc = <<>> THEN [loc |-> [i \in 1..Len(F.axes) |-> RZero], why |-> ""]
  ELSE LET n1 == NormalizeLocation(uloc, [i \in 1..Len(F.axes) |-> AxisTriple(F.axes[i])])
           maps == [i \in 1..Len(F.axes) |-> IF F.avar = <<>> THEN <<>> ELSE AvarMap(F.avar[i])]
           n2 == TLCEval([i \in 1..Len(F.axes) |-> PiecewiseLinearMap(maps[i], n1[i])])
       IN IF Len(uloc) # Len(F.axes) THEN [loc |-> <<>>, why |-> "malformed:location-length"]
          ELSE IF \E i \in 1..Len(n1) : RBad(n1[i]) \/ RBad(n2[i]) THEN [loc |-> n2, why |-> "overflow"]
          ELSE IF \E i \in 1..Len(maps) : maps[i] # <<>> /\ ~AvarValid(maps[i]) THEN [loc |-> n2, why |-> "avar-invalid"]
          ELSE IF \E i \in 1..Len(n1) : ~IsF2Dot14(n1[i]) \/ ~IsF2Dot14(n2[i]) THEN [loc |-> n2, why |-> "loc-not-f2dot14"]
          ELSE [loc |-> n2, why |-> ""]
AtDefault(nloc) == \A i \in 1..Len(nloc) : RIsZero(nloc[i])

(***************************************************************************)
(* 3. gvar                                                                  *)
(***************************************************************************)
(* without INTERMEDIATE_REGION the tent rises from 0 to the peak and the peak is its far end:
   start = min(peak, 0), end = max(peak, 0) *)
TupleRegion(tv) ==
  TLCEval([a \in 1..Len(tv.peak) |->
     IF tv.im = <<>> THEN <<F2(IMin(tv.peak[a], 0)), F2(tv.peak[a]), F2(IMax(tv.peak[a], 0))>>
     ELSE <<F2(tv.im[1][a]), F2(tv.peak[a]), F2(tv.im[2][a])>>])

TupleWellFormed(tv, n) ==
  /\ Len(tv.dx) = Len(tv.dy)
  /\ (IF tv.all = 1 THEN Len(tv.dx) = n ELSE Len(tv.dx) = Len(tv.pn))
(* the delta vector over all n points: explicit deltas, NoDelta for un-referenced points;
   point numbers beyond the glyph are ignored *)
TupleDeltas(tv, n) ==
  IF tv.all = 1 THEN TLCEval([i \in 1..n |-> <<RInt(tv.dx[i]), RInt(tv.dy[i])>>])
  ELSE LET at == [i \in 1..n |-> {k \in 1..Len(tv.pn) : tv.pn[k] = i - 1}]
       IN TLCEval([i \in 1..n |->
             IF at[i] = {} THEN NoDelta
             ELSE LET k == CHOOSE k \in at[i] : \A j \in at[i] : j <= k
                  IN <<RInt(tv.dx[k]), RInt(tv.dy[k])>>])

RCoords(ps) == TLCEval([i \in 1..Len(ps) |-> <<RInt(ps[i][1]), RInt(ps[i][2])>>])

(* full (explicit + inferred) delta vector of every tuple of a glyph: location independent *)
InferredTuples(coords, ends, tvs) ==
  TLCEval([t \in 1..Len(tvs) |-> Infer(RCoords(coords), ends, TupleDeltas(tvs[t], Len(coords)))])

RECURSIVE GvarFrom(_, _, _, _, _)
GvarFrom(tvs, infs, nloc, t, acc) ==
  IF t > Len(tvs) THEN acc
  ELSE LET s == RegionScalar(TupleRegion(tvs[t]), nloc)
           nxt == IF RIsZero(s) THEN acc
                  ELSE TLCEval([i \in 1..Len(acc) |->
                         <<RAdd(acc[i][1], RMul(s, infs[t][i][1])), RAdd(acc[i][2], RMul(s, infs[t][i][2]))>>])
       IN GvarFrom(tvs, infs, nloc, t + 1, nxt)
(* coords: integer points INCLUDING the four phantom points; infs = InferredTuples(coords, ends, tvs) *)
ApplyGvarWith(coords, tvs, infs, nloc) == GvarFrom(tvs, infs, nloc, 1, RCoords(coords))
ApplyGvar(coords, ends, tvs, nloc) == ApplyGvarWith(coords, tvs, InferredTuples(coords, ends, tvs), nloc)

(***************************************************************************)
(* 4. Glyph data -> the point list 'gvar' talks about                        *)
(***************************************************************************)
XMinOf(g) == IF g.k = "e" THEN 0 ELSE g.xMin
(* phantom points from the metrics: pp1 = (xMin - lsb, 0), pp2 = (pp1.x + advance, 0); the
   vertical pair does not take part in anything modelled here *)
Phantoms(g, hm) == << <<XMinOf(g) - hm[2], 0>>, <<XMinOf(g) - hm[2] + hm[1], 0>>, <<0, 0>>, <<0, 0>> >>
(* a point-matched component has no offset of its own: its pseudo point is (0, 0) and its
   deltas are not used *)
CompOffset(c) == IF Bit(c.fl, ARGS_ARE_XY) THEN <<c.a1, c.a2>> ELSE <<0, 0>>
GvarCoords(g, hm) ==
  (IF g.k = "s" THEN [i \in 1..Len(g.pts) |-> <<g.pts[i][1], g.pts[i][2]>>]
   ELSE IF g.k = "c" THEN [i \in 1..Len(g.comps) |-> CompOffset(g.comps[i])]
   ELSE <<>>) \o Phantoms(g, hm)
(* every component (and every phantom point) is a contour of its own: nothing is inferred
   across components *)
GvarEnds(g) == IF g.k = "s" THEN g.ends
               ELSE IF g.k = "c" THEN [i \in 1..Len(g.comps) |-> i - 1] ELSE <<>>
GlyphWellFormedG(g, n) ==
  CASE g.k = "s" -> EndsWellFormed(Len(g.pts), g.ends) /\ \A i \in 1..Len(g.pts) : g.pts[i][3] \in {0, 1}
    [] g.k = "c" -> /\ Len(g.comps) >= 1
                    /\ \A i \in 1..Len(g.comps) :
                         LET c == g.comps[i] IN
                         /\ c.g \in 1..n
                         /\ Len(c.tr) = (IF Bit(c.fl, HAVE_SCALE) THEN 1 ELSE IF Bit(c.fl, HAVE_XY_SCALE) THEN 2
                                         ELSE IF Bit(c.fl, HAVE_2X2) THEN 4 ELSE 0)
    [] g.k = "e" -> TRUE
    [] OTHER -> FALSE
FontInferred(F) ==
  TLCEval([i \in 1..Len(F.glyphs) |->
     InferredTuples(GvarCoords(F.glyphs[i], F.hmtx[i]), GvarEnds(F.glyphs[i]), F.gvar[i])])
FontWellFormed(F) ==
  /\ Len(F.hmtx) = Len(F.glyphs) /\ Len(F.gvar) = Len(F.glyphs)
  /\ \A i \in 1..Len(F.glyphs) :
       /\ GlyphWellFormedG(F.glyphs[i], Len(F.glyphs))
       /\ \A t \in 1..Len(F.gvar[i]) :
            /\ TupleWellFormed(F.gvar[i][t], Len(GvarCoords(F.glyphs[i], F.hmtx[i])))
            /\ Len(F.gvar[i][t].peak) = Len(F.axes)

(***************************************************************************)
(* 5. Composite glyphs                                                      *)
(***************************************************************************)
(* the component's 2x2 matrix <<a, b, c, d>>: x' = a x + c y, y' = b x + d y, where
   (a, b, c, d) = (xscale, scale01, scale10, yscale) in file order *)
CompMatrix(c) ==
  IF Bit(c.fl, HAVE_SCALE) THEN <<F2(c.tr[1]), RZero, RZero, F2(c.tr[1])>>
  ELSE IF Bit(c.fl, HAVE_XY_SCALE) THEN <<F2(c.tr[1]), RZero, RZero, F2(c.tr[2])>>
  ELSE IF Bit(c.fl, HAVE_2X2) THEN <<F2(c.tr[1]), F2(c.tr[2]), F2(c.tr[3]), F2(c.tr[4])>>
  ELSE <<ROne, RZero, RZero, ROne>>
HasMatrix(c) == Bit(c.fl, HAVE_SCALE) \/ Bit(c.fl, HAVE_XY_SCALE) \/ Bit(c.fl, HAVE_2X2)
ApplyM(m, p) == <<RAdd(RMul(m[1], p[1]), RMul(m[3], p[2])), RAdd(RMul(m[2], p[1]), RMul(m[4], p[2])), p[3]>>
Translate(p, o) == <<RAdd(p[1], o[1]), RAdd(p[2], o[2]), p[3]>>
(* "If SCALED_COMPONENT_OFFSET is set the offset is in the component's coordinate system and
   the transformation applies to it; UNSCALED_..: in the parent's; neither: the default
   (unscaled); both: invalid, use the default" *)
OffsetIsScaled(c, opts) == opts.scaled /\ HasMatrix(c) /\ Bit(c.fl, SCALED_OFFSET) /\ ~Bit(c.fl, UNSCALED_OFFSET)
(* otRound: floor(x + 1/2) *)
RFloor(a) == a[1] \div a[2]
RRound(a) == IF RBad(a) THEN RNaN ELSE RInt(RFloor(RAdd(a, RHalf)))
GridOffset(c, off, opts) ==
  IF opts.grid /\ Bit(c.fl, ROUND_XY_TO_GRID) THEN <<RRound(off[1]), RRound(off[2])>> ELSE off

BadFlat(why) == [pts |-> <<>>, ends |-> <<>>, ph |-> <<>>, bad |-> why]
ShiftEnds(ends, k) == [i \in 1..Len(ends) |-> ends[i] + k]

(* FlatGlyph(F, INF, gi, nloc, opts, depth): the glyph at the normalised location nloc as ONE
   point list: [pts: <<x, y, on>>.., ends, ph: the four phantom points <<x, y>>, bad].
   INF = FontInferred(F).  Components are first instantiated themselves (their own gvar data
   at the same location), then transformed and placed. *)
RECURSIVE FlatGlyph(_, _, _, _, _, _)
RECURSIVE FlatComps(_, _, _, _, _, _, _, _, _)
FlatComps(F, INF, g, V, nloc, opts, depth, j, acc) ==
  IF j > Len(g.comps) \/ acc.bad # "" THEN acc
  ELSE LET c == g.comps[j]
           ch == FlatGlyph(F, INF, c.g, nloc, opts, depth + 1)
           m == CompMatrix(c)
       IN IF ch.bad # "" THEN [acc EXCEPT !.bad = ch.bad]
          ELSE LET placed ==
                     IF Bit(c.fl, ARGS_ARE_XY) THEN
                       LET off == GridOffset(c, V[j], opts) IN
                       IF OffsetIsScaled(c, opts)
                       THEN [ok |-> TRUE, pts |-> [i \in 1..Len(ch.pts) |-> ApplyM(m, Translate(ch.pts[i], off))]]
                       ELSE [ok |-> TRUE, pts |-> [i \in 1..Len(ch.pts) |-> Translate(ApplyM(m, ch.pts[i]), off)]]
                     ELSE  \* point matching: parent point a1 (among the points placed so far) and
                           \* point a2 of the transformed component coincide
                       IF c.a1 + 1 > Len(acc.pts) \/ c.a2 + 1 > Len(ch.pts) THEN [ok |-> FALSE, pts |-> <<>>]
                       ELSE LET tp == [i \in 1..Len(ch.pts) |-> ApplyM(m, ch.pts[i])]
                                off == <<RSub(acc.pts[c.a1 + 1][1], tp[c.a2 + 1][1]),
                                         RSub(acc.pts[c.a1 + 1][2], tp[c.a2 + 1][2])>>
                            IN [ok |-> TRUE, pts |-> [i \in 1..Len(tp) |-> Translate(tp[i], off)]]
                   nxt == IF ~placed.ok THEN [acc EXCEPT !.bad = "point-match-index"]
                          ELSE [pts |-> acc.pts \o TLCEval(placed.pts),
                                ends |-> acc.ends \o ShiftEnds(ch.ends, Len(acc.pts)),
                                ph |-> IF opts.umm /\ Bit(c.fl, USE_MY_METRICS) THEN ch.ph ELSE acc.ph,
                                bad |-> ""]
               IN FlatComps(F, INF, g, V, nloc, opts, depth, j + 1, nxt)

FlatGlyph(F, INF, gi, nloc, opts, depth) ==
  IF depth > MaxDepth THEN BadFlat("component-depth")
  ELSE LET g == F.glyphs[gi]
           co == GvarCoords(g, F.hmtx[gi])
           V == ApplyGvarWith(co, F.gvar[gi], INF[gi], nloc)
           n == Len(V)
           ph == << <<V[n - 3][1], V[n - 3][2]>>, <<V[n - 2][1], V[n - 2][2]>>,
                    <<V[n - 1][1], V[n - 1][2]>>, <<V[n][1], V[n][2]>> >>
       IN IF g.k = "s" THEN [pts |-> TLCEval([i \in 1..Len(g.pts) |-> <<V[i][1], V[i][2], g.pts[i][3]>>]),
                             ends |-> g.ends, ph |-> ph, bad |-> ""]
          ELSE IF g.k = "c" THEN FlatComps(F, INF, g, V, nloc, opts, depth, 1,
                                           [pts |-> <<>>, ends |-> <<>>, ph |-> ph, bad |-> ""])
          ELSE [pts |-> <<>>, ends |-> <<>>, ph |-> ph, bad |-> ""]

(* glyphs reachable from gi through components (for domain checks) *)
RECURSIVE ClosureFrom(_, _, _)
ClosureFrom(F, S, k) ==
  IF k = 0 THEN S
  ELSE LET T == S \cup UNION {IF F.glyphs[i].k = "c" THEN {F.glyphs[i].comps[j].g : j \in 1..Len(F.glyphs[i].comps)} ELSE {} : i \in S}
       IN IF T = S THEN S ELSE ClosureFrom(F, T, k - 1)
Closure(F, gi) == ClosureFrom(F, {gi}, MaxDepth + 2)
CompsOf(F, S) == UNION {IF F.glyphs[i].k = "c" THEN {F.glyphs[i].comps[j] : j \in 1..Len(F.glyphs[i].comps)} ELSE {} : i \in S}
UsesPointMatching(F, gi) == \E c \in CompsOf(F, Closure(F, gi)) : ~Bit(c.fl, ARGS_ARE_XY)
UsesScaledOffset(F, gi) == \E c \in CompsOf(F, Closure(F, gi)) : OffsetIsScaled(c, SpecOpts)
UsesMyMetrics(F, gi) == \E c \in CompsOf(F, Closure(F, gi)) : Bit(c.fl, USE_MY_METRICS)

(***************************************************************************)
(* 6. The glyph as drawn, and its advance                                   *)
(***************************************************************************)
(* The glyph's origin is phantom point 1: the outline is placed so that pp1.x = 0, i.e.
   shifted by -pp1.x (= lsb - xMin at the default location).  Applies once, to the glyph
   asked for -- not to its components. *)
TopShift(F, gi, fl, opts) ==
  IF F.glyphs[gi].k = "c" /\ ~opts.cshift THEN RZero ELSE RNeg(fl.ph[1][1])

(* [bad, atoms (unshifted), shift, ph]; bad = "" or why the glyph is outside the domain *)
Reference(F, INF, gi, nloc, opts) ==
  LET fl == FlatGlyph(F, INF, gi, nloc, opts, 0) IN
  IF fl.bad # "" THEN [bad |-> fl.bad, atoms |-> <<>>, shift |-> RZero, ph |-> <<>>]
  ELSE [bad |-> "", atoms |-> Outline(fl.pts, fl.ends), shift |-> TopShift(F, gi, fl, opts), ph |-> fl.ph]

(* HVAR: delta-set index of a glyph id: identity <<0, gid>> without a map, else the map entry,
   "if a given glyph ID is greater than mapCount - 1, the last entry is used" *)
HvarIndex(hv, gid) ==
  IF hv.nomap = 1 THEN <<0, gid>>
  ELSE IF Len(hv.map) = 0 THEN NoVarIdx
  ELSE hv.map[IMin(gid, Len(hv.map) - 1) + 1]
StoreOf(raw) ==
  [regions |-> TLCEval([r \in 1..Len(raw.regions) |->
                  TLCEval([a \in 1..Len(raw.regions[r]) |->
                     <<F2(raw.regions[r][a][1]), F2(raw.regions[r][a][2]), F2(raw.regions[r][a][3])>>])]),
   data |-> raw.data]
(* advance width at nloc: the default instance has the 'hmtx' advance; elsewhere HVAR where
   present, else the distance between the two horizontal phantom points *)
RefAdvance(F, gi, nloc, ph) ==
  IF AtDefault(nloc) THEN RInt(F.hmtx[gi][1])
  ELSE IF F.hvar.has = 1 THEN RAdd(RInt(F.hmtx[gi][1]),
                                    StoreEval(StoreOf(F.hvar.store), HvarIndex(F.hvar, F.glyphs[gi].gid), nloc))
  ELSE RSub(ph[2][1], ph[1][1])

(***************************************************************************)
(* 7. Equality of outlines up to representation and tolerance                *)
(***************************************************************************)
PtNear(p, q, tol) == RLe(RAbs(RSub(p[1], q[1])), tol) /\ RLe(RAbs(RSub(p[2], q[2])), tol)
AtomNear(a, b, tol) == Len(a) = Len(b) /\ \A i \in 1..Len(a) : PtNear(a[i], b[i], tol)
(* an atom that stays within the tolerance of its start point draws nothing at that
   resolution: whether it is there (a closing line of length zero, a repeated point) is
   representation *)
Tiny(a, tol) == \A i \in 2..Len(a) : PtNear(a[i], a[1], tol)
AllTiny(s, i, tol) == \A k \in i..Len(s) : Tiny(s[k], tol)
RECURSIVE AlignFrom(_, _, _, _, _)
AlignFrom(R, O, i, j, tol) ==
  IF i > Len(R) THEN AllTiny(O, j, tol)
  ELSE IF j > Len(O) THEN AllTiny(R, i, tol)
  ELSE IF AtomNear(R[i], O[j], tol) THEN AlignFrom(R, O, i + 1, j + 1, tol)
  ELSE IF Tiny(R[i], tol) THEN AlignFrom(R, O, i + 1, j, tol)
  ELSE IF Tiny(O[j], tol) THEN AlignFrom(R, O, i, j + 1, tol)
  ELSE FALSE
Rotate(s, r) == SubSeq(s, r + 1, Len(s)) \o SubSeq(s, 1, r)
Drawn(c, tol) == \E k \in 1..Len(c) : ~Tiny(c[k], tol)
(* two closed contours are equal up to their start point *)
SameContour(R, O, tol) ==
  LET jo == CHOOSE j \in 1..Len(O) : ~Tiny(O[j], tol) /\ \A k \in 1..(j - 1) : Tiny(O[k], tol)
      O2 == Rotate(O, jo - 1)
  IN \E r \in 0..(Len(R) - 1) :
        /\ PtNear(R[r + 1][1], O2[1][1], tol)
        /\ LET Rr == Rotate(R, r) IN AlignFrom(Rr, O2, 1, 1, tol)
DrawnContours(o, tol) == SelectSeq(o, LAMBDA c : Drawn(c, tol))
SameOutline(A, B, tol) ==
  LET a == DrawnContours(A, tol)
      b == DrawnContours(B, tol)
  IN Len(a) = Len(b) /\ \A k \in 1..Len(a) : SameContour(a[k], b[k], tol)

(* ---- the same comparison on an integer grid (what the judge uses: no rational arithmetic in
   the inner loop).  A reference coordinate x becomes the integer nearest to x * G (error <=
   1/2 unit); observations are already integers in units of 1/G.  Two points are taken as
   equal when they differ by at most T units in x and in y: certainly when the true
   difference is <= (T - 1) / G, never when it is >= (T + 1) / G. *)
GBad == MaxInt31
(* the fractional part r/d with a denominator beyond 2^18 is first halved down (floor) until it
   fits: r/d moves by less than 2^-16, i.e. by less than 1/16 grid unit for G <= 2^12 *)
RECURSIVE ShrinkFrac(_, _)
ShrinkFrac(r, d) == IF d <= 262144 THEN <<r, d>> ELSE LET r2 == r \div 2  d2 == d \div 2 IN ShrinkFrac(r2, d2)
GridCoord(a, G) ==
  IF RBad(a) THEN GBad
  ELSE LET q == a[1] \div a[2]
           f == ShrinkFrac(a[1] % a[2], a[2])
       IN IF ~MulFits(q, G) \/ G > 4096 THEN GBad
          ELSE LET rr == (2 * G * f[1] + f[2]) \div (2 * f[2]) IN
               IF AddFits(q * G, rr) THEN q * G + rr ELSE GBad
GridAtom(a, G) == [i \in 1..Len(a) |-> <<GridCoord(a[i][1], G), GridCoord(a[i][2], G)>>]
GridOutline(o, G) == TLCEval([k \in 1..Len(o) |-> TLCEval([j \in 1..Len(o[k]) |-> TLCEval(GridAtom(o[k][j], G))])])
GridBad(o) == \E k \in 1..Len(o) : \E j \in 1..Len(o[k]) : \E i \in 1..Len(o[k][j]) :
                 o[k][j][i][1] = GBad \/ o[k][j][i][2] = GBad
IDist(a, b) == IF a >= b THEN a - b ELSE b - a
PtNearI(p, q, T) == IDist(p[1], q[1]) <= T /\ IDist(p[2], q[2]) <= T
AtomNearI(a, b, T) == Len(a) = Len(b) /\ \A i \in 1..Len(a) : PtNearI(a[i], b[i], T)
TinyI(a, T) == \A i \in 2..Len(a) : PtNearI(a[i], a[1], T)
AllTinyI(s, i, T) == \A k \in i..Len(s) : TinyI(s[k], T)
RECURSIVE AlignFromI(_, _, _, _, _)
AlignFromI(R, O, i, j, T) ==
  IF i > Len(R) THEN AllTinyI(O, j, T)
  ELSE IF j > Len(O) THEN AllTinyI(R, i, T)
  ELSE IF AtomNearI(R[i], O[j], T) THEN AlignFromI(R, O, i + 1, j + 1, T)
  ELSE IF TinyI(R[i], T) THEN AlignFromI(R, O, i + 1, j, T)
  ELSE IF TinyI(O[j], T) THEN AlignFromI(R, O, i, j + 1, T)
  ELSE FALSE
DrawnI(c, T) == \E k \in 1..Len(c) : ~TinyI(c[k], T)
SameContourI(R, O, T) ==
  LET jo == CHOOSE j \in 1..Len(O) : ~TinyI(O[j], T) /\ \A k \in 1..(j - 1) : TinyI(O[k], T)
      O2 == Rotate(O, jo - 1)
  IN \E r \in 0..(Len(R) - 1) :
        /\ PtNearI(R[r + 1][1], O2[1][1], T)
        /\ LET Rr == Rotate(R, r) IN AlignFromI(Rr, O2, 1, 1, T)
DrawnContoursI(o, T) == SelectSeq(o, LAMBDA c : DrawnI(c, T))
SameOutlineI(A, B, T) ==
  LET a == DrawnContoursI(A, T)
      b == DrawnContoursI(B, T)
  IN Len(a) = Len(b) /\ \A k \in 1..Len(a) : SameContourI(a[k], b[k], T)

(* named convention LsbRounded: at a variation location the side bearing is an integer
   metric; an implementation may place the glyph with the rounded shift.  Candidates: the
   exact shift and the integers within 1/2 of it *)
ShiftCandidates(s, allowRounded) ==
  IF ~allowRounded \/ RIsInt(s) THEN {s}
  ELSE {s} \cup {RInt(n) : n \in {k \in {RFloor(s), RFloor(s) + 1} : RLe(RAbs(RSub(RInt(k), s)), RHalf)}}
(* named convention AdvanceRounded: advances are integer metrics; an implementation may
   report the rounded value (ties either way) *)
AdvanceOK(w, A, tol) ==
  \/ RLe(RAbs(RSub(w, A)), tol)
  \/ (RIsInt(w) /\ RLe(RAbs(RSub(w, A)), RAdd(RHalf, tol)))
=============================================================================
