-------------------------------- MODULE IUP --------------------------------
(* Inferred deltas for un-referenced points of a glyph ('gvar', "Inferred deltas for
   un-referenced point numbers"), in exact rationals.

   A glyph is a sequence of point coordinates <<x, y>> (Rat) of length n that INCLUDES the
   four phantom points, and `ends`, the 0-based index of the last point of every contour as
   stored in 'glyf' (phantom points excluded); each phantom point is a contour of its own.
   A delta vector is a sequence of <<dx, dy>> (Rat) or NoDelta for an un-referenced point.
   Rules, per contour and per coordinate (X and Y independently):
     * no referenced point in the contour: every delta is 0;
     * otherwise for an un-referenced point take the nearest referenced point before and
       after it along the (cyclic) contour; if their coordinates are equal the delta is
       their common delta if they have the same delta, else 0; if the target coordinate is
       not strictly between them the delta of the nearer one (in coordinate) applies;
       otherwise interpolate linearly.
   Property of an optimiser (iup_delta_optimize, TupleVariation.optimize): OptimizedOK. *)
EXTENDS Rat, FiniteSets

NoDelta == <<>>
Explicit(d) == d # NoDelta

(* one coordinate: target / preceding / following grid coordinate, preceding / following delta *)
InferCase(tg, pg, fg, pd, fd) ==
  IF pg = fg THEN (IF pd = fd THEN "same-coord-same-delta" ELSE "same-coord-diff-delta")
  ELSE IF RLe(tg, RMin(pg, fg)) THEN "at-or-below-lower"
  ELSE IF RGe(tg, RMax(pg, fg)) THEN "at-or-above-upper"
  ELSE "between"
InferCoord(tg, pg, fg, pd, fd) ==
  IF pg = fg THEN (IF pd = fd THEN pd ELSE RZero)
  ELSE IF RLe(tg, RMin(pg, fg)) THEN (IF RLt(pg, fg) THEN pd ELSE fd)
  ELSE IF RGe(tg, RMax(pg, fg)) THEN (IF RLt(fg, pg) THEN pd ELSE fd)
  ELSE LET proportion == RDiv(RSub(tg, pg), RSub(fg, pg))
       IN RAdd(RMul(RSub(ROne, proportion), pd), RMul(proportion, fd))

(* contours as 1-based <<first, last>> index pairs *)
Contours(ends, n) ==
  LET m == Len(ends)
  IN TLCEval([k \in 1..(m + 4) |->
       IF k <= m THEN <<(IF k = 1 THEN 1 ELSE ends[k - 1] + 2), ends[k] + 1>>
       ELSE <<n - 4 + (k - m), n - 4 + (k - m)>>])
GlyphWellFormed(coords, ends) ==
  LET n == Len(coords) m == Len(ends) IN
  /\ n >= 4
  /\ \A k \in 1..(m - 1) : ends[k] < ends[k + 1]
  /\ (IF m = 0 THEN n = 4 ELSE ends[1] >= 0 /\ ends[m] + 1 = n - 4)

(* nearest referenced index before / after i in the cyclic contour s..e; refs # {} *)
PrevRef(refs, i) == LET b == {j \in refs : j < i} IN
                    IF b # {} THEN CHOOSE j \in b : \A k \in b : k <= j
                    ELSE CHOOSE j \in refs : \A k \in refs : k <= j
NextRef(refs, i) == LET a == {j \in refs : j > i} IN
                    IF a # {} THEN CHOOSE j \in a : \A k \in a : j <= k
                    ELSE CHOOSE j \in refs : \A k \in refs : j <= k

InferPoint(coords, deltas, refs, i) ==
  IF Explicit(deltas[i]) THEN deltas[i]
  ELSE IF refs = {} THEN <<RZero, RZero>>
  ELSE LET p == PrevRef(refs, i)
           f == NextRef(refs, i)
       IN <<InferCoord(coords[i][1], coords[p][1], coords[f][1], deltas[p][1], deltas[f][1]),
            InferCoord(coords[i][2], coords[p][2], coords[f][2], deltas[p][2], deltas[f][2])>>

InferContour(coords, deltas, s, e) ==
  LET refs == {j \in s..e : Explicit(deltas[j])}
  IN TLCEval([k \in 1..(e - s + 1) |-> InferPoint(coords, deltas, refs, s + k - 1)])

(* the full delta vector of the glyph *)
Infer(coords, ends, deltas) ==
  LET cs == Contours(ends, Len(coords))
      per == TLCEval([k \in 1..Len(cs) |-> InferContour(coords, deltas, cs[k][1], cs[k][2])])
      which == TLCEval([i \in 1..Len(coords) |-> CHOOSE k \in 1..Len(cs) : cs[k][1] <= i /\ i <= cs[k][2]])
  IN TLCEval([i \in 1..Len(coords) |-> per[which[i]][i - cs[which[i]][1] + 1]])

(* squared Euclidean distance of two deltas *)
Dist2(a, b) == LET dx == RSub(a[1], b[1]) dy == RSub(a[2], b[2]) IN RAdd(RMul(dx, dx), RMul(dy, dy))

(* opt is an optimised form of the full delta vector `deltas` within tolerance tol (Rat):
   "ok", or the first violated clause, or "overflow" *)
OptimizedVerdict(coords, ends, deltas, opt, tol) ==
  IF Len(opt) # Len(deltas) THEN "length"
  ELSE IF \E i \in 1..Len(opt) : Explicit(opt[i]) /\ opt[i] # deltas[i] THEN "explicit-delta-changed"
  ELSE LET inf == Infer(coords, ends, opt)
           t2 == RMul(tol, tol)
           d2 == TLCEval([i \in 1..Len(opt) |-> Dist2(inf[i], deltas[i])])
       IN IF \E i \in 1..Len(opt) : RBad(d2[i]) THEN "overflow"
          ELSE IF \E i \in 1..Len(opt) : RLt(t2, d2[i]) THEN "beyond-tolerance"
          ELSE "ok"
OptimizedOK(coords, ends, deltas, opt, tol) == OptimizedVerdict(coords, ends, deltas, opt, tol) = "ok"
=============================================================================
