------------------------------ MODULE Instancer ------------------------------
(* C08 -- instancing a variable font preserves the design space that remains.

   Sources: OpenType 'fvar' (user-space axis records, coordinate normalisation), 'avar'
   (segment maps), "Font Variations Common Table Formats" (regions, scalars, tuple / item
   variation stores, F2DOT14 normalised coordinates), 'GSUB'/'GPOS' FeatureVariations
   (condition sets, first matching record wins) -- through modules VarSem / Tent (exact
   rationals, module Rat).

   ABSTRACT VARIABLE FONT
     font == [axes   |-> Seq(<<min, default, max>>)      user-space axis records ('fvar')
              avar   |-> Seq(map)                         one segment map per axis, <<>> = identity;
                                                          map == Seq(<<from, to>>), increasing `from`
              bases  |-> Seq(Rat)                         default value of every ITEM (a glyph point
                                                          coordinate, an advance, an MVAR metric, a cvt
                                                          value, a GPOS value, a CFF2 operand ...)
              vars   |-> Seq(<<region, Seq(Rat)>>)        delta sets: a region and one delta per item
                                                          (a TupleVariation; a column of a VarData)
              fvs    |-> Seq([box |-> Seq(<<lo, hi>>), sub |-> Nat])   feature variation records:
                                                          condition box (normalised, one entry per axis,
                                                          <<>> = no condition on that axis) -> substitution id
              defsub |-> Nat]                             substitution id when no record matches
   A region is dense (one tent per axis, module VarSem).  The value of item i at a user-space
   location is  bases[i] + sum_k RegionScalar(region_k, Normalise(loc)) * deltas_k[i].

   AXIS LIMITS: one <<lo, default, hi>> user-space triple per axis (an unrestricted axis
   repeats its own record; lo = hi pins the axis).

   The CONTRACT of Instantiate(font, lims) = font2 is stated declaratively (Preserved,
   AxesCorrect, Static, FeatureVars) and is the conformance oracle for the real instancer.
   The OPERATIONAL part transcribes what the instancer does (AxisLimits.normalize, per-axis tent
   rebasing from module Tent, delta scaling, merging of equal regions, default-delta
   extraction, rounding, avar renormalisation, condition-range renormalisation); MC_Instancer
   checks it against the contract on whole lattices and exports its cases to drive the real
   code.

   NAMED DEVIATIONS of the code from the ideal (explicit, so that they are neither false
   alarms nor licences for anything else):
     D-EPS   solver.py nudges a tent by EPSILON = 2^-14 when a peak would fall on the new
             default (module Tent; only zero-scalar solutions are touched).
     D-F14   normalised coordinates are stored as F2DOT14: limits, region coordinates, avar
             knots and condition ranges of a SAVED instance are the ideal ones rounded to
             2^-14.  Handled in the observational part (CoordSlack), never in the exact part.
     D-IUP   with optimize=True the instancer re-runs IUP optimisation with tolerance 1/2 on
             the rounded deltas of 'gvar' (the item's `opt` weight).
     D-FV1   instancer/featureVars.py: a feature-variation record whose conditions all lie
             on pinned axes and are satisfied (or that has no condition) applies everywhere
             in the new space, but the code neither stops at it nor suppresses the catch-all
             record.  FvLoop transcribes the code; FvDeviation says when D-FV1 can fire; the
             contract FeatureVars is NOT weakened: a case where it fails is reported
             (clause "FeatureVars:applied-record-without-remaining-conditions").           *)
EXTENDS Tent, FiniteSets

(* ---- small helpers -------------------------------------------------------------------- *)
IFloorDiv(a, b) == IF a >= 0 THEN a \div b ELSE -((-(a + 1)) \div b) - 1         \* b > 0
ICeilDiv(a, b) == -IFloorDiv(-a, b)                                              \* b > 0
IMax(a, b) == IF a >= b THEN a ELSE b
IMin(a, b) == IF a <= b THEN a ELSE b
(* OpenType rounding floor(x + 1/2) of a rational, as an integer; RNaN -> poison marker *)
RRoundInt(r) == IFloorDiv(2 * r[1] + r[2], 2 * r[2])
RRoundFits(r) == ROk(r) /\ MulFits(2, r[1]) /\ AddFits(2 * r[1], r[2]) /\ MulFits(2, r[2])
RRound(r) == IF RRoundFits(r) THEN RInt(RRoundInt(r)) ELSE RNaN

RECURSIVE FlattenFrom(_, _, _)
FlattenFrom(ss, i, acc) == IF i > Len(ss) THEN acc ELSE LET a == acc \o ss[i] IN FlattenFrom(ss, i + 1, a)
Flatten(ss) == FlattenFrom(ss, 1, <<>>)
Idx(n) == TLCEval([i \in 1..n |-> i])

(* ---- evaluation of the abstract font ---------------------------------------------------- *)
NormCoord(ax, map, u) == PiecewiseLinearMap(map, NormalizeValue(u, ax))
NormLoc(font, uloc) ==
  TLCEval([a \in 1..Len(font.axes) |-> NormCoord(font.axes[a], font.avar[a], uloc[a])])
Scalars(vars, nloc) == TLCEval([k \in 1..Len(vars) |-> RegionScalar(vars[k][1], nloc)])
RECURSIVE ItemSumFrom(_, _, _, _, _)
ItemSumFrom(vars, sc, i, k, acc) ==
  IF k > Len(vars) THEN acc
  ELSE LET a == IF RIsZero(sc[k]) \/ RIsZero(vars[k][2][i]) THEN acc ELSE RAdd(acc, RMul(sc[k], vars[k][2][i]))
       IN ItemSumFrom(vars, sc, i, k + 1, a)
(* all item values at a normalised location, given the region scalars there *)
ValuesSc(font, sc) == TLCEval([i \in 1..Len(font.bases) |-> ItemSumFrom(font.vars, sc, i, 1, font.bases[i])])
ValuesN(font, nloc) == ValuesSc(font, Scalars(font.vars, nloc))
Values(font, uloc) == ValuesN(font, NormLoc(font, uloc))

InBox(box, nloc) == \A a \in 1..Len(box) : Len(box[a]) = 0 \/ (RLe(box[a][1], nloc[a]) /\ RLe(nloc[a], box[a][2]))
(* FeatureVariations: the first record whose condition set is satisfied wins *)
ActiveSubN(font, nloc) ==
  LET hit == {r \in 1..Len(font.fvs) : InBox(font.fvs[r].box, nloc)}
  IN IF hit = {} THEN font.defsub
     ELSE font.fvs[CHOOSE r \in hit : \A q \in hit : r <= q].sub
ActiveSub(font, uloc) == ActiveSubN(font, NormLoc(font, uloc))

(* ---- limits ------------------------------------------------------------------------------ *)
Pinned(l) == l[1] = l[3]
Kept(lims) == SelectSeq(Idx(Len(lims)), LAMBDA a : ~Pinned(lims[a]))
AllPinned(lims) == \A a \in 1..Len(lims) : Pinned(lims[a])
ProjLoc(lims, uloc) == LET k == Kept(lims) IN TLCEval([j \in 1..Len(k) |-> uloc[k[j]]])
WellFormedLimits(font, lims) ==
  /\ Len(lims) = Len(font.axes)
  /\ \A a \in 1..Len(lims) :
       /\ RLe(font.axes[a][1], lims[a][1]) /\ RLe(lims[a][1], lims[a][2])
       /\ RLe(lims[a][2], lims[a][3]) /\ RLe(lims[a][3], font.axes[a][3])
InNewSpace(lims, uloc) ==
  \A a \in 1..Len(lims) : RLe(lims[a][1], uloc[a]) /\ RLe(uloc[a], lims[a][3])

(* ---- the rounding budget (derived) ----------------------------------------------------------
   The instance stores  base' = round(base_x)  and  delta'_k = round(delta_x_k)  where the
   exact (unrounded) instance reproduces the original exactly (PreservedExact, established for
   the operational specification by MC_Instancer).  Each rounding moves a stored value by at
   most 1/2, and a delta set enters the value with weight scalar_k(loc) in [0, 1], hence
        |value'(loc) - value(loc)|  <=  1/2 * [base rounded]  +  sum_k scalar_k(loc) / 2     (tight)
                                    <=  1/2 * ([base rounded] + #{k : scalar_k(loc) # 0})    (count)
   "1/2 per rounded stored quantity contributing at that location".                              *)
RECURSIVE RSumFrom(_, _, _)
RSumFrom(s, k, acc) == IF k > Len(s) THEN acc ELSE LET a == RAdd(acc, s[k]) IN RSumFrom(s, k + 1, a)
BudgetSc(sc, nbase) == RMul(RHalf, RAdd(RInt(nbase), RSumFrom(sc, 1, RZero)))
BudgetTight(vars, nloc, nbase) == BudgetSc(Scalars(vars, nloc), nbase)
Contributing(vars, nloc) == Cardinality({k \in 1..Len(vars) : ~RIsZero(RegionScalar(vars[k][1], nloc))})
BudgetCount(vars, nloc, nbase) == RMul(RHalf, RInt(nbase + Contributing(vars, nloc)))

(* three-valued comparison |a - b| <= bud *)
Within(a, b, bud) ==
  IF RBad(a) \/ RBad(b) \/ RBad(bud) THEN "overflow"
  ELSE LET d == RSub(a, b) IN
       IF RBad(d) THEN "overflow" ELSE IF RLe(RAbs(d), bud) THEN "ok" ELSE "differs"
Worst(vs) == IF "differs" \in vs THEN "differs" ELSE IF "overflow" \in vs THEN "overflow" ELSE "ok"

(* ---- the contract, font level --------------------------------------------------------------- *)
(* AxesCorrect: the new 'fvar' lists exactly the axes that are not pinned, in order, with the
   requested minimum / default / maximum *)
AxesCorrect(lims, font2) ==
  LET k == Kept(lims) IN
  /\ Len(font2.axes) = Len(k)
  /\ \A j \in 1..Len(k) : font2.axes[j] = lims[k[j]]
(* Static: pinning every axis leaves no variation data at all *)
Static(lims, font2) ==
  AllPinned(lims) => (font2.axes = <<>> /\ font2.avar = <<>> /\ font2.fvs = <<>> /\ font2.vars = <<>>)
(* Preserved at one user-space location of the new space: the SAME user coordinates are given
   to both fonts ("coordinates keep their meaning"); nbase = 1 iff the items' default values
   are rounded stored quantities; the verdict is the worst over the items *)
PreservedAt(font, lims, font2, uloc, nbase) ==
  LET n2 == NormLoc(font2, ProjLoc(lims, uloc))
      sc2 == Scalars(font2.vars, n2)
      got == ValuesSc(font2, sc2)
      want == Values(font, uloc)
      bud == BudgetSc(sc2, nbase)
  IN Worst({Within(got[i], want[i], bud) : i \in 1..Len(font.bases)})
ExactAt(font, lims, font2, uloc) ==
  LET got == Values(font2, ProjLoc(lims, uloc))
      want == Values(font, uloc)
  IN Worst({Within(got[i], want[i], RZero) : i \in 1..Len(font.bases)})
FeatureVarsAt(font, lims, font2, uloc) == ActiveSub(font2, ProjLoc(lims, uloc)) = ActiveSub(font, uloc)

(* ---- the contract, store level (normalised coordinates) ----------------------------------------
   nlims: per axis <<min, def, max, dNeg, dPos>> in the OLD normalised space (module Tent);
   x: a point of the old normalised space inside the limits; the instance is evaluated at the
   renormalised point (module Tent, Renorm: 'fvar' normalisation of the same user coordinate
   against the new axis record). *)
NPinned(nl) == nl[1] = nl[3]
NKept(nlims) == SelectSeq(Idx(Len(nlims)), LAMBDA a : ~NPinned(nlims[a]))
NInside(nlims, x) == \A a \in 1..Len(nlims) : RLe(nlims[a][1], x[a]) /\ RLe(x[a], nlims[a][3])
RenormLoc(nlims, x) ==
  LET k == NKept(nlims) IN TLCEval([j \in 1..Len(k) |-> Renorm(nlims[k[j]], x[k[j]])])
(* vars / nvars: delta sets before / after (regions of nvars over the kept axes); dflt: the
   default deltas the instancer returns; rounded = 1 iff the deltas of nvars were rounded.
   Result: worst verdict over the n items *)
StorePreservedAt(vars, nlims, dflt, nvars, x, n, rounded) ==
  LET x2 == RenormLoc(nlims, x)
      sc == Scalars(vars, x)
      sc2 == Scalars(nvars, x2)
      bud == IF rounded = 1 THEN BudgetSc(sc2, 0) ELSE RZero
  IN Worst({Within(ItemSumFrom(nvars, sc2, i, 1, dflt[i]), ItemSumFrom(vars, sc, i, 1, RZero), bud) : i \in 1..n})

(* ---- operational instancing ---------------------------------------------------------------- *)
(* AxisLimits.normalize: limits through 'fvar' normalisation and the axis' segment map, with the
   user-space lengths of the two half axes *)
NormLimit(ax, map, l) ==
  <<NormCoord(ax, map, l[1]), NormCoord(ax, map, l[2]), NormCoord(ax, map, l[3]),
    RSub(ax[2], ax[1]), RSub(ax[3], ax[2])>>
NormLimits(font, lims) == TLCEval([a \in 1..Len(lims) |-> NormLimit(font.axes[a], font.avar[a], lims[a])])
NoAvar(n) == TLCEval([a \in 1..n |-> <<>>])

(* changeTupleVariationAxisLimit: one delta set <<region, deltas>> under the limit of axis a *)
ScaleDeltas(ds, m) == IF m = ROne THEN ds ELSE TLCEval([j \in 1..Len(ds) |-> RMul(ds[j], m)])
RebaseVar(v, a, nl) ==
  LET t == v[1][a] IN
  IF RIsZero(t[2]) THEN << <<[v[1] EXCEPT ![a] = NoTent], v[2]>> >>
  ELSE LET sols == RebaseTent(t, nl)
       IN TLCEval([s \in 1..Len(sols) |->
            << [v[1] EXCEPT ![a] = IF sols[s][2] = None THEN NoTent ELSE sols[s][2]],
               ScaleDeltas(v[2], sols[s][1]) >>])
LimitAxis(vars, a, nl) == Flatten(TLCEval([k \in 1..Len(vars) |-> RebaseVar(vars[k], a, nl)]))
RECURSIVE LimitAxesFrom(_, _, _)
LimitAxesFrom(vars, nlims, a) ==
  IF a > Len(nlims) THEN vars
  ELSE LET v2 == LimitAxis(vars, a, nlims[a]) IN LimitAxesFrom(v2, nlims, a + 1)

(* merging of delta sets with equal regions (first occurrence keeps its place) *)
AddDeltas(d, e) == TLCEval([j \in 1..Len(d) |-> RAdd(d[j], e[j])])
RECURSIVE MergeFrom(_, _, _)
MergeFrom(vars, k, acc) ==
  IF k > Len(vars) THEN acc
  ELSE LET hit == {q \in 1..Len(acc) : acc[q][1] = vars[k][1]}
           acc2 == IF hit = {} THEN Append(acc, vars[k])
                   ELSE LET q == CHOOSE q \in hit : TRUE
                        IN [acc EXCEPT ![q] = <<acc[q][1], AddDeltas(acc[q][2], vars[k][2])>>]
       IN MergeFrom(vars, k + 1, acc2)
Merge(vars) == MergeFrom(vars, 1, <<>>)

IsDefaultRegion(reg) == \A a \in 1..Len(reg) : RIsZero(reg[a][2])
ZeroDeltas(n) == TLCEval([j \in 1..n |-> RZero])
ProjRegion(reg, kept) == TLCEval([j \in 1..Len(kept) |-> reg[kept[j]]])
(* instantiateTupleVariationStore before rounding: <<default deltas, remaining delta sets>>,
   regions reduced to the kept axes *)
InstantiateVarsExact(vars, nlims, nitems) ==
  LET m == Merge(LimitAxesFrom(vars, nlims, 1))
      dfl == SelectSeq(m, LAMBDA v : IsDefaultRegion(v[1]))
      rest == SelectSeq(m, LAMBDA v : ~IsDefaultRegion(v[1]))
      kept == NKept(nlims)
  IN << IF Len(dfl) = 0 THEN ZeroDeltas(nitems) ELSE dfl[1][2],
        TLCEval([k \in 1..Len(rest) |-> <<ProjRegion(rest[k][1], kept), rest[k][2]>>]) >>
RoundSeq(ds) == TLCEval([j \in 1..Len(ds) |-> RRound(ds[j])])
RoundVars(vars) == TLCEval([k \in 1..Len(vars) |-> <<vars[k][1], RoundSeq(vars[k][2])>>])
(* every pinned axis has left every region (what "fully instanced" means for one delta set) *)
NoPinnedAxisLeft(vars, nlims) ==
  \A k \in 1..Len(vars) : \A a \in 1..Len(nlims) : NPinned(nlims[a]) => RIsZero(vars[k][1][a][2])

(* instantiateAvar for one axis: knots inside the new range, renormalised on both sides, plus
   the three mandatory knots; pre = limits before the map, post = limits after the map *)
SortKnots(S) ==
  LET RECURSIVE f(_, _)
      f(T, acc) == IF T = {} THEN acc
                   ELSE LET x == CHOOSE x \in T : \A y \in T : RLe(x[1], y[1])
                            rest == T \ {x}
                            acc2 == Append(acc, x)
                        IN f(rest, acc2)
  IN f(S, <<>>)
InstantiateAvarMap(map, pre, post) ==
  IF Len(map) = 0 THEN <<>>
  ELSE LET inside == {i \in 1..Len(map) : RLe(pre[1], map[i][1]) /\ RLe(map[i][1], pre[3])}
           moved == {<<RenormCode(pre, map[i][1]), RenormCode(post, map[i][2])>> : i \in inside}
           fixed == {<<RInt(-1), RInt(-1)>>, <<RZero, RZero>>, <<ROne, ROne>>}
           others == {k \in moved : k[1] # RInt(-1) /\ k[1] # RZero /\ k[1] # ROne}
       IN SortKnots(others \cup fixed)

(* FeatureVariations (instancer/featureVars.py), record by record in order:
     - a record one of whose conditions misses the new range is removed;
     - conditions on pinned axes disappear, the others are clamped to the new range and
       renormalised; a condition that now spans the whole axis is omitted;
     - a record is KEPT only if it has a condition on an axis that remains; exact duplicates
       (same remaining conditions) are dropped; after a kept record without remaining
       conditions ("universal") no further record is examined;
     - the first record satisfied at the new default location becomes the default feature set,
       and the old default is re-instated by a catch-all record appended at the end (when any
       record was kept and the last examined record is not universal). *)
CondAxes(box) == {a \in 1..Len(box) : Len(box[a]) # 0}
ClampRenorm(nl, v) == RenormCode(nl, RMax(nl[1], RMin(nl[3], v)))
BoxMeets(box, nlims) == \A a \in CondAxes(box) : ~RLt(box[a][2], nlims[a][1]) /\ ~RLt(nlims[a][3], box[a][1])
BoxAtDefault(box, nlims) == \A a \in CondAxes(box) : RLe(box[a][1], nlims[a][2]) /\ RLe(nlims[a][2], box[a][2])
ShouldKeep(box, nlims) == BoxMeets(box, nlims) /\ \E a \in CondAxes(box) : ~NPinned(nlims[a])
FullRange == <<RInt(-1), ROne>>
NewBox(box, nlims) ==
  LET k == NKept(nlims)
  IN TLCEval([j \in 1..Len(k) |->
       IF Len(box[k[j]]) = 0 THEN <<>>
       ELSE LET r == <<ClampRenorm(nlims[k[j]], box[k[j]][1]), ClampRenorm(nlims[k[j]], box[k[j]][2])>>
            IN IF r = FullRange THEN <<>> ELSE r])
NoConditions(box) == CondAxes(box) = {}
RECURSIVE FvLoop(_, _, _, _, _)
FvLoop(font, nlims, r, acc, ideal) ==      \* acc = [recs, applied, defsub, universal]
  IF r > Len(font.fvs) \/ acc.universal THEN acc
  ELSE LET box == font.fvs[r].box
           (* the code keeps a record only if a condition remains (D-FV1); ideally every record
              that can still be satisfied is kept, so that one without remaining conditions ends
              the list as a universal record *)
           keep == IF ideal THEN BoxMeets(box, nlims) ELSE ShouldKeep(box, nlims)
           nb == NewBox(box, nlims)
           uniq == \A q \in 1..Len(acc.recs) : acc.recs[q].box # nb
           applies == BoxAtDefault(box, nlims)
           univ == keep /\ NoConditions(nb)
           (* ideally a record that holds on the whole new space is not stored: its substitution
              becomes the default feature set (every kept record precedes it and still wins where
              it matches), nothing after it can ever apply and nothing needs re-instating *)
           fold == ideal /\ univ
           acc2 == [recs |-> IF keep /\ uniq /\ ~fold THEN Append(acc.recs, [box |-> nb, sub |-> font.fvs[r].sub]) ELSE acc.recs,
                    applied |-> acc.applied \/ applies,
                    defsub |-> IF fold \/ (applies /\ ~acc.applied) THEN font.fvs[r].sub ELSE acc.defsub,
                    universal |-> univ]
       IN FvLoop(font, nlims, r + 1, acc2, ideal)
FvStart(font) == [recs |-> <<>>, applied |-> FALSE, defsub |-> font.defsub, universal |-> FALSE]
InstantiateFvsWith(font, nlims, ideal) ==
  LET res == FvLoop(font, nlims, 1, FvStart(font), ideal)
      catchall == [box |-> TLCEval([j \in 1..Len(NKept(nlims)) |-> <<>>]), sub |-> font.defsub]
  IN [fvs |-> IF res.applied /\ Len(res.recs) > 0 /\ ~res.universal THEN Append(res.recs, catchall) ELSE res.recs,
      defsub |-> res.defsub]
InstantiateFvs(font, nlims) == InstantiateFvsWith(font, nlims, FALSE)        \* what the code does
InstantiateFvsIdeal(font, nlims) == InstantiateFvsWith(font, nlims, TRUE)    \* without D-FV1
(* D-FV1 can fire only if some record is satisfied on all of the new space without keeping a
   condition: all its conditions lie on pinned axes (or it has none) and are met there *)
FvDeviation(fvs, nlims) ==
  \E r \in 1..Len(fvs) : BoxMeets(fvs[r].box, nlims) /\ \A a \in CondAxes(fvs[r].box) : NPinned(nlims[a])

(* the whole font; rounded = FALSE gives the exact (pre-rounding) instance *)
RoundFont(f) == [f EXCEPT !.bases = RoundSeq(f.bases), !.vars = RoundVars(f.vars)]
InstantiateExact(font, lims) ==
  LET nlims == NormLimits(font, lims)
      pre == NormLimits([font EXCEPT !.avar = NoAvar(Len(font.axes))], lims)
      k == Kept(lims)
      fv == InstantiateFvs(font, nlims)
      r == InstantiateVarsExact(font.vars, nlims, Len(font.bases))
  IN [axes |-> TLCEval([j \in 1..Len(k) |-> lims[k[j]]]),
      avar |-> TLCEval([j \in 1..Len(k) |-> InstantiateAvarMap(font.avar[k[j]], pre[k[j]], nlims[k[j]])]),
      bases |-> AddDeltas(font.bases, r[1]),
      vars |-> r[2],
      fvs |-> fv.fvs, defsub |-> fv.defsub]
Instantiate(font, lims, rounded) ==
  IF rounded THEN RoundFont(InstantiateExact(font, lims)) ELSE InstantiateExact(font, lims)
=============================================================================
