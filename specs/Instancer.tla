------------------------------ MODULE Instancer ------------------------------
(* C08 -- instancing a variable font preserves the design space that remains.

   Sources: OpenType 'fvar' (user-space axis records, coordinate normalisation), 'avar'
   (segment maps), "Font Variations Common Table Formats" (regions, scalars, tuple / item
   variation stores), 'GSUB'/'GPOS' FeatureVariations (condition sets, first matching record
   wins) -- all through modules VarSem / Tent (exact rationals, module Rat).

   ABSTRACT VARIABLE FONT
     font == [axes   |-> Seq(<<min, default, max>>)      user-space axis records ('fvar')
              avar   |-> Seq(map)                         one segment map per axis, <<>> = identity;
                                                          map == Seq(<<from, to>>), increasing `from`
              items  |-> Seq([base |-> Rat,               default value of the item (a glyph point
                              vars |-> Seq(<<region, delta>>)])   coordinate, an advance, an MVAR metric,
                                                          a GPOS value ...) and its delta sets
              fvs    |-> Seq([box |-> Seq(<<lo, hi>>), sub |-> Nat])   feature variation records:
                                                          condition box (normalised, one entry per axis,
                                                          <<>> = no condition on that axis) -> substitution id
              defsub |-> Nat]                             substitution id when no record matches
   A region is dense (one tent per axis, module VarSem).  The value of an item at a user-space
   location is  base + sum_k RegionScalar(region_k, Normalise(loc)) * delta_k.

   AXIS LIMITS: one <<lo, default, hi>> user-space triple per axis (an unrestricted axis
   repeats its own record; lo = hi pins the axis).

   The CONTRACT of Instantiate(font, lims) = font2 is stated declaratively (Preserved,
   AxesCorrect, Static, FeatureVars) and is the conformance oracle for the real instancer.
   The OPERATIONAL part transcribes what the instancer does (per-axis tent rebasing from
   module Tent, delta scaling, merging of equal regions, default-delta extraction, rounding,
   avar renormalisation, condition-range renormalisation); MC_Instancer checks it against
   the contract on whole lattices and exports its cases to drive the real code.            *)
EXTENDS Tent, FiniteSets

(* ---- small helpers -------------------------------------------------------------------- *)
IFloorDiv(a, b) == IF a >= 0 THEN a \div b ELSE -((-(a + 1)) \div b) - 1         \* b > 0
(* OpenType rounding floor(x + 1/2) of a rational, as an integer; RNaN -> poison marker *)
RRoundInt(r) == IFloorDiv(2 * r[1] + r[2], 2 * r[2])
RRoundFits(r) == ROk(r) /\ MulFits(2, r[1]) /\ AddFits(2 * r[1], r[2]) /\ MulFits(2, r[2])
RRound(r) == IF RRoundFits(r) THEN RInt(RRoundInt(r)) ELSE RNaN

RECURSIVE FlattenFrom(_, _, _)
FlattenFrom(ss, i, acc) == IF i > Len(ss) THEN acc ELSE LET a == acc \o ss[i] IN FlattenFrom(ss, i + 1, a)
Flatten(ss) == FlattenFrom(ss, 1, <<>>)
Idx(n) == TLCEval([i \in 1..n |-> i])

(* ---- evaluation of the abstract font ---------------------------------------------------- *)
NormCoord(ax, map, u) == PiecewiseLinearMap(map, NormalizeValue(u, ax))
NormLoc(font, uloc) ==
  TLCEval([a \in 1..Len(font.axes) |-> NormCoord(font.axes[a], font.avar[a], uloc[a])])
EvalItemN(item, nloc) == RAdd(item.base, EvalDeltas(item.vars, nloc))       \* at a normalised location
EvalItem(font, i, uloc) == EvalItemN(font.items[i], NormLoc(font, uloc))

InBox(box, nloc) == \A a \in 1..Len(box) : Len(box[a]) = 0 \/ (RLe(box[a][1], nloc[a]) /\ RLe(nloc[a], box[a][2]))
(* FeatureVariations: the first record whose condition set is satisfied wins *)
ActiveSubN(font, nloc) ==
  LET hit == {r \in 1..Len(font.fvs) : InBox(font.fvs[r].box, nloc)}
  IN IF hit = {} THEN font.defsub
     ELSE font.fvs[CHOOSE r \in hit : \A q \in hit : r <= q].sub
ActiveSub(font, uloc) == ActiveSubN(font, NormLoc(font, uloc))

(* ---- limits ------------------------------------------------------------------------------ *)
Pinned(l) == l[1] = l[3]
Kept(lims) == SelectSeq(Idx(Len(lims)), LAMBDA a : ~Pinned(lims[a]))
AllPinned(lims) == \A a \in 1..Len(lims) : Pinned(lims[a])
ProjLoc(lims, uloc) == LET k == Kept(lims) IN TLCEval([j \in 1..Len(k) |-> uloc[k[j]]])
WellFormedLimits(font, lims) ==
  /\ Len(lims) = Len(font.axes)
  /\ \A a \in 1..Len(lims) :
       /\ RLe(font.axes[a][1], lims[a][1]) /\ RLe(lims[a][1], lims[a][2])
       /\ RLe(lims[a][2], lims[a][3]) /\ RLe(lims[a][3], font.axes[a][3])
InNewSpace(lims, uloc) ==
  \A a \in 1..Len(lims) : RLe(lims[a][1], uloc[a]) /\ RLe(uloc[a], lims[a][3])

(* ---- the rounding budget (derived) ----------------------------------------------------------
   The instance stores  base' = round(base_x)  and  delta'_k = round(delta_x_k)  where the
   exact (unrounded) instance reproduces the original exactly (PreservedExact, established for
   the operational specification by MC_Instancer).  Each rounding moves a stored value by at
   most 1/2, and a delta set enters the value with weight scalar_k(loc) in [0, 1], hence
        |value'(loc) - value(loc)|  <=  1/2 * [base rounded]  +  sum_k scalar_k(loc) / 2     (tight)
                                    <=  1/2 * ([base rounded] + #{k : scalar_k(loc) # 0})    (count)
   "1/2 per rounded stored quantity contributing at that location".                              *)
RECURSIVE ScalarSumFrom(_, _, _, _)
ScalarSumFrom(vars, nloc, k, acc) ==
  IF k > Len(vars) THEN acc
  ELSE LET a == RAdd(acc, RegionScalar(vars[k][1], nloc)) IN ScalarSumFrom(vars, nloc, k + 1, a)
ScalarSum(vars, nloc) == ScalarSumFrom(vars, nloc, 1, RZero)
Contributing(vars, nloc) == Cardinality({k \in 1..Len(vars) : ~RIsZero(RegionScalar(vars[k][1], nloc))})
BudgetTight(vars, nloc, nbase) == RMul(RHalf, RAdd(RInt(nbase), ScalarSum(vars, nloc)))
BudgetCount(vars, nloc, nbase) == RMul(RHalf, RInt(nbase + Contributing(vars, nloc)))

(* three-valued comparison |a - b| <= bud *)
Within(a, b, bud) ==
  IF RBad(a) \/ RBad(b) \/ RBad(bud) THEN "overflow"
  ELSE LET d == RSub(a, b) IN
       IF RBad(d) THEN "overflow" ELSE IF RLe(RAbs(d), bud) THEN "ok" ELSE "differs"

(* ---- the contract, font level --------------------------------------------------------------- *)
(* AxesCorrect: the new 'fvar' lists exactly the axes that are not pinned, in order, with the
   requested minimum / default / maximum *)
AxesCorrect(lims, font2) ==
  LET k == Kept(lims) IN
  /\ Len(font2.axes) = Len(k)
  /\ \A j \in 1..Len(k) : font2.axes[j] = lims[k[j]]
(* Static: pinning every axis leaves no variation data at all *)
Static(lims, font2) ==
  AllPinned(lims) =>
    /\ font2.axes = <<>> /\ font2.avar = <<>> /\ font2.fvs = <<>>
    /\ \A i \in 1..Len(font2.items) : font2.items[i].vars = <<>>
(* Preserved at one user-space location of the new space: the SAME user coordinates are given
   to both fonts ("coordinates keep their meaning"); nbase = 1 iff the item's default value is a
   rounded stored quantity *)
PreservedAt(font, lims, font2, i, uloc, nbase, extra) ==
  LET u2 == ProjLoc(lims, uloc)
      n2 == NormLoc(font2, u2)
      bud == RAdd(BudgetTight(font2.items[i].vars, n2, nbase), extra)
  IN Within(EvalItemN(font2.items[i], n2), EvalItem(font, i, uloc), bud)
FeatureVarsAt(font, lims, font2, uloc) == ActiveSub(font2, ProjLoc(lims, uloc)) = ActiveSub(font, uloc)

(* ---- the contract, store level (normalised coordinates) ----------------------------------------
   nlims: per axis <<min, def, max, dNeg, dPos>> in the OLD normalised space (module Tent);
   x: a point of the old normalised space inside the limits; the instance is evaluated at the
   renormalised point (module Tent, Renorm: 'fvar' normalisation of the same user coordinate
   against the new axis record). *)
NPinned(nl) == nl[1] = nl[3]
NKept(nlims) == SelectSeq(Idx(Len(nlims)), LAMBDA a : ~NPinned(nlims[a]))
NInside(nlims, x) == \A a \in 1..Len(nlims) : RLe(nlims[a][1], x[a]) /\ RLe(x[a], nlims[a][3])
RenormLoc(nlims, x) ==
  LET k == NKept(nlims) IN TLCEval([j \in 1..Len(k) |-> Renorm(nlims[k[j]], x[k[j]])])
(* vars / nvars: delta sets of ONE item before / after; dflt: the default delta that the
   instancer returns for that item; roundedVars = 1 iff the deltas of nvars were rounded *)
StorePreservedAt(vars, nlims, dflt, nvars, x, nbase, roundedVars) ==
  LET x2 == RenormLoc(nlims, x)
      bud == IF roundedVars = 1 THEN BudgetTight(nvars, x2, nbase) ELSE RMul(RHalf, RInt(nbase))
  IN Within(RAdd(dflt, EvalDeltas(nvars, x2)), EvalDeltas(vars, x), bud)

(* ---- operational instancing ---------------------------------------------------------------- *)
(* AxisLimits.normalize: limits through 'fvar' normalisation and the axis' segment map, with the
   user-space lengths of the two half axes *)
NormLimit(ax, map, l) ==
  <<NormCoord(ax, map, l[1]), NormCoord(ax, map, l[2]), NormCoord(ax, map, l[3]),
    RSub(ax[2], ax[1]), RSub(ax[3], ax[2])>>
NormLimits(font, lims) == TLCEval([a \in 1..Len(lims) |-> NormLimit(font.axes[a], font.avar[a], lims[a])])
NoAvar(n) == TLCEval([a \in 1..n |-> <<>>])

(* changeTupleVariationAxisLimit: one delta set <<region, deltas>> (deltas: one per item sharing
   the region) under the limit of axis a *)
ScaleDeltas(ds, m) == TLCEval([j \in 1..Len(ds) |-> RMul(ds[j], m)])
RebaseVar(v, a, nl) ==
  LET t == v[1][a] IN
  IF RIsZero(t[2]) THEN << <<[v[1] EXCEPT ![a] = NoTent], v[2]>> >>
  ELSE LET sols == RebaseTent(t, nl)
       IN TLCEval([s \in 1..Len(sols) |->
            << [v[1] EXCEPT ![a] = IF sols[s][2] = None THEN NoTent ELSE sols[s][2]],
               ScaleDeltas(v[2], sols[s][1]) >>])
LimitAxis(vars, a, nl) == Flatten(TLCEval([k \in 1..Len(vars) |-> RebaseVar(vars[k], a, nl)]))
RECURSIVE LimitAxesFrom(_, _, _)
LimitAxesFrom(vars, nlims, a) ==
  IF a > Len(nlims) THEN vars
  ELSE LET v2 == LimitAxis(vars, a, nlims[a]) IN LimitAxesFrom(v2, nlims, a + 1)

(* merging of delta sets with equal regions (first occurrence keeps its place) *)
AddDeltas(d, e) == TLCEval([j \in 1..Len(d) |-> RAdd(d[j], e[j])])
RECURSIVE MergeFrom(_, _, _)
MergeFrom(vars, k, acc) ==
  IF k > Len(vars) THEN acc
  ELSE LET hit == {q \in 1..Len(acc) : acc[q][1] = vars[k][1]}
           acc2 == IF hit = {} THEN Append(acc, vars[k])
                   ELSE LET q == CHOOSE q \in hit : TRUE
                        IN [acc EXCEPT ![q] = <<acc[q][1], AddDeltas(acc[q][2], vars[k][2])>>]
       IN MergeFrom(vars, k + 1, acc2)
Merge(vars) == MergeFrom(vars, 1, <<>>)

IsDefaultRegion(reg) == \A a \in 1..Len(reg) : RIsZero(reg[a][2])
ZeroDeltas(n) == TLCEval([j \in 1..n |-> RZero])
ProjRegion(reg, kept) == TLCEval([j \in 1..Len(kept) |-> reg[kept[j]]])
(* instantiateTupleVariationStore before rounding: <<default deltas, remaining delta sets>>,
   regions reduced to the kept axes *)
InstantiateVarsExact(vars, nlims, nitems) ==
  LET m == Merge(LimitAxesFrom(vars, nlims, 1))
      dfl == SelectSeq(m, LAMBDA v : IsDefaultRegion(v[1]))
      rest == SelectSeq(m, LAMBDA v : ~IsDefaultRegion(v[1]))
      kept == NKept(nlims)
  IN << IF Len(dfl) = 0 THEN ZeroDeltas(nitems) ELSE dfl[1][2],
        TLCEval([k \in 1..Len(rest) |-> <<ProjRegion(rest[k][1], kept), rest[k][2]>>]) >>
RoundVars(vars) ==
  TLCEval([k \in 1..Len(vars) |-> <<vars[k][1], TLCEval([j \in 1..Len(vars[k][2]) |-> RRound(vars[k][2][j])])>>])
(* every pinned axis has left every region (what "fully instanced" means for one delta set) *)
NoPinnedAxisLeft(vars, nlims) ==
  \A k \in 1..Len(vars) : \A a \in 1..Len(nlims) : NPinned(nlims[a]) => RIsZero(vars[k][1][a][2])

(* instantiateAvar for one axis: knots inside the new range, renormalised on both sides, plus
   the three mandatory knots; pre = limits before the map, post = limits after the map *)
SortKnots(S) ==
  LET RECURSIVE f(_, _)
      f(T, acc) == IF T = {} THEN acc
                   ELSE LET x == CHOOSE x \in T : \A y \in T : RLe(x[1], y[1])
                            rest == T \ {x}
                            acc2 == Append(acc, x)
                        IN f(rest, acc2)
  IN f(S, <<>>)
InstantiateAvarMap(map, pre, post) ==
  IF Len(map) = 0 THEN <<>>
  ELSE LET inside == {i \in 1..Len(map) : RLe(pre[1], map[i][1]) /\ RLe(map[i][1], pre[3])}
           moved == {<<RenormCode(pre, map[i][1]), RenormCode(post, map[i][2])>> : i \in inside}
           fixed == {<<RInt(-1), RInt(-1)>>, <<RZero, RZero>>, <<ROne, ROne>>}
           others == {k \in moved : k[1] # RInt(-1) /\ k[1] # RZero /\ k[1] # ROne}
       IN SortKnots(others \cup fixed)

(* FeatureVariations (instancer/featureVars.py), record by record in order:
     - a record one of whose conditions misses the new range is removed;
     - conditions on pinned axes disappear, the others are clamped to the new range and
       renormalised; a condition that now spans the whole axis is omitted;
     - a record is KEPT only if it has a condition on an axis that remains; exact duplicates
       (same remaining conditions) are dropped; after a kept record without remaining
       conditions ("universal") no further record is examined;
     - the first record satisfied at the new default location becomes the default feature set,
       and the old default is re-instated by a catch-all record appended at the end (when any
       record was kept and the last examined record is not universal). *)
CondAxes(box) == {a \in 1..Len(box) : Len(box[a]) # 0}
ClampRenorm(nl, v) == RenormCode(nl, RMax(nl[1], RMin(nl[3], v)))
BoxMeets(box, nlims) == \A a \in CondAxes(box) : ~RLt(box[a][2], nlims[a][1]) /\ ~RLt(nlims[a][3], box[a][1])
BoxAtDefault(box, nlims) == \A a \in CondAxes(box) : RLe(box[a][1], nlims[a][2]) /\ RLe(nlims[a][2], box[a][2])
ShouldKeep(box, nlims) == BoxMeets(box, nlims) /\ \E a \in CondAxes(box) : ~NPinned(nlims[a])
FullRange == <<RInt(-1), ROne>>
NewBox(box, nlims) ==
  LET k == NKept(nlims)
  IN TLCEval([j \in 1..Len(k) |->
       IF Len(box[k[j]]) = 0 THEN <<>>
       ELSE LET r == <<ClampRenorm(nlims[k[j]], box[k[j]][1]), ClampRenorm(nlims[k[j]], box[k[j]][2])>>
            IN IF r = FullRange THEN <<>> ELSE r])
NoConditions(box) == CondAxes(box) = {}
RECURSIVE FvLoop(_, _, _, _)
FvLoop(font, nlims, r, acc) ==      \* acc = [recs, applied, defsub, universal]
  IF r > Len(font.fvs) \/ acc.universal THEN acc
  ELSE LET box == font.fvs[r].box
           keep == ShouldKeep(box, nlims)
           nb == NewBox(box, nlims)
           uniq == \A q \in 1..Len(acc.recs) : acc.recs[q].box # nb
           applies == BoxAtDefault(box, nlims)
           acc2 == [recs |-> IF keep /\ uniq THEN Append(acc.recs, [box |-> nb, sub |-> font.fvs[r].sub]) ELSE acc.recs,
                    applied |-> acc.applied \/ applies,
                    defsub |-> IF applies /\ ~acc.applied THEN font.fvs[r].sub ELSE acc.defsub,
                    universal |-> keep /\ NoConditions(nb)]
       IN FvLoop(font, nlims, r + 1, acc2)
InstantiateFvs(font, nlims) ==
  LET res == FvLoop(font, nlims, 1, [recs |-> <<>>, applied |-> FALSE, defsub |-> font.defsub, universal |-> FALSE])
      catchall == [box |-> TLCEval([j \in 1..Len(NKept(nlims)) |-> <<>>]), sub |-> font.defsub]
  IN [fvs |-> IF res.applied /\ Len(res.recs) > 0 /\ ~res.universal THEN Append(res.recs, catchall) ELSE res.recs,
      defsub |-> res.defsub]

(* the whole font; rounded = FALSE gives the exact (pre-rounding) instance *)
ItemVars(item) == TLCEval([k \in 1..Len(item.vars) |-> <<item.vars[k][1], <<item.vars[k][2]>> >>])
InstantiateItem(item, nlims, rounded) ==
  LET r == InstantiateVarsExact(ItemVars(item), nlims, 1)
      vs == IF rounded THEN RoundVars(r[2]) ELSE r[2]
      b == RAdd(item.base, r[1][1])
  IN [base |-> IF rounded THEN RRound(b) ELSE b,
      vars |-> TLCEval([k \in 1..Len(vs) |-> <<vs[k][1], vs[k][2][1]>>])]
Instantiate(font, lims, rounded) ==
  LET nlims == NormLimits(font, lims)
      pre == NormLimits([font EXCEPT !.avar = NoAvar(Len(font.axes))], lims)
      k == Kept(lims)
      fv == InstantiateFvs(font, nlims)
  IN [axes |-> TLCEval([j \in 1..Len(k) |-> lims[k[j]]]),
      avar |-> TLCEval([j \in 1..Len(k) |-> InstantiateAvarMap(font.avar[k[j]], pre[k[j]], nlims[k[j]])]),
      items |-> TLCEval([i \in 1..Len(font.items) |-> InstantiateItem(font.items[i], nlims, rounded)]),
      fvs |-> fv.fvs, defsub |-> fv.defsub]
=============================================================================
