CONSTANTS
  Hi = 5
  MaxKnots = 3
INIT Init
NEXT Next
INVARIANT Laws
CHECK_DEADLOCK FALSE
