CONSTANTS
  Hi = 4
  MaxKnots = 3
INIT Init
NEXT Next
INVARIANT Laws
CHECK_DEADLOCK FALSE
