----------------------------- MODULE MC_AxisMap -----------------------------
(* Every strictly increasing map with up to MaxKnots knots on the quarter lattice
   0, 1/4 .. Hi/4, evaluated on the eighth lattice from -1/2 to Hi/4 + 1/2, satisfies
   InverseOnMonotone; every weakly increasing one satisfies the right-inverse law.
   Each map is printed as <<"GEN", json>> for replay on AxisDescriptor.              *)
EXTENDS AxisMap, TLC, Json

CONSTANTS Hi, MaxKnots

VARIABLES us, ds, kn     \* kn: the knot list of the chosen map, kept as a value (TLC re-evaluates definitions)
Q == 0..Hi
Q4(n) == Norm(n, 4)
Eval == {Norm(n, 8) : n \in (-4)..(2 * Hi + 4)}

RECURSIVE Sorted(_)
Sorted(S) == IF S = {} THEN <<>> ELSE LET m == CHOOSE x \in S : \A y \in S : x <= y IN <<m>> \o Sorted(S \ {m})

(* us: set of distinct user knots; ds: weakly increasing sequence of design values *)
KnotsOf(U, D) == LET u == Sorted(U) IN [i \in 1..Len(u) |-> <<Q4(u[i]), Q4(D[i])>>]
Knots == kn

RECURSIVE Mono(_, _)
Mono(k, lo) == IF k = 0 THEN {<<>>} ELSE UNION {{<<d>> \o t : t \in Mono(k - 1, d)} : d \in lo..Hi}

(* two levels so that TLC's workers share the maps: the user knots are the initial
   states, the design values are chosen in Next; the laws are evaluated on successors *)
Init == /\ us \in {S \in SUBSET Q : Cardinality(S) <= MaxKnots}
        /\ ds = <<-1>> /\ kn = <<>>
Next == /\ ds = <<-1>>
        /\ ds' \in Mono(Cardinality(us), 0)
        /\ kn' = KnotsOf(us, ds')
        /\ UNCHANGED us
Chosen == ds # <<-1>>

Strict == Chosen /\ StrictlyIncreasing(Knots)
LawsAt(v, strict) == LET f == Fwd(kn, v) S == BwdSet(kn, v) IN
         /\ IsRat(f) /\ Fits(f)                                     \* Closed
         /\ \A u \in S : IsRat(u) /\ Fwd(kn, u) = v                 \* RightInverse
         /\ strict => (Bwd(kn, f) = v /\ Fwd(kn, Bwd(kn, v)) = v)    \* InverseOnMonotone
Laws == Chosen =>
   /\ IF StrictlyIncreasing(kn) THEN \A v \in Eval : LawsAt(v, TRUE) ELSE \A v \in Eval : LawsAt(v, FALSE)
   /\ \A i \in 1..Len(kn) : Fwd(kn, kn[i][1]) = kn[i][2]            \* OnKnots
   /\ PrintT(<<"GEN", ToJson([k |-> kn, strict |-> StrictlyIncreasing(kn)])>>)
=============================================================================
