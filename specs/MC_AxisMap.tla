----------------------------- MODULE MC_AxisMap -----------------------------
(* Every strictly increasing map with up to MaxKnots knots on the quarter lattice
   0, 1/4 .. Hi/4, evaluated on the eighth lattice from -1/2 to Hi/4 + 1/2, satisfies
   InverseOnMonotone; every weakly increasing one satisfies the right-inverse law.
   Each map is printed as <<"GEN", json>> for replay on AxisDescriptor.              *)
EXTENDS AxisMap, TLC, Json

CONSTANTS Hi, MaxKnots

VARIABLES us, ds
Q == 0..Hi
Q4(n) == Norm(n, 4)
Eval == {Norm(n, 8) : n \in (-4)..(2 * Hi + 4)}

RECURSIVE Sorted(_)
Sorted(S) == IF S = {} THEN <<>> ELSE LET m == CHOOSE x \in S : \A y \in S : x <= y IN <<m>> \o Sorted(S \ {m})

(* us: set of distinct user knots; ds: weakly increasing sequence of design values *)
Knots == LET u == Sorted(us) IN [i \in 1..Len(u) |-> <<Q4(u[i]), Q4(ds[i])>>]

RECURSIVE Mono(_, _)
Mono(k, lo) == IF k = 0 THEN {<<>>} ELSE UNION {{<<d>> \o t : t \in Mono(k - 1, d)} : d \in lo..Hi}

(* two levels so that TLC's workers share the maps: the user knots are the initial
   states, the design values are chosen in Next; the laws are evaluated on successors *)
Init == /\ us \in {S \in SUBSET Q : Cardinality(S) <= MaxKnots}
        /\ ds = <<-1>>
Next == /\ ds = <<-1>>
        /\ ds' \in Mono(Cardinality(us), 0)
        /\ UNCHANGED us
Chosen == ds # <<-1>>

Strict == Chosen /\ StrictlyIncreasing(Knots)
Laws == Chosen => LET K == Knots strict == StrictlyIncreasing(K) IN
   /\ \A v \in Eval : LET f == Fwd(K, v) S == BwdSet(K, v) IN
         /\ IsRat(f) /\ Fits(f)                                   \* Closed
         /\ \A u \in S : IsRat(u) /\ Fwd(K, u) = v                 \* RightInverse
         /\ strict => (Bwd(K, f) = v /\ Fwd(K, Bwd(K, v)) = v)     \* InverseOnMonotone
   /\ \A i \in 1..Len(K) : Fwd(K, K[i][1]) = K[i][2]              \* OnKnots
   /\ PrintT(<<"GEN", ToJson([k |-> K, strict |-> strict])>>)
=============================================================================
