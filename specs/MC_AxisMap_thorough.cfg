CONSTANTS
  Hi = 8
  MaxKnots = 4
INIT Init
NEXT Next
INVARIANT Laws
CHECK_DEADLOCK FALSE
