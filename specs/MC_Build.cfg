CONSTANTS N = 1  D = 2  MaxExtra = 2
  ShapeIds = {"plain", "scaled", "bent", "onesided", "topsided", "flat", "nodefknot", "lowknot"}
  Vals = {0, 3}  Sparse = {FALSE, TRUE}
INIT Init
NEXT Next
CONSTRAINT Emit
INVARIANT InvMasterReproduced
INVARIANT InvAxisMapping
INVARIANT InvSparseOK
INVARIANT InvOrder
INVARIANT InvRefusal
INVARIANT InvNormalised
INVARIANT InvAxisMapModule
INVARIANT InvExactWithoutRounding
CHECK_DEADLOCK FALSE
