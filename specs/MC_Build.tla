------------------------------ MODULE MC_Build ------------------------------
(* (M) for Build: every designspace of a small family, built by the machine "add a master",
   then run through the Build actions; the finished abstract variable font must satisfy
   MasterReproduced, AxisMapping and SparseOK.

   Axes: N axes, each one of the shapes in ShapeIds (user triple + map knots; see Shape).
   Masters: the default master plus at most MaxExtra further masters on the half lattice of the
   NORMALISED design space (coordinates h/D, h in -D..D: on-axis, intermediate and corner
   masters), placed at the design coordinates that normalise to them under the axis' map.
   Items: two per master.  Item 1 is supplied by every master (value from Vals); item 2 is
   supplied by the default master and by the non-sparse masters (value 4 - item 1).
   Each complete designspace is printed once as <<"GEN", json, class mask>> for the replay
   against the real varLib.build (R). *)
EXTENDS Build, Json
CONSTANTS N, D, MaxExtra, ShapeIds, Vals, Sparse
VARIABLES shapes, masters
vars == <<pc, ds, nlocs, order, vf, shapes, masters>>

AM == INSTANCE AxisMap          \* the designspace axis map as specified for C19: cross-checked below

Q(n) == RInt(n)
K(u, d) == <<RInt(u), RInt(d)>>
Shape(id) ==
  CASE id = "plain"    -> [min |-> Q(0), def |-> Q(2), max |-> Q(4), map |-> <<>>]
    [] id = "scaled"   -> [min |-> Q(100), def |-> Q(400), max |-> Q(900), map |-> <<K(100, 20), K(400, 80), K(900, 200)>>]
    [] id = "bent"     -> [min |-> Q(0), def |-> Q(4), max |-> Q(8), map |-> <<K(0, 0), K(2, 8), K(4, 12), K(6, 14), K(8, 20)>>]
    [] id = "onesided" -> [min |-> Q(0), def |-> Q(0), max |-> Q(4), map |-> <<K(0, 0), K(1, 5), K(4, 10)>>]
    [] id = "topsided" -> [min |-> Q(0), def |-> Q(4), max |-> Q(4), map |-> <<K(0, 10), K(3, 15), K(4, 30)>>]
    [] id = "flat"     -> [min |-> Q(0), def |-> Q(4), max |-> Q(8), map |-> <<K(0, 0), K(2, 6), K(4, 6), K(8, 10)>>]
    [] id = "nodefknot" -> [min |-> Q(0), def |-> Q(4), max |-> Q(8), map |-> <<K(0, 0), K(8, 20)>>]
    [] id = "lowknot"  -> [min |-> Q(2), def |-> Q(4), max |-> Q(8), map |-> <<K(0, 0), K(4, 12), K(8, 20)>>]

(* the design coordinate that normalises to h/D on an axis (h < 0 needs a lower side, h > 0 an upper) *)
Feasible(ax, h) == LET t == DesignTriple(ax) IN (h < 0 => RLt(t[1], t[2])) /\ (h > 0 => RLt(t[2], t[3]))
DesignAt(ax, h) ==
  LET t == DesignTriple(ax) IN
  IF h < 0 THEN RAdd(t[2], RMul(Rat(h, D), RSub(t[2], t[1]))) ELSE RAdd(t[2], RMul(Rat(h, D), RSub(t[3], t[2])))

Axes == TLCEval([a \in 1..N |-> Shape(shapes[a])])
Lattice == [1..N -> (-D)..D]
OriginPt == [a \in 1..N |-> 0]
Source(m) ==
  [loc |-> TLCEval([a \in 1..N |-> DesignAt(Axes[a], m[1][a])]),
   vals |-> <<RInt(m[2]), IF m[3] THEN Absent ELSE RInt(4 - m[2])>>]
(* sources in an order that is NOT the model's (the build has to carry values with their masters) *)
ToDS == LET seq == SetToSeq(masters) IN
        [axes |-> Axes, srcs |-> TLCEval([i \in 1..Len(seq) |-> Source(seq[Len(seq) + 1 - i])])]

(* ---- classes of designspaces (coverage evidence), as a bit mask ------------------------------
   1 intermediate master  2 corner / off-axis master  4 sparse master  8 avar needed
   16 one-sided axis  32 refused  64 master on the negative side *)
Bit(b, v) == IF b THEN v ELSE 0
Classes(d, refused) ==
  LET pts == {m[1] : m \in masters} IN
  Bit(\E p \in pts : \E a \in 1..N : p[a] # 0 /\ p[a] # D /\ p[a] # -D, 1)
  + Bit(\E p \in pts : Cardinality({a \in 1..N : p[a] # 0}) > 1, 2)
  + Bit(\E m \in masters : m[3], 4)
  + Bit(\E a \in 1..N : LET av == BuildAvar(d.axes[a]) IN \E i \in 1..Len(av) : av[i][1] # av[i][2], 8)
  + Bit(\E a \in 1..N : d.axes[a].min = d.axes[a].def \/ d.axes[a].def = d.axes[a].max, 16)
  + Bit(refused, 32)
  + Bit(\E p \in pts : \E a \in 1..N : p[a] < 0, 64)

Init ==
  /\ shapes \in [1..N -> ShapeIds]
  /\ \E v \in Vals : masters = {<<OriginPt, v, FALSE>>}
  /\ pc = "design" /\ ds = [axes |-> <<>>, srcs |-> <<>>] /\ nlocs = <<>> /\ order = <<>> /\ vf = NoVF

AddMaster ==
  /\ pc = "design"
  /\ Cardinality(masters) <= MaxExtra
  /\ LET ax == Axes
         feas == TLCEval([a \in 1..N |-> {h \in (-D)..D : Feasible(ax[a], h)}])
         used == {m[1] : m \in masters}
     IN \E p \in Lattice :
          /\ p \notin used
          /\ \A a \in 1..N : p[a] \in feas[a]
          /\ \E v \in Vals : \E sp \in Sparse : masters' = masters \cup {<<p, v, sp>>}
  /\ UNCHANGED <<pc, ds, nlocs, order, vf, shapes>>
Start ==
  /\ pc = "design"
  /\ pc' = "normalise" /\ ds' = ToDS
  /\ UNCHANGED <<nlocs, order, vf, shapes, masters>>
Next == AddMaster \/ Start \/ (BuildStep /\ UNCHANGED <<shapes, masters>>)
(* generation only (inputs for the replay against the real code): stop after Normalise *)
NextGen == AddMaster \/ Start \/ (Normalise /\ UNCHANGED <<shapes, masters>>)

(* ---- what is checked ---------------------------------------------------------------------------- *)
(* each designspace is exported when its build starts; refusals are exported too *)
Emit ==
  (pc \in {"model", "refused"}) =>
     PrintT(<<"GEN", ToJson([axes |-> ds.axes, srcs |-> ds.srcs, pts |-> SetToSeq({m[1] : m \in masters})]),
              Classes(ds, pc = "refused")>>)

(* a refusal is exactly a violated requirement of the stated kind, never a lattice accident *)
InvRefusal == pc = "refused" => ~AxesBuildable(ds.axes)
(* Normalise put every master where the lattice says *)
InvNormalised == pc \in {"model", "items", "assemble", "done"} =>
  \A i \in 1..Len(ds.srcs) : \E m \in masters : nlocs[i] = TLCEval([a \in 1..N |-> Rat(m[1][a], D)])
                                                   /\ ds.srcs[i].vals[1] = RInt(m[2])
(* Build's map semantics = AxisMap.tla's (module of C19) at every probe of every axis *)
InvAxisMapModule == (pc = "normalise" /\ Len(ds.srcs) = 1) =>
  \A a \in 1..N : \A u \in Probes(ds.axes[a]) : AM!Fwd(ds.axes[a].map, u) = MapFwd(ds.axes[a], u)
(* without the rounding step the masters are reproduced exactly (so 1/2 is all rounding) *)
InvExactWithoutRounding == Built =>
  \A k \in 1..Len(vf.items) :
     LET sub == SubOrder(order, ds.srcs, k)
         locs == SubLocs(nlocs, sub)
         sups == ModelSupports(locs)
         S == ScalarMatrix(locs, sups)
     IN MasterExactM(S, GetDeltas(DeltaWeights(S), SubVals(ds.srcs, sub, k)), SubVals(ds.srcs, sub, k))
=============================================================================
