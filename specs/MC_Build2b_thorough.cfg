CONSTANTS N = 2  D = 2  MaxExtra = 3
  ShapeIds = {"bent"}
  Vals = {0, 3}  Sparse = {FALSE}
INIT Init
NEXT Next
CONSTRAINT Emit
INVARIANT InvMasterReproduced
INVARIANT InvAxisMapping
INVARIANT InvSparseOK
INVARIANT InvOrder
INVARIANT InvRefusal
INVARIANT InvNormalised
INVARIANT InvAxisMapModule
INVARIANT InvExactWithoutRounding
CHECK_DEADLOCK FALSE
