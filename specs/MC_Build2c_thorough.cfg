CONSTANTS N = 2  D = 4  MaxExtra = 2
  ShapeIds = {"onesided"}
  Vals = {0, 3}  Sparse = {FALSE, TRUE}
INIT Init
NEXT Next
CONSTRAINT Emit
INVARIANT InvMasterReproduced
INVARIANT InvAxisMapping
INVARIANT InvSparseOK
INVARIANT InvOrder
INVARIANT InvRefusal
INVARIANT InvNormalised
INVARIANT InvAxisMapModule
INVARIANT InvExactWithoutRounding
CHECK_DEADLOCK FALSE
