CONSTANTS N = 3  D = 1  MaxExtra = 2
  ShapeIds = {"bent", "onesided"}
  Vals = {0, 3}  Sparse = {FALSE, TRUE}
INIT Init
NEXT Next
CONSTRAINT Emit
INVARIANT InvMasterReproduced
INVARIANT InvAxisMapping
INVARIANT InvSparseOK
INVARIANT InvOrder
INVARIANT InvRefusal
INVARIANT InvNormalised
INVARIANT InvAxisMapModule
INVARIANT InvExactWithoutRounding
CHECK_DEADLOCK FALSE
