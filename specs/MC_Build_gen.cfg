CONSTANTS N = 2  D = 2  MaxExtra = 2
  ShapeIds = {"bent"}
  Vals = {3}  Sparse = {FALSE, TRUE}
INIT Init
NEXT NextGen
CONSTRAINT Emit
INVARIANT InvRefusal
INVARIANT InvNormalised
CHECK_DEADLOCK FALSE
