INIT Init
NEXT Next
INVARIANT IntInverse
INVARIANT U255Inverse
INVARIANT B128Inverse
INVARIANT KeyStep
CHECK_DEADLOCK FALSE
