------------------------------ MODULE MC_Codec ------------------------------
(* Design-level check of the codec specification itself: canonical encoders written
   from the same documents are inverted by Codec's decoders on whole small domains.
   This guards the oracle used by Trace_C15 / Trace_C02 against transcription slips. *)
EXTENDS Codec

VARIABLES kind, x
vars == <<kind, x>>

B2(v) == <<(v \div 256) % 256, v % 256>>
S16Bytes(v) == B2(IF v < 0 THEN v + 65536 ELSE v)
S32Bytes(v) == LET hi == FloorDiv(v, 65536) lo == v - hi * 65536
               IN S16Bytes(hi) \o B2(lo)

IntEncode(v, fmt) ==
  IF v >= -107 /\ v <= 107 THEN <<v + 139>>
  ELSE IF v >= 108 /\ v <= 1131 THEN <<((v - 108) \div 256) + 247, (v - 108) % 256>>
  ELSE IF v >= -1131 /\ v <= -108 THEN <<((-v - 108) \div 256) + 251, (-v - 108) % 256>>
  ELSE IF fmt \in {"cff", "t2"} /\ v >= -32768 /\ v <= 32767 THEN <<28>> \o S16Bytes(v)
  ELSE IF fmt = "cff" THEN <<29>> \o S32Bytes(v)
  ELSE <<255>> \o S32Bytes(v)

U255Encode(v) == IF v < 253 THEN <<v>> ELSE IF v < 506 THEN <<255, v - 253>>
                 ELSE IF v < 762 THEN <<254, v - 506>> ELSE <<253>> \o B2(v)

(* base 128 of a value given as limbs: shortest form *)
RECURSIVE Groups(_, _, _)
Groups(hi, lo, acc) ==   \* 7-bit groups, least significant first
  IF hi = 0 /\ lo < 128 THEN Append(acc, lo)
  ELSE LET g == lo % 128
           lo2 == (lo \div 128) + (hi % 128) * 512
           hi2 == hi \div 128
       IN Groups(hi2, lo2, Append(acc, g))
B128Encode(hi, lo) == LET g == Groups(hi, lo, <<>>) n == Len(g)
                      IN [i \in 1..n |-> g[n + 1 - i] + (IF i < n THEN 128 ELSE 0)]

Ints == (-1300..1300) \cup {32767, -32768, 32768, -32769, 65536, 2147483647, -2147483647, -2147483647 - 1}
Limb == {0, 1, 127, 128, 129, 255, 256, 16383, 16384, 32767, 32768, 65535}

Init == \/ kind \in {"cff", "t1", "t2"} /\ x \in Ints
        \/ kind = "u255" /\ x \in 0..65535
        \/ kind = "b128" /\ x \in Limb \X Limb
        \/ kind = "key" /\ x \in (0..65535) 
Next == UNCHANGED vars

IntInverse == kind \in {"cff", "t1", "t2"} =>
    LET b == IntEncode(x, kind) r == OperandInt(b, kind)
    IN (kind = "t2" /\ (x > 32767 \/ x < -32768)) \/ r = <<TRUE, "int", x, Len(b)>>
U255Inverse == kind = "u255" => LET b == U255Encode(x) IN U255Decode(b) = <<TRUE, x, Len(b)>>
B128Inverse == kind = "b128" => LET b == B128Encode(x[1], x[2]) IN Base128Decode(b) = <<TRUE, x[1], x[2], Len(b)>>
(* the 16-bit key update never leaves 0..65535 and equals the unreduced formula where that fits *)
KeyStep == kind = "key" => \A c \in {0, 1, 127, 128, 255} :
              LET k == NextKey(c, x) IN k \in 0..65535 /\
                 (((c + x) % 65536) <= 40000 => k = (((c + x) % 65536) * 52845 + 22719) % 65536)
ASSUME CalendarSane == Days1904(1904, 1, 1) = 0 /\ Days1904(1970, 1, 1) = 24107 /\ Weekday1904(24107) = 3
                /\ Days1904(2000, 3, 1) - Days1904(2000, 2, 28) = 2 /\ Days1904(1900 + 200, 3, 1) - Days1904(2100, 2, 28) = 1
ASSUME FixedSane == DecFixed(FALSE, 0, 5, 1, 14) = 8192 /\ DecFixed(TRUE, 1, 0, 1, 14) = -16384
             /\ FixedStrOK(8192, 14, <<48, 46, 53>>) = "ok" /\ FixedStrOK(8192, 14, <<48, 46, 53, 48>>) = "not-shortest"
=============================================================================
