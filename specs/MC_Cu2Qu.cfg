CONSTANTS
  LMax = 3
  MaxN = 4
SPECIFICATION Spec
INVARIANT InvSameN
INVARIANT InvFitting
INVARIANT InvMinimality
INVARIANT InvRaiseNotWorse
INVARIANT InvProgress
INVARIANT InvBound
INVARIANT InvResult
INVARIANT InvAQFalse
INVARIANT InvSingle
INVARIANT Emit
INVARIANT LawElevate
INVARIANT LawDisplaced
INVARIANT LawSplit
INVARIANT LawHalves
INVARIANT LawNear
PROPERTY Termination
CHECK_DEADLOCK FALSE
