------------------------------ MODULE MC_Cu2Qu ------------------------------
(* Exhaustive design-level check of Cu2Qu:
   (a) the search protocol for EVERY fits table with L in 1..LMax curves and MaxN
       columns (non-monotone tables included): SameN, Fitting, Minimality,
       RaiseNotWorse, Progress, termination within the step bound; the one-curve loop of
       curve_to_quadratic agrees with the protocol at L = 1.  Each terminated
       behaviour is exported (GEN) and replayed by the harness into the real loop.
   (b) internal laws of the geometric oracle on a small lattice: a quadratic and its
       exact degree elevation are accepted and certified at the smallest tolerance; a
       displaced off-curve point is rejected; subdivision reproduces end points.      *)
EXTENDS Cu2Qu, TLC, Json

CONSTANTS LMax, MaxN
Lat == {<<0, 0>>, <<1, 0>>, <<2, 1>>, <<-1, 2>>}

VARIABLES mode, L, fits, st, steps, geo
vars == <<mode, L, fits, st, steps, geo>>

Init ==
  \/ /\ mode = "proto"
     /\ L \in 1..LMax
     /\ fits \in [1..L -> [1..MaxN -> BOOLEAN]]
     /\ st = PInit(L)
     /\ steps = 0
     /\ geo = <<>>
  \/ /\ mode = "geo0"          \* laws are evaluated after one step (initial states are single-threaded)
     /\ L = 0 /\ fits = <<>> /\ st = PInit(0) /\ steps = 0
     /\ \E a \in Lat, b \in Lat, c \in Lat, d \in Lat : geo = <<a, b, c, d>>

Next ==
  \/ /\ mode = "proto" /\ st.pc = "run"
     /\ st' = PStep(st, fits, L, MaxN)
     /\ steps' = steps + 1
     /\ UNCHANGED <<mode, L, fits, geo>>
  \/ /\ mode = "geo0" /\ mode' = "geo" /\ UNCHANGED <<L, fits, st, steps, geo>>

Spec == Init /\ [][Next]_vars /\ WF_vars(Next)

(* ---- (a) ---- *)
P == mode = "proto"
InvSameN == P => SameN(st, L)
InvFitting == P => Fitting(st, fits, L)
InvMinimality == P => Minimality(st, fits, L)
InvRaiseNotWorse == P => RaiseNotWorse(st, fits, L, MaxN)
InvProgress == P => Progress(st, fits, L, MaxN)
(* every iteration either advances i (at most L times in a row) or bumps n *)
InvBound == P => steps <= (L + 1) * MaxN
(* the result is a function of the table: least common n, or raise *)
InvResult == (P /\ st.pc # "run") =>
   LET S == CommonNs(fits, L, MaxN) IN
   IF S = {} THEN st.pc = "raise" ELSE st.pc = "ret" /\ st.n \in S /\ \A m \in S : st.n <= m
(* all_quadratic = False is the sub-family of tables whose column 2 is all TRUE *)
InvAQFalse == (P /\ MaxN >= 2 /\ st.pc # "run" /\ \A c \in 1..L : fits[c][2]) => st.pc = "ret" /\ st.n <= 2
(* curve_to_quadratic's plain for-loop is the L = 1 instance *)
InvSingle == (P /\ L = 1 /\ st.pc # "run") =>
   LET r == SingleRun(fits[1], 1, MaxN) IN IF r = 0 THEN st.pc = "raise" ELSE st.pc = "ret" /\ st.n = r
(* per-curve minimality is NOT promised: witnessed by the existence of such a table *)
Termination == P => <>(st.pc # "run")

Emit == (P /\ st.pc # "run") =>
   PrintT(<<"GEN", ToJson([L |-> L, fits |-> [c \in 1..L |-> [n \in 1..MaxN |-> IF fits[c][n] THEN 1 ELSE 0]],
                            pc |-> st.pc, n |-> st.n])>>)

(* ---- (b) ---- *)
G == mode = "geo"
SC == 3 * 512                       \* lattice step in h (multiple of 3: elevation is exact)
Pt(p) == <<SC * p[1], SC * p[2]>>
Elev(q) == <<q[1], <<(q[1][1] + 2 * q[2][1]) \div 3, (q[1][2] + 2 * q[2][2]) \div 3>>,
             <<(q[3][1] + 2 * q[2][1]) \div 3, (q[3][2] + 2 * q[2][2]) \div 3>>, q[3]>>
GQ == <<Pt(geo[1]), Pt(geo[2]), Pt(geo[3])>>
GC == <<Pt(geo[1]), Pt(geo[2]), Pt(geo[3]), Pt(geo[4])>>
(* exact elevation: accepted and certified on the continuum at tolerance 1 h + slack *)
LawElevate == G => /\ C2QBad(Elev(GQ), GQ, 0, 0, 8) = {}
                   /\ C2QCertified(Elev(GQ), GQ, 0, 0, 8)
(* off-curve point displaced by d = 4*(tol+e)+8: the point at t = 1/2 moves d/2 > tol+e, so the
   equal-parameter distance is certainly exceeded and the certificate must fail; when the
   quadratic lies on a horizontal line and the displacement is vertical, the displaced mid
   point is exactly d/2 from that line: a certain Hausdorff violation that must be rejected *)
LawDisplaced == G =>
   LET tol == 64 e == 2 + 1 + FLT d == 4 * (tol + e) + 8
       Qx == <<GQ[1], <<GQ[2][1] + d, GQ[2][2]>>, GQ[3]>>
       Qy == <<GQ[1], <<GQ[2][1], GQ[2][2] + d>>, GQ[3]>>
       flat == geo[1][2] = geo[3][2] /\ geo[1][2] = geo[2][2]
   IN /\ C2QParamFar(Elev(GQ), Qx, 0, 0, tol) > 0 /\ ~C2QCertified(Elev(GQ), Qx, 0, 0, tol)
      /\ flat => \E b \in C2QBad(Elev(GQ), Qy, 0, 0, tol) : b[3] = "spline-point-off-cubic"
(* subdivision: pieces chain, keep the end points, and evaluation agrees with splitting *)
LawSplit == G => \A n \in {2, 3, 5} :
   LET cs == SplitN(GC, n) IN
   /\ cs[1][1] = GC[1] /\ cs[n][4] = GC[4] /\ Chained(cs)
   /\ \A j \in 1..n : LET p == DeCast(GC, 16 * (j - 1) + 8, 16 * n) q == DeCast(cs[j], 8, 16)
                      IN Abs(p[1] - q[1]) <= 4 /\ Abs(p[2] - q[2]) <= 4
LawHalves == G => LET h == Halves(GC) s == SplitN(GC, 2) IN
   \A j \in 1..2 : \A i \in 1..4 : Abs(h[j][i][1] - s[j][i][1]) <= 2 /\ Abs(h[j][i][2] - s[j][i][2]) <= 2
(* a point 3*tol away from the cubic's control box is certainly far; a curve point is near *)
LawNear == G => LET tol == 100 p == <<CoordMax(GC, 1) + 3 * tol, GC[1][2]>>
   IN ~NearPath(p, <<GC>>, 2, tol) /\ NearPath(DeCast(GC, 5, 16), <<GC>>, 2, tol)
=============================================================================
