CONSTANTS
  MaxAbsent = 1
  MaxPresent = 1
INIT Init
NEXT Next
CONSTRAINT Emit
CHECK_DEADLOCK FALSE
