CONSTANTS
  MaxAbsent = 1
  MaxPresent = 2
INIT Init
NEXT Next
CONSTRAINT Emit
CHECK_DEADLOCK FALSE
