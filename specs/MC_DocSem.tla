----------------------------- MODULE MC_DocSem -----------------------------
(* Enumerates the optional-field lattice of DocSem (kind x set of present attributes x
   value rotation x requested format) and prints every point as <<"GEN", json>>; checks the
   laws of the tree algebra on a small universe of trees (Diff is empty exactly on equal
   trees, and a non-empty Diff never claims a difference between equal subtrees).      *)
EXTENDS DocSem, TLC, Json

CONSTANTS MaxAbsent, MaxPresent     \* quick tier: near-empty and near-full corners; thorough: everything

VARIABLES kind, present, rot, ver, phase
vars == <<kind, present, rot, ver, phase>>

Init == kind \in Kinds /\ present = {} /\ rot = 0 /\ ver = 4 /\ phase = "kind"
Next == /\ phase = "kind" /\ phase' = "point" /\ UNCHANGED kind
        /\ present' \in {S \in SUBSET Attrs(kind) : (Cardinality(S) <= MaxPresent \/ Cardinality(Attrs(kind) \ S) <= MaxAbsent) }
        /\ rot' \in 0..2 /\ ver' \in Versions(kind)
        /\ CompatibleVer(kind, present', ver')

Emit == phase = "point" => PrintT(<<"GEN", ToJson([kind |-> kind, present |-> present, rot |-> rot, ver |-> ver,
                                                   major |-> EffectiveMajor(kind, present, ver),
                                                   minor |-> EffectiveMinor(kind, present, ver)])>>)

(* a small universe of trees to check Diff against equality *)
Leaf == { <<"N">>, <<"B", 0>>, <<"B", 1>>, <<"R", 0, <<>>, 0>>, <<"R", 1, <<1>>, 0>>, <<"R", -1, <<5>>, -2>>, <<"S", <<>>>>, <<"S", <<97>>>>, <<"S", <<97, 98>>>> }
T1 == Leaf \cup { <<"L", <<>>>> } \cup { <<"L", <<x>>>> : x \in Leaf } \cup { <<"L", <<x, y>>>> : x \in {<<"N">>, <<"B", 1>>}, y \in {<<"N">>, <<"S", <<97>>>>} }
        \cup { <<"D", <<>>>> } \cup { <<"D", << <<<<97>>, x>> >>>> : x \in Leaf } \cup { <<"D", << <<<<97>>, x>>, <<<<98>>, y>> >>>> : x \in {<<"N">>, <<"B", 1>>}, y \in {<<"N">>, <<"L", <<>>>>} }
T2 == T1 \cup { <<"L", <<x, <<"D", << <<<<120>>, y>> >>>> >>>> : x \in {<<"N">>}, y \in T1 }
ASSUME TreeLaws == /\ \A t \in T2 : WellFormed(t)
                   /\ \A a \in T2 : \A b \in T2 : (Diff(a, b) = <<>>) <=> (a = b)
                   /\ ~WellFormed(<<"D", << <<<<98>>, <<"N">>>>, <<<<97>>, <<"N">>>> >>>>)
                   /\ ~WellFormed(<<"R", 1, <<2>>, 0>>) /\ ~WellFormed(<<"R", 0, <<1>>, 0>>)
                   /\ Diff(<<"L", <<<<"N">>, <<"D", << <<<<120>>, <<"B", 0>>>> >>>> >>>>, <<"L", <<<<"N">>, <<"D", << <<<<120>>, <<"B", 1>>>> >>>> >>>>) = <<2, 1, "value">>
ASSUME UpLaws ==
  LET g == << <<MMK_L \o <<65>>, <<<<97>>>>>>, <<<<66>>, <<<<98>>>>>>, <<<<67>>, <<<<99>>>>>> >>
      k == << <<MMK_L \o <<65>>, <<66>>, 1>>, <<<<120>>, <<67>>, 2>>, <<<<66>>, <<120>>, 3>> >>
  IN /\ UpDefined(g, k, {<<120>>})
     /\ UpKerning(g, k, {<<120>>}) = { <<KERN1 \o <<65>>, KERN2 \o <<66>>, 1>>, <<<<120>>, KERN2 \o <<67>>, 2>>, <<KERN1 \o <<66>>, <<120>>, 3>> }
     /\ Cardinality(UpGroups(g, k, {<<120>>})) = 7
     /\ ~UpDefined(g \o << <<KERN1 \o <<65>>, <<>>>> >>, k, {})
=============================================================================
