CONSTANTS
  MaxAbsent = 2
  MaxPresent = 3
INIT Init
NEXT Next
CONSTRAINT Emit
CHECK_DEADLOCK FALSE
