CONSTANTS
  MaxAbsent = 99
  MaxPresent = 2
INIT Init
NEXT Next
CONSTRAINT Emit
CHECK_DEADLOCK FALSE
