------------------------------ MODULE MC_FeaSem ------------------------------
(* Program-builder machine for the feature-file language of FeaSem: its reachable states are the
   generated programs (glyphs a..e = 1..5, marks m n = 6 7).  Used twice:
     MC_FeaSem.cfg      exhaustive breadth-first enumeration of small programs,
     MC_FeaSem_sim.cfg  seeded random walks (-simulate) through larger ones,
   both checking the internal laws of FeaSem/OTLSem below on every complete program and printing each
   complete program once as <<"GEN", ToJson(program)>> for the harness (BUILDING.md pattern).

   A program = preamble (fixed by the family chosen in Init) \o completed top-level blocks.
   Families keep HarfBuzz inside plain OpenType (DESIGN 9.5):
     plain   no GDEF: substitutions, single / pair positioning, contextual rules
     curs    no GDEF: cursive attachment (and single positioning), lookupflag RightToLeft
     gdef    explicit GDEF classes + mark classes: as plain, plus lookupflags
     attach  explicit GDEF classes + mark classes: mark-to-base / -ligature / -mark only              *)
EXTENDS FeaSem, Json, TLC, IOUtils

CONSTANTS MaxBlocks, MaxBody, PoolCap, Fams, Lsvs, Nms, Tags, WithNested
VARIABLES pre, blocks, cur, kind
vars == <<pre, blocks, cur, kind>>

Gl(x) == [t |-> "g", v |-> <<x>>]
Cl(s) == [t |-> "c", v |-> s]
Rf(n) == [t |-> "r", v |-> <<n>>]
VN(x) == [t |-> "n", v |-> <<x>>]
VV(a, b, c, d) == [t |-> "v", v |-> <<a, b, c, d>>]
VR(n) == [t |-> "r", v |-> <<n>>]
V0 == [t |-> "0", v |-> <<>>]
In(g) == [g |-> g, ref |-> <<>>]
IR(g, r) == [g |-> g, ref |-> r]
IV(g, v) == [g |-> g, ref |-> <<>>, v |-> v]
IVR(g, r) == [g |-> g, ref |-> r, v |-> V0]
An(x, y, m) == [a |-> <<x, y>>, m |-> m]

Preamble(p) ==
  (CASE p.lsv = 0 -> <<>>
     [] p.lsv = 1 -> <<[k |-> "ls", s |-> "DFLT", l |-> "dflt"], [k |-> "ls", s |-> "latn", l |-> "dflt"]>>
     [] p.lsv = 2 -> <<[k |-> "ls", s |-> "DFLT", l |-> "dflt"], [k |-> "ls", s |-> "latn", l |-> "dflt"],
                       [k |-> "ls", s |-> "latn", l |-> "TRK "]>>)
  \o (IF p.nm THEN <<[k |-> "cls", n |-> 1, gs |-> <<1, 2>>], [k |-> "cls", n |-> 2, gs |-> <<3, 4>>],
                     [k |-> "vr", n |-> 1, v |-> <<1, 2, 3, 4>>]>> ELSE <<>>)
  \o (IF p.fam \in {"gdef", "attach"}
      THEN <<[k |-> "gdef", b |-> <<1, 2, 3, 4>>, l |-> <<5>>, m |-> <<6, 7>>],
             [k |-> "mcls", n |-> 1, gs |-> <<6>>, a |-> <<10, 20>>], [k |-> "mcls", n |-> 2, gs |-> <<7>>, a |-> <<30, 40>>]>>
      ELSE <<>>)

CurBlock == IF cur.k = "none" THEN <<>> ELSE <<cur>>
Prog == Preamble(pre) \o blocks \o CurBlock
Complete == cur.k = "none" /\ \E i \in 1..Len(blocks) : blocks[i].k = "feature"

-----------------------------------------------------------------------------
(* rule pools: the grammar instantiated over the small alphabet *)
rSub(i, o) == [k |-> "sub", i |-> i, o |-> o]
SubPool(nm, gd) ==
  ({rSub(<<Gl(x)>>, <<Gl(y)>>) : x \in {1, 2, 3}, y \in {2, 3, 4}} \ {rSub(<<Gl(x)>>, <<Gl(x)>>) : x \in 1..4})
  \cup {rSub(<<Cl(<<1, 2>>)>>, <<Cl(<<3, 4>>)>>), rSub(<<Cl(<<1, 2>>)>>, <<Gl(5)>>), rSub(<<Cl(<<3, 2>>)>>, <<Cl(<<1, 5>>)>>)}
  \cup (IF nm THEN {rSub(<<Rf(1)>>, <<Rf(2)>>), rSub(<<Rf(2)>>, <<Gl(5)>>)} ELSE {})
  \cup {rSub(<<Gl(1)>>, <<Gl(2), Gl(3)>>), rSub(<<Gl(2)>>, <<Gl(3), Gl(3), Gl(1)>>), rSub(<<Gl(3)>>, <<Gl(1), Gl(2)>>)}
  \cup {rSub(<<Gl(1), Gl(2)>>, <<Gl(5)>>), rSub(<<Gl(1), Gl(2), Gl(3)>>, <<Gl(4)>>), rSub(<<Gl(2), Gl(3)>>, <<Gl(1)>>),
        rSub(<<Cl(<<1, 2>>), Gl(3)>>, <<Gl(5)>>), rSub(<<Gl(1), Gl(1)>>, <<Gl(2)>>), rSub(<<Gl(3), Gl(1), Gl(2)>>, <<Gl(5)>>)}
  \cup (IF gd THEN {rSub(<<Gl(1), Gl(6)>>, <<Gl(4)>>), rSub(<<Gl(6)>>, <<Gl(7)>>), rSub(<<Gl(6), Gl(7)>>, <<Gl(6)>>)} ELSE {})
AltPool(nm) ==
  {[k |-> "alt", i |-> Gl(1), o |-> Cl(<<2, 3, 4>>)], [k |-> "alt", i |-> Gl(2), o |-> Cl(<<3, 1>>)]}
  \cup (IF nm THEN {[k |-> "alt", i |-> Gl(3), o |-> Rf(1)]} ELSE {})
rCSub(p, i, s, by) == [k |-> "csub", pre |-> p, inp |-> i, suf |-> s, by |-> by]
CSubPool(names) ==
  {rCSub(<<Gl(1)>>, <<In(Gl(2))>>, <<>>, <<Gl(4)>>), rCSub(<<>>, <<In(Gl(1))>>, <<Gl(2)>>, <<Gl(3)>>),
   rCSub(<<>>, <<In(Cl(<<1, 2>>))>>, <<Gl(3)>>, <<Gl(5)>>), rCSub(<<Gl(1)>>, <<In(Gl(2))>>, <<Gl(3)>>, <<Gl(4)>>),
   rCSub(<<Cl(<<1, 2>>)>>, <<In(Cl(<<3, 4>>))>>, <<>>, <<Cl(<<1, 2>>)>>), rCSub(<<>>, <<In(Gl(1))>>, <<>>, <<Gl(2)>>),
   rCSub(<<>>, <<In(Gl(1)), In(Gl(2))>>, <<Gl(3)>>, <<Gl(5)>>), rCSub(<<Gl(3)>>, <<In(Gl(1))>>, <<>>, <<Gl(2), Gl(2)>>),
   rCSub(<<Gl(1), Gl(2)>>, <<In(Gl(3))>>, <<>>, <<Gl(5)>>), rCSub(<<>>, <<In(Gl(1))>>, <<Gl(2), Gl(3)>>, <<Gl(4)>>),
   rCSub(<<Gl(2)>>, <<In(Gl(2))>>, <<>>, <<Gl(1)>>)}
  \cup UNION {{rCSub(<<>>, <<IR(Gl(1), <<n>>)>>, <<Gl(2)>>, <<>>), rCSub(<<>>, <<IR(Gl(1), <<n>>), IR(Gl(2), <<n>>)>>, <<>>, <<>>),
               rCSub(<<Gl(3)>>, <<IR(Cl(<<1, 2>>), <<>>), IR(Gl(3), <<n>>)>>, <<>>, <<>>),
               rCSub(<<>>, <<IR(Gl(2), <<n, n>>)>>, <<>>, <<>>), rCSub(<<>>, <<IR(Gl(1), <<>>), IR(Gl(2), <<n>>), IR(Gl(3), <<n>>)>>, <<>>, <<>>)} : n \in names}
ISubPool == {[k |-> "isub", pre |-> <<Gl(1)>>, inp |-> <<Gl(2)>>, suf |-> <<>>], [k |-> "isub", pre |-> <<>>, inp |-> <<Gl(1)>>, suf |-> <<Gl(3)>>],
             [k |-> "isub", pre |-> <<>>, inp |-> <<Cl(<<1, 2>>)>>, suf |-> <<Gl(2)>>]}
rRSub(p, i, s, o) == [k |-> "rsub", pre |-> p, i |-> i, suf |-> s, o |-> o]
RSubPool == {rRSub(<<Gl(1)>>, Gl(2), <<>>, Gl(3)), rRSub(<<>>, Gl(2), <<Gl(3)>>, Gl(4)), rRSub(<<>>, Cl(<<1, 2>>), <<Gl(3)>>, Cl(<<4, 5>>)),
             rRSub(<<Gl(2)>>, Gl(2), <<>>, Gl(1)), rRSub(<<>>, Gl(1), <<Gl(1)>>, Gl(2))}
rPos1(g, v) == [k |-> "pos1", g |-> g, v |-> v]
Pos1Pool(nm, gd) ==
  {rPos1(Gl(1), VN(10)), rPos1(Gl(2), VV(1, 2, 3, 4)), rPos1(Cl(<<1, 2>>), VN(-5)), rPos1(Gl(3), VV(0, -7, 0, 0)), rPos1(Gl(2), VV(-4, 0, 9, 0))}
  \cup (IF nm THEN {rPos1(Rf(1), VR(1)), rPos1(Gl(3), VR(1))} ELSE {})
  \cup (IF gd THEN {rPos1(Gl(6), VN(7)), rPos1(Gl(7), VV(3, 4, 0, 0))} ELSE {})
rPos2(g1, g2, v1, v2, en) == [k |-> "pos2", g1 |-> g1, g2 |-> g2, v1 |-> v1, v2 |-> v2, enum |-> en]
Pos2Pool(nm, gd) ==
  {rPos2(Gl(1), Gl(2), VN(5), V0, FALSE), rPos2(Gl(1), Gl(2), VN(0), V0, FALSE), rPos2(Gl(2), Gl(3), VN(-3), V0, FALSE),
   rPos2(Gl(1), Gl(2), VV(1, 0, 2, 0), VV(3, 0, 4, 0), FALSE), rPos2(Gl(2), Gl(3), VV(0, 0, 6, 0), VV(0, 0, 0, 0), FALSE),
   rPos2(Gl(2), Gl(1), VV(0, 5, 0, 0), V0, FALSE),
   rPos2(Cl(<<1, 2>>), Cl(<<3, 4>>), VN(10), V0, FALSE), rPos2(Cl(<<1>>), Cl(<<5>>), VN(20), V0, FALSE),
   rPos2(Cl(<<2, 3>>), Cl(<<4, 5>>), VN(7), V0, FALSE), rPos2(Cl(<<1, 2>>), Cl(<<3, 4>>), VV(1, 0, 0, 0), VV(0, 0, 2, 0), FALSE),
   rPos2(Gl(1), Cl(<<2, 3>>), VN(8), V0, FALSE), rPos2(Cl(<<1, 2>>), Cl(<<1, 2>>), VN(-6), V0, FALSE), rPos2(Cl(<<3>>), Cl(<<3, 4>>), VN(12), V0, FALSE),
   rPos2(Cl(<<1, 2>>), Gl(3), VN(3), V0, TRUE), rPos2(Gl(1), Cl(<<2, 3>>), VN(4), V0, TRUE)}
  \cup (IF nm THEN {rPos2(Rf(1), Rf(2), VN(9), V0, FALSE), rPos2(Rf(1), Gl(5), VR(1), V0, TRUE)} ELSE {})
  \cup (IF gd THEN {rPos2(Gl(1), Gl(6), VN(11), V0, FALSE), rPos2(Cl(<<1, 6>>), Cl(<<2, 7>>), VN(13), V0, FALSE)} ELSE {})
rCurs(g, en, ex) == [k |-> "curs", g |-> g, en |-> en, ex |-> ex]
CursPool == {rCurs(Gl(1), <<10, 20>>, <<400, 50>>), rCurs(Gl(2), <<30, 40>>, <<>>), rCurs(Gl(3), <<>>, <<450, 60>>),
             rCurs(Cl(<<4, 5>>), <<5, 6>>, <<470, 8>>), rCurs(Gl(2), <<-15, 0>>, <<380, -20>>)}
MkbPool == {[k |-> "mkb", g |-> Gl(1), as |-> <<An(100, 200, 1)>>], [k |-> "mkb", g |-> Cl(<<1, 2>>), as |-> <<An(100, 200, 1), An(300, 400, 2)>>],
            [k |-> "mkb", g |-> Gl(3), as |-> <<An(1, 2, 2)>>], [k |-> "mkb", g |-> Gl(5), as |-> <<An(250, 350, 1)>>]}
MkmPool == {[k |-> "mkm", g |-> Gl(6), as |-> <<An(5, 6, 1)>>], [k |-> "mkm", g |-> Gl(7), as |-> <<An(7, 8, 1), An(9, 10, 2)>>],
            [k |-> "mkm", g |-> Cl(<<6, 7>>), as |-> <<An(11, 12, 2)>>]}
MklPool == {[k |-> "mkl", g |-> Gl(5), comps |-> << <<An(100, 200, 1)>>, <<An(300, 400, 1), An(310, 410, 2)>> >>],
            [k |-> "mkl", g |-> Gl(5), comps |-> << <<An(120, 220, 2)>>, <<>> >>],
            [k |-> "mkl", g |-> Cl(<<4, 5>>), comps |-> << <<An(50, 60, 1)>> >>]}
rCPos(p, i, s) == [k |-> "cpos", pre |-> p, inp |-> i, suf |-> s]
CPosPool(names) ==
  {rCPos(<<>>, <<IV(Gl(1), VN(10))>>, <<Gl(2)>>), rCPos(<<Gl(1)>>, <<IV(Gl(2), VV(1, 2, 3, 4))>>, <<>>),
   rCPos(<<>>, <<IV(Gl(1), VN(10)), IV(Gl(2), VN(20))>>, <<Gl(3)>>), rCPos(<<>>, <<IV(Cl(<<1, 2>>), VN(5)), IV(Gl(3), V0)>>, <<>>),
   rCPos(<<Gl(2)>>, <<IV(Gl(2), VN(-8))>>, <<>>)}
  \cup UNION {{rCPos(<<>>, <<IVR(Cl(<<1, 2>>), <<n>>)>>, <<Gl(4)>>), rCPos(<<Gl(3)>>, <<IVR(Gl(1), <<n>>), IVR(Gl(2), <<n>>)>>, <<>>)} : n \in names}
IPosPool == {[k |-> "ipos", pre |-> <<Gl(1)>>, inp |-> <<Gl(2)>>, suf |-> <<>>], [k |-> "ipos", pre |-> <<>>, inp |-> <<Gl(1)>>, suf |-> <<Gl(3)>>]}
rFlag(f, mf, ma) == [k |-> "flag", f |-> f, mf |-> mf, ma |-> ma]
FlagPool(fam) ==
  CASE fam = "gdef" -> {rFlag(8, <<>>, <<>>), rFlag(2, <<>>, <<>>), rFlag(4, <<>>, <<>>), rFlag(0, <<>>, <<>>), rFlag(12, <<>>, <<>>),
                        rFlag(0, <<Cl(<<6>>)>>, <<>>), rFlag(0, <<>>, <<Cl(<<7>>)>>)}
    [] fam = "attach" -> {rFlag(0, <<Cl(<<6>>)>>, <<>>), rFlag(0, <<>>, <<Cl(<<7>>)>>), rFlag(0, <<>>, <<>>)}
    [] fam = "curs" -> {rFlag(1, <<>>, <<>>), rFlag(0, <<>>, <<>>)}
    [] OTHER -> {}

KindsOf(fam) ==
  CASE fam = "plain" -> {"sub", "alt", "csub", "isub", "rsub", "pos1", "pos2", "cpos", "ipos"}
    [] fam = "gdef" -> {"sub", "alt", "csub", "isub", "rsub", "pos1", "pos2", "cpos", "ipos"}
    [] fam = "curs" -> {"curs", "pos1"}
    [] fam = "attach" -> {"mkb", "mkm", "mkl"}

(* named stand-alone lookups defined so far, by table *)
NamesOf(S, tb) == {S.named[i][1] : i \in {i \in 1..Len(S.named) : S.lks[S.named[i][2]].tb = tb}}
                  \cap {blocks[i].n : i \in {i \in 1..Len(blocks) : blocks[i].k = "lookup"}}     \* closed stand-alone blocks only
RECURSIVE Cap(_, _)
Cap(S, k) == IF k = 0 \/ S = {} THEN {} ELSE LET x == CHOOSE x \in S : TRUE IN {x} \cup Cap(S \ {x}, k - 1)
PoolAll(kd, S) ==
  LET nm == pre.nm
      gd == pre.fam = "gdef"
  IN CASE kd = "sub" -> SubPool(nm, gd)
       [] kd = "alt" -> AltPool(nm)
       [] kd = "csub" -> CSubPool(NamesOf(S, "gsub"))
       [] kd = "isub" -> ISubPool
       [] kd = "rsub" -> RSubPool
       [] kd = "pos1" -> Pos1Pool(nm, gd)
       [] kd = "pos2" -> Pos2Pool(nm, gd)
       [] kd = "curs" -> CursPool
       [] kd = "mkb" -> MkbPool
       [] kd = "mkm" -> MkmPool
       [] kd = "mkl" -> MklPool
       [] kd = "cpos" -> CPosPool(NamesOf(S, "gpos"))
       [] kd = "ipos" -> IPosPool

------------------------------------------------------------------------Pool(kd, S) == Cap(PoolAll(kd, S), PoolCap)

-----
(* validity: the builder only emits programs the feature file specification accepts *)
NoDupBy(seq, Key(_)) == \A i, j \in 1..Len(seq) : i < j => Key(seq[i]) # Key(seq[j])
ValidLk(lk) ==
  CASE lk.kind = "any" -> NoDupBy(lk.rules, LAMBDA e : e[1])
    [] lk.kind \in {"alt", "pos1", "curs"} -> NoDupBy(lk.rules, LAMBDA e : e[1])
    [] lk.kind = "pos2" -> LET cl == SelectSeq(lk.rules, LAMBDA e : e.t = "c") IN NoDupBy(cl, LAMBDA e : <<e.s1, e.s2>>)
    [] lk.kind \in {"mkb", "mkm", "mkl"} ->
         LET ms == Flatten([q \in 1..Len(lk.rules) |-> lk.rules[q].marks])
         IN /\ \A i, j \in 1..Len(ms) : ms[i][1] = ms[j][1] => ms[i][2] = ms[j][2]      \* a mark has one class per lookup
            /\ NoDupBy(Flatten([q \in 1..Len(lk.rules) |-> lk.rules[q].gs]), LAMBDA g : g)
    [] OTHER -> TRUE
ValidS(S) ==
  /\ \A i \in 1..Len(S.lks) : ValidLk(S.lks[i])
  /\ \A n \in 1..4 : Cardinality({i \in 1..Len(S.lks) : S.lks[i].blk = n /\ ~S.lks[i].nested}) <= 1   \* one lookup per named block
  /\ \A i, j \in 1..Len(S.lks) : (S.lks[i].kind = "curs" /\ S.lks[j].kind = "curs") => S.lks[i].flag = S.lks[j].flag
       \* one attachment direction per program: HarfBuzz re-roots cursive chains when directions are mixed
  /\ \A i \in 1..Len(S.lks) : S.lks[i].kind = "ctx" => \A q \in 1..Len(S.lks[i].rules) :
         \A z \in 1..Len(S.lks[i].rules[q].n) : S.lks[i].rules[q].n[z][2] \in 1..Len(S.lks)
Valid(p) == ValidS(Interp(p))

IsRule(st) == st.k \notin {"flag", "script", "lang", "ref", "lookup", "subtable"}
BodyHas(body, ks) == \E i \in 1..Len(body) : body[i].k \in ks
LastFlag(body) ==      \* the flag statement in force at the end of a body, as a comparable value
  LET idx == {i \in 1..Len(body) : body[i].k = "flag"} IN
  IF idx = {} THEN rFlag(0, <<>>, <<>>) ELSE body[CHOOSE i \in idx : \A j \in idx : j <= i]
UsedNames == {blocks[i].n : i \in {i \in 1..Len(blocks) : blocks[i].k = "lookup"}}
              \cup UNION {{blocks[i].body[j].n : j \in {j \in 1..Len(blocks[i].body) : blocks[i].body[j].k = "lookup"}} :
                             i \in {i \in 1..Len(blocks) : blocks[i].k = "feature"}}
              \cup (IF cur.k = "feature" THEN {cur.body[j].n : j \in {j \in 1..Len(cur.body) : cur.body[j].k = "lookup"}} ELSE {})
              \cup (IF cur.k = "lookup" THEN {cur.n} ELSE {})

-----------------------------------------------------------------------------
(* simulation is split into NSlices independent single-worker runs (deterministic for a seed): slice i
   starts from every NSlices-th preamble *)
EnvNat(name, dflt) == IF name \in DOMAIN IOEnv THEN atoi(IOEnv[name]) ELSE dflt
Slice == EnvNat("C11_SLICE", 0)
NSlices == EnvNat("C11_NSLICES", 1)
FamNo(f) == CASE f = "plain" -> 0 [] f = "gdef" -> 1 [] f = "curs" -> 2 [] f = "attach" -> 3
PreNo(p) == FamNo(p.fam) + 4 * p.lsv + 12 * (IF p.nm THEN 1 ELSE 0)
Init == /\ pre \in [fam : Fams, lsv : Lsvs, nm : Nms]
        /\ PreNo(pre) % NSlices = Slice
        /\ blocks = <<>> /\ cur = [k |-> "none"] /\ kind = ""

Open == /\ cur.k = "none" /\ kind = "" /\ Len(blocks) < MaxBlocks
        /\ \/ \E t \in Tags : /\ ~(\E i \in 1..Len(blocks) : blocks[i].k = "feature" /\ blocks[i].t = t /\ BodyHas(blocks[i].body, {"script", "lang"}))
                             /\ cur' = [k |-> "feature", t |-> t, body |-> <<>>]
           \/ \E n \in (1..2) \ UsedNames : cur' = [k |-> "lookup", n |-> n, body |-> <<>>]
        /\ UNCHANGED <<pre, blocks, kind>>

Close == /\ cur.k # "none" /\ kind = ""
         /\ (BodyHas(cur.body, {"ref", "lookup"}) \/ \E i \in 1..Len(cur.body) : IsRule(cur.body[i]))
         /\ blocks' = Append(blocks, cur) /\ cur' = [k |-> "none"]
         /\ UNCHANGED <<pre, kind>>

NestKinds == {"Nsub", "Nalt", "Nrsub", "Npos1", "Npos2", "Ncurs", "Nmkb", "Nmkm", "Nmkl"}
UnN(kd) == CASE kd = "Nsub" -> "sub" [] kd = "Nalt" -> "alt" [] kd = "Nrsub" -> "rsub" [] kd = "Npos1" -> "pos1" [] kd = "Npos2" -> "pos2"
             [] kd = "Ncurs" -> "curs" [] kd = "Nmkb" -> "mkb" [] kd = "Nmkm" -> "mkm" [] kd = "Nmkl" -> "mkl"
Room == cur.k # "none" /\ Len(cur.body) < MaxBody
ChooseKind == /\ Room /\ kind = ""
              /\ \E kd \in KindsOf(pre.fam) :
                    /\ (cur.k = "lookup" /\ \E i \in 1..Len(cur.body) : IsRule(cur.body[i]))
                          => (\E i \in 1..Len(cur.body) : cur.body[i].k = kd)       \* named block: one rule kind
                    /\ kind' = kd
              /\ UNCHANGED <<pre, blocks, cur>>
AddRule == /\ kind # "" /\ kind \notin NestKinds /\ cur.k # "none"
           /\ \E r \in Pool(kind, Interp(Prog)) :
                 LET c2 == [cur EXCEPT !.body = Append(@, r)] IN
                 /\ Valid(Preamble(pre) \o blocks \o <<c2>>)
                 /\ cur' = c2
           /\ kind' = "" /\ UNCHANGED <<pre, blocks>>
(* lookupflag only where its scope is unambiguous: not restated, not next to script/language, in a named
   block only as its first statement *)
AddFlag == /\ Room /\ kind = "" /\ ~BodyHas(cur.body, {"script", "lang", "lookup"})
           /\ (cur.k = "lookup" => Len(cur.body) = 0)
           /\ (Len(cur.body) > 0 => cur.body[Len(cur.body)].k # "flag")
           /\ \E f \in FlagPool(pre.fam) :
                 /\ f # LastFlag(cur.body)
                 /\ cur' = [cur EXCEPT !.body = Append(@, f)]
           /\ UNCHANGED <<pre, blocks, kind>>
AddScript == /\ Room /\ kind = "" /\ cur.k = "feature" /\ ~BodyHas(cur.body, {"flag"}) /\ pre.fam \in {"plain", "gdef"}
             /\ ~(\E i \in 1..Len(blocks) : blocks[i].k = "feature" /\ blocks[i].t = cur.t)      \* a tag with script statements has one block
             /\ \E s \in {"latn", "DFLT"} :
                   /\ ~(\E i \in 1..Len(cur.body) : cur.body[i].k = "script" /\ cur.body[i].s = s)     \* each script once
                   /\ (s = "DFLT" => ~BodyHas(cur.body, {"script"}) /\ Len(cur.body) > 0)
                   /\ cur' = [cur EXCEPT !.body = Append(@, [k |-> "script", s |-> s])]
             /\ UNCHANGED <<pre, blocks, kind>>
AddLang == /\ Room /\ kind = "" /\ cur.k = "feature" /\ ~BodyHas(cur.body, {"lang"})
           /\ \E i \in 1..Len(cur.body) : cur.body[i].k = "script" /\ cur.body[i].s = "latn"
           /\ LET last == CHOOSE i \in {i \in 1..Len(cur.body) : cur.body[i].k = "script"} :
                              \A j \in {j \in 1..Len(cur.body) : cur.body[j].k = "script"} : j <= i
              IN cur.body[last].s = "latn"
           /\ \E inc \in BOOLEAN : cur' = [cur EXCEPT !.body = Append(@, [k |-> "lang", l |-> "TRK ", inc |-> inc])]
           /\ UNCHANGED <<pre, blocks, kind>>
AddRef == /\ Room /\ kind = "" /\ cur.k = "feature"
          /\ \E n \in {blocks[i].n : i \in {i \in 1..Len(blocks) : blocks[i].k = "lookup"}} :
                cur' = [cur EXCEPT !.body = Append(@, [k |-> "ref", n |-> n])]
          /\ UNCHANGED <<pre, blocks, kind>>
(* a nested named lookup block with one rule (only while the feature's flag is 0) *)
ChooseNested == /\ WithNested /\ Room /\ kind = "" /\ cur.k = "feature" /\ LastFlag(cur.body) = rFlag(0, <<>>, <<>>)
                /\ (3..4) \ UsedNames # {}
                /\ \E kd \in NestKinds : UnN(kd) \in KindsOf(pre.fam) /\ kind' = kd
                /\ UNCHANGED <<pre, blocks, cur>>
AddNested == /\ kind \in NestKinds
             /\ LET n == CHOOSE n \in (3..4) \ UsedNames : TRUE IN \E r \in Pool(UnN(kind), Interp(Prog)) :
                   LET c2 == [cur EXCEPT !.body = Append(@, [k |-> "lookup", n |-> n, body |-> <<r>>])] IN
                   /\ Valid(Preamble(pre) \o blocks \o <<c2>>)
                   /\ cur' = c2
             /\ kind' = "" /\ UNCHANGED <<pre, blocks>>
AddSubtable == /\ Room /\ kind = "" /\ Len(cur.body) > 0 /\ cur.body[Len(cur.body)].k = "pos2"
               /\ cur.body[Len(cur.body)].g1.t # "g" /\ ~cur.body[Len(cur.body)].enum
               /\ cur' = [cur EXCEPT !.body = Append(@, [k |-> "subtable"])]
               /\ UNCHANGED <<pre, blocks, kind>>

Next == Open \/ Close \/ ChooseKind \/ AddRule \/ AddFlag \/ AddScript \/ AddLang \/ AddRef \/ ChooseNested \/ AddNested \/ AddSubtable

Emit == IF Complete THEN PrintT(<<"GEN", ToJson(Prog)>>) ELSE TRUE

-----------------------------------------------------------------------------
(* internal laws of FeaSem / OTLSem, checked on every complete program *)
MM == Meaning(Prog, 7, <<510, 520, 530, 540, 550, 560, 570>>)
LawSeqs == {<<1, 2>>, <<1, 2, 3>>, <<1, 6, 2>>, <<2, 2, 2>>, <<5, 6, 7>>}
TB(t) == IF t = 1 THEN MM.gsub ELSE MM.gpos
Both == <<"ss01", "ss02">>
LawsOn(L) ==
  /\ \A t \in 1..2 : LET tb == IF t = 1 THEN L.gsub ELSE L.gpos IN        \* WellFormed
       /\ \A i \in 1..Len(tb.fl) : \A z \in 1..Len(tb.fl[i][4]) : tb.fl[i][4][z] \in 1..Len(tb.lookups)
       /\ \A i \in 1..Len(tb.lookups) :
            /\ tb.lookups[i].mfs \in 0..Len(L.gdef.sets)
            /\ (tb.lookups[i].ty = "ctx" => \A s \in 1..Len(tb.lookups[i].st) : \A q \in 1..Len(tb.lookups[i].st[s].r) :
                  LET r == tb.lookups[i].st[s].r[q] IN
                  /\ Len(r.i) >= 1
                  /\ \A z \in 1..Len(r.n) : r.n[z][2] \in 1..Len(tb.lookups) /\ r.n[z][1] \in 0..(Len(r.i) - 1))
  /\ \A q \in LawSeqs :
       LET ot == Shape(L, "DFLT", "dflt", Both, 1, "ot", q) IN
       /\ Shape(L, "DFLT", "dflt", <<>>, 1, "ot", q) = [i \in 1..Len(q) |-> <<q[i], 0, 0, 0, 0>>]     \* IdentityWithoutFeatures
       /\ ot = Shape(L, "DFLT", "dflt", <<"ss02", "ss01">>, 1, "ot", q)                              \* TagOrderIrrelevant
       /\ (~(\E g \in 1..Len(L.gdef.cls) : L.gdef.cls[g] = 3) => ot = Shape(L, "DFLT", "dflt", Both, 1, "hb", q))   \* ModesAgreeWithoutMarks
       /\ [i \in 1..Len(ot) |-> ot[i][1]] = ShapeGsub(L, "DFLT", "dflt", Both, 1, q)                  \* TablesSeparate
  /\ \A i \in 1..Len(L.gsub.lookups) : L.gsub.lookups[i].ty = "sub4" =>                               \* LongestLigature
       \A s \in 1..Len(L.gsub.lookups[i].st) : LET l == L.gsub.lookups[i].st[s].l IN
          \A x, y \in 1..Len(l) : (x < y /\ l[x][1][1] = l[y][1][1]) => Len(l[x][1]) >= Len(l[y][1])
  /\ \A i \in 1..Len(L.gpos.lookups) : L.gpos.lookups[i].ty = "pos2" =>                               \* PairsFirst
       LET st == L.gpos.lookups[i].st IN
       /\ \A x, y \in 1..Len(st) : (st[x].f = 2 /\ st[y].f = 1) => y < x
       /\ \A x \in 1..Len(st) : st[x].f = 2 =>
            \A u, w \in 1..Len(st[x].c) : /\ (st[x].c[u][1] = st[x].c[w][1] \/ SeqRange(st[x].c[u][1]) \cap SeqRange(st[x].c[w][1]) = {})
                                          /\ (st[x].c[u][2] = st[x].c[w][2] \/ SeqRange(st[x].c[u][2]) \cap SeqRange(st[x].c[w][2]) = {})
Laws == Complete => LawsOn(MM)
=============================================================================
