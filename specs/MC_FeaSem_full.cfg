CONSTANTS
  MaxBlocks = 1
  MaxBody = 2
  PoolCap = 12
  Fams = {"plain", "curs", "gdef", "attach"}
  Lsvs = {0}
  Nms = {TRUE}
  Tags = {"ss01"}
  WithNested = FALSE
INIT Init
NEXT Next
CONSTRAINT Emit
INVARIANT Laws
CHECK_DEADLOCK FALSE
