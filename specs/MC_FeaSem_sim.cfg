CONSTANTS
  MaxBlocks = 3
  MaxBody = 4
  PoolCap = 100
  Fams = {"plain", "curs", "gdef", "attach"}
  Lsvs = {0, 1, 2}
  Nms = {TRUE, FALSE}
  Tags = {"ss01", "ss02"}
  WithNested = TRUE
INIT Init
NEXT Next
CONSTRAINT Emit
CHECK_DEADLOCK FALSE
