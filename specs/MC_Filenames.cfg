CONSTANTS
  MaxLen = 6
  CounterWidth = 2
  CounterLimit = 3
  Alphabet <- WideSymbols
  MaxNameLen = 5
  MaxSeq = 1
  Affixes <- WideAffixes
  IllegalM = {42}
  ReservedM <- ReservedCon
  EmitGen = FALSE
  Heads <- WideHeads
  SampleMod = 1
INIT Init
NEXT Next
VIEW View
CONSTRAINT Explore
INVARIANT ExistingIsLowerOfNames
INVARIANT StepIsAdd
CHECK_DEADLOCK FALSE
