--------------------------- MODULE MC_Filenames ---------------------------
(* Exhaustive check of the Filenames machine on scaled constants.
   MC_Filenames.cfg      one step, wide alphabet of symbols {a A . _ * con}, all user names of
                         up to MaxNameLen symbols, MaxLen 6, counter width 2: Legal / Bounded
                         per name ("con" is one symbol of the generator so that five symbols
                         reach a.con.a, aa.cona -> clipped to the reserved aa.con, con.A ...;
                         the machine sees single characters).
   MC_Filenames_seq.cfg  histories of up to MaxSeq names over {a A _ 1}, MaxLen 4, counter
                         width 1, counter limit 3 (so handleClash2 is reached): Legal /
                         Bounded / CaseUnique for every sequence of names.
   A violated clause is not an error here: it is printed as <<"CEX", clause, json>> and
   the harness replays it on the real functions (DESIGN 3.5); states of the sequence
   configuration are printed as <<"GEN", json>> to be replayed too.                   *)
EXTENDS Filenames, TLC, Json

CONSTANTS Alphabet, MaxNameLen, MaxSeq, Affixes, IllegalM, ReservedM, EmitGen, SampleMod, Heads

VARIABLES names, existing, users, pfx, sfx, ev, head
vars == <<names, existing, users, pfx, sfx, ev, head>>

CX == [illegal |-> IllegalM, reserved |-> ReservedM, lc |-> <<>>]

WideAffixes == { <<<<>>, <<>>>>, <<<<>>, <<46, 103>>>>, <<<<103, 46>>, <<>>>> }
SeqAffixes == { <<<<>>, <<>>>>, <<<<>>, <<46>>>> }
ReservedCon == { <<99, 111, 110>> }
ReservedNone == { <<120>> }

(* Alphabet: a set of symbols, each a non-empty sequence of code points *)
WideSymbols == { <<97>>, <<65>>, <<46>>, <<95>>, <<42>>, <<99, 111, 110>> }
SeqSymbols == { <<97>>, <<65>>, <<95>>, <<49>> }
SymbolSeqs(lo, hi) == UNION { [1..k -> Alphabet] : k \in lo..hi }
UserNames == { Flat(w) : w \in SymbolSeqs(1, MaxNameLen) }
(* head: how the FIRST user name of a history begins, chosen with the initial state.  It only
   partitions the same set of histories over more initial states, so that TLC's workers share
   the one-step configuration (3 initial states otherwise); <<>> = no restriction.        *)
WideHeads == SymbolSeqs(1, 2)
NoHeads == { <<>> }
UserNamesFor(h) == IF h = <<>> THEN UserNames
                   ELSE IF Len(h) < 2 THEN {Flat(h)}
                   ELSE {Flat(h \o w) : w \in SymbolSeqs(0, MaxNameLen - 2)}
ASSUME HeadsPartition == UNION {UserNamesFor(h) : h \in Heads} = UserNames

Init == /\ names = <<>> /\ existing = {} /\ users = <<>> /\ ev = {}
        /\ \E a \in Affixes : pfx = a[1] /\ sfx = a[2]
        /\ head \in Heads

(* one step of the machine (Filenames!Add, unfolded so that the events that fired are recorded) *)
Next == /\ Len(names) < MaxSeq
        /\ \E u \in (IF names = <<>> THEN UserNamesFor(head) ELSE UserNames) :
             LET s0 == Stage0(u, pfx) f == Filter(CX, s0)
                 c == Take(f, MaxLen - Len(pfx) - Len(sfx)) x == FixParts(CX, c)
                 full == pfx \o x \o sfx
                 clash == LowerS(CX, full) \in existing
                 fn == IF clash THEN Clash1(CX, x, existing, pfx, sfx) ELSE full
                 l == Len(full) + CounterWidth
                 n1 == IF l > MaxLen THEN DropLast(x, l - MaxLen) ELSE x
                 exhausted == \A k \in 1..(CounterLimit - 1) : LowerS(CX, pfx \o n1 \o ZFill(Digits(k), CounterWidth) \o sfx) \in existing
             IN /\ names' = Append(names, fn) /\ existing' = existing \cup {LowerS(CX, fn)} /\ users' = Append(users, u)
                /\ ev' = ev \cup (IF s0 # u THEN {"leaddot"} ELSE {}) \cup (IF Len(f) # Len(s0) THEN {"upper"} ELSE {})
                           \cup (IF c # f THEN {"clip"} ELSE {}) \cup (IF x # c THEN {"reserved"} ELSE {})
                           \cup (IF clash THEN {"clash1"} ELSE {}) \cup (IF clash /\ l > MaxLen THEN {"slice"} ELSE {})
                           \cup (IF clash /\ exhausted THEN {"clash2"} ELSE {})
                           \cup (IF clash /\ ~exhausted /\ LowerS(CX, pfx \o n1 \o ZFill(<<49>>, CounterWidth) \o sfx) \in existing THEN {"counter2"} ELSE {})
        /\ UNCHANGED <<pfx, sfx, head>>
(* the unfolded step is Filenames!Add *)
StepIsAdd == names # <<>> =>
   LET k == Len(names) r == Add(CX, users[k], pfx, sfx, SubSeq(names, 1, k - 1), {LowerS(CX, names[i]) : i \in 1..(k - 1)})
   IN r[1] = names /\ r[2] = existing

Last == names[Len(names)]
View == <<existing, IF names = <<>> THEN head ELSE Last, Len(names), pfx, sfx>>

Clause ==
  IF names = <<>> THEN "ok"
  ELSE IF Last = NONAME THEN "noname"
  ELSE IF ~LegalName(CX, Last) THEN "legal"
  ELSE IF ~BoundedName(Last) THEN
         (IF ReservedAfterClip(CX, users[Len(users)], pfx, sfx) THEN "bounded:reserved-prefix-after-clip" ELSE "bounded:other")
  ELSE IF ~CaseUnique(CX, names) THEN "caseunique"
  ELSE "ok"

Rec == [u |-> users, n |-> names, p |-> pfx, s |-> sfx, e |-> ev]
(* soft invariants: print and stop exploring behind a counterexample *)
Soft == IF Clause = "ok" THEN TRUE ELSE PrintT(<<"CEX", Clause, ToJson(Rec)>>) /\ FALSE
RECURSIVE SumSeq(_, _)
SumSeq(s, i) == IF i > Len(s) THEN 0 ELSE s[i] + SumSeq(s, i + 1)
Weight == LET RECURSIVE W(_) W(i) == IF i > Len(users) THEN 0 ELSE i * SumSeq(users[i], 1) + W(i + 1) IN W(1)
Emit == IF EmitGen /\ Len(names) = MaxSeq /\ "clash1" \in ev /\ Weight % SampleMod = 0
        THEN PrintT(<<"GEN", ToJson(Rec)>>) ELSE TRUE
Explore == Soft /\ Emit

(* laws of the specification itself *)
ExistingIsLowerOfNames == existing = {LowerS(CX, names[i]) : i \in 1..Len(names)}
ASSUME Sane == /\ Digits(0) = <<48>> /\ Digits(120) = <<49, 50, 48>> /\ ZFill(<<49>>, 3) = <<48, 48, 49>>
               /\ Split(<<97, 46, 46, 98>>) = << <<97>>, <<>>, <<98>> >> /\ Join(Split(<<46, 97, 46>>)) = <<46, 97, 46>>
               /\ DropLast(<<1, 2, 3>>, 2) = <<1>> /\ DropLast(<<1>>, 5) = <<>> /\ Take(<<1, 2>>, 5) = <<1, 2>>
=============================================================================
