CONSTANTS
  MaxLen = 3
  CounterWidth = 1
  CounterLimit = 3
  Alphabet <- SeqSymbols
  MaxNameLen = 2
  MaxSeq = 4
  Affixes <- SeqAffixes
  IllegalM = {42}
  ReservedM <- ReservedNone
  EmitGen = TRUE
  Heads <- NoHeads
  SampleMod = 16
INIT Init
NEXT Next
VIEW View
CONSTRAINT Explore
INVARIANT ExistingIsLowerOfNames
INVARIANT StepIsAdd
CHECK_DEADLOCK FALSE
