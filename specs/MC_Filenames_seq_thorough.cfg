CONSTANTS
  MaxLen = 4
  CounterWidth = 1
  CounterLimit = 2
  Alphabet <- SeqSymbols
  MaxNameLen = 3
  MaxSeq = 3
  Affixes <- SeqAffixes
  IllegalM = {42}
  ReservedM <- ReservedNone
  EmitGen = TRUE
  Heads <- NoHeads
  SampleMod = 2
INIT Init
NEXT Next
VIEW View
CONSTRAINT Explore
INVARIANT ExistingIsLowerOfNames
INVARIANT StepIsAdd
CHECK_DEADLOCK FALSE
