---- MODULE MC_FontLifecycle ----
(* Exhaustive design check of FontLifecycle: 3 tags (one without decoder, one dependency),
   3 blobs, 2 contents, every decoder/encoder satisfying H (learned lazily), every order of
   Access / Edit / Save / Reopen up to 2 reopens and 1 edit. *)
EXTENDS FontLifecycle
MCTag == {"t1", "t2", "raw3"}
CONSTANT NBlob
MCBlob == 1..NBlob
MCContent == {<<"c", 1>>, <<"c", 2>>}
MCNoDecoder == {"raw3"}
MCDep == {<<"t1", "t2">>}
CONSTANT MaxGen
VARIABLE edits
Files == [MCTag -> MCBlob]
MCInit == /\ phase = "closed" /\ disk = << >> /\ loaded = << >> /\ out = << >> /\ todo = {} /\ full = FALSE
          /\ saved = << >> /\ gen = 0 /\ prevFull = FALSE /\ clean = TRUE /\ dec = << >> /\ enc = << >> /\ edits = 0
MCNext == \/ (\E f \in {[t \in MCTag |-> 1], [t \in MCTag |-> IF t = "t1" THEN 2 ELSE 1]} : Open(f)) /\ UNCHANGED edits
          \/ (\E t \in MCTag, c \in MCContent : Access(t, c, FALSE)) /\ UNCHANGED edits
          \/ (\E t \in MCTag : t \in DOMAIN disk /\ Access(t, Raw(disk[t]), TRUE)) /\ UNCHANGED edits
          \/ (\E t \in MCTag, c \in MCContent : edits < 1 /\ Edit(t, c)) /\ edits' = edits + 1
          \/ SaveBegin /\ UNCHANGED edits
          \/ (\E t \in MCTag, b \in MCBlob : Write(t, b)) /\ UNCHANGED edits
          \/ SaveEnd /\ UNCHANGED edits
          \/ Reopen /\ UNCHANGED edits
Bound == gen <= MaxGen
(* decoded tables with a decoder never hold raw content unless decoding failed; here Access(raw)
   on a decodable tag models ignoreDecompileErrors: it must then be written back verbatim *)
RawKept == \A t \in DOMAIN out : (t \in DOMAIN loaded /\ loaded[t][1] = "raw" /\ t \in DOMAIN disk) => out[t] = disk[t]
(* dependencies are written first *)
DepOrder == \A t \in DOMAIN out : \A u \in MCTag : (<<t, u>> \in MCDep /\ u \in AllTags) => u \in DOMAIN out
====
