CONSTANTS
  Tag <- MCTag
  Blob <- MCBlob
  Content <- MCContent
  NoDecoder <- MCNoDecoder
  Dep <- MCDep
  EnforceH2 = TRUE
  NBlob = 3
  MaxGen = 2
INIT MCInit
NEXT MCNext
CONSTRAINT Bound
INVARIANT Passthrough
INVARIANT NoDecoderVerbatim
INVARIANT FixedPoint
INVARIANT Complete
INVARIANT RawKept
INVARIANT DepOrder
CHECK_DEADLOCK FALSE
