CONSTANTS
  NP = 4
  C = 2
  DSEL = 1
INIT Init
NEXT Next
INVARIANT Sound
INVARIANT Emit
CHECK_DEADLOCK FALSE
