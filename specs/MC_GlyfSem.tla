----------------------------- MODULE MC_GlyfSem -----------------------------
(* (M) for C05: the reference evaluator GlyfSem is checked against its OWN laws on small
   universes before it judges any code (DESIGN.md section 9 rule 2).  Each universe is a set
   of tagged tuples u; Laws(u) names the first law that fails ("ok" otherwise); the cases of
   the analysis that fired are printed once each as <<"COV", name>> (non-vacuity).

   "ct"  one contour of 1..NP points, x in 0..C, every on/off pattern:
         Closed       consecutive atoms share their end / start point, cyclically
         Implied      making the implied on-curve points explicit changes nothing
         Rotation     the contour does not depend on which point is stored first
         Lines        a contour of on-curve points is its polygon
         Count        one atom per on-curve point of the expanded contour
   "gv"  a 3-point glyph, one tuple (4 tents), deltas in DSET, every subset of
         referenced points, user locations below / at / above the axis range:
         Identity     IUP of a fully specified delta set is the identity: p + s d
         Default      loc = default gives the default outline, the hmtx advance
         Peak         at the peak the full inferred deltas apply
         Outside      outside the tent nothing moves
         Clamped      a location outside the axis range equals the clamped one
         Advance      advance = pp2 - pp1 after variation
         Unreferenced a contour without referenced points does not move
   "cp"  a composite of a composite of a simple glyph: 2 x (transform, offset, flags):
         IdentityComp a component with the identity transform at (0,0) is the component
         Assoc        flattening is associative: nesting = one component with the composed map
         Scaled       SCALED offset = the offset mapped by the matrix; BOTH flags = default
         Umm          USE_MY_METRICS adopts the component's phantom points; opts.umm = FALSE not
         Deviations   opts.scaled / opts.cshift = FALSE differ from the spec exactly where named
         OffsetDelta  a gvar delta on a component moves all its points, scaled by the region
         Shift        the drawn glyph has phantom point 1 at the origin
         Grid         ROUND_XY_TO_GRID (GridFit reading) rounds the varied offset
   "pm"  point matching: the matched points coincide, whatever the transform
   "hv"  HVAR: identity / mapped / beyond-the-map indices, default location, region scalar
   "av"  normalisation + avar: knots hit their values, identity map, range, F2Dot14 guard
   "eq"  SameOutline / SameOutlineI (integer grid): reflexive, start-point independent, blind
         to zero-length atoms, sensitive to a moved point; GridCoord is the nearest integer                                                      *)
EXTENDS GlyfSem, TLC, Json
CONSTANTS NP, C, DSEL
DSET == IF DSEL = 2 THEN {-1, 0, 1} ELSE {-1, 2}     \* (TLC configuration files cannot write negative numbers)
VARIABLES u, phase
vars == <<u, phase>>

Seq2Set(s) == {s[i] : i \in 1..Len(s)}
R0 == RZero
Pt3(x, y, on) == <<RInt(x), RInt(y), on>>

(* ------------------------------ "ct" -------------------------------------------------- *)
CtY(x, i) == (2 * x + i) % (C + 1)
CtPts(xs, on) == [i \in 1..Len(xs) |-> Pt3(xs[i], CtY(xs[i], i), on[i])]
RotSeq(s) == [i \in 1..Len(s) |-> s[(i % Len(s)) + 1]]
SameContourOrBothNull(a, b) ==
  IF ~Drawn(a, R0) \/ ~Drawn(b, R0) THEN ~Drawn(a, R0) /\ ~Drawn(b, R0) ELSE SameContour(a, b, R0)
OnCount(c) == Cardinality({i \in 1..Len(c) : c[i][3] = 1})
CtLaws(xs, on) ==
  LET c == CtPts(xs, on)
      a == ContourAtoms(c)
      e == Expand(c)
      n == Len(a)
  IN IF \E k \in 1..n : a[k][Len(a[k])] # a[CycSucc(n, k)][1] THEN "ct:closed"
     ELSE IF ~SameContourOrBothNull(a, ContourAtoms(e)) THEN "ct:implied"
     ELSE IF ~SameContourOrBothNull(a, ContourAtoms(RotSeq(c))) THEN "ct:rotation"
     ELSE IF OnCount(c) = Len(c) /\ a # [k \in 1..Len(c) |-> <<XYOf(c[k]), XYOf(c[CycSucc(Len(c), k)])>>] THEN "ct:lines"
     ELSE IF n # OnCount(e) THEN "ct:count"
     ELSE IF \E k \in 1..n : Len(a[k]) \notin {2, 3} THEN "ct:degree"
     ELSE "ok"
CtCases(xs, on) ==
  LET c == CtPts(xs, on) IN
  (IF Len(Expand(c)) > Len(c) THEN {"implied-midpoint"} ELSE {})
  \cup (IF OnCount(c) = 0 THEN {"all-off-contour"} ELSE {})
  \cup (IF Len(c) = 1 THEN {"single-point-contour"} ELSE {})
  \cup (IF c[1][3] = 0 /\ OnCount(c) > 0 THEN {"starts-off-curve"} ELSE {})

(* ------------------------------ "gv" -------------------------------------------------- *)
GvAxes == << <<100 * 65536, 400 * 65536, 900 * 65536>> >>
GvUser == <<-50, 100, 250, 400, 525, 650, 775, 900, 1500>>      \* user-space values (integers)
GvTents == << [peak |-> <<16384>>, im |-> <<>>], [peak |-> <<-16384>>, im |-> <<>>],
              [peak |-> <<8192>>, im |-> <<>>], [peak |-> <<8192>>, im |-> << <<4096>>, <<16384>> >>] >>
GvGlyph(xs) == [k |-> "s", gid |-> 0, xMin |-> 0, pts |-> [i \in 1..3 |-> <<xs[i], C - xs[i], 1>>], ends |-> <<2>>]
GvHm == <<10, 0>>
GvPh == << <<1, 0>>, <<3, 0>>, <<0, 0>>, <<0, 0>> >>       \* explicit phantom deltas
GvTuple(ds, m, ti) ==
  LET refs == {i \in 1..3 : m[i]}
      pn == SeqOfSet({i - 1 : i \in refs} \cup {3, 4})
  IN [peak |-> GvTents[ti].peak, im |-> GvTents[ti].im,
      all |-> IF refs = 1..3 THEN 1 ELSE 0,
      pn |-> IF refs = 1..3 THEN <<>> ELSE pn,
      dx |-> IF refs = 1..3 THEN <<ds[1], ds[2], ds[3], 1, 3, 0, 0>>
             ELSE [k \in 1..Len(pn) |-> IF pn[k] < 3 THEN ds[pn[k] + 1] ELSE IF pn[k] = 3 THEN 1 ELSE 3],
      dy |-> IF refs = 1..3 THEN <<-ds[1], -ds[2], -ds[3], 0, 0, 0, 0>>
             ELSE [k \in 1..Len(pn) |-> IF pn[k] < 3 THEN -ds[pn[k] + 1] ELSE 0]]
GvFont(xs, ds, m, ti) ==
  [glyphs |-> <<GvGlyph(xs)>>, hmtx |-> <<GvHm>>, gvar |-> << <<GvTuple(ds, m, ti)>> >>,
   axes |-> GvAxes, avar |-> <<>>, hvar |-> [has |-> 0, store |-> [regions |-> <<>>, data |-> <<>>], nomap |-> 1, map |-> <<>>]]
GvLaws(xs, ds, m, ti, li) ==
  LET F == GvFont(xs, ds, m, ti)
      INF == FontInferred(F)
      nl == NormLoc(F, <<RInt(GvUser[li])>>)
      nloc == nl.loc
      clampedUser == IF GvUser[li] < 100 THEN 100 ELSE IF GvUser[li] > 900 THEN 900 ELSE GvUser[li]
      ncl == NormLoc(F, <<RInt(clampedUser)>>).loc
      s == RegionScalar(TupleRegion(F.gvar[1][1]), nloc)
      fl == FlatGlyph(F, INF, 1, nloc, SpecOpts, 0)
      dfl == FlatGlyph(F, INF, 1, <<R0>>, SpecOpts, 0)
      refs == {i \in 1..3 : m[i]}
      inf == INF[1][1]
      tent == TupleRegion(F.gvar[1][1])[1]
  IN IF ~FontWellFormed(F) THEN "gv:wellformed"
     ELSE IF nl.why # "" THEN "gv:location-domain"
     ELSE IF refs = 1..3 /\ \E i \in 1..3 :
               fl.pts[i] # <<RAdd(RInt(xs[i]), RMul(s, RInt(ds[i]))), RAdd(RInt(C - xs[i]), RMul(s, RInt(-ds[i]))), 1>>
          THEN "gv:identity"
     ELSE IF GvUser[li] = 400 /\ (fl # dfl \/ RefAdvance(F, 1, nloc, fl.ph) # RInt(10) \/ ~AtDefault(nloc)) THEN "gv:default"
     ELSE IF dfl.pts # [i \in 1..3 |-> Pt3(xs[i], C - xs[i], 1)] THEN "gv:default-outline"
     ELSE IF nloc[1] = tent[2] /\ \E i \in 1..3 : fl.pts[i][1] # RAdd(RInt(xs[i]), inf[i][1]) THEN "gv:peak"
     ELSE IF (RLt(nloc[1], tent[1]) \/ RLt(tent[3], nloc[1])) /\ fl # dfl THEN "gv:outside"
     ELSE IF nloc # ncl THEN "gv:clamped"
     ELSE IF ~AtDefault(nloc) /\ RefAdvance(F, 1, nloc, fl.ph) # RAdd(RInt(10), RMul(s, RInt(2))) THEN "gv:advance"
     ELSE IF refs = {} /\ \E i \in 1..3 : fl.pts[i] # dfl.pts[i] THEN "gv:unreferenced"
     ELSE IF refs = {} /\ fl.ph[1] # <<RAdd(RInt(0), RMul(s, RInt(1))), R0>> THEN "gv:phantom-own-contour"
     ELSE "ok"
GvCases(xs, ds, m, ti, li) ==
  LET F == GvFont(xs, ds, m, ti)
      nloc == NormLoc(F, <<RInt(GvUser[li])>>).loc
      s == RegionScalar(TupleRegion(F.gvar[1][1]), nloc)
      refs == {i \in 1..3 : m[i]}
      inf == FontInferred(F)[1][1]
  IN (IF refs # 1..3 /\ refs # {} /\ \E i \in (1..3) \ refs : inf[i] # <<R0, R0>> THEN {"inferred-delta"} ELSE {})
     \cup (IF ti = 4 /\ ~RIsZero(s) /\ s # ROne THEN {"intermediate-region"} ELSE {})
     \cup (IF GvUser[li] < 100 \/ GvUser[li] > 900 THEN {"clamped"} ELSE {})
     \cup (IF refs = 1..3 THEN {"all-points"} ELSE {})
     \cup (IF ~RIsZero(s) /\ s # ROne THEN {"fractional-scalar"} ELSE {})

(* ------------------------------ "cp" / "pm" -------------------------------------------- *)
CpBase == [k |-> "s", gid |-> 0, xMin |-> 1, pts |-> << <<1, 0, 1>>, <<5, 0, 0>>, <<5, 4, 0>>, <<1, 6, 1>> >>, ends |-> <<3>>]
CpBaseHm == <<9, 3>>
CpTr == << <<0, <<>>>>, <<HAVE_SCALE, <<8192>>>>, <<HAVE_XY_SCALE, <<-16384, 24576>>>>, <<HAVE_2X2, <<0, 16384, -16384, 0>>>>,
           <<HAVE_2X2, <<8192, 4096, -4096, 8192>>>> >>
CpOff == << <<0, 0>>, <<2, -1>>, <<-3, 4>> >>
CpOfl == <<0, SCALED_OFFSET, UNSCALED_OFFSET, SCALED_OFFSET + UNSCALED_OFFSET>>
Comp(g, ti, oi, fi, extra) ==
  [g |-> g, fl |-> ARGS_ARE_XY + CpTr[ti][1] + CpOfl[fi] + extra, a1 |-> CpOff[oi][1], a2 |-> CpOff[oi][2], tr |-> CpTr[ti][2]]
NoHvar == [has |-> 0, store |-> [regions |-> <<>>, data |-> <<>>], nomap |-> 1, map |-> <<>>]
(* glyph 1 = base, 2 = composite of 1, 3 = composite of 2; one axis; the composites' offsets
   carry the delta dl at peak 1 *)
CpTv(dl) == [peak |-> <<16384>>, im |-> <<>>, all |-> 0, pn |-> <<0>>, dx |-> <<dl[1]>>, dy |-> <<dl[2]>>]
CpFont(c1, c2, dl) ==
  [glyphs |-> <<CpBase, [k |-> "c", gid |-> 1, xMin |-> -2, comps |-> <<c1>>], [k |-> "c", gid |-> 2, xMin |-> 4, comps |-> <<c2>>]>>,
   hmtx |-> <<CpBaseHm, <<12, 1>>, <<15, -1>>>>,
   gvar |-> << <<>>, <<CpTv(dl)>>, <<>> >>,
   axes |-> << <<0, 0, 65536>> >>, avar |-> <<>>, hvar |-> NoHvar]
MMul(m2, m1) ==    \* "first m1, then m2" on <<a, b, c, d>>: x' = a x + c y, y' = b x + d y
  << RAdd(RMul(m2[1], m1[1]), RMul(m2[3], m1[2])), RAdd(RMul(m2[2], m1[1]), RMul(m2[4], m1[2])),
     RAdd(RMul(m2[1], m1[3]), RMul(m2[3], m1[4])), RAdd(RMul(m2[2], m1[3]), RMul(m2[4], m1[4])) >>
MApply(m, v) == <<RAdd(RMul(m[1], v[1]), RMul(m[3], v[2])), RAdd(RMul(m[2], v[1]), RMul(m[4], v[2]))>>
(* the affine map <<matrix, translation>> a component denotes, from the text, independently of
   FlatComps: unscaled p -> M p + o, scaled p -> M (p + o) = M p + M o *)
AffineOf(c, off) ==
  LET m == CompMatrix(c)
      scaled == HasMatrix(c) /\ Bit(c.fl, SCALED_OFFSET) /\ ~Bit(c.fl, UNSCALED_OFFSET)
  IN <<m, IF scaled THEN MApply(m, off) ELSE off>>
CpLaws(t1, o1, f1, t2, o2, f2, um, dl, li) ==
  LET c1 == Comp(1, t1, o1, f1, 0)
      c2 == Comp(2, t2, o2, f2, IF um = 1 THEN USE_MY_METRICS ELSE 0)
      F == CpFont(c1, c2, <<2 * dl, dl>>)
      INF == FontInferred(F)
      s == Rat(li, 2)                       \* 0, 1/2, 1
      nloc == <<s>>
      o1v == <<RAdd(RInt(CpOff[o1][1]), RMul(s, RInt(2 * dl))), RAdd(RInt(CpOff[o1][2]), RMul(s, RInt(dl)))>>
      A1 == AffineOf(c1, o1v)
      A2 == AffineOf(c2, <<RInt(CpOff[o2][1]), RInt(CpOff[o2][2])>>)
      M == MMul(A2[1], A1[1])
      T == LET v == MApply(A2[1], A1[2]) IN <<RAdd(v[1], A2[2][1]), RAdd(v[2], A2[2][2])>>
      want == [i \in 1..4 |-> LET v == MApply(M, <<RInt(CpBase.pts[i][1]), RInt(CpBase.pts[i][2])>>)
                               IN <<RAdd(v[1], T[1]), RAdd(v[2], T[2]), CpBase.pts[i][3]>>]
      fl3 == FlatGlyph(F, INF, 3, nloc, SpecOpts, 0)
      fl2 == FlatGlyph(F, INF, 2, nloc, SpecOpts, 0)
      fl1 == FlatGlyph(F, INF, 1, nloc, SpecOpts, 0)
      noumm == FlatGlyph(F, INF, 3, nloc, [SpecOpts EXCEPT !.umm = FALSE], 0)
      noscaled == FlatGlyph(F, INF, 3, nloc, [SpecOpts EXCEPT !.scaled = FALSE], 0)
      ref == Reference(F, INF, 3, nloc, SpecOpts)
      refNoShift == Reference(F, INF, 3, nloc, [SpecOpts EXCEPT !.cshift = FALSE])
      scaledMatters == \E c \in {c1, c2} : OffsetIsScaled(c, SpecOpts) /\
                          LET o == IF c = c1 THEN o1v ELSE <<RInt(c.a1), RInt(c.a2)>> IN MApply(CompMatrix(c), o) # o
      grid == FlatGlyph(F, INF, 2, nloc, [SpecOpts EXCEPT !.grid = TRUE], 0)
      c1r == [c1 EXCEPT !.fl = c1.fl + ROUND_XY_TO_GRID]
      Fr == CpFont(c1r, c2, <<2 * dl, dl>>)
      gridr == FlatGlyph(Fr, FontInferred(Fr), 2, nloc, [SpecOpts EXCEPT !.grid = TRUE], 0)
      o1r == <<RRound(o1v[1]), RRound(o1v[2])>>
      A1r == AffineOf(c1, o1r)
  IN IF ~FontWellFormed(F) THEN "cp:wellformed"
     ELSE IF fl3.bad # "" \/ fl2.bad # "" THEN "cp:bad"
     ELSE IF fl3.pts # want THEN "cp:assoc"
     ELSE IF fl3.ends # <<3>> THEN "cp:ends"
     ELSE IF t1 = 1 /\ o1 = 1 /\ dl = 0 /\ fl2.pts # fl1.pts THEN "cp:identity-component"
     ELSE IF f1 = 4 /\ fl2.pts # FlatGlyph(CpFont(Comp(1, t1, o1, 1, 0), c2, <<2 * dl, dl>>), INF, 2, nloc, SpecOpts, 0).pts THEN "cp:both-flags-default"
     ELSE IF fl3.ph # (IF um = 1 THEN fl2.ph ELSE noumm.ph) THEN "cp:umm"
     ELSE IF noumm.ph[1] # <<RInt(4 - (-1)), R0>> \/ noumm.ph[2] # <<RInt(5 + 15), R0>> THEN "cp:own-phantoms"
     ELSE IF (noscaled.pts # fl3.pts) # scaledMatters THEN "cp:deviation-scaled"
     ELSE IF ref.shift # RNeg(fl3.ph[1][1]) \/ refNoShift.shift # R0 \/ ref.atoms # refNoShift.atoms THEN "cp:shift"
     ELSE IF ref.atoms # Outline(fl3.pts, fl3.ends) THEN "cp:outline"
     ELSE IF grid.pts # fl2.pts THEN "cp:grid-needs-flag"
     ELSE IF gridr.pts # [i \in 1..4 |-> LET v == MApply(A1r[1], <<RInt(CpBase.pts[i][1]), RInt(CpBase.pts[i][2])>>)
                                          IN <<RAdd(v[1], A1r[2][1]), RAdd(v[2], A1r[2][2]), CpBase.pts[i][3]>>] THEN "cp:grid"
     ELSE "ok"
CpCases(t1, o1, f1, t2, o2, f2, um, dl, li) ==
  (IF f1 = 2 /\ t1 > 1 /\ o1 > 1 THEN {"scaled-offset"} ELSE {})
  \cup (IF um = 1 THEN {"use-my-metrics"} ELSE {})
  \cup (IF t1 > 1 /\ t2 > 1 THEN {"nested"} ELSE {})
  \cup (IF dl # 0 /\ li = 1 THEN {"offset-delta-half"} ELSE {})
  \cup (IF f1 = 4 \/ f2 = 4 THEN {"both-offset-flags"} ELSE {})

PmFont(ti, a1, a2) ==
  [glyphs |-> <<CpBase, [k |-> "c", gid |-> 1, xMin |-> 0,
                         comps |-> << [g |-> 1, fl |-> ARGS_ARE_XY, a1 |-> 3, a2 |-> -2, tr |-> <<>>],
                                      [g |-> 1, fl |-> CpTr[ti][1], a1 |-> a1, a2 |-> a2, tr |-> CpTr[ti][2]] >>]>>,
   hmtx |-> <<CpBaseHm, <<12, 1>>>>, gvar |-> << <<>>, <<>> >>, axes |-> <<>>, avar |-> <<>>, hvar |-> NoHvar]
PmLaws(ti, a1, a2) ==
  LET F == PmFont(ti, a1, a2)
      fl == FlatGlyph(F, FontInferred(F), 2, <<>>, SpecOpts, 0)
      m == CompMatrix(F.glyphs[2].comps[2])
  IN IF ~FontWellFormed(F) THEN "pm:wellformed"
     ELSE IF a1 > 3 \/ a2 > 3 THEN (IF fl.bad = "point-match-index" THEN "ok" ELSE "pm:index-domain")
     ELSE IF fl.bad # "" THEN "pm:bad"
     ELSE IF Len(fl.pts) # 8 \/ fl.ends # <<3, 7>> THEN "pm:shape"
     ELSE IF XYOf(fl.pts[a1 + 1]) # XYOf(fl.pts[4 + a2 + 1]) THEN "pm:coincide"
     ELSE IF \E i \in 1..4 : \* the second copy is the transformed base up to ONE translation
               LET v == MApply(m, <<RInt(CpBase.pts[i][1]), RInt(CpBase.pts[i][2])>>)
                   w == MApply(m, <<RInt(CpBase.pts[1][1]), RInt(CpBase.pts[1][2])>>)
               IN <<RSub(fl.pts[4 + i][1], v[1]), RSub(fl.pts[4 + i][2], v[2])>>
                    # <<RSub(fl.pts[5][1], w[1]), RSub(fl.pts[5][2], w[2])>>
          THEN "pm:rigid"
     ELSE IF ~UsesPointMatching(F, 2) \/ UsesPointMatching(F, 1) THEN "pm:uses"
     ELSE "ok"

(* ------------------------------ "hv" -------------------------------------------------- *)
HvStore == [regions |-> << << <<0, 16384, 16384>> >>, << <<0, 8192, 16384>> >> >>,
            data |-> << [ri |-> <<0, 1>>, items |-> << <<10, -4>>, <<20, 6>>, <<-8, 0>> >>] >>]
HvMaps == << <<>>, << <<0, 2>>, <<0, 0>> >>, << <<0, 1>> >> >>      \* none / two entries / one entry
HvFont(mi) ==
  [glyphs |-> [g \in 1..4 |-> [k |-> "e", gid |-> g - 1]], hmtx |-> [g \in 1..4 |-> <<100 * g, 0>>],
   gvar |-> [g \in 1..4 |-> <<>>], axes |-> << <<0, 0, 65536>> >>, avar |-> <<>>,
   hvar |-> [has |-> 1, store |-> HvStore, nomap |-> IF mi = 1 THEN 1 ELSE 0, map |-> HvMaps[mi]]]
HvLaws(g, mi, li) ==
  LET F == HvFont(mi)
      nloc == <<Rat(li, 4)>>
      row == IF mi = 1 THEN g - 1 ELSE IF mi = 2 THEN (IF g = 1 THEN 2 ELSE 0) ELSE 1
      it == IF row < 3 THEN HvStore.data[1].items[row + 1] ELSE <<0, 0>>
      s1 == Rat(li, 4)
      s2 == IF li <= 2 THEN Rat(li, 2) ELSE Rat(4 - li, 2)
      want == RAdd(RInt(100 * g), RAdd(RMul(s1, RInt(it[1])), RMul(s2, RInt(it[2]))))
      A == RefAdvance(F, g, nloc, << <<R0, R0>>, <<R0, R0>> >>)
  IN IF li = 0 /\ A # RInt(100 * g) THEN "hv:default"
     ELSE IF li > 0 /\ A # want THEN "hv:advance"
     ELSE "ok"
HvCases(g, mi, li) ==
  (IF mi = 2 /\ g > 2 THEN {"hvar-map-last-entry"} ELSE {})
  \cup (IF mi = 1 /\ g = 4 THEN {"hvar-index-beyond-store"} ELSE {})
  \cup (IF mi = 1 THEN {"hvar-identity-map"} ELSE {})

(* ------------------------------ "av" -------------------------------------------------- *)
AvTriples == << <<100, 400, 900>>, <<0, 0, 1000>>, <<200, 900, 900>>, <<5, 5, 5>> >>
AvMaps == << <<>>, << <<-16384, -16384>>, <<0, 0>>, <<8192, 4096>>, <<16384, 16384>> >>,
             << <<-16384, -16384>>, <<-8192, -12288>>, <<0, 0>>, <<16384, 16384>> >>,
             << <<-16384, -16384>>, <<16384, 16384>> >> >>        \* the last one is invalid (no 0 -> 0)
AvUsers == <<-100, 0, 100, 250, 400, 525, 650, 900, 950, 1000, 5, 2000>>
AvFont(ti, mi) ==
  [glyphs |-> <<>>, hmtx |-> <<>>, gvar |-> <<>>, axes |-> << <<AvTriples[ti][1] * 65536, AvTriples[ti][2] * 65536, AvTriples[ti][3] * 65536>> >>,
   avar |-> IF mi = 1 THEN <<>> ELSE <<AvMaps[mi]>>, hvar |-> NoHvar]
AvLaws(ti, mi, ui) ==
  LET F == AvFont(ti, mi)
      tr == AvTriples[ti]
      v == AvUsers[ui]
      cv == IF v < tr[1] THEN tr[1] ELSE IF v > tr[3] THEN tr[3] ELSE v
      n1 == IF cv = tr[2] THEN R0 ELSE IF cv < tr[2] THEN Rat(cv - tr[2], tr[2] - tr[1]) ELSE Rat(cv - tr[2], tr[3] - tr[2])
      nl == NormLoc(F, <<RInt(v)>>)
      knots == IF mi = 1 THEN {} ELSE {k \in 1..Len(AvMaps[mi]) : F2(AvMaps[mi][k][1]) = n1}
  IN IF mi = 4 THEN (IF nl.why = "avar-invalid" THEN "ok" ELSE "av:invalid-map")
     ELSE IF nl.why = "loc-not-f2dot14" THEN (IF IsF2Dot14(n1) /\ IsF2Dot14(nl.loc[1]) THEN "av:guard" ELSE "ok")
     ELSE IF nl.why # "" THEN "av:domain"
     ELSE IF mi = 1 /\ nl.loc # <<n1>> THEN "av:normalize"
     ELSE IF RLt(nl.loc[1], RInt(-1)) \/ RLt(ROne, nl.loc[1]) THEN "av:range"
     ELSE IF knots # {} /\ nl.loc[1] # F2(AvMaps[mi][CHOOSE k \in knots : TRUE][2]) THEN "av:knot"
     ELSE IF NormLoc(F, <<RInt(cv)>>).loc # nl.loc THEN "av:clamped"
     ELSE IF (RIsZero(n1) # RIsZero(nl.loc[1])) \/ (RIsNeg(n1) # RIsNeg(nl.loc[1])) THEN "av:sign"
     ELSE "ok"
AvCases(ti, mi, ui) ==
  LET F == AvFont(ti, mi)
      nl == NormLoc(F, <<RInt(AvUsers[ui])>>)
  IN (IF mi \in {2, 3} /\ nl.why = "" /\ nl.loc # NormLoc(AvFont(ti, 1), <<RInt(AvUsers[ui])>>).loc THEN {"avar-mapped"} ELSE {})
     \cup (IF nl.why = "loc-not-f2dot14" THEN {"loc-not-f2dot14"} ELSE {})
     \cup (IF ti = 4 THEN {"degenerate-axis"} ELSE {})

(* ------------------------------ "eq" -------------------------------------------------- *)
EqLaws(xs, on, k) ==
  LET c == CtPts(xs, on)
      a == ContourAtoms(c)
      o == <<a>>
      n == Len(a)
      kk == ((k - 1) % n) + 1
      withZero == SubSeq(a, 1, kk) \o << <<a[kk][Len(a[kk])], a[kk][Len(a[kk])]>> >> \o SubSeq(a, kk + 1, n)
      moved == [a EXCEPT ![kk] = [a[kk] EXCEPT ![1] = <<RAdd(a[kk][1][1], ROne), a[kk][1][2]>>]]
      tol == Rat(1, 512)
  IN IF ~Drawn(a, tol) THEN (IF SameOutline(o, <<>>, tol) THEN "ok" ELSE "eq:null-contour")
     ELSE IF ~SameOutline(o, o, tol) THEN "eq:reflexive"
     ELSE IF ~SameOutline(o, <<Rotate(a, kk - 1)>>, tol) THEN "eq:rotation"
     ELSE IF ~SameOutline(o, <<withZero>>, tol) \/ ~SameOutline(<<withZero>>, o, tol) THEN "eq:zero-length"
     ELSE IF SameOutline(o, <<moved>>, tol) THEN "eq:moved-point"
     ELSE IF ~SameOutline(ShiftOutline(o, Rat(1, 1024)), o, tol) THEN "eq:within-tolerance"
     ELSE IF SameOutline(ShiftOutline(o, Rat(1, 128)), o, tol) THEN "eq:beyond-tolerance"
     ELSE IF LET G == 2048
                 g == GridOutline(o, G)
             IN \/ GridBad(g) \/ ~SameOutlineI(g, g, 4)
                \/ ~SameOutlineI(g, GridOutline(<<Rotate(a, kk - 1)>>, G), 4)
                \/ ~SameOutlineI(g, GridOutline(<<withZero>>, G), 4) \/ ~SameOutlineI(GridOutline(<<withZero>>, G), g, 4)
                \/ SameOutlineI(g, GridOutline(<<moved>>, G), 4)
                \/ ~SameOutlineI(GridOutline(ShiftOutline(o, Rat(1, 1024)), G), g, 4)
                \/ SameOutlineI(GridOutline(ShiftOutline(o, Rat(1, 128)), G), g, 4)
                \/ SameOutlineI(g, <<>>, 4)
          THEN "eq:grid"
     ELSE IF \E nn \in {-7, -1, 0, 2, 5} : \E d \in {1, 3, 7, 4096} :
               LET v == GridCoord(Rat(nn, d), 2048) IN v = GBad \/ 2 * IDist(v * d, nn * 2048) > d THEN "eq:gridcoord"
     ELSE IF \E nn \in {-70000001, 5, 123456789} : \E d \in {3145729, 1048577} :   \* big denominators: within 1/2 + 1/16
               LET v == GridCoord(Rat(nn, d), 2048)
                   x == Rat(nn, d)
               IN v = GBad \/ RLt(Rat(9, 16), RAbs(RSub(RMul(RSub(x, RInt(x[1] \div x[2])), RInt(2048)), RInt(v - (x[1] \div x[2]) * 2048))))
          THEN "eq:gridcoord-big-denominator"
     ELSE IF GridCoord(Rat(4000000, 3), 2048) # GBad \/ GridCoord(RNaN, 2048) # GBad THEN "eq:gridcoord-overflow"
     ELSE IF ShiftCandidates(Rat(5, 2), TRUE) # {Rat(5, 2), RInt(2), RInt(3)} \/ ShiftCandidates(Rat(-7, 4), TRUE) # {Rat(-7, 4), RInt(-2)}
             \/ ShiftCandidates(Rat(5, 2), FALSE) # {Rat(5, 2)} THEN "eq:shift-candidates"
     ELSE IF ~AdvanceOK(RInt(611), Rat(1223, 2), tol) \/ ~AdvanceOK(RInt(612), Rat(1223, 2), tol) \/ AdvanceOK(RInt(613), Rat(1223, 2), tol)
             \/ AdvanceOK(Rat(2445, 4), Rat(1223, 2), tol) THEN "eq:advance-rounding"
     ELSE "ok"

(* ------------------------------ universes ---------------------------------------------- *)
Laws(v) ==
  CASE v[1] = "ct" -> CtLaws(v[2], v[3])
    [] v[1] = "gv" -> GvLaws(v[2], v[3], v[4], v[5], v[6])
    [] v[1] = "cp" -> CpLaws(v[2], v[3], v[4], v[5], v[6], v[7], v[8], v[9], v[10])
    [] v[1] = "pm" -> PmLaws(v[2], v[3], v[4])
    [] v[1] = "hv" -> HvLaws(v[2], v[3], v[4])
    [] v[1] = "av" -> AvLaws(v[2], v[3], v[4])
    [] v[1] = "eq" -> EqLaws(v[2], v[3], v[4])
Cases(v) ==
  CASE v[1] = "ct" -> CtCases(v[2], v[3])
    [] v[1] = "gv" -> GvCases(v[2], v[3], v[4], v[5], v[6])
    [] v[1] = "cp" -> CpCases(v[2], v[3], v[4], v[5], v[6], v[7], v[8], v[9], v[10])
    [] v[1] = "pm" -> {"point-matching"}
    [] v[1] = "hv" -> HvCases(v[2], v[3], v[4])
    [] v[1] = "av" -> AvCases(v[2], v[3], v[4])
    [] v[1] = "eq" -> {"outline-equality"}

Init ==
  /\ phase = "gen"
  /\ \/ \E n \in 1..NP : \E xs \in [1..n -> 0..C] : \E on \in [1..n -> {0, 1}] : u = <<"ct", xs, on>>
     \/ \E xs \in [1..3 -> 0..C] : \E ds \in [1..3 -> DSET] : \E m \in [1..3 -> BOOLEAN] :
          \E ti \in 1..Len(GvTents) : \E li \in 1..Len(GvUser) :
             (DSEL # 1 \/ ds[2] = 2) /\ u = <<"gv", xs, ds, m, ti, li>>
     \/ \E t1 \in 1..Len(CpTr) : \E o1 \in 1..3 : \E f1 \in 1..4 : \E t2 \in 1..Len(CpTr) : \E o2 \in 1..3 : \E f2 \in 1..4 :
          \E um \in 0..1 : \E dl \in 0..1 : \E li \in 0..(IF dl = 0 THEN 0 ELSE 2) : u = <<"cp", t1, o1, f1, t2, o2, f2, um, dl, li>>
     \/ \E ti \in 1..Len(CpTr) : \E a1 \in 0..4 : \E a2 \in 0..4 : u = <<"pm", ti, a1, a2>>
     \/ \E g \in 1..4 : \E mi \in 1..3 : \E li \in 0..4 : u = <<"hv", g, mi, li>>
     \/ \E ti \in 1..Len(AvTriples) : \E mi \in 1..Len(AvMaps) : \E ui \in 1..Len(AvUsers) : u = <<"av", ti, mi, ui>>
     \/ \E n \in 1..NP : \E xs \in [1..n -> 0..C] : \E on \in [1..n -> {0, 1}] : \E k \in 1..2 : u = <<"eq", xs, on, k>>
(* ---- generation (R): the same universes exported as font descriptions; the harness realises
   each with FontBuilder, reads the bytes back with the independent readers (and requires the
   description it gets to be this one), draws every glyph with fontTools at the lattice
   locations and lets Trace_C05 judge.  CpFontGen keeps USE_MY_METRICS consistent (the
   composite has the flagged component's advance and phantom point 1); the invalid
   SCALED + UNSCALED combination is not generated. *)
CpFontGen(c1, c2, dl, um) ==
  LET F == CpFont(c1, c2, dl) IN
  IF um = 1 THEN [F EXCEPT !.hmtx[3] = <<F.hmtx[2][1], F.glyphs[3].xMin - (F.glyphs[2].xMin - F.hmtx[2][2])>>] ELSE F
GenFont(v) ==
  CASE v[1] = "cp" -> CpFontGen(Comp(1, v[2], v[3], v[4], 0), Comp(2, v[5], v[6], v[7], IF v[8] = 1 THEN USE_MY_METRICS ELSE 0),
                                <<2 * v[9], v[9]>>, v[8])
    [] v[1] = "pm" -> PmFont(v[2], v[3], v[4])
    [] v[1] = "gv" -> GvFont(v[2], v[3], v[4], v[5])
GenInit ==
  /\ phase = "gen"
  /\ \/ \E t1 \in 1..Len(CpTr) : \E o1 \in 1..3 : \E f1 \in 1..3 : \E t2 \in 1..Len(CpTr) : \E o2 \in 1..3 : \E f2 \in 1..3 :
          \E um \in 0..1 : \E dl \in 0..1 : u = <<"cp", t1, o1, f1, t2, o2, f2, um, dl>>
     \/ \E ti \in 1..Len(CpTr) : \E a1 \in 0..3 : \E a2 \in 0..3 : u = <<"pm", ti, a1, a2>>
     \/ \E xs \in [1..3 -> 0..C] : \E ds \in [1..3 -> DSET] : \E m \in [1..3 -> BOOLEAN] :
          \E ti \in 1..Len(GvTents) : u = <<"gv", xs, ds, m, ti>>
GenNext == UNCHANGED vars
EmitGen == PrintT(<<"GEN", ToJson([u |-> u, F |-> GenFont(u)])>>)

Next == \/ /\ phase = "gen" /\ phase' = Laws(u) /\ UNCHANGED u
        \/ /\ phase = "ok"
           /\ \E c \in Cases(u) : phase' = "case" /\ u' = c
Sound == phase \in {"gen", "ok", "case"}
Emit == phase = "case" => PrintT(<<"COV", u>>)
=============================================================================
