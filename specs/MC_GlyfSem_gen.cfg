CONSTANTS
  NP = 4
  C = 2
  DSEL = 1
INIT GenInit
NEXT GenNext
CONSTRAINT EmitGen
CHECK_DEADLOCK FALSE
