CONSTANTS
  NP = 5
  C = 3
  DSEL = 3
INIT Init
NEXT Next
INVARIANT Sound
INVARIANT Emit
CHECK_DEADLOCK FALSE
