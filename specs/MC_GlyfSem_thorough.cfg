CONSTANTS
  NP = 5
  C = 3
  DSEL = 2
INIT Init
NEXT Next
INVARIANT Sound
INVARIANT Emit
CHECK_DEADLOCK FALSE
