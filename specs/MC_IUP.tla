------------------------------- MODULE MC_IUP -------------------------------
(* (M) for IUP: laws of the inference on EVERY one-contour glyph of NP points with
   coordinates x in 0..C (y mirrors x reversed, so both coordinates are exercised with
   different orderings), deltas in -DM..DM per coordinate (dy = -dx) and every subset of
   referenced points:
     Identity      all points referenced -> the deltas themselves
     Rotation      the result does not depend on which point starts the contour
     Bounded       an inferred delta lies between the two reference deltas, or is 0
     SegmentForm   equals the clamped linear interpolation between the references
     SelfOptimal   re-inferring from the referenced subset of the inferred vector is a
                   fixed point, and that vector is an optimised form of itself (tol 0)
   plus the cases of the analysis that fired (printed once each). *)
EXTENDS IUP, TLC
CONSTANTS NP, C, DM
VARIABLES xs, ds, mask, phase
vars == <<xs, ds, mask, phase>>

Pt(x) == <<RInt(x), RInt(C - x)>>
Phantom == <<Pt(0), Pt(0), Pt(0), Pt(0)>>
Coords(x) == TLCEval([i \in 1..NP |-> Pt(x[i])]) \o Phantom
Dl(d) == <<RInt(d), RInt(-d)>>
Deltas(d, m) == TLCEval([i \in 1..NP |-> IF m[i] THEN Dl(d[i]) ELSE NoDelta])
                  \o <<Dl(0), Dl(0), Dl(0), Dl(0)>>
Ends == <<NP - 1>>
Rot(s) == TLCEval([i \in 1..NP |-> s[(i % NP) + 1]])

Clamp01(v) == RMax(RZero, RMin(ROne, v))
SegmentCoord(tg, pg, fg, pd, fd) ==
  IF pg = fg THEN (IF pd = fd THEN pd ELSE RZero)
  ELSE RAdd(pd, RMul(Clamp01(RDiv(RSub(tg, pg), RSub(fg, pg))), RSub(fd, pd)))

Laws(x, d, m) ==
  LET co == Coords(x)
      de == Deltas(d, m)
      inf == Infer(co, Ends, de)
      refs == {j \in 1..NP : m[j]}
      rinf == Infer(Coords(Rot(x)), Ends, Deltas(Rot(d), Rot(m)))
  IN IF refs = 1..NP /\ inf # de THEN "identity"
     ELSE IF \E i \in 1..NP : rinf[i] # inf[(i % NP) + 1] THEN "rotation"
     ELSE IF refs = {} /\ \E i \in 1..NP : inf[i] # Dl(0) THEN "no-reference"
     ELSE IF refs # {} /\ \E i \in (1..NP) \ refs : \E c \in 1..2 :
               LET p == PrevRef(refs, i) f == NextRef(refs, i) v == inf[i][c] IN
               \/ ~(v = RZero \/ (RLe(RMin(de[p][c], de[f][c]), v) /\ RLe(v, RMax(de[p][c], de[f][c]))))
               \/ v # SegmentCoord(co[i][c], co[p][c], co[f][c], de[p][c], de[f][c])
          THEN "bounded-or-segment-form"
     ELSE IF Infer(co, Ends, [i \in 1..(NP + 4) |-> IF i \in refs \/ i > NP THEN inf[i] ELSE NoDelta]) # inf
          THEN "fixed-point"
     ELSE IF ~OptimizedOK(co, Ends, inf, de, RZero) THEN "self-optimal"
     ELSE "ok"

CasesOf(x, d, m) ==
  LET co == Coords(x) de == Deltas(d, m) refs == {j \in 1..NP : m[j]} IN
  IF refs = {} THEN {"no-reference"}
  ELSE {"explicit" : i \in refs} \cup
       UNION {{InferCase(co[i][c], co[PrevRef(refs, i)][c], co[NextRef(refs, i)][c],
                         de[PrevRef(refs, i)][c], de[NextRef(refs, i)][c]) : c \in 1..2}
                : i \in (1..NP) \ refs}
       \cup (IF Cardinality(refs) = 1 THEN {"single-reference"} ELSE {})
       \cup (IF \E i \in (1..NP) \ refs : PrevRef(refs, i) > i \/ NextRef(refs, i) < i THEN {"wrap-around"} ELSE {})

Init == /\ xs \in [1..NP -> 0..C] /\ ds \in [1..NP -> (-DM)..DM] /\ mask \in [1..NP -> BOOLEAN]
        /\ phase = "gen"
Next == \/ /\ phase = "gen" /\ phase' = Laws(xs, ds, mask) /\ UNCHANGED <<xs, ds, mask>>
        \/ /\ phase = "ok"
           /\ \E c \in CasesOf(xs, ds, mask) : phase' = "case" /\ xs' = c /\ ds' = 0 /\ mask' = 0
Sound == phase \in {"gen", "ok", "case"}
Emit == phase = "case" => PrintT(<<"CASE", xs>>)
=============================================================================
