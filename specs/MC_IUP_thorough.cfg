CONSTANTS NP = 4  C = 2  DM = 1
INIT Init
NEXT Next
INVARIANT Sound
INVARIANT Emit
CHECK_DEADLOCK FALSE
