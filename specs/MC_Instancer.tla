---------------------------- MODULE MC_Instancer ----------------------------
(* (M) for Instancer: on whole small lattices the OPERATIONAL instancing of the specification
   (per-axis tent rebasing, scaling, merging of equal regions, default-delta extraction, avar
   and condition-range renormalisation, rounding) satisfies the declarative CONTRACT:
     PreservedExact   before rounding, at every eighth-lattice point of the new space, exactly;
     Preserved        after rounding, within the derived budget;
     AxesCorrect, Static, FeatureVars; store-level and font-level formulations agree.
   Each case is also exported (<<"GEN", ...>>) and replayed into the real instancer.

   FAMILY  "one"   1 axis,  tents / limits on the 1/D lattice, 1..NV delta sets, 2 items
           "two"   2 axes,  same, limits of the second axis from a CONSTANT subset when QUICK
           "avar"  1 axis with a segment map from Maps, limits in user space
           "fv"    feature-variation records (condition boxes) on 1..2 axes
   Lattice encoding: a coordinate k stands for k/D; user axes are <<-D*dn, 0, D*dp>> so that
   user coordinate U(k) = k*dn (k < 0), k*dp (k >= 0) normalises to k/D.                     *)
EXTENDS Instancer, SequencesExt, Json, TLC
CONSTANTS FAMILY, D, NV, DeltaVecs, Dists, Lim2, MapIds
VARIABLES phase, cs, verdict
vars == <<phase, cs, verdict>>

Q(k) == Rat(k, D)
T(t) == <<Q(t[1]), Q(t[2]), Q(t[3])>>
(* tents of the lattice inside [-1, 1] that are in the domain (module Tent), as integer triples *)
TentSet == {t \in ((-D)..D) \X ((-D)..D) \X ((-D)..D) : t[1] <= t[2] /\ t[2] <= t[3] /\ WellFormedTent(T(t))}
TentSeq == TLCEval(SetToSeq(TentSet))
NT == Len(TentSeq)
NoT == <<0, 0, 0>>
LimSet == {l \in ((-D)..D) \X ((-D)..D) \X ((-D)..D) : l[1] <= l[2] /\ l[2] <= l[3]}
FullLim == <<-D, 0, D>>

U(k, dn, dp) == IF k < 0 THEN k * dn ELSE k * dp
UserAxis(d) == <<RInt(-D * d[1]), RZero, RInt(D * d[2])>>
UserLim(l) == <<RInt(U(l[1], l[4], l[5])), RInt(U(l[2], l[4], l[5])), RInt(U(l[3], l[4], l[5]))>>
NLim(l) == <<Q(l[1]), Q(l[2]), Q(l[3]), RInt(D * l[4]), RInt(D * l[5])>>
(* eighth-lattice points of one axis inside a limit, as user coordinates / old normalised *)
UserPts(l) == {Rat(U(k, l[4], l[5]), 2) : k \in (2 * l[1])..(2 * l[3])}
NormPts(l) == {Rat(k, 2 * D) : k \in (2 * l[1])..(2 * l[3])}
(* all locations: sequences over the axes *)
Locs(ptsOf(_), lims) ==
  IF Len(lims) = 1 THEN {<<x>> : x \in ptsOf(lims[1])}
  ELSE {<<x, y>> : x \in ptsOf(lims[1]), y \in ptsOf(lims[2])}

Maps == << <<>>,
           << <<-D, -D>>, <<0, 0>>, <<2, 1>>, <<D, D>> >>,
           << <<-D, -D>>, <<-2, -3>>, <<0, 0>>, <<D, D>> >>,
           << <<-D, -D>>, <<-3, -2>>, <<-1, -1>>, <<0, 0>>, <<1, 2>>, <<3, 3>>, <<D, D>> >> >>
MapOf(i) == TLCEval([k \in 1..Len(Maps[i]) |-> <<Q(Maps[i][k][1]), Q(Maps[i][k][2])>>])

(* ---- the case -> abstract font ------------------------------------------------------------ *)
NAxes(c) == Len(c.lims)
NItems(c) == Len(c.vars[1][2])
RegOf(r) == TLCEval([a \in 1..Len(r) |-> T(r[a])])
SharedVars(c) == TLCEval([k \in 1..Len(c.vars) |-> <<RegOf(c.vars[k][1]), TLCEval([j \in 1..Len(c.vars[k][2]) |-> RInt(c.vars[k][2][j])])>>])
ItemOf(c, j) == [base |-> RInt(10 * j), vars |-> TLCEval([k \in 1..Len(c.vars) |-> <<RegOf(c.vars[k][1]), RInt(c.vars[k][2][j])>>])]
BoxOf(b) == TLCEval([a \in 1..Len(b) |-> IF Len(b[a]) = 0 THEN <<>> ELSE <<Q(b[a][1]), Q(b[a][2])>>])
FontOf(c) ==
  [axes |-> TLCEval([a \in 1..NAxes(c) |-> UserAxis(<<c.lims[a][4], c.lims[a][5]>>)]),
   avar |-> TLCEval([a \in 1..NAxes(c) |-> IF a = 1 THEN MapOf(c.map) ELSE <<>>]),
   items |-> TLCEval([j \in 1..NItems(c) |-> ItemOf(c, j)]),
   fvs |-> TLCEval([r \in 1..Len(c.fvs) |-> [box |-> BoxOf(c.fvs[r]), sub |-> r]]),
   defsub |-> 0]
ULims(c) == TLCEval([a \in 1..NAxes(c) |-> UserLim(c.lims[a])])

(* ---- verdict ------------------------------------------------------------------------------ *)
Worst(vs) == IF "differs" \in vs THEN "differs" ELSE IF "overflow" \in vs THEN "overflow" ELSE "ok"
Verdict(c) ==
  LET font == FontOf(c)
      ulims == ULims(c)
      fx == Instantiate(font, ulims, FALSE)
      fr == Instantiate(font, ulims, TRUE)
      ulocs == Locs(UserPts, c.lims)
      items == 1..NItems(c)
      exact == Worst({PreservedAt(font, ulims, fx, i, u, 0, RZero) : i \in items, u \in ulocs})
      rounded == Worst({PreservedAt(font, ulims, fr, i, u, 1, RZero) : i \in items, u \in ulocs})
      (* store level (only without a segment map: there the normalised limits are the lattice ones) *)
      nlims == TLCEval([a \in 1..NAxes(c) |-> NLim(c.lims[a])])
      st == InstantiateVarsExact(SharedVars(c), nlims, NItems(c))
      str == RoundVars(st[2])
      nlocs == Locs(NormPts, c.lims)
      sv(vs, j) == TLCEval([k \in 1..Len(vs) |-> <<vs[k][1], vs[k][2][j]>>])
      storeX == Worst({StorePreservedAt(ItemOf(c, j).vars, nlims, st[1][j], sv(st[2], j), x, 0, 0) : j \in items, x \in nlocs})
      storeR == Worst({StorePreservedAt(ItemOf(c, j).vars, nlims, st[1][j], sv(str, j), x, 0, 1) : j \in items, x \in nlocs})
  IN IF ~WellFormedLimits(font, ulims) THEN "malformed-limits"
     ELSE IF ~AxesCorrect(ulims, fr) THEN "AxesCorrect"
     ELSE IF ~Static(ulims, fr) THEN "Static"
     ELSE IF exact # "ok" THEN "PreservedExact:" \o exact
     ELSE IF rounded # "ok" THEN "Preserved:" \o rounded
     ELSE IF c.map = 1 /\ NormLimits(font, ulims) # nlims THEN "NormLimits"
     ELSE IF c.map = 1 /\ storeX # "ok" THEN "StoreExact:" \o storeX
     ELSE IF c.map = 1 /\ storeR # "ok" THEN "StoreRounded:" \o storeR
     ELSE IF \E i \in items : \E k \in 1..Len(fr.items[i].vars) : \E a \in 1..Len(fr.axes) :
               LET t == fr.items[i].vars[k][1][a] IN ~(RLe(RInt(-1), t[1]) /\ RLe(t[3], ROne))
          THEN "TentsInRange"
     ELSE IF \E u \in ulocs : ~FeatureVarsAt(font, ulims, fr, u) THEN "FeatureVars"
     ELSE "ok"

(* ---- constant values named by the configurations (cfg files cannot write tuples) -------------- *)
DV_std == << {<<3, -4>>}, {<<-2, 1>>}, {<<4, -1>>} >>
DV_two == << {<<3, -4>>, <<-1, 2>>}, {<<-2, 1>>, <<4, 3>>}, {<<4, -1>>} >>
Dists_sym == {<<1, 1>>}
Dists_two == {<<1, 1>>, <<1, 2>>}
Dists_all == {<<1, 1>>, <<1, 2>>, <<2, 1>>}
Lim2_none == {}
(* second-axis limits of the quick two-axis run: untouched, pinned off-default, range with moved
   default crossing the old default, L4-style partial range on one side *)
Lim2_quick == {<<-D, 0, D, 1, 1>>, <<D \div 2, D \div 2, D \div 2, 1, 1>>, <<-(D \div 2), D \div 2, D, 1, 2>>, <<0, 0, D \div 2, 1, 1>>}
Lim2_all == {<<l[1], l[2], l[3], d[1], d[2]>> : l \in {t \in ((-D)..D) \X ((-D)..D) \X ((-D)..D) : t[1] <= t[2] /\ t[2] <= t[3]}, d \in Dists_two}

(* ---- generators ---------------------------------------------------------------------------- *)
Case(v, l, m, f) == [vars |-> v, lims |-> l, map |-> m, fvs |-> f]
Lim5(l, d) == <<l[1], l[2], l[3], d[1], d[2]>>
DV(k) == DeltaVecs[k]
InitOne ==
  \E l \in LimSet : \E d \in Dists : \E n \in 1..NV : \E i \in 1..NT :
    \/ /\ n = 1 /\ \E dv \in DV(1) : cs = Case(<< <<<<TentSeq[i]>>, dv>> >>, <<Lim5(l, d)>>, 1, <<>>)
    \/ /\ n = 2 /\ \E j \in (i + 1)..NT : \E dv \in DV(1) : \E dw \in DV(2) :
            cs = Case(<< <<<<TentSeq[i]>>, dv>>, <<<<TentSeq[j]>>, dw>> >>, <<Lim5(l, d)>>, 1, <<>>)
    \/ /\ n = 3 /\ \E j \in (i + 1)..NT : \E k \in (j + 1)..NT : \E dv \in DV(1) : \E dw \in DV(2) : \E dx \in DV(3) :
            cs = Case(<< <<<<TentSeq[i]>>, dv>>, <<<<TentSeq[j]>>, dw>>, <<<<TentSeq[k]>>, dx>> >>, <<Lim5(l, d)>>, 1, <<>>)
(* two axes: regions are pairs of (tent or none), not both none *)
Reg2Set == {<<a, b>> : a \in TentSet \cup {NoT}, b \in TentSet \cup {NoT}} \ {<<NoT, NoT>>}
Reg2Seq == TLCEval(SetToSeq(Reg2Set))
NR2 == Len(Reg2Seq)
InitTwo ==
  \E l1 \in LimSet : \E d1 \in Dists : \E l2 \in Lim2 : \E n \in 1..NV : \E i \in 1..NR2 :
    \/ /\ n = 1 /\ \E dv \in DV(1) : cs = Case(<< <<Reg2Seq[i], dv>> >>, <<Lim5(l1, d1), l2>>, 1, <<>>)
    \/ /\ n = 2 /\ \E j \in (i + 1)..NR2 : \E dv \in DV(1) : \E dw \in DV(2) :
            cs = Case(<< <<Reg2Seq[i], dv>>, <<Reg2Seq[j], dw>> >>, <<Lim5(l1, d1), l2>>, 1, <<>>)
InitAvar ==
  \E l \in LimSet : \E d \in Dists : \E m \in MapIds : \E i \in 1..NT : \E dv \in DV(1) :
    \/ cs = Case(<< <<<<TentSeq[i]>>, dv>> >>, <<Lim5(l, d)>>, m, <<>>)
    \/ \E j \in (i + 1)..NT : \E dw \in DV(2) : j % 3 = i % 3 /\
         cs = Case(<< <<<<TentSeq[i]>>, dv>>, <<<<TentSeq[j]>>, dw>> >>, <<Lim5(l, d)>>, m, <<>>)
(* feature variations: condition ranges on the lattice, <<>> = no condition *)
Ranges == {r \in ((-D)..D) \X ((-D)..D) : r[1] <= r[2]}
CondSet == Ranges \cup {<<>>}
InitFv ==
  \E l1 \in LimSet : \E d1 \in Dists : \E l2 \in Lim2 :
    \E a1 \in CondSet : \E a2 \in CondSet : \E b1 \in CondSet : \E b2 \in CondSet : \E dv \in DV(1) :
      cs = Case(<< <<<<NoT, NoT>>, dv>> >>, <<Lim5(l1, d1), l2>>, 1, << <<a1, a2>>, <<b1, b2>> >>)

Init == /\ phase = "gen" /\ verdict = "pending"
        /\ IF FAMILY = "one" THEN InitOne
           ELSE IF FAMILY = "two" THEN InitTwo
           ELSE IF FAMILY = "avar" THEN InitAvar
           ELSE InitFv
Next == /\ phase = "gen" /\ phase' = "judged"
        /\ verdict' = Verdict(cs) /\ UNCHANGED cs
Sound == verdict \in {"pending", "ok"}
Emit == phase = "gen" => PrintT(<<"GEN", ToJson(cs)>>)
Bad == (phase = "judged" /\ verdict # "ok") => PrintT(<<"BAD", verdict, ToJson(cs)>>)
=============================================================================
