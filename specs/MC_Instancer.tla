---------------------------- MODULE MC_Instancer ----------------------------
(* (M) for Instancer: on whole small lattices the OPERATIONAL instancing of the specification
   (limit normalisation, per-axis tent rebasing, scaling, merging of equal regions, default-delta
   folding, avar and condition-range renormalisation, rounding) satisfies the declarative CONTRACT:
     PreservedExact   before rounding, at every half-step point of the new space, exactly;
     Preserved        after rounding, within the derived budget;
     AxesCorrect, Static, TentsInRange, FeatureVars (except where the named deviation D-FV1 of
     the code fires: those cases are printed as BAD and must be reproduced by the real code).
   Every case is exported (<<"GEN", json>>) and replayed into the real instancer; the operational
   steps that fired are exported as <<"COV", ...>> (non-vacuity evidence).

   FAMILY  "one"   1 axis,  tents / limits on the 1/D lattice, 1..NV delta sets, 2 items
           "two"   2 axes,  same; limits of the second axis from the CONSTANT Lim2
           "avar"  1 axis with a segment map from Maps, limits in user space
           "fv"    2 axes, two feature-variation records (condition boxes from Conds)
   Lattice encoding: a coordinate k stands for k/D; user axes are <<-D*dn, 0, D*dp>> so that
   user coordinate U(k) = k*dn (k < 0), k*dp (k >= 0) normalises to k/D.                     *)
EXTENDS Instancer, SequencesExt, Json, TLC
CONSTANTS FAMILY, D, NV, DeltaVecs, Dists, Lim2, MapIds, Conds
VARIABLES phase, cs, verdict
vars == <<phase, cs, verdict>>

Q(k) == Rat(k, D)
T(t) == <<Q(t[1]), Q(t[2]), Q(t[3])>>
(* tents of the lattice inside [-1, 1] that are in the domain (module Tent), as integer triples *)
TentSet == {t \in ((-D)..D) \X ((-D)..D) \X ((-D)..D) : t[1] <= t[2] /\ t[2] <= t[3] /\ WellFormedTent(T(t))}
TentSeq == TLCEval(SetToSeq(TentSet))
NT == Len(TentSeq)
NoT == <<0, 0, 0>>
LimSet == {l \in ((-D)..D) \X ((-D)..D) \X ((-D)..D) : l[1] <= l[2] /\ l[2] <= l[3]}
FullLim == <<-D, 0, D>>

U(k, dn, dp) == IF k < 0 THEN k * dn ELSE k * dp
UserAxis(d) == <<RInt(-D * d[1]), RZero, RInt(D * d[2])>>
UserLim(l) == <<RInt(U(l[1], l[4], l[5])), RInt(U(l[2], l[4], l[5])), RInt(U(l[3], l[4], l[5]))>>
NLim(l) == <<Q(l[1]), Q(l[2]), Q(l[3]), RInt(D * l[4]), RInt(D * l[5])>>
(* half-step points of one axis inside a limit (eighth lattice for D = 4), as user coordinates *)
UserPts(l) == {Rat(U(k, l[4], l[5]), 2) : k \in (2 * l[1])..(2 * l[3])}
Locs(lims) ==
  IF Len(lims) = 1 THEN {<<x>> : x \in UserPts(lims[1])}
  ELSE {<<x, y>> : x \in UserPts(lims[1]), y \in UserPts(lims[2])}

Maps == << <<>>,
           << <<-D, -D>>, <<0, 0>>, <<2, 1>>, <<D, D>> >>,
           << <<-D, -D>>, <<-2, -3>>, <<0, 0>>, <<D, D>> >>,
           << <<-D, -D>>, <<-3, -2>>, <<-1, -1>>, <<0, 0>>, <<1, 2>>, <<3, 3>>, <<D, D>> >> >>
MapOf(i) == TLCEval([k \in 1..Len(Maps[i]) |-> <<Q(Maps[i][k][1]), Q(Maps[i][k][2])>>])

(* ---- the case -> abstract font ------------------------------------------------------------ *)
NAxes(c) == Len(c.lims)
NItems(c) == IF Len(c.vars) = 0 THEN 1 ELSE Len(c.vars[1][2])
RegOf(r) == TLCEval([a \in 1..Len(r) |-> T(r[a])])
IntSeq(s) == TLCEval([j \in 1..Len(s) |-> RInt(s[j])])
FontOf(c) ==
  [axes |-> TLCEval([a \in 1..NAxes(c) |-> UserAxis(<<c.lims[a][4], c.lims[a][5]>>)]),
   avar |-> TLCEval([a \in 1..NAxes(c) |-> IF a = 1 THEN MapOf(c.map) ELSE <<>>]),
   bases |-> TLCEval([j \in 1..NItems(c) |-> RInt(10 * j)]),
   vars |-> TLCEval([k \in 1..Len(c.vars) |-> <<RegOf(c.vars[k][1]), IntSeq(c.vars[k][2])>>]),
   fvs |-> TLCEval([r \in 1..Len(c.fvs) |->
             [box |-> TLCEval([a \in 1..Len(c.fvs[r]) |-> IF Len(c.fvs[r][a]) = 0 THEN <<>> ELSE <<Q(c.fvs[r][a][1]), Q(c.fvs[r][a][2])>>]),
              sub |-> r]]),
   defsub |-> 0]
ULims(c) == TLCEval([a \in 1..NAxes(c) |-> UserLim(c.lims[a])])

(* ---- verdict ------------------------------------------------------------------------------ *)
(* at one location: <<exact verdict, rounded verdict, feature variations agree>> *)
AtLoc(font, ulims, fx, fr, u) ==
  LET want == Values(font, u)
      u2 == ProjLoc(ulims, u)
      n2 == NormLoc(fx, u2)
      sx == Scalars(fx.vars, n2)
      gx == ValuesSc(fx, sx)
      gr == ValuesSc(fr, sx)                 \* fr has the regions of fx
      bud == BudgetSc(sx, 1)
      I == 1..Len(font.bases)
  IN << Worst({Within(gx[i], want[i], RZero) : i \in I}),
        Worst({Within(gr[i], want[i], bud) : i \in I}),
        ActiveSubN(fr, n2) = ActiveSub(font, u) >>
Verdict(c) ==
  LET font == FontOf(c)
      ulims == ULims(c)
      fx == InstantiateExact(font, ulims)
      fr == RoundFont(fx)
      res == {AtLoc(font, ulims, fx, fr, u) : u \in Locs(c.lims)}
      exact == Worst({r[1] : r \in res})
      rounded == Worst({r[2] : r \in res})
      nlims == TLCEval([a \in 1..NAxes(c) |-> NLim(c.lims[a])])
      fi == InstantiateFvsIdeal(font, NormLimits(font, ulims))      \* feature variations without D-FV1
  IN IF ~WellFormedLimits(font, ulims) THEN "malformed-limits"
     ELSE IF ~AxesCorrect(ulims, fr) THEN "AxesCorrect"
     ELSE IF ~Static(ulims, fr) THEN "Static"
     ELSE IF c.map = 1 /\ NormLimits(font, ulims) # nlims THEN "NormLimits"
     ELSE IF exact # "ok" THEN "PreservedExact:" \o exact
     ELSE IF rounded # "ok" THEN "Preserved:" \o rounded
     ELSE IF \E k \in 1..Len(fr.vars) : \E a \in 1..Len(fr.axes) :
               LET t == fr.vars[k][1][a] IN ~(RLe(RInt(-1), t[1]) /\ RLe(t[3], ROne))
          THEN "TentsInRange"
     ELSE IF Len(font.fvs) > 0 /\ \E u \in Locs(c.lims) :
               ActiveSubN(fi, NormLoc(fx, ProjLoc(ulims, u))) # ActiveSub(font, u) THEN "FeatureVarsIdeal"
     ELSE IF AllPinned(ulims) /\ fi.fvs # <<>> THEN "StaticIdeal"
     ELSE IF \E r \in res : ~r[3]
          THEN (IF FvDeviation(font.fvs, NormLimits(font, ulims)) THEN "FeatureVars:applied-record-without-remaining-conditions"
                ELSE "FeatureVars")
     ELSE "ok"

(* which operational steps the case exercises (non-vacuity evidence) *)
Cov(c) ==
  LET font == FontOf(c)
      ulims == ULims(c)
      nlims == NormLimits(font, ulims)
      lim == LimitAxesFrom(font.vars, nlims, 1)
      mer == Merge(lim)
      ex == InstantiateVarsExact(font.vars, nlims, Len(font.bases))
      fv == FvLoop(font, nlims, 1, FvStart(font), FALSE)
      L == c.lims
  IN (IF \E a \in 1..Len(L) : L[a][1] = L[a][3] /\ L[a][1] # 0 THEN {"pin"} ELSE {})
     \cup (IF \E a \in 1..Len(L) : L[a][1] = L[a][3] /\ L[a][1] = 0 THEN {"drop"} ELSE {})
     \cup (IF \E a \in 1..Len(L) : L[a][1] < L[a][3] /\ L[a][2] = 0 /\ <<L[a][1], L[a][3]>> # <<-D, D>> THEN {"range"} ELSE {})
     \cup (IF \E a \in 1..Len(L) : L[a][1] < L[a][3] /\ L[a][2] # 0 THEN {"moved-default"} ELSE {})
     \cup (IF \E a \in 1..Len(L) : L[a][1] < 0 /\ 0 < L[a][2] THEN {"default-crosses-old-default"} ELSE {})
     \cup (IF \E a \in 1..Len(L) : L[a][4] # L[a][5] THEN {"asymmetric-axis"} ELSE {})
     \cup (IF Len(lim) > Len(font.vars) THEN {"split"} ELSE {})
     \cup (IF Len(lim) < Len(font.vars) \/ \E k \in 1..Len(font.vars) : \E a \in 1..Len(L) :
                ~RIsZero(font.vars[k][1][a][2]) /\ Len(RebaseTent(font.vars[k][1][a], nlims[a])) = 0 THEN {"vanish"} ELSE {})
     \cup (IF Len(mer) < Len(lim) THEN {"merge"} ELSE {})
     \cup (IF \E j \in 1..Len(ex[1]) : ~RIsZero(ex[1][j]) THEN {"default-fold"} ELSE {})
     \cup (IF \E k \in 1..Len(ex[2]) : \E j \in 1..Len(ex[2][k][2]) : ~RIsInt(ex[2][k][2][j]) THEN {"round-delta"} ELSE {})
     \cup (IF \E j \in 1..Len(ex[1]) : ~RIsInt(ex[1][j]) THEN {"round-base"} ELSE {})
     \cup (IF Len(ex[2]) > 0 THEN {"still-variable"} ELSE {})
     \cup (IF c.map # 1 /\ ~AllPinned(ulims) /\ Len(InstantiateExact(font, ulims).avar[1]) > 3 THEN {"avar-knot-kept"} ELSE {})
     \cup (IF c.map # 1 /\ ~AllPinned(ulims) /\ Len(InstantiateExact(font, ulims).avar[1]) < Len(font.avar[1]) THEN {"avar-knot-dropped"} ELSE {})
     \cup (IF Len(c.fvs) > 0 /\ fv.applied THEN {"fv-applied"} ELSE {})
     \cup (IF Len(c.fvs) > 0 /\ fv.universal THEN {"fv-universal"} ELSE {})
     \cup (IF Len(c.fvs) > 0 /\ fv.applied /\ Len(fv.recs) > 0 /\ ~fv.universal THEN {"fv-catchall"} ELSE {})
     \cup (IF Len(c.fvs) > 0 /\ Len(fv.recs) < Len(c.fvs) THEN {"fv-record-removed"} ELSE {})
     \cup (IF Len(c.fvs) > 0 /\ Len(fv.recs) > 0 /\ \E q \in 1..Len(fv.recs) : \E r \in 1..Len(font.fvs) :
               fv.recs[q].sub = r /\ fv.recs[q].box # ProjRegion(font.fvs[r].box, NKept(nlims)) THEN {"fv-condition-renormalised"} ELSE {})

(* ---- constant values named by the configurations (cfg files cannot write tuples) -------------- *)
DV_std == << {<<3, -4>>}, {<<-2, 1>>}, {<<4, -1>>} >>
DV_two == << {<<3, -4>>, <<-1, 2>>}, {<<-2, 1>>, <<4, 3>>}, {<<4, -1>>} >>
Dists_sym == {<<1, 1>>}
Dists_two == {<<1, 1>>, <<1, 2>>}
Dists_all == {<<1, 1>>, <<1, 2>>, <<2, 1>>}
Lim2_none == {}
(* second-axis limits of the quick two-axis run: untouched, pinned off-default, range with moved
   default crossing the old default, L4-style partial range on one side *)
Lim2_quick == {<<-D, 0, D, 1, 1>>, <<D \div 2, D \div 2, D \div 2, 1, 1>>, <<-(D \div 2), D \div 2, D, 1, 2>>, <<0, 0, D \div 2, 1, 1>>}
Lim2_all == {<<l[1], l[2], l[3], d[1], d[2]>> : l \in LimSet, d \in Dists_two}
Lim2_fv == {<<-D, 0, D, 1, 1>>, <<D \div 2, D \div 2, D \div 2, 1, 1>>}
Ranges == {r \in ((-D)..D) \X ((-D)..D) : r[1] <= r[2]}
Conds_all == Ranges \cup {<<>>}
(* condition ranges of the quick feature-variation run: none, whole axis, upper part, lower end,
   around the default, a single point *)
Conds_std == {<<>>, <<-D, D>>, <<D \div 2, D>>, <<-D, -(D \div 2)>>, <<0, D \div 2>>, <<D, D>>}
Conds_mid == {<<>>, <<-D, D>>, <<D \div 2, D>>, <<-D, -(D \div 2)>>, <<0, D \div 2>>}
Conds_quick == {<<>>, <<-D, D>>, <<D \div 2, D>>, <<-(D \div 2), 0>>}

(* ---- generators ---------------------------------------------------------------------------- *)
Case(v, l, m, f) == [vars |-> v, lims |-> l, map |-> m, fvs |-> f]
Lim5(l, d) == <<l[1], l[2], l[3], d[1], d[2]>>
DV(k) == DeltaVecs[k]
InitOne ==
  \E l \in LimSet : \E d \in Dists : \E n \in 1..NV : \E i \in 1..NT :
    \/ /\ n = 1 /\ \E dv \in DV(1) : cs = Case(<< <<<<TentSeq[i]>>, dv>> >>, <<Lim5(l, d)>>, 1, <<>>)
    \/ /\ n = 2 /\ \E j \in (i + 1)..NT : \E dv \in DV(1) : \E dw \in DV(2) :
            cs = Case(<< <<<<TentSeq[i]>>, dv>>, <<<<TentSeq[j]>>, dw>> >>, <<Lim5(l, d)>>, 1, <<>>)
    \/ /\ n = 3 /\ \E j \in (i + 1)..NT : \E k \in (j + 1)..NT : \E dv \in DV(1) : \E dw \in DV(2) : \E dx \in DV(3) :
            cs = Case(<< <<<<TentSeq[i]>>, dv>>, <<<<TentSeq[j]>>, dw>>, <<<<TentSeq[k]>>, dx>> >>, <<Lim5(l, d)>>, 1, <<>>)
(* two axes: regions are pairs of (tent or none), not both none *)
Reg2Set == {<<a, b>> : a \in TentSet \cup {NoT}, b \in TentSet \cup {NoT}} \ {<<NoT, NoT>>}
Reg2Seq == TLCEval(SetToSeq(Reg2Set))
NR2 == Len(Reg2Seq)
InitTwo ==
  \E l1 \in LimSet : \E d1 \in Dists : \E l2 \in Lim2 : \E n \in 1..NV : \E i \in 1..NR2 :
    \/ /\ n = 1 /\ \E dv \in DV(1) : cs = Case(<< <<Reg2Seq[i], dv>> >>, <<Lim5(l1, d1), l2>>, 1, <<>>)
    \/ /\ n = 2 /\ \E j \in (i + 1)..NR2 : \E dv \in DV(1) : \E dw \in DV(2) :
            cs = Case(<< <<Reg2Seq[i], dv>>, <<Reg2Seq[j], dw>> >>, <<Lim5(l1, d1), l2>>, 1, <<>>)
InitAvar ==
  \E l \in LimSet : \E d \in Dists : \E m \in MapIds : \E i \in 1..NT : \E dv \in DV(1) :
    \/ cs = Case(<< <<<<TentSeq[i]>>, dv>> >>, <<Lim5(l, d)>>, m, <<>>)
    \/ /\ NV >= 2
       /\ \E j \in (i + 1)..NT : \E dw \in DV(2) : j % 3 = i % 3 /\
            cs = Case(<< <<<<TentSeq[i]>>, dv>>, <<<<TentSeq[j]>>, dw>> >>, <<Lim5(l, d)>>, m, <<>>)
(* feature variations: two records, condition ranges on the lattice, <<>> = no condition *)
InitFv ==
  \E l1 \in LimSet : \E d1 \in Dists : \E l2 \in Lim2 :
    \E a1 \in Conds : \E a2 \in Conds : \E b1 \in Conds : \E b2 \in Conds :
      cs = Case(<<>>, <<Lim5(l1, d1), l2>>, 1, << <<a1, a2>>, <<b1, b2>> >>)

Init == /\ phase = "gen" /\ verdict = <<"pending", {}>>
        /\ IF FAMILY = "one" THEN InitOne
           ELSE IF FAMILY = "two" THEN InitTwo
           ELSE IF FAMILY = "avar" THEN InitAvar
           ELSE InitFv
Next == /\ phase = "gen" /\ phase' = "judged"
        /\ verdict' = <<Verdict(cs), Cov(cs)>> /\ UNCHANGED cs
(* D-FV1 cases are reported (BAD) and re-judged on the real code by the harness; anything else
   that is not "ok" is a defect of the specification and stops TLC *)
Sound == verdict[1] \in {"pending", "ok", "FeatureVars:applied-record-without-remaining-conditions"}
Emit == phase = "gen" => PrintT(<<"GEN", ToJson(cs), ToJson(Maps[cs.map])>>)
Bad == (phase = "judged" /\ verdict[1] # "ok") => PrintT(<<"BAD", verdict[1], ToJson(cs)>>)
CovOut == phase = "judged" => PrintT(<<"COV", SetToSeq(verdict[2])>>)
=============================================================================
