CONSTANTS
  FAMILY = "avar"
  D = 4
  NV = 2
  DeltaVecs <- DV_std
  Dists <- Dists_sym
  Lim2 <- Lim2_none
  MapIds = {3, 4}
  Conds <- Conds_quick
INIT Init
NEXT Next
INVARIANT Sound
INVARIANT Bad
INVARIANT CovOut
CONSTRAINT Emit
CHECK_DEADLOCK FALSE
