CONSTANTS
  FAMILY = "one"
  D = 2
  NV = 3
  DeltaVecs <- DV_std
  Dists <- Dists_two
  Lim2 <- Lim2_none
  MapIds = {1}
  Conds <- Conds_quick
INIT Init
NEXT Next
INVARIANT Sound
INVARIANT Bad
INVARIANT CovOut
CONSTRAINT Emit
CHECK_DEADLOCK FALSE
