CONSTANTS
  FAMILY = "two"
  D = 2
  NV = 1
  DeltaVecs <- DV_std
  Dists <- Dists_sym
  Lim2 <- Lim2_all
  MapIds = {1}
  Conds <- Conds_quick
INIT Init
NEXT Next
INVARIANT Sound
INVARIANT Bad
INVARIANT CovOut
CONSTRAINT Emit
CHECK_DEADLOCK FALSE
