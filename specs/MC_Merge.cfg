CONSTANTS
  NFontsSet = {2, 3}
  Family = "quick"
  BugSet = {"none", "no-rename", "no-fresh-loop", "later-wins", "dup-reversed", "maxp-first", "ctx-not-offset", "feature-first-only", "compact-off-by-one"}
  IdfSet = {FALSE, TRUE}
  ShapeK = 1
  IgnSet = {{3}}
INIT Init
NEXT Next
INVARIANT Inv_Family
INVARIANT Inv_FirstWins
INVARIANT Inv_UniqueNames
INVARIANT Inv_Totals
INVARIANT Inv_DuplicateRule
INVARIANT Inv_DisjointShaping
INVARIANT Inv_OrderRule
INVARIANT Inv_IdentifyOnlySame
INVARIANT Inv_MergeAllSmall
INVARIANT NegReport
INVARIANT Witness
INVARIANT Witness2
CHECK_DEADLOCK FALSE
