CONSTANTS
  NFonts = 2
  Family = "pairs"
  BugSet = {"none"}
  IdfSet = {FALSE}
  IgnSet = {{3}}
INIT Init
NEXT Next
INVARIANT Inv_Family
INVARIANT Inv_FirstWins
INVARIANT Inv_UniqueNames
INVARIANT Inv_Totals
INVARIANT Inv_DuplicateRule
INVARIANT Inv_DisjointShaping
INVARIANT Witness
INVARIANT Witness2
CHECK_DEADLOCK FALSE
