----------------------------- MODULE MC_Merge -----------------------------
(* Exhaustive check of the Merge machine over every ordered list of NFonts abstract fonts of a family:
   <= 3 glyphs each (.notdef first), glyph names that clash across fonts (and one name that already looks
   renamed, "A.1"), character sets over {1, 2(, 3)} that overlap or are disjoint, duplicate glyphs that are
   identical / differ in outline / differ in advance, and a layout kit per font:
     none     no layout tables              single   ss01: 2 -> 3
     chain    ss01: contextual rule on 2 calling a second lookup (2 -> 3), the called lookup FIRST in the list
     unused   an unreferenced lookup first, then ss01: 2 -> 3 (post-merge compaction shifts the index)
     locl     the font's own locl feature (2 -> 3)             pos   GPOS ss01: advance of 2 + 10
     both     single + pos
   each under script DFLT, latn or grek (so that language systems are shared or exclusive).
   The same module, with other cfg files, emits the lists for (R) (GEN), and runs the deliberately wrong
   variants (NEG) to show that the properties distinguish them.                                          *)
EXTENDS Merge, Json

CONSTANTS NFontsSet, Family, BugSet, IdfSet, IgnSet, ShapeK
VARIABLE target        \* the number of fonts of this behaviour's list

Sub1LK(a, b) == [ty |-> "sub1", flag |-> 0, mfs |-> 0, st |-> << [m |-> << <<a, b>> >>] >>]
CtxLK(a, t) == [ty |-> "ctx", flag |-> 0, mfs |-> 0,
                st |-> << [r |-> << [b |-> <<>>, i |-> << <<a>> >>, a |-> <<>>, n |-> << <<0, t>> >>] >>] >>]
Pos1LK(a, dx) == [ty |-> "pos1", flag |-> 0, mfs |-> 0, st |-> << [m |-> << <<a, <<0, 0, dx, 0>> >> >>] >>]
Feat(sc, tag, lks) == <<sc, "dflt", tag, lks, FALSE>>
NoGdef == [cls |-> <<>>, mac |-> <<>>, sets |-> <<>>]

GsubOf(kit, sc) ==
  CASE kit \in {"single", "both"} -> [lookups |-> <<Sub1LK(2, 3)>>, fl |-> <<Feat(sc, "ss01", <<1>>)>>]
    [] kit = "chain"  -> [lookups |-> <<Sub1LK(2, 3), CtxLK(2, 1)>>, fl |-> <<Feat(sc, "ss01", <<2>>)>>]
    [] kit = "unused" -> [lookups |-> <<Sub1LK(3, 2), Sub1LK(2, 3)>>, fl |-> <<Feat(sc, "ss01", <<2>>)>>]
    [] kit = "locl"   -> [lookups |-> <<Sub1LK(2, 3)>>, fl |-> <<Feat(sc, "locl", <<1>>)>>]
    [] OTHER -> EmptyTB
GposOf(kit, sc) ==
  IF kit \in {"pos", "both"} THEN [lookups |-> <<Pos1LK(2, 10)>>, fl |-> <<Feat(sc, "ss01", <<1>>)>>] ELSE EmptyTB

N1 == <<".notdef", "A", "B">>
N2 == <<".notdef", "A", "A.1">>
N3 == <<".notdef", "B", "A">>
N4 == <<".notdef", "A">>
(* the family depends on the configuration and on the length of the list -- larger for pairs than for triples /
   quadruples; Family = "quick" / "gen" select by list length (and use the small family for the idf = TRUE and the
   wrong-variant behaviours), any other value names a family directly *)
Fam == CASE Family = "quick" -> IF idf \/ bug # "none" THEN "negfam" ELSE IF target = 2 THEN "pairs" ELSE "triples"
         [] Family = "thorough" -> IF idf \/ bug # "none" THEN "small" ELSE IF target = 2 THEN "full" ELSE "negfam"
         [] Family = "gen" -> IF target = 2 THEN "gen2" ELSE IF target = 3 THEN "gen3" ELSE "gen4"
         [] Family = "genfull" -> IF target = 2 THEN "gen2full" ELSE IF target = 3 THEN "gen3" ELSE "gen4"
         [] OTHER -> Family
NameChoices ==
  CASE Fam = "full" -> {N1, N2, N3}
    [] Fam = "pairs" -> {N1, N2}
    [] Fam \in {"gen3", "gen4", "triples"} -> {N1}
    [] OTHER -> {N1, N2}
(* character -> glyph (0 = unsupported) for characters 1..5; character 3 is the one the configurations may
   declare default-ignorable (IgnSet) *)
CmapChoices ==
  CASE Fam = "full"  -> {<<2, 0, 0, 0, 0>>, <<0, 2, 0, 0, 0>>, <<2, 3, 0, 0, 0>>, <<2, 2, 0, 0, 0>>, <<0, 3, 3, 0, 0>>, <<2, 0, 3, 0, 0>>}
    [] Fam \in {"pairs", "gen2full"} ->
         {<<2, 0, 0, 0, 0>>, <<0, 2, 0, 0, 0>>, <<2, 3, 0, 0, 0>>, <<2, 2, 0, 0, 0>>, <<0, 3, 3, 0, 0>>}
    [] Fam = "gen4" -> {<<2, 0, 0, 0, 0>>, <<0, 2, 0, 0, 0>>, <<0, 0, 0, 2, 0>>, <<0, 0, 0, 0, 2>>}
    [] OTHER -> {<<2, 0, 0, 0, 0>>, <<0, 2, 0, 0, 0>>, <<2, 3, 0, 0, 0>>}
ShapeChoices ==
  CASE Fam \in {"triples", "gen3", "negfam"} -> {<<1, 500>>, <<1, 600>>}
    [] Fam = "gen4" -> {<<1, 500>>}
    [] OTHER -> {<<1, 500>>, <<1, 600>>, <<2, 500>>}
KitChoices ==
  CASE Fam = "full" -> {<<"none", "DFLT">>} \cup ({"chain", "unused", "locl", "both"} \X {"DFLT", "latn"})
                          \cup {<<"single", "grek">>, <<"pos", "grek">>}
    [] Fam = "gen2full" ->
         {<<"none", "DFLT">>, <<"single", "latn">>, <<"chain", "latn">>, <<"chain", "DFLT">>,
          <<"unused", "DFLT">>, <<"locl", "latn">>, <<"both", "grek">>}
    [] Fam = "pairs" -> {<<"none", "DFLT">>, <<"chain", "latn">>, <<"unused", "DFLT">>, <<"locl", "latn">>, <<"both", "grek">>}
    [] Fam = "gen2" -> {<<"none", "DFLT">>, <<"chain", "DFLT">>, <<"unused", "latn">>, <<"locl", "latn">>, <<"both", "grek">>}
    [] Fam = "small" -> {<<"none", "DFLT">>, <<"single", "latn">>, <<"chain", "DFLT">>, <<"unused", "grek">>, <<"locl", "latn">>}
    [] Fam = "gen4" -> {<<"none", "DFLT">>, <<"chain", "latn">>}
    [] OTHER -> {<<"none", "DFLT">>, <<"chain", "latn">>}

MkFont(nm, cm, sh, ks) ==
  LET n == Len(nm)
      kit == IF n < 3 THEN "none" ELSE ks[1]
      gsub == GsubOf(kit, ks[2])
      gpos == GposOf(kit, ks[2])
      adv == IF n = 3 THEN <<500, sh[2], 700>> ELSE <<500, sh[2]>>
      pairs == SelectSeq([c \in 1..5 |-> <<c, cm[c]>>], LAMBDA p : p[2] # 0 /\ p[2] <= n)
  IN [names |-> nm, cmap |-> pairs, adv |-> adv,
      out |-> IF n = 3 THEN <<9, sh[1], 3>> ELSE <<9, sh[1]>>,
      hasgsub |-> Len(gsub.lookups) > 0, hasgpos |-> Len(gpos.lookups) > 0,
      systems |-> IF Len(gsub.lookups) > 0 THEN << <<ks[2], "dflt">> >> ELSE <<>>,
      L |-> [gdef |-> NoGdef, gsub |-> gsub, gpos |-> gpos, adv |-> adv]]

Init ==
  /\ fonts = <<>> /\ pc = "build"
  /\ target \in NFontsSet
  /\ bug \in BugSet /\ idf \in IdfSet /\ ign \in IgnSet
  /\ (idf \/ bug # "none") => target = 2           \* identification and the wrong variants are explored on pairs
  /\ bug # "none" => ~idf
  /\ orders = <<>> /\ mcmap = EmptyFn /\ dups = <<>> /\ merged = [names |-> <<>>]

AddFont ==
  /\ pc = "build" /\ Len(fonts) < target
  /\ \E nm \in NameChoices :
       \E cm \in CmapChoices : \E sh \in ShapeChoices :
         \E ks \in (IF Len(nm) < 3 THEN {<<"none", "DFLT">>} ELSE KitChoices) :
            /\ Len(MkFont(nm, cm, sh, ks).cmap) > 0
            /\ fonts' = Append(fonts, MkFont(nm, cm, sh, ks))
  /\ UNCHANGED <<pc, bug, idf, ign, orders, mcmap, dups, merged, target>>
Start ==
  /\ pc = "build" /\ Len(fonts) = target
  /\ pc' = "order"
  /\ UNCHANGED <<fonts, bug, idf, ign, orders, mcmap, dups, merged, target>>

Next == AddFont \/ Start \/ (MergeNext /\ UNCHANGED target)
GenNext == AddFont \/ Start
Emit == pc = "order" => PrintT(<<"GEN", ToJson(fonts)>>)

-----------------------------------------------------------------------------
Done == pc = "done"
Props ==
  /\ WellFormedMerged(merged)
  /\ FirstWins(fonts, merged) /\ UniqueNames(merged) /\ Totals(fonts, merged) /\ GlyphsKept(fonts, merged)
  /\ DuplicateRule(fonts, merged, ign) /\ DisjointShaping(fonts, merged, ShapeK)

Inv_Family == \A i \in MIdx(fonts) : WellFormedFont(fonts[i])
Inv_FirstWins == (Done /\ bug = "none") => FirstWins(fonts, merged)
Inv_UniqueNames == (Done /\ bug = "none") => UniqueNames(merged)
Inv_Totals == (Done /\ bug = "none") => Totals(fonts, merged) /\ GlyphsKept(fonts, merged) /\ WellFormedMerged(merged)
Inv_DuplicateRule == (Done /\ bug = "none") => DuplicateRule(fonts, merged, ign)
Inv_DisjointShaping == (Done /\ bug = "none") => DisjointShaping(fonts, merged, ShapeK)
(* the relational form of the naming stage (used by the judge) characterises the stage *)
Inv_OrderRule == (pc \notin {"build", "order"} /\ bug = "none") => OrderRuleOK(FlatNames(fonts), MFlat(orders, 1))
(* the machine computes what the one-shot operator computes *)
Inv_MergeAll ==
  Done => LET m == MergeAll(fonts, ign, idf, bug)
          IN merged.names = m.names /\ merged.cmap = m.cmap /\ merged.adv = m.adv /\ merged.out = m.out
             /\ merged.maxp = m.maxp /\ merged.L = m.L
Inv_MergeAllSmall ==      \* the same on the small families only (quick tier)
  (Done /\ (target = 3 \/ idf \/ bug # "none")) =>
     LET m == MergeAll(fonts, ign, idf, bug)
     IN merged.names = m.names /\ merged.cmap = m.cmap /\ merged.adv = m.adv /\ merged.out = m.out
        /\ merged.maxp = m.maxp /\ merged.L = m.L
(* identification (idf) only ever concerns equal glyphs, and an identified duplicate is not separately reachable *)
Inv_IdentifyOnlySame ==
  pc \in {"tables", "layout", "post", "done"} =>
     \A i \in MIdx(fonts) : \A c \in DupChars(fonts, i, ign) :
        (c \notin Recorded(fonts, i, ign, idf)) => SameGlyph(fonts, i, c)

NegReport == (Done /\ bug # "none" /\ ~Props) => PrintT(<<"NEG", bug>>)

(* non-vacuity witnesses (printed for a thin slice of the family to keep the output small) *)
Slice == Len(fonts) >= 2 /\ fonts[1].names = N1 /\ fonts[1].out[2] = 1 /\ fonts[1].adv[2] = 500
Wit(tag, cond) == IF cond THEN PrintT(<<"WIT", tag>>) ELSE TRUE
Witness ==
  (Done /\ bug = "none" /\ Slice) =>
    /\ Wit("dup-differ-reachable", \E i \in MIdx(fonts) : \E c \in Chars(fonts[i]) :
             MustReach(fonts, i, c, ign) /\ \E s \in NonDfltSystems(fonts[i]) : ExclusiveSys(fonts, i, s))
    /\ Wit("dup-differ-no-mechanism", \E i \in MIdx(fonts) : \E c \in DupChars(fonts, i, ign) :
             ~SameGlyph(fonts, i, c) /\ ~Mechanism(fonts[i]))
    /\ Wit("dup-same", \E i \in MIdx(fonts) : \E c \in DupChars(fonts, i, ign) : SameGlyph(fonts, i, c))
    /\ Wit("dup-conflict", \E i \in MIdx(fonts) : \E c \in DupChars(fonts, i, ign) : ConflictChar(fonts, i, c, ign, FALSE))
    /\ Wit("dup-shared-script", \E i \in MIdx(fonts) : \E c \in Chars(fonts[i]) :
             MustReach(fonts, i, c, ign) /\ \E s \in NonDfltSystems(fonts[i]) : ~ExclusiveSys(fonts, i, s))
    /\ Wit("ignorable-dup", \E i \in MIdx(fonts) : \E c \in Chars(fonts[i]) : FirstFont(fonts, c) < i /\ c \in ign)
    /\ Wit("disjoint-with-lookups", Disjoint(fonts) /\ \E i \in 2..Len(fonts) : fonts[i].hasgsub /\ \E c \in Chars(fonts[i]) : CmapFn(fonts[i])[c] = 2)
    /\ Wit("disjoint-ctx-offset", Disjoint(fonts) /\ Len(fonts[1].L.gsub.lookups) > 0
             /\ \E i \in 2..Len(fonts) : \E k \in MIdx(fonts[i].L.gsub.lookups) : fonts[i].L.gsub.lookups[k].ty = "ctx")
    /\ Wit("disjoint-gpos", Disjoint(fonts) /\ \E i \in 2..Len(fonts) : fonts[i].hasgpos /\ \E c \in Chars(fonts[i]) : CmapFn(fonts[i])[c] = 2)
    /\ Wit("feature-merged", \E k \in MIdx(merged.L.gsub.fl) : Len(merged.L.gsub.fl[k][4]) >= 2)
    /\ Wit("lookup-compacted", Len(merged.L.gsub.lookups) < MSumTo([i \in MIdx(fonts) |-> Len(fonts[i].L.gsub.lookups)], Len(fonts)))
    /\ Wit("own-locl-prepended", \E k \in MIdx(merged.L.gsub.fl) : merged.L.gsub.fl[k][3] = "locl" /\ Len(merged.L.gsub.fl[k][4]) >= 2)
Witness2 ==
  (Done /\ bug = "none" /\ Len(fonts) >= 2 /\ fonts[1].names = N2 /\ fonts[1].out[2] = 1 /\ fonts[1].adv[2] = 500
     /\ Len(fonts[1].cmap) = 1 /\ ~fonts[1].hasgsub) =>
    /\ Wit("renamed-past-taken", \E p \in MIdx(merged.names) : merged.names[p] = "A.2")
    /\ Wit("renamed-renamed", \E p \in MIdx(merged.names) : merged.names[p] = "A.1.1")
=============================================================================
