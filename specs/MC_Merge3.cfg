CONSTANTS
  NFonts = 3
  Family = "triples"
  BugSet = {"none"}
  IdfSet = {FALSE}
  IgnSet = {{}}
INIT Init
NEXT Next
INVARIANT Inv_Family
INVARIANT Inv_FirstWins
INVARIANT Inv_UniqueNames
INVARIANT Inv_Totals
INVARIANT Inv_DuplicateRule
INVARIANT Inv_DisjointShaping
INVARIANT Inv_OrderRule
INVARIANT Inv_MergeAll
INVARIANT Inv_IdentifyOnlySame
INVARIANT Witness
INVARIANT Witness2
CHECK_DEADLOCK FALSE
