CONSTANTS
  NFontsSet = {2, 3, 4}
  Family = "gen"
  BugSet = {"none"}
  IdfSet = {FALSE}
  ShapeK = 1
  IgnSet = {{}}
INIT Init
NEXT GenNext
CONSTRAINT Emit
CHECK_DEADLOCK FALSE
