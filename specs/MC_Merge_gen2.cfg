CONSTANTS
  NFonts = 2
  Family = "gen2"
  BugSet = {"none"}
  IdfSet = {FALSE}
  IgnSet = {{}}
INIT Init
NEXT GenNext
CONSTRAINT Emit
CHECK_DEADLOCK FALSE
