CONSTANTS
  NFonts = 2
  Family = "gen2full"
  BugSet = {"none"}
  IdfSet = {FALSE}
  IgnSet = {{}}
INIT Init
NEXT GenNext
CONSTRAINT Emit
CHECK_DEADLOCK FALSE
