CONSTANTS
  NFonts = 3
  Family = "gen3"
  BugSet = {"none"}
  IdfSet = {FALSE}
  IgnSet = {{}}
INIT Init
NEXT GenNext
CONSTRAINT Emit
CHECK_DEADLOCK FALSE
