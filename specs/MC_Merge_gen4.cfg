CONSTANTS
  NFonts = 4
  Family = "gen4"
  BugSet = {"none"}
  IdfSet = {FALSE}
  IgnSet = {{}}
INIT Init
NEXT GenNext
CONSTRAINT Emit
CHECK_DEADLOCK FALSE
