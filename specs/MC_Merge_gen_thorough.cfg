CONSTANTS
  NFontsSet = {2, 3, 4}
  Family = "genfull"
  BugSet = {"none"}
  IdfSet = {FALSE}
  ShapeK = 1
  IgnSet = {{}}
INIT Init
NEXT GenNext
CONSTRAINT Emit
CHECK_DEADLOCK FALSE
