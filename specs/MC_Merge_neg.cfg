CONSTANTS
  NFonts = 2
  Family = "triples"
  BugSet = {"no-rename", "no-fresh-loop", "later-wins", "dup-reversed", "maxp-first", "ctx-not-offset", "feature-first-only", "compact-off-by-one"}
  IdfSet = {FALSE}
  IgnSet = {{}}
INIT Init
NEXT Next
INVARIANT NegReport
CHECK_DEADLOCK FALSE
