------------------------------ MODULE MC_Model ------------------------------
(* (M) for Model: every set of at most MaxMasters distinct non-origin masters on the 1/D
   lattice of [-1, 1]^N (plus the origin), built by the machine "add a master".  For each
   set the transcription of VariationModel (ordering, box splitting, getDeltas,
   getMasterScalars) must satisfy the contract; values range over unit vectors (the maps
   are linear in the master values).  Each distinct set is printed once as GEN for the
   replay against the real VariationModel. *)
EXTENDS Model, Json
CONSTANTS N, D, MaxMasters, PD
VARIABLES masters
vars == <<masters>>

Lattice == [1..N -> (-D)..D]
ToLoc(m) == TLCEval([a \in 1..N |-> Rat(m[a], D)])
Probes == {TLCEval([a \in 1..N |-> Rat(p[a], PD)]) : p \in [1..N -> (-PD)..PD]}
Unit(n, m) == TLCEval([i \in 1..n |-> IF i = m THEN ROne ELSE RZero])

(* which branches of the box splitting fired for this set (coverage evidence), as a bit mask:
   1 unsplit, 2 split-lower, 4 split-upper, 8 split-both (one axis cut on both sides),
   16 multi-axis split, 32 off-axis master *)
Bit(b, v) == IF b THEN v ELSE 0
Cases(locs, sups) ==
  LET init == TLCEval([i \in 1..Len(locs) |-> InitialRegion(locs[i])])
      lo(i, a) == sups[i][a][1] # init[i][a][1]
      up(i, a) == sups[i][a][3] # init[i][a][3]
      Some(P(_, _)) == \E i \in 1..Len(locs) : \E a \in AxesOf(locs[i]) : P(i, a)
  IN Bit(Some(LAMBDA i, a : ~lo(i, a) /\ ~up(i, a)), 1) + Bit(Some(LAMBDA i, a : lo(i, a) /\ ~up(i, a)), 2)
     + Bit(Some(LAMBDA i, a : ~lo(i, a) /\ up(i, a)), 4) + Bit(Some(LAMBDA i, a : lo(i, a) /\ up(i, a)), 8)
     + Bit(\E i \in 1..Len(locs) : Cardinality({a \in AxesOf(locs[i]) : lo(i, a) \/ up(i, a)}) > 1, 16)
     + Bit(\E i \in 1..Len(locs) : Cardinality(AxesOf(locs[i])) > 1, 32)

Contract(M) ==
  LET L == {ToLoc(m) : m \in M}
      locs == SortMasters(L)
      sups == ModelSupports(locs)
      n == Len(locs)
      S == ScalarMatrix(locs, sups)
      W == DeltaWeights(S)
      deltas == TLCEval([m \in 1..n |-> GetDeltas(W, Unit(n, m))])
  IN /\ PrintT(<<"GEN", ToJson(M), Cases(locs, sups)>>)
     /\ SupportsAreBoxes(locs, sups)
     /\ TriangularM(S)
     /\ \A m \in 1..n : MasterExactM(S, deltas[m], Unit(n, m))
     /\ \A m \in 1..n : GetMasterScalars(W, S[m]) = Unit(n, m)
     /\ \A p \in Probes : LET sc == Scalars(sups, p)
                               ms == GetMasterScalars(W, sc)
                           IN \A m \in 1..n : ms[m] = Dot(sc, deltas[m])

Init == masters = {[a \in 1..N |-> 0]}
Next == /\ Cardinality(masters) <= MaxMasters
        /\ \E m \in Lattice : m \notin masters /\ masters' = masters \cup {m}
Holds == Contract(masters)
=============================================================================
