CONSTANTS N = 1  D = 4  MaxMasters = 4  PD = 8
INIT Init
NEXT Next
INVARIANT Holds
CHECK_DEADLOCK FALSE
