CONSTANTS N = 2  D = 2  MaxMasters = 3  PD = 2
INIT Init
NEXT Next
INVARIANT Holds
CHECK_DEADLOCK FALSE
