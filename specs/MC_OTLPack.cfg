CONSTANTS
  N = 5
  Sizes = {1, 3}
  GenMaxN = 5
  GenMod = 1
  PackLimits <- MCLimits
  PackModes <- MCModesFT
INIT MInit
NEXT MNext
CONSTRAINT GenEmit
INVARIANT PackInvariants
CHECK_DEADLOCK FALSE
