----------------------------- MODULE MC_OTLPack -----------------------------
(* Exhaustive check of the offset-graph packer on every small writer tree, and generator of the
   graphs that are rebuilt with the real OTTableWriter.

   Builder machine: the tree grows in pre-order (a new node hangs below a node of the rightmost path,
   so every ORDERED tree with at most N nodes is reached exactly once), each node is
     "plain"  own data, size in Sizes
     "twin"   data 50, size 1  (equal leaves / equal subtrees are merged by Intern)
     "cov"    a leaf named Coverage, data 100, size 1 (the shared-Coverage case)
   Seal picks at most one Extension node (its offsets become 32-bit), at most one DontShare node and
   at most one sortCoverageLast node (among the nodes that have a Coverage child), then the four
   packer actions run.  Sizes are units; the 16-bit limit is scaled to 7 units: with 1 unit = 8192 bytes
   7 units <= 65535 < 8 units, so the model's limit is the real limit.                              *)
EXTENDS OTLPack, TLC, Json

CONSTANTS N, Sizes,
          GenMaxN, GenMod     \* export every graph with <= GenMaxN nodes and every GenMod-th (by a content code) larger one
VARIABLES path
mvars == <<graph, phase, kidsNow, gath, layout, result, path>>

MCLimits == [l2 |-> 7, l3 |-> 1000, l4 |-> 1000]
MCModes == {"ft", "hbfb"}
MCModesFT == {"ft"}            \* quick tier: the HarfBuzz-fallback mode is model-checked in the thorough tier (and replayed in both)

MkNode(d, s, c) == [data |-> d, size |-> s, kids |-> <<>>, ext |-> FALSE, ds |-> FALSE, cl |-> FALSE, cov |-> c]
NextField(n) == 4 + 2 * Len(n.kids)

MInit == /\ graph = <<MkNode(11, 1, FALSE)>> /\ path = <<1>> /\ phase = "build"
         /\ kidsNow = <<>> /\ gath = <<>> /\ layout = <<>> /\ result = <<"none">>

AddNode ==
  /\ phase = "build" /\ Len(graph) < N
  /\ \E d \in 1..Len(path) :
       LET p == path[d]
           id == Len(graph) + 1
       IN /\ ~graph[p].cov
          /\ \E kind \in {"plain", "twin", "cov"} :
               \E s \in (IF kind = "plain" THEN Sizes ELSE {1}) :
                 /\ graph' = Append([graph EXCEPT ![p].kids = Append(@, <<id, 2, NextField(graph[p])>>)],
                                    MkNode(IF kind = "plain" THEN 10 + id ELSE IF kind = "twin" THEN 50 ELSE 100, s, kind = "cov"))
                 /\ path' = Append(SubSeq(path, 1, d), id)
  /\ UNCHANGED <<phase, kidsNow, gath, layout, result>>

Internal(G) == {n \in 1..Len(G) : Len(G[n].kids) > 0}
HasCovKid(G) == {n \in 1..Len(G) : \E i \in 1..Len(G[n].kids) : G[G[n].kids[i][1]].cov}
Wide(n) == [n EXCEPT !.ext = TRUE, !.kids = [i \in 1..Len(n.kids) |-> <<n.kids[i][1], 4, 4 + 4 * (i - 1)>>]]
Seal ==
  /\ phase = "build"
  /\ \E e \in {0} \cup (Internal(graph) \ {1}) :
     \E d \in {0} \cup Internal(graph) :
     \E c \in {0} \cup HasCovKid(graph) :
        LET g1 == IF e = 0 THEN graph ELSE [graph EXCEPT ![e] = Wide(@)]
            g2 == IF d = 0 THEN g1 ELSE [g1 EXCEPT ![d].ds = TRUE]
            g3 == IF c = 0 THEN g2 ELSE [g2 EXCEPT ![c].cl = TRUE]
        IN /\ graph' = g3 /\ kidsNow' = Kids0(g3)
  /\ phase' = "built"
  /\ UNCHANGED <<gath, layout, result, path>>

MNext == AddNode \/ Seal \/ (PNext /\ UNCHANGED path)

RECURSIVE Code(_, _)
Code(g, n) == IF n = 0 THEN 0 ELSE n * g[n].size + 3 * Len(g[n].kids) + (IF g[n].cov THEN 5 ELSE 0) + (IF g[n].ext THEN 7 ELSE 0)
                                   + (IF g[n].ds THEN 11 ELSE 0) + (IF g[n].cl THEN 13 ELSE 0) + g[n].data + Code(g, n - 1)
GenEmit == (phase = "built" /\ (Len(graph) <= GenMaxN \/ Code(graph, Len(graph)) % GenMod = 0)) => PrintT(<<"GEN", ToJson(graph)>>)

(* non-vacuity: counted by the harness from these prints (one per emitted graph) *)
Stat == phase = "emitted" =>
   LET P == PackOf
       merged == \E n \in 1..Len(graph) : kidsNow[n] # Kids0(graph)[n]
   IN PrintT(<<"STAT", P.res, IF merged THEN 1 ELSE 0, IF Len(gath.e) > 0 THEN 1 ELSE 0,
               IF \E n \in 1..Len(graph) : graph[n].cl THEN 1 ELSE 0, IF Len(Live(P)) < Len(P.order) THEN 1 ELSE 0>>)
=============================================================================
