CONSTANTS
  N = 6
  Sizes = {1, 2, 4}
  PackLimits <- MCLimits
  PackModes <- MCModes
INIT MInit
NEXT MNext
CONSTRAINT GenEmit
INVARIANT PackInvariants
CHECK_DEADLOCK FALSE
