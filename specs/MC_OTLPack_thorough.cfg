CONSTANTS
  N = 6
  Sizes = {1, 3}
  GenMaxN = 5
  GenMod = 12
  PackLimits <- MCLimits
  PackModes <- MCModes
INIT MInit
NEXT MNext
CONSTRAINT GenEmit
INVARIANT PackInvariants
CHECK_DEADLOCK FALSE
