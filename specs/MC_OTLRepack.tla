---------------------------- MODULE MC_OTLRepack ----------------------------
(* Exhaustive check of the overflow-resolution loop on small lookup lists, and generator of the
   (lookup list, overflow record) cases that are replayed into the real fix* / split* functions.

   Lookup lists: 1..MaxL lookups, each with one or two subtables taken from a menu of prototypes over
   glyphs 1..12 (GSUB menu: ligature-like subtables and unsplittable ones; GPOS menu: pair format 1,
   class pairs, mark-to-base, unsplittable).  Sizes are units (16-bit limit = 7 units) and attached to
   item ids (ItemSize), so that every overflow site occurs: LookupList -> Lookup, Lookup -> SubTable,
   SubTable -> item k, SubTable -> Coverage (sorted last), SubTable -> ClassDef / BaseArray.
   Meaning: every item id has fixed rules (LigOf, PairOf, RowOf, ...); Sem(lookups) is the OTLSem
   layout, Denote = what each lookup does to every probe sequence.                               *)
EXTENDS OTLRepack, OTLSem, TLC, Json

CONSTANTS Table, HBMode, Shapes        \* Shapes: set of "<lookups>x<subtables>" list shapes, e.g. {"2x1", "1x2"}

MCLimits == [l2 |-> 7, l3 |-> 1000, l4 |-> 1000]
ItemSize(k, id) ==
  IF k \in {"pair2", "mkb"} THEN 3
  ELSE CASE id \in {1, 2, 3} -> 3 [] id \in {4, 5} -> 4 [] id \in {6, 8} -> 1 [] id = 7 -> 8 [] OTHER -> 1
HeadSize(k) == 1

(* glyph names: sorted(names) order = NameRank (differs from glyph-id order for 1..3) *)
NameRank(g) == IF g = 1 THEN 2 ELSE IF g = 2 THEN 3 ELSE IF g = 3 THEN 1 ELSE g
RECURSIVE SortByRank(_)
SortByRank(s) == IF Len(s) = 0 THEN <<>>
                 ELSE LET m == CHOOSE i \in 1..Len(s) : \A j \in 1..Len(s) : NameRank(s[i]) <= NameRank(s[j])
                      IN <<s[m]>> \o SortByRank(SubSeq(s, 1, m - 1) \o SubSeq(s, m + 1, Len(s)))

Sub(k, it, cm) == [k |-> k, ds |-> FALSE, dsi |-> FALSE, it |-> it, nm |-> IF LigLike(k) THEN SortByRank(it) ELSE <<>>, cm |-> cm]
GsubMenu == << Sub("lig", <<1, 2, 3>>, <<>>),       \* Coverage (last) overflows: cut in halves, in NAME order
               Sub("lig", <<4, 5, 6>>, <<>>),       \* LigatureSet[2] overflows: newLen = 1
               Sub("lig", <<7, 8>>, <<>>),          \* LigatureSet[1] overflows because LigatureSet[0] alone is too big: newLen = 0
               Sub("lig", <<6, 8>>, <<>>),          \* fits
               Sub("alt", <<4, 5, 6, 8>>, <<>>),
               Sub("mult", <<1, 2, 3>>, <<>>),      \* Coverage FIRST (not sorted last): Sequence[2] overflows, newLen = 1
               Sub("fix", <<6>>, <<>>),             \* small, unsplittable
               Sub("fix", <<7>>, <<>>) >>           \* too big and unsplittable: no packing exists
GposMenu == << Sub("pair1", <<1, 2, 3>>, <<>>),
               Sub("pair1", <<4, 5>>, <<>>),
               Sub("pair1", <<7>>, <<>>),           \* one PairSet, cannot be split
               Sub("pair2", <<0, 1, 2, 3>>, << <<1, 0>>, <<2, 1>>, <<3, 2>>, <<4, 3>>, <<5, 2>> >>),
               Sub("pair2", <<0, 1>>, << <<1, 0>>, <<2, 1>> >>),
               Sub("mkb", <<0, 1, 2, 3>>, << <<9, 0>>, <<10, 1>>, <<11, 2>>, <<12, 3>> >>),   \* BaseArray -> anchors of class 3 overflows
               Sub("sp2", <<4, 5>>, <<>>),
               Sub("fix", <<6>>, <<>>) >>
Menu == IF Table = "GSUB" THEN GsubMenu ELSE GposMenu
One == {<<Menu[p]>> : p \in 1..Len(Menu)}
Two == {<<Menu[p], Menu[q]>> : p, q \in 1..Len(Menu)}
MaxLOf(sh) == IF sh \in {"1x1", "1x2"} THEN 1 ELSE IF sh \in {"2x1", "2x2"} THEN 2 ELSE 3
LkOpts(sh) == IF sh \in {"1x2", "2x2"} THEN One \cup Two ELSE One
MaxL == MaxOf({MaxLOf(sh) : sh \in Shapes})

-----------------------------------------------------------------------------
(* meaning of the item ids *)
XAdv(v) == <<0, 0, v, 0>>
LigOf(g) == IF g \in {4, 7} THEN << << <<g, 9, 9>>, 11>>, << <<g, 9>>, 10>> >> ELSE << << <<g, 9>>, 10>> >>
C2Of(g) == IF g = 9 THEN 1 ELSE IF g = 10 THEN 2 ELSE 0
Universe == 1..12
SetOfC2(j) == LET S == {g \in Universe : C2Of(g) = j} IN SortByRank([i \in 1..Cardinality(S) |-> CHOOSE g \in S : Cardinality({h \in S : h < g}) = i - 1])
RowVal(c, j) == IF j = 0 THEN 0 ELSE IF c = 1 /\ j = 1 THEN 0 ELSE 10 * (c + 1) + j
SemSub(s, gpos) ==
  CASE s.k = "lig" -> [l |-> LET RECURSIVE Cat(_) Cat(i) == IF i > Len(s.it) THEN <<>> ELSE LigOf(s.it[i]) \o Cat(i + 1) IN Cat(1)]
    [] s.k = "alt" -> [m |-> [i \in 1..Len(s.it) |-> <<s.it[i], <<10, 11>>>>]]
    [] s.k = "mult" -> [m |-> [i \in 1..Len(s.it) |-> <<s.it[i], <<s.it[i], 12>>>>]]
    [] s.k = "pair1" -> [f |-> 1, v2 |-> FALSE,
                         p |-> LET RECURSIVE Cat(_) Cat(i) == IF i > Len(s.it) THEN <<>>
                                     ELSE << <<s.it[i], 9, XAdv(-10 * s.it[i]), Zero4>>, <<s.it[i], s.it[i], XAdv(5), Zero4>> >> \o Cat(i + 1) IN Cat(1)]
    [] s.k = "sp2" -> [m |-> [i \in 1..Len(s.it) |-> <<s.it[i], XAdv(7 * s.it[i])>>]]
    [] s.k = "pair2" ->
         [f |-> 2, v2 |-> FALSE, cov |-> [i \in 1..Len(s.cm) |-> s.cm[i][1]],
          c |-> LET cells == {<<c, j>> \in (0..(Len(s.it) - 1)) \X (0..2) : RowVal(s.it[c + 1], j) # 0 /\ \E i \in 1..Len(s.cm) : s.cm[i][2] = c}
                    RECURSIVE List(_)
                    List(S) == IF S = {} THEN <<>>
                               ELSE LET x == CHOOSE y \in S : \A z \in S : y[1] < z[1] \/ (y[1] = z[1] /\ y[2] <= z[2])
                                        g1 == SelectSeq([i \in 1..Len(s.cm) |-> IF s.cm[i][2] = x[1] THEN s.cm[i][1] ELSE 0], LAMBDA g : g # 0)
                                    IN << <<g1, SetOfC2(x[2]), XAdv(RowVal(s.it[x[1] + 1], x[2])), Zero4>> >> \o List(S \ {x})
                IN List(cells)]
    [] s.k = "mkb" ->
         [marks |-> [i \in 1..Len(s.cm) |-> <<s.cm[i][1], s.cm[i][2], <<s.cm[i][1], 3>>>>],
          bases |-> [b \in 1..2 |-> <<b, [c \in 1..Len(s.it) |-> IF b = 2 /\ s.it[c] = 1 THEN <<>> ELSE <<100 * b + s.it[c], 10 * s.it[c] + 1>>]>>]]
    [] OTHER -> IF gpos THEN [m |-> [i \in 1..Len(s.it) |-> <<s.it[i], XAdv(3)>>]]
                ELSE [m |-> [i \in 1..Len(s.it) |-> <<s.it[i], 12>>]]
TyOf(k, gpos) == CASE k = "lig" -> "sub4" [] k = "alt" -> "sub3" [] k = "mult" -> "sub2" [] k \in {"pair1", "pair2"} -> "pos2"
                   [] k = "sp2" -> "pos1" [] k = "mkb" -> "mkb" [] OTHER -> IF gpos THEN "pos1" ELSE "sub1"
SemLookup(l, gpos) == [ty |-> IF Len(l.st) = 0 THEN "none" ELSE TyOf(l.st[1].k, gpos), flag |-> 0, mfs |-> 0,
                       st |-> [j \in 1..Len(l.st) |-> SemSub(l.st[j], gpos)]]
Sem(lk) ==
  LET gpos == Table = "GPOS"
      tb == [lookups |-> [i \in 1..Len(lk) |-> SemLookup(lk[i], gpos)], fl |-> <<>>]
      none == [lookups |-> <<>>, fl |-> <<>>]
  IN [gdef |-> [cls |-> <<>>, mac |-> <<>>, sets |-> <<>>], gsub |-> IF gpos THEN none ELSE tb, gpos |-> IF gpos THEN tb ELSE none,
      adv |-> [g \in 1..12 |-> 500 + g]]
(* a lookup may only mix subtables of one lookup type *)
WellTyped(lk) == \A i \in 1..Len(lk) : \A j \in 1..Len(lk[i].st) : TyOf(lk[i].st[j].k, Table = "GPOS") = TyOf(lk[i].st[1].k, Table = "GPOS")

Probes == {<<a>> : a \in 1..8} \cup {<<a, b>> : a \in 1..8, b \in {9, 10, 4}} \cup {<<a, 9, 9>> : a \in {4, 7, 1}}
            \cup {<<a, b>> : a \in {1, 2}, b \in {9, 10, 11}} \cup {<<2, 2>>, <<5, 5>>, <<1, 9, 10>>, <<1, 10, 11>>, <<2, 11, 10>>}
DenoteMC(lk) ==
  LET L == Sem(lk)
  IN [i \in 1..Len(lk) |-> IF Table = "GPOS" THEN DenotePos(L, i, Probes) ELSE <<DenoteSub(L, i, Probes), [q \in {<<4>>, <<5>>} |-> ApplyLookup(L.gsub.lookups, L.gdef, i, [b |-> q, ps |-> <<>>], 2).b]>>]

-----------------------------------------------------------------------------
MInit == \E sh \in Shapes : \E n \in 1..MaxLOf(sh) : \E f \in [1..n -> LkOpts(sh)] :
           LET lk == [i \in 1..n |-> [ext |-> FALSE, st |-> f[i]]] IN WellTyped(lk) /\ RInit(lk, HBMode = "on")
MSpec == MInit /\ [][RNext]_rvars /\ WF_rvars(AttemptFT \/ AttemptHB \/ Resolve)
(* every successful resolution lowers Measure, and between two of them there are at most three passes *)
TerminatesInv == TerminatesWithin(40)

(* bound for the runs that do not terminate (the counterexample of Progress grows one subtable per round) *)
TotalSubs == SumSeq([i \in 1..Len(lookups) |-> Len(lookups[i].st)], Len(lookups))
Bounded == TotalSubs <= 3 * MaxL + 6
NoStuckLig == \A i \in 1..Len(lookups) : \A j \in 1..Len(lookups[i].st) : ~(LigLike(lookups[i].st[j].k) /\ \E x \in 1..Len(lookups[i].st[j].it) : lookups[i].st[j].it[x] = 7)

(* export: every (lookup list, record) at which the resolution is entered, with its meaning *)
GenEmit == pc = "overflowed" => PrintT(<<"GEN", ToJson([tag |-> Table, lk |-> lookups, rec |-> cur, sem |-> Sem(lookups),
                                                         rank |-> [g \in 1..12 |-> NameRank(g)]])>>)
Stat == (pc = "overflowed" => PrintT(<<"SITE", IF cur.name = "" THEN (IF cur.S = None THEN "LookupList->Lookup" ELSE "Lookup->SubTable") ELSE cur.name,
                                        TryResolve(lookups, cur).how>>))
        /\ (pc = "done" => PrintT(<<"END", outcome, rstate, IF hbfailed THEN 1 ELSE 0>>))
=============================================================================
