CONSTANTS
  ItemSz <- ItemSize
  HeadSz <- HeadSize
  Denote <- DenoteMC
  Limits <- MCLimits
  HBMode = "off"
  Table = "GPOS"
  MaxL = 1
  TwoSubs = FALSE
SPECIFICATION MSpec
CONSTRAINTS Bounded NoStuckLig
INVARIANTS ReturnImpliesValid RaiseOnlyWhenStuck NoCrash
PROPERTIES Progress
CHECK_DEADLOCK FALSE
