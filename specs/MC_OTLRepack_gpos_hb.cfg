CONSTANTS
  ItemSz <- ItemSize
  HeadSz <- HeadSize
  Denote <- DenoteMC
  Limits <- MCLimits
  HBMode = "on"
  Table = "GPOS"
  MaxL = 2
  TwoSubs = TRUE
SPECIFICATION MSpec
CONSTRAINTS Bounded NoStuckLig GenEmit Stat
INVARIANTS ReturnImpliesValid RaiseOnlyWhenStuck NoCrash
PROPERTIES DenotationPreserved Progress Terminates
CHECK_DEADLOCK FALSE
