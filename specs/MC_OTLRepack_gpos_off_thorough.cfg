CONSTANTS
  ItemSz <- ItemSize
  HeadSz <- HeadSize
  Denote <- DenoteMC
  Limits <- MCLimits
  HBMode = "off"
  Table = "GPOS"
  Shapes = {"2x1", "1x2"}
INIT MInit
NEXT RNext
CONSTRAINTS Bounded NoStuckLig GenEmit Stat
INVARIANTS ReturnImpliesValid RaiseOnlyWhenStuck NoCrash TerminatesInv
PROPERTIES DenotationPreserved Progress
CHECK_DEADLOCK TRUE
