CONSTANTS
  ItemSz <- ItemSize
  HeadSz <- HeadSize
  Denote <- DenoteMC
  Limits <- MCLimits
  HBMode = "on"
  Table = "GPOS"
  Shapes = {"2x1"}
INIT MInit
NEXT RNext
CONSTRAINTS Bounded NoStuckLig GenEmit Stat
INVARIANTS ReturnImpliesValid RaiseOnlyWhenStuck TerminatesInv
PROPERTIES DenotationPreserved Progress
CHECK_DEADLOCK TRUE
