CONSTANTS
  ItemSz <- ItemSize
  HeadSz <- HeadSize
  Denote <- DenoteMC
  Limits <- MCLimits
  HBMode = "off"
  Table = "GSUB"
  Shapes = {"2x2", "3x1"}
INIT MInit
NEXT RNext
CONSTRAINTS Bounded NoStuckLig GenEmit Stat
INVARIANTS ReturnImpliesValid RaiseOnlyWhenStuck NoCrash TerminatesInv
PROPERTIES DenotationPreserved Progress
CHECK_DEADLOCK TRUE
