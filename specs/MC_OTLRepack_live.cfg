CONSTANTS
  ItemSz <- ItemSize
  HeadSz <- HeadSize
  Denote <- DenoteMC
  Limits <- MCLimits
  HBMode = "off"
  Table = "GSUB"
  MaxL = 1
  TwoSubs = FALSE
SPECIFICATION MSpec
CONSTRAINTS Bounded NoStuckLig
INVARIANTS ReturnImpliesValid RaiseOnlyWhenStuck NoCrash TerminatesInv
PROPERTIES Terminates
CHECK_DEADLOCK FALSE
