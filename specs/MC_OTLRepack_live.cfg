CONSTANTS
  ItemSz <- ItemSize
  HeadSz <- HeadSize
  Denote <- DenoteMC
  Limits <- MCLimits
  HBMode = "off"
  Table = "GSUB"
  Shapes = {"1x1"}
SPECIFICATION MSpec
CONSTRAINTS Bounded NoStuckLig
INVARIANTS ReturnImpliesValid RaiseOnlyWhenStuck NoCrash TerminatesInv
PROPERTIES Terminates
CHECK_DEADLOCK FALSE
