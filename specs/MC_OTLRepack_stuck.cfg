CONSTANTS
  ItemSz <- ItemSize
  HeadSz <- HeadSize
  Denote <- DenoteMC
  Limits <- MCLimits
  HBMode = "off"
  Table = "GSUB"
  Shapes = {"1x1"}
INIT MInit
NEXT RNext
INVARIANTS ReturnImpliesValid RaiseOnlyWhenStuck NoCrash TerminatesInv
PROPERTIES DenotationPreserved Progress
CHECK_DEADLOCK TRUE
