CONSTANTS
  ItemSz <- ItemSize
  HeadSz <- HeadSize
  Denote <- DenoteMC
  Limits <- MCLimits
  HBMode = "off"
  Table = "GSUB"
  MaxL = 1
  TwoSubs = FALSE
SPECIFICATION MSpec
CONSTRAINTS Bounded
INVARIANTS ReturnImpliesValid RaiseOnlyWhenStuck NoCrash
PROPERTIES DenotationPreserved Progress Terminates
CHECK_DEADLOCK FALSE
