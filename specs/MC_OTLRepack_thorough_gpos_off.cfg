CONSTANTS
  ItemSz <- ItemSize
  HeadSz <- HeadSize
  Denote <- DenoteMC
  Limits <- MCLimits
  HBMode = "off"
  Table = "GPOS"
  MaxL = 3
  TwoSubs = FALSE
SPECIFICATION MSpec
CONSTRAINTS Bounded NoStuckLig GenEmit Stat
INVARIANTS ReturnImpliesValid RaiseOnlyWhenStuck NoCrash
PROPERTIES DenotationPreserved Progress Terminates
CHECK_DEADLOCK FALSE
