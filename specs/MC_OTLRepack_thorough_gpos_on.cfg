CONSTANTS
  ItemSz <- ItemSize
  HeadSz <- HeadSize
  Denote <- DenoteMC
  Limits <- MCLimits
  HBMode = "on"
  Table = "GPOS"
  MaxL = 3
  TwoSubs = FALSE
INIT MInit
NEXT RNext
CONSTRAINTS Bounded NoStuckLig GenEmit Stat
INVARIANTS ReturnImpliesValid RaiseOnlyWhenStuck NoCrash TerminatesInv
PROPERTIES DenotationPreserved Progress
CHECK_DEADLOCK TRUE
