---------------------------- MODULE MC_PenProto ----------------------------
(* (M) for C14.  The protocol machines of PenProto run as a builder: every reachable
   state is a valid prefix of pen calls over a small point lattice, every state in which
   the pen is idle is a complete outline.  TLC enumerates all of them up to the bounds
   and checks the laws of the specification on each (so the oracle used by Trace_C14 is
   itself model-checked), and prints each complete outline once: the same reachable set
   is the input population replayed into the real adapters by the harness (R).          *)
EXTENDS PenProto, Json

CONSTANTS MaxPts,      \* total number of point arguments (a component counts as one)
          MaxOff,      \* off-curve points per segment
          MaxCalls,    \* length of the call sequence
          Lattice,     \* "L4" | "L5" | "L9": which point lattice
          Protos,      \* subset of {"seg", "pt"}
          SampleMod    \* print every outline (1) or a deterministic 1/SampleMod sample of them (simulation)

VARIABLES proto, calls, st, np
vars == <<proto, calls, st, np>>

(* coordinates in 1/12 units: 0, 12, 24 are the real values 0, 1, 2.  The lattices contain
   coincident points by repetition, an axis-parallel pair, a diagonal, and the collinear
   triple (0,0) (1,1) (2,2) whose middle point is the midpoint of the outer two.        *)
L == CASE Lattice = "L3" -> {<<0, 0>>, <<12, 12>>, <<24, 0>>}
       [] Lattice = "L4" -> {<<0, 0>>, <<12, 12>>, <<24, 24>>, <<24, 0>>}
       [] Lattice = "L5" -> {<<0, 0>>, <<12, 12>>, <<24, 24>>, <<24, 0>>, <<0, 24>>}
       [] Lattice = "L9" -> {<<x, y>> : x \in {0, 12, 24}, y \in {0, 12, 24}}
Mats == {<<1, 0, 0, 1, 12, -12>>, <<-1, 0, 0, 1, 0, 24>>, <<0, 1, -1, 0, 0, 0>>}

Add(c, k) == /\ Len(calls) < MaxCalls /\ np + k <= MaxPts
             /\ calls' = Append(calls, c) /\ np' = np + k
LastOp == IF calls = <<>> THEN 0 ELSE calls[Len(calls)][1]
Extend(p) == /\ np < MaxPts /\ np' = np + 1
             /\ calls' = [calls EXCEPT ![Len(calls)] = calls[Len(calls)] \o p]

(* ---- segment pen ----
   A curveTo / qCurveTo call is built one point at a time (state "build": the last call is
   still growing), so that every step of the machine has about |L| successors and random
   walks (simulation) are not dominated by the many-point calls.                          *)
SMove == st = "idle" /\ \E p \in L : Add(<<MOVE>> \o p, 1) /\ st' = "in"
SLine == st = "in" /\ \E p \in L : Add(<<LINE>> \o p, 1) /\ st' = "in"
SCurveStart == st = "in" /\ \E o \in {CURVE, QCURVE} : \E p \in L : Add(<<o>> \o p, 1) /\ st' = "build"
SCurveMore == st \in {"build", "blob"} /\ NPts(calls[Len(calls)]) <= MaxOff /\ \E p \in L : Extend(p) /\ st' = st
SCurveDone == st = "build" /\ st' = "in" /\ UNCHANGED <<calls, np>>
SClose == st = "in" /\ Add(<<CLOSE>>, 0) /\ st' = "idle"
SEnd == st = "in" /\ Add(<<END>>, 0) /\ st' = "idle"
SBlobStart == st = "idle" /\ Len(calls) + 1 < MaxCalls /\ \E p \in L : Add(<<QBLOB>> \o p, 1) /\ st' = "blob"
SBlobDone == st = "blob" /\ Add(<<CLOSE>>, 0) /\ st' = "idle"
SComp == st = "idle" /\ \E m \in Mats : Add(<<COMP, 1>> \o m, 1) /\ st' = "idle"
SegNext == proto = "seg" /\ (SMove \/ SLine \/ SCurveStart \/ SCurveMore \/ SCurveDone \/ SClose \/ SEnd
                             \/ SBlobStart \/ SBlobDone \/ SComp)

(* ---- point pen ---- *)
PBegin == st = "idle" /\ Add(<<PBEGIN>>, 0) /\ st' = "in"
PMoveA == st = "in" /\ LastOp = PBEGIN /\ \E p \in L : Add(<<PMOVE>> \o p, 1) /\ st' = "in"
POffA == st = "in" /\ \E p \in L : Add(<<POFF>> \o p, 1) /\ st' = "in"
PLineA == st = "in" /\ LastOp # POFF /\ \E p \in L : Add(<<PLINE>> \o p, 1) /\ st' = "in"
PCurveA == st = "in" /\ \E o \in {PCURVE, PQCURVE} : \E p \in L : Add(<<o>> \o p, 1) /\ st' = "in"
PEndA == st = "in" /\ LastOp # PBEGIN /\ Add(<<PEND>>, 0) /\ st' = "idle"
         /\ WellFormed(ShapeOfPts(Append(calls, <<PEND>>)))
PCompA == st = "idle" /\ \E m \in Mats : Add(<<PCOMP, 1>> \o m, 1) /\ st' = "idle"
(* off-curve runs are bounded like segments *)
RECURSIVE TrailOff(_, _)
TrailOff(cs, i) == IF i = 0 \/ cs[i][1] # POFF THEN 0 ELSE 1 + TrailOff(cs, i - 1)
PtNext == proto = "pt" /\ (PBegin \/ PMoveA \/ (TrailOff(calls, Len(calls)) < MaxOff /\ POffA) \/ PLineA \/ PCurveA \/ PEndA \/ PCompA)

Init == proto \in Protos /\ calls = <<>> /\ st = "idle" /\ np = 0
Next == (SegNext \/ PtNext) /\ UNCHANGED proto
RECURSIVE HashCall(_, _, _)
HashCall(c, j, acc) == IF j > Len(c) THEN acc ELSE HashCall(c, j + 1, (acc * 31 + c[j] + 7) % 65521)
RECURSIVE Hash(_, _, _)
Hash(cs, i, acc) == IF i > Len(cs) THEN acc ELSE Hash(cs, i + 1, HashCall(cs[i], 1, (acc * 17 + 3) % 65521))
Emit == (st = "idle" /\ calls # <<>> /\ (SampleMod = 1 \/ Hash(calls, 1, 0) % SampleMod = 0))
          => PrintT(<<"GEN", ToJson(calls)>>)

(* ---- laws, checked on every complete outline ---- *)
Done == st = "idle"
Sh == ShapeOf(calls)
Items == Sh.items
G == Geom(Sh)
TestMats == {<<-1, 0, 0, 1, 12, -24>>, <<0, 1, -1, 0, 12, 0>>, <<2, 0, 12, 3, 0, 0>>}
Singular == <<1, 1, 1, 1, 0, 0>>
RotBlobItem(it) == IF FreeStart(it) /\ Len(it.pts) > 1 THEN Contour(TRUE, SubSeq(it.pts, 2, Len(it.pts)) \o <<it.pts[1]>>) ELSE it
RotBlobs(items) == [i \in 1..Len(items) |-> RotBlobItem(items[i])]
StartsOn(items) == \A i \in 1..Len(items) : items[i].k = "c" /\ items[i].cl => (FirstOn(items[i].pts) = 1)

ProtocolOK == Done => Sh.ok /\ WellFormed(Sh) /\ Exact(Sh)
(* the protocol converters of the specification are mutually inverse up to the named normal form *)
ConvertersInverse == Done =>
  /\ ShapeOfPts(ToPtsCalls(Items, 1)) = Good(Items)
  /\ ShapeOfSeg(ToSegCalls(NormP2S(Items), 1)) = Good(NormP2S(Items))
  /\ GeoPlain(Geom(Good(NormP2S(Items)))) = GeoPlain(G)
  /\ (proto = "seg" => NormP2S(Items) = NormSingle(Items))
ReverseLaws == Done =>
  /\ RevShape(RevShape(Items)) = Items
  /\ WellFormed(Good(RevShape(Items)))
  /\ SameUpToStart(GeoPlain(Geom(Good(RevShape(Items)))), GeoPlain(RevGeom(G)))
  /\ (StartsOn(Items) => Geom(Good(RevShape(Items))) = RevGeom(G))
  /\ RevGeom(RevGeom(G)) = G
  /\ Area60(RevGeom(G)) = -Area60(G)
AffineLaws == Done => \A m \in TestMats \cup {Singular} :
  /\ Area60(Geom(Good(AffineShape(Items, m)))) = Det(m) * Area60(G)
  /\ (Det(m) # 0 => ShapeOf(AffineCalls(calls, m)) = Good(AffineShape(Items, m)))   \* a singular map may create coincidences
  /\ (Det(m) # 0 => Geom(Good(AffineShape(Items, m))) =
                     [i \in 1..Len(G) |-> IF G[i].k # "c" THEN [G[i] EXCEPT !.m = Compose(m, G[i].m)]
                                          ELSE [G[i] EXCEPT !.st = Apply(m, G[i].st),
                                                 !.segs = [j \in 1..Len(G[i].segs) |-> [q \in 1..Len(G[i].segs[j]) |-> Apply(m, G[i].segs[j][q])]]]])
BoundsLaws == Done =>
  LET cb == ControlBox(G)  ob == OnCurveBox(G) IN
  /\ BoxIn(ob, cb, 0)
  /\ (OnlyLines(G) => ob = cb)
  /\ BoxIn(BoxOf(MidCurveSet8(G)), Scale4(cb, 8), 0)
  /\ (cb # <<>> /\ NoCubics(G) =>
        \A ax \in 1..2 : \E hi \in cb[ax]..cb[ax + 2] : IsMaxOf(hi * 4, AxisValues(G, ax), 4, 4))
FillLaws == Done =>
  /\ GeoFill(GeoFill(G)) = GeoFill(G)
  /\ GeoT2(GeoT2(G)) = GeoT2(G)
  /\ Area60(GeoFill(G)) = Area60(G)      \* dropping zero lines / closing with the straight line keeps the area
  /\ Area60(GeoT2(G)) = Area60(G)        \* and so does the specializer licence (retraces enclose nothing)
  /\ \A i \in 1..Len(GeoFill(G)) : GeoFill(G)[i].k = "c" => GeoFill(G)[i].cl /\ EndOf(GeoFill(G)[i]) = GeoFill(G)[i].st
  (* the start point licence of contours without on-curve point: FillTagged is GeoFill with tags; listing the
     off-curve points of such a contour from another one on (what a TrueType round trip may do) is the same filled
     geometry with the same area, and is accepted by SameFillStart although the segment lists are rotated *)
  /\ [i \in 1..Len(FillTagged(Items)) |-> FillTagged(Items)[i][1]] = GeoFill(G)
  /\ SameFillStart(Items, Items)
  /\ Exact(Good(RotBlobs(Items))) /\ SameFillStart(Items, RotBlobs(Items))
  /\ Area60(Geom(Good(RotBlobs(Items)))) = Area60(G)
  /\ SameUpToStart(GeoFill(Geom(Good(RotBlobs(Items)))), GeoFill(G))

(* ---- constant-level sanity of the arithmetic ---- *)
ASSUME ComposeLaw == \A t \in TestMats \cup {Singular}, c \in TestMats \cup {Singular}, p \in {<<0, 0>>, <<12, 5>>, <<-7, 24>>} :
                        Apply(Compose(t, c), p) = Apply(t, Apply(c, p))
ASSUME RoundLaw == \A K \in {2, 12} : \A v \in -40..40 :
                      LET r == RoundK(v, K) IN r % K = 0 /\ 2 * (r - v) <= K /\ 2 * (v - r) < K
(* unit square, counter-clockwise: area 1 = 60/60 *)
ASSUME AreaSquare == Area60(<<[k |-> "c", cl |-> TRUE, st |-> <<0, 0>>,
                               segs |-> <<<<<<0, 0>>, <<1, 0>>>>, <<<<1, 0>>, <<1, 1>>>>, <<<<1, 1>>, <<0, 1>>>>, <<<<0, 1>>, <<0, 0>>>>>>]>>) = 60
(* degree elevation does not change the area: quadratic (0,0) (3,6) (6,0) = cubic (0,0) (2,4) (4,4) (6,0);
   a line is the quadratic with its control point in the middle *)
ASSUME AreaElevation ==
  /\ SegArea60(<<<<0, 0>>, <<3, 6>>, <<6, 0>>>>) = SegArea60(<<<<0, 0>>, <<2, 4>>, <<4, 4>>, <<6, 0>>>>)
  /\ SegArea60(<<<<0, 3>>, <<6, 9>>, <<12, -3>>>>) = SegArea60(<<<<0, 3>>, <<4, 7>>, <<8, 5>>, <<12, -3>>>>)
  /\ SegArea60(<<<<2, 2>>, <<4, 6>>>>) = SegArea60(<<<<2, 2>>, <<3, 4>>, <<4, 6>>>>)
(* the area under the parabola y = x(6-x)*2/3... : quadratic (0,0) (3,6) (6,0) closed by the chord encloses
   2/3 * base * height(apex = 3) = 12, clockwise => -12 *)
ASSUME AreaParabola == SegArea60(<<<<0, 0>>, <<3, 6>>, <<6, 0>>>>) + SegArea60(<<<<6, 0>>, <<0, 0>>>>) = -12 * 60
(* super-bezier with 3 and 4 control points, by hand from the B-spline subdivision *)
ASSUME Super3 == SuperBezier(<<0, 0>>, <<<<0, 12>>, <<12, 24>>, <<24, 12>>>>, <<24, 0>>) =
                   << <<<<0, 0>>, <<0, 12>>, <<6, 18>>, <<12, 18>>>>, <<<<12, 18>>, <<18, 18>>, <<24, 12>>, <<24, 0>>>> >>
ASSUME Super4 == SuperBezier(<<0, 0>>, <<<<0, 12>>, <<12, 24>>, <<24, 24>>, <<36, 12>>>>, <<36, 0>>) =
                   << <<<<0, 0>>, <<0, 12>>, <<6, 18>>, <<11, 21>>>>,
                      <<<<11, 21>>, <<16, 24>>, <<20, 24>>, <<25, 21>>>>,
                      <<<<25, 21>>, <<30, 18>>, <<36, 12>>, <<36, 0>>>> >>
=============================================================================
