CONSTANTS
  MaxPts = 9
  MaxOff = 3
  MaxCalls = 14
  Lattice = "L5"
  Protos = {"seg", "pt"}
  SampleMod = 4
INIT Init
NEXT Next
CONSTRAINT Emit
CHECK_DEADLOCK FALSE
