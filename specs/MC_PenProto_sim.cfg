CONSTANTS
  MaxPts = 8
  MaxOff = 3
  MaxCalls = 14
  Lattice = "L9"
  Protos = {"seg", "pt"}
INIT Init
NEXT Next
CONSTRAINT Emit
CHECK_DEADLOCK FALSE
