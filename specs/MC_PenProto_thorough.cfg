CONSTANTS
  MaxPts = 4
  MaxOff = 2
  MaxCalls = 5
  Lattice = "L4"
  Protos = {"seg", "pt"}
  SampleMod = 1
INIT Init
NEXT Next
CONSTRAINT Emit
INVARIANT ProtocolOK
INVARIANT ConvertersInverse
INVARIANT ReverseLaws
INVARIANT AffineLaws
INVARIANT BoundsLaws
INVARIANT FillLaws
CHECK_DEADLOCK FALSE
