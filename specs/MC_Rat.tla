------------------------------- MODULE MC_Rat -------------------------------
(* (M) for Rat: field laws, canonical forms and order on a whole small set of rationals,
   agreement of the overflow-free comparison with cross multiplication, and the overflow
   guard (poison instead of a wrong value or a TLC abort). *)
EXTENDS Rat
VARIABLE x
S == {Rat(n, d) : n \in -6..6, d \in 1..6}
Init == x \in S
Next == UNCHANGED x
Laws ==
  \A b \in S :
    LET a == x IN
    /\ IsRat(RAdd(a, b)) /\ IsRat(RMul(a, b)) /\ IsRat(RSub(a, b))
    /\ RAdd(a, b) = RAdd(b, a) /\ RMul(a, b) = RMul(b, a)
    /\ RSub(RAdd(a, b), b) = a
    /\ (b[1] # 0 => RDiv(RMul(a, b), b) = a /\ RMul(RDiv(a, b), b) = a)
    /\ (RLt(a, b) <=> a[1] * b[2] < b[1] * a[2])
    /\ (RLe(a, b) <=> a[1] * b[2] <= b[1] * a[2])
    /\ RCmpBig(a, b) = RCmp(a, b)
    /\ (RLt(a, b) <=> RIsNeg(RSub(a, b)))
    /\ \A c \in {RZero, ROne, RHalf, Rat(-5, 3)} : RMul(a, RAdd(b, c)) = RAdd(RMul(a, b), RMul(a, c))
ASSUME Guard ==
  /\ RMul(<<65536, 1>>, <<65536, 1>>) = RNaN
  /\ RAdd(<<MaxInt31, 1>>, ROne) = RNaN
  /\ RAdd(<<1, 65536>>, <<1, 65537>>) = RNaN               \* common denominator beyond 31 bits
  /\ RAdd(RNaN, ROne) = RNaN /\ RMul(ROne, RNaN) = RNaN /\ RDiv(ROne, RZero) = RNaN
  /\ RMul(<<65536, 3>>, <<3, 65536>>) = ROne                \* cross-cancelled: no spurious overflow
  /\ RLt(<<2000000001, 2000000000>>, <<2000000000, 1999999999>>)     \* Euclid comparison, no overflow
  /\ ~RLt(<<2000000000, 1999999999>>, <<2000000001, 2000000000>>)
  /\ RLt(<<-2000000000, 3>>, <<2000000000, 7>>)
  /\ Rat(6, -4) = <<-3, 2>> /\ Rat(0, 5) = RZero /\ Rat(1, 0) = RNaN
  /\ Fits31(MaxInt31) /\ MulFits(46340, 46340) /\ ~MulFits(46341, 46341)
=============================================================================
