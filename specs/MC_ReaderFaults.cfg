CONSTANT MaxLen = 5
INIT Init
NEXT Next
INVARIANT IntactOK
INVARIANT TruncExact
INVARIANT NeverBeyond
INVARIANT NeverUnknown
CHECK_DEADLOCK FALSE
