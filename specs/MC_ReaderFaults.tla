---- MODULE MC_ReaderFaults ----
(* Design check of the reader model on small well-formed sfnt files built in TLA+: every
   truncation length and every single-byte flip of header and directory.  Laws: the intact file
   opens and loads; truncation is monotone; a truncation inside a table refuses exactly the tables
   that are cut; a flip never makes the model claim data beyond the end of the file is loadable. *)
EXTENDS ReaderFaults
CONSTANT MaxLen
VARIABLES lens, fault
B4(v) == <<0, 0, v \div 256, v % 256>>
Pad4(n) == ((n + 3) \div 4) * 4
RECURSIVE Offs(_, _, _)
Offs(ls, i, cur) == IF i > Len(ls) THEN <<>> ELSE <<cur>> \o Offs(ls, i + 1, cur + Pad4(ls[i]))
MkFile(ls) ==
  LET n == Len(ls)
      offs == Offs(ls, 1, 12 + 16 * n)
      hdr == <<0, 1, 0, 0, 0, n, 0, 0, 0, 0, 0, 0>>
      RECURSIVE Dir(_)
      Dir(i) == IF i > n THEN <<>> ELSE <<65, 65, 65, 64 + i>> \o B4(0) \o B4(offs[i]) \o B4(ls[i]) \o Dir(i + 1)
      total == IF n = 0 THEN 12 ELSE offs[n] + Pad4(ls[n])
      body == [i \in 1..(total - 12 - 16 * n) |-> 7]
  IN hdr \o Dir(1) \o body
Init == /\ lens \in UNION {[1..n -> 0..MaxLen] : n \in 0..2} /\ fault = <<"none">>
Next == /\ UNCHANGED lens /\ fault = <<"none">>
        /\ \/ \E k \in 0..Len(MkFile(lens)) : fault' = <<"trunc", k>>
           \/ \E pos \in 0..(11 + 16 * Len(lens)), v \in {0, 1, 255} : fault' = <<"flip", pos, v>>
File == MkFile(lens)
P == IF fault[1] = "trunc" THEN Predict(File, <<>>, fault[2], 0)
     ELSE IF fault[1] = "flip" THEN Predict(File, <<fault[2], fault[3]>>, Len(File), 0)
     ELSE Predict(File, <<>>, Len(File), 0)
FL == IF fault[1] = "trunc" THEN fault[2] ELSE Len(File)
IntactOK == fault[1] = "none" => P.open = "ok" /\ \A k \in 1..Len(P.entries) : LoadOutcome(P.entries[k], FL) = "ok"
TruncExact == fault[1] = "trunc" =>
   /\ (P.open = "ok") = (fault[2] >= 12 + 16 * Len(lens))
   /\ P.open = "ok" => \A k \in 1..Len(P.entries) :
         (LoadOutcome(P.entries[k], FL) = "ok") = (P.entries[k].len = 0 \/ P.entries[k].off + P.entries[k].len <= fault[2])
NeverBeyond == P.open = "ok" => \A k \in 1..Len(P.entries) :
         LoadOutcome(P.entries[k], FL) = "ok" => (P.entries[k].len = 0 \/ P.entries[k].off + P.entries[k].len <= FL)
NeverUnknown == P.open # "unknown"
====
