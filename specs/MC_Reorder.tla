----------------------------- MODULE MC_Reorder -----------------------------
(* Exhaustive check of Reorder on a family of 4-glyph fonts: all renumberings that keep .notdef first,
   applied repeatedly (every order is reached from every order), one lookup of each modelled kind with
   every non-empty Coverage over the three real glyphs, four ClassDefs, one composite glyph.
   With BugSet = Bugs (MC_Reorder_neg.cfg) the same machine is run with each deliberately wrong variant
   of the transformation on the richest font of the family; every variant must be reported (NEG) by the
   same predicates, which shows NameView / WellFormed are not vacuous.                              *)
EXTENDS Reorder, Json

CONSTANTS BugSet, Family
VARIABLES font, view0, bug
vars == <<font, view0, bug>>

Glyphs == <<"nd", "a", "b", "c">>
Real == {2, 3, 4}
Perms == {p \in [1..4 -> Range(Glyphs)] : p[1] = "nd" /\ Cardinality({p[i] : i \in 1..4}) = 4}
Succ(g) == IF g = 4 THEN 2 ELSE g + 1
Pred(g) == IF g = 2 THEN 4 ELSE g - 1
Subsets == IF Family \in {"all", "tied"} THEN (SUBSET Real) \ {{}} ELSE {Real}
ClassDefs == IF Family \in {"all", "tied"} THEN {<<0, 0, 0, 0>>, <<0, 1, 0, 1>>, <<0, 1, 2, 0>>, <<0, 2, 1, 1>>} ELSE {<<0, 1, 2, 0>>}
BaseSets == IF Family \in {"all", "tied"} THEN {{2}, {3}, {2, 3}} ELSE {{2, 3}}

LigSet(g) == << << <<Succ(g), g>>, Pred(g) >>, << <<Succ(g)>>, g >> >>       \* longer ligature first
PairSet(g) == << <<2, 10 * g + 2>>, <<4, 10 * g + 4>> >>                      \* seconds a and c

MkFont(S1, S2, S3, cd, B) ==
  LET c1 == SortSet(S1)  c2 == SortSet(S2)  c3 == SortSet(S3)  cb == SortSet(B) IN
  [order  |-> Glyphs,
   hmtx   |-> << <<500, 0>>, <<600, 10>>, <<700, 20>>, <<800, 30>> >>,
   glyf   |-> << [k |-> "simple", id |-> 1], [k |-> "simple", id |-> 2], [k |-> "simple", id |-> 3],
                 [k |-> "comp", parts |-> << <<2, 0, 0>>, <<3, 100, -5>> >>] >>,
   cmap   |-> {<<65, 2>>, <<66, 3>>, <<67, 4>>, <<97, 2>>},
   var    |-> <<0, 11, 22, 33>>,
   single |-> [cov |-> c1, sub |-> [i \in Idx(c1) |-> Succ(c1[i])]],
   lig    |-> [cov |-> c2, sets |-> [i \in Idx(c2) |-> LigSet(c2[i])]],
   pair   |-> [cov |-> c3, sets |-> [i \in Idx(c3) |-> PairSet(c3[i])]],
   cls    |-> [cov |-> c3, classdef |-> cd, val |-> <<7, -7>>],
   mark   |-> [mcov |-> <<4>>, marks |-> << <<0, 250>> >>, bcov |-> cb, bases |-> [i \in Idx(cb) |-> 100 + cb[i]]]]

Init ==
  /\ bug \in BugSet
  /\ \E S1 \in Subsets, S2 \in Subsets, S3 \in Subsets, cd \in ClassDefs, B \in BaseSets :
        /\ Family = "tied" => S3 = S2           \* quick tier: PairPos/ClassDef coverage tied to the ligature coverage
        /\ font = MkFont(S1, S2, S3, cd, B)
  /\ view0 = NameView(font)

(* a wrong variant is applied once (from the initial order); the design transformation any number of times *)
Next ==
  /\ bug = "none" \/ font.order = Glyphs
  /\ \E p \in Perms : font' = Reorder(font, p, bug)
  /\ UNCHANGED <<view0, bug>>

Spec == Init /\ [][Next]_vars

(* generation for (R): every font of the family, once, as JSON (MC_Reorder_gen.cfg) *)
NoNext == FALSE /\ UNCHANGED vars
Emit == PrintT(<<"GEN", ToJson(font)>>)

Inv_Wellformed0 == font.order = Glyphs => WellFormed(font)          \* the family itself is well formed
Inv_NameView == bug = "none" => NameView(font) = view0
Inv_WellFormed == bug = "none" => WellFormed(font)
Inv_Order == font.order[1] = "nd" /\ IsPermOf(font.order, Glyphs)
(* the judge's fast form of PermutedArray agrees with the general one *)
Inv_PermutedId ==
  LET ids == [i \in 1..4 |-> i]
      new == [g \in 1..4 |-> IndexOf(Glyphs, font.order[g])]
      arrB == <<"w", "x", "y", "z">>
  IN \A arrA \in {[g \in 1..4 |-> arrB[new[g]]], arrB} :
        PermutedArray(arrB, arrA, ids, new) = PermutedArrayId(arrB, arrA, new)
NegReport == (bug # "none" /\ ~(NameView(font) = view0 /\ WellFormed(font))) => PrintT(<<"NEG", bug>>)
=============================================================================
