CONSTANTS
  BugSet = {"none"}
  Family = "tied"
INIT Init
NEXT NoNext
CONSTRAINT Emit
CHECK_DEADLOCK FALSE
