CONSTANTS
  BugSet = {"hmtx", "var-row", "component-gid", "single-parallel", "lig-parallel", "pairset-unsorted", "coverage-unsorted", "base-parallel"}
  Family = "one"
INIT Init
NEXT Next
INVARIANT NegReport
INVARIANT Inv_Order
CHECK_DEADLOCK FALSE
