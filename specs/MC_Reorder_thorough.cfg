CONSTANTS
  BugSet = {"none"}
  Family = "all"
INIT Init
NEXT Next
INVARIANT Inv_Wellformed0
INVARIANT Inv_NameView
INVARIANT Inv_WellFormed
INVARIANT Inv_Order
INVARIANT Inv_PermutedId
CHECK_DEADLOCK FALSE
