CONSTANTS
  Val = {1, 2}
  MaxOps = 5
  ResidueMatters = FALSE
INIT Init
NEXT Next
INVARIANT SaveTransparent
INVARIANT SaveIdempotent
CHECK_DEADLOCK FALSE
