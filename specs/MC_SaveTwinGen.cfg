CONSTANTS
  Val = {1, 2}
  MaxOps = 4
  ResidueMatters = FALSE
INIT GInit
NEXT GNext
INVARIANT SaveTransparent
INVARIANT SaveIdempotent
INVARIANT Emit
CHECK_DEADLOCK FALSE
