---- MODULE MC_SaveTwinGen ----
(* Generator: every history of SaveTwin up to MaxOps, exported as JSON when it finishes. *)
EXTENDS SaveTwin, Json
VARIABLE hist
GInit == Init /\ hist = <<>>
GNext == \/ \E v \in Val : (EditSrc(v) /\ hist' = Append(hist, <<"EditSrc", v>>)) \/ (EditDrv(v) /\ hist' = Append(hist, <<"EditDrv", v>>))
         \/ SaveA /\ hist' = Append(hist, <<"SaveA", 0>>)
         \/ DumpA /\ hist' = Append(hist, <<"DumpA", 0>>)
         \/ Finish /\ hist' = hist
Emit == phase = "done" => PrintT(<<"GEN", ToJson(hist)>>)
====
