CONSTANTS
  Val = {1, 2}
  MaxOps = 3
  ResidueMatters = TRUE
INIT Init
NEXT Next
INVARIANT SaveTransparent
CHECK_DEADLOCK FALSE
