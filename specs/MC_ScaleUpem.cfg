CONSTANTS
  Factors <- FactorsDef
  AbsMax = 2100
  RelVals <- RelValsDef
INIT Init
NEXT Next
INVARIANT Inv_Scaled
INVARIANT Inv_NothingElse
INVARIANT Inv_Fits
INVARIANT Inv_OtRound
INVARIANT Inv_Exact
INVARIANT W_HalfAttained
INVARIANT W_RelExceedsHalf
INVARIANT W_RelExceedsOne
CHECK_DEADLOCK FALSE
