---------------------------- MODULE MC_ScaleUpem ----------------------------
(* Exhaustive: every factor of Factors x (one absolute value from AbsVals | one relative path of three
   deltas from RelVals^3); one Scale step.  Invariants: the specified transformation meets the stated
   bounds (Scaled, NothingElse), OtRound laws (ties go up, monotone, odd symmetry fails exactly at ties);
   the witnesses W_* print when the next tighter bound would be violated, so the harness can confirm that
   the accumulated bound is needed (relative error > 1/2 exists) and that 1/2 is attained.            *)
EXTENDS ScaleUpem

CONSTANTS Factors, AbsMax, RelVals
VARIABLES k, font, before, done
vars == <<k, font, before, done>>

FactorsDef == {<<1, 2>>, <<2, 1>>, <<3, 2>>, <<125, 256>>}      \* 1/2, 2, 3/2, 1000/2048
RelValsDef == {-1025, -257, -3, -1, 0, 1, 2, 3, 5, 129, 255, 1023}
Upem(f) == f[2] * 16              \* any upem divisible by den keeps upem' integral
Other == [flags |-> <<1, 0, 1>>, f2dot14 |-> <<16384, -8192>>, region |-> <<-16384, 0, 16384>>, cls |-> <<0, 3>>]

Init ==
  /\ k \in Factors
  /\ done = FALSE
  /\ \/ \E v \in (-AbsMax)..AbsMax : font = [upem |-> Upem(k), abs |-> <<v>>, rel |-> <<>>, other |-> Other]
     \/ \E a \in RelVals, b \in RelVals, c \in RelVals :
           font = [upem |-> Upem(k), abs |-> <<>>, rel |-> << <<a, b, c>> >>, other |-> Other]
  /\ before = font

Next == ~done /\ font' = Scale(font, k) /\ done' = TRUE /\ UNCHANGED <<k, before>>

Inv_Scaled == done => Scaled(before, font, k)
Inv_NothingElse == done => NothingElse(before, font)
Inv_Fits == done => \A i \in 1..Len(before.abs) : Fits(k, before.abs[i], font.abs[i], 1)
(* OtRound: v' is the integer nearest to k*v, the upper one at a tie *)
Inv_OtRound ==
  done => \A i \in 1..Len(before.abs) :
            LET n == k[1] * before.abs[i]  d == k[2]  r == font.abs[i] IN
            2 * (r * d - n) <= d /\ 2 * (n - r * d) < d
(* identity factor would change nothing; k = 2 is exact *)
Inv_Exact == (done /\ k[2] = 1) => \A i \in 1..Len(before.abs) : font.abs[i] = k[1] * before.abs[i]

(* witnesses (always TRUE; printed when the tighter bound fails) *)
W_HalfAttained ==
  (done /\ \E i \in 1..Len(before.abs) : 2 * SAbs(k[2] * font.abs[i] - k[1] * before.abs[i]) = k[2])
     => PrintT(<<"WIT", "abs-half-attained", k[1], k[2]>>)
W_RelExceedsHalf ==
  (done /\ \E p \in 1..Len(before.rel) : \E j \in 1..Len(before.rel[p]) :
       ~Within(k, PrefixSum(before.rel[p], j), PrefixSum(font.rel[p], j), 1))
     => PrintT(<<"WIT", "rel-exceeds-half", k[1], k[2]>>)
W_RelExceedsOne ==
  (done /\ \E p \in 1..Len(before.rel) : \E j \in 1..Len(before.rel[p]) :
       ~Within(k, PrefixSum(before.rel[p], j), PrefixSum(font.rel[p], j), 2))
     => PrintT(<<"WIT", "rel-exceeds-one", k[1], k[2]>>)
=============================================================================
