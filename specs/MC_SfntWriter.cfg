CONSTANTS
  TagSet <- MCTags3
  WordSet <- MCWords
  MaxWords = 1
  MaxFonts = 1
  Flavors <- MCFlavors
  SlackSet <- Slack4
INIT Init
NEXT Next
INVARIANT InvAligned
INVARIANT InvNonOverlap
INVARIANT InvSorted
INVARIANT InvInside
INVARIANT InvShared
INVARIANT InvMaster
CHECK_DEADLOCK FALSE
