---- MODULE MC_SfntWriter ----
EXTENDS SfntWriter
MCTags3 == {<<1>>, <<2>>, <<3>>}
MCTags2 == {<<1>>, <<2>>}
MCWords == {<<0, 1>>, <<65535, 65535>>}
MCFlavors == {"sfnt", "woff"}
MCSfnt == {"sfnt"}
Slack4 == 0..3
Slack2 == {0, 3}
====
