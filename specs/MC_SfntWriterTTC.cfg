CONSTANTS
  TagSet <- MCTags2
  WordSet <- MCWords
  MaxWords = 1
  MaxFonts = 2
  Flavors <- MCSfnt
  SlackSet <- Slack2
INIT Init
NEXT Next
INVARIANT InvAligned
INVARIANT InvNonOverlap
INVARIANT InvSorted
INVARIANT InvInside
INVARIANT InvShared
CHECK_DEADLOCK FALSE
