----------------------------- MODULE MC_Subset -----------------------------
(* Exhaustive configuration of Subset.tla over a family of small abstract fonts, and generator of the
   (font, request, options) cases that harness/c07.py realises as real fonts (R).

   Font family: 5 glyphs (1 = .notdef, 2 3 4 encoded by the characters 1 2 3, 5 unencoded), composites
   from CompSel, two GSUB lookups: lookup 1 of kind k1 over the glyph triple t1 (up to the symmetry of
   the encoded glyphs), lookup 2 of kind k2 over any triple t2; kinds
     single x->y | multiple x->y z | alternate x->{y,z} | ligature x y->z |
     chain (x followed by y: the OTHER lookup at index 0) | ctx2 (x y: the OTHER lookup at index 1);
   at most one of the two is contextual; an optional lookup 3 of kind K3 over a triple of Triples3 (its rules feed
   lookup 2 when that is reached only as a nested lookup: the closure needs a second pass).  Feature layouts A: ss01={1,2}  B: ss01={1} ss02={2}
   C: ss01={1} (lookup 2 only reachable as a nested lookup)  D: ss01={2}  E: ss01={1,3}  F: ss01={1,2,3} (E, F with lookup 3).  One optional GPOS lookup.
   Requests: every set of characters x requested glyphs from ReqGlyphSel.                              *)
EXTENDS Subset, Json

CONSTANTS K1, K2,          \* kinds of lookup 1 / lookup 2
          T1Sel,           \* "all" (the four triples up to symmetry) | "one"
          T2Sel,           \* "all" | "some"  triples of lookup 2
          CompSel,         \* subset of 1..5 (see Comps)
          FeatModes,       \* subset of {"A","B","C","D"}
          GposSel,         \* subset of {"none","pos1","pair"}
          ReqGlyphSel,     \* subset of 0..2 (see ReqG)
          RetainSel, NotdefSel, ClosureSel,   \* subsets of BOOLEAN
          FeatOptSel,      \* subset of {"all","ss01","none"}
          K,               \* text length for ShapingPreserved
          K3               \* kinds of the optional lookup 3 ("none" = the font has two lookups)

CanonTriples == {<<2, 3, 4>>, <<5, 2, 3>>, <<2, 5, 3>>, <<2, 3, 5>>}
AllTriples == {t \in (2..5) \X (2..5) \X (2..5) : t[1] # t[2] /\ t[2] # t[3] /\ t[1] # t[3]}
SomeTriples == {<<2, 3, 4>>, <<3, 4, 5>>, <<4, 5, 2>>, <<5, 2, 3>>, <<3, 2, 5>>, <<4, 3, 2>>}
Triples1 == IF T1Sel = "all" THEN CanonTriples ELSE {<<2, 3, 4>>}
Triples2 == IF T2Sel = "all" THEN AllTriples ELSE SomeTriples
Triples3 == {<<3, 5, 4>>, <<4, 5, 3>>, <<3, 4, 5>>}
IsCtx(k) == k \in {"chain", "ctx2"}

Comps == << <<>>,
            << <<4, <<5>>>> >>,
            << <<5, <<2>>>> >>,
            << <<3, <<4>>>> >>,
            << <<4, <<5>>>>, <<5, <<2>>>> >> >>
ReqG == << <<>>, <<5>>, <<1>> >>

Lk(kind, t, other) ==
  LET x == t[1] y == t[2] z == t[3]
      st == CASE kind = "single" -> [m |-> << <<x, y>> >>]
              [] kind = "multiple" -> [m |-> << <<x, <<y, z>>>> >>]
              [] kind = "alternate" -> [m |-> << <<x, <<y, z>>>> >>]
              [] kind = "ligature" -> [l |-> << << <<x, y>>, z>> >>]
              [] kind = "chain" -> [r |-> << [b |-> <<>>, i |-> << <<x>> >>, a |-> << <<y>> >>, n |-> << <<0, other>> >>] >>]
              [] kind = "ctx2" -> [r |-> << [b |-> <<>>, i |-> << <<x>>, <<y>> >>, a |-> <<>>, n |-> << <<1, other>> >>] >>]
      ty == CASE kind = "single" -> "sub1" [] kind = "multiple" -> "sub2" [] kind = "alternate" -> "sub3"
              [] kind = "ligature" -> "sub4" [] OTHER -> "ctx"
  IN [ty |-> ty, flag |-> 0, mfs |-> 0, st |-> <<st>>]

Fl(fm) == CASE fm = "A" -> << <<"DFLT", "dflt", "ss01", <<1, 2>>, FALSE>> >>
            [] fm = "B" -> << <<"DFLT", "dflt", "ss01", <<1>>, FALSE>>, <<"DFLT", "dflt", "ss02", <<2>>, FALSE>> >>
            [] fm = "C" -> << <<"DFLT", "dflt", "ss01", <<1>>, FALSE>> >>
            [] fm = "D" -> << <<"DFLT", "dflt", "ss01", <<2>>, FALSE>> >>
            [] fm = "E" -> << <<"DFLT", "dflt", "ss01", <<1, 3>>, FALSE>> >>         \* lookup 2 only reachable as a nested lookup
            [] fm = "F" -> << <<"DFLT", "dflt", "ss01", <<1, 2, 3>>, FALSE>> >>
Gpos(gp, t) == CASE gp = "none" -> [lookups |-> <<>>, fl |-> <<>>]
                 [] gp = "pos1" -> [lookups |-> << [ty |-> "pos1", flag |-> 0, mfs |-> 0, st |-> << [m |-> << <<t[2], <<0, 0, 17, 0>>>> >>] >>] >>,
                                    fl |-> << <<"DFLT", "dflt", "ss01", <<1>>, FALSE>> >>]
                 [] gp = "pair" -> [lookups |-> << [ty |-> "pos2", flag |-> 0, mfs |-> 0,
                                                    st |-> << [f |-> 1, v2 |-> FALSE, p |-> << <<t[1], t[2], <<0, 0, -30, 0>>, <<0, 0, 0, 0>>>> >>] >>] >>,
                                    fl |-> << <<"DFLT", "dflt", "ss01", <<1>>, FALSE>> >>]
MkFont(k1, t1, k2, t2, k3, t3, c, fm, gp) ==
  [n |-> 5, glyf |-> TRUE, cmap |-> << <<1, 2>>, <<2, 3>>, <<3, 4>> >>, comp |-> Comps[c], math |-> <<>>, colr |-> <<>>,
   L |-> [gdef |-> [cls |-> <<>>, mac |-> <<>>, sets |-> <<>>],
          gsub |-> [lookups |-> <<Lk(k1, t1, 2), Lk(k2, t2, 1)>> \o (IF k3 = "none" THEN <<>> ELSE <<Lk(k3, t3, 1)>>), fl |-> Fl(fm)],
          gpos |-> Gpos(gp, t2),
          adv |-> <<500, 510, 520, 530, 540>>]]
FeatOpt(fo) == CASE fo = "all" -> <<"*">> [] fo = "ss01" -> <<"ss01">> [] OTHER -> <<>>

Init ==
  \E k1 \in K1 : \E t1 \in Triples1 : \E k2 \in K2 : \E t2 \in Triples2 :
    /\ ~(IsCtx(k1) /\ IsCtx(k2))
    /\ \E k3 \in K3 : \E t3 \in (IF k3 = "none" THEN {<<2, 3, 4>>} ELSE Triples3) :
       \E c \in CompSel : \E fm \in {f \in FeatModes : (f \in {"E", "F"}) <=> (k3 # "none")} : \E gp \in GposSel :
       \E us \in SUBSET {1, 2, 3} : \E rg \in ReqGlyphSel :
       \E rt \in RetainSel : \E nd \in NotdefSel : \E cl \in ClosureSel : \E fo \in FeatOptSel :
         InitWith(MkFont(k1, t1, k2, t2, k3, t3, c, fm, gp),
                  [unicodes |-> AscSeq(us, 1, 3), glyphs |-> ReqG[rg + 1]],
                  [retain |-> rt, notdef |-> nd, recommended |-> FALSE, closure |-> cl,
                   feats |-> FeatOpt(fo), scripts |-> <<"*">>])

ShapingPreserved == (Done /\ opts.closure) => ShapingPreservedF(font, opts, out, order, K)
(* generator: one line per distinct case *)
(* w = number of glyphs the GSUB closure has to add for this case (the harness samples the cases by it) *)
Emit == (pc = "prune") => PrintT(<<"GEN", ToJson([font |-> font, req |-> req, opts |-> opts,
                                                   w |-> Cardinality(MinGsub(font, req, opts) \ StartSet(font, req, opts))])>>)
Spec == Init /\ [][Next]_vars
=============================================================================
