\* quick, option slice: few fonts x every option combination x every request
CONSTANTS
  K1 = {"single", "chain"}
  K2 = {"ligature"}
  T1Sel = "one"
  T2Sel = "some"
  CompSel = {2}
  FeatModes = {"B"}
  GposSel = {"pair"}
  ReqGlyphSel = {0, 1}
  RetainSel = {FALSE, TRUE}
  NotdefSel = {FALSE, TRUE}
  ClosureSel = {FALSE, TRUE}
  FeatOptSel = {"all", "ss01"}
  K = 3
  K3 = {"none"}
INIT Init
NEXT Next
INVARIANT Monotone
INVARIANT RequestedPresent
INVARIANT RequestedPresentStrict
INVARIANT ClosureSufficient
INVARIANT ClosureExact
INVARIANT LfpIsLeast
INVARIANT NoDangling
INVARIANT RetainGids
INVARIANT OrderWellFormed
INVARIANT ShapingPreserved
PROPERTY GrowOnly
CONSTRAINT Emit
CHECK_DEADLOCK FALSE
