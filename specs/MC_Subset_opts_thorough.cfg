\* thorough, option slice
CONSTANTS
  K1 = {"single", "ligature", "chain"}
  K2 = {"multiple", "alternate", "ctx2"}
  T1Sel = "one"
  T2Sel = "some"
  CompSel = {2, 4}
  FeatModes = {"B", "D"}
  GposSel = {"pos1", "pair"}
  ReqGlyphSel = {0, 1, 2}
  RetainSel = {FALSE, TRUE}
  NotdefSel = {FALSE, TRUE}
  ClosureSel = {FALSE, TRUE}
  FeatOptSel = {"all", "ss01", "none"}
  K = 3
  K3 = {"none"}
INIT Init
NEXT Next
INVARIANT Monotone
INVARIANT RequestedPresent
INVARIANT RequestedPresentStrict
INVARIANT ClosureSufficient
INVARIANT ClosureExact
INVARIANT LfpIsLeast
INVARIANT NoDangling
INVARIANT RetainGids
INVARIANT OrderWellFormed
INVARIANT ShapingPreserved
PROPERTY GrowOnly
CONSTRAINT Emit
CHECK_DEADLOCK FALSE
