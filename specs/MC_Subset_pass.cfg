\* quick, second-pass slice: lookup 2 reached only as a nested lookup, fed by lookup 3 (closure needs a second pass)
CONSTANTS
  K1 = {"chain", "ctx2"}
  K2 = {"ligature", "multiple"}
  T1Sel = "one"
  T2Sel = "all"
  CompSel = {1}
  FeatModes = {"E"}
  GposSel = {"none"}
  ReqGlyphSel = {0}
  RetainSel = {FALSE}
  NotdefSel = {TRUE}
  ClosureSel = {TRUE}
  FeatOptSel = {"all"}
  K = 2
  K3 = {"single"}
INIT Init
NEXT Next
INVARIANT Monotone
INVARIANT RequestedPresent
INVARIANT RequestedPresentStrict
INVARIANT ClosureSufficient
INVARIANT ClosureExact
INVARIANT LfpIsLeast
INVARIANT NoDangling
INVARIANT RetainGids
INVARIANT OrderWellFormed
INVARIANT ShapingPreserved
PROPERTY GrowOnly
CONSTRAINT Emit
CHECK_DEADLOCK FALSE
