\* thorough, lookup slice
CONSTANTS
  K1 = {"single", "multiple", "alternate", "ligature", "chain", "ctx2"}
  K2 = {"single", "multiple", "alternate", "ligature", "chain", "ctx2"}
  T1Sel = "all"
  T2Sel = "all"
  CompSel = {1, 5}
  FeatModes = {"A", "B", "C", "D"}
  GposSel = {"pair"}
  ReqGlyphSel = {0}
  RetainSel = {FALSE}
  NotdefSel = {TRUE}
  ClosureSel = {TRUE}
  FeatOptSel = {"all"}
  K = 3
  K3 = {"none"}
INIT Init
NEXT Next
INVARIANT Monotone
INVARIANT RequestedPresent
INVARIANT RequestedPresentStrict
INVARIANT ClosureSufficient
INVARIANT ClosureExact
INVARIANT LfpIsLeast
INVARIANT NoDangling
INVARIANT RetainGids
INVARIANT OrderWellFormed
INVARIANT ShapingPreserved
PROPERTY GrowOnly
CONSTRAINT Emit
CHECK_DEADLOCK FALSE
