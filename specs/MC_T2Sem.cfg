CONSTANTS
  MaxCmds = 3
  FullDepth = 2
  MaxCmdsHdr = 1
  RunLens = {11, 12, 13, 23, 24, 25, 47, 48, 49}
INIT Init
NEXT Next
INVARIANT Laws
CONSTRAINT Emit
CHECK_DEADLOCK FALSE
