----------------------------- MODULE MC_T2Sem -----------------------------
(* Design-level check of T2Sem and generator of the programs replayed into fontTools.

   A builder machine appends generalised drawing commands (rmoveto / rlineto / rrcurveto
   with operands from a small alphabet whose zero patterns drive every h/v form, the four
   flex operators, hintmask) after one of several headers (width, stem hints, masks).
   Every reachable state denotes two programs:
     G  the generalised program (one rmoveto/rlineto/rrcurveto per segment), and
     S  its twin in the specialised multi-segment forms of TN5177 (hmoveto/vmoveto,
        alternating hlineto/vlineto, rlineto runs, hhcurveto/vvcurveto with optional
        leading operand, alternating hvcurveto/vhcurveto with optional trailing operand,
        rcurveline, rlinecurve), built by construction from the operator descriptions.
   Internal laws (invariants): both are legal, Run(G) and Run(S) draw the same raw path
   and width, S stays within the 48-deep stack, header bookkeeping (width, hint count)
   is as built, Canon is idempotent and strict equality implies loose equality.
   Each state is exported once (Emit) and replayed through the real rewritings by
   harness/c12.py; Trace_C12 then judges original against rewritten program.          *)
EXTENDS T2Sem, Json, FiniteSets

CONSTANTS MaxCmds,      \* body commands after the first moveto, plain header
          FullDepth,    \* up to this many body commands range over the full alphabet, longer bodies over Core
          MaxCmdsHdr,   \* body commands when a width / hint header is present
          RunLens       \* lengths of the run-structured programs

VARIABLES kind, hdr, cmds
vars == <<kind, hdr, cmds>>

N(v) == v
O(s) == OpBase + OpCode(s)
M(n) == MaskBase + n
Nums(a) == a

(* ---- headers -------------------------------------------------------------------- *)
W == 5
Headers == <<
  <<>>,
  <<N(W)>>,
  <<N(1), N(2), O("hstem")>>,
  <<N(W), N(1), N(2), O("hstem"), N(3), N(4), O("vstem")>>,
  <<N(1), N(2), O("hstemhm"), N(3), N(4), O("hintmask"), M(1) >>,
  <<N(W), N(1), N(2), O("hstemhm"), N(3), N(4), O("vstemhm"), O("cntrmask"), M(1), O("hintmask"), M(1) >>,
  <<N(1), N(1), N(1), N(1), N(1), N(1), N(1), N(1), N(1), N(1), N(1), N(1), N(1), N(1), N(1), N(1), O("hstemhm"),
    N(2), N(2), O("hintmask"), M(2) >>
>>
HdrWidth == <<FALSE, TRUE, FALSE, TRUE, FALSE, TRUE, FALSE>>
HdrHints == <<0, 0, 1, 2, 2, 2, 9>>
HdrMasks == <<FALSE, FALSE, FALSE, FALSE, TRUE, TRUE, TRUE>>

(* ---- command alphabet -------------------------------------------------------------- *)
Mv(dx, dy) == <<"rmoveto", <<dx, dy>> >>
Ln(dx, dy) == <<"rlineto", <<dx, dy>> >>
Cv(a, b, c, d, e, f) == <<"rrcurveto", <<a, b, c, d, e, f>> >>

FirstMoves == {Mv(1, 1), Mv(1, 0), Mv(0, 1)}
Moves == {Mv(0, 0), Mv(1, 0), Mv(0, -1), Mv(2, 1)}
Lines == {Ln(dx, dy) : dx \in {-1, 0, 1}, dy \in {-1, 0, 1}}
D1 == {<<0, 0>>, <<1, 0>>, <<0, 1>>, <<1, 1>>}
D3 == {<<0, 0>>, <<2, 0>>, <<0, 2>>, <<2, -1>>}
Curves == {Cv(p[1], p[2], 1, -1, q[1], q[2]) : p \in D1, q \in D3}
          \cup {Cv(0, 0, 1, 0, 0, 0), Cv(0, 0, 0, 1, 0, 0), Cv(0, 0, 0, 0, 0, 0), Cv(1, 0, 1, 0, 2, 0)}
Flexes == { <<"flex",   <<1, 1, 1, -1, 2, 0, 1, 0, 1, 1, 0, -1, 50>> >>,
            <<"hflex",  <<1, 1, -1, 2, 1, 1, 2>> >>,
            <<"hflex1", <<1, 1, 1, -1, 2, 1, 1, 2, 1>> >>,
            <<"flex1",  <<1, 1, 1, -1, 2, 0, 1, 0, 1, 1, 2>> >>,
            <<"flex1",  <<0, 1, 1, 1, 0, 2, -1, 1, 0, 1, 2>> >> }
MaskCmd == <<"hintmask", <<>> >>
FlexOps == {"flex", "hflex", "hflex1", "flex1"}

Alphabet(h, cs) ==
  Moves \cup Lines \cup Curves
  \cup (IF \E i \in 1..Len(cs) : cs[i][1] \in FlexOps THEN {} ELSE Flexes)
  \cup (IF HdrMasks[h] /\ cs[Len(cs)][1] # "hintmask" THEN {MaskCmd} ELSE {})

(* core alphabet for the longest bodies: every zero pattern of a curve's first and last
   vector (the 16 made-up h/v/r/0 curve types of the specializer), lines of every category
   incl. a retrace, one moveto: what the three-command peephole rules look at *)
Core == {Ln(1, 1), Ln(1, 0), Ln(0, 1), Ln(0, 0), Ln(-1, 0), Mv(1, 0)}
        \cup {Cv(p[1], p[2], 1, -1, q[1], q[2]) : p \in D1, q \in D3}
AllCore(cs) == cs[1] = Mv(1, 1) /\ \A i \in 2..Len(cs) : cs[i] \in Core

(* ---- run-structured long programs (cross the 48 operand boundary) ------------------- *)
RunKinds == {"rl", "hv", "hh", "rr", "hvc", "hhc", "lc", "cl", "lch"}
Unit(u, i, k) ==
  CASE u = "rl"  -> Ln(1, IF i % 2 = 1 THEN 1 ELSE -1)
    [] u = "hv"  -> IF i % 2 = 1 THEN Ln(1, 0) ELSE Ln(0, 1)
    [] u = "hh"  -> Ln(IF i % 3 = 0 THEN -1 ELSE 1, 0)
    [] u = "rr"  -> Cv(1, 1, 1, -1, 2, -1)
    [] u = "hvc" -> IF i % 2 = 1 THEN Cv(1, 0, 1, -1, 0, 2) ELSE Cv(0, 1, 1, -1, 2, 0)
    [] u = "hhc" -> Cv(1, 0, 1, -1, 2, 0)
    [] u = "lc"  -> IF i = k THEN Cv(1, 1, 1, -1, 2, -1) ELSE Ln(1, 1)
    [] u = "cl"  -> IF i = k THEN Ln(1, 1) ELSE Cv(1, 1, 1, -1, 2, -1)
    \* lines, a general curve, then an h/v curve that cannot be merged with it (4 operands after 6)
    [] u = "lch" -> IF i = k THEN Cv(1, 0, 1, -1, 0, 2) ELSE IF i = k - 1 THEN Cv(1, 1, 1, -1, 2, -1) ELSE Ln(1, 1)

(* ---- the two programs of a state -------------------------------------------------- *)
MaskBytes(h) == M((HdrHints[h] + 7) \div 8)

CmdTokensG(h, c) ==
  IF c[1] = "hintmask" THEN <<O("hintmask"), MaskBytes(h)>> ELSE Nums(c[2]) \o <<O(c[1])>>

RECURSIVE FlatG(_, _, _)
FlatG(h, cs, i) == IF i > Len(cs) THEN <<>> ELSE CmdTokensG(h, cs[i]) \o FlatG(h, cs, i + 1)

G(h, cs) == Headers[h] \o FlatG(h, cs, 1) \o <<O("endchar")>>

Cat(dx, dy) == IF dy = 0 THEN "h" ELSE IF dx = 0 THEN "v" ELSE "r"
Room(acc, k) == Len(acc.args) + k <= 48
Flush(acc) == IF acc.op = "" THEN acc.out ELSE acc.out \o Nums(acc.args) \o <<O(acc.op)>>
Fresh(acc, op, args, nxt) == [out |-> Flush(acc), op |-> op, args |-> args, nxt |-> nxt]
Ext(acc, op, args, nxt) == [acc EXCEPT !.op = op, !.args = acc.args \o args, !.nxt = nxt]

AddLine(acc, dx, dy) ==
  LET c == Cat(dx, dy) IN
  IF c = "r" THEN
       IF acc.op = "rlineto" /\ Room(acc, 2) THEN Ext(acc, "rlineto", <<dx, dy>>, "")
       ELSE IF acc.op = "rrcurveto" /\ Room(acc, 2) THEN Ext(acc, "rcurveline", <<dx, dy>>, "")
       ELSE Fresh(acc, "rlineto", <<dx, dy>>, "")
  ELSE IF c = "h" THEN
       IF acc.op \in {"hlineto", "vlineto"} /\ acc.nxt = "h" /\ Room(acc, 1) THEN Ext(acc, acc.op, <<dx>>, "v")
       ELSE Fresh(acc, "hlineto", <<dx>>, "v")
  ELSE IF acc.op \in {"hlineto", "vlineto"} /\ acc.nxt = "v" /\ Room(acc, 1) THEN Ext(acc, acc.op, <<dy>>, "h")
       ELSE Fresh(acc, "vlineto", <<dy>>, "h")

AddCurve(acc, a, b, c, d, e, f) ==
  LET c1 == Cat(a, b)  c3 == Cat(e, f)
      chain == acc.op \in {"hvcurveto", "vhcurveto"}
  IN CASE c1 = "r" /\ c3 = "r" ->
            IF acc.op = "rrcurveto" /\ Room(acc, 6) THEN Ext(acc, "rrcurveto", <<a, b, c, d, e, f>>, "")
            ELSE IF acc.op = "rlineto" /\ Room(acc, 6) THEN Ext(acc, "rlinecurve", <<a, b, c, d, e, f>>, "")
            ELSE Fresh(acc, "rrcurveto", <<a, b, c, d, e, f>>, "")
       [] c1 = "h" /\ c3 = "v" ->
            IF chain /\ acc.nxt = "h" /\ Room(acc, 4) THEN Ext(acc, acc.op, <<a, c, d, f>>, "v")
            ELSE Fresh(acc, "hvcurveto", <<a, c, d, f>>, "v")
       [] c1 = "v" /\ c3 = "h" ->
            IF chain /\ acc.nxt = "v" /\ Room(acc, 4) THEN Ext(acc, acc.op, <<b, c, d, e>>, "h")
            ELSE Fresh(acc, "vhcurveto", <<b, c, d, e>>, "h")
       [] c1 = "h" /\ c3 = "r" ->
            IF chain /\ acc.nxt = "h" /\ Room(acc, 5) THEN Ext(acc, acc.op, <<a, c, d, f, e>>, "x")
            ELSE Fresh(acc, "hvcurveto", <<a, c, d, f, e>>, "x")
       [] c1 = "v" /\ c3 = "r" ->
            IF chain /\ acc.nxt = "v" /\ Room(acc, 5) THEN Ext(acc, acc.op, <<b, c, d, e, f>>, "x")
            ELSE Fresh(acc, "vhcurveto", <<b, c, d, e, f>>, "x")
       [] c1 = "h" /\ c3 = "h" ->
            IF acc.op = "hhcurveto" /\ Room(acc, 4) THEN Ext(acc, "hhcurveto", <<a, c, d, e>>, "")
            ELSE Fresh(acc, "hhcurveto", <<a, c, d, e>>, "")
       [] c1 = "v" /\ c3 = "v" ->
            IF acc.op = "vvcurveto" /\ Room(acc, 4) THEN Ext(acc, "vvcurveto", <<b, c, d, f>>, "")
            ELSE Fresh(acc, "vvcurveto", <<b, c, d, f>>, "")
       [] c1 = "r" /\ c3 = "h" -> Fresh(acc, "hhcurveto", <<b, a, c, d, e>>, "")
       [] c1 = "r" /\ c3 = "v" -> Fresh(acc, "vvcurveto", <<a, b, c, d, f>>, "")

AddOther(h, acc, c) ==
  LET toks == IF c[1] = "hintmask" THEN <<O("hintmask"), MaskBytes(h)>>
              ELSE IF c[1] = "rmoveto" THEN
                     (IF c[2][2] = 0 THEN <<N(c[2][1]), O("hmoveto")>>
                      ELSE IF c[2][1] = 0 THEN <<N(c[2][2]), O("vmoveto")>>
                      ELSE Nums(c[2]) \o <<O("rmoveto")>>)
              ELSE Nums(c[2]) \o <<O(c[1])>>
  IN [out |-> Flush(acc) \o toks, op |-> "", args |-> <<>>, nxt |-> ""]

RECURSIVE Special(_, _, _, _)
Special(h, cs, i, acc) ==
  IF i > Len(cs) THEN Flush(acc)
  ELSE LET c == cs[i]  a == c[2] IN
       Special(h, cs, i + 1,
               IF c[1] = "rlineto" THEN AddLine(acc, a[1], a[2])
               ELSE IF c[1] = "rrcurveto" THEN AddCurve(acc, a[1], a[2], a[3], a[4], a[5], a[6])
               ELSE AddOther(h, acc, c))

S(h, cs) == Special(h, cs, 1, [out |-> Headers[h], op |-> "", args |-> <<>>, nxt |-> ""]) \o <<O("endchar")>>

(* ---- the machine ---------------------------------------------------------------------- *)
(* The run-structured programs are successors of a seed state, not initial states: TLC checks
   initial states on its main thread, whose stack the harness cannot enlarge, and the long
   programs recurse deeper than the short ones.                                          *)
Init ==
  \/ /\ kind = "small"
     /\ hdr \in 1..Len(Headers)
     /\ \E m \in FirstMoves : cmds = <<m>>
  \/ /\ kind = "seed"
     /\ hdr = 1
     /\ cmds = <<Mv(1, 1)>>

Next ==
  \/ /\ kind = "small"
     /\ Len(cmds) - 1 < (IF hdr = 1 THEN MaxCmds ELSE MaxCmdsHdr)
     /\ \E c \in Alphabet(hdr, cmds) :
           /\ (Len(cmds) - 1 >= FullDepth /\ hdr = 1) => (c \in Core /\ AllCore(cmds))
           /\ cmds' = Append(cmds, c)
     /\ UNCHANGED <<kind, hdr>>
  \/ /\ kind = "seed"
     /\ kind' = "run"
     /\ \E u \in RunKinds, k \in RunLens : cmds' = <<Mv(1, 1)>> \o [i \in 1..k |-> Unit(u, i, k)]
     /\ UNCHANGED hdr

(* ---- internal laws ------------------------------------------------------------------- *)
CxCFF == Cx("cff")
RG == Run(CxCFF, G(hdr, cmds))
RS == Run(CxCFF, S(hdr, cmds))

Law_Legal(rg, rs) == Legal(rg) /\ Legal(rs) /\ rg.done /\ rs.done
Law_Forms(rg, rs) == rg.path = rs.path /\ rg.w = rs.w /\ rg.nh = rs.nh
Law_Stack(rg, rs) == rs.mx <= 48 /\ (kind = "small" => rg.mx <= 48)
Law_Header(rg) == /\ rg.w = (IF HdrWidth[hdr] THEN <<W>> ELSE <<>>)
                  /\ rg.nh = HdrHints[hdr]
Law_Canon(rg) == LET c == Canon(rg.path, FALSE) IN
                 /\ Canon(c, FALSE) = c
                 /\ Canon(c, TRUE) = c
                 /\ Canon(Canon(rg.path, TRUE), FALSE) = c
                 /\ Len(c) <= Len(rg.path)
\* one invariant so that each state's two programs are interpreted once; a violated law is named
Laws == kind = "seed" \/
        LET rg == RG  rs == RS IN
        /\ Law_Legal(rg, rs)  \/ PrintT(<<"LAW", "Legal">>) = FALSE
        /\ Law_Forms(rg, rs)  \/ PrintT(<<"LAW", "Forms">>) = FALSE
        /\ Law_Stack(rg, rs)  \/ PrintT(<<"LAW", "Stack">>) = FALSE
        /\ Law_Header(rg)     \/ PrintT(<<"LAW", "Header">>) = FALSE
        /\ Law_Canon(rg)      \/ PrintT(<<"LAW", "Canon">>) = FALSE

(* worked examples transcribed by hand from the operator descriptions of TN5177 *)
P(seq) == Run(CxCFF, seq)
ASSUME P(<<N(10), N(20), O("rmoveto"), N(1), N(2), N(3), N(4), N(5), O("hvcurveto"), O("endchar")>>).path
       = << << <<0, 10, 20>>, <<2, 11, 20, 13, 23, 18, 27>> >> >>
ASSUME P(<<N(0), O("hmoveto"), N(1), N(2), N(3), N(4), N(5), O("vhcurveto"), O("endchar")>>).path
       = << << <<0, 0, 0>>, <<2, 0, 1, 2, 4, 6, 9>> >> >>
ASSUME P(<<N(0), O("hmoveto"), N(1), N(2), N(3), N(4), N(5), N(6), N(7), N(8), N(9), O("hvcurveto"), O("endchar")>>).path
       = << << <<0, 0, 0>>, <<2, 1, 0, 3, 3, 3, 7>>, <<2, 3, 12, 9, 19, 17, 28>> >> >>
ASSUME P(<<N(0), O("hmoveto"), N(9), N(1), N(2), N(3), N(4), O("hhcurveto"), O("endchar")>>).path
       = << << <<0, 0, 0>>, <<2, 1, 9, 3, 12, 7, 12>> >> >>
ASSUME P(<<N(0), O("hmoveto"), N(9), N(1), N(2), N(3), N(4), O("vvcurveto"), O("endchar")>>).path
       = << << <<0, 0, 0>>, <<2, 9, 1, 11, 4, 11, 8>> >> >>
ASSUME P(<<N(7), N(0), O("vmoveto"), N(1), N(2), N(3), O("hlineto"), O("endchar")>>)
       = [path |-> << << <<0, 0, 0>>, <<1, 1, 0>>, <<1, 1, 2>>, <<1, 4, 2>> >> >>, w |-> <<7>>, err |-> "",
          mx |-> 3, done |-> TRUE, nh |-> 0, seac |-> <<>>]
ASSUME P(<<N(0), O("hmoveto"), N(1), N(2), N(3), N(4), N(5), N(6), N(7), O("hflex"), O("endchar")>>).path
       = << << <<0, 0, 0>>, <<2, 1, 0, 3, 3, 7, 3>>, <<2, 12, 3, 18, 0, 25, 0>> >> >>
ASSUME P(<<N(0), O("hmoveto"), N(1), N(2), N(3), N(4), N(5), N(6), N(7), N(8), N(9), O("hflex1"), O("endchar")>>).path
       = << << <<0, 0, 0>>, <<2, 1, 2, 4, 6, 9, 6>>, <<2, 15, 6, 22, 14, 31, 0>> >> >>
ASSUME P(<<N(0), O("hmoveto"), N(1), N(1), N(1), N(1), N(1), N(1), N(1), N(1), N(1), N(-9), N(4), O("flex1"), O("endchar")>>).path
       = << << <<0, 0, 0>>, <<2, 1, 1, 2, 2, 3, 3>>, <<2, 4, 4, 5, -5, 0, -1>> >> >>
ASSUME P(<<N(0), O("hmoveto"), N(1), N(1), N(1), N(1), N(1), N(1), N(1), N(1), N(1), N(0), N(4), O("flex1"), O("endchar")>>).path
       = << << <<0, 0, 0>>, <<2, 1, 1, 2, 2, 3, 3>>, <<2, 4, 4, 5, 4, 9, 0>> >> >>
ASSUME P(<<N(1), N(2), O("hstemhm"), N(1), N(2), O("hmoveto"), O("endchar")>>).err = "Arity"     \* a second width-like operand
ASSUME P(<<N(1), O("hmoveto"), N(1), N(2), O("hstem"), O("endchar")>>).err = "Order:latestem"
ASSUME P([i \in 1..49 |-> N(1)] \o <<O("rlineto")>>).err = "StackLimit"
ASSUME P(<<N(1), N(2), N(3), O("rlineto")>>).err = "Arity:rlineto"
ASSUME P(<<N(1), N(2), O("rlineto")>>).err = "Order:nomove"
\* subroutines and bias: index operand -107 selects subr 0
ASSUME LET cx == [CxCFF EXCEPT !.ls = << <<0, <<N(3), N(4), O("rlineto"), O("return"), N(9)>> >> >>, !.nls = 1]
       IN Run(cx, <<N(1), N(2), O("rmoveto"), N(-107), O("callsubr"), O("endchar")>>).path
          = << << <<0, 1, 2>>, <<1, 4, 6>> >> >>
ASSUME Bias(1239) = 107 /\ Bias(1240) = 1131 /\ Bias(33899) = 1131 /\ Bias(33900) = 32768
\* CFF2 blend: 2 values, 2 regions; default location and the two unit locations
CxV(loc) == [Cx("cff2") EXCEPT !.rg = <<2>>, !.loc = loc]
BlendProg == <<N(10), N(20), N(1), N(2), N(3), N(4), N(2), O("blend"), O("rmoveto"), N(5), O("hlineto")>>
ASSUME Run(CxV(0), BlendProg).path = << << <<0, 10, 20>>, <<1, 15, 20>> >> >>
ASSUME Run(CxV(1), BlendProg).path = << << <<0, 11, 23>>, <<1, 16, 23>> >> >>
ASSUME Run(CxV(2), BlendProg).path = << << <<0, 12, 24>>, <<1, 17, 24>> >> >>
ASSUME Run(CxV(0), <<N(1), N(10), N(20), O("rmoveto")>>).err = "Arity:cff2-width"
\* Canon on hand-made paths
ASSUME Canon(<< << <<0, 0, 0>>, <<1, 5, 0>>, <<1, 2, 0>>, <<1, 2, 3>>, <<2, 2, 3, 4, 4, 4, 4>>, <<1, 4, 4>> >>,
                << <<0, 9, 9>> >> >>, FALSE)
       = << << <<0, 0, 0>>, <<1, 2, 0>>, <<1, 2, 3>>, <<1, 4, 4>> >> >>
ASSUME Canon(<< << <<0, 0, 0>>, <<1, 5, 0>>, <<1, 0, 0>>, <<1, 0, 3>>, <<2, 0, 7, 0, 9, 0, 1>> >> >>, FALSE)
       = << << <<0, 0, 0>>, <<1, 0, 1>> >> >>

Emit == kind = "seed" \/ PrintT(<<"GEN", ToJson([g |-> G(hdr, cmds), s |-> S(hdr, cmds), k |-> kind,
                                 w |-> IF HdrWidth[hdr] THEN W ELSE -1])>>)
=============================================================================
