CONSTANTS
  MaxCmds = 4
  FullDepth = 3
  MaxCmdsHdr = 2
  RunLens = {11, 12, 13, 23, 24, 25, 47, 48, 49}
INIT Init
NEXT Next
INVARIANT Laws
CONSTRAINT Emit
CHECK_DEADLOCK FALSE
