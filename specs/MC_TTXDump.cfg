INIT Init
NEXT Next
INVARIANT RefOK
INVARIANT DropNoticed
INVARIANT TextLaws
CHECK_DEADLOCK FALSE
