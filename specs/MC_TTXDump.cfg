CONSTANT Buggy = FALSE
INIT Init
NEXT Next
INVARIANT RefOK
INVARIANT DropNoticed
INVARIANT GlyphFaultsNoticed
INVARIANT NamesSane
INVARIANT TextLaws
CHECK_DEADLOCK FALSE
