---- MODULE MC_TTXDump ----
(* Exhaustive check of the dump-layout predicate against a reference dumper written as TLA+
   operators.
   InitLattice: the whole option lattice: 3 tags (one glyf), selections all / only / skip, two glyphs
                whose names differ in case only ("a", "A").
   InitNames:   splitGlyphs dumps of every ordered pair of distinct glyph names of up to MaxNameLen
                symbols over {a A _ * ?} (case variants, characters illegal in file names, names that
                sanitise to the same string, names clipped to the same string: the file name limit
                is scaled down to FMaxLen with a 2 + 2 character prefix / suffix).
                MC_TTXDump.cfg: names of 1..2 symbols, limit 7 (900 pairs);
                MC_TTXDump_thorough.cfg: names of 1..3 symbols, limit 9 (23870 pairs).
   The reference dumper names the per-glyph files with the user-name-to-file-name machine of
   Filenames.tla, handing it the lower-cased names given out so far, and writes them to a
   case-insensitive file system (last writer wins).  RefOK: its dumps satisfy WellFormed.
   MC_TTXDump_neg.cfg (Buggy = TRUE): the dumper records the names as written, not lower-cased;
   RefOK must then be VIOLATED - the predicate notices the overwritten per-glyph file.          *)
EXTENDS TTXDump
CONSTANTS Buggy, MaxNameLen, FMaxLen
VARIABLES split, splitGlyphs, only, skip, present, gnames
FN == INSTANCE Filenames WITH MaxLen <- FMaxLen, CounterWidth <- 2, CounterLimit <- 50
CX == [illegal |-> {42, 63}, reserved |-> {<<99, 111, 110>>}, lc |-> <<>>]
Prefix == <<100, 46>>
Suffix == <<46, 120>>
All == <<"GlyphOrder", "head", "glyf">>
Sub == {<<>>, <<"head">>, <<"glyf">>, <<"head", "glyf">>, <<"glyf", "head">>, <<"kern">>}
Symbols == {97, 65, 95, 42, 63}
GNames == UNION {[1..k -> Symbols] : k \in 1..MaxNameLen}
InitLattice == split \in BOOLEAN /\ splitGlyphs \in BOOLEAN /\ only \in Sub /\ skip \in Sub
               /\ present \in {{"GlyphOrder", "head", "glyf"}, {"GlyphOrder", "head"}} /\ gnames = << <<97>>, <<65>> >>
InitNames == /\ split = FALSE /\ splitGlyphs = TRUE /\ only = <<>> /\ skip = <<>> /\ present = {"GlyphOrder", "head", "glyf"}
             /\ \E a \in GNames : gnames = <<a>>
Init == InitLattice \/ InitNames
(* the second glyph name is chosen in a step, so that TLC's workers share the pairs *)
Next == /\ Len(gnames) = 1
        /\ \E b \in GNames \ {gnames[1]} : gnames' = Append(gnames, b)
        /\ UNCHANGED <<split, splitGlyphs, only, skip, present>>
Req == Requested(All, only, skip)
(* per-glyph file names, glyph by glyph, as table__g_l_y_f.toXML hands them out *)
RECURSIVE Assign(_, _, _)
Assign(i, files, existing) ==
  IF i > Len(gnames) THEN files
  ELSE LET fn == FN!ToFileName(CX, gnames[i], existing, Prefix, Suffix)
       IN Assign(i + 1, Append(files, fn), existing \cup {IF Buggy THEN fn ELSE FN!LowerS(CX, fn)})
Files == Assign(1, <<>>, {})
(* what a case-insensitive file system holds under a name after all glyph files were written *)
Holds(fl, f) == LET S == {i \in 1..Len(fl) : Fold(fl[i]) = Fold(f)} IN <<CHOOSE i \in S : \A j \in S : j <= i>>
RefDump ==
  LET want == SelectSeq(Req, LAMBDA t : t \in present)
      sp == split \/ splitGlyphs
      sg == splitGlyphs /\ "glyf" \in Range(want)
      n == Len(gnames)
      fl == IF sg THEN Files ELSE <<>>
  IN [main |-> [i \in 1..Len(want) |-> [tag |-> want[i], src |-> IF sp THEN "f." \o want[i] ELSE ""]],
      files |-> IF sp THEN [i \in 1..Len(want) |-> [name |-> "f." \o want[i], tags |-> <<want[i]>>]] ELSE <<>>,
      glyfRefs |-> fl,
      numGlyphFiles |-> IF sg THEN Cardinality({Fold(fl[i]) : i \in 1..n}) ELSE 0,
      numInlineGlyphs |-> IF sg THEN 0 ELSE n,
      numGlyphs |-> n,
      malformed |-> FALSE,
      glyphOrder |-> IF sg THEN [i \in 1..n |-> i] ELSE <<>>,
      glyphEntries |-> IF sg THEN [i \in 1..n |-> [file |-> fl[i], holds |-> Holds(fl, fl[i])]] ELSE <<>>]
RefOK == WellFormed(RefDump, Req, split, splitGlyphs, present) = "ok"
(* sensitivity of the predicate: dropping a file or an entry is noticed; so is an include whose file
   holds another glyph, a missing per-glyph file, and two includes that differ in case only *)
DropNoticed == LET d == RefDump IN
   (Len(d.files) > 0 => WellFormed([d EXCEPT !.files = Tail(@)], Req, split, splitGlyphs, present) # "ok")
   /\ (Len(d.main) > 0 => WellFormed([d EXCEPT !.main = Tail(@)], Req, split, splitGlyphs, present) # "ok")
   /\ WellFormed([d EXCEPT !.malformed = TRUE], Req, split, splitGlyphs, present) # "ok"
GlyphFaultsNoticed == LET d == RefDump IN Len(d.glyphEntries) > 1 =>
   /\ WellFormed([d EXCEPT !.glyphEntries[1].holds = d.glyphEntries[2].holds], Req, split, splitGlyphs, present) = "dump:a-glyph-is-held-by-no-per-glyph-file"
   /\ WellFormed([d EXCEPT !.glyphEntries[1].holds = <<>>], Req, split, splitGlyphs, present) = "dump:per-glyph-include-does-not-hold-exactly-one-glyph"
   /\ WellFormed([d EXCEPT !.glyphEntries[1].holds = <<1, 2>>], Req, split, splitGlyphs, present) = "dump:per-glyph-include-does-not-hold-exactly-one-glyph"
   /\ WellFormed([d EXCEPT !.glyphEntries[2].file = [i \in 1..Len(d.glyphEntries[1].file) |-> IF d.glyphEntries[1].file[i] \in 97..122 THEN d.glyphEntries[1].file[i] - 32 ELSE d.glyphEntries[1].file[i]]],
                 Req, split, splitGlyphs, present) = "dump:per-glyph-file-names-collide-ignoring-case"
   /\ WellFormed([d EXCEPT !.glyphEntries = Tail(@)], Req, split, splitGlyphs, present) = "dump:glyf-file-does-not-list-every-glyph-once"
(* the names handed out are also distinct as written, legal and bounded (Filenames' own clauses, here for pairs) *)
NamesSane == (~Buggy /\ splitGlyphs) => LET fl == Files IN FN!CaseUnique(CX, fl) /\ FN!Legal(CX, fl)
TextLaws == /\ TextNorm(<<32, 97, 13, 10, 98, 9>>) = <<97, 10, 98>> /\ AttrNorm(<<97, 13, 98, 10>>) = <<97, 32, 98, 32>>
            /\ TextNorm(<<>>) = <<>> /\ TextNorm(<<13>>) = <<>>
            /\ Fold(<<65, 97, 90, 91, 201, 215, 233, 42>>) = <<97, 97, 122, 91, 233, 215, 233, 42>>
====
