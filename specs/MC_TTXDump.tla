---- MODULE MC_TTXDump ----
(* Exhaustive check of the dump-layout predicate against a reference dumper written as TLA+
   operators, over the whole option lattice: 3 tags (one glyf), selections all / only / skip. *)
EXTENDS TTXDump
VARIABLES split, splitGlyphs, only, skip, present
All == <<"GlyphOrder", "head", "glyf">>
Glyphs == <<"a", "B">>
Sub == {<<>>, <<"head">>, <<"glyf">>, <<"head", "glyf">>, <<"glyf", "head">>, <<"kern">>}
Init == split \in BOOLEAN /\ splitGlyphs \in BOOLEAN /\ only \in Sub /\ skip \in Sub /\ present \in {{"GlyphOrder", "head", "glyf"}, {"GlyphOrder", "head"}}
Next == UNCHANGED <<split, splitGlyphs, only, skip, present>>
Req == Requested(All, only, skip)
RefDump ==
  LET want == SelectSeq(Req, LAMBDA t : t \in present)
      sp == split \/ splitGlyphs
  IN [main |-> [i \in 1..Len(want) |-> [tag |-> want[i], src |-> IF sp THEN "f." \o want[i] ELSE ""]],
      files |-> IF sp THEN [i \in 1..Len(want) |-> [name |-> "f." \o want[i], tags |-> <<want[i]>>]] ELSE <<>>,
      glyfRefs |-> IF splitGlyphs /\ "glyf" \in Range(want) THEN [i \in 1..Len(Glyphs) |-> "g." \o Glyphs[i]] ELSE <<>>,
      numGlyphFiles |-> IF splitGlyphs /\ "glyf" \in Range(want) THEN Len(Glyphs) ELSE 0,
      numInlineGlyphs |-> IF splitGlyphs /\ "glyf" \in Range(want) THEN 0 ELSE Len(Glyphs),
      numGlyphs |-> Len(Glyphs)]
RefOK == WellFormed(RefDump, Req, split, splitGlyphs, present) = "ok"
(* sensitivity of the predicate: dropping a file or an entry is noticed *)
DropNoticed == LET d == RefDump IN
   (Len(d.files) > 0 => WellFormed([d EXCEPT !.files = Tail(@)], Req, split, splitGlyphs, present) # "ok")
   /\ (Len(d.main) > 0 => WellFormed([d EXCEPT !.main = Tail(@)], Req, split, splitGlyphs, present) # "ok")
TextLaws == /\ TextNorm(<<32, 97, 13, 10, 98, 9>>) = <<97, 10, 98>> /\ AttrNorm(<<97, 13, 98, 10>>) = <<97, 32, 98, 32>>
            /\ TextNorm(<<>>) = <<>> /\ TextNorm(<<13>>) = <<>>
====
