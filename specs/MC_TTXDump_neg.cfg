CONSTANTS
  Buggy = TRUE
  MaxNameLen = 2
  FMaxLen = 7
INIT InitNames
NEXT Next
INVARIANT RefOK
CHECK_DEADLOCK FALSE
