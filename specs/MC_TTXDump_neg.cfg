CONSTANT Buggy = TRUE
INIT InitNames
NEXT Next
INVARIANT RefOK
CHECK_DEADLOCK FALSE
