CONSTANTS
  Buggy = FALSE
  MaxNameLen = 3
  FMaxLen = 9
INIT Init
NEXT Next
INVARIANT RefOK
INVARIANT DropNoticed
INVARIANT GlyphFaultsNoticed
INVARIANT NamesSane
INVARIANT TextLaws
CHECK_DEADLOCK FALSE
