INIT Init
NEXT Next
INVARIANT Cmap4Inverse
INVARIANT CovInverse
CHECK_DEADLOCK FALSE
