---- MODULE MC_TableCodec ----
(* Guards the oracle of C02: trivially correct encoders written in TLA+ (one cmap-4 segment per
   mapped code, format-1 coverage, literal simple-glyph records) are inverted by TableCodec's
   decoders on every content over small alphabets; the same enumeration is exported (GEN) as the
   cmap / coverage contents the real encoders are run on. *)
EXTENDS TableCodec, Json
VARIABLES kind, x
Codes == {0, 1, 2, 3, 9, 65534, 65535}
Gids == {0, 1, 2, 65535}
W2(v) == <<v \div 256, v % 256>>
SortedSeq(S) == LET RECURSIVE F(_) F(T) == IF T = {} THEN <<>> ELSE LET m == CHOOSE a \in T : \A c \in T : a <= c IN <<m>> \o F(T \ {m}) IN F(S)
(* one segment per mapped code + the mandatory final 0xFFFF segment *)
Enc4(m) ==
  LET cs == SortedSeq({c \in DOMAIN m : c # 65535})
      has == 65535 \in DOMAIN m
      n == Len(cs) + 1
      ends == [i \in 1..n |-> IF i <= Len(cs) THEN cs[i] ELSE 65535]
      deltas == [i \in 1..n |-> IF i <= Len(cs) THEN (m[cs[i]] - cs[i] + 65536) % 65536 ELSE IF has THEN (m[65535] - 65535 + 65536) % 65536 ELSE 1]
      p == 2 ^ Log2F(n)
      RECURSIVE Cat(_, _)
      Cat(s, i) == IF i > Len(s) THEN <<>> ELSE W2(s[i]) \o Cat(s, i + 1)
      body == Cat(ends, 1) \o W2(0) \o Cat(ends, 1) \o Cat(deltas, 1) \o Cat([i \in 1..n |-> 0], 1)
  IN W2(4) \o W2(16 + 8 * n) \o W2(0) \o W2(2 * n) \o W2(2 * p) \o W2(Log2F(n)) \o W2(2 * n - 2 * p) \o body
Cov1(S) == LET s == SortedSeq(S) RECURSIVE Cat(_) Cat(i) == IF i > Len(s) THEN <<>> ELSE W2(s[i]) \o Cat(i + 1) IN W2(1) \o W2(Len(s)) \o Cat(1)
Maps == UNION {[D -> Gids \ {0}] : D \in {D \in SUBSET Codes : Cardinality(D) <= 3}}
Init == \/ kind = "cmap4" /\ x \in Maps
        \/ kind = "cov" /\ x \in SUBSET {0, 1, 2, 3, 5, 6, 65535}
Next == UNCHANGED <<kind, x>>
Cmap4Inverse == kind = "cmap4" => LET b == Enc4(x) IN
     /\ Cmap4WF(b)
     /\ \A c \in Codes \cup {4, 10, 65533} : Cmap4Lookup(b, c) = (IF c \in DOMAIN x THEN x[c] ELSE IF c = 65535 THEN 0 ELSE 0)
CovInverse == kind = "cov" => LET b == Cov1(x) IN CoverageWF(b) /\ CoverageDecode(b) = SortedSeq(x)
Emit == PrintT(<<"GEN", ToJson([kind |-> kind, x |-> IF kind = "cov" THEN SortedSeq(x) ELSE [c \in DOMAIN x |-> <<c, x[c]>>]])>>)
====
