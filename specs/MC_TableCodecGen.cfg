INIT Init
NEXT Next
INVARIANT Cmap4Inverse
INVARIANT CovInverse
CONSTRAINT Emit
CHECK_DEADLOCK FALSE
