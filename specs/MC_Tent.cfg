CONSTANT D = 2
INIT Init
NEXT Next
INVARIANT Sound
INVARIANT Emit
CHECK_DEADLOCK FALSE
