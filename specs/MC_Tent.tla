------------------------------ MODULE MC_Tent ------------------------------
(* (M) for Tent: the transcription of rebaseTent satisfies the Rebase contract for EVERY
   well-formed tent on the 1/D lattice of [-2, 2], every axis limit on the 1/D lattice of
   [-1, 1], the three pre-normalisation distance pairs, at every 1/(2D) lattice point of the
   new range; and the code's renormalizeValue agrees with the declarative Renorm inside
   the new range.  The cases of the analysis that fired are projected into "case" states
   and printed once each (coverage evidence). *)
EXTENDS Tent, TLC
CONSTANTS D
VARIABLES phase, tent, lim, verdict
vars == <<phase, tent, lim, verdict>>

T(t) == <<Rat(t[1], D), Rat(t[2], D), Rat(t[3], D)>>
L(l) == <<Rat(l[1], D), Rat(l[2], D), Rat(l[3], D), RInt(l[4]), RInt(l[5])>>
Pts == {Rat(i, 2 * D) : i \in (-2 * D)..(2 * D)}
Dists == {<<1, 1>>, <<1, 2>>, <<2, 1>>}

Verdict(t, l) ==
  LET sols == RebaseTent(t, l)
      pts == {x \in Pts : InRange(l, x)}
      vs == {RebaseAt(t, l, sols, x) : x \in pts}
  IN IF \E x \in pts : RenormCode(l, x) # Renorm(l, x) THEN "renorm-differs"
     ELSE IF "overflow" \in vs THEN "overflow"
     ELSE IF "differs" \in vs THEN "rebase-differs" ELSE "ok"

Init == /\ phase = "gen" /\ verdict = "pending"
        /\ \E a \in (-2 * D)..(2 * D) : \E b \in a..(2 * D) : \E c \in b..(2 * D) :
             /\ WellFormedTent(T(<<a, b, c>>))
             /\ tent = <<a, b, c>>
        /\ \E a \in (-D)..D : \E b \in a..D : \E c \in b..D : \E d \in Dists :
             lim = <<a, b, c, d[1], d[2]>>
Next == \/ /\ phase = "gen" /\ phase' = "judged"
           /\ verdict' = Verdict(T(tent), L(lim)) /\ UNCHANGED <<tent, lim>>
        \/ /\ phase = "judged"
           /\ \E c \in SolveCases(T(tent), L(lim)) :
                phase' = "case" /\ tent' = c /\ lim' = <<>> /\ verdict' = "ok"
Sound == verdict \in {"pending", "ok"}
Emit == phase = "case" => PrintT(<<"CASE", tent>>)
=============================================================================
