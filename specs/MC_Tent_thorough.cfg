CONSTANT D = 4
INIT Init
NEXT Next
INVARIANT Sound
INVARIANT Emit
CHECK_DEADLOCK FALSE
