----------------------------- MODULE MC_VarStore -----------------------------
(* (M) for VarStoreSem: every small store (one axis, three regions one of them possibly
   unused, one or two VarData over fixed column lists, one or two rows of deltas from
   Vals) and each rewrite step the real optimize / prune_regions / subset_varidxes are
   composed of: the rewrite is value-neutral at every lattice location.  *)
EXTENDS VarStoreSem, FiniteSets
CONSTANTS VS, MaxData
Vals == IF VS = 1 THEN {0, 1, -2} ELSE {0, 1}
VARIABLES store, phase
vars == <<store, phase>>

T3(a, b, c) == <<Rat(a, 2), Rat(b, 2), Rat(c, 2)>>
Regions == << <<T3(0, 2, 2)>>, <<T3(-2, -2, 0)>>, <<T3(0, 1, 2)>>, <<T3(1, 2, 2)>> >>
ColumnLists == {<<0>>, <<1, 2>>, <<2, 0>>, <<0, 1, 2>>, <<2, 2>>}
Locs == {<<Rat(i, 4)>> : i \in -4..4}
Rows(w) == [1..w -> Vals]
DataSet == UNION {{[ri |-> ri, items |-> <<a>>] : a \in Rows(Len(ri))} \cup
                  {[ri |-> ri, items |-> <<a, b>>] : a \in Rows(Len(ri)), b \in Rows(Len(ri))}
                    : ri \in ColumnLists}

Check(st) ==
  LET idx == AllIdx(st)
      pr == PruneRegions(st)
      RECURSIVE dropAll(_, _)
      dropAll(s, d) == IF d > Len(s.data) THEN s
                       ELSE LET s2 == SelectColumns(s, d, NonZeroColumns(s, d)) IN dropAll(s2, d + 1)
      dropped == dropAll(st, 1)
      rev == [d \in 1..Len(st.data) |-> [k \in 1..Len(st.data[d].ri) |-> Len(st.data[d].ri) + 1 - k]]
      reversed == SelectColumns(st, 1, rev[1])
      nz == SeqOfIdxSet({vi \in idx : ~ZeroRow(st, vi)})
      one == Regroup(st, <<nz>>)                                       \* all rows merged in one VarData
      each == Regroup(st, [i \in 1..Len(nz) |-> <<nz[i]>>])            \* one VarData per row
      keeps == SUBSET idx
  IN IF ~StoreWellFormed(st) THEN "malformed"
     ELSE IF ~Neutral(st, pr, IdMap(st), Locs) THEN "prune"
     ELSE IF Len(pr.regions) > Len(st.regions) THEN "prune-grows"
     ELSE IF ~Neutral(st, dropped, IdMap(st), Locs) THEN "drop-zero-columns"
     ELSE IF ~Neutral(st, reversed, IdMap(st), Locs) THEN "reorder-columns"
     ELSE IF ~(Neutral(st, one, RegroupMap(st, <<nz>>), Locs) /\ MapCovers(idx, RegroupMap(st, <<nz>>))) THEN "regroup-one"
     ELSE IF ~Neutral(st, each, RegroupMap(st, [i \in 1..Len(nz) |-> <<nz[i]>>]), Locs) THEN "regroup-each"
     ELSE IF ~Neutral(st, PruneRegions(dropAll(one, 1)), RegroupMap(st, <<nz>>), Locs) THEN "optimize-composition"
     ELSE IF \E keep \in keeps : keep # {} /\
               ~(Neutral(st, PruneRegions(Subset(st, keep)), SubsetMap(st, keep), Locs)
                 /\ MapTargetsExist(Subset(st, keep), SubsetMap(st, keep))) THEN "subset"
     ELSE "ok"

Init == /\ phase = "gen"
        /\ \E a \in DataSet :
             \/ store = [regions |-> Regions, data |-> <<a>>]
             \/ MaxData >= 2 /\ \E b \in {d \in DataSet : Len(d.items) = 1 /\ d.items[1][1] # 0 /\ Len(d.ri) <= 2} :
                  store = [regions |-> Regions, data |-> <<a, b>>]
Next == phase = "gen" /\ phase' = Check(store) /\ UNCHANGED store
Sound == phase \in {"gen", "ok"}
=============================================================================
