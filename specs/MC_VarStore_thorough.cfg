CONSTANTS VS = 2  MaxData = 2
INIT Init
NEXT Next
INVARIANT Sound
CHECK_DEADLOCK FALSE
