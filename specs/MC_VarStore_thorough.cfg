CONSTANTS VS = 1  MaxData = 2
INIT Init
NEXT Next
INVARIANT Sound
CHECK_DEADLOCK FALSE
