CONSTANTS VS = 1  MaxData = 1
INIT Init
NEXT Next
INVARIANT Sound
CHECK_DEADLOCK FALSE
