------------------------------- MODULE Merge -------------------------------
(* C18: merging fonts preserves each input's characters  (fontTools.merge.Merger().merge).

   ABSTRACT FONT (JSON objects emitted by harness/c18_project.py and by MC_Merge; glyph ids are 1-based
   positions in `names`, characters are integers):
     F = [ names   : Seq(STRING)                 glyph order
           cmap    : Seq(<<char, gid>>)          the Unicode character map, ascending by char, a function
           adv     : Seq(Int)                    advance width per glyph
           out     : Seq(Int)                    outline identity per glyph (equal ids <=> equal decomposed outlines)
           hasgsub, hasgpos : BOOLEAN
           systems : Seq(<<script, lang>>)       the language systems the GSUB ScriptList declares (also empty ones)
           L       : OTLSem!Layout ]             gdef / gsub / gpos / adv with LOCAL glyph ids and lookup indices
   The merged font M has the same fields plus  maxp  (maxp.numGlyphs of the object the merger returns).

   The merger is specified as the stages of Merger.merge, each a pure operator and an action of the
   machine at the end of this module:
     ComputeMegaGlyphOrder   glyph names of later fonts that clash are renamed  name.n  (documented: "parenleft.1")
     ComputeMegaCmap         the first font that supports a character wins; for every other font that maps the
                             character, the pair (glyph already chosen -> that font's own glyph) is recorded as a
                             DUPLICATE of that font (documented mechanism: a single substitution placed in the
                             font's 'locl' feature under its non-DFLT scripts)
     MergeTables             per-glyph tables are concatenated in font order (glyf/CFF, hmtx), maxp.numGlyphs summed
     MergeLayout             per font: glyph ids shifted by the font's offset, the synthesized locl lookup appended;
                             lookup lists concatenated (lookup indices of font i shifted by the number of lookups of
                             the fonts before it, also inside contextual rules); features merged per
                             script / language / tag (lookup lists concatenated in font order)
     PostMerge               lookups that no feature and no contextual rule references are dropped, indices compacted

   PROPERTIES (stated on inputs Fs and result M, independent of how M was produced):
     FirstWins, UniqueNames, DuplicateRule, DisjointShaping, Totals.

   NAMED DEVIATIONS of the code from the documented ideal (each an explicit branch here, none a licence for others):
     NeverIdentify          the documented identification of duplicates with equal outline and advance
                            (_glyphsAreSame) is disabled in the code (the call is commented out): `idf` = FALSE.
                            With idf = TRUE the specification identifies them; every property holds for both.
     NoGSUBNoLocl           a later font without GSUB gets no locl substitution (the code only warns).
     NoLoclForDFLT          the substitution is not installed under the DFLT script.
     DupConflictDropped     two characters of one font that the earlier fonts map to the SAME glyph but this font maps to
                            DIFFERENT glyphs: only the first (ascending character) is disambiguated, the other is dropped.
     IgnorableNotDisambiguated  default-ignorable characters and U+25CC are never recorded as duplicates (set `ign`).
     SynthLookupLast        the synthesized lookup is the LAST lookup of its font, so the font's own lookups do not see
                            its output (why DisjointShaping is only claimed for disjoint character sets).
     DropsUnknownTables     tables without a merge policy (kern, AAT, variations) are dropped: shaping equivalence is
                            claimed for OpenType Layout only (the harness skips inputs that carry such tables).      *)
EXTENDS Integers, Sequences, FiniteSets, TLC, OTLSem

-----------------------------------------------------------------------------
(* sequences *)
MIdx(s) == 1..Len(s)
MRange(s) == {s[k] : k \in 1..Len(s)}
RECURSIVE MSumTo(_, _)
MSumTo(s, k) == IF k <= 0 THEN 0 ELSE s[k] + MSumTo(s, k - 1)
RECURSIVE MFlat(_, _)
MFlat(ss, k) == IF k > Len(ss) THEN <<>> ELSE ss[k] \o MFlat(ss, k + 1)
MSortSet(S) == [i \in 1..Cardinality(S) |-> CHOOSE x \in S : Cardinality({y \in S : y < x}) = i - 1]
RECURSIVE MSetToSeq(_)
MSetToSeq(S) == IF S = {} THEN <<>> ELSE LET x == CHOOSE x \in S : TRUE IN <<x>> \o MSetToSeq(S \ {x})
MMin(S) == CHOOSE x \in S : \A y \in S : x <= y
MMax(S) == CHOOSE x \in S : \A y \in S : x >= y
EmptyFn == [x \in {} |-> 0]
MapSet(s, G(_)) == [k \in 1..Len(s) |-> G(s[k])]

-----------------------------------------------------------------------------
(* fonts *)
NG(F) == Len(F.names)
Sizes(Fs) == [i \in MIdx(Fs) |-> NG(Fs[i])]
Off(Fs, i) == MSumTo(Sizes(Fs), i - 1)              \* glyph id offset of font i in the merged font
Total(Fs) == MSumTo(Sizes(Fs), Len(Fs))
Chars(F) == {F.cmap[k][1] : k \in MIdx(F.cmap)}
CmapFn(F) == [c \in Chars(F) |-> (CHOOSE p \in MRange(F.cmap) : p[1] = c)[2]]
Ident(F, g) == <<F.out[g], F.adv[g]>>              \* what the property calls "outline and advance"
AllChars(Fs) == UNION {Chars(Fs[i]) : i \in MIdx(Fs)}
FirstFont(Fs, c) == MMin({i \in MIdx(Fs) : c \in Chars(Fs[i])})
LastFont(Fs, c) == MMax({i \in MIdx(Fs) : c \in Chars(Fs[i])})
Disjoint(Fs) == \A i, j \in MIdx(Fs) : i # j => Chars(Fs[i]) \cap Chars(Fs[j]) = {}
WellFormedFont(F) ==
  /\ Len(F.adv) = NG(F) /\ Len(F.out) = NG(F)
  /\ \A k \in MIdx(F.cmap) : F.cmap[k][2] \in 1..NG(F)
  /\ Cardinality(Chars(F)) = Len(F.cmap)

-----------------------------------------------------------------------------
(* Stage 1: the mega glyph order.  `seen` maps every name used so far to the last suffix tried for it. *)
Dotted(nm, n) == nm \o "." \o ToString(n)
RECURSIVE FreshN(_, _, _, _)
FreshN(seen, nm, n, bug) ==
  IF bug # "no-fresh-loop" /\ Dotted(nm, n) \in DOMAIN seen THEN FreshN(seen, nm, n + 1, bug) ELSE n
RECURSIVE RenameFrom(_, _, _, _, _)
RenameFrom(names, i, seen, acc, bug) ==
  IF i > Len(names) THEN [names |-> acc, seen |-> seen]
  ELSE LET nm == names[i] IN
       IF nm \in DOMAIN seen
       THEN LET n == FreshN(seen, nm, seen[nm], bug)
                nn == IF bug = "no-rename" THEN nm ELSE Dotted(nm, n)
            IN RenameFrom(names, i + 1, (nn :> 1) @@ (nm :> n) @@ seen, Append(acc, nn), bug)
       ELSE RenameFrom(names, i + 1, (nm :> 1) @@ seen, Append(acc, nm), bug)
RECURSIVE MegaOrdersFrom(_, _, _, _, _)
MegaOrdersFrom(Fs, i, seen, acc, bug) ==
  IF i > Len(Fs) THEN acc
  ELSE LET r == RenameFrom(Fs[i].names, 1, seen, <<>>, bug)
       IN MegaOrdersFrom(Fs, i + 1, r.seen, Append(acc, r.names), bug)
MegaOrders(Fs, bug) == MegaOrdersFrom(Fs, 1, EmptyFn, <<>>, bug)    \* the renamed glyph order of every font
FlatNames(Fs) == MFlat([i \in MIdx(Fs) |-> Fs[i].names], 1)

(* The same stage as a relation between the input names (flattened, font order) and an OBSERVED merged order:
   position by position, a name not used before is kept, a name used before gets the least suffix n >= 1 for
   which  name.n  is not used before.  (By induction on the position this characterises MegaOrders; MC_Merge
   checks the equivalence.)  Non-recursive, so the judge can apply it to fonts with thousands of glyphs. *)
OrderRuleOK(flat, obs) ==
  /\ Len(obs) = Len(flat)
  /\ \A p \in MIdx(flat) :
       LET earlier == {obs[q] : q \in 1..(p - 1)}
           nm == flat[p]
       IN IF nm \notin earlier THEN obs[p] = nm
          ELSE \E n \in 1..p : /\ obs[p] = Dotted(nm, n)
                               /\ obs[p] \notin earlier
                               /\ \A v \in 1..(n - 1) : Dotted(nm, v) \in earlier

-----------------------------------------------------------------------------
(* Stage 2: the mega cmap and the duplicates of every font.  MCtx(Fs) holds what every later definition needs,
   computed once: the character maps as functions, the glyph offsets, the first supporter of every character and the
   mega cmap itself (character -> merged glyph id). *)
MCtx(Fs) ==
  LET cf == [i \in MIdx(Fs) |-> CmapFn(Fs[i])]
      offs == [i \in MIdx(Fs) |-> Off(Fs, i)]
      all == UNION {DOMAIN cf[i] : i \in MIdx(Fs)}
      first == [c \in all |-> MMin({i \in MIdx(Fs) : c \in DOMAIN cf[i]})]
  IN [cf |-> cf, off |-> offs, all |-> all, first |-> first,
      cm |-> [c \in all |-> offs[first[c]] + cf[first[c]][c]]]
MegaCmapFn(Fs, bug) ==
  IF bug # "later-wins" THEN MCtx(Fs).cm
  ELSE [c \in AllChars(Fs) |-> LET i == LastFont(Fs, c) IN Off(Fs, i) + CmapFn(Fs[i])[c]]
SameGlyphX(Fs, X, i, c) ==      \* font i's glyph for c has the outline and advance of the first supporter's
  LET j == X.first[c] IN Ident(Fs[j], X.cf[j][c]) = Ident(Fs[i], X.cf[i][c])
DupCharsX(X, i, ign) == {c \in DOMAIN X.cf[i] : X.first[c] < i /\ c \notin ign}
RecordedX(Fs, X, i, ign, idf) == {c \in DupCharsX(X, i, ign) : ~(idf /\ SameGlyphX(Fs, X, i, c))}
DupMapX(Fs, X, i, ign, idf, bug) ==      \* glyph chosen by the earlier fonts -> font i's own glyph (merged glyph ids)
  LET cs == RecordedX(Fs, X, i, ign, idf)
      tgt(c) == X.off[i] + X.cf[i][c]
      dp == [old \in {X.cm[c] : c \in cs} |-> tgt(MMin({c \in cs : X.cm[c] = old}))]
  IN IF bug = "dup-reversed" THEN [new \in {dp[o] : o \in DOMAIN dp} |-> CHOOSE o \in DOMAIN dp : dp[o] = new] ELSE dp
ConflictCharX(Fs, X, i, c, ign, idf) ==      \* DupConflictDropped applies to c
  \E d \in RecordedX(Fs, X, i, ign, idf) : X.cm[d] = X.cm[c] /\ X.cf[i][d] # X.cf[i][c]
SameGlyph(Fs, i, c) == SameGlyphX(Fs, MCtx(Fs), i, c)
DupChars(Fs, i, ign) == DupCharsX(MCtx(Fs), i, ign)
Recorded(Fs, i, ign, idf) == RecordedX(Fs, MCtx(Fs), i, ign, idf)
DupMap(Fs, i, ign, idf, bug) == DupMapX(Fs, MCtx(Fs), i, ign, idf, bug)
ConflictChar(Fs, i, c, ign, idf) == ConflictCharX(Fs, MCtx(Fs), i, c, ign, idf)

-----------------------------------------------------------------------------
(* Stage 3: per-glyph tables *)
MergeTablesOf(Fs, orders, bug) ==
  [names |-> MFlat(orders, 1),
   adv   |-> MFlat([i \in MIdx(Fs) |-> Fs[i].adv], 1),
   out   |-> MFlat([i \in MIdx(Fs) |-> Fs[i].out], 1),
   maxp  |-> IF bug = "maxp-first" THEN NG(Fs[1]) ELSE Total(Fs)]

-----------------------------------------------------------------------------
(* Stage 4: OpenType Layout.  MapLookup rewrites every glyph id with G and every nested lookup index with K. *)
MapSets(ss, G(_)) == [j \in 1..Len(ss) |-> MapSet(ss[j], G)]
MapMarks(ms, G(_)) == [k \in 1..Len(ms) |-> <<G(ms[k][1]), ms[k][2], ms[k][3]>>]
MapHeads(bs, G(_)) == [k \in 1..Len(bs) |-> <<G(bs[k][1]), bs[k][2]>>]
MapSub(ty, st, G(_), K(_)) ==
  CASE ty = "sub1" -> [m |-> [k \in 1..Len(st.m) |-> <<G(st.m[k][1]), G(st.m[k][2])>>]]
    [] ty \in {"sub2", "sub3"} -> [m |-> [k \in 1..Len(st.m) |-> <<G(st.m[k][1]), MapSet(st.m[k][2], G)>>]]
    [] ty = "sub4" -> [l |-> [k \in 1..Len(st.l) |-> <<MapSet(st.l[k][1], G), G(st.l[k][2])>>]]
    [] ty = "ctx"  -> [r |-> [k \in 1..Len(st.r) |->
                              [b |-> MapSets(st.r[k].b, G), i |-> MapSets(st.r[k].i, G), a |-> MapSets(st.r[k].a, G),
                               n |-> [j \in 1..Len(st.r[k].n) |-> <<st.r[k].n[j][1], K(st.r[k].n[j][2])>>]]]]
    [] ty = "rsub" -> [r |-> [k \in 1..Len(st.r) |->
                              [b |-> MapSets(st.r[k].b, G), a |-> MapSets(st.r[k].a, G),
                               m |-> [j \in 1..Len(st.r[k].m) |-> <<G(st.r[k].m[j][1]), G(st.r[k].m[j][2])>>]]]]
    [] ty = "pos1" -> [m |-> MapHeads(st.m, G)]
    [] ty = "pos2" -> IF st.f = 1
                      THEN [f |-> 1, v2 |-> st.v2,
                            p |-> [k \in 1..Len(st.p) |-> <<G(st.p[k][1]), G(st.p[k][2]), st.p[k][3], st.p[k][4]>>]]
                      ELSE [f |-> 2, v2 |-> st.v2, cov |-> MapSet(st.cov, G),
                            c |-> [k \in 1..Len(st.c) |-> <<MapSet(st.c[k][1], G), MapSet(st.c[k][2], G), st.c[k][3], st.c[k][4]>>]]
    [] ty = "curs" -> [m |-> [k \in 1..Len(st.m) |-> <<G(st.m[k][1]), st.m[k][2], st.m[k][3]>>]]
    [] ty \in {"mkb", "mkm"} -> [marks |-> MapMarks(st.marks, G), bases |-> MapHeads(st.bases, G)]
    [] ty = "mkl" -> [marks |-> MapMarks(st.marks, G), ligs |-> MapHeads(st.ligs, G)]
    [] OTHER -> st
MapLookup(lk, G(_), K(_), S(_)) ==
  [ty |-> lk.ty, flag |-> lk.flag, mfs |-> IF lk.mfs = 0 THEN 0 ELSE S(lk.mfs),
   st |-> [k \in 1..Len(lk.st) |-> MapSub(lk.ty, lk.st[k], G, K)]]
MId(x) == x
EmptyTB == [lookups |-> <<>>, fl |-> <<>>]

(* font i's table in merged glyph ids (lookup indices still local) *)
ShiftTB(Fs, i, tb) ==
  LET nsets == [j \in MIdx(Fs) |-> Len(Fs[j].L.gdef.sets)] IN
  [lookups |-> [k \in 1..Len(tb.lookups) |->
                  MapLookup(tb.lookups[k], LAMBDA g : Off(Fs, i) + g, MId, LAMBDA s : s + MSumTo(nsets, i - 1))],
   fl |-> tb.fl]

(* the documented disambiguation mechanism, as installed by the code (GSUB only) *)
NonDfltSystems(F) == {s \in MRange(F.systems) : s[1] # "DFLT"}
Mechanism(F) == F.hasgsub /\ NonDfltSystems(F) # {}          \* NoGSUBNoLocl, NoLoclForDFLT
WithLocl(F, tb, dp, bug) ==
  IF DOMAIN dp = {} \/ ~Mechanism(F) THEN tb
  ELSE LET nl == Len(tb.lookups) + 1
           olds == MSortSet(DOMAIN dp)
           synth == [ty |-> "sub1", flag |-> 0, mfs |-> 0,
                     st |-> << [m |-> [k \in 1..Len(olds) |-> <<olds[k], dp[olds[k]]>>]] >>]
           has(s) == \E k \in 1..Len(tb.fl) : tb.fl[k][1] = s[1] /\ tb.fl[k][2] = s[2] /\ tb.fl[k][3] = "locl"
           fl1 == [k \in 1..Len(tb.fl) |->
                     IF tb.fl[k][1] # "DFLT" /\ tb.fl[k][3] = "locl"
                     THEN <<tb.fl[k][1], tb.fl[k][2], "locl",
                            <<nl>> \o tb.fl[k][4], tb.fl[k][5]>>
                     ELSE tb.fl[k]]
           missing == MSetToSeq({s \in NonDfltSystems(F) : ~has(s)})
       IN [lookups |-> Append(tb.lookups, synth),
           fl |-> fl1 \o [k \in 1..Len(missing) |-> <<missing[k][1], missing[k][2], "locl", <<nl>>, FALSE>>]]

(* concatenation: lookup indices of table i are shifted by the number of lookups before it; features with the
   same script / language / tag are merged, their lookup lists concatenated in font order *)
FlKey(e) == <<e[1], e[2], e[3]>>
ConcatTB(tbs, bug) ==
  LET nl == [i \in MIdx(tbs) |-> Len(tbs[i].lookups)]
      LOff(i) == MSumTo(nl, i - 1)
      lookups == MFlat([i \in MIdx(tbs) |->
                          [k \in 1..Len(tbs[i].lookups) |->
                             MapLookup(tbs[i].lookups[k], MId,
                                       LAMBDA x : IF bug = "ctx-not-offset" THEN x ELSE x + LOff(i), MId)]], 1)
      all == MFlat([i \in MIdx(tbs) |->
                      [k \in 1..Len(tbs[i].fl) |->
                         <<tbs[i].fl[k][1], tbs[i].fl[k][2], tbs[i].fl[k][3],
                           [j \in 1..Len(tbs[i].fl[k][4]) |-> tbs[i].fl[k][4][j] + LOff(i)], tbs[i].fl[k][5]>>]], 1)
      keys == MSetToSeq({FlKey(all[j]) : j \in 1..Len(all)})
      lists(key) == [j \in 1..Len(all) |-> IF FlKey(all[j]) = key THEN all[j][4] ELSE <<>>]
      firstOf(key) == all[MMin({j \in 1..Len(all) : FlKey(all[j]) = key})][4]
  IN [lookups |-> lookups,
      fl |-> [k \in 1..Len(keys) |->
                <<keys[k][1], keys[k][2], keys[k][3],
                  IF bug = "feature-first-only" THEN firstOf(keys[k]) ELSE MFlat(lists(keys[k]), 1), FALSE>>]]

(* post-merge: unreferenced lookups are removed and the indices compacted *)
CtxTargets(lk) ==
  IF lk.ty # "ctx" THEN {}
  ELSE UNION {UNION {{lk.st[s].r[k].n[j][2] : j \in 1..Len(lk.st[s].r[k].n)} : k \in 1..Len(lk.st[s].r)} : s \in 1..Len(lk.st)}
CompactTB(tb, bug) ==
  LET refF == UNION {MRange(tb.fl[k][4]) : k \in 1..Len(tb.fl)}
      refC == UNION {CtxTargets(tb.lookups[k]) : k \in 1..Len(tb.lookups)}
      used == (refF \cup refC) \cap (1..Len(tb.lookups))
      kept == MSortSet(used)
      New(k) == IF bug = "compact-off-by-one" THEN Cardinality({u \in used : u <= k}) + 1 ELSE Cardinality({u \in used : u <= k})
  IN [lookups |-> [j \in 1..Len(kept) |-> MapLookup(tb.lookups[kept[j]], MId, New, MId)],
      fl |-> [k \in 1..Len(tb.fl) |-> <<tb.fl[k][1], tb.fl[k][2], tb.fl[k][3], MapSet(tb.fl[k][4], New), tb.fl[k][5]>>]]

MergeGdef(Fs) ==
  LET part(f, i) == IF Len(Fs[i].L.gdef[f]) > 0 THEN Fs[i].L.gdef[f] ELSE [g \in 1..NG(Fs[i]) |-> 0]
      whole(f) == IF \E i \in MIdx(Fs) : Len(Fs[i].L.gdef[f]) > 0 THEN MFlat([i \in MIdx(Fs) |-> part(f, i)], 1) ELSE <<>>
  IN [cls |-> whole("cls"), mac |-> whole("mac"),
      sets |-> MFlat([i \in MIdx(Fs) |-> [k \in 1..Len(Fs[i].L.gdef.sets) |->
                                            MapSet(Fs[i].L.gdef.sets[k], LAMBDA g : Off(Fs, i) + g)]], 1)]

PreparedGsub(Fs, i, dps, bug) ==
  IF ~Fs[i].hasgsub THEN EmptyTB ELSE WithLocl(Fs[i], ShiftTB(Fs, i, Fs[i].L.gsub), dps[i], bug)
PreparedGpos(Fs, i) == IF ~Fs[i].hasgpos THEN EmptyTB ELSE ShiftTB(Fs, i, Fs[i].L.gpos)
MergeLayoutOf(Fs, dps, adv, bug) ==
  [gdef |-> MergeGdef(Fs),
   gsub |-> ConcatTB([i \in MIdx(Fs) |-> PreparedGsub(Fs, i, dps, bug)], bug),
   gpos |-> ConcatTB([i \in MIdx(Fs) |-> PreparedGpos(Fs, i)], bug),
   adv  |-> adv]
PostMergeOf(L, bug) == [gdef |-> L.gdef, gsub |-> CompactTB(L.gsub, bug), gpos |-> CompactTB(L.gpos, bug), adv |-> L.adv]

(* the whole merge as one operator (what the judge uses to predict the result of a recorded case) *)
CmapSeq(fn) == LET cs == MSortSet(DOMAIN fn) IN [k \in 1..Len(cs) |-> <<cs[k], fn[cs[k]]>>]
MergeAll(Fs, ign, idf, bug) ==
  LET tabs == MergeTablesOf(Fs, MegaOrders(Fs, bug), bug)
      dps == [i \in MIdx(Fs) |-> DupMap(Fs, i, ign, idf, bug)]
  IN [names |-> tabs.names, adv |-> tabs.adv, out |-> tabs.out, maxp |-> tabs.maxp,
      cmap |-> CmapSeq(MegaCmapFn(Fs, bug)),
      L |-> PostMergeOf(MergeLayoutOf(Fs, dps, tabs.adv, bug), bug)]

-----------------------------------------------------------------------------
(* THE PROPERTIES *)
WellFormedMerged(M) ==
  /\ Len(M.adv) = Len(M.out)
  /\ \A k \in MIdx(M.cmap) : M.cmap[k][2] \in 1..Len(M.out)
  /\ Cardinality(Chars(M)) = Len(M.cmap)

(* every character maps to a glyph whose outline and advance are those it had in the first input that supports it *)
FirstWinsAtX(Fs, X, M, mc, c) ==
  c \in DOMAIN mc /\ LET i == X.first[c] IN Ident(M, mc[c]) = Ident(Fs[i], X.cf[i][c])
FirstWinsX(Fs, X, M, mc) == DOMAIN mc = X.all /\ \A c \in X.all : FirstWinsAtX(Fs, X, M, mc, c)
FirstWins(Fs, M) == FirstWinsX(Fs, MCtx(Fs), M, CmapFn(M))

UniqueNames(M) == Cardinality(MRange(M.names)) = Len(M.names)

Totals(Fs, M) ==
  /\ Len(M.names) = Total(Fs) /\ M.maxp = Total(Fs) /\ Len(M.adv) = Total(Fs) /\ Len(M.out) = Total(Fs)

(* every glyph of every input is present, in font order (what the per-table stage promises) *)
GlyphsKept(Fs, M) ==
  \A i \in MIdx(Fs) : \A g \in 1..NG(Fs[i]) :
     Off(Fs, i) + g <= Len(M.out) /\ Ident(M, Off(Fs, i) + g) = Ident(Fs[i], g)

(* shaping of glyph sequences, compared by identity of outline + advance; rows are OTLSem!Shape rows
   <<glyph, advance adjustment, 0, x offset, y offset>> *)
SameShaping(Fa, ra, Fb, rb) ==
  /\ Len(ra) = Len(rb)
  /\ \A k \in 1..Len(ra) : /\ ra[k][1] \in 1..Len(Fa.out) /\ rb[k][1] \in 1..Len(Fb.out)
                           /\ Ident(Fa, ra[k][1]) = Ident(Fb, rb[k][1])
                           /\ ra[k][2] = rb[k][2] /\ ra[k][3] = rb[k][3] /\ ra[k][4] = rb[k][4] /\ ra[k][5] = rb[k][5]
TagsOf(L) == MSetToSeq({L.gsub.fl[k][3] : k \in 1..Len(L.gsub.fl)} \cup {L.gpos.fl[k][3] : k \in 1..Len(L.gpos.fl)})
SysOf(tb) == {<<tb.fl[k][1], tb.fl[k][2]>> : k \in 1..Len(tb.fl)}
(* the language systems under which "shapes as with that input alone" is a meaningful request: declared by the input
   in each layout table it has (otherwise the shaper's script fallback differs between the input and the merged font) *)
ProbeSystems(F) ==
  IF ~F.hasgsub /\ ~F.hasgpos THEN {<<"DFLT", "dflt">>}
  ELSE {s \in SysOf(F.L.gsub) \cup SysOf(F.L.gpos) :
          (F.hasgsub => s \in SysOf(F.L.gsub)) /\ (F.hasgpos => s \in SysOf(F.L.gpos))}
TextsOver(S, K) == UNION {[1..n -> S] : n \in 1..K}

(* DuplicateRule: a later input's glyph for an already supported character is kept; it is identified with the
   earlier glyph (not reachable on its own) only if outline and advance are equal; otherwise it is reachable
   through the locl substitution under every language system that is exclusively the later font's *)
ExclusiveSys(Fs, i, s) == \A k \in MIdx(Fs) \ {i} : \A t \in MRange(Fs[k].systems) : t[1] # s[1]
MustReachX(Fs, X, i, c, ign) ==        \* the premise of reachability for character c of font i
  /\ c \in DupCharsX(X, i, ign) /\ ~SameGlyphX(Fs, X, i, c)
  /\ Mechanism(Fs[i]) /\ ~ConflictCharX(Fs, X, i, c, ign, FALSE)
MustReach(Fs, i, c, ign) == MustReachX(Fs, MCtx(Fs), i, c, ign)
LaterGlyphKeptX(Fs, X, M, i, c) ==
  X.off[i] + X.cf[i][c] <= Len(M.out) /\ Ident(M, X.off[i] + X.cf[i][c]) = Ident(Fs[i], X.cf[i][c])
LoclReachX(Fs, X, M, mc, i, c, s) ==
  LET r == Shape(M.L, s[1], s[2], <<"locl">>, 1, "ot", <<mc[c]>>)
  IN Len(r) = 1 /\ r[1][1] \in 1..Len(M.out) /\ Ident(M, r[1][1]) = Ident(Fs[i], X.cf[i][c])
DuplicateRule(Fs, M, ign) ==
  LET X == MCtx(Fs) mc == CmapFn(M) IN
  \A i \in MIdx(Fs) : \A c \in DOMAIN X.cf[i] : X.first[c] < i =>
     /\ LaterGlyphKeptX(Fs, X, M, i, c)
     /\ MustReachX(Fs, X, i, c, ign) =>
          \A s \in NonDfltSystems(Fs[i]) : ExclusiveSys(Fs, i, s) => LoclReachX(Fs, X, M, mc, i, c, s)

(* DisjointShaping: with pairwise disjoint character sets, every text of up to K characters of input i shapes in the
   merged font as in input i alone, under every language system of input i, with every feature tag switched on *)
DisjointX(X) == \A c \in X.all : Cardinality({i \in DOMAIN X.cf : c \in DOMAIN X.cf[i]}) = 1
DisjointShaping(Fs, M, K) ==
  LET X == MCtx(Fs) mc == CmapFn(M) tags == TagsOf(M.L) IN
  DisjointX(X) =>
    \A i \in MIdx(Fs) : \A s \in ProbeSystems(Fs[i]) : \A txt \in TextsOver(DOMAIN X.cf[i], K) :
      LET gi == [k \in 1..Len(txt) |-> X.cf[i][txt[k]]]
          gm == [k \in 1..Len(txt) |-> mc[txt[k]]]
      IN SameShaping(Fs[i], Shape(Fs[i].L, s[1], s[2], tags, 1, "ot", gi), M, Shape(M.L, s[1], s[2], tags, 1, "ot", gm))

-----------------------------------------------------------------------------
(* THE MACHINE: Merger.merge as a sequence of stages over the variables below.  `bug` names a deliberately wrong
   variant of one stage (only MC_Merge's sensitivity run uses bug # "none"). *)
VARIABLES fonts, pc, bug, idf, ign, orders, mcmap, dups, merged
mvars == <<fonts, pc, bug, idf, ign, orders, mcmap, dups, merged>>

Bugs == {"no-rename", "no-fresh-loop", "later-wins", "dup-reversed", "maxp-first", "ctx-not-offset",
         "feature-first-only", "compact-off-by-one"}

ComputeMegaGlyphOrder ==
  /\ pc = "order"
  /\ orders' = MegaOrders(fonts, bug)
  /\ pc' = "cmap"
  /\ UNCHANGED <<fonts, bug, idf, ign, mcmap, dups, merged>>
ComputeMegaCmap ==
  /\ pc = "cmap"
  /\ mcmap' = MegaCmapFn(fonts, bug)
  /\ dups' = [i \in MIdx(fonts) |-> DupMap(fonts, i, ign, idf, bug)]
  /\ pc' = "tables"
  /\ UNCHANGED <<fonts, bug, idf, ign, orders, merged>>
MergeTables ==
  /\ pc = "tables"
  /\ merged' = MergeTablesOf(fonts, orders, bug) @@ [cmap |-> CmapSeq(mcmap)]
  /\ pc' = "layout"
  /\ UNCHANGED <<fonts, bug, idf, ign, orders, mcmap, dups>>
MergeLayout ==
  /\ pc = "layout"
  /\ merged' = merged @@ [L |-> MergeLayoutOf(fonts, dups, merged.adv, bug)]
  /\ pc' = "post"
  /\ UNCHANGED <<fonts, bug, idf, ign, orders, mcmap, dups>>
PostMerge ==
  /\ pc = "post"
  /\ merged' = [merged EXCEPT !.L = PostMergeOf(merged.L, bug)]
  /\ pc' = "done"
  /\ UNCHANGED <<fonts, bug, idf, ign, orders, mcmap, dups>>
MergeNext == ComputeMegaGlyphOrder \/ ComputeMegaCmap \/ MergeTables \/ MergeLayout \/ PostMerge
=============================================================================
