-------------------------------- MODULE Model --------------------------------
(* varLib.models.VariationModel: from master locations to supports (regions), delta
   weights, deltas and interpolation.

   The CONTRACT is stated on (locations, supports, deltas) however they were obtained, so it
   judges the real code's output:
     SupportsAreBoxes  every support is a valid OpenType region around its master
     Triangular        support j is 1 at master j and 0 at every earlier master
     MasterExact       evaluating regions x deltas at master m gives master m's value
     Weights           interpolating from masters = interpolating from getDeltas
   (Triangular is the lemma that makes MasterExact true for the forward substitution
   GetDeltas.)  SortMasters / ModelSupports / GetDeltas / GetMasterScalars below additionally
   transcribe the code's master ordering, box-splitting rule and the two substitutions;
   MC_Model checks that the transcription satisfies the contract for every master set of
   a lattice.  There is no normative rule for HOW the boxes are cut (only that the result
   is a valid region set with the properties above), so a difference between the code and
   ModelSupports that keeps the contract is a refactoring note, not a violation.

   Locations and supports are dense (module VarSem): a location is a sequence of Rat, one
   per axis; supports are sequences of tents.  Master lists are in MODEL order (the order
   of VariationModel.locations) unless stated. *)
EXTENDS VarSem, FiniteSets, TLC

Origin(n) == TLCEval([a \in 1..n |-> RZero])
AxesOf(loc) == {a \in 1..Len(loc) : ~RIsZero(loc[a])}

(* ---- contract -------------------------------------------------------------------------- *)
(* the support of master at `loc`: per axis, peak = the master's coordinate; an axis the master
   does not use does not participate; otherwise the tent is ordered, stays on the master's
   side of 0 and inside the axis range [-1, 1] *)
SupportIsBox(sup, loc) ==
  /\ Len(sup) = Len(loc)
  /\ \A a \in 1..Len(loc) :
       IF RIsZero(loc[a]) THEN TentIgnored(sup[a])
       ELSE /\ sup[a][2] = loc[a]
            /\ RLe(sup[a][1], sup[a][2]) /\ RLe(sup[a][2], sup[a][3])
            /\ (IF RIsPos(loc[a]) THEN ~RIsNeg(sup[a][1]) /\ RLe(sup[a][3], ROne)
                ELSE RLe(RInt(-1), sup[a][1]) /\ ~RIsPos(sup[a][3]))
SupportsAreBoxes(locs, sups) == \A j \in 1..Len(locs) : SupportIsBox(sups[j], locs[j])

(* S[m][j] = scalar of support j at master m: computed once, every clause reads it *)
ScalarMatrix(locs, sups) ==
  TLCEval([m \in 1..Len(locs) |-> TLCEval([j \in 1..Len(sups) |-> RegionScalar(sups[j], locs[m])])])

TriangularM(S) ==
  \A j \in 1..Len(S) : S[j][j] = ROne /\ \A k \in 1..(j - 1) : S[k][j] = RZero
Triangular(locs, sups) == TriangularM(ScalarMatrix(locs, sups))

RegionDeltas(sups, deltas) == TLCEval([j \in 1..Len(sups) |-> <<sups[j], deltas[j]>>])
InterpolateFromDeltas(sups, deltas, loc) == EvalDeltas(RegionDeltas(sups, deltas), loc)
Scalars(sups, loc) == TLCEval([j \in 1..Len(sups) |-> RegionScalar(sups[j], loc)])

(* values[m] is the value of the master at locs[m] (model order) *)
MasterExactM(S, deltas, values) == \A m \in 1..Len(S) : Dot(S[m], deltas) = values[m]
MasterExact(locs, sups, deltas, values) == MasterExactM(ScalarMatrix(locs, sups), deltas, values)

(* ---- transcription: deltaWeights / getDeltas / getMasterScalars ------------------------------
   delta weights: for master i, the scalars of the EARLIER supports at its location, i.e.
   the strictly lower triangle of S (the code stores the non-zero ones) *)
DeltaWeights(S) == TLCEval([i \in 1..Len(S) |-> TLCEval([j \in 1..Len(S) |-> IF j < i THEN S[i][j] ELSE RZero])])

RECURSIVE GetDeltasFrom(_, _, _, _)
GetDeltasFrom(W, values, i, out) ==
  IF i > Len(W) THEN out
  ELSE LET RECURSIVE sub(_, _)
           sub(j, acc) == IF j >= i THEN acc
                          ELSE LET a == IF RIsZero(W[i][j]) THEN acc ELSE RSub(acc, RMul(out[j], W[i][j]))
                               IN sub(j + 1, a)
           out2 == Append(out, sub(1, values[i]))
       IN GetDeltasFrom(W, values, i + 1, out2)
GetDeltas(W, values) == GetDeltasFrom(W, values, 1, <<>>)

(* back-substitution: for i from last to first, out[j] -= out[i] * W[i][j] *)
RECURSIVE MasterScalarsFrom(_, _, _)
MasterScalarsFrom(W, i, out) ==
  IF i = 0 THEN out
  ELSE LET out2 == TLCEval([j \in 1..Len(out) |-> IF j < i /\ ~RIsZero(W[i][j]) THEN RSub(out[j], RMul(out[i], W[i][j]))
                                                    ELSE out[j]])
       IN MasterScalarsFrom(W, i - 1, out2)
GetMasterScalars(W, scalars) == MasterScalarsFrom(W, Len(W), scalars)

(* interpolateFromMasters = interpolateFromDeltas o getDeltas, at the location whose
   support scalars are `scalars` *)
Weights(W, scalars, values) ==
  Dot(GetMasterScalars(W, scalars), values) = Dot(scalars, GetDeltas(W, values))

(* ---- transcription: master order (getMasterLocationsSortKeyFunc with axisOrder = all axes
   in index order) ------------------------------------------------------------------------- *)
(* axisPoints[a]: coordinates of the on-axis masters of axis a, plus 0, if there is any *)
AxisPoints(L, a) ==
  LET on == {l \in L : AxesOf(l) = {a}} IN IF on = {} THEN {} ELSE {RZero} \cup {l[a] : l \in on}
OnPointAxes(L, loc) == {a \in AxesOf(loc) : loc[a] \in AxisPoints(L, a)}
(* lexicographic comparison of two rational tuples (decided within the common prefix) *)
RECURSIVE LexCmp(_, _, _)
LexCmp(s, t, i) == IF i > Len(s) \/ i > Len(t) THEN 0
                   ELSE LET c == RCmp(s[i], t[i]) IN IF c # 0 THEN c ELSE LexCmp(s, t, i + 1)
AxisSeq(loc) == TLCEval([i \in 1..Cardinality(AxesOf(loc)) |->
                   CHOOSE a \in AxesOf(loc) : Cardinality({b \in AxesOf(loc) : b < a}) = i - 1])
(* rank; minus the number of on-point axes; the axes; the signs; the absolute values *)
SortKey(L, l) ==
  LET ax == AxisSeq(l) r == Len(ax) IN
  TLCEval(<<RInt(r), RInt(-Cardinality(OnPointAxes(L, l)))>>
    \o [i \in 1..r |-> RInt(ax[i])]
    \o [i \in 1..r |-> RInt(RSgn(l[ax[i]]))]
    \o [i \in 1..r |-> RAbs(l[ax[i]])])
SetToSeq(S) == LET RECURSIVE f(_)
                   f(T) == IF T = {} THEN <<>> ELSE LET x == CHOOSE x \in T : TRUE  rest == T \ {x} IN <<x>> \o f(rest)
               IN f(S)
SortMasters(L) ==
  LET keyed == TLCEval([l \in L |-> SortKey(L, l)])
  IN SortSeq(SetToSeq(L), LAMBDA x, y : LexCmp(keyed[x], keyed[y], 1) < 0)

(* ---- transcription: _locationsToRegions / _computeMasterSupports ------------------------- *)
InitialRegion(loc) ==
  TLCEval([a \in 1..Len(loc) |-> IF RIsPos(loc[a]) THEN <<RZero, loc[a], ROne>>
                                 ELSE IF RIsNeg(loc[a]) THEN <<RInt(-1), loc[a], RZero>>
                                 ELSE NoTent])
(* previous master (peak coordinates prev) lies in the current box *)
InBox(region, prev, axes) ==
  \A a \in axes : prev[a] = region[a][2] \/ (RLt(region[a][1], prev[a]) /\ RLt(prev[a], region[a][3]))
(* split the box `region` of the master at loc against the earlier master prev: cut every axis
   that attains the largest ratio (val - peak)/(bound - peak) *)
SplitRatio(region, prev, a) ==
  IF RLt(prev[a], region[a][2]) THEN RDiv(RSub(prev[a], region[a][2]), RSub(region[a][1], region[a][2]))
  ELSE RDiv(RSub(prev[a], region[a][2]), RSub(region[a][3], region[a][2]))
SplitBox(region, prev, axes) ==
  LET cand == {a \in axes : prev[a] # region[a][2]}                       \* can split in this direction
      best == {a \in cand : \A b \in cand : RLe(SplitRatio(region, prev, b), SplitRatio(region, prev, a))}
  IN TLCEval([a \in 1..Len(region) |->
        IF a \notin best THEN region[a]
        ELSE IF RLt(prev[a], region[a][2]) THEN <<prev[a], region[a][2], region[a][3]>>   \* case:split-lower
        ELSE <<region[a][1], region[a][2], prev[a]>>])                                    \* case:split-upper
RECURSIVE SupportFrom(_, _, _, _)
SupportFrom(locs, i, k, region) ==
  IF k >= i THEN region
  ELSE LET r2 == IF AxesOf(locs[k]) = AxesOf(locs[i]) /\ InBox(region, locs[k], AxesOf(locs[i]))
                 THEN SplitBox(region, locs[k], AxesOf(locs[i])) ELSE region
       IN SupportFrom(locs, i, k + 1, r2)
ModelSupports(locs) == TLCEval([i \in 1..Len(locs) |-> LET r0 == InitialRegion(locs[i]) IN SupportFrom(locs, i, 1, r0)])

ValidMasterSet(L) == L # {} /\ (\E l \in L : AxesOf(l) = {})
=============================================================================
