------------------------------- MODULE OTLGraph ------------------------------
(* The offset-graph packer of fontTools' OpenType table writer (otBase.OTTableWriter):
   _doneWriting (hash-consing of equal subtables), _gatherTables (linearisation), the position
   assignment of getAllData and the offset emission of getData with its overflow detection.

   A GRAPH is a sequence of node records, node i = G[i] (the writer tree as table.compile leaves it: a
   tree, sharing only arises through Intern):
     data   identity of the node's non-offset bytes (equal data <=> equal bytes between the offsets)
     size   length of the node's own bytes (units in the small model, bytes when judging real runs)
     kids   <<child, width, fieldPos>> in item order; width in {2, 3, 4} bytes, fieldPos = position of
            the offset field inside the node
     ext    the writer of an Extension subtable record (writer.Extension): its subtree is laid out in
            the second ("extension") area and has its own sharing scope
     ds     DontShare: the offsets of this node keep pointing to their own child objects
     cl     sortCoverageLast: the child named "Coverage" is to be placed after all other children
     cov    the node is named "Coverage"

   Everything in this module is a pure operator over (G, root, mode, limits) so that the same text is
   model-checked on small graphs (OTLPack / MC_OTLPack: the packer as a state machine with the actions
   Intern, Gather, Place, Emit), judges the real OTTableWriter on rebuilt graphs (Trace_C06) and computes
   the packing outcome inside the resolution loop (OTLRepack).

   mode "ft"    getAllData():  Intern with one sharing scope per Extension subtree, Gather, Place, Emit
   mode "hbfb"  getAllData(remove_duplicate=False) after getAllDataUsingHarfbuzz has interned with
                shareExtension=True and hb.repack failed (named deviation HBFallbackDeadCopies: a node
                shared across Extension subtrees is gathered once per subtree; every offset uses its
                LAST placement, the earlier copies are dead bytes)                                     *)
EXTENDS Integers, Sequences, FiniteSets, TLC

(* TLCEval forces TLC to evaluate an accumulator before it is passed down a recursion (TLC passes operator
   arguments lazily; without it the folds below are re-evaluated at every use) *)

Rev(s) == [i \in 1..Len(s) |-> s[Len(s) + 1 - i]]
MinOf(S) == CHOOSE x \in S : \A y \in S : x <= y
MaxOf(S) == CHOOSE x \in S : \A y \in S : x >= y

(* limits: lim.l2 / lim.l3 / lim.l4 = largest value a 16 / 24 / 32-bit offset field can hold *)
RealLimits == [l2 |-> 65535, l3 |-> 16777215, l4 |-> 2147483646]   \* TLC integers are 32-bit signed (and Stored adds 1)
Cap(lim, w) == IF w = 2 THEN lim.l2 ELSE IF w = 3 THEN lim.l3 ELSE lim.l4
Fits(lim, w, off) == off >= 0 /\ off <= Cap(lim, w)

Kids0(G) == [n \in 1..Len(G) |-> [i \in 1..Len(G[n].kids) |-> G[n].kids[i][1]]]
Width(G, n, i) == G[n].kids[i][2]
FPos(G, n, i) == G[n].kids[i][3]

(* the unfolding of the graph below n under child pointers K: what the bytes have to denote *)
RECURSIVE Tree(_, _, _)
Tree(G, K, n) == <<G[n].data, G[n].size,
                   [i \in 1..Len(K[n]) |-> <<Width(G, n, i), FPos(G, n, i), Tree(G, K, K[n][i])>>]>>

-----------------------------------------------------------------------------
(* Intern == _doneWriting.  OTTableWriter.__eq__/__hash__ compare the item tuples: the data items and,
   for every offset item, the (already interned) child writer and the offset SIZE.  The dictionary
   `internedTables` is modelled as the sequence T of representatives in insertion order; setdefault
   returns the first representative equal to the child.  Flags (ext, ds, cl, name) are not compared. *)
RECURSIVE DeepEq(_, _, _, _)
DeepEq(G, K, a, b) ==
  \/ a = b
  \/ /\ G[a].data = G[b].data /\ G[a].size = G[b].size       \* equal item tuples have equal lengths
     /\ Len(K[a]) = Len(K[b])
     /\ \A i \in 1..Len(K[a]) : /\ Width(G, a, i) = Width(G, b, i)
                                /\ FPos(G, a, i) = FPos(G, b, i)
                                /\ DeepEq(G, K, K[a][i], K[b][i])
FindRep(G, K, T, c) == LET S == {j \in 1..Len(T) : DeepEq(G, K, T[j], c)} IN IF S = {} THEN 0 ELSE MinOf(S)

RECURSIVE InternNode(_, _, _, _), InternKids(_, _, _, _, _)
InternNode(G, n, st, shareExt) ==
  LET fresh == G[n].ext /\ ~shareExt                     \* "if isExtension and not shareExtension: internedTables = {}"
      r == TLCEval(InternKids(G, n, 1, [T |-> IF fresh THEN <<>> ELSE st.T, K |-> st.K], shareExt))
  IN IF fresh THEN [T |-> st.T, K |-> r.K] ELSE r
InternKids(G, n, i, st, shareExt) ==
  IF i > Len(G[n].kids) THEN st
  ELSE LET c == G[n].kids[i][1]
           s1 == TLCEval(InternNode(G, c, st, shareExt))
           j == FindRep(G, s1.K, s1.T, c)
           s2 == IF G[n].ds THEN s1                       \* "if not dontShare: ... setdefault"
                 ELSE IF j = 0 THEN [T |-> Append(s1.T, c), K |-> s1.K]
                 ELSE [T |-> s1.T, K |-> [s1.K EXCEPT ![n][i] = s1.T[j]]]
       IN InternKids(G, n, i + 1, TLCEval(s2), shareExt)
Intern(G, root, shareExt) == InternNode(G, root, [T |-> <<>>, K |-> Kids0(G)], shareExt).K

-----------------------------------------------------------------------------
(* Gather == _gatherTables.  st = [t |-> tables, e |-> extTables, d |-> done, bad |-> nested Extension].
   Children are visited in REVERSE item order and the node is appended after them (post-order); an
   Extension node continues in the extension list with a fresh `done`; with sortCoverageLast the first
   child named Coverage is gathered before the others (so that it ends up after them).              *)
CovKid(G, K, n) == LET S == {i \in 1..Len(K[n]) : G[K[n][i]].cov} IN IF G[n].cl /\ S # {} THEN MinOf(S) ELSE 0

RECURSIVE Gather(_, _, _, _), GatherKids(_, _, _, _, _)
GatherBody(G, K, n, st) ==
  LET j == CovKid(G, K, n)
      s1 == TLCEval(IF j > 0 /\ K[n][j] \notin st.d THEN Gather(G, K, K[n][j], st) ELSE st)
  IN GatherKids(G, K, n, Len(K[n]), s1)
GatherKids(G, K, n, i, st) ==
  IF i = 0 THEN st
  ELSE LET c == K[n][i]
       IN GatherKids(G, K, n, i - 1, TLCEval(IF c \in st.d THEN st ELSE Gather(G, K, c, st)))
Gather(G, K, n, st) ==
  IF G[n].ext
  THEN LET inner == TLCEval(GatherBody(G, K, n, [t |-> st.e, e |-> <<>>, d |-> {}, bad |-> st.bad \/ st.inext, inext |-> TRUE]))
       IN [t |-> Append(st.t, n), e |-> inner.t, d |-> st.d \cup {n}, bad |-> inner.bad, inext |-> st.inext]
  ELSE LET r == TLCEval(GatherBody(G, K, n, [st EXCEPT !.d = @ \cup {n}]))
       IN [r EXCEPT !.t = Append(@, n)]
GatherAll(G, K, root) == Gather(G, K, root, [t |-> <<>>, e |-> <<>>, d |-> {}, bad |-> FALSE, inext |-> FALSE])

(* Place == the two position loops of getAllData: both lists reversed, one after the other *)
Order(g) == Rev(g.t) \o Rev(g.e)
RECURSIVE SumSizes(_, _, _)
SumSizes(G, order, k) == IF k = 0 THEN 0 ELSE G[order[k]].size + SumSizes(G, order, k - 1)
PosAt(G, order) == [k \in 1..Len(order) |-> SumSizes(G, order, k - 1)]
(* table.pos is assigned once per occurrence: the last one wins *)
PosOf(G, order, at) == [n \in 1..Len(G) |->
   LET S == {k \in 1..Len(order) : order[k] = n} IN IF S = {} THEN -1 ELSE at[MaxOf(S)]]

(* Emit == getData per placed table, in order: the first offset that does not fit its field ends the
   run: a 16-bit field raises OTLOffsetOverflowError with a record naming parent and child, a 24/32-bit
   field fails an assertion.  An emitted field holds off; what a field WOULD hold if the check were
   skipped is off modulo its capacity (Stored), which is how NoSilentWrap is stated.                *)
Off(K, pos, n, i) == pos[K[n][i]] - pos[n]
BadEdges(G, K, order, pos, lim) ==
  UNION {{<<k, i>> : i \in {j \in 1..Len(K[order[k]]) : ~Fits(lim, Width(G, order[k], j), Off(K, pos, order[k], j))}} :
         k \in 1..Len(order)}
FirstBad(B) == CHOOSE x \in B : \A y \in B : x[1] < y[1] \/ (x[1] = y[1] /\ x[2] <= y[2])
Stored(lim, w, off) == off % (Cap(lim, w) + 1)

Pack(G, root, mode, lim) ==
  LET K == TLCEval(Intern(G, root, mode = "hbfb"))
      g == TLCEval(GatherAll(G, K, root))
      order == TLCEval(Order(g))
      at == TLCEval(PosAt(G, order))
      pos == TLCEval(PosOf(G, order, at))
      B == TLCEval(BadEdges(G, K, order, pos, lim))
      fb == FirstBad(B)
  IN [K |-> K, order |-> order, at |-> at, pos |-> pos,
      total |-> SumSizes(G, order, Len(order)),
      res |-> IF g.bad THEN "assert"
              ELSE IF B = {} THEN "ok"
              ELSE IF Width(G, order[fb[1]], fb[2]) = 2 THEN "overflow" ELSE "assert",
      rec |-> IF B = {} THEN <<0, 0>> ELSE <<order[fb[1]], fb[2]>>,        \* <<parent node, child index>>
      out |-> [k \in 1..Len(order) |->
                 [n |-> order[k], at |-> at[k],
                  offs |-> [i \in 1..Len(K[order[k]]) |->
                              Stored(lim, Width(G, order[k], i), Off(K, pos, order[k], i))]]]]

-----------------------------------------------------------------------------
(* Reading an emitted layout back: the tree that the blocks and their stored offsets denote, starting
   at byte position p (fuel bounds the walk: a wrapped offset can create a cycle) *)
BlockAt(out, p) == LET S == {k \in 1..Len(out) : out[k].at = p} IN IF S = {} THEN 0 ELSE MaxOf(S)
RECURSIVE Decode(_, _, _, _)
Decode(G, out, p, fuel) ==
  LET k == BlockAt(out, p) IN
  IF k = 0 THEN <<-1, p, <<>>>>                   \* no block starts at p
  ELSE IF fuel = 0 THEN <<-2, 0, <<>>>>          \* cycle
  ELSE LET n == out[k].n
       IN <<G[n].data, G[n].size,
            [i \in 1..Len(out[k].offs) |-> <<Width(G, n, i), FPos(G, n, i), Decode(G, out, p + out[k].offs[i], fuel - 1)>>]>>

(* ---- the properties of one packing P == Pack(G, root, mode, lim) ---- *)
Live(P) == {k \in 1..Len(P.order) : P.at[k] = P.pos[P.order[k]]}       \* placements that offsets refer to
InternSound(G, root, P) == Tree(G, P.K, root) = Tree(G, Kids0(G), root)
EveryNodePlaced(G, root, P) ==
  LET RECURSIVE Reach(_)
      Reach(n) == {n} \cup UNION {Reach(P.K[n][i]) : i \in 1..Len(P.K[n])}
  IN \A n \in Reach(root) : P.pos[n] >= 0
TopologicalOrder(G, P) ==
  \A k \in 1..Len(P.order) : \A i \in 1..Len(P.K[P.order[k]]) : P.pos[P.K[P.order[k]][i]] > P.at[k]
EdgesResolve(G, root, P) ==
  P.res = "ok" => /\ \A k \in 1..Len(P.order) : \A i \in 1..Len(P.K[P.order[k]]) :
                        Fits([l2 |-> 2147483647, l3 |-> 2147483647, l4 |-> 2147483647], 2, Off(P.K, P.pos, P.order[k], i))
                  /\ Decode(G, P.out, 0, Len(G) + 1) = Tree(G, Kids0(G), root)
NoSilentWrap(G, P) ==
  /\ P.res = "ok" => \A k \in 1..Len(P.order) : \A i \in 1..Len(P.K[P.order[k]]) :
                          P.out[k].offs[i] = Off(P.K, P.pos, P.order[k], i)
  /\ P.res \in {"ok", "overflow", "assert"}
  /\ P.res # "ok" => P.rec # <<0, 0>>

(* the first property that fails for a packing, "ok" if none *)
PackClause(G, root, P) ==
  IF ~InternSound(G, root, P) THEN "InternSound"
  ELSE IF ~EveryNodePlaced(G, root, P) THEN "EveryNodePlaced"
  ELSE IF ~TopologicalOrder(G, P) THEN "TopologicalOrder"
  ELSE IF ~EdgesResolve(G, root, P) THEN "EdgesResolve"
  ELSE IF ~NoSilentWrap(G, P) THEN "NoSilentWrap"
  ELSE "ok"
=============================================================================
