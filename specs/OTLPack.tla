------------------------------- MODULE OTLPack -------------------------------
(* The offset-graph packer as a state machine over one graph: the phases of
   OTTableWriter.getAllData (Intern = _doneWriting, Gather = _gatherTables, Place = the position loops,
   Emit = getData with overflow detection).  The operators are those of OTLGraph; this module adds the
   step-wise run and states the invariants EdgesResolve, TopologicalOrder, InternSound, NoSilentWrap
   (and EveryNodePlaced) on the emitted layout.  Checked exhaustively by MC_OTLPack.            *)
EXTENDS OTLGraph

VARIABLES graph, phase, kidsNow, gath, layout, result
pvars == <<graph, phase, kidsNow, gath, layout, result>>
CONSTANTS PackLimits, PackModes

PInit(G) == /\ graph = G /\ phase = "built" /\ kidsNow = Kids0(G) /\ gath = <<>> /\ layout = <<>> /\ result = <<"none">>
PIntern == /\ phase = "built" /\ phase' = "interned"
           /\ \E m \in PackModes : /\ kidsNow' = Intern(graph, 1, m = "hbfb")
                                   /\ result' = <<"mode", m>>
           /\ UNCHANGED <<graph, gath, layout>>
PGather == /\ phase = "interned" /\ phase' = "gathered"
           /\ gath' = GatherAll(graph, kidsNow, 1)
           /\ UNCHANGED <<graph, kidsNow, layout, result>>
PPlace == /\ phase = "gathered" /\ phase' = "placed"
          /\ layout' = LET o == Order(gath) at == PosAt(graph, o) IN [order |-> o, at |-> at, pos |-> PosOf(graph, o, at)]
          /\ UNCHANGED <<graph, kidsNow, gath, result>>
PEmit == /\ phase = "placed" /\ phase' = "emitted"
         /\ result' = LET P == Pack(graph, 1, result[2], PackLimits) IN <<P.res, P.rec, result[2]>>
         /\ UNCHANGED <<graph, kidsNow, gath, layout>>
PNext == PIntern \/ PGather \/ PPlace \/ PEmit

(* the step-wise run and the one-shot operator agree, and the packing has the four properties
   (one invariant, so that the packing is computed once per state; PackClause names the failing one) *)
PackOf == Pack(graph, 1, result[3], PackLimits)
(* the named invariants, one by one (MC_OTLPack checks their conjunction PackInvariants) *)
InternSoundInv == phase = "emitted" => InternSound(graph, 1, PackOf)
EveryNodePlacedInv == phase = "emitted" => EveryNodePlaced(graph, 1, PackOf)
TopologicalOrderInv == phase = "emitted" => TopologicalOrder(graph, PackOf)
EdgesResolveInv == phase = "emitted" => EdgesResolve(graph, 1, PackOf)
NoSilentWrapInv == phase = "emitted" => NoSilentWrap(graph, PackOf)
PackInvariants ==
  phase = "emitted" =>
    LET P == PackOf
    IN /\ P.K = kidsNow /\ P.order = layout.order /\ P.pos = layout.pos        \* StepwiseAgrees
       /\ PackClause(graph, 1, P) = "ok"
=============================================================================
