------------------------------ MODULE OTLRepack ------------------------------
(* The offset-overflow resolution loop of BaseTTXConverter.compile (otBase.py) with
   tryResolveOverflow, fixLookupOverFlows, fixSubTableOverFlows and the split* functions
   (otTables.py), as a state machine over a STRUCTURAL SUMMARY of a GSUB/GPOS lookup list.

   lookups : Seq(Lookup)        Lookup = [ext |-> promoted to an Extension lookup, st |-> Seq(Sub)]
   Sub = [k   |-> kind: "lig" "alt" "mult" (one item table per covered glyph, Coverage sorted last for
                  lig/alt), "pair1" (PairPos format 1), "sp2" (SinglePos format 2), "pair2" (PairPos
                  format 2, items = Class1Records), "mkb" (MarkBasePos, items = mark classes), "fix"
                  (every type without a split function),
          ds  |-> DontShare on the object fixSubTableOverFlows looks at (the Extension record once promoted),
          dsi |-> DontShare on the wrapped subtable (meaningful only in an Extension lookup),
          it  |-> item ids in the order in which the subtable is compiled,
          nm  |-> (lig/alt/mult) the same ids in the order of sorted(glyph NAMES), which is the order the
                  split functions cut in (named deviation SplitInNameOrder: itemIndex counts in glyph-ID order),
          cm  |-> (pair2) <<glyph, class1>> of every Coverage glyph, (mkb) <<mark glyph, mark class>>]
   An overflow record is [L, S, name, idx] = LookupListIndex, SubTableIndex, itemName, itemIndex as in
   OverflowErrorRecord (0-based; -1 for None, "" for None).

   Named deviations of the code that the specification states explicitly:
     GuardByIdentity   tryResolveOverflow's "same record as last time" test compares OverflowErrorRecord
                       objects, which define no __eq__: it can never fire (SameRecordTwice is never enabled).
     HBAtLeastFT       (assumption) hb.repack succeeds whenever the pure-Python packer would.
   The packing outcome itself comes from OTLGraph!Pack applied to GraphOf(lookups).                  *)
EXTENDS OTLGraph

CONSTANTS ItemSz(_, _),      \* size (units) of item id of a subtable of kind k
          HeadSz(_),         \* own size of a subtable of kind k (pair2 / fix: plus the sizes of its items, which are inline)
          Denote(_),         \* what a lookup list means (OTLSem), for DenotationPreserved
          Limits, HBMode     \* 16-bit limit record; HBMode in {"off", "on"} = which RepackerState compile starts in

None == -1
Min2(a, b) == IF a <= b THEN a ELSE b
Take(s, n) == SubSeq(s, 1, Min2(n, Len(s)))
Drop(s, n) == SubSeq(s, Min2(n, Len(s)) + 1, Len(s))
InsertAt(s, i, x) == SubSeq(s, 1, i) \o <<x>> \o SubSeq(s, i + 1, Len(s))     \* x becomes element i+1
LigLike(k) == k \in {"lig", "alt", "mult"}
ItemTable(k) == IF k = "lig" THEN "LigatureSet" ELSE IF k = "alt" THEN "AlternateSet" ELSE "Sequence"

-----------------------------------------------------------------------------
(* split*: result [ok, crash, old, new]; crash = an exception other than a clean "cannot split" *)
NoSplit(s) == [ok |-> FALSE, crash |-> FALSE, old |-> s, new |-> s]
Crash(s) == [ok |-> FALSE, crash |-> TRUE, old |-> s, new |-> s]
Fresh(s) == [s EXCEPT !.ds = FALSE, !.dsi = FALSE]

(* splitMultipleSubst / splitAlternateSubst / splitLigatureSubst: sorted(mapping.items()) is cut at newLen *)
SplitLigLike(s, rec) ==
  LET n == Len(s.it)
      newLen == IF rec.name \in {"Coverage", "RangeRecord"} THEN n \div 2
                ELSE IF rec.name = ItemTable(s.k) THEN rec.idx - 1
                ELSE -2                                   \* newLen unbound: UnboundLocalError
  IN IF newLen < 0 THEN Crash(s)                          \* (-1: range(-1, n) revisits the last key: KeyError)
     ELSE LET keep == {s.nm[i] : i \in 1..Min2(newLen, n)}
          IN [ok |-> TRUE, crash |-> FALSE,
              old |-> [s EXCEPT !.it = SelectSeq(s.it, LAMBDA x : x \in keep), !.nm = Take(s.nm, newLen)],
              new |-> Fresh([s EXCEPT !.it = SelectSeq(s.it, LAMBDA x : x \notin keep), !.nm = Drop(s.nm, newLen)])]

(* splitPairPos format 1 / splitSinglePos format 2: the Coverage list is cut in halves *)
SplitHalf(s) ==
  IF Len(s.it) <= 1 THEN NoSplit(s)
  ELSE LET oc == Len(s.it) \div 2
       IN [ok |-> TRUE, crash |-> FALSE, old |-> [s EXCEPT !.it = Take(s.it, oc)], new |-> Fresh([s EXCEPT !.it = Drop(s.it, oc)])]

(* splitPairPos format 2: class numbers >= oldCount move and are renumbered v - oldCount (class oldCount
   becomes the new subtable's class 0, expressed through its Coverage); the old half is set DontShare *)
SplitClasses(s, inExt) ==
  IF Len(s.it) <= 1 THEN NoSplit(s)
  ELSE LET oc == Len(s.it) \div 2
           lo == SelectSeq(s.cm, LAMBDA e : e[2] < oc)
           hi == SelectSeq(s.cm, LAMBDA e : e[2] >= oc)
       IN [ok |-> TRUE, crash |-> FALSE,
           old |-> [s EXCEPT !.it = Take(s.it, oc), !.cm = lo, !.ds = IF inExt THEN @ ELSE TRUE, !.dsi = IF inExt THEN TRUE ELSE @],
           new |-> Fresh([s EXCEPT !.it = Drop(s.it, oc), !.cm = [i \in 1..Len(hi) |-> <<hi[i][1], hi[i][2] - oc>>]])]

(* splitMarkBasePos: mark classes >= classCount // 2 move (renumbered), BaseCoverage stays shared *)
SplitMarks(s) ==
  IF Len(s.it) < 2 THEN NoSplit(s)
  ELSE LET oc == Len(s.it) \div 2
           lo == SelectSeq(s.cm, LAMBDA e : e[2] < oc)
           hi == SelectSeq(s.cm, LAMBDA e : e[2] >= oc)
       IN [ok |-> TRUE, crash |-> FALSE,
           old |-> [s EXCEPT !.it = Take(s.it, oc), !.cm = lo],
           new |-> Fresh([s EXCEPT !.it = Drop(s.it, oc), !.cm = [i \in 1..Len(hi) |-> <<hi[i][1], hi[i][2] - oc>>]])]

Split(s, rec, inExt) ==
  IF LigLike(s.k) THEN SplitLigLike(s, rec)
  ELSE IF s.k \in {"pair1", "sp2"} THEN SplitHalf(s)
  ELSE IF s.k = "pair2" THEN SplitClasses(s, inExt)
  ELSE IF s.k = "mkb" THEN SplitMarks(s)
  ELSE NoSplit(s)                                        \* splitTable has no entry: "Don't know how to split"

-----------------------------------------------------------------------------
(* results of the fix* functions: [ok, crash, lk (the lookup list afterwards), how] *)
Res(ok, crash, lk, how) == [ok |-> ok, crash |-> crash, lk |-> lk, how |-> how]
ValidSite(lk, rec) == /\ rec.L >= 0 /\ rec.L < Len(lk)
                      /\ rec.S = None \/ (rec.S >= 0 /\ rec.S < Len(lk[rec.L + 1].st))

(* fixSubTableOverFlows *)
FixSub(lk, rec) ==
  IF ~ValidSite(lk, rec) \/ rec.S = None THEN Res(FALSE, TRUE, lk, "crash")
  ELSE LET L == rec.L + 1
           S == rec.S + 1
           s == lk[L].st[S]
       IN IF ~s.ds THEN Res(TRUE, FALSE, [lk EXCEPT ![L].st[S].ds = TRUE], "dontshare")
          ELSE LET r == Split(s, rec, lk[L].ext)
               IN IF r.crash THEN Res(FALSE, TRUE, lk, "crash")
                  ELSE IF ~r.ok THEN Res(FALSE, FALSE, lk, "nosplit")
                  ELSE Res(TRUE, FALSE, [lk EXCEPT ![L].st = InsertAt([@ EXCEPT ![S] = r.old], S, r.new)], "split")

(* fixLookupOverFlows: promote the lookup of the record (the PREVIOUS one for a LookupList offset), or the
   nearest earlier lookup that is not yet an Extension lookup, and every lookup after it *)
RECURSIVE FirstNonExt(_, _)
FirstNonExt(lk, i) == IF i < 1 THEN 0 ELSE IF lk[i].ext THEN FirstNonExt(lk, i - 1) ELSE i
Promote(l) == [ext |-> TRUE, st |-> [j \in 1..Len(l.st) |-> [l.st[j] EXCEPT !.dsi = l.st[j].ds, !.ds = FALSE]]]
FixLookup(lk, rec) ==
  IF rec.L = None \/ rec.L >= Len(lk) THEN Res(FALSE, TRUE, lk, "crash")
  ELSE LET start == (IF rec.S = None THEN rec.L - 1 ELSE rec.L) + 1          \* 1-based
           from == FirstNonExt(lk, start)
       IN IF start < 1 \/ from = 0 THEN Res(FALSE, FALSE, lk, "nopromote")
          ELSE LET new == [j \in 1..Len(lk) |-> IF j >= from /\ ~lk[j].ext THEN Promote(lk[j]) ELSE lk[j]]
                   any == \E j \in from..Len(lk) : ~lk[j].ext /\ Len(lk[j].st) > 0
               IN Res(any, FALSE, new, "promote")

(* tryResolveOverflow (after the GuardByIdentity test, which never fires) *)
TryResolve(lk, rec) ==
  LET r1 == IF rec.name = "" THEN FixLookup(lk, rec) ELSE FixSub(lk, rec)
  IN IF r1.ok \/ r1.crash THEN r1 ELSE FixLookup(lk, rec)

(* well-founded measure: <<lookups not yet promoted, 2 * splittable surplus + subtables without DontShare>>,
   compared lexicographically; every successful resolution has to decrease it *)
RECURSIVE SumSeq(_, _)
SumSeq(f, n) == IF n = 0 THEN 0 ELSE f[n] + SumSeq(f, n - 1)
Surplus(s) == IF s.k = "fix" \/ Len(s.it) = 0 THEN 0 ELSE Len(s.it) - 1
SubMeasure(l) == SumSeq([j \in 1..Len(l.st) |-> 2 * Surplus(l.st[j]) + (IF l.st[j].ds THEN 0 ELSE 1)], Len(l.st))
Measure(lk) == <<SumSeq([i \in 1..Len(lk) |-> IF lk[i].ext THEN 0 ELSE 1], Len(lk)),
                 SumSeq([i \in 1..Len(lk) |-> SubMeasure(lk[i])], Len(lk))>>
Less(a, b) == a[1] < b[1] \/ (a[1] = b[1] /\ a[2] < b[2])

-----------------------------------------------------------------------------
(* GraphOf: the writer tree of a lookup list (sizes from ItemSz / HeadSz), with the role of every node so
   that the first overflowing edge can be reported as an OverflowErrorRecord.
   acc = [g |-> nodes, r |-> roles]; a role is [t, L, S, name, idx] *)
Nd(d, s, kids, ext, ds, cl, cov) == [data |-> d, size |-> s, kids |-> kids, ext |-> ext, ds |-> ds, cl |-> cl, cov |-> cov]
Role(t, L, S, name, idx) == [t |-> t, L |-> L, S |-> S, name |-> name, idx |-> idx]
RECURSIVE Pow2Sum(_, _)
Pow2Sum(s, i) == IF i > Len(s) THEN 0 ELSE 2 ^ s[i] + Pow2Sum(s, i + 1)
RECURSIVE CmCode(_, _)
CmCode(cm, i) == IF i > Len(cm) THEN 0 ELSE (cm[i][2] + 1) * (4 ^ cm[i][1]) + CmCode(cm, i + 1)
KindCode(k) == CASE k = "lig" -> 1 [] k = "alt" -> 2 [] k = "mult" -> 3 [] k = "pair1" -> 4 [] k = "sp2" -> 5
                 [] k = "pair2" -> 6 [] k = "mkb" -> 7 [] OTHER -> 8
Leaf(acc, node, role) == TLCEval([g |-> Append(acc.g, node), r |-> Append(acc.r, role)])
Edges(first, n, w) == [i \in 1..n |-> <<first + i - 1, w, 4 + w * (i - 1)>>]

AddSub(acc, L, S, s, inExt) ==
  LET base == Len(acc.g)
      own == IF inExt THEN s.dsi ELSE s.ds
      kc == KindCode(s.k)
      covGlyphs == IF s.k \in {"pair2", "mkb"} THEN [i \in 1..Len(s.cm) |-> s.cm[i][1]] ELSE s.it
      cov == Nd(10000 + Pow2Sum(covGlyphs, 1), 1, <<>>, FALSE, FALSE, FALSE, TRUE)
      a1 == Leaf(acc, cov, Role("item", L, S, IF s.k = "mkb" THEN "MarkCoverage" ELSE "Coverage", None))
      a2 == IF s.k = "pair2"
            THEN Leaf(Leaf(a1, Nd(30000 + CmCode(s.cm, 1), 1, <<>>, FALSE, FALSE, FALSE, FALSE), Role("item", L, S, "ClassDef1", None)),
                      Nd(35000, 1, <<>>, FALSE, FALSE, FALSE, FALSE), Role("item", L, S, "ClassDef2", None))
            ELSE IF s.k = "mkb"
            THEN Leaf(Leaf(Leaf(a1, Nd(10001, 1, <<>>, FALSE, FALSE, FALSE, TRUE), Role("item", L, S, "BaseCoverage", None)),
                           Nd(40000 + CmCode(s.cm, 1), 1, <<>>, FALSE, FALSE, FALSE, FALSE), Role("item", L, S, "MarkArray", None)),
                      Nd(45000 + Pow2Sum(s.it, 1), SumSeq([i \in 1..Len(s.it) |-> ItemSz(s.k, s.it[i])], Len(s.it)), <<>>, FALSE, FALSE, FALSE, FALSE),
                      Role("item", L, S, "BaseArray", None))
            ELSE IF s.k = "fix" THEN a1
            ELSE LET RECURSIVE Items(_, _)
                     Items(a, i) == IF i > Len(s.it) THEN a
                                    ELSE Items(Leaf(a, Nd(20000 + 100 * kc + s.it[i], ItemSz(s.k, s.it[i]), <<>>, FALSE, FALSE, FALSE, FALSE),
                                                    Role("item", L, S, IF LigLike(s.k) THEN ItemTable(s.k) ELSE IF s.k = "pair1" THEN "PairSet" ELSE "Value", i - 1)), i + 1)
                 IN Items(a1, 1)
      nk == Len(a2.g) - base
      size == HeadSz(s.k) + (IF s.k \in {"pair2", "fix"} THEN SumSeq([i \in 1..Len(s.it) |-> ItemSz(s.k, s.it[i])], Len(s.it)) ELSE 0)
      sub == Nd(50000 + 1000 * L + 10 * S, size, Edges(base + 1, nk, 2), FALSE, own, s.k \in {"lig", "alt"}, FALSE)
      a3 == Leaf(a2, sub, Role("sub", L, S, "SubTable", S))
  IN IF inExt
     THEN Leaf(a3, Nd(60000 + kc, 1, <<<<Len(a3.g), 4, 4>>>>, TRUE, s.ds, FALSE, FALSE), Role("ext", L, S, "SubTable", S))
     ELSE a3

RECURSIVE AddSubs(_, _, _, _, _)
AddSubs(acc, L, l, j, tops) ==
  IF j > Len(l.st) THEN [acc |-> acc, tops |-> tops]
  ELSE LET a == TLCEval(AddSub(acc, L, j - 1, l.st[j], l.ext)) IN AddSubs(a, L, l, j + 1, Append(tops, Len(a.g)))
RECURSIVE AddLookups(_, _, _, _)
AddLookups(acc, lk, i, tops) ==
  IF i > Len(lk) THEN [acc |-> acc, tops |-> tops]
  ELSE LET r == TLCEval(AddSubs(acc, i - 1, lk[i], 1, <<>>))
           node == Nd(70000 + i, 1, [j \in 1..Len(r.tops) |-> <<r.tops[j], 2, 4 + 2 * (j - 1)>>], FALSE, FALSE, FALSE, FALSE)
           a == Leaf(r.acc, node, Role("lk", i - 1, None, "Lookup", i - 1))
       IN AddLookups(a, lk, i + 1, Append(tops, Len(a.g)))
GraphOf(lk) ==
  LET r == TLCEval(AddLookups([g |-> <<>>, r |-> <<>>], lk, 1, <<>>))
      ll == Nd(80000, 1, [j \in 1..Len(r.tops) |-> <<r.tops[j], 2, 4 + 2 * (j - 1)>>], FALSE, FALSE, FALSE, FALSE)
      a == Leaf(r.acc, ll, Role("ll", None, None, "LookupList", None))
      root == Nd(90000, 1, <<<<Len(a.g), 2, 4>>>>, FALSE, TRUE, FALSE, FALSE)      \* GSUB/GPOS: DontShare
  IN Leaf(a, root, Role("root", None, None, "", None))

(* getOverflowErrorRecord for the edge <<parent node, child index>> *)
RecordOf(W, P) ==
  LET p == P.rec[1]
      c == P.K[p][P.rec[2]]
      rp == W.r[p]
      rc == W.r[c]
  IN IF rp.t = "ll" THEN [L |-> rc.L, S |-> None, name |-> "", idx |-> None]
     ELSE IF rp.t = "lk" THEN [L |-> rp.L, S |-> rc.S, name |-> "", idx |-> None]
     ELSE IF rp.t \in {"sub", "ext"} THEN [L |-> rp.L, S |-> rp.S, name |-> rc.name, idx |-> rc.idx]
     ELSE [L |-> None, S |-> None, name |-> rc.name, idx |-> None]
PackLookups(lk, mode) ==
  LET W == TLCEval(GraphOf(lk))
      P == TLCEval(Pack(W.g, Len(W.g), mode, Limits))
  IN [res |-> P.res, rec |-> IF P.res = "overflow" THEN RecordOf(W, P) ELSE [L |-> None, S |-> None, name |-> "", idx |-> None],
      clause |-> IF P.res = "ok" THEN PackClause(W.g, Len(W.g), P) ELSE "ok"]

-----------------------------------------------------------------------------
(* The loop.  pc: "attempt" -> ("overflowed" -> "attempt")* -> "done";  outcome: "none" "return" "raise" "crash" *)
VARIABLES lookups, rstate, pc, cur, last, outcome, hbfailed,
          attempts          \* number of passes through the try block so far
rvars == <<lookups, rstate, pc, cur, last, outcome, hbfailed, attempts>>
NoRec == [L |-> None, S |-> None, name |-> "", idx |-> None]

RInit(lk) == /\ lookups = lk /\ rstate = (IF HBMode = "on" THEN "HB_FT" ELSE "PURE_FT")
             /\ pc = "attempt" /\ cur = NoRec /\ last = NoRec /\ outcome = "none" /\ hbfailed = FALSE /\ attempts = 0

(* one pass through the try block.  In HB_FT the repacker is a black box: it may succeed (Return) or fail,
   in which case the table interned with cross-extension sharing is packed by getAllData (mode "hbfb");
   HBAtLeastFT: it does not fail when the pure-Python packing succeeds. *)
AttemptFT ==
  /\ pc = "attempt" /\ rstate \in {"PURE_FT", "FT_FALLBACK"}
  /\ LET p == PackLookups(lookups, "ft") IN
       IF p.res = "ok"
       THEN IF rstate = "PURE_FT"
            THEN /\ pc' = "done" /\ outcome' = (IF p.clause = "ok" THEN "return" ELSE "return-invalid") /\ UNCHANGED <<rstate, cur>>
            ELSE /\ rstate' = "HB_FT" /\ UNCHANGED <<pc, outcome, cur>>                   \* BackToHB
       ELSE IF p.res = "overflow" THEN /\ pc' = "overflowed" /\ cur' = p.rec /\ UNCHANGED <<rstate, outcome>>
       ELSE /\ pc' = "done" /\ outcome' = "crash" /\ UNCHANGED <<rstate, cur>>
  /\ attempts' = attempts + 1
  /\ UNCHANGED <<lookups, last, hbfailed>>
AttemptHB ==
  /\ pc = "attempt" /\ rstate = "HB_FT"
  /\ \/ /\ pc' = "done" /\ outcome' = "return" /\ UNCHANGED <<cur, hbfailed>>               \* hb.repack succeeded
     \/ /\ PackLookups(lookups, "ft").res # "ok"                                             \* HBAtLeastFT
        /\ hbfailed' = TRUE
        /\ LET p == PackLookups(lookups, "hbfb") IN
             IF p.res = "ok" THEN /\ pc' = "done" /\ outcome' = (IF p.clause = "ok" THEN "return" ELSE "return-invalid") /\ UNCHANGED cur
             ELSE IF p.res = "overflow" THEN /\ pc' = "overflowed" /\ cur' = p.rec /\ UNCHANGED outcome
             ELSE /\ pc' = "done" /\ outcome' = "crash" /\ UNCHANGED cur
  /\ attempts' = attempts + 1
  /\ UNCHANGED <<lookups, last, rstate>>

(* the except block: tryResolveOverflow, then continue / fall back / re-raise *)
SameRecordTwice == FALSE                                   \* GuardByIdentity
Resolve ==
  /\ pc = "overflowed"
  /\ LET r == TryResolve(lookups, cur) IN
       /\ last' = cur
       /\ IF r.crash THEN /\ pc' = "done" /\ outcome' = "crash" /\ UNCHANGED <<lookups, rstate>>
          ELSE IF r.ok THEN /\ lookups' = r.lk /\ pc' = "attempt" /\ UNCHANGED <<rstate, outcome>>
          ELSE IF rstate = "HB_FT" THEN /\ rstate' = "FT_FALLBACK" /\ pc' = "attempt" /\ UNCHANGED <<lookups, outcome>>   \* FallBackToFT
          ELSE /\ pc' = "done" /\ outcome' = "raise" /\ UNCHANGED <<lookups, rstate>>                                    \* Raise
  /\ UNCHANGED <<cur, hbfailed, attempts>>
Done == pc = "done" /\ UNCHANGED rvars                   \* compile has returned or raised
RNext == AttemptFT \/ AttemptHB \/ Resolve \/ Done

(* ---- properties ---- *)
DenotationPreserved == [][lookups' # lookups => Denote(lookups') = Denote(lookups)]_rvars
Progress == [][(pc = "overflowed" /\ lookups' # lookups) => Less(Measure(lookups'), Measure(lookups))]_rvars
ReturnImpliesValid == outcome # "return-invalid"
RaiseOnlyWhenStuck ==
  outcome = "raise" => /\ rstate # "HB_FT"
                       /\ ~TryResolve(lookups, cur).ok
                       /\ PackLookups(lookups, "ft").res = "overflow"
NoCrash == outcome # "crash"
Terminates == <>(pc = "done")
(* safety form used for model checking (no fairness needed): the loop is never blocked before it is done
   (deadlock check) and it is done within B passes *)
TerminatesWithin(B) == attempts <= B
=============================================================================
