------------------------------ MODULE OTLRepack ------------------------------
(* The offset-overflow resolution loop of BaseTTXConverter.compile (otBase.py) as a state machine over
   the structural summary of a lookup list (OTLResolve): RepackerState PURE_FT / HB_FT / FT_FALLBACK,
   Attempt, Overflow(record), resolution by DontShare / subtable split / extension promotion, fallback,
   Return / Raise.  The packing outcome of an attempt comes from OTLGraph!Pack applied to GraphOf(lookups)
   (model checking) or from the recorded run (trace validation: the *With actions take it as argument).

   Named deviations of the code that the specification states explicitly:
     GuardByIdentity   tryResolveOverflow's "same record as last time" test compares OverflowErrorRecord
                       objects, which define no __eq__: it can never fire (SameRecordTwice is never enabled).
     HBAtLeastFT       (assumption) hb.repack succeeds whenever the pure-Python packer would.            *)
EXTENDS OTLGraph, OTLResolve

CONSTANTS ItemSz(_, _),      \* size (units) of item id of a subtable of kind k
          HeadSz(_),         \* own size of a subtable of kind k (pair2 / fix / sp2: plus the sizes of its inline items)
          Denote(_),         \* what a lookup list means (OTLSem), for DenotationPreserved
          Limits             \* offset limits record

-----------------------------------------------------------------------------
(* GraphOf: the writer tree of a lookup list (sizes from ItemSz / HeadSz), with the role of every node so
   that the first overflowing edge can be reported as an OverflowErrorRecord.
   acc = [g |-> nodes, r |-> roles]; a role is [t, L, S, name, idx] *)
Nd(d, s, kids, ext, ds, cl, cov) == [data |-> d, size |-> s, kids |-> kids, ext |-> ext, ds |-> ds, cl |-> cl, cov |-> cov]
Role(t, L, S, name, idx) == [t |-> t, L |-> L, S |-> S, name |-> name, idx |-> idx]
RECURSIVE Pow2Sum(_, _)
Pow2Sum(s, i) == IF i > Len(s) THEN 0 ELSE 2 ^ s[i] + Pow2Sum(s, i + 1)
RECURSIVE CmCode(_, _)
CmCode(cm, i) == IF i > Len(cm) THEN 0 ELSE (cm[i][2] + 1) * (4 ^ cm[i][1]) + CmCode(cm, i + 1)
KindCode(k) == CASE k = "lig" -> 1 [] k = "alt" -> 2 [] k = "mult" -> 3 [] k = "pair1" -> 4 [] k = "sp2" -> 5
                 [] k = "pair2" -> 6 [] k = "mkb" -> 7 [] OTHER -> 8
Leaf(acc, node, role) == TLCEval([g |-> Append(acc.g, node), r |-> Append(acc.r, role)])
Edges(first, n, w) == [i \in 1..n |-> <<first + i - 1, w, 4 + w * (i - 1)>>]

AddSub(acc, L, S, s, inExt) ==
  LET base == Len(acc.g)
      own == IF inExt THEN s.dsi ELSE s.ds
      kc == KindCode(s.k)
      covGlyphs == IF s.k \in {"pair2", "mkb"} THEN [i \in 1..Len(s.cm) |-> s.cm[i][1]] ELSE s.it
      cov == Nd(10000 + Pow2Sum(covGlyphs, 1), 1, <<>>, FALSE, FALSE, FALSE, TRUE)
      a1 == Leaf(acc, cov, Role("item", L, S, IF s.k = "mkb" THEN "MarkCoverage" ELSE "Coverage", None))
      RECURSIVE Items(_, _, _, _)
      Items(a, i, code, name) ==
        IF i > Len(s.it) THEN a
        ELSE Items(Leaf(a, Nd(code + s.it[i], ItemSz(s.k, s.it[i]), <<>>, FALSE, FALSE, FALSE, FALSE), Role("item", L, S, name, i - 1)), i + 1, code, name)
      (* a2 = all nodes below the subtable; direct = the subtable's children in item order *)
      a2 == IF s.k = "pair2"
            THEN Leaf(Leaf(a1, Nd(30000 + CmCode(s.cm, 1), 1, <<>>, FALSE, FALSE, FALSE, FALSE), Role("item", L, S, "ClassDef1", None)),
                      Nd(35000, 1, <<>>, FALSE, FALSE, FALSE, FALSE), Role("item", L, S, "ClassDef2", None))
            ELSE IF s.k = "mkb"
            THEN LET b1 == Leaf(Leaf(a1, Nd(10001, 1, <<>>, FALSE, FALSE, FALSE, TRUE), Role("item", L, S, "BaseCoverage", None)),
                                Nd(40000 + CmCode(s.cm, 1), 1, <<>>, FALSE, FALSE, FALSE, FALSE), Role("item", L, S, "MarkArray", None))
                     b2 == Items(b1, 1, 46000, "BaseAnchor")                        \* one block of anchors per mark class
                 IN Leaf(b2, Nd(45000 + Pow2Sum(s.it, 1), 1, Edges(Len(b1.g) + 1, Len(s.it), 2), FALSE, FALSE, FALSE, FALSE),
                         Role("item", L, S, "BaseArray", None))
            ELSE IF s.k \in {"fix", "sp2"} THEN a1                               \* records are inline: only the Coverage
            ELSE Items(a1, 1, 20000 + 100 * kc,
                       IF LigLike(s.k) THEN ItemTable(s.k) ELSE "PairSet")
      direct == IF s.k = "mkb" THEN <<base + 1, base + 2, base + 3, Len(a2.g)>>
                ELSE [i \in 1..(Len(a2.g) - base) |-> base + i]
      size == HeadSz(s.k) + (IF s.k \in {"pair2", "fix", "sp2"} THEN SumSeq([i \in 1..Len(s.it) |-> ItemSz(s.k, s.it[i])], Len(s.it)) ELSE 0)
      sub == Nd(50000 + 1000 * L + 10 * S, size, [i \in 1..Len(direct) |-> <<direct[i], 2, 4 + 2 * (i - 1)>>], FALSE, own, s.k \in {"lig", "alt"}, FALSE)
      a3 == Leaf(a2, sub, Role("sub", L, S, "SubTable", S))
  IN IF inExt
     THEN Leaf(a3, Nd(60000 + kc, 1, <<<<Len(a3.g), 4, 4>>>>, TRUE, s.ds, FALSE, FALSE), Role("ext", L, S, "SubTable", S))
     ELSE a3

RECURSIVE AddSubs(_, _, _, _, _)
AddSubs(acc, L, l, j, tops) ==
  IF j > Len(l.st) THEN [acc |-> acc, tops |-> tops]
  ELSE LET a == TLCEval(AddSub(acc, L, j - 1, l.st[j], l.ext)) IN AddSubs(a, L, l, j + 1, Append(tops, Len(a.g)))
RECURSIVE AddLookups(_, _, _, _)
AddLookups(acc, lk, i, tops) ==
  IF i > Len(lk) THEN [acc |-> acc, tops |-> tops]
  ELSE LET r == TLCEval(AddSubs(acc, i - 1, lk[i], 1, <<>>))
           node == Nd(70000 + i, 1, [j \in 1..Len(r.tops) |-> <<r.tops[j], 2, 4 + 2 * (j - 1)>>], FALSE, FALSE, FALSE, FALSE)
           a == Leaf(r.acc, node, Role("lk", i - 1, None, "Lookup", i - 1))
       IN AddLookups(a, lk, i + 1, Append(tops, Len(a.g)))
GraphOf(lk) ==
  LET r == TLCEval(AddLookups([g |-> <<>>, r |-> <<>>], lk, 1, <<>>))
      ll == Nd(80000, 1, [j \in 1..Len(r.tops) |-> <<r.tops[j], 2, 4 + 2 * (j - 1)>>], FALSE, FALSE, FALSE, FALSE)
      a == Leaf(r.acc, ll, Role("ll", None, None, "LookupList", None))
      root == Nd(90000, 1, <<<<Len(a.g), 2, 4>>>>, FALSE, TRUE, FALSE, FALSE)      \* GSUB/GPOS: DontShare
  IN Leaf(a, root, Role("root", None, None, "", None))

(* getOverflowErrorRecord for the edge <<parent node, child index>> *)
RecordOf(W, P) ==
  LET p == P.rec[1]
      c == P.K[p][P.rec[2]]
      rp == W.r[p]
      rc == W.r[c]
  IN IF rp.t = "ll" THEN [L |-> rc.L, S |-> None, name |-> "", idx |-> None]
     ELSE IF rp.t = "lk" THEN [L |-> rp.L, S |-> rc.S, name |-> "", idx |-> None]
     ELSE IF rp.t \in {"sub", "ext"} THEN [L |-> rp.L, S |-> rp.S, name |-> rc.name, idx |-> rc.idx]
     ELSE IF rp.t = "item" THEN [L |-> rp.L, S |-> rp.S, name |-> rp.name \o "." \o rc.name, idx |-> rc.idx]   \* below the subtable level
     ELSE [L |-> None, S |-> None, name |-> rc.name, idx |-> None]
PackLookups(lk, mode) ==
  LET W == TLCEval(GraphOf(lk))
      P == TLCEval(Pack(W.g, Len(W.g), mode, Limits))
  IN [res |-> P.res, rec |-> IF P.res = "overflow" THEN RecordOf(W, P) ELSE [L |-> None, S |-> None, name |-> "", idx |-> None],
      clause |-> IF P.res = "ok" THEN PackClause(W.g, Len(W.g), P) ELSE "ok"]

-----------------------------------------------------------------------------
(* The loop.  pc: "attempt" -> ("overflowed" -> "attempt")* -> "done";  outcome: "none" "return" "raise" "crash" *)
VARIABLES lookups, rstate, pc, cur, last, outcome, hbfailed,
          attempts          \* number of passes through the try block so far
rvars == <<lookups, rstate, pc, cur, last, outcome, hbfailed, attempts>>
NoRec == [L |-> None, S |-> None, name |-> "", idx |-> None]

(* hbOn: USE_HARFBUZZ_REPACKER in {None, True} with uharfbuzz importable, for GSUB / GPOS *)
RInit(lk, hbOn) == /\ lookups = lk /\ rstate = (IF hbOn THEN "HB_FT" ELSE "PURE_FT")
                   /\ pc = "attempt" /\ cur = NoRec /\ last = NoRec /\ outcome = "none" /\ hbfailed = FALSE /\ attempts = 0

(* one pass through the try block with packing outcome p = [res, rec, clause] *)
AttemptFTWith(p) ==
  /\ pc = "attempt" /\ rstate \in {"PURE_FT", "FT_FALLBACK"}
  /\ IF p.res = "ok"
     THEN IF rstate = "PURE_FT"
          THEN /\ pc' = "done" /\ outcome' = (IF p.clause = "ok" THEN "return" ELSE "return-invalid") /\ UNCHANGED <<rstate, cur>>   \* Return
          ELSE /\ rstate' = "HB_FT" /\ UNCHANGED <<pc, outcome, cur>>                                                           \* BackToHB
     ELSE IF p.res = "overflow" THEN /\ pc' = "overflowed" /\ cur' = p.rec /\ UNCHANGED <<rstate, outcome>>                      \* Overflow(rec)
     ELSE /\ pc' = "done" /\ outcome' = "crash" /\ UNCHANGED <<rstate, cur>>
  /\ attempts' = attempts + 1
  /\ UNCHANGED <<lookups, last, hbfailed>>
(* In HB_FT the repacker is a black box: it succeeds (Return), or it fails and the table, interned with
   cross-extension sharing, is packed by getAllData(remove_duplicate=False) with outcome p (mode "hbfb") *)
AttemptHBWith(failed, p) ==
  /\ pc = "attempt" /\ rstate = "HB_FT"
  /\ IF ~failed THEN /\ pc' = "done" /\ outcome' = "return" /\ UNCHANGED <<cur, hbfailed>>
     ELSE /\ hbfailed' = TRUE
          /\ IF p.res = "ok" THEN /\ pc' = "done" /\ outcome' = (IF p.clause = "ok" THEN "return" ELSE "return-invalid") /\ UNCHANGED cur
             ELSE IF p.res = "overflow" THEN /\ pc' = "overflowed" /\ cur' = p.rec /\ UNCHANGED outcome
             ELSE /\ pc' = "done" /\ outcome' = "crash" /\ UNCHANGED cur
  /\ attempts' = attempts + 1
  /\ UNCHANGED <<lookups, last, rstate>>

AttemptFT == AttemptFTWith(PackLookups(lookups, "ft"))
AttemptHB == \/ AttemptHBWith(FALSE, [res |-> "ok", rec |-> NoRec, clause |-> "ok"])
             \/ /\ PackLookups(lookups, "ft").res # "ok"                                   \* HBAtLeastFT
                /\ AttemptHBWith(TRUE, PackLookups(lookups, "hbfb"))

(* the except block: tryResolveOverflow, then continue / fall back / re-raise *)
SameRecordTwice == FALSE                                   \* GuardByIdentity
Resolve ==
  /\ pc = "overflowed"
  /\ LET r == TryResolve(lookups, cur) IN
       /\ last' = cur
       /\ IF r.crash THEN /\ pc' = "done" /\ outcome' = "crash" /\ UNCHANGED <<lookups, rstate>>
          ELSE IF r.ok THEN /\ lookups' = r.lk /\ pc' = "attempt" /\ UNCHANGED <<rstate, outcome>>
          ELSE IF rstate = "HB_FT" THEN /\ rstate' = "FT_FALLBACK" /\ pc' = "attempt" /\ UNCHANGED <<lookups, outcome>>   \* FallBackToFT
          ELSE /\ pc' = "done" /\ outcome' = "raise" /\ UNCHANGED <<lookups, rstate>>                                    \* Raise
  /\ UNCHANGED <<cur, hbfailed, attempts>>
Done == pc = "done" /\ UNCHANGED rvars                   \* compile has returned or raised
RNext == AttemptFT \/ AttemptHB \/ Resolve \/ Done

(* ---- properties ---- *)
DenotationPreserved == [][lookups' # lookups => Denote(lookups') = Denote(lookups)]_rvars
Progress == [][(pc = "overflowed" /\ lookups' # lookups) => Less(Measure(lookups'), Measure(lookups))]_rvars
ReturnImpliesValid == outcome # "return-invalid"
RaiseOnlyWhenStuck ==
  outcome = "raise" => /\ rstate # "HB_FT"
                       /\ ~TryResolve(lookups, cur).ok
                       /\ PackLookups(lookups, "ft").res = "overflow"
NoCrash == outcome # "crash"
Terminates == <>(pc = "done")
(* safety form used for model checking (no fairness needed): the loop is never blocked before it is done
   (deadlock check) and it is done within B passes *)
TerminatesWithin(B) == attempts <= B
=============================================================================
