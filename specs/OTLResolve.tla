------------------------------ MODULE OTLResolve -----------------------------
(* The overflow resolutions of fontTools (otTables.py: fixLookupOverFlows, fixSubTableOverFlows, split*;
   otBase.py: tryResolveOverflow) as pure operators over a STRUCTURAL SUMMARY of a GSUB/GPOS lookup list.

   lookups : Seq(Lookup)        Lookup = [ext |-> promoted to an Extension lookup, st |-> Seq(Sub)]
   Sub = [k   |-> kind: "lig" "alt" "mult" (one item table per covered glyph, Coverage sorted last for
                  lig/alt), "pair1" (PairPos format 1), "sp2" (SinglePos format 2), "pair2" (PairPos
                  format 2, items = Class1Records), "mkb" (MarkBasePos, items = mark classes), "fix"
                  (every type without a split function),
          ds  |-> DontShare on the object fixSubTableOverFlows looks at (the Extension record once promoted),
          dsi |-> DontShare on the wrapped subtable (meaningful only in an Extension lookup),
          it  |-> item ids in the order in which the subtable is compiled,
          nm  |-> (lig/alt/mult) the same ids in the order of sorted(glyph NAMES), which is the order the
                  split functions cut in (named deviation SplitInNameOrder: itemIndex counts in glyph-ID order),
          cm  |-> (pair2) <<glyph, class1>> of every Coverage glyph, (mkb) <<mark glyph, mark class>>]
   An overflow record is [L, S, name, idx] = LookupListIndex, SubTableIndex, itemName, itemIndex as in
   OverflowErrorRecord (0-based; -1 for None, "" for None).                                          *)
EXTENDS Integers, Sequences, FiniteSets

None == -1
Min2(a, b) == IF a <= b THEN a ELSE b
Take(s, n) == SubSeq(s, 1, Min2(n, Len(s)))
Drop(s, n) == SubSeq(s, Min2(n, Len(s)) + 1, Len(s))
InsertAt(s, i, x) == SubSeq(s, 1, i) \o <<x>> \o SubSeq(s, i + 1, Len(s))     \* x becomes element i+1
LigLike(k) == k \in {"lig", "alt", "mult"}
ItemTable(k) == IF k = "lig" THEN "LigatureSet" ELSE IF k = "alt" THEN "AlternateSet" ELSE "Sequence"

-----------------------------------------------------------------------------
(* split*: result [ok, crash, old, new]; crash = an exception other than a clean "cannot split" *)
NoSplit(s) == [ok |-> FALSE, crash |-> FALSE, old |-> s, new |-> s]
Crash(s) == [ok |-> FALSE, crash |-> TRUE, old |-> s, new |-> s]
Fresh(s) == [s EXCEPT !.ds = FALSE, !.dsi = FALSE]

(* splitMultipleSubst / splitAlternateSubst / splitLigatureSubst: sorted(mapping.items()) is cut at newLen *)
SplitLigLike(s, rec) ==
  LET n == Len(s.it)
      newLen == IF rec.name \in {"Coverage", "RangeRecord"} THEN n \div 2
                ELSE IF rec.name = ItemTable(s.k) THEN rec.idx - 1
                ELSE -2                                   \* newLen unbound: UnboundLocalError
  IN IF rec.name \notin {"Coverage", "RangeRecord", ItemTable(s.k)} THEN Crash(s)   \* newLen unbound: UnboundLocalError
     \* a cut that leaves one half empty makes no progress: the split is refused (fix 576f199; before it the code moved
     \* everything, left an empty subtable behind and looped for ever on a subtable holding one oversized item)
     ELSE IF newLen <= 0 \/ newLen >= n THEN NoSplit(s)
     ELSE LET keep == {s.nm[i] : i \in 1..Min2(newLen, n)}
          IN [ok |-> TRUE, crash |-> FALSE,
              old |-> [s EXCEPT !.it = SelectSeq(s.it, LAMBDA x : x \in keep), !.nm = Take(s.nm, newLen)],
              new |-> Fresh([s EXCEPT !.it = SelectSeq(s.it, LAMBDA x : x \notin keep), !.nm = Drop(s.nm, newLen)])]

(* splitPairPos format 1 / splitSinglePos format 2: the Coverage list is cut in halves *)
SplitHalf(s) ==
  IF Len(s.it) <= 1 THEN NoSplit(s)
  ELSE LET oc == Len(s.it) \div 2
       IN [ok |-> TRUE, crash |-> FALSE, old |-> [s EXCEPT !.it = Take(s.it, oc)], new |-> Fresh([s EXCEPT !.it = Drop(s.it, oc)])]

(* splitPairPos format 2: class numbers >= oldCount move and are renumbered v - oldCount (class oldCount
   becomes the new subtable's class 0, expressed through its Coverage); the old half is set DontShare *)
SplitClasses(s, inExt) ==
  IF Len(s.it) <= 1 THEN NoSplit(s)
  ELSE LET oc == Len(s.it) \div 2
           lo == SelectSeq(s.cm, LAMBDA e : e[2] < oc)
           hi == SelectSeq(s.cm, LAMBDA e : e[2] >= oc)
       IN [ok |-> TRUE, crash |-> FALSE,
           old |-> [s EXCEPT !.it = Take(s.it, oc), !.cm = lo, !.ds = IF inExt THEN @ ELSE TRUE, !.dsi = IF inExt THEN TRUE ELSE @],
           new |-> Fresh([s EXCEPT !.it = Drop(s.it, oc), !.cm = [i \in 1..Len(hi) |-> <<hi[i][1], hi[i][2] - oc>>]])]

(* splitMarkBasePos: mark classes >= classCount // 2 move (renumbered), BaseCoverage stays shared *)
SplitMarks(s) ==
  IF Len(s.it) < 2 THEN NoSplit(s)
  ELSE LET oc == Len(s.it) \div 2
           lo == SelectSeq(s.cm, LAMBDA e : e[2] < oc)
           hi == SelectSeq(s.cm, LAMBDA e : e[2] >= oc)
       IN [ok |-> TRUE, crash |-> FALSE,
           old |-> [s EXCEPT !.it = Take(s.it, oc), !.cm = lo],
           new |-> Fresh([s EXCEPT !.it = Drop(s.it, oc), !.cm = [i \in 1..Len(hi) |-> <<hi[i][1], hi[i][2] - oc>>]])]

Split(s, rec, inExt) ==
  IF LigLike(s.k) THEN SplitLigLike(s, rec)
  ELSE IF s.k \in {"pair1", "sp2"} THEN SplitHalf(s)
  ELSE IF s.k = "pair2" THEN SplitClasses(s, inExt)
  ELSE IF s.k = "mkb" THEN SplitMarks(s)
  ELSE NoSplit(s)                                        \* splitTable has no entry: "Don't know how to split"

-----------------------------------------------------------------------------
(* results of the fix* functions: [ok, crash, lk (the lookup list afterwards), how] *)
Res(ok, crash, lk, how) == [ok |-> ok, crash |-> crash, lk |-> lk, how |-> how]
ValidSite(lk, rec) == /\ rec.L >= 0 /\ rec.L < Len(lk)
                      /\ rec.S = None \/ (rec.S >= 0 /\ rec.S < Len(lk[rec.L + 1].st))

(* fixSubTableOverFlows *)
FixSub(lk, rec) ==
  IF ~ValidSite(lk, rec) \/ rec.S = None THEN Res(FALSE, TRUE, lk, "crash")
  ELSE LET L == rec.L + 1
           S == rec.S + 1
           s == lk[L].st[S]
       IN IF ~s.ds THEN Res(TRUE, FALSE, [lk EXCEPT ![L].st[S].ds = TRUE], "dontshare")
          ELSE LET r == Split(s, rec, lk[L].ext)
               IN IF r.crash THEN Res(FALSE, TRUE, lk, "crash")
                  ELSE IF ~r.ok THEN Res(FALSE, FALSE, lk, "nosplit")
                  ELSE Res(TRUE, FALSE, [lk EXCEPT ![L].st = InsertAt([@ EXCEPT ![S] = r.old], S, r.new)], "split")

(* fixLookupOverFlows: promote the lookup of the record (the PREVIOUS one for a LookupList offset), or the
   nearest earlier lookup that is not yet an Extension lookup, and every lookup after it *)
RECURSIVE FirstNonExt(_, _)
FirstNonExt(lk, i) == IF i < 1 THEN 0 ELSE IF lk[i].ext THEN FirstNonExt(lk, i - 1) ELSE i
Promote(l) == [ext |-> TRUE, st |-> [j \in 1..Len(l.st) |-> [l.st[j] EXCEPT !.dsi = l.st[j].ds, !.ds = FALSE]]]
FixLookup(lk, rec) ==
  IF rec.L = None \/ rec.L >= Len(lk) THEN Res(FALSE, TRUE, lk, "crash")
  ELSE LET start == (IF rec.S = None THEN rec.L - 1 ELSE rec.L) + 1          \* 1-based
           from == FirstNonExt(lk, start)
       IN IF start < 1 \/ from = 0 THEN Res(FALSE, FALSE, lk, "nopromote")
          ELSE LET new == [j \in 1..Len(lk) |-> IF j >= from /\ ~lk[j].ext THEN Promote(lk[j]) ELSE lk[j]]
                   any == \E j \in from..Len(lk) : ~lk[j].ext /\ Len(lk[j].st) > 0
               IN Res(any, FALSE, new, "promote")

(* tryResolveOverflow (after the GuardByIdentity test, which never fires) *)
TryResolve(lk, rec) ==
  LET r1 == IF rec.name = "" THEN FixLookup(lk, rec) ELSE FixSub(lk, rec)
  IN IF r1.ok \/ r1.crash THEN r1 ELSE FixLookup(lk, rec)

(* well-founded measure: <<lookups not yet promoted, 2 * splittable surplus + subtables without DontShare>>,
   compared lexicographically; every successful resolution has to decrease it *)
RECURSIVE SumSeq(_, _)
SumSeq(f, n) == IF n = 0 THEN 0 ELSE f[n] + SumSeq(f, n - 1)
Surplus(s) == IF s.k = "fix" \/ Len(s.it) = 0 THEN 0 ELSE Len(s.it) - 1
SubMeasure(l) == SumSeq([j \in 1..Len(l.st) |-> 2 * Surplus(l.st[j]) + (IF l.st[j].ds THEN 0 ELSE 1)], Len(l.st))
Measure(lk) == <<SumSeq([i \in 1..Len(lk) |-> IF lk[i].ext THEN 0 ELSE 1], Len(lk)),
                 SumSeq([i \in 1..Len(lk) |-> SubMeasure(lk[i])], Len(lk))>>
Less(a, b) == a[1] < b[1] \/ (a[1] = b[1] /\ a[2] < b[2])

(* does an observed summary (harness/c06_e2e.summarize) show the lookup list lk?  Class-like items (pair2 rows,
   mark classes) are renumbered by the code, so only their number and the glyph -> class map are compared. *)
SubMatches(s, o, ext) ==
  /\ s.k = o.k /\ s.ds = o.ds /\ (ext => s.dsi = o.dsi)
  /\ IF s.k \in {"pair2", "mkb"} THEN Len(s.it) = Len(o.it) /\ s.cm = o.cm
     ELSE IF s.k = "fix" THEN TRUE
     ELSE s.it = o.it /\ (LigLike(s.k) => s.nm = o.nm)
Matches(lk, obs) ==
  /\ Len(lk) = Len(obs)
  /\ \A i \in 1..Len(lk) : /\ lk[i].ext = obs[i].ext /\ Len(lk[i].st) = Len(obs[i].st)
                            /\ \A j \in 1..Len(lk[i].st) : SubMatches(lk[i].st[j], obs[i].st[j], lk[i].ext)
=============================================================================
