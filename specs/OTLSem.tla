------------------------------- MODULE OTLSem -------------------------------
(* OpenType Layout applied to a glyph sequence (horizontal, left-to-right text), written
   from the OpenType specification, chapters "OpenType Layout Common Table Formats",
   GSUB, GPOS and GDEF.  Reusable: no trace plumbing, no variables.

   ABSTRACT LAYOUT (the JSON schema emitted by harness/otl_project.py and by FeaSem!Meaning;
   JSON arrays are TLA+ tuples, JSON objects are records, glyphs are small integers >= 1):

     Layout = { "gdef": GD, "gsub": TB, "gpos": TB, "adv": [nominal x-advance of glyph 1, 2, ...] }
     GD     = { "cls":  [GDEF glyph class of glyph 1, 2, ...]   0 none 1 base 2 ligature 3 mark 4 component
                                                                ([] = no GlyphClassDef at all),
                "mac":  [mark attachment class of glyph 1, 2, ...]   ([] = none),
                "sets": [[glyph, ...], ...] }                   mark filtering sets (MarkGlyphSetsDef)
     TB     = { "lookups": [LK, ...],                           LookupList order; referenced 1-BASED
                "fl": [[script, lang, featureTag, [lookup index, ...], required], ...] }
                      one entry per (LangSys, feature); lang "dflt" = the script's DefaultLangSys;
                      required is a boolean (the LangSys's required feature)
     LK     = { "ty": type, "flag": LookupFlag (integer, bit 1 rightToLeft, 2 ignoreBase, 4 ignoreLig,
                8 ignoreMarks, 16 useMarkFilteringSet, high byte markAttachmentType),
                "mfs": 1-based index into gdef.sets (0 = none), "st": [subtable, ...] }
     subtables by "ty" (Extension lookups are unwrapped; formats are flattened to ordered rules):
       "sub1" {"m": [[g, h], ...]}                              single substitution
       "sub2" {"m": [[g, [h1, h2, ...]], ...]}                  multiple substitution
       "sub3" {"m": [[g, [alt1, alt2, ...]], ...]}              alternate substitution
       "sub4" {"l": [[[g1, ..., gn], lig], ...]}                ligatures, in LigatureSet order
       "ctx"  {"r": [{"b": [set, ...], "i": [set, ...], "a": [set, ...], "n": [[seqIndex, lookup], ...]}, ...]}
              GSUB 5/6 and GPOS 7/8 alike: a set is [glyph, ...]; "b" backtrack (nearest first, as stored),
              "i" input (first element includes the first glyph), "a" lookahead; seqIndex is 0-based as in
              the font, lookup is 1-based into the same table's list; rules in the order in which the
              format tries them
       "rsub" {"r": [{"b": [set...], "a": [set...], "m": [[g, h], ...]}, ...]}   reverse chaining single
       "pos1" {"m": [[g, [xPla, yPla, xAdv, yAdv]], ...]}
       "pos2" {"f": 1, "v2": bool, "p": [[g1, g2, V1, V2], ...]}            glyph pairs
              {"f": 2, "v2": bool, "cov": [g, ...], "c": [[set1, set2, V1, V2], ...]}   class pairs: only
              class combinations with a non-zero record need listing; "v2" = (ValueFormat2 # 0)
       "curs" {"m": [[g, entry, exit], ...]}                    anchors are [x, y] or [] (NULL)
       "mkb"  {"marks": [[m, class, [x, y]], ...], "bases": [[b, [anchor or [] per class]], ...]}
       "mkl"  {"marks": [...], "ligs": [[l, [[anchor or [] per class] per component]], ...]}
       "mkm"  {"marks": [...], "bases": [[mark2, [anchor or [] per class]], ...]}

   Shape(L, script, lang, tags, alt, mode, glyphs) is the sequence of
   <<glyph, xAdvance, yAdvance, xOffset, yOffset>> where advances/offsets are ADJUSTMENTS relative
   to the nominal metrics (HarfBuzz position minus nominal h-advance), so that it can be compared
   with a shaper's output.  mode = "ot" is the plain specification; mode = "hb" adds the one
   shaper convention that HarfBuzz's default shaper applies on top of the specification:
      HBZeroMarks: after GPOS, glyphs of GDEF class 3 get advance 0 (and, when the font has no
      GPOS table, their offset is moved back by the removed advance).
   Where the specification leaves a choice open the reading below is the one every shaper implements:
   a mark filtering set takes precedence over a mark attachment type (MarkOK); a sequence lookup record
   that re-enters its own lookup at sequence index 0 is skipped (ApplyRecs); marks attach to the last
   component of a ligature that was not formed in this run (MarkBase).
   Horizontal layout only: yAdvance of value records is "only used for vertical layout" (GPOS
   chapter, ValueRecord), so the reported yAdvance adjustment is always 0.                         *)
EXTENDS Integers, Sequences, FiniteSets

InS(x, s) == \E k \in 1..Len(s) : s[k] = x
Bit(f, m) == (f \div m) % 2 = 1
Max2(a, b) == IF a >= b THEN a ELSE b
SeqRange(s) == {s[k] : k \in 1..Len(s)}
Last(s) == s[Len(s)]
Splice(b, p, n, out) == SubSeq(b, 1, p - 1) \o out \o SubSeq(b, p + n, Len(b))
(* remove the positions in R from b *)
Del(b, R) == LET keep == {i \in 1..Len(b) : i \notin R}
             IN [j \in 1..Cardinality(keep) |-> b[CHOOSE i \in keep : Cardinality({x \in keep : x < i}) = j - 1]]
FirstIdx(S) == IF S = {} THEN 0 ELSE CHOOSE k \in S : \A j \in S : k <= j
Find1(m, g) == FirstIdx({k \in 1..Len(m) : m[k][1] = g})      \* first entry keyed by g, 0 if none

-----------------------------------------------------------------------------
(* GDEF classes and lookup flags (Common Table Formats, "Lookup table", lookupFlag bit enumeration) *)
Cls(gd, g) == IF g >= 1 /\ g <= Len(gd.cls) THEN gd.cls[g] ELSE 0
Mac(gd, g) == IF g >= 1 /\ g <= Len(gd.mac) THEN gd.mac[g] ELSE 0
MarkOK(gd, flag, mfs, g) ==      \* a mark passes the mark filters (filtering set takes precedence over attachment type)
  IF Bit(flag, 16) THEN mfs >= 1 /\ mfs <= Len(gd.sets) /\ InS(g, gd.sets[mfs])
  ELSE IF flag \div 256 # 0 THEN Mac(gd, g) = flag \div 256
  ELSE TRUE
IgnoredF(gd, flag, mfs, g) ==
  LET c == Cls(gd, g) IN \/ c = 1 /\ Bit(flag, 2)
                         \/ c = 2 /\ Bit(flag, 4)
                         \/ c = 3 /\ (Bit(flag, 8) \/ ~MarkOK(gd, flag, mfs, g))
Ignored(gd, lk, g) == IgnoredF(gd, lk.flag, lk.mfs, g)

RECURSIVE NextP(_, _, _, _, _), PrevP(_, _, _, _, _)
NextP(gd, flag, mfs, b, p) ==      \* first non-ignored position >= p, 0 if none
  IF p > Len(b) THEN 0 ELSE IF IgnoredF(gd, flag, mfs, b[p]) THEN NextP(gd, flag, mfs, b, p + 1) ELSE p
PrevP(gd, flag, mfs, b, p) ==      \* last non-ignored position <= p, 0 if none
  IF p < 1 THEN 0 ELSE IF IgnoredF(gd, flag, mfs, b[p]) THEN PrevP(gd, flag, mfs, b, p - 1) ELSE p

(* match glyph sets pats[k..] against the non-ignored glyphs at positions >= from (MatchF) or <= from
   (MatchB); result <<matched, positions>> *)
RECURSIVE MatchF(_, _, _, _, _, _, _), MatchB(_, _, _, _, _, _, _)
MatchF(gd, lk, b, from, pats, k, acc) ==
  IF k > Len(pats) THEN <<TRUE, acc>>
  ELSE LET q == NextP(gd, lk.flag, lk.mfs, b, from)
       IN IF q = 0 THEN <<FALSE, <<>>>>
          ELSE IF ~InS(b[q], pats[k]) THEN <<FALSE, <<>>>>
          ELSE MatchF(gd, lk, b, q + 1, pats, k + 1, Append(acc, q))
MatchB(gd, lk, b, from, pats, k, acc) ==
  IF k > Len(pats) THEN <<TRUE, acc>>
  ELSE LET q == PrevP(gd, lk.flag, lk.mfs, b, from)
       IN IF q = 0 THEN <<FALSE, <<>>>>
          ELSE IF ~InS(b[q], pats[k]) THEN <<FALSE, <<>>>>
          ELSE MatchB(gd, lk, b, q - 1, pats, k + 1, Append(acc, q))

-----------------------------------------------------------------------------
(* Shaping state: glyphs b and, during GPOS, one position record per glyph:
   xa/ya absolute advances, xo/yo offsets, at attachment type (0 none, 1 mark, 2 cursive), to = parent *)
P0(adv) == [xa |-> adv, ya |-> 0, xo |-> 0, yo |-> 0, at |-> 0, to |-> 0]
NoHit == [ok |-> FALSE]
Hit(s, nx) == [ok |-> TRUE, s |-> s, nx |-> nx]
AddV(q, v) == [q EXCEPT !.xo = @ + v[1], !.yo = @ + v[2], !.xa = @ + v[3]]   \* horizontal: yAdvance unused
Zero4 == <<0, 0, 0, 0>>

(* --- GSUB 1, 2, 3 --- *)
Sub1(st, s, p) == LET k == Find1(st.m, s.b[p])
                  IN IF k = 0 THEN NoHit ELSE Hit([s EXCEPT !.b[p] = st.m[k][2]], p + 1)
Sub2(st, s, p) == LET k == Find1(st.m, s.b[p])
                  IN IF k = 0 THEN NoHit
                     ELSE Hit([s EXCEPT !.b = Splice(s.b, p, 1, st.m[k][2])], p + Len(st.m[k][2]))
Sub3(st, s, p, alt) == LET k == Find1(st.m, s.b[p])
                       IN IF k = 0 THEN NoHit
                          ELSE IF alt < 1 \/ alt > Len(st.m[k][2]) THEN NoHit
                          ELSE Hit([s EXCEPT !.b[p] = st.m[k][2][alt]], p + 1)
(* --- GSUB 4: the first ligature (in LigatureSet order) whose components match, skipping ignored
   glyphs; the ligature replaces the first component, the other components are removed, skipped
   glyphs stay; processing resumes after the last component *)
RECURSIVE Sub4(_, _, _, _, _, _)
Sub4(gd, lk, st, s, p, k) ==
  IF k > Len(st.l) THEN NoHit
  ELSE LET comps == st.l[k][1] IN
       IF comps[1] # s.b[p] THEN Sub4(gd, lk, st, s, p, k + 1)
       ELSE LET m == MatchF(gd, lk, s.b, p + 1, [j \in 1..(Len(comps) - 1) |-> <<comps[j + 1]>>], 1, <<>>)
            IN IF ~m[1] THEN Sub4(gd, lk, st, s, p, k + 1)
               ELSE LET nb == Del([s.b EXCEPT ![p] = st.l[k][2]], SeqRange(m[2]))
                        lastp == IF Len(m[2]) = 0 THEN p ELSE Last(m[2])
                    IN Hit([s EXCEPT !.b = nb], lastp + 1 - Len(m[2]))

(* --- GPOS 1, 2 --- *)
Pos1(st, s, p) == LET k == Find1(st.m, s.b[p])
                  IN IF k = 0 THEN NoHit ELSE Hit([s EXCEPT !.ps[p] = AddV(@, st.m[k][2])], p + 1)
Pos2(gd, lk, st, s, p) ==
  LET j == NextP(gd, lk.flag, lk.mfs, s.b, p + 1) IN
  IF j = 0 THEN NoHit
  ELSE LET g1 == s.b[p]
           g2 == s.b[j]
           nx == IF st.v2 THEN j + 1 ELSE j     \* "if valueFormat2 is 0 the second glyph is the next first glyph"
       IN IF st.f = 1
          THEN LET k == FirstIdx({k \in 1..Len(st.p) : st.p[k][1] = g1 /\ st.p[k][2] = g2})
               IN IF k = 0 THEN NoHit
                  ELSE Hit([s EXCEPT !.ps[p] = AddV(@, st.p[k][3]), !.ps[j] = AddV(@, st.p[k][4])], nx)
          ELSE IF ~InS(g1, st.cov) THEN NoHit
          ELSE LET k == FirstIdx({k \in 1..Len(st.c) : InS(g1, st.c[k][1]) /\ InS(g2, st.c[k][2])})
                   v1 == IF k = 0 THEN Zero4 ELSE st.c[k][3]
                   v2 == IF k = 0 THEN Zero4 ELSE st.c[k][4]
               IN Hit([s EXCEPT !.ps[p] = AddV(@, v1), !.ps[j] = AddV(@, v2)], nx)

(* --- GPOS 3 cursive: the exit anchor of the previous (non-ignored) glyph meets the entry anchor of
   the current one.  Horizontal LTR: the previous glyph's advance ends at its exit point, the current
   glyph is shifted so that its entry point sits on the pen; vertically the child is aligned to its
   parent: without rightToLeft (flag bit 1) the earlier glyph keeps its line and the later one is the
   child, with rightToLeft the last glyph keeps the baseline and the earlier one is the child *)
Curs(gd, lk, st, s, p) ==
  LET kj == Find1(st.m, s.b[p]) IN
  IF kj = 0 THEN NoHit ELSE IF st.m[kj][2] = <<>> THEN NoHit
  ELSE LET i == PrevP(gd, lk.flag, lk.mfs, s.b, p - 1) IN
    IF i = 0 THEN NoHit
    ELSE LET ki == Find1(st.m, s.b[i]) IN
      IF ki = 0 THEN NoHit ELSE IF st.m[ki][3] = <<>> THEN NoHit
      ELSE LET en == st.m[kj][2]
               ex == st.m[ki][3]
               pi == s.ps[i]
               pj == s.ps[p]
               d == en[1] + pj.xo
               ni == [pi EXCEPT !.xa = ex[1] + pi.xo]
               nj == [pj EXCEPT !.xa = @ - d, !.xo = @ - d]
               rtl == Bit(lk.flag, 1)
               ps1 == [s.ps EXCEPT ![i] = ni, ![p] = nj]
               ps2 == IF rtl THEN [ps1 EXCEPT ![i] = [@ EXCEPT !.yo = en[2] - ex[2], !.at = 2, !.to = p]]
                      ELSE [ps1 EXCEPT ![p] = [@ EXCEPT !.yo = ex[2] - en[2], !.at = 2, !.to = i]]
           IN Hit([s EXCEPT !.ps = ps2], p + 1)

(* --- GPOS 4, 5, 6 mark attachment.  The attaching glyph is the nearest preceding glyph that is not a
   mark (4, 5) resp. the nearest preceding glyph not removed by the lookup's mark filters, which must be
   a mark (6).  Without a preceding GSUB ligature decision a mark attaches to the LAST component of a
   ligature (5).  The mark's offset is anchor(base) - anchor(mark), stored relative to the base; Finish
   converts it to the pen-relative form. *)
Attach(s, p, j, ba, ma) ==
  Hit([s EXCEPT !.ps[p] = [@ EXCEPT !.xo = ba[1] - ma[1], !.yo = ba[2] - ma[2], !.at = 1, !.to = j]], p + 1)
MarkBase(gd, lk, st, s, p, kind) ==
  LET km == Find1(st.marks, s.b[p]) IN
  IF km = 0 THEN NoHit
  ELSE LET cl == st.marks[km][2] + 1
           ma == st.marks[km][3]
           j == IF kind = "mkm" THEN PrevP(gd, (lk.flag \div 16) * 16, lk.mfs, s.b, p - 1)
                ELSE PrevP(gd, 8, 0, s.b, p - 1)
       IN IF j = 0 THEN NoHit
          ELSE IF kind = "mkm" /\ Cls(gd, s.b[j]) # 3 THEN NoHit
          ELSE IF kind = "mkl"
               THEN LET kb == Find1(st.ligs, s.b[j]) IN
                    IF kb = 0 THEN NoHit
                    ELSE LET comps == st.ligs[kb][2] IN
                         IF Len(comps) = 0 THEN NoHit
                         ELSE LET an == Last(comps) IN
                              IF cl > Len(an) THEN NoHit ELSE IF an[cl] = <<>> THEN NoHit
                              ELSE Attach(s, p, j, an[cl], ma)
               ELSE LET kb == Find1(st.bases, s.b[j]) IN
                    IF kb = 0 THEN NoHit
                    ELSE LET an == st.bases[kb][2] IN
                         IF cl > Len(an) THEN NoHit ELSE IF an[cl] = <<>> THEN NoHit
                         ELSE Attach(s, p, j, an[cl], ma)

(* --- GSUB 8 reverse chaining single substitution (one glyph, context on both sides) --- *)
RECURSIVE RSub(_, _, _, _, _, _)
RSub(gd, lk, st, s, p, k) ==
  IF k > Len(st.r) THEN NoHit
  ELSE LET r == st.r[k]
           km == Find1(r.m, s.b[p])
       IN IF km = 0 THEN RSub(gd, lk, st, s, p, k + 1)
          ELSE IF ~MatchB(gd, lk, s.b, p - 1, r.b, 1, <<>>)[1] THEN RSub(gd, lk, st, s, p, k + 1)
          ELSE IF ~MatchF(gd, lk, s.b, p + 1, r.a, 1, <<>>)[1] THEN RSub(gd, lk, st, s, p, k + 1)
          ELSE Hit([s EXCEPT !.b[p] = r.m[km][2]], p + 1)

(* --- GSUB 5/6, GPOS 7/8 (chained) contexts with nested lookups.  "Sequence lookup record": records
   are applied in order, each at the glyph that currently occupies sequenceIndex of the matched input
   sequence, i.e. of the sequence as it stands after the preceding records; a nested lookup that grows or
   shrinks the sequence shifts the following positions.  A record pointing outside the sequence, or
   re-entering the same lookup at sequence index 0, is skipped. *)
ShiftMp(mp, idx, delta) ==
  IF delta > 0
  THEN SubSeq(mp, 1, idx) \o [j \in 1..delta |-> mp[idx] + j] \o [j \in 1..(Len(mp) - idx) |-> mp[idx + j] + delta]
  ELSE LET d == Max2(delta, -(Len(mp) - idx))          \* cannot remove more positions than follow idx
       IN SubSeq(mp, 1, idx) \o [j \in 1..(Len(mp) - idx + d) |-> mp[idx - d + j] + d]

RECURSIVE ApplyAt(_, _, _, _, _, _)
RECURSIVE ApplyRecs(_, _, _, _, _, _, _, _, _)
ApplyRecs(T, gd, li, recs, k, s, mp, end, alt) ==
  IF k > Len(recs) THEN Hit(s, end)
  ELSE LET idx == recs[k][1] + 1
           nl == recs[k][2]
       IN IF idx > Len(mp) \/ nl < 1 \/ nl > Len(T) \/ (idx = 1 /\ nl = li)
          THEN ApplyRecs(T, gd, li, recs, k + 1, s, mp, end, alt)
          ELSE LET r == ApplyAt(T, gd, nl, s, mp[idx], alt) IN
               IF ~r.ok THEN ApplyRecs(T, gd, li, recs, k + 1, s, mp, end, alt)
               ELSE LET delta == Len(r.s.b) - Len(s.b) IN
                    IF delta = 0 THEN ApplyRecs(T, gd, li, recs, k + 1, r.s, mp, end, alt)
                    ELSE ApplyRecs(T, gd, li, recs, k + 1, r.s, ShiftMp(mp, idx, delta),
                                   Max2(end + delta, mp[idx]), alt)

RECURSIVE Ctx(_, _, _, _, _, _, _, _)
Ctx(T, gd, li, st, s, p, alt, k) ==
  IF k > Len(st.r) THEN NoHit
  ELSE LET r == st.r[k]
           lk == T[li]
       IN IF Len(r.i) = 0 THEN Ctx(T, gd, li, st, s, p, alt, k + 1)
          ELSE IF ~InS(s.b[p], r.i[1]) THEN Ctx(T, gd, li, st, s, p, alt, k + 1)
          ELSE LET mi == MatchF(gd, lk, s.b, p + 1, SubSeq(r.i, 2, Len(r.i)), 1, <<p>>) IN
               IF ~mi[1] THEN Ctx(T, gd, li, st, s, p, alt, k + 1)
               ELSE IF ~MatchB(gd, lk, s.b, p - 1, r.b, 1, <<>>)[1] THEN Ctx(T, gd, li, st, s, p, alt, k + 1)
               ELSE IF ~MatchF(gd, lk, s.b, Last(mi[2]) + 1, r.a, 1, <<>>)[1] THEN Ctx(T, gd, li, st, s, p, alt, k + 1)
               ELSE ApplyRecs(T, gd, li, r.n, 1, s, mi[2], Last(mi[2]) + 1, alt)

TryOne(T, gd, li, st, s, p, alt) ==
  LET lk == T[li] ty == lk.ty IN
  CASE ty = "sub1" -> Sub1(st, s, p)
    [] ty = "sub2" -> Sub2(st, s, p)
    [] ty = "sub3" -> Sub3(st, s, p, alt)
    [] ty = "sub4" -> Sub4(gd, lk, st, s, p, 1)
    [] ty = "ctx"  -> Ctx(T, gd, li, st, s, p, alt, 1)
    [] ty = "rsub" -> RSub(gd, lk, st, s, p, 1)
    [] ty = "pos1" -> Pos1(st, s, p)
    [] ty = "pos2" -> Pos2(gd, lk, st, s, p)
    [] ty = "curs" -> Curs(gd, lk, st, s, p)
    [] ty \in {"mkb", "mkl", "mkm"} -> MarkBase(gd, lk, st, s, p, ty)
    [] OTHER -> NoHit

(* at one position the first subtable that matches applies and ends the lookup for that position *)
RECURSIVE TrySubs(_, _, _, _, _, _, _)
TrySubs(T, gd, li, k, s, p, alt) ==
  IF k > Len(T[li].st) THEN NoHit
  ELSE LET r == TryOne(T, gd, li, T[li].st[k], s, p, alt)
       IN IF r.ok THEN r ELSE TrySubs(T, gd, li, k + 1, s, p, alt)
ApplyAt(T, gd, li, s, p, alt) == TrySubs(T, gd, li, 1, s, p, alt)

(* one lookup over the whole sequence: left to right, ignored glyphs are never a rule's first glyph,
   after a match processing resumes after the matched input; reverse chaining walks right to left *)
RECURSIVE WalkF(_, _, _, _, _, _), WalkR(_, _, _, _, _, _)
WalkF(T, gd, li, s, p, alt) ==
  IF p > Len(s.b) THEN s
  ELSE IF Ignored(gd, T[li], s.b[p]) THEN WalkF(T, gd, li, s, p + 1, alt)
  ELSE LET r == ApplyAt(T, gd, li, s, p, alt)
       IN IF r.ok THEN WalkF(T, gd, li, r.s, Max2(r.nx, p), alt) ELSE WalkF(T, gd, li, s, p + 1, alt)
WalkR(T, gd, li, s, p, alt) ==
  IF p < 1 THEN s
  ELSE IF Ignored(gd, T[li], s.b[p]) THEN WalkR(T, gd, li, s, p - 1, alt)
  ELSE LET r == ApplyAt(T, gd, li, s, p, alt)
       IN WalkR(T, gd, li, IF r.ok THEN r.s ELSE s, p - 1, alt)
ApplyLookup(T, gd, li, s, alt) ==
  IF T[li].ty = "rsub" THEN WalkR(T, gd, li, s, Len(s.b), alt) ELSE WalkF(T, gd, li, s, 1, alt)
RECURSIVE RunLookups(_, _, _, _, _, _)
RunLookups(T, gd, order, k, s, alt) ==
  IF k > Len(order) THEN s ELSE RunLookups(T, gd, order, k + 1, ApplyLookup(T, gd, order[k], s, alt), alt)

-----------------------------------------------------------------------------
(* Script / language / feature selection (Common Table Formats: ScriptList, LangSys, FeatureList):
   the requested script, else "DFLT"; the requested language system, else the script's default one;
   the lookups of the required feature and of the enabled features, each once, in LookupList order *)
ScriptsOf(tb) == {tb.fl[k][1] : k \in 1..Len(tb.fl)}
SelScript(tb, sc) == IF sc \in ScriptsOf(tb) THEN sc ELSE IF "DFLT" \in ScriptsOf(tb) THEN "DFLT" ELSE ""
SelLang(tb, sc, lang) == IF \E k \in 1..Len(tb.fl) : tb.fl[k][1] = sc /\ tb.fl[k][2] = lang THEN lang ELSE "dflt"
ActiveSet(tb, script, lang, tags) ==
  LET sc == SelScript(tb, script)
      la == SelLang(tb, sc, lang)
  IN UNION {SeqRange(tb.fl[k][4]) : k \in {k \in 1..Len(tb.fl) :
               tb.fl[k][1] = sc /\ tb.fl[k][2] = la /\ (InS(tb.fl[k][3], tags) \/ tb.fl[k][5])}}
RECURSIVE Ascending(_, _, _)
Ascending(S, i, n) == IF i > n THEN <<>> ELSE (IF i \in S THEN <<i>> ELSE <<>>) \o Ascending(S, i + 1, n)
ActiveLookups(tb, script, lang, tags) == Ascending(ActiveSet(tb, script, lang, tags), 1, Len(tb.lookups))

-----------------------------------------------------------------------------
(* Final positions.  Attached glyphs: a cursive child adds its parent's vertical offset; a mark's
   offset is relative to its base, so in pen-relative terms the advances of the glyphs from the base
   up to the mark are subtracted (LTR).  fuel bounds the attachment chain. *)
Adv(L, g) == IF g >= 1 /\ g <= Len(L.adv) THEN L.adv[g] ELSE 0
RECURSIVE SumXA(_, _, _)
SumXA(ps, a, b) == IF a > b THEN 0 ELSE ps[a].xa + SumXA(ps, a + 1, b)
RECURSIVE FinOff(_, _, _)
FinOff(ps, i, fuel) ==
  LET q == ps[i] IN
  IF q.at = 0 \/ fuel = 0 \/ q.to < 1 \/ q.to > Len(ps) THEN <<q.xo, q.yo>>
  ELSE LET par == FinOff(ps, q.to, fuel - 1) IN
       IF q.at = 2 THEN <<q.xo, q.yo + par[2]>>
       ELSE <<q.xo + par[1] - SumXA(ps, q.to, i - 1), q.yo + par[2]>>
HasGpos(L) == Len(L.gpos.lookups) > 0 \/ Len(L.gpos.fl) > 0
ZeroMarks(L, b, ps) ==           \* named deviation HBZeroMarks (mode "hb" only)
  [i \in 1..Len(ps) |-> IF Cls(L.gdef, b[i]) = 3
                         THEN [ps[i] EXCEPT !.xa = 0, !.xo = IF HasGpos(L) THEN @ ELSE @ - ps[i].xa]
                         ELSE ps[i]]

ShapeGsub(L, script, lang, tags, alt, glyphs) ==
  RunLookups(L.gsub.lookups, L.gdef, ActiveLookups(L.gsub, script, lang, tags), 1,
             [b |-> glyphs, ps |-> <<>>], alt).b

Shape(L, script, lang, tags, alt, mode, glyphs) ==
  LET gl == ShapeGsub(L, script, lang, tags, alt, glyphs)
      s0 == [b |-> gl, ps |-> [i \in 1..Len(gl) |-> P0(Adv(L, gl[i]))]]
      s1 == RunLookups(L.gpos.lookups, L.gdef, ActiveLookups(L.gpos, script, lang, tags), 1, s0, alt)
      ps == IF mode = "hb" THEN ZeroMarks(L, gl, s1.ps) ELSE s1.ps
  IN [i \in 1..Len(gl) |-> LET o == FinOff(ps, i, Len(gl))
                           IN <<gl[i], ps[i].xa - Adv(L, gl[i]), 0, o[1], o[2]>>]

(* Denote: what a single lookup of a table computes on a set of probe sequences (used to state that a
   transformation of the lookup list preserves behaviour) *)
DenoteSub(L, li, seqs) == [q \in seqs |-> ApplyLookup(L.gsub.lookups, L.gdef, li, [b |-> q, ps |-> <<>>], 1).b]
DenotePos(L, li, seqs) ==
  [q \in seqs |-> LET s == ApplyLookup(L.gpos.lookups, L.gdef, li,
                                       [b |-> q, ps |-> [i \in 1..Len(q) |-> P0(Adv(L, q[i]))]], 1)
                  IN [i \in 1..Len(q) |-> LET o == FinOff(s.ps, i, Len(q)) IN <<s.ps[i].xa, o[1], o[2]>>]]
=============================================================================
