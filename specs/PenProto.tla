------------------------------ MODULE PenProto ------------------------------
(* C14 -- pen adapters preserve geometry.

   The segment-pen protocol (moveTo / lineTo / curveTo / qCurveTo / closePath / endPath /
   addComponent) and the point-pen protocol (beginPath / addPoint / endPath / addComponent)
   as state machines over sequences of calls, their meaning as point structures (Shape),
   the meaning of a point structure as a list of atomic Bezier segments (Geom), the
   normal forms that name exactly what an adapter may change (the Geo.. and Norm.. operators), the adapter
   contracts, and the exact area / bounds laws.  Everything is integer arithmetic:
   coordinates travel in units of 1/K (K = 12 on the lattice so that implied quadratic
   midpoints (1/2) and the B-spline subdivision of "super-beziers" (1/2, 1/3 and the
   midpoint of those: 1/12) stay integral; K = 2 for font glyphs), areas in units of
   1/(60 K^2).

   A call is a tuple of integers <<op, x1, y1, x2, y2, ...>>; a component call is
   <<op, glyphId, a, b, c, d, e, f>> with the affine map x' = a x + c y + e,
   y' = b x + d y + f (fontTools order xx xy yx yy dx dy; e, f in 1/K units).          *)
EXTENDS Integers, Sequences, FiniteSets, TLC

MOVE == 1   LINE == 2   CURVE == 3   QCURVE == 4
QBLOB == 5          \* qCurveTo(off_1 .. off_n, None): closed contour without on-curve point
CLOSE == 6  END == 7  COMP == 8
PBEGIN == 11  POFF == 12  PMOVE == 13  PLINE == 14  PCURVE == 15  PQCURVE == 16
PEND == 17  PCOMP == 18

(* point types inside a Shape *)
TOFF == 0  TMOVE == 1  TLINE == 2  TCURVE == 3  TQCURVE == 4

NPts(c) == (Len(c) - 1) \div 2
Pt(c, i) == <<c[2 * i], c[2 * i + 1]>>
PtsOf(c) == [i \in 1..NPts(c) |-> Pt(c, i)]
P3(p, t) == <<p[1], p[2], t>>
XY(q) == <<q[1], q[2]>>
OnCurve(q) == q[3] # TOFF

Contour(cl, pts) == [k |-> "c", cl |-> cl, pts |-> pts]
CompItem(c) == [k |-> "g", g |-> c[2], m |-> <<c[3], c[4], c[5], c[6], c[7], c[8]>>]
Bad == [ok |-> FALSE, items |-> <<>>]
Good(items) == [ok |-> TRUE, items |-> items]

Abs(x) == IF x < 0 THEN -x ELSE x
Min2(a, b) == IF a < b THEN a ELSE b
Max2(a, b) == IF a > b THEN a ELSE b

(***************************************************************************)
(* 1. The protocols as state machines, and the point structure they denote  *)
(***************************************************************************)

(* Segment pen.  State: idle (cur = <<>>) or inside a contour (cur = the points so far,
   beginning with the moveTo point).  closePath closes the contour with an implied
   straight line back to the start point unless the pen already is there: an explicit
   final segment that ends on the start point IS the closing segment (pen protocol,
   "closePath"; UFO GLIF contour semantics).  Hence the start point of a closed contour
   carries the type of that final segment, or "line" for the implied closing line.     *)
ClosedFromSeg(cur) ==
  LET n == Len(cur) IN
  IF n > 1 /\ XY(cur[n]) = XY(cur[1])
  THEN <<P3(XY(cur[1]), cur[n][3])>> \o SubSeq(cur, 2, n - 1)
  ELSE <<P3(XY(cur[1]), TLINE)>> \o SubSeq(cur, 2, n)

OffsOf(c) == [i \in 1..(NPts(c) - 1) |-> P3(Pt(c, i), TOFF)]

RECURSIVE SegFold(_, _, _, _)
SegFold(cs, i, cur, acc) ==
  IF i > Len(cs) THEN (IF cur = <<>> THEN Good(acc) ELSE Bad)
  ELSE LET c == cs[i]  o == c[1] IN
    IF cur = <<>> THEN
      CASE o = MOVE /\ Len(c) = 3 -> SegFold(cs, i + 1, <<P3(Pt(c, 1), TMOVE)>>, acc)
        [] o = COMP /\ Len(c) = 8 -> SegFold(cs, i + 1, <<>>, Append(acc, CompItem(c)))
        [] o = QBLOB /\ Len(c) >= 3 /\ Len(c) % 2 = 1 /\ i < Len(cs) /\ cs[i + 1][1] = CLOSE ->
             SegFold(cs, i + 2, <<>>,
                     Append(acc, Contour(TRUE, [j \in 1..NPts(c) |-> P3(Pt(c, j), TOFF)])))
        [] OTHER -> Bad
    ELSE
      CASE o = LINE /\ Len(c) = 3 -> SegFold(cs, i + 1, Append(cur, P3(Pt(c, 1), TLINE)), acc)
        [] o = CURVE /\ Len(c) >= 3 /\ Len(c) % 2 = 1 ->
             SegFold(cs, i + 1, cur \o OffsOf(c) \o <<P3(Pt(c, NPts(c)), TCURVE)>>, acc)
        [] o = QCURVE /\ Len(c) >= 3 /\ Len(c) % 2 = 1 ->
             SegFold(cs, i + 1, cur \o OffsOf(c) \o <<P3(Pt(c, NPts(c)), TQCURVE)>>, acc)
        [] o = CLOSE -> SegFold(cs, i + 1, <<>>, Append(acc, Contour(TRUE, ClosedFromSeg(cur))))
        [] o = END -> SegFold(cs, i + 1, <<>>, Append(acc, Contour(FALSE, cur)))
        [] OTHER -> Bad

ShapeOfSeg(cs) == SegFold(cs, 1, <<>>, <<>>)

(* Point pen.  A contour is the list of its points; it is open iff the first point has
   type "move".  Empty beginPath/endPath pairs denote nothing.                          *)
PType(o) == CASE o = POFF -> TOFF [] o = PMOVE -> TMOVE [] o = PLINE -> TLINE
              [] o = PCURVE -> TCURVE [] o = PQCURVE -> TQCURVE [] OTHER -> -1

RECURSIVE PtFold(_, _, _, _, _)
PtFold(cs, i, inp, cur, acc) ==
  IF i > Len(cs) THEN (IF inp THEN Bad ELSE Good(acc))
  ELSE LET c == cs[i]  o == c[1] IN
    IF ~inp THEN
      CASE o = PBEGIN -> PtFold(cs, i + 1, TRUE, <<>>, acc)
        [] o = PCOMP /\ Len(c) = 8 -> PtFold(cs, i + 1, FALSE, <<>>, Append(acc, CompItem(c)))
        [] OTHER -> Bad
    ELSE
      CASE o = PEND -> PtFold(cs, i + 1, FALSE, <<>>,
                            IF cur = <<>> THEN acc
                            ELSE Append(acc, Contour(cur[1][3] # TMOVE, cur)))
        [] PType(o) >= 0 /\ Len(c) = 3 /\ (o = PMOVE => cur = <<>>) ->
             PtFold(cs, i + 1, TRUE, Append(cur, P3(Pt(c, 1), PType(o))), acc)
        [] OTHER -> Bad

ShapeOfPts(cs) == PtFold(cs, 1, FALSE, <<>>, <<>>)

IsPtStream(cs) == Len(cs) > 0 /\ cs[1][1] >= PBEGIN
ShapeOf(cs) == IF IsPtStream(cs) THEN ShapeOfPts(cs) ELSE ShapeOfSeg(cs)

(* Well-formed point structure (UFO GLIF): a run of off-curve points is followed
   (cyclically, in a closed contour) by a curve or qcurve point; line and move points
   are not preceded by off-curve points; an open contour does not end in off-curves;
   a contour without any on-curve point is closed (TrueType quadratic special case).   *)
PrevIdx(n, i) == IF i = 1 THEN n ELSE i - 1
WellFormedContour(c) ==
  LET p == c.pts  n == Len(p) IN
  /\ n >= 1
  /\ \A i \in 2..n : p[i][3] # TMOVE
  /\ (c.cl <=> p[1][3] # TMOVE)
  /\ (~c.cl => p[n][3] # TOFF)
  /\ \A i \in 1..n :
       (p[i][3] \in {TLINE, TMOVE} /\ (c.cl \/ i > 1)) => p[PrevIdx(n, i)][3] # TOFF
WellFormed(sh) == sh.ok /\ \A i \in 1..Len(sh.items) :
                     sh.items[i].k = "c" => WellFormedContour(sh.items[i])

(***************************************************************************)
(* 2. Geometry: a contour as start point + list of atomic Bezier segments   *)
(***************************************************************************)
(* Exactness: the divisions below must come out even.  Exact(shape) states the
   sufficient condition on the input grid; Geom is only used when it holds.            *)
Mid(a, b) == <<(a[1] + b[1]) \div 2, (a[2] + b[2]) \div 2>>
MidExact(a, b) == (a[1] + b[1]) % 2 = 0 /\ (a[2] + b[2]) % 2 = 0

(* qCurveTo(o_1..o_n, p): n quadratic segments; between two consecutive off-curve
   points lies an implied on-curve point exactly in the middle (TrueType).             *)
RECURSIVE QuadChain(_, _, _, _)
QuadChain(p0, offs, p, i) ==
  IF i > Len(offs) THEN <<>>
  ELSE LET e == IF i = Len(offs) THEN p ELSE Mid(offs[i], offs[i + 1])
       IN <<<<p0, offs[i], e>>>> \o QuadChain(e, offs, p, i + 1)

(* curveTo(o_1..o_n, p) with n >= 3 ("super-bezier"): the uniform cubic B-spline with de
   Boor points p0, o_1..o_n, p and clamped ends (knots 0,0,0,0,1,2,..,n-1,n-1,n-1,n-1),
   converted to its n-1 Bezier segments by knot insertion (Boehm): the legs o_s o_{s+1}
   are divided in the ratio of the knot spans -- in halves for the first and the last leg,
   in thirds otherwise -- and consecutive segments join in the midpoint between the
   neighbouring inner Bezier points.                                                   *)
DivPt(a, b, f, nd) == <<((nd - f) * a[1] + f * b[1]) \div nd, ((nd - f) * a[2] + f * b[2]) \div nd>>
LegDiv(n, s) == IF s = 1 \/ s = n - 1 THEN 2 ELSE 3
SupC1(offs, s) == IF s = 1 THEN offs[1] ELSE DivPt(offs[s], offs[s + 1], 1, LegDiv(Len(offs), s))
SupC2(offs, s) == LET n == Len(offs) IN
                  IF s = n - 1 THEN offs[n]
                  ELSE DivPt(offs[s], offs[s + 1], LegDiv(n, s) - 1, LegDiv(n, s))
SupJ(offs, s) == Mid(SupC2(offs, s), SupC1(offs, s + 1))
SuperBezier(p0, offs, p) ==
  LET n == Len(offs) IN
  [s \in 1..(n - 1) |-> << IF s = 1 THEN p0 ELSE SupJ(offs, s - 1), SupC1(offs, s), SupC2(offs, s),
                           IF s = n - 1 THEN p ELSE SupJ(offs, s) >>]

Atoms(p0, offs, p, t) ==
  LET n == Len(offs) IN
  IF n = 0 THEN <<<<p0, p>>>>                        \* curveTo(p) / qCurveTo(p) / lineTo(p)
  ELSE IF t = TQCURVE THEN QuadChain(p0, offs, p, 1)
  ELSE IF n = 1 THEN <<<<p0, offs[1], p>>>>          \* curveTo with one control point: quadratic
  ELSE IF n = 2 THEN <<<<p0, offs[1], offs[2], p>>>>
  ELSE SuperBezier(p0, offs, p)

AtomsExact(offs, t) ==
  LET n == Len(offs) IN
  IF t = TQCURVE THEN \A i \in 1..(n - 1) : MidExact(offs[i], offs[i + 1])
  ELSE n >= 3 => \A i \in 1..n : offs[i][1] % 12 = 0 /\ offs[i][2] % 12 = 0

RECURSIVE Walk(_, _, _, _)
Walk(seq, i, p0, offs) ==
  IF i > Len(seq) THEN <<>>
  ELSE IF seq[i][3] = TOFF THEN Walk(seq, i + 1, p0, Append(offs, XY(seq[i])))
  ELSE Atoms(p0, offs, XY(seq[i]), seq[i][3]) \o Walk(seq, i + 1, XY(seq[i]), <<>>)

RECURSIVE WalkExact(_, _, _)
WalkExact(seq, i, offs) ==
  IF i > Len(seq) THEN TRUE
  ELSE IF seq[i][3] = TOFF THEN WalkExact(seq, i + 1, Append(offs, XY(seq[i])))
  ELSE AtomsExact(offs, seq[i][3]) /\ WalkExact(seq, i + 1, <<>>)

FirstOn(p) == IF \E i \in 1..Len(p) : OnCurve(p[i])
              THEN CHOOSE i \in 1..Len(p) : OnCurve(p[i]) /\ \A j \in 1..(i - 1) : ~OnCurve(p[j])
              ELSE 0
RotateAfter(p, f) == SubSeq(p, f + 1, Len(p)) \o SubSeq(p, 1, f)   \* ends with p[f]

(* geometric contour: [k, cl, st, segs]; a closed contour starts at its first on-curve
   point (at the implied point between last and first off-curve if it has none)         *)
GeomContour(c) ==
  LET p == c.pts  n == Len(p)  f == FirstOn(p) IN
  IF ~c.cl THEN [k |-> "c", cl |-> FALSE, st |-> XY(p[1]), segs |-> Walk(p, 2, XY(p[1]), <<>>)]
  ELSE IF f = 0 THEN
       LET offs == [i \in 1..n |-> XY(p[i])]  s == Mid(offs[n], offs[1])
       IN [k |-> "c", cl |-> TRUE, st |-> s, segs |-> QuadChain(s, offs, s, 1)]
  ELSE [k |-> "c", cl |-> TRUE, st |-> XY(p[f]), segs |-> Walk(RotateAfter(p, f), 1, XY(p[f]), <<>>)]

ContourExact(c) ==
  LET p == c.pts  n == Len(p)  f == FirstOn(p) IN
  IF ~c.cl THEN WalkExact(p, 2, <<>>)
  ELSE IF f = 0 THEN \A i \in 1..n : MidExact(XY(p[i]), XY(p[IF i = n THEN 1 ELSE i + 1]))
  ELSE WalkExact(RotateAfter(p, f), 1, <<>>)

Exact(sh) == \A i \in 1..Len(sh.items) : sh.items[i].k = "c" => ContourExact(sh.items[i])
Geom(sh) == [i \in 1..Len(sh.items) |->
               IF sh.items[i].k = "c" THEN GeomContour(sh.items[i]) ELSE sh.items[i]]

EndOf(gc) == IF gc.segs = <<>> THEN gc.st ELSE LET s == gc.segs[Len(gc.segs)] IN s[Len(s)]

(***************************************************************************)
(* 3. Normal forms: what adapters may legitimately change                    *)
(***************************************************************************)
ZeroLine(s) == Len(s) = 2 /\ s[1] = s[2]
ZeroSeg(s) == \A i \in 2..Len(s) : s[i] = s[1]     \* all control points coincide: the segment is a point
NonZero(s) == ~ZeroSeg(s)

(* GeoPlain: geometry as drawn.  A segment whose control points all coincide (in particular a
   straight segment of length zero) draws nothing and is dropped; a contour that draws nothing is a lone point (whether it was "closed" is not
   observable: BasePointToSegmentPen / reversedContour document that single-point paths
   cannot be closed).                                                                   *)
GeoPlainItem(gc) ==
  IF gc.k # "c" THEN gc
  ELSE LET ss == SelectSeq(gc.segs, NonZero) IN
       IF ss = <<>> THEN [k |-> "p", st |-> gc.st]
       ELSE [k |-> "c", cl |-> gc.cl, st |-> gc.st, segs |-> ss]
GeoPlain(g) == [i \in 1..Len(g) |-> GeoPlainItem(g[i])]

(* GeoFill: geometry as a filled outline, the reading of glyph builders: every contour is
   closed (TrueType and Type 2 contours always are: an open contour gets the closing
   line), contours that draw nothing are dropped.                                       *)
CloseItem(gc) ==
  IF gc.k # "c" \/ gc.cl THEN gc
  ELSE [k |-> "c", cl |-> TRUE, st |-> gc.st,
        segs |-> IF EndOf(gc) = gc.st THEN gc.segs ELSE Append(gc.segs, <<EndOf(gc), gc.st>>)]
IsDrawn(it) == it.k # "p"
GeoFill(g) == SelectSeq(GeoPlain([i \in 1..Len(g) |-> CloseItem(g[i])]), IsDrawn)

(* rotation of a closed contour's start point *)
RotSegs(ss, r) == SubSeq(ss, r + 1, Len(ss)) \o SubSeq(ss, 1, r)
SameCyclic(a, b) ==
  IF a.k # "c" \/ b.k # "c" THEN a = b
  ELSE /\ a.cl = b.cl /\ Len(a.segs) = Len(b.segs)
       /\ IF ~a.cl THEN a = b
          ELSE \E r \in 0..(Len(a.segs) - 1) : RotSegs(a.segs, r) = b.segs
SameUpToStart(ga, gb) == Len(ga) = Len(gb) /\ \A i \in 1..Len(ga) : SameCyclic(ga[i], gb[i])

(* A closed contour WITHOUT on-curve point has no start point of its own: its geometry is the
   closed quadratic B-spline through the implied midpoints of consecutive off-curve points.
   TrueType stores just the off-curve points, the pen protocol passes them as
   qCurveTo(off_1 .. off_n, None), and whoever draws it begins at some implied point (BasePen:
   between off_n and off_1).  Which implied point that is -- and hence the rotation of the
   segment list -- is representation, not geometry: such contours are always compared up to
   rotation (SameCyclic), also where an adapter otherwise documents that it keeps the start
   point.  FillTagged pairs every drawn contour of GeoFill with that licence.               *)
FreeStart(it) == it.k = "c" /\ it.cl /\ FirstOn(it.pts) = 0
TaggedDrawn(x) == IsDrawn(x[1])
FillTagged(items) ==
  LET g == Geom(Good(items))
  IN SelectSeq([i \in 1..Len(items) |-> <<GeoPlainItem(CloseItem(g[i])), FreeStart(items[i])>>], TaggedDrawn)
(* same filled geometry, same start points except where the input contour has none *)
SameFillStart(itemsIn, itemsOut) ==
  LET a == FillTagged(itemsIn)  b == FillTagged(itemsOut) IN
  /\ Len(a) = Len(b)
  /\ \A i \in 1..Len(a) : IF a[i][2] THEN SameCyclic(a[i][1], b[i][1]) ELSE a[i][1] = b[i][1]

(* Structure level.  NormSingle: a contour of one point (on- or off-curve) has no extent and
   no observable closedness; BasePointToSegmentPen emits it as a lone "move" ("not much more
   we can do"), reversedContour documents "single-point paths can't be closed".
   NormP2S: a segment pen starts a closed contour at an on-curve point, so a point
   structure that begins with off-curve points is rotated to its first on-curve point
   (BasePointToSegmentPen: "the initial moveTo point is the last point of the last
   segment" after rotating the list so that it ends with the first on-curve point).      *)
NormSingleItem(it) ==
  IF it.k = "c" /\ Len(it.pts) = 1
  THEN Contour(FALSE, <<P3(XY(it.pts[1]), TMOVE)>>) ELSE it
NormSingle(items) == [i \in 1..Len(items) |-> NormSingleItem(items[i])]
RotFirstOnItem(it) ==
  IF it.k = "c" /\ it.cl /\ FirstOn(it.pts) > 1
  THEN Contour(TRUE, SubSeq(it.pts, FirstOn(it.pts), Len(it.pts)) \o SubSeq(it.pts, 1, FirstOn(it.pts) - 1))
  ELSE it
NormP2S(items) == NormSingle([i \in 1..Len(items) |-> RotFirstOnItem(items[i])])

(***************************************************************************)
(* 4. Adapter contracts                                                      *)
(***************************************************************************)
(* affine map <<a, b, c, d, e, f>>, translation in 1/K units *)
Apply(m, p) == <<m[1] * p[1] + m[3] * p[2] + m[5], m[2] * p[1] + m[4] * p[2] + m[6]>>
(* Compose(t, c) = "first c, then t" *)
Compose(t, c) == << t[1] * c[1] + t[3] * c[2],  t[2] * c[1] + t[4] * c[2],
                    t[1] * c[3] + t[3] * c[4],  t[2] * c[3] + t[4] * c[4],
                    t[1] * c[5] + t[3] * c[6] + t[5],  t[2] * c[5] + t[4] * c[6] + t[6] >>
Det(m) == m[1] * m[4] - m[2] * m[3]

(* otRound on the 1/K grid: floor(x + 1/2) *)
RoundK(v, K) == K * ((2 * v + K) \div (2 * K))
RoundPt(p, K) == <<RoundK(p[1], K), RoundK(p[2], K)>>

IsCompCall(c) == c[1] \in {COMP, PCOMP}
MapCall(c, F(_), G(_)) ==
  IF IsCompCall(c) THEN LET m == G(<<c[3], c[4], c[5], c[6], c[7], c[8]>>)
                        IN <<c[1], c[2], m[1], m[2], m[3], m[4], m[5], m[6]>>
  ELSE [i \in 1..Len(c) |-> IF i = 1 THEN c[1]
                            ELSE IF i % 2 = 0 THEN F(<<c[i], c[i + 1]>>)[1] ELSE F(<<c[i - 1], c[i]>>)[2]]
AffineCalls(cs, m) == LET F(p) == Apply(m, p)  G(c) == Compose(m, c)
                      IN [i \in 1..Len(cs) |-> MapCall(cs[i], F, G)]
RoundCalls(cs, K) == LET F(p) == RoundPt(p, K)
                         G(c) == <<c[1], c[2], c[3], c[4], RoundK(c[5], K), RoundK(c[6], K)>>
                     IN [i \in 1..Len(cs) |-> MapCall(cs[i], F, G)]

(* on shapes / geometry *)
MapShape(items, F(_), G(_)) ==
  [i \in 1..Len(items) |->
     IF items[i].k = "c"
     THEN Contour(items[i].cl, [j \in 1..Len(items[i].pts) |-> P3(F(XY(items[i].pts[j])), items[i].pts[j][3])])
     ELSE [k |-> "g", g |-> items[i].g, m |-> G(items[i].m)]]
AffineShape(items, m) == LET F(p) == Apply(m, p)  G(c) == Compose(m, c) IN MapShape(items, F, G)
RoundShape(items, K) == LET F(p) == RoundPt(p, K)
                            G(c) == <<c[1], c[2], c[3], c[4], RoundK(c[5], K), RoundK(c[6], K)>>
                        IN MapShape(items, F, G)

(* Reversal of a point structure.  The first point of a closed contour stays first
   (documented by ReverseContourPen / ReverseContourPointPen), an open contour starts at
   its former end.  A segment keeps its type when traversed backwards, so an on-curve
   point receives the type of the segment that used to LEAVE it, i.e. the type stored on
   the next on-curve point in the original order.                                       *)
RECURSIVE NextOn(_, _, _)
NextOn(p, i, cl) == LET j == IF i = Len(p) THEN 1 ELSE i + 1 IN IF OnCurve(p[j]) THEN j ELSE NextOn(p, j, cl)
RevContour(c) ==
  LET p == c.pts  n == Len(p)
      src(k) == IF c.cl THEN (IF k = 1 THEN 1 ELSE n + 2 - k) ELSE n + 1 - k
      newT(i) == IF ~OnCurve(p[i]) THEN TOFF
                 ELSE IF ~c.cl /\ i = n THEN TMOVE
                 ELSE p[NextOn(p, i, c.cl)][3]
  IN IF FirstOn(p) = 0 THEN Contour(c.cl, [k \in 1..n |-> p[src(k)]])
     ELSE Contour(c.cl, [k \in 1..n |-> P3(XY(p[src(k)]), newT(src(k)))])
RevShape(items) == [i \in 1..Len(items) |-> IF items[i].k = "c" THEN RevContour(items[i]) ELSE items[i]]

RevSeg(s) == [i \in 1..Len(s) |-> s[Len(s) + 1 - i]]
RevGeomItem(gc) ==
  IF gc.k # "c" THEN gc
  ELSE [k |-> "c", cl |-> gc.cl, st |-> IF gc.cl THEN gc.st ELSE EndOf(gc),
        segs |-> [i \in 1..Len(gc.segs) |-> RevSeg(gc.segs[Len(gc.segs) + 1 - i])]]
RevGeom(g) == [i \in 1..Len(g) |-> RevGeomItem(g[i])]

(* The two protocol converters as generators of calls (models of SegmentToPointPen and
   PointToSegmentPen): ToPtsCalls emits a point structure verbatim; ToSegCalls emits a
   structure in NormP2S form, leaving the closing line implied unless it has length zero
   (then it must be explicit or the duplicate point would be lost).                       *)
POp(t) == CASE t = TOFF -> POFF [] t = TMOVE -> PMOVE [] t = TLINE -> PLINE
            [] t = TCURVE -> PCURVE [] t = TQCURVE -> PQCURVE
CompCall(op, it) == <<op, it.g, it.m[1], it.m[2], it.m[3], it.m[4], it.m[5], it.m[6]>>
RECURSIVE ToPtsCalls(_, _)
ToPtsCalls(items, i) ==
  IF i > Len(items) THEN <<>>
  ELSE (IF items[i].k = "g" THEN <<CompCall(PCOMP, items[i])>>
        ELSE <<<<PBEGIN>>>> \o [j \in 1..Len(items[i].pts) |->
                                 <<POp(items[i].pts[j][3]), items[i].pts[j][1], items[i].pts[j][2]>>]
             \o <<<<PEND>>>>)
       \o ToPtsCalls(items, i + 1)
SegCall(t, offsflat, p) == IF t = TLINE THEN <<LINE, p[1], p[2]>>
                           ELSE <<IF t = TCURVE THEN CURVE ELSE QCURVE>> \o offsflat \o p
RECURSIVE SegCallsWalk(_, _, _)
SegCallsWalk(seq, i, offs) ==
  IF i > Len(seq) THEN <<>>
  ELSE IF seq[i][3] = TOFF THEN SegCallsWalk(seq, i + 1, offs \o XY(seq[i]))
  ELSE <<SegCall(seq[i][3], offs, XY(seq[i]))>> \o SegCallsWalk(seq, i + 1, <<>>)
RECURSIVE FlatXY(_, _)
FlatXY(pts, i) == IF i > Len(pts) THEN <<>> ELSE XY(pts[i]) \o FlatXY(pts, i + 1)
ContourSegCalls(c) ==
  LET p == c.pts  n == Len(p) IN
  IF ~c.cl THEN <<<<MOVE, p[1][1], p[1][2]>>>> \o SegCallsWalk(p, 2, <<>>) \o <<<<END>>>>
  ELSE IF FirstOn(p) = 0 THEN << <<QBLOB>> \o FlatXY(p, 1), <<CLOSE>> >>
  ELSE LET body == SegCallsWalk(SubSeq(p, 2, n) \o <<p[1]>>, 1, <<>>)
           implied == p[1][3] = TLINE /\ XY(p[n]) # XY(p[1])
       IN <<<<MOVE, p[1][1], p[1][2]>>>>
          \o (IF implied THEN SubSeq(body, 1, Len(body) - 1) ELSE body) \o <<<<CLOSE>>>>
RECURSIVE ToSegCalls(_, _)
ToSegCalls(items, i) ==
  IF i > Len(items) THEN <<>>
  ELSE (IF items[i].k = "g" THEN <<CompCall(COMP, items[i])>> ELSE ContourSegCalls(items[i]))
       \o ToSegCalls(items, i + 1)

(* Decomposition of components against a glyph set gs (function glyphId -> items):
   the base glyph's outline mapped by the component's transformation; with
   reverseFlipped a mirroring transformation (negative determinant) also reverses the
   contour direction so that the filled side is kept.                                    *)
RECURSIVE Flatten(_, _, _, _)
Flatten(items, i, gs, revFlipped) ==
  IF i > Len(items) THEN <<>>
  ELSE (IF items[i].k = "c" THEN <<items[i]>>
        ELSE LET base == AffineShape(gs[items[i].g], items[i].m)
             IN IF revFlipped /\ Det(items[i].m) < 0 THEN RevShape(base) ELSE base)
       \o Flatten(items, i + 1, gs, revFlipped)

(* Type 2 specializer licence (named deviation, cffLib.specializer without
   preserveTopology): a curve whose control points coincide with its end points is a
   straight line; consecutive explicit horizontal (vertical) lines are summed -- even when
   they retrace -- and lines of length zero disappear.  Applied to the EXPLICIT segments
   of a contour (the implied closing line is not a charstring operator).                *)
DegenerateCubic(s) == Len(s) = 4 /\ s[1] = s[2] /\ s[3] = s[4]
Demote(s) == IF DegenerateCubic(s) THEN <<s[1], s[4]>> ELSE s
IsH(s) == Len(s) = 2 /\ s[1][2] = s[2][2] /\ s[1] # s[2]
IsV(s) == Len(s) = 2 /\ s[1][1] = s[2][1] /\ s[1] # s[2]
RECURSIVE MergeHV(_, _, _)
MergeHV(ss, i, acc) ==
  IF i > Len(ss) THEN acc
  ELSE LET s == ss[i]  n == Len(acc) IN
       IF ZeroSeg(s) THEN MergeHV(ss, i + 1, acc)
       ELSE IF n > 0 /\ ((IsH(s) /\ IsH(acc[n])) \/ (IsV(s) /\ IsV(acc[n])))
            THEN (IF acc[n][1] = s[2] THEN MergeHV(ss, i + 1, SubSeq(acc, 1, n - 1))
                  ELSE MergeHV(ss, i + 1, [acc EXCEPT ![n] = <<acc[n][1], s[2]>>]))
            ELSE MergeHV(ss, i + 1, Append(acc, s))
SpecializeItem(gc) ==
  IF gc.k # "c" THEN gc
  ELSE [gc EXCEPT !.segs = MergeHV([i \in 1..Len(gc.segs) |-> Demote(gc.segs[i])], 1, <<>>)]
(* The rules form a confluent rewriting system (sums of runs, zero sums vanish), MergeHV
   computes its normal form with a stack; both sides of a comparison are normalised.    *)
GeoT2(g) == SelectSeq(GeoPlain([i \in 1..Len(g) |-> SpecializeItem(CloseItem(g[i]))]), IsDrawn)

(***************************************************************************)
(* 5. Area and bounds, exactly                                               *)
(***************************************************************************)
(* signed area A = 1/2 \oint (x dy - y dx), counter-clockwise positive.  For a Bezier
   segment with control points P0..Pn the integral is a bilinear form in the control
   points: with [ij] = x_i y_j - x_j y_i,
     line       2A  = [01]
     quadratic  6A  = 2[01] + [02] + 2[12]
     cubic      20A = 6[01] + 3[02] + [03] + 3[12] + 3[13] + 6[23]
   (integrate the Bernstein products).  Area60 = 60 A, an integer on integer points.    *)
X(a, b) == a[1] * b[2] - b[1] * a[2]
SegArea60(s) ==
  CASE Len(s) = 2 -> 30 * X(s[1], s[2])
    [] Len(s) = 3 -> 10 * (2 * X(s[1], s[2]) + X(s[1], s[3]) + 2 * X(s[2], s[3]))
    [] Len(s) = 4 -> 3 * (6 * X(s[1], s[2]) + 3 * X(s[1], s[3]) + X(s[1], s[4])
                          + 3 * X(s[2], s[3]) + 3 * X(s[2], s[4]) + 6 * X(s[3], s[4]))
RECURSIVE SumSegs(_, _)
SumSegs(ss, i) == IF i > Len(ss) THEN 0 ELSE SegArea60(ss[i]) + SumSegs(ss, i + 1)
(* an open contour is closed by the straight line back to its start for the purpose of
   area (AreaPen accepts open contours only if they already end at the start)            *)
ContourArea60(gc) == IF gc.k # "c" THEN 0 ELSE SumSegs(gc.segs, 1) + 30 * X(EndOf(gc), gc.st)
RECURSIVE SumItems(_, _)
SumItems(g, i) == IF i > Len(g) THEN 0 ELSE ContourArea60(g[i]) + SumItems(g, i + 1)
Area60(g) == SumItems(g, 1)

(* boxes <<xMin, yMin, xMax, yMax>>; the empty outline has no box (<<>>) *)
PointsOfItem(gc, onlyOn) ==
  IF gc.k # "c" THEN {}
  ELSE {gc.st} \cup UNION {IF onlyOn THEN {gc.segs[i][1], gc.segs[i][Len(gc.segs[i])]}
                           ELSE {gc.segs[i][j] : j \in 1..Len(gc.segs[i])} : i \in 1..Len(gc.segs)}
PointSet(g, onlyOn) == UNION {PointsOfItem(g[i], onlyOn) : i \in 1..Len(g)}
SetMin(S) == CHOOSE m \in S : \A v \in S : m <= v
SetMax(S) == CHOOSE m \in S : \A v \in S : m >= v
BoxOf(P) == IF P = {} THEN <<>>
            ELSE LET xs == {p[1] : p \in P}  ys == {p[2] : p \in P}
                 IN <<SetMin(xs), SetMin(ys), SetMax(xs), SetMax(ys)>>
ControlBox(g) == BoxOf(PointSet(g, FALSE))
OnCurveBox(g) == BoxOf(PointSet(g, TRUE))
Scale4(b, s) == IF b = <<>> THEN b ELSE <<b[1] * s, b[2] * s, b[3] * s, b[4] * s>>
BoxIn(inner, outer, slack) ==   \* inner \subseteq outer, up to slack
  inner = <<>> \/ (outer # <<>> /\ outer[1] <= inner[1] + slack /\ outer[2] <= inner[2] + slack
                   /\ outer[3] >= inner[3] - slack /\ outer[4] >= inner[4] - slack)
(* the curve points at t = 1/2, times 8: (P0 + 2 P1 + P2)/4 and (P0 + 3 P1 + 3 P2 + P3)/8 *)
MidCurve8(s) ==
  CASE Len(s) = 2 -> <<4 * (s[1][1] + s[2][1]), 4 * (s[1][2] + s[2][2])>>
    [] Len(s) = 3 -> <<2 * (s[1][1] + 2 * s[2][1] + s[3][1]), 2 * (s[1][2] + 2 * s[2][2] + s[3][2])>>
    [] Len(s) = 4 -> <<s[1][1] + 3 * s[2][1] + 3 * s[3][1] + s[4][1], s[1][2] + 3 * s[2][2] + 3 * s[3][2] + s[4][2]>>
MidCurveSet8(g) == UNION {IF g[i].k # "c" THEN {} ELSE {MidCurve8(g[i].segs[j]) : j \in 1..Len(g[i].segs)} : i \in 1..Len(g)}
AllSegs(g) == UNION {IF g[i].k # "c" THEN {} ELSE {g[i].segs[j] : j \in 1..Len(g[i].segs)} : i \in 1..Len(g)}
OnlyLines(g) == \A s \in AllSegs(g) : Len(s) = 2
NoCubics(g) == \A s \in AllSegs(g) : Len(s) <= 3

(* exact extent of a quadratic segment on one axis: its end points and, when the control
   value lies strictly outside them, the extremum (p0 p2 - p1^2) / (p0 - 2 p1 + p2).
   QuadExtOK(b, ...) : the measured bound b (scaled by S) is >= / <= that value within 1.  *)
QuadAxisExt(p0, p1, p2) ==   \* <<hasInnerExtremum, num, den>>
  IF p1 < Min2(p0, p2) \/ p1 > Max2(p0, p2) THEN <<TRUE, p0 * p2 - p1 * p1, p0 - 2 * p1 + p2>>
  ELSE <<FALSE, 0, 1>>
(* the measured upper bound (hi) / lower bound (lo), scaled by S, dominates value num/den *)
DominatesHi(hi, num, den, S, slack) == IF den > 0 THEN hi * den + slack * den >= num * S
                                       ELSE hi * den - slack * den <= num * S
DominatesLo(lo, num, den, S, slack) == IF den > 0 THEN lo * den - slack * den <= num * S
                                       ELSE lo * den + slack * den >= num * S
QuadInside(s, box, S, slack) ==
  \A ax \in 1..2 :
    LET e == QuadAxisExt(s[1][ax], s[2][ax], s[3][ax]) IN
    e[1] => DominatesHi(box[ax + 2], e[2], e[3], S, slack) /\ DominatesLo(box[ax], e[2], e[3], S, slack)
(* ... and is attained: the exact extent on one axis, times S, as a rational compared by
   cross-multiplication; used for outlines without cubics                               *)
AxisValues(g, ax) ==   \* set of <<num, den>> (den > 0 after sign fix) of all extreme candidates
  UNION {IF g[i].k # "c" THEN {} ELSE
         {<<g[i].st[ax], 1>>} \cup UNION {
            LET s == g[i].segs[j] IN
            {<<s[1][ax], 1>>, <<s[Len(s)][ax], 1>>} \cup
            (IF Len(s) = 3 THEN LET e == QuadAxisExt(s[1][ax], s[2][ax], s[3][ax]) IN
                                IF e[1] THEN {IF e[3] > 0 THEN <<e[2], e[3]>> ELSE <<-e[2], -e[3]>>} ELSE {}
             ELSE {}) : j \in 1..Len(g[i].segs)} : i \in 1..Len(g)}
(* b (scaled by S) equals max (min) of the candidate set within slack *)
IsMaxOf(b, V, S, slack) == /\ \A v \in V : b * v[2] + slack * v[2] >= v[1] * S
                           /\ \E v \in V : b * v[2] - slack * v[2] <= v[1] * S
IsMinOf(b, V, S, slack) == /\ \A v \in V : b * v[2] - slack * v[2] <= v[1] * S
                           /\ \E v \in V : b * v[2] + slack * v[2] >= v[1] * S
=============================================================================
