-------------------------------- MODULE Rat --------------------------------
(* Exact rational arithmetic for TLC (32-bit integers).

   A rational is a pair <<num, den>> with den > 0 and gcd(|num|, den) = 1 (the form
   produced by every operator here).  TLC integers are 32-bit and TLC aborts on
   overflow, so every operator first asks whether its intermediate products fit
   (MulFits/AddFits, exact tests by division) and otherwise returns the poison value
   RNaN = <<0, 0>>, which every later operator propagates.  A judge tests RBad(result)
   and reports the case as "skip:overflow": a case that does not fit 31 bits is
   skipped and counted, never mis-evaluated.  Comparisons are total and exact on good
   operands (a Euclid-style comparison takes over when cross products do not fit);
   callers must not compare poisoned values (guard with RBad).

   All names carry an R/I prefix so that the module can be EXTENDed next to Codec. *)
EXTENDS Integers, Sequences, TLC

MaxInt31 == 2147483647
Fits31(n) == -MaxInt31 <= n /\ n <= MaxInt31

IAbs(x) == IF x < 0 THEN -x ELSE x
ISign(x) == IF x < 0 THEN -1 ELSE IF x > 0 THEN 1 ELSE 0
MulFits(x, y) == x = 0 \/ y = 0 \/ IAbs(x) <= MaxInt31 \div IAbs(y)
AddFits(x, y) == IF x >= 0 THEN (y <= 0 \/ x <= MaxInt31 - y)
                 ELSE (y >= 0 \/ x >= -MaxInt31 - y)

RECURSIVE RGcd(_, _)
(* NOTE (TLC): arguments of RECURSIVE operators are re-evaluated at every use (only LET values
   are cached), so every computed argument of a recursive call is LET-bound first *)
RGcd(a, b) == IF b = 0 THEN a ELSE LET r == a % b IN RGcd(b, r)          \* a, b >= 0

RNaN == <<0, 0>>
RBad(a) == a[2] = 0
ROk(a) == a[2] > 0
IsRat(a) == a[2] > 0 /\ RGcd(IAbs(a[1]), a[2]) = 1       \* canonical form

(* n/d in canonical form; d may be negative; d = 0 gives RNaN *)
Rat(n, d) ==
  IF d = 0 THEN RNaN
  ELSE LET g == RGcd(IAbs(n), IAbs(d))
       IN IF d > 0 THEN <<n \div g, d \div g>> ELSE <<(-n) \div g, (-d) \div g>>
RInt(i) == <<i, 1>>
RZero == <<0, 1>>
ROne == <<1, 1>>
RHalf == <<1, 2>>

RNeg(a) == IF RBad(a) THEN RNaN ELSE <<-a[1], a[2]>>
RAbs(a) == IF RBad(a) THEN RNaN ELSE <<IAbs(a[1]), a[2]>>
RSgn(a) == ISign(a[1])
RIsZero(a) == ROk(a) /\ a[1] = 0
RIsInt(a) == a[2] = 1

RAdd(a, b) ==
  IF RBad(a) \/ RBad(b) THEN RNaN
  ELSE IF a[2] = b[2] THEN (IF AddFits(a[1], b[1]) THEN (IF a[2] = 1 THEN <<a[1] + b[1], 1>> ELSE Rat(a[1] + b[1], a[2]))
                            ELSE RNaN)
  ELSE LET g == RGcd(a[2], b[2])
           ad == a[2] \div g
           bd == b[2] \div g
       IN IF ~(MulFits(a[1], bd) /\ MulFits(b[1], ad) /\ MulFits(a[2], bd)) THEN RNaN
          ELSE LET p == a[1] * bd
                   q == b[1] * ad
               IN IF AddFits(p, q) THEN Rat(p + q, a[2] * bd) ELSE RNaN
RSub(a, b) == RAdd(a, RNeg(b))

(* cross-cancelled product: the result is canonical, so it overflows only if the true
   value itself does not fit *)
RMul(a, b) ==
  IF RBad(a) \/ RBad(b) THEN RNaN
  ELSE IF a[1] = 0 \/ b[1] = 0 THEN RZero
  ELSE LET g1 == RGcd(IAbs(a[1]), b[2])
           g2 == RGcd(IAbs(b[1]), a[2])
           n1 == a[1] \div g1
           n2 == b[1] \div g2
           d1 == a[2] \div g2
           d2 == b[2] \div g1
       IN IF MulFits(n1, n2) /\ MulFits(d1, d2) THEN <<n1 * n2, d1 * d2>> ELSE RNaN
RInv(a) == IF RBad(a) \/ a[1] = 0 THEN RNaN
           ELSE IF a[1] > 0 THEN <<a[2], a[1]>> ELSE <<-a[2], -a[1]>>
RDiv(a, b) == RMul(a, RInv(b))

(* exact three-way comparison of good rationals without overflow: compare the integer
   parts, then the reciprocals of the fractional parts (Euclid) *)
RECURSIVE RCmpBig(_, _)
RCmpBig(a, b) ==
  LET qa == a[1] \div a[2]
      qb == b[1] \div b[2]
  IN IF qa < qb THEN -1 ELSE IF qa > qb THEN 1
     ELSE LET ra == a[1] % a[2]
              rb == b[1] % b[2]
          IN IF ra = 0 /\ rb = 0 THEN 0
             ELSE IF ra = 0 THEN -1
             ELSE IF rb = 0 THEN 1
             ELSE LET a2 == <<a[2], ra>>
                      b2 == <<b[2], rb>>
                  IN -RCmpBig(a2, b2)
(* fast path: compare the cross products directly (never subtract them: the difference of
   two fitting products of opposite sign may not fit) *)
RLt(a, b) == IF a[2] = b[2] THEN a[1] < b[1]
             ELSE IF MulFits(a[1], b[2]) /\ MulFits(b[1], a[2]) THEN a[1] * b[2] < b[1] * a[2]
             ELSE RCmpBig(a, b) < 0
RLe(a, b) == IF a[2] = b[2] THEN a[1] <= b[1]
             ELSE IF MulFits(a[1], b[2]) /\ MulFits(b[1], a[2]) THEN a[1] * b[2] <= b[1] * a[2]
             ELSE RCmpBig(a, b) <= 0
REq(a, b) == a = b                       \* canonical forms are unique
RCmp(a, b) == IF a = b THEN 0 ELSE IF RLt(a, b) THEN -1 ELSE 1
RGt(a, b) == RLt(b, a)
RGe(a, b) == RLe(b, a)
RMin(a, b) == IF RLe(a, b) THEN a ELSE b
RMax(a, b) == IF RLe(a, b) THEN b ELSE a
RIsNeg(a) == a[1] < 0
RIsPos(a) == a[1] > 0

(* Sum and product of a sequence of rationals *)
RECURSIVE RSumSeq(_, _, _)
RSumSeq(s, i, acc) == IF i > Len(s) THEN acc ELSE LET a == RAdd(acc, s[i]) IN RSumSeq(s, i + 1, a)
RSum(s) == RSumSeq(s, 1, RZero)

(* conversions used by trace specifications: JSON arrays [n, d] -> canonical rational;
   a sequence of such; integers on a lattice of denominator D *)
RFromPair(p) == Rat(p[1], p[2])
(* NOTE (TLC): [i \in S |-> e] is a lazy lambda whose body is re-evaluated at EVERY application;
   TLCEval turns it into an explicit tuple once *)
RSeq(ps) == TLCEval([i \in 1..Len(ps) |-> Rat(ps[i][1], ps[i][2])])
RLattice(i, D) == Rat(i, D)
AnyBad(s) == \E i \in 1..Len(s) : RBad(s[i])
=============================================================================
