---------------------------- MODULE ReaderFaults ----------------------------
(* The font reader under truncation and corruption.  From the OpenType "Font File"
   chapter and WOFF 1.0: what a reader that is handed the first bytes of a (damaged)
   file of total length fileLen can and cannot do.
     Open  needs the complete header and table directory (for a collection: the TTC
           header, the offset table, the v2 tail, and the chosen member's directory);
     Load  of a table needs offset + length <= fileLen.
   Outcome(...) is what the property demands: "ok" where the data is there, "error"
   (the library's own error type) where it is not or where a field is illegal, and
   "either" where this model does not decide (e.g. validity of compressed data).
   Byte access goes through B(i), which applies the fault to the base bytes.          *)
EXTENDS Integers, Sequences, FiniteSets, TLC

(* a fault-adjusted view of a file: base bytes (prefix), flips as <<pos0, val>> (0-based) *)
ByteAt(base, flip, i) == IF flip # <<>> /\ flip[1] = i THEN flip[2] ELSE base[i + 1]
Known(base, n) == n <= Len(base)                 \* are bytes [0, n) available in the prefix?

U16At(base, flip, i) == ByteAt(base, flip, i) * 256 + ByteAt(base, flip, i + 1)
(* 32-bit values as limbs, and a saturating small-int view for comparisons with lengths *)
U32Limbs(base, flip, i) == <<U16At(base, flip, i), U16At(base, flip, i + 2)>>
Big == 1073741824                                \* 2^30: anything >= Big is "beyond any test file"
U32Sat(base, flip, i) == LET l == U32Limbs(base, flip, i) IN IF l[1] >= 16384 THEN Big ELSE l[1] * 65536 + l[2]
Tag4(base, flip, i) == <<ByteAt(base, flip, i), ByteAt(base, flip, i + 1), ByteAt(base, flip, i + 2), ByteAt(base, flip, i + 3)>>

SfntVersions == { <<0, 1, 0, 0>>, <<79, 84, 84, 79>>, <<116, 114, 117, 101>> }   \* 1.0, OTTO, true
TTCF == <<116, 116, 99, 102>>
WOFF == <<119, 79, 70, 70>>
WOF2 == <<119, 79, 70, 50>>

(* ---- sfnt directory at byte offset d: result [open |-> "ok"|"error"|"unknown", entries |-> seq] ---- *)
SfntDir(base, flip, fileLen, d) ==
  IF d + 12 > fileLen THEN [open |-> "error", entries |-> <<>>]
  ELSE IF ~Known(base, d + 12) THEN [open |-> "unknown", entries |-> <<>>]
  ELSE IF Tag4(base, flip, d) \notin SfntVersions THEN [open |-> "error", entries |-> <<>>]
  ELSE LET n == U16At(base, flip, d + 4)
           endDir == d + 12 + 16 * n
       IN IF endDir > fileLen THEN [open |-> "error", entries |-> <<>>]
          ELSE IF ~Known(base, endDir) THEN [open |-> "unknown", entries |-> <<>>]
          ELSE [open |-> "ok",
                entries |-> [k \in 1..n |->
                   LET p == d + 12 + 16 * (k - 1) IN
                   [tag |-> Tag4(base, flip, p), off |-> U32Sat(base, flip, p + 8), len |-> U32Sat(base, flip, p + 12)]]]

(* an empty table has no bytes that could be missing *)
LoadOutcome(e, fileLen) == IF e.len = 0 THEN "ok" ELSE IF e.off >= Big \/ e.len >= Big \/ e.off + e.len > fileLen THEN "error" ELSE "ok"

(* ---- TTC ---- *)
TTCOpen(base, flip, fileLen, fontNumber) ==
  IF fileLen < 12 THEN [open |-> "error", entries |-> <<>>]
  ELSE IF ~Known(base, 12) THEN [open |-> "unknown", entries |-> <<>>]
  ELSE LET ver == U32Limbs(base, flip, 4)
           nf == U32Sat(base, flip, 8)
       IN IF ver \notin {<<1, 0>>, <<2, 0>>} THEN [open |-> "error", entries |-> <<>>]
          ELSE IF fontNumber < 0 \/ fontNumber >= nf THEN [open |-> "error", entries |-> <<>>]
          ELSE IF nf >= Big \/ 12 + 4 * nf + (IF ver = <<2, 0>> THEN 12 ELSE 0) > fileLen THEN [open |-> "error", entries |-> <<>>]
          ELSE IF ~Known(base, 12 + 4 * nf) THEN [open |-> "unknown", entries |-> <<>>]
          ELSE LET d == U32Sat(base, flip, 12 + 4 * fontNumber)
               IN IF d >= Big THEN [open |-> "error", entries |-> <<>>] ELSE SfntDir(base, flip, fileLen, d)

(* ---- WOFF 1.0 ---- *)
WoffOpen(base, flip, fileLen) ==
  IF fileLen < 44 THEN [open |-> "error", entries |-> <<>>]
  ELSE IF ~Known(base, 44) THEN [open |-> "unknown", entries |-> <<>>]
  ELSE IF Tag4(base, flip, 4) \notin SfntVersions THEN [open |-> "error", entries |-> <<>>]
  ELSE LET n == U16At(base, flip, 12)
           endDir == 44 + 20 * n
       IN IF endDir > fileLen THEN [open |-> "error", entries |-> <<>>]
          ELSE IF ~Known(base, endDir) THEN [open |-> "unknown", entries |-> <<>>]
          ELSE [open |-> "either",      \* metadata / private blocks are read at open too
                entries |-> [k \in 1..n |->
                   LET p == 44 + 20 * (k - 1) IN
                   [tag |-> Tag4(base, flip, p), off |-> U32Sat(base, flip, p + 4), len |-> U32Sat(base, flip, p + 8),
                    orig |-> U32Sat(base, flip, p + 12)]]]
WoffLoadOutcome(e, fileLen) ==
  IF e.len = 0 THEN "either" ELSE IF e.off >= Big \/ e.len >= Big \/ e.off + e.len > fileLen THEN "error"
  ELSE IF e.len = e.orig THEN "ok" ELSE "either"            \* compressed: validity of the stream not modelled

(* ---- top level: by signature ---- *)
Predict(base, flip, fileLen, fontNumber) ==
  IF fileLen < 4 THEN [kind |-> "sfnt", open |-> "error", entries |-> <<>>]
  ELSE LET sig == Tag4(base, flip, 0) IN
    IF sig = TTCF THEN [kind |-> "ttc"] @@ TTCOpen(base, flip, fileLen, fontNumber)
    ELSE IF sig = WOFF THEN [kind |-> "woff"] @@ WoffOpen(base, flip, fileLen)
    ELSE IF sig = WOF2 THEN [kind |-> "woff2", open |-> "either", entries |-> <<>>]
    ELSE [kind |-> "sfnt"] @@ SfntDir(base, flip, fileLen, 0)

(* the entry that a tag resolves to is the LAST directory entry carrying it *)
LastWith(entries, tag) == LET S == {k \in 1..Len(entries) : entries[k].tag = tag}
                          IN IF S = {} THEN 0 ELSE CHOOSE k \in S : \A j \in S : j <= k
Compatible(pred, obs) == pred = "either" \/ pred = "unknown" \/ pred = obs
=============================================================================
