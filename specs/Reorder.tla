------------------------------- MODULE Reorder -------------------------------
(* C17 (first half): renumbering the glyphs of a font changes nothing that is keyed by glyph NAME.

   The abstract font is the FILE-LEVEL picture of an OpenType font: everything is indexed by
   glyph id (gid = position in `order`, 1-based here; gid 1 is .notdef), exactly the structures
   the OpenType specification stores by glyph id:

     order   Seq(name)                         glyph order (post / CFF charset)
     hmtx    Seq(<<advance, lsb>>)             one entry per gid            (hmtx/vmtx/hdmx/LTSH/VORG alike)
     glyf    Seq(outline)                      per gid; a composite lists COMPONENT GIDS with offsets
     cmap    set of <<code point, gid>>
     var     Seq(row)                          per-gid variation data (gvar glyph records, HVAR implicit map)
     single  [cov, sub]                        Coverage (gids, strictly ascending) + parallel Substitute gids
     lig     [cov, sets]                       Coverage + parallel LigatureSets; a set is an ORDERED list of
                                               <<component gids, ligature gid>>
     pair    [cov, sets]                       Coverage + parallel PairSets; a PairSet is sorted by second gid
     cls     [cov, classdef, val]              Coverage + ClassDef (class per gid) + value per class pair
     mark    [mcov, marks, bcov, bases]        two Coverages, each with its parallel record array

   NameView(F) is the projection keyed by glyph name: what a user of the font observes when glyphs
   are addressed by name (outline, metrics, cmap target, the RULES each lookup denotes written with
   names, variation rows).  Reorder(F, new) is the renumbering; the property is

        NameView(Reorder(F, new)) = NameView(F)  /\  order' = new  /\  WellFormed(Reorder(F, new))

   where WellFormed demands what the OpenType specification demands of gid-ordered arrays: every
   Coverage strictly ascending by (new) gid with its parallel arrays permuted alike, PairSets ascending
   by second glyph, per-gid arrays of full length.  The operators of the first section (permutation
   algebra on sequences) are shared with the trace judge Trace_C17, which applies them to by-gid
   observations of real files (independent reader, HarfBuzz).                                     *)
EXTENDS Integers, Sequences, FiniteSets, TLC

-----------------------------------------------------------------------------
(* permutation algebra shared with the judge *)
Idx(s) == 1..Len(s)
Range(s) == {s[i] : i \in Idx(s)}
IsPermOf(a, b) == Len(a) = Len(b) /\ Range(a) = Range(b) /\ Cardinality(Range(a)) = Len(a)
IndexOf(s, x) == CHOOSE i \in Idx(s) : s[i] = x
StrictlyAscending(s) == \A i \in 1..(Len(s) - 1) : s[i] < s[i + 1]
(* old gid -> new gid, for glyph orders old/new (sequences of names) *)
GidMap(old, new) == [g \in Idx(old) |-> IndexOf(new, old[g])]
(* a per-gid array arrA of the renumbered font is arrB "permuted consistently" *)
PermutedArray(arrB, arrA, old, new) ==
  Len(arrA) = Len(arrB) /\ \A g \in Idx(new) : arrA[g] = arrB[IndexOf(old, new[g])]
(* the same with old = <<1, 2, ..., n>> (names numbered by their old glyph id), where IndexOf(old, x) = x *)
PermutedArrayId(arrB, arrA, new) ==
  Len(arrA) = Len(arrB) /\ \A g \in Idx(new) : arrA[g] = arrB[new[g]]
SortSet(S) == [i \in 1..Cardinality(S) |-> CHOOSE x \in S : Cardinality({y \in S : y < x}) = i - 1]
MapSeq(s, F(_)) == [i \in Idx(s) |-> F(s[i])]

-----------------------------------------------------------------------------
(* the name-keyed projection *)
N(F) == Len(F.order)
Names(F) == Range(F.order)
Name(F, g) == F.order[g]
Gid(F, n) == IndexOf(F.order, n)
NamesOf(F, gs) == [i \in Idx(gs) |-> Name(F, gs[i])]

OutlineByName(F, o) ==
  IF o.k = "simple" THEN o
  ELSE [k |-> "comp", parts |-> [i \in Idx(o.parts) |-> <<Name(F, o.parts[i][1]), o.parts[i][2], o.parts[i][3]>>]]

(* Denote: the rule set a lookup computes, written with names *)
DenoteSingle(F, L) == {<<Name(F, L.cov[i]), Name(F, L.sub[i])>> : i \in Idx(L.cov)}
DenoteLig(F, L) ==      \* position j inside the LigatureSet is significant (first match wins)
  UNION {{<<Name(F, L.cov[i]), j, NamesOf(F, L.sets[i][j][1]), Name(F, L.sets[i][j][2])>> : j \in Idx(L.sets[i])} :
         i \in Idx(L.cov)}
DenotePair(F, L) ==
  UNION {{<<Name(F, L.cov[i]), Name(F, L.sets[i][j][1]), L.sets[i][j][2]>> : j \in Idx(L.sets[i])} : i \in Idx(L.cov)}
DenoteCls(F, L) ==
  [covered |-> {Name(F, L.cov[i]) : i \in Idx(L.cov)},
   class   |-> [n \in Names(F) |-> L.classdef[Gid(F, n)]],
   val     |-> L.val]
DenoteMark(F, L) ==
  [marks |-> {<<Name(F, L.mcov[i]), L.marks[i]>> : i \in Idx(L.mcov)},
   bases |-> {<<Name(F, L.bcov[i]), L.bases[i]>> : i \in Idx(L.bcov)}]

NameView(F) ==
  [metrics |-> [n \in Names(F) |-> F.hmtx[Gid(F, n)]],
   outline |-> [n \in Names(F) |-> OutlineByName(F, F.glyf[Gid(F, n)])],
   cmap    |-> {<<c[1], Name(F, c[2])>> : c \in F.cmap},
   var     |-> [n \in Names(F) |-> F.var[Gid(F, n)]],
   single  |-> DenoteSingle(F, F.single),
   lig     |-> DenoteLig(F, F.lig),
   pair    |-> DenotePair(F, F.pair),
   cls     |-> DenoteCls(F, F.cls),
   mark    |-> DenoteMark(F, F.mark)]

(* what the OpenType specification requires of the gid-ordered arrays *)
WellFormed(F) ==
  /\ Cardinality(Names(F)) = N(F)
  /\ Len(F.hmtx) = N(F) /\ Len(F.glyf) = N(F) /\ Len(F.var) = N(F) /\ Len(F.cls.classdef) = N(F)
  /\ \A c \in F.cmap : c[2] \in 1..N(F)
  /\ \A g \in 1..N(F) : F.glyf[g].k = "comp" => \A i \in Idx(F.glyf[g].parts) : F.glyf[g].parts[i][1] \in 1..N(F)
  /\ StrictlyAscending(F.single.cov) /\ Len(F.single.sub) = Len(F.single.cov)
  /\ StrictlyAscending(F.lig.cov) /\ Len(F.lig.sets) = Len(F.lig.cov)
  /\ StrictlyAscending(F.pair.cov) /\ Len(F.pair.sets) = Len(F.pair.cov)
  /\ \A i \in Idx(F.pair.sets) : StrictlyAscending([j \in Idx(F.pair.sets[i]) |-> F.pair.sets[i][j][1]])
  /\ StrictlyAscending(F.cls.cov)
  /\ StrictlyAscending(F.mark.mcov) /\ Len(F.mark.marks) = Len(F.mark.mcov)
  /\ StrictlyAscending(F.mark.bcov) /\ Len(F.mark.bases) = Len(F.mark.bcov)

-----------------------------------------------------------------------------
(* the transformation.  `bug` names a deliberately wrong variant (one array left behind); the design
   transformation is bug = "none".  The wrong variants are only used by MC_Reorder's sensitivity run to
   show that NameView / WellFormed do distinguish them. *)
Reorder(F, new, bug) ==
  LET m == GidMap(F.order, new)                       \* old gid -> new gid
      old(g2) == IndexOf(F.order, new[g2])            \* new gid -> old gid
      PermArr(a) == [g2 \in Idx(new) |-> a[old(g2)]]
      (* a Coverage and its parallel array, re-sorted by new gid *)
      NewCov(cov) == SortSet({m[cov[i]] : i \in Idx(cov)})
      Src(cov, i) == CHOOSE j \in Idx(cov) : m[cov[j]] = NewCov(cov)[i]     \* where entry i came from
      Par(cov, arr, G(_)) == [i \in Idx(cov) |-> G(arr[Src(cov, i)])]
      Id(x) == x
      MapG(g) == m[g]
      MapLigSet(s) == [j \in Idx(s) |-> <<MapSeq(s[j][1], MapG), m[s[j][2]]>>]
      MapPairSet(s) ==
        LET mapped == {<<m[s[j][1]], s[j][2]>> : j \in Idx(s)}
            keys == SortSet({p[1] : p \in mapped})
        IN IF bug = "pairset-unsorted" THEN [j \in Idx(s) |-> <<m[s[j][1]], s[j][2]>>]
           ELSE [j \in Idx(keys) |-> CHOOSE p \in mapped : p[1] = keys[j]]
      MapOutline(o) ==
        IF o.k = "simple" \/ bug = "component-gid" THEN o
        ELSE [k |-> "comp", parts |-> [i \in Idx(o.parts) |-> <<m[o.parts[i][1]], o.parts[i][2], o.parts[i][3]>>]]
  IN [order  |-> new,
      hmtx   |-> IF bug = "hmtx" THEN F.hmtx ELSE PermArr(F.hmtx),
      glyf   |-> [g2 \in Idx(new) |-> MapOutline(F.glyf[old(g2)])],
      cmap   |-> {<<c[1], m[c[2]]>> : c \in F.cmap},
      var    |-> IF bug = "var-row" THEN F.var ELSE PermArr(F.var),
      single |-> [cov |-> NewCov(F.single.cov),
                  sub |-> IF bug = "single-parallel" THEN MapSeq(F.single.sub, MapG)
                          ELSE Par(F.single.cov, F.single.sub, MapG)],
      lig    |-> [cov |-> NewCov(F.lig.cov),
                  sets |-> IF bug = "lig-parallel" THEN MapSeq(F.lig.sets, MapLigSet)
                           ELSE Par(F.lig.cov, F.lig.sets, MapLigSet)],
      pair   |-> [cov |-> NewCov(F.pair.cov), sets |-> Par(F.pair.cov, F.pair.sets, MapPairSet)],
      cls    |-> [cov |-> IF bug = "coverage-unsorted" THEN MapSeq(F.cls.cov, MapG) ELSE NewCov(F.cls.cov),
                  classdef |-> PermArr(F.cls.classdef), val |-> F.cls.val],
      mark   |-> [mcov |-> NewCov(F.mark.mcov), marks |-> Par(F.mark.mcov, F.mark.marks, Id),
                  bcov |-> NewCov(F.mark.bcov),
                  bases |-> IF bug = "base-parallel" THEN F.mark.bases ELSE Par(F.mark.bcov, F.mark.bases, Id)]]

Bugs == {"hmtx", "var-row", "component-gid", "single-parallel", "lig-parallel", "pairset-unsorted",
         "coverage-unsorted", "base-parallel"}

(* the property for one renumbering *)
Preserved(F, F2, new) == F2.order = new /\ NameView(F2) = NameView(F) /\ WellFormed(F2)
=============================================================================
