------------------------------ MODULE SaveTwin ------------------------------
(* C16, "saving does not disturb the font": two copies A and B of the same in-memory font
   receive the same history of edits and reads; A is additionally saved / dumped / compiled at
   arbitrary points.  A final save of both must write identical bytes, and two consecutive
   saves of A with no edit in between must write identical bytes.
   Tables: "src" tables hold content; "drv" tables hold fields the library derives from src
   tables at compile time (loca from glyf, maxp.numGlyphs, hhea.numberOfHMetrics, ...) - a
   save overwrites them; "hid" is compile-time residue in the object model (chosen formats,
   counts, split subtables, extension promotion, DontShare marks).  The encoder may read
   hid only if ResidueMatters - the design is correct exactly when it does not.       *)
EXTENDS Integers, Sequences, FiniteSets, TLC

CONSTANTS Val,            \* content values
          MaxOps,         \* history length bound
          ResidueMatters  \* FALSE in the design; TRUE shows what the property guards against

VARIABLES a, b,        \* the two copies: [src, drv, hid]
          lastA,       \* bytes A wrote at its last save, or <<>>
          cleanA,      \* no edit since A's last save
          n, phase, outA, outB
vars == <<a, b, lastA, cleanA, n, phase, outA, outB>>

Derive(s) == <<"d", s>>
Residue(s) == <<"r", s>>
Fresh == [src |-> 0, drv |-> Derive(0), hid |-> <<"r", -1>>]
Enc(x) == IF ResidueMatters THEN <<x.src, Derive(x.src), x.hid>> ELSE <<x.src, Derive(x.src)>>
(* residue is sticky: what an earlier compile decided (e.g. a lookup promoted to Extension) stays *)
Compiled(x) == [x EXCEPT !.drv = Derive(x.src), !.hid = IF x.hid = <<"r", -1>> THEN Residue(x.src) ELSE x.hid]

Init == a = Fresh /\ b = Fresh /\ lastA = <<>> /\ cleanA = FALSE /\ n = 0 /\ phase = "run" /\ outA = <<>> /\ outB = <<>>

EditSrc(v) == /\ phase = "run" /\ n < MaxOps /\ a' = [a EXCEPT !.src = v] /\ b' = [b EXCEPT !.src = v]
              /\ cleanA' = FALSE /\ n' = n + 1 /\ UNCHANGED <<lastA, phase, outA, outB>>
EditDrv(v) == /\ phase = "run" /\ n < MaxOps /\ a' = [a EXCEPT !.drv = <<"u", v>>] /\ b' = [b EXCEPT !.drv = <<"u", v>>]
              /\ cleanA' = FALSE /\ n' = n + 1 /\ UNCHANGED <<lastA, phase, outA, outB>>
SaveA == /\ phase = "run" /\ n < MaxOps
         /\ lastA' = Enc(Compiled(a)) /\ a' = Compiled(a) /\ cleanA' = TRUE /\ n' = n + 1
         /\ UNCHANGED <<b, phase, outA, outB>>
DumpA == /\ phase = "run" /\ n < MaxOps /\ n' = n + 1 /\ UNCHANGED <<a, b, lastA, cleanA, phase, outA, outB>>
Finish == /\ phase = "run" /\ phase' = "done" /\ outA' = Enc(Compiled(a)) /\ outB' = Enc(Compiled(b))
          /\ UNCHANGED <<a, b, lastA, cleanA, n>>
Next == (\E v \in Val : EditSrc(v) \/ EditDrv(v)) \/ SaveA \/ DumpA \/ Finish

SaveTransparent == phase = "done" => outA = outB
SaveIdempotent == (phase = "run" /\ cleanA /\ lastA # <<>>) => Enc(Compiled(a)) = lastA
=============================================================================
