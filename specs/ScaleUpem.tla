------------------------------ MODULE ScaleUpem ------------------------------
(* C17 (second half): changing the units-per-em from U to U2 scales every design-unit quantity by
   k = U2/U, within rounding, and changes nothing else.

   Numbers are exact: k = <<num, den>> (reduced, den > 0); a stored integer v becomes
   v' = OtRound(k*v) = floor(k*v + 1/2)  (OpenType's rounding of a scaled design-unit value).
   What an observer can demand afterwards depends on how the quantity is STORED:

     kind "abs"  the stored number is the quantity itself: TrueType point coordinates, component
                 offsets, advances and side bearings, font-wide metrics (head/hhea/vhea/OS/2/post),
                 GPOS value records and anchors, kern values, BASE/MATH values, VORG origins, and every
                 variation DELTA (a delta is a difference of design-unit quantities, stored as a number).
                 Bound: |v' - k*v| <= 1/2.
     kind "rel"  the quantity is the sum of the first n stored numbers (CFF/CFF2 charstrings store every
                 point relative to the previous one; a glyph's j-th point is the sum of j stored deltas
                 per axis).  Each stored number is rounded separately, so the error accumulates:
                 |P'_n - k*P_n| <= n/2.
     a quantity computed from h separately rounded numbers of either kind (an HarfBuzz pen position =
                 nominal advance + value record; a composite's point = component offset + point; a bounding
                 box of relative outlines) has bound h/2.  Within(k, v, v', h) states all of these.

   NothingElse: flags, glyph classes, indices, F2Dot14 transforms, variation REGIONS (normalised
   coordinates), names, the number and order of all items are identical.

   The judge Trace_C17 applies Within / the skeleton equality to projections of real fonts before and
   after fontTools' scale_upem; MC_ScaleUpem checks that the transformation specified here satisfies the
   stated bounds for the factors {1/2, 2, 3/2, 1000/2048}, that the bounds cannot be tightened to the
   next smaller one (witnesses), and that OtRound is the OpenType rounding.                            *)
EXTENDS Integers, Sequences, FiniteSets, TLC

MaxInt31 == 2147483647
SAbs(x) == IF x < 0 THEN -x ELSE x
SMulFits(x, y) == x = 0 \/ y = 0 \/ SAbs(x) <= MaxInt31 \div SAbs(y)

RECURSIVE SGcd(_, _)
SGcd(a, b) == IF b = 0 THEN a ELSE LET r == a % b IN SGcd(b, r)
Factor(u, u2) == LET g == SGcd(u2, u) IN <<u2 \div g, u \div g>>          \* k = u2/u reduced

(* floor(n/d + 1/2) for d > 0: TLC's \div is the floor division *)
OtRoundRat(n, d) == (2 * n + d) \div (2 * d)
ScaleNum(k, v) == OtRoundRat(k[1] * v, k[2])

(* |v2 - k*v| <= h/2, in integers:  2*|den*v2 - num*v| <= h*den *)
Fits(k, v, v2, h) == SMulFits(k[2], v2) /\ SMulFits(k[1], v) /\ SMulFits(2 * SAbs(k[2] * v2 - k[1] * v), 1)
                     /\ SAbs(k[2] * v2) <= 500000000 /\ SAbs(k[1] * v) <= 500000000 /\ SMulFits(h, k[2])
Within(k, v, v2, h) == 2 * SAbs(k[2] * v2 - k[1] * v) <= h * k[2]

RECURSIVE PrefixSum(_, _)
PrefixSum(s, j) == IF j = 0 THEN 0 ELSE s[j] + PrefixSum(s, j - 1)

-----------------------------------------------------------------------------
(* the abstract scalable font and the transformation *)
(*   F = [upem, abs : Seq(Int), rel : Seq(Seq(Int)), other : anything]                                  *)
Scale(F, k) ==
  [upem  |-> (F.upem * k[1]) \div k[2],
   abs   |-> [i \in 1..Len(F.abs) |-> ScaleNum(k, F.abs[i])],
   rel   |-> [p \in 1..Len(F.rel) |-> [i \in 1..Len(F.rel[p]) |-> ScaleNum(k, F.rel[p][i])]],
   other |-> F.other]

UpemExact(F, F2, k) == F2.upem * k[2] = F.upem * k[1]
ScaledAbs(F, F2, k) == Len(F2.abs) = Len(F.abs) /\ \A i \in 1..Len(F.abs) : Within(k, F.abs[i], F2.abs[i], 1)
ScaledRel(F, F2, k) ==
  /\ Len(F2.rel) = Len(F.rel)
  /\ \A p \in 1..Len(F.rel) :
       /\ Len(F2.rel[p]) = Len(F.rel[p])
       /\ \A j \in 1..Len(F.rel[p]) : Within(k, PrefixSum(F.rel[p], j), PrefixSum(F2.rel[p], j), j)
Scaled(F, F2, k) == UpemExact(F, F2, k) /\ ScaledAbs(F, F2, k) /\ ScaledRel(F, F2, k)
NothingElse(F, F2) == F2.other = F.other
=============================================================================
