--------------------------- MODULE SfntContainer ---------------------------
(* The sfnt / TTC / WOFF / WOFF2 container layouts (OpenType "Font File", WOFF 1.0,
   WOFF 2.0) as predicates over a directory, and the sfnt writer as a state machine.
   Unsigned 32-bit values (checksums) are limb pairs <<hi16, lo16>>.
   The same predicates are (a) invariants of the writer machine checked exhaustively in
   MC_SfntContainer and (b) the clauses Trace_C04 evaluates on files written by the real
   library and read back by the independent reader.                                   *)
EXTENDS Integers, Sequences, FiniteSets, TLC

Pad4(n) == ((n + 3) \div 4) * 4
Max(a, b) == IF a > b THEN a ELSE b
Min(a, b) == IF a < b THEN a ELSE b
RECURSIVE Pow2Floor(_)            \* largest power of two <= n (n >= 1)
Pow2Floor(n) == IF n < 2 THEN 1 ELSE 2 * Pow2Floor(n \div 2)
RECURSIVE Log2Floor(_)
Log2Floor(n) == IF n < 2 THEN 0 ELSE 1 + Log2Floor(n \div 2)

(* ---- 32-bit arithmetic on limbs ---- *)
LAdd(a, b) == LET lo == a[2] + b[2] IN <<(a[1] + b[1] + lo \div 65536) % 65536, lo % 65536>>
LSub(a, b) == LET lo == a[2] - b[2]
                  borrow == IF lo < 0 THEN 1 ELSE 0
              IN <<(a[1] - b[1] - borrow + 131072) % 65536, (lo + 65536) % 65536>>
RECURSIVE LSum(_, _)
LSum(s, i) == IF i > Len(s) THEN <<0, 0>> ELSE LAdd(s[i], LSum(s, i + 1))
Magic == <<45488, 44986>>          \* 0xB1B0AFBA

(* ---- tag order: tags are sequences of 4 byte codes ---- *)
RECURSIVE SeqLess(_, _, _)
SeqLess(a, b, i) == IF i > Len(a) \/ i > Len(b) THEN Len(a) < Len(b)
                    ELSE IF a[i] # b[i] THEN a[i] < b[i] ELSE SeqLess(a, b, i + 1)
TagLess(a, b) == SeqLess(a, b, 1)

(* ---- directory predicates; dir = sequence of [tag, off, len, ...] in directory order,
        hdrEnd = first byte after header+directory, fileLen = total length ---- *)
Aligned(dir) == \A i \in 1..Len(dir) : dir[i].off % 4 = 0
DirectorySorted(dir) == \A i \in 1..(Len(dir) - 1) : TagLess(dir[i].tag, dir[i + 1].tag)
TagsUnique(dir) == \A i, j \in 1..Len(dir) : i # j => dir[i].tag # dir[j].tag
InsideFile(dir, hdrEnd, fileLen) == \A i \in 1..Len(dir) : dir[i].off >= hdrEnd /\ dir[i].off + dir[i].len <= fileLen
(* two entries either denote the very same block (TTC sharing) or do not overlap,
   padding included *)
NonOverlapping(dir) ==
  \A i, j \in 1..Len(dir) : i # j =>
     \/ (dir[i].off = dir[j].off /\ dir[i].len = dir[j].len)
     \/ dir[i].off + Pad4(dir[i].len) <= dir[j].off
     \/ dir[j].off + Pad4(dir[j].len) <= dir[i].off
SearchFields(n, itemSize, sr, es, rs) ==
  /\ sr = itemSize * Pow2Floor(n) /\ es = Log2Floor(n) /\ rs = n * itemSize - sr

SfntHeaderEnd(n) == 12 + 16 * n
WoffHeaderEnd(n) == 44 + 20 * n

=============================================================================
