----------------------------- MODULE SfntWriter -----------------------------
(* The sfnt writer (fontTools.ttLib.sfnt.SFNTWriter) as a state machine, one action per
   code step: NewWriter, WriteTable (offset := nextTableOffset; nextTableOffset advances by
   the 4-byte padded length; per-table checksum), Close (directory sorted by tag, search
   fields, master checksum).  TTC: several fonts written one after the other with a shared
   table cache (an already written (tag, payload) is referenced instead of rewritten).
   WOFF: 44-byte header, 20-byte entries, same placement rule on (compressed) lengths.   *)
EXTENDS SfntContainer

CONSTANTS TagSet,        \* set of tags, each a sequence of byte codes, e.g. {<<1>>, <<2>>}
          WordSet,       \* set of limb pairs a payload word may be
          MaxWords,      \* payload length bound (in 32-bit words)
          MaxFonts,      \* 1 = plain sfnt; 2 = TTC with two member fonts
          Flavors,       \* subset of {"sfnt", "woff"}
          SlackSet       \* how many bytes short of a whole word a payload may be

VARIABLES phase,     \* "new" | "writing" | "closed"
          flavor, nFonts, font,      \* current member font index
          n,         \* numTables of the current font
          dir,       \* entries written for the current font, in write order
          next,      \* nextTableOffset
          cache,     \* set of [tag, words, len, off] already written (TTC sharing)
          done       \* sequence of closed directories (sorted), one per font
vars == <<phase, flavor, nFonts, font, n, dir, next, cache, done>>

Payloads == UNION {[1..k -> WordSet] : k \in 0..MaxWords}
Slack(w) == IF Len(w) = 0 THEN {0} ELSE SlackSet          \* length need not be a multiple of 4
HdrEnd(fl, nf, k, fontIdx) ==
  IF fl = "woff" THEN WoffHeaderEnd(k)
  ELSE IF nf = 1 THEN SfntHeaderEnd(k) ELSE 0   \* TTC directories are placed by NewFont

Init == /\ phase = "new" /\ flavor \in Flavors /\ nFonts \in 1..MaxFonts /\ font = 1
        /\ n = 0 /\ dir = <<>> /\ next = 0 /\ cache = {} /\ done = <<>>

NewWriter(k) ==
  /\ phase = "new" /\ (flavor = "woff" => nFonts = 1)
  /\ n' = k /\ phase' = "writing" /\ dir' = <<>>
  /\ next' = IF flavor = "woff" THEN WoffHeaderEnd(k)
             ELSE IF nFonts = 1 THEN SfntHeaderEnd(k)
             ELSE 12 + 4 * nFonts + SfntHeaderEnd(k)          \* ttc header + offset table + first directory
  /\ UNCHANGED <<flavor, nFonts, font, cache, done>>

WriteTable(t, w, s) ==
  /\ phase = "writing" /\ Len(dir) < n
  /\ \A i \in 1..Len(dir) : dir[i].tag # t
  /\ LET len == 4 * Len(w) - s
         hit == {c \in cache : c.tag = t /\ c.words = w /\ c.len = len}
     IN IF hit # {} /\ nFonts > 1
        THEN LET c == CHOOSE c \in hit : TRUE       \* shared: reference the earlier block
             IN /\ dir' = Append(dir, [tag |-> t, off |-> c.off, len |-> len, sum |-> LSum(w, 1)])
                /\ UNCHANGED <<next, cache>>
        ELSE /\ dir' = Append(dir, [tag |-> t, off |-> next, len |-> len, sum |-> LSum(w, 1)])
             /\ next' = next + Pad4(len)
             /\ cache' = cache \cup {[tag |-> t, words |-> w, len |-> len, off |-> next]}
  /\ UNCHANGED <<phase, flavor, nFonts, font, n, done>>

RECURSIVE InsertSorted(_, _)
InsertSorted(s, e) == IF s = <<>> THEN <<e>>
                      ELSE IF TagLess(e.tag, Head(s).tag) THEN <<e>> \o s
                      ELSE <<Head(s)>> \o InsertSorted(Tail(s), e)
RECURSIVE SortDir(_)
SortDir(s) == IF s = <<>> THEN <<>> ELSE InsertSorted(SortDir(Tail(s)), Head(s))

CloseFont ==
  /\ phase = "writing" /\ Len(dir) = n
  /\ done' = Append(done, SortDir(dir))
  /\ IF font < nFonts
     THEN /\ font' = font + 1 /\ phase' = "nextfont" /\ UNCHANGED <<n, dir, next>>
     ELSE /\ phase' = "closed" /\ UNCHANGED <<font, n, dir, next>>
  /\ UNCHANGED <<flavor, nFonts, cache>>

NewFont(k) ==     \* next TTC member: its directory is placed at the current end of data
  /\ phase = "nextfont"
  /\ n' = k /\ dir' = <<>> /\ phase' = "writing"
  /\ next' = next + SfntHeaderEnd(k)
  /\ UNCHANGED <<flavor, nFonts, font, cache, done>>

Next == \/ \E k \in 1..Cardinality(TagSet) : NewWriter(k) \/ NewFont(k)
        \/ \E t \in TagSet, w \in Payloads : \E s \in Slack(w) : WriteTable(t, w, s)
        \/ CloseFont
Spec == Init /\ [][Next]_vars

(* ---- the property's clauses as invariants of the design ---- *)
AllDirs == [i \in 1..Len(done) |-> done[i]]
Flat == IF phase = "writing" THEN dir ELSE <<>>
InvAligned == Aligned(dir) /\ next % 4 = 0 /\ \A i \in 1..Len(done) : Aligned(done[i])
InvNonOverlap == /\ NonOverlapping(dir)
                 /\ \A k \in 1..Len(done) : NonOverlapping(done[k])
                 /\ \A i, j \in 1..Len(done) : NonOverlapping(done[i] \o done[j])
InvSorted == \A i \in 1..Len(done) : DirectorySorted(done[i]) /\ TagsUnique(done[i])
InvInside == \A i \in 1..Len(dir) : dir[i].off + Pad4(dir[i].len) <= next
InvShared == \A i, j \in 1..Len(done) : \A a \in 1..Len(done[i]), b \in 1..Len(done[j]) :
                (done[i][a].off = done[j][b].off /\ done[i][a].len > 0 /\ done[j][b].len > 0) => done[i][a].len = done[j][b].len /\ done[i][a].sum = done[j][b].sum

(* master checksum theorem on the single-font sfnt: with adj := Magic - Sum(file with adj = 0),
   the words of the finished file (adj included) sum to Magic *)
HeaderWords(k) == << <<1, 0>>, <<k, 16 * Pow2Floor(k)>>, <<Log2Floor(k), 16 * k - 16 * Pow2Floor(k)>> >>
EntryWords(e) == << <<e.tag[1], 0>>, e.sum, <<0, e.off>>, <<0, e.len>> >>
RECURSIVE DirWords(_)
DirWords(d) == IF d = <<>> THEN <<>> ELSE EntryWords(Head(d)) \o DirWords(Tail(d))
FileSum0(d) == LAdd(LSum(HeaderWords(Len(d)), 1), LAdd(LSum(DirWords(d), 1), LSum([i \in 1..Len(d) |-> d[i].sum], 1)))
InvMaster == (phase = "closed" /\ flavor = "sfnt" /\ nFonts = 1) =>
                LET adj == LSub(Magic, FileSum0(done[1])) IN LAdd(FileSum0(done[1]), adj) = Magic
ASSUME InvSearch == \A k \in 1..64 : LET sr == 16 * Pow2Floor(k) IN
                sr <= 16 * k /\ 2 * sr > 16 * k /\ Pow2Floor(k) = 2 ^ Log2Floor(k)
=============================================================================
