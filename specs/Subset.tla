------------------------------- MODULE Subset -------------------------------
(* The fontTools subsetter (Lib/fontTools/subset/__init__.py, Subsetter.subset =
   _prune_pre_subset; _closure_glyphs; _subset_glyphs; _prune_post_subset) as a state machine over
   an abstract font, with the staged glyph sets the real Subsetter keeps as attributes as variables,
   and the clauses of property C07 as state predicates.

   ABSTRACT FONT (JSON written by harness/c07.py; JSON arrays are tuples, objects records).  Glyphs are
   the integers 1..n; glyph g is glyph id g-1 of the ORIGINAL font (so glyph 1 is gid 0 / .notdef):
     Font = [ n     |-> number of glyphs,
              glyf  |-> BOOLEAN            TrueType flavour (gid 0..3 are the "recommended glyphs"),
              cmap  |-> << <<u, g>>, ... >>   the Unicode cmap subtables, merged
              comp  |-> << <<g, <<c, ...>>>>, ... >>   composite glyph g uses components c (glyf; CFF seac),
              math  |-> << <<g, <<v, ...>>>>, ... >>   MATH variants/assembly parts of g,
              colr  |-> << <<g, <<l, ...>>>>, ... >>   COLR layer / paint glyphs of base glyph g,
              L     |-> layout in the schema of OTLSem (gdef, gsub, gpos, adv) ]
     Request = [ unicodes |-> <<u, ...>>, glyphs |-> <<g, ...>> ]   (glyph names and glyph ids alike)
     Options = [ retain, notdef, recommended, closure : BOOLEAN,
                 feats   |-> <<tag, ...>>   layout_features ("*" = all),
                 scripts |-> <<tag, ...>>   layout_scripts  ("*" = all) ]

   GLYPH CLOSURE.  What a lookup can produce from a set of glyphs is written from the OpenType GSUB
   chapter rule by rule (a rule fires only if each of its glyph positions can be filled from the glyph
   set); the closure of a start set is the LEAST set containing it and closed under every lookup
   reachable from a retained feature.  MinClosure is that least fixed point, followed by the closures
   under COLR layers and composite components.  The real code over-approximates it in places
   (positions after a non 1-to-1 nested lookup: "chaos"); the property is MinClosure \subseteq retained.
   Named lower-bound rule ChaosSkipped: a sequence-lookup record that addresses a position at or after
   one where an earlier record of the same rule applied a lookup that can change the sequence length
   contributes nothing to MinClosure (the glyph found there is not determined by the rule alone).      *)
EXTENDS OTLSem, TLC

Dom1(m) == {m[k][1] : k \in 1..Len(m)}
Min2(a, b) == IF a <= b THEN a ELSE b
InterS(s, S) == {g \in SeqRange(s) : g \in S}                     \* glyphs of the glyph list s that are in S
AllHit(pats, S) == \A k \in 1..Len(pats) : \E g \in SeqRange(pats[k]) : g \in S
Has(s, x) == \E k \in 1..Len(s) : s[k] = x

(* one step along a "glyph -> glyphs it needs" relation (components, MATH variants, COLR layers) *)
RefStep(rel, S) == UNION {SeqRange(rel[k][2]) : k \in {k \in 1..Len(rel) : rel[k][1] \in S}}
RECURSIVE RefLfp(_, _)
RefLfp(rel, S) == LET S2 == S \cup RefStep(rel, S) IN IF S2 = S THEN S ELSE RefLfp(rel, S2)

-----------------------------------------------------------------------------
(* Options applied to the layout tables (prune_pre_subset: subset_script_tags, subset_feature_tags,
   then lookups not reachable from a remaining feature are neutered) *)
KeepTag(list, t) == Has(list, "*") \/ Has(list, t)
KeptFl(tb, opts) == SelectSeq(tb.fl, LAMBDA e : KeepTag(opts.scripts, e[1]) /\ KeepTag(opts.feats, e[3]))
TopLookups(fl, nl) == {i \in UNION {SeqRange(fl[k][4]) : k \in 1..Len(fl)} : i >= 1 /\ i <= nl}
NestedOf(lk) == IF lk.ty # "ctx" THEN {}
                ELSE UNION {UNION {{lk.st[s].r[r].n[j][2] : j \in 1..Len(lk.st[s].r[r].n)} : r \in 1..Len(lk.st[s].r)}
                            : s \in 1..Len(lk.st)}
RECURSIVE ReachLookups(_, _)
ReachLookups(T, R) == LET R2 == R \cup {i \in UNION {NestedOf(T[j]) : j \in R} : i >= 1 /\ i <= Len(T)}
                      IN IF R2 = R THEN R ELSE ReachLookups(T, R2)

-----------------------------------------------------------------------------
(* What lookup li adds, applied at positions holding a glyph of `cur`, in glyph sequences over S *)
OneToOne(lk) == lk.ty \in {"sub1", "sub3", "rsub"}
Covered(lk) == IF lk.ty \in {"sub1", "sub2", "sub3"} THEN UNION {Dom1(lk.st[s].m) : s \in 1..Len(lk.st)}
               ELSE IF lk.ty = "rsub" THEN UNION {UNION {Dom1(lk.st[s].r[r].m) : r \in 1..Len(lk.st[s].r)} : s \in 1..Len(lk.st)}
               ELSE {}

RECURSIVE LkStep(_, _, _, _, _)
RECURSIVE CtxRecs(_, _, _, _, _, _, _, _)
(* sequence-lookup records of one matched rule, in order; pos[k] = glyphs possible at input position k;
   positions >= chaos are no longer determined (ChaosSkipped) *)
CtxRecs(T, recs, k, pos, chaos, S, fuel, acc) ==
  IF k > Len(recs) THEN acc
  ELSE LET idx == recs[k][1] + 1
           nl == recs[k][2]
       IN IF idx > Len(pos) \/ nl < 1 \/ nl > Len(T) \/ idx >= chaos
          THEN CtxRecs(T, recs, k + 1, pos, chaos, S, fuel, acc)
          ELSE LET add == LkStep(T, nl, S, pos[idx], fuel - 1)
               IN IF OneToOne(T[nl])
                  THEN CtxRecs(T, recs, k + 1, [pos EXCEPT ![idx] = (@ \ Covered(T[nl])) \cup add], chaos, S, fuel, acc \cup add)
                  ELSE CtxRecs(T, recs, k + 1, pos, Min2(chaos, idx), S, fuel, acc \cup add)

StStep(T, ty, st, S, cur, fuel) ==
  CASE ty = "sub1" -> {st.m[k][2] : k \in {k \in 1..Len(st.m) : st.m[k][1] \in cur}}
    [] ty \in {"sub2", "sub3"} -> UNION {SeqRange(st.m[k][2]) : k \in {k \in 1..Len(st.m) : st.m[k][1] \in cur}}
    [] ty = "sub4" -> {st.l[k][2] : k \in {k \in 1..Len(st.l) :
                           /\ Len(st.l[k][1]) >= 1 /\ st.l[k][1][1] \in cur
                           /\ \A j \in 2..Len(st.l[k][1]) : st.l[k][1][j] \in S}}
    [] ty = "rsub" -> UNION {IF AllHit(st.r[r].b, S) /\ AllHit(st.r[r].a, S)
                             THEN {st.r[r].m[k][2] : k \in {k \in 1..Len(st.r[r].m) : st.r[r].m[k][1] \in cur}}
                             ELSE {} : r \in 1..Len(st.r)}
    [] ty = "ctx" -> UNION {LET R == st.r[r] IN
                            IF fuel = 0 \/ Len(R.i) = 0 THEN {}
                            ELSE IF InterS(R.i[1], cur) = {} \/ ~AllHit(R.i, S) \/ ~AllHit(R.b, S) \/ ~AllHit(R.a, S) THEN {}
                            ELSE CtxRecs(T, R.n, 1,
                                         [k \in 1..Len(R.i) |-> IF k = 1 THEN InterS(R.i[1], cur) ELSE InterS(R.i[k], S)],
                                         Len(R.i) + 1, S, fuel, {})
                            : r \in 1..Len(st.r)}
    [] OTHER -> {}
LkStep(T, li, S, cur, fuel) == UNION {StStep(T, T[li].ty, T[li].st[s], S, cur, fuel) : s \in 1..Len(T[li].st)}

Fuel == 4
GsubStep(T, top, U, S) == S \cup (UNION {LkStep(T, li, S, S, Fuel) : li \in top} \cap U)
RECURSIVE GsubLfp(_, _, _, _)
GsubLfp(T, top, U, S) == LET S2 == GsubStep(T, top, U, S) IN IF S2 = S THEN S ELSE GsubLfp(T, top, U, S2)

-----------------------------------------------------------------------------
(* The request, resolved against the font *)
Universe(font) == 1..font.n
ReqGlyphs(font, req) == SeqRange(req.glyphs) \cap Universe(font)
CmapGlyphs(font, us) == LET U == SeqRange(us) IN {font.cmap[k][2] : k \in {k \in 1..Len(font.cmap) : font.cmap[k][1] \in U}} \cap Universe(font)
Specials(font, opts) == (IF opts.notdef THEN {1} ELSE {})
                        \cup (IF opts.recommended /\ font.glyf THEN 1..Min2(4, font.n) ELSE {})
StartSet(font, req, opts) == ReqGlyphs(font, req) \cup CmapGlyphs(font, req.unicodes) \cup Specials(font, opts)
ActiveTop(font, opts) == TopLookups(KeptFl(font.L.gsub, opts), Len(font.L.gsub.lookups))

(* MinClosure, computed (iteration from below) *)
MinGsub(font, req, opts) ==
  LET s0 == StartSet(font, req, opts)
      s1 == s0 \cup (RefStep(font.math, s0) \cap Universe(font))       \* MATH variants: one step, as the code does
  IN IF opts.closure THEN GsubLfp(font.L.gsub.lookups, ActiveTop(font, opts), Universe(font), s1) ELSE s1
MinClosure(font, req, opts) ==
  RefLfp(font.comp, RefLfp(font.colr, MinGsub(font, req, opts))) \cap Universe(font)

(* MinClosure, declared: the least set that contains the start set and is closed under every rule *)
ClosedGsub(font, opts, S) == GsubStep(font.L.gsub.lookups, ActiveTop(font, opts), Universe(font), S) = S
Least(U, P(_)) == CHOOSE S \in SUBSET U : P(S) /\ \A T \in SUBSET U : P(T) => S \subseteq T
MinClosureDecl(font, req, opts) ==
  LET s0 == StartSet(font, req, opts)
      s1 == s0 \cup (RefStep(font.math, s0) \cap Universe(font))
      g == IF opts.closure THEN Least(Universe(font), LAMBDA S : s1 \subseteq S /\ ClosedGsub(font, opts, S)) ELSE s1
      c == Least(Universe(font), LAMBDA S : g \subseteq S /\ RefStep(font.colr, S) \subseteq S)
  IN Least(Universe(font), LAMBDA S : c \subseteq S /\ RefStep(font.comp, S) \subseteq S)

-----------------------------------------------------------------------------
(* Renumbering *)
MaxOf(S) == CHOOSE x \in S : \A y \in S : y <= x
RECURSIVE AscSeq(_, _, _)
AscSeq(S, i, n) == IF i > n THEN <<>> ELSE (IF i \in S THEN <<i>> ELSE <<>>) \o AscSeq(S, i + 1, n)
NewOrder(font, kept, retain) == IF kept = {} THEN <<>>
                                ELSE IF retain THEN [i \in 1..MaxOf(kept) |-> i] ELSE AscSeq(kept, 1, font.n)
NewOf(order, g) == FirstIdx({k \in 1..Len(order) : order[k] = g})       \* 0 if g has no new id
MapG(order, s) == [k \in 1..Len(s) |-> NewOf(order, s[k])]
FilterS(s, S) == SelectSeq(s, LAMBDA g : g \in S)

(* Tables restricted to the glyph set S (= glyphs_gsubed for the layout tables) and renumbered.
   A rule survives iff every one of its glyph positions can still be filled; glyph sets/classes shrink. *)
SubSt(ty, st, S, ord) ==
  CASE ty = "sub1" -> LET kept == SelectSeq(st.m, LAMBDA e : e[1] \in S /\ e[2] \in S)
                      IN [m |-> [k \in 1..Len(kept) |-> <<NewOf(ord, kept[k][1]), NewOf(ord, kept[k][2])>>]]
    [] ty = "sub2" -> LET kept == SelectSeq(st.m, LAMBDA e : e[1] \in S /\ \A j \in 1..Len(e[2]) : e[2][j] \in S)
                      IN [m |-> [k \in 1..Len(kept) |-> <<NewOf(ord, kept[k][1]), MapG(ord, kept[k][2])>>]]
    [] ty = "sub3" -> LET kept == SelectSeq(st.m, LAMBDA e : e[1] \in S /\ \E j \in 1..Len(e[2]) : e[2][j] \in S)
                      IN [m |-> [k \in 1..Len(kept) |-> <<NewOf(ord, kept[k][1]), MapG(ord, FilterS(kept[k][2], S))>>]]
    [] ty = "sub4" -> LET kept == SelectSeq(st.l, LAMBDA e : e[2] \in S /\ \A j \in 1..Len(e[1]) : e[1][j] \in S)
                      IN [l |-> [k \in 1..Len(kept) |-> <<MapG(ord, kept[k][1]), NewOf(ord, kept[k][2])>>]]
    [] ty = "ctx" -> LET cut(R) == [b |-> [k \in 1..Len(R.b) |-> FilterS(R.b[k], S)], i |-> [k \in 1..Len(R.i) |-> FilterS(R.i[k], S)],
                                    a |-> [k \in 1..Len(R.a) |-> FilterS(R.a[k], S)], n |-> R.n]
                         full(R) == (\A k \in 1..Len(R.b) : R.b[k] # <<>>) /\ (\A k \in 1..Len(R.i) : R.i[k] # <<>>) /\ (\A k \in 1..Len(R.a) : R.a[k] # <<>>)
                         kept == SelectSeq([k \in 1..Len(st.r) |-> cut(st.r[k])], full)
                     IN [r |-> [k \in 1..Len(kept) |-> [b |-> [j \in 1..Len(kept[k].b) |-> MapG(ord, kept[k].b[j])],
                                                        i |-> [j \in 1..Len(kept[k].i) |-> MapG(ord, kept[k].i[j])],
                                                        a |-> [j \in 1..Len(kept[k].a) |-> MapG(ord, kept[k].a[j])], n |-> kept[k].n]]]
    [] ty = "pos1" -> LET kept == SelectSeq(st.m, LAMBDA e : e[1] \in S)
                      IN [m |-> [k \in 1..Len(kept) |-> <<NewOf(ord, kept[k][1]), kept[k][2]>>]]
    [] ty = "pos2" -> LET kept == SelectSeq(st.p, LAMBDA e : e[1] \in S /\ e[2] \in S)          \* glyph pairs (f = 1) only
                      IN [f |-> 1, v2 |-> st.v2, p |-> [k \in 1..Len(kept) |-> <<NewOf(ord, kept[k][1]), NewOf(ord, kept[k][2]), kept[k][3], kept[k][4]>>]]
    [] OTHER -> st
StEmpty(ty, st) == CASE ty \in {"sub1", "sub2", "sub3", "pos1"} -> st.m = <<>>
                     [] ty = "sub4" -> st.l = <<>>  [] ty = "ctx" -> st.r = <<>>  [] ty = "pos2" -> st.p = <<>>  [] OTHER -> FALSE
SubLookup(lk, S, ord) == LET sts == [k \in 1..Len(lk.st) |-> SubSt(lk.ty, lk.st[k], S, ord)]
                         IN [lk EXCEPT !.st = SelectSeq(sts, LAMBDA st : ~StEmpty(lk.ty, st))]
SubTable(tb, fl, S, ord) == [lookups |-> [k \in 1..Len(tb.lookups) |-> SubLookup(tb.lookups[k], S, ord)], fl |-> fl]

(* prune: drop empty / unreachable lookups, renumber the rest, drop sequence-lookup records and feature
   entries that pointed to dropped lookups (LookupList.subset_lookups, Feature.subset_lookups, prune_lookups) *)
PruneTable(tb) ==
  LET T == tb.lookups
      nonempty == {i \in 1..Len(T) : T[i].st # <<>>}
      top == {i \in TopLookups(tb.fl, Len(T)) : i \in nonempty}
      RECURSIVE Reach(_)
      Reach(R) == LET R2 == R \cup {i \in UNION {NestedOf(T[j]) : j \in R} : i \in nonempty} IN IF R2 = R THEN R ELSE Reach(R2)
      keep == AscSeq(Reach(top), 1, Len(T))
      nw(i) == FirstIdx({k \in 1..Len(keep) : keep[k] = i})
      fixrecs(n) == LET kept == SelectSeq(n, LAMBDA e : nw(e[2]) # 0) IN [k \in 1..Len(kept) |-> <<kept[k][1], nw(kept[k][2])>>]
      fixst(ty, st) == IF ty = "ctx" THEN [r |-> [k \in 1..Len(st.r) |-> [st.r[k] EXCEPT !.n = fixrecs(@)]]] ELSE st
      fixlk(lk) == [lk EXCEPT !.st = [k \in 1..Len(lk.st) |-> fixst(lk.ty, lk.st[k])]]
      fl1 == [k \in 1..Len(tb.fl) |-> [tb.fl[k] EXCEPT ![4] = LET kept == SelectSeq(@, LAMBDA i : nw(i) # 0) IN [j \in 1..Len(kept) |-> nw(kept[j])]]]
  IN [lookups |-> [k \in 1..Len(keep) |-> fixlk(T[keep[k]])], fl |-> SelectSeq(fl1, LAMBDA e : e[4] # <<>>)]

SubsetFont(font, req, reqG, gsubS, kept, ord, flS, flP) ==
  LET us == SeqRange(req.unicodes)
      keepc == SelectSeq(font.cmap, LAMBDA e : e[2] \in kept /\ (e[2] \in reqG \/ e[1] \in us))
      compc == SelectSeq(font.comp, LAMBDA e : e[1] \in kept)
  IN [n |-> Len(ord), glyf |-> font.glyf,
      cmap |-> [k \in 1..Len(keepc) |-> <<keepc[k][1], NewOf(ord, keepc[k][2])>>],
      comp |-> [k \in 1..Len(compc) |-> <<NewOf(ord, compc[k][1]), MapG(ord, compc[k][2])>>],
      math |-> <<>>, colr |-> <<>>,
      L |-> [gdef |-> [cls |-> IF font.L.gdef.cls = <<>> THEN <<>> ELSE [i \in 1..Len(ord) |-> IF ord[i] \in gsubS THEN Cls(font.L.gdef, ord[i]) ELSE 0],
                       mac |-> <<>>, sets |-> <<>>],
             gsub |-> SubTable(font.L.gsub, flS, gsubS, ord),
             gpos |-> SubTable(font.L.gpos, flP, gsubS, ord),
             adv |-> [i \in 1..Len(ord) |-> IF ord[i] \in kept THEN Adv(font.L, ord[i]) ELSE 0]]]

(* every glyph number mentioned by the tables of an abstract font *)
StRefs(ty, st) ==
  CASE ty = "sub1" -> UNION {{st.m[k][1], st.m[k][2]} : k \in 1..Len(st.m)}
    [] ty \in {"sub2", "sub3"} -> UNION {{st.m[k][1]} \cup SeqRange(st.m[k][2]) : k \in 1..Len(st.m)}
    [] ty = "sub4" -> UNION {{st.l[k][2]} \cup SeqRange(st.l[k][1]) : k \in 1..Len(st.l)}
    [] ty = "ctx" -> UNION {UNION {SeqRange(st.r[k].b[j]) : j \in 1..Len(st.r[k].b)} \cup UNION {SeqRange(st.r[k].i[j]) : j \in 1..Len(st.r[k].i)}
                            \cup UNION {SeqRange(st.r[k].a[j]) : j \in 1..Len(st.r[k].a)} : k \in 1..Len(st.r)}
    [] ty = "pos1" -> Dom1(st.m)
    [] ty = "pos2" -> UNION {{st.p[k][1], st.p[k][2]} : k \in 1..Len(st.p)}
    [] OTHER -> {}
TableRefs(tb) == UNION {UNION {StRefs(tb.lookups[i].ty, tb.lookups[i].st[s]) : s \in 1..Len(tb.lookups[i].st)} : i \in 1..Len(tb.lookups)}
LookupRefsOK(tb) == \A i \in 1..Len(tb.lookups) : NestedOf(tb.lookups[i]) \subseteq 1..Len(tb.lookups)
FontRefs(f) == {f.cmap[k][2] : k \in 1..Len(f.cmap)} \cup UNION {{f.comp[k][1]} \cup SeqRange(f.comp[k][2]) : k \in 1..Len(f.comp)}
               \cup TableRefs(f.L.gsub) \cup TableRefs(f.L.gpos)

-----------------------------------------------------------------------------
(* The state machine *)
VARIABLES font, req, opts,      \* inputs, never changed
          pc,                   \* next pipeline stage
          glyphs,               \* Subsetter.glyphs, the working set of _closure_glyphs
          requested, cmaped, mathed, gsubed, colred, glyfed, retained, emptied,   \* the staged sets (glyphs_*)
          order,                \* new_glyph_order: new id k (1-based) holds original glyph order[k]
          fl,                   \* <<GSUB feature list, GPOS feature list>> after prune_pre_subset
          todo, passStart,      \* GSUB closure loop: lookups still to visit in this pass; glyphs when the pass began
          out                   \* the subset font
vars == <<font, req, opts, pc, glyphs, requested, cmaped, mathed, gsubed, colred, glyfed, retained, emptied, order, fl, todo, passStart, out>>
inputs == <<font, req, opts>>
NoFont == [n |-> 0]

InitWith(f, r, o) ==
  /\ font = f /\ req = r /\ opts = o /\ pc = "prune" /\ glyphs = {}
  /\ requested = {} /\ cmaped = {} /\ mathed = {} /\ gsubed = {} /\ colred = {} /\ glyfed = {} /\ retained = {} /\ emptied = {}
  /\ order = <<>> /\ fl = <<>> /\ todo = {} /\ passStart = {} /\ out = NoFont

PrunePre ==
  /\ pc = "prune" /\ pc' = "request"
  /\ fl' = <<KeptFl(font.L.gsub, opts), KeptFl(font.L.gpos, opts)>>
  /\ UNCHANGED <<inputs, glyphs, requested, cmaped, mathed, gsubed, colred, glyfed, retained, emptied, order, todo, passStart, out>>
Request ==
  /\ pc = "request" /\ pc' = "cmap"
  /\ requested' = ReqGlyphs(font, req) /\ glyphs' = requested'
  /\ UNCHANGED <<inputs, cmaped, mathed, gsubed, colred, glyfed, retained, emptied, order, fl, todo, passStart, out>>
CloseCmap ==
  /\ pc = "cmap" /\ pc' = "special"
  /\ glyphs' = glyphs \cup CmapGlyphs(font, req.unicodes) /\ cmaped' = glyphs'
  /\ UNCHANGED <<inputs, requested, mathed, gsubed, colred, glyfed, retained, emptied, order, fl, todo, passStart, out>>
AddSpecial ==
  /\ pc = "special" /\ pc' = "math"
  /\ glyphs' = glyphs \cup Specials(font, opts)
  /\ UNCHANGED <<inputs, requested, cmaped, mathed, gsubed, colred, glyfed, retained, emptied, order, fl, todo, passStart, out>>
CloseMATH ==
  /\ pc = "math"
  /\ glyphs' = glyphs \cup (RefStep(font.math, glyphs) \cap Universe(font)) /\ mathed' = glyphs'
  /\ pc' = IF opts.closure /\ Len(font.L.gsub.lookups) > 0 THEN "gsub-pass" ELSE "gsub-done"
  /\ UNCHANGED <<inputs, requested, cmaped, gsubed, colred, glyfed, retained, emptied, order, fl, todo, passStart, out>>
(* GSUB.closure_glyphs: `while True: for i in lookup_indices: Lookup[i].closure_glyphs(s); until no growth`.
   The order inside a pass is left open (the result must not depend on it). *)
BeginPass ==
  /\ pc = "gsub-pass" /\ pc' = "gsub-lookup"
  /\ todo' = TopLookups(fl[1], Len(font.L.gsub.lookups)) /\ passStart' = glyphs
  /\ UNCHANGED <<inputs, glyphs, requested, cmaped, mathed, gsubed, colred, glyfed, retained, emptied, order, fl, out>>
LookupStep(i) ==
  /\ pc = "gsub-lookup" /\ i \in todo
  /\ glyphs' = glyphs \cup (LkStep(font.L.gsub.lookups, i, glyphs, glyphs, Fuel) \cap Universe(font))
  /\ todo' = todo \ {i}
  /\ UNCHANGED <<inputs, pc, requested, cmaped, mathed, gsubed, colred, glyfed, retained, emptied, order, fl, passStart, out>>
EndPass ==
  /\ pc = "gsub-lookup" /\ todo = {}
  /\ pc' = IF glyphs = passStart THEN "gsub-done" ELSE "gsub-pass"
  /\ UNCHANGED <<inputs, glyphs, requested, cmaped, mathed, gsubed, colred, glyfed, retained, emptied, order, fl, todo, passStart, out>>
GsubDone ==
  /\ pc = "gsub-done" /\ pc' = "colr" /\ gsubed' = glyphs
  /\ UNCHANGED <<inputs, glyphs, requested, cmaped, mathed, colred, glyfed, retained, emptied, order, fl, todo, passStart, out>>
CloseCOLR ==
  /\ pc = "colr" /\ pc' = "glyf"
  /\ glyphs' = RefLfp(font.colr, glyphs) \cap Universe(font) /\ colred' = glyphs'
  /\ UNCHANGED <<inputs, requested, cmaped, mathed, gsubed, glyfed, retained, emptied, order, fl, todo, passStart, out>>
(* glyf.closure_glyphs: add the components of what was added, until nothing new *)
GlyfStep ==
  /\ pc = "glyf"
  /\ LET c == (RefStep(font.comp, glyphs) \cap Universe(font)) \ glyphs
     IN IF c = {} THEN glyfed' = glyphs /\ pc' = "renumber" /\ UNCHANGED glyphs
        ELSE glyphs' = glyphs \cup c /\ UNCHANGED <<pc, glyfed>>
  /\ UNCHANGED <<inputs, requested, cmaped, mathed, gsubed, colred, retained, emptied, order, fl, todo, passStart, out>>
Renumber ==
  /\ pc = "renumber" /\ pc' = "subset"
  /\ retained' = glyphs
  /\ order' = NewOrder(font, glyphs, opts.retain)
  /\ emptied' = IF opts.retain /\ glyphs # {} THEN (1..MaxOf(glyphs)) \ glyphs ELSE {}
  /\ UNCHANGED <<inputs, glyphs, requested, cmaped, mathed, gsubed, colred, glyfed, fl, todo, passStart, out>>
SubsetTables ==
  /\ pc = "subset" /\ pc' = "post"
  /\ out' = SubsetFont(font, req, requested, gsubed, retained, order, fl[1], fl[2])
  /\ UNCHANGED <<inputs, glyphs, requested, cmaped, mathed, gsubed, colred, glyfed, retained, emptied, order, fl, todo, passStart>>
PrunePost ==
  /\ pc = "post" /\ pc' = "done"
  /\ out' = [out EXCEPT !.L.gsub = PruneTable(@), !.L.gpos = PruneTable(@)]
  /\ UNCHANGED <<inputs, glyphs, requested, cmaped, mathed, gsubed, colred, glyfed, retained, emptied, order, fl, todo, passStart>>

Next == \/ PrunePre \/ Request \/ CloseCmap \/ AddSpecial \/ CloseMATH \/ BeginPass
        \/ (\E i \in todo : LookupStep(i)) \/ EndPass \/ GsubDone \/ CloseCOLR \/ GlyfStep
        \/ Renumber \/ SubsetTables \/ PrunePost

-----------------------------------------------------------------------------
(* The clauses of C07 *)
(* which staged sets are already computed is determined by pc *)
Rank(p) == CASE p \in {"prune", "request"} -> 0 [] p = "cmap" -> 1 [] p \in {"special", "math"} -> 2
             [] p \in {"gsub-pass", "gsub-lookup", "gsub-done"} -> 3 [] p = "colr" -> 4 [] p = "glyf" -> 5
             [] p = "renumber" -> 6 [] OTHER -> 7
MonotoneF(a, b, c, d, e, f, g) == a \subseteq b /\ b \subseteq c /\ c \subseteq d /\ d \subseteq e /\ e \subseteq f /\ f \subseteq g
Monotone == LET r == Rank(pc) IN
  /\ (r >= 2 => requested \subseteq cmaped) /\ (r >= 3 => cmaped \subseteq mathed) /\ (r >= 4 => mathed \subseteq gsubed)
  /\ (r >= 5 => gsubed \subseteq colred) /\ (r >= 6 => colred \subseteq glyfed) /\ (r >= 7 => glyfed \subseteq retained)
  /\ (r >= 1 /\ r <= 6 => requested \subseteq glyphs) /\ (r >= 2 /\ r <= 6 => cmaped \subseteq glyphs)
  /\ (r >= 3 /\ r <= 6 => mathed \subseteq glyphs) /\ (r >= 4 /\ r <= 6 => gsubed \subseteq glyphs)
  /\ (r >= 5 /\ r <= 6 => colred \subseteq glyphs)
(* the working set and every staged set only ever grow *)
GrowOnly == [][/\ glyphs \subseteq glyphs' /\ requested \subseteq requested' /\ cmaped \subseteq cmaped' /\ mathed \subseteq mathed'
               /\ gsubed \subseteq gsubed' /\ colred \subseteq colred' /\ glyfed \subseteq glyfed' /\ retained \subseteq retained']_vars
Done == pc = "done"

(* A cmap as its consumers read it: glyph number 1 (glyph id 0) is the "missing glyph" (OpenType cmap chapter;
   HarfBuzz and fontTools' own cmap reader both treat a mapping to glyph id 0 as no mapping). *)
Readable(cm) == {cm[k] : k \in {k \in 1..Len(cm) : cm[k][2] # 1}}
(* Named deviation GlyphZeroLost (finding C07/no-notdef-glyph-zero): without notdef_glyph and without retain_gids
   the pipeline below (like the code) drops the original glyph 0 and renumbers the first retained glyph to glyph
   id 0; the characters of that glyph are then absent for every consumer.  `except` is the set of glyphs whose
   characters are exempted: {} states the property; ZeroGlyph(order, opts) states what the code achieves. *)
ZeroGlyph(ord, o) == IF ~o.retain /\ Len(ord) >= 1 /\ ord[1] # 1 THEN {ord[1]} ELSE {}
RequestedPresentF(f, r, kept, nw(_), rescmap, except) ==       \* nw(g) = new glyph number of g (0 = none)
  LET us == SeqRange(r.unicodes)
      rc == Readable(rescmap)
  IN /\ ReqGlyphs(f, r) \subseteq kept
     /\ \A g \in kept : nw(g) # 0
     /\ \A k \in 1..Len(f.cmap) : (f.cmap[k][1] \in us /\ f.cmap[k][2] \in Universe(f) /\ f.cmap[k][2] # 1) =>
           f.cmap[k][2] \in kept /\ (f.cmap[k][2] \in except \/ <<f.cmap[k][1], nw(f.cmap[k][2])>> \in rc)
RequestedPresent == Done => RequestedPresentF(font, req, retained, LAMBDA g : NewOf(order, g), out.cmap, ZeroGlyph(order, opts))
(* the property itself holds wherever glyph 0 survives or keeps its place *)
RequestedPresentStrict == (Done /\ (opts.notdef \/ opts.retain)) => RequestedPresentF(font, req, retained, LAMBDA g : NewOf(order, g), out.cmap, {})

ClosureSufficient == Done => MinClosure(font, req, opts) \subseteq retained
LfpIsLeast == pc = "request" => MinClosure(font, req, opts) = MinClosureDecl(font, req, opts)   \* the two definitions agree
(* for the abstract fonts of the exhaustive configuration (no chaos) the pipeline reaches exactly the least closure *)
ClosureExact == Done => retained = MinClosure(font, req, opts)

NoDanglingF(res, kept, ord) ==
  /\ \A x \in FontRefs(res) : x >= 1 /\ x <= Len(ord) /\ ord[x] \in kept
  /\ LookupRefsOK(res.L.gsub) /\ LookupRefsOK(res.L.gpos)
  /\ \A k \in 1..Len(res.L.gsub.fl) : SeqRange(res.L.gsub.fl[k][4]) \subseteq 1..Len(res.L.gsub.lookups)
NoDangling == Done => NoDanglingF(out, retained, order)

RetainGidsF(o, kept, nw(_)) == o.retain => \A g \in kept : nw(g) = g
RetainGids == Done => RetainGidsF(opts, retained, LAMBDA g : NewOf(order, g))
OrderWellFormed == Done => /\ \A i, j \in 1..Len(order) : i < j => order[i] < order[j]
                           /\ SeqRange(order) = retained \cup emptied /\ retained \cap emptied = {}

(* texts over a set of code points, up to length k *)
RECURSIVE Texts(_, _)
Texts(C, k) == IF k = 0 THEN {<<>>} ELSE LET T == Texts(C, k - 1) IN T \cup {Append(t, c) : t \in T, c \in C}
CharGlyph(f, u) == f.cmap[CHOOSE k \in 1..Len(f.cmap) : f.cmap[k][1] = u][2]
TagsOf(tb) == {tb.fl[k][3] : k \in 1..Len(tb.fl)}
RECURSIVE SetToSeq(_)
SetToSeq(S) == IF S = {} THEN <<>> ELSE LET x == CHOOSE x \in S : TRUE IN <<x>> \o SetToSeq(S \ {x})
(* the original font with the layout features the options keep *)
Pruned(f, o) == [f.L EXCEPT !.gsub.fl = KeptFl(f.L.gsub, o), !.gpos.fl = KeptFl(f.L.gpos, o)]
ShapeEq(f, o, res, ord, text, tags, alt) ==
  LET a == Shape(Pruned(f, o), "DFLT", "dflt", tags, alt, "ot", [k \in 1..Len(text) |-> CharGlyph(f, text[k])])
      b == Shape(res.L, "DFLT", "dflt", tags, alt, "ot", [k \in 1..Len(text) |-> CharGlyph(res, text[k])])
  IN /\ Len(a) = Len(b)
     /\ \A k \in 1..Len(a) : b[k] = <<NewOf(ord, a[k][1]), a[k][2], a[k][3], a[k][4], a[k][5]>>
ShapingPreservedF(f, o, res, ord, K) ==
  LET chars == Dom1(res.cmap)
      tags == SetToSeq(TagsOf(Pruned(f, o).gsub) \cup TagsOf(Pruned(f, o).gpos))
      alts == IF \E i \in 1..Len(f.L.gsub.lookups) : f.L.gsub.lookups[i].ty = "sub3" THEN 1..2 ELSE {1}
  IN \A text \in Texts(chars, K) : \A alt \in alts : ShapeEq(f, o, res, ord, text, tags, alt)
=============================================================================
