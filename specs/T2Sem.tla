------------------------------- MODULE T2Sem -------------------------------
(* The Type 2 charstring machine, written from Adobe Technical Note #5177 ("The Type 2
   Charstring Format") and the OpenType CFF2 charstring chapter (blend / vsindex, no
   width, no endchar, 513-deep stack).

   A program is a sequence of integer tokens: x < OpBase is the operand x (the harness
   scales 16.16 operands by a power of two), OpBase + c is the operator OpNames[c], and
   MaskBase + n stands for the n mask bytes that follow hintmask / cntrmask in the byte code.

   Run(cx, prog) interprets a program in a context
      cx = [fmt: "cff"|"cff2", lim: stack limit, ls/gs: local/global subroutines given as
            sequences of <<index, program>>, nls/ngs: sizes of the two INDEXes (bias),
            rg: regions per vsindex (CFF2), vsi: default vsindex, loc: 0 = default
            location, r > 0 = the location where only region r has scalar 1]
   and yields [path, w, err, mx, done, nh, seac]:
      path  sequence of contours, contour = << <<0,x,y>>, seg, ... >>, seg = <<1,x,y>>
            (line to) or <<2,x1,y1,x2,y2,x3,y3>> (curve to), absolute coordinates;
      w     <<>> (no width operand: defaultWidthX applies) or <<v>> (v + nominalWidthX);
      err   "" or the first violated well-formedness rule (StackLimit / Arity);
      mx    deepest operand stack reached.
   Canon(path, strict) is the normal form of DESIGN.md C12.                           *)
EXTENDS Integers, Sequences, TLC

T2Abs(v) == IF v < 0 THEN -v ELSE v
T2Max(a, b) == IF a >= b THEN a ELSE b

OpBase == 1073741824          \* 2^30; operands are kept below it by the harness
MaskBase == OpBase + 1000
OpNames == <<"hstem", "vstem", "vmoveto", "rlineto", "hlineto", "vlineto", "rrcurveto", "callsubr", "return",
             "endchar", "vsindex", "blend", "hstemhm", "hintmask", "cntrmask", "rmoveto", "hmoveto", "vstemhm",
             "rcurveline", "rlinecurve", "vvcurveto", "hhcurveto", "callgsubr", "vhcurveto", "hvcurveto",
             "hflex", "flex", "hflex1", "flex1",
             "and", "or", "not", "abs", "add", "sub", "div", "neg", "eq", "drop", "put", "get", "ifelse",
             "random", "mul", "sqrt", "dup", "exch", "index", "roll", "dotsection", "ignore", "unknown">>
OpCode(name) == CHOOSE c \in 1..Len(OpNames) : OpNames[c] = name
IsOperand(x) == x < OpBase

StackLimit(fmt) == IF fmt = "cff2" THEN 513 ELSE 48
MaxSubrDepth == 10

\* subroutine bias, TN5177 section 4.7 "Subroutine operators" (number of subrs in the INDEX)
Bias(n) == IF n < 1240 THEN 107 ELSE IF n < 33900 THEN 1131 ELSE 32768

Lookup(subrs, idx) ==   \* <<found, program>>
  LET S == {k \in 1..Len(subrs) : subrs[k][1] = idx}
  IN IF S = {} THEN <<FALSE, <<>>>> ELSE <<TRUE, subrs[CHOOSE k \in S : TRUE][2]>>

Start(cx) ==
  [stk |-> <<>>, x |-> 0, y |-> 0, path |-> <<>>, cur |-> <<>>, moved |-> FALSE,
   w |-> <<>>, seenW |-> FALSE, nh |-> 0, pend |-> -1, err |-> "", mx |-> 0,
   done |-> FALSE, ret |-> FALSE, depth |-> 0, vsi |-> cx.vsi, seac |-> <<>>]

Fail(st, why) == IF st.err = "" THEN [st EXCEPT !.err = why] ELSE st

(* ---- width: the first stack-clearing operator may carry one extra operand at the
        bottom of the stack (TN5177 section 3.1 and 4.1) ------------------------------ *)
TakeW(cx, st, extra) ==
  IF st.seenW THEN (IF extra THEN Fail(st, "Arity") ELSE st)
  ELSE IF ~extra THEN [st EXCEPT !.seenW = TRUE]
  ELSE IF cx.fmt = "cff2" THEN Fail(st, "Arity:cff2-width")
  ELSE [st EXCEPT !.seenW = TRUE, !.w = <<st.stk[1]>>, !.stk = Tail(st.stk)]

(* ---- path construction --------------------------------------------------------- *)
MoveTo(st, dx, dy) ==
  [st EXCEPT !.x = st.x + dx, !.y = st.y + dy, !.moved = TRUE, !.stk = <<>>,
             !.path = IF st.cur = <<>> THEN st.path ELSE Append(st.path, st.cur),
             !.cur = << <<0, st.x + dx, st.y + dy>> >>]

Line(st, dx, dy) ==
  [st EXCEPT !.x = st.x + dx, !.y = st.y + dy,
             !.cur = Append(st.cur, <<1, st.x + dx, st.y + dy>>)]

Curve(st, a, b, c, d, e, f) ==
  LET x1 == st.x + a   y1 == st.y + b
      x2 == x1 + c     y2 == y1 + d
      x3 == x2 + e     y3 == y2 + f
  IN [st EXCEPT !.x = x3, !.y = y3, !.cur = Append(st.cur, <<2, x1, y1, x2, y2, x3, y3>>)]

RECURSIVE RLines(_, _, _)          \* {dxa dya}+
RLines(st, a, i) ==
  IF i > Len(a) THEN st ELSE RLines(Line(st, a[i], a[i + 1]), a, i + 2)

RECURSIVE AltLines(_, _, _, _)     \* dx1 {dya dxb}* | {dxa dyb}+  (and the v-first twins)
AltLines(st, a, i, horiz) ==
  IF i > Len(a) THEN st
  ELSE AltLines(IF horiz THEN Line(st, a[i], 0) ELSE Line(st, 0, a[i]), a, i + 1, ~horiz)

RECURSIVE RCurves(_, _, _, _)      \* {dxa dya dxb dyb dxc dyc}+ up to index hi
RCurves(st, a, i, hi) ==
  IF i > hi THEN st
  ELSE RCurves(Curve(st, a[i], a[i + 1], a[i + 2], a[i + 3], a[i + 4], a[i + 5]), a, i + 6, hi)

RECURSIVE HHCurves(_, _, _, _)     \* dy1? {dxa dxb dyb dxc}+ ; d1 = the optional first dy
HHCurves(st, a, i, d1) ==
  IF i > Len(a) THEN st
  ELSE HHCurves(Curve(st, a[i], d1, a[i + 1], a[i + 2], a[i + 3], 0), a, i + 4, 0)

RECURSIVE VVCurves(_, _, _, _)     \* dx1? {dya dxb dyb dyc}+
VVCurves(st, a, i, d1) ==
  IF i > Len(a) THEN st
  ELSE VVCurves(Curve(st, d1, a[i], a[i + 1], a[i + 2], 0, a[i + 3]), a, i + 4, 0)

RECURSIVE HVCurves(_, _, _, _)
(* hvcurveto: dx1 dx2 dy2 dy3 {dya dxb dyb dxc dxd dxe dye dyf}* dxf?
              {dxa dxb dyb dyc dyd dxe dye dxf}+ dyf?
   curves alternately start horizontal/end vertical and start vertical/end horizontal;
   an odd operand count gives the last curve a non-tangent end. vhcurveto: same, starting
   vertical.                                                                          *)
HVCurves(st, a, i, horiz) ==
  IF i > Len(a) THEN st
  ELSE LET last == (Len(a) - i + 1 = 5)
           z == IF last THEN a[i + 4] ELSE 0
           s1 == IF horiz THEN Curve(st, a[i], 0, a[i + 1], a[i + 2], z, a[i + 3])
                          ELSE Curve(st, 0, a[i], a[i + 1], a[i + 2], a[i + 3], z)
       IN IF last THEN s1 ELSE HVCurves(s1, a, i + 4, ~horiz)

Flex(st, a) ==       \* dx1 dy1 ... dx6 dy6 fd   (fd only matters to the rasteriser)
  Curve(Curve(st, a[1], a[2], a[3], a[4], a[5], a[6]), a[7], a[8], a[9], a[10], a[11], a[12])
HFlex(st, a) ==      \* dx1 dx2 dy2 dx3 dx4 dx5 dx6
  Curve(Curve(st, a[1], 0, a[2], a[3], a[4], 0), a[5], 0, a[6], -a[3], a[7], 0)
HFlex1(st, a) ==     \* dx1 dy1 dx2 dy2 dx3 dx4 dx5 dy5 dx6
  Curve(Curve(st, a[1], a[2], a[3], a[4], a[5], 0), a[6], 0, a[7], a[8], a[9], -(a[2] + a[4] + a[8]))
Flex1(st, a) ==      \* dx1 dy1 dx2 dy2 dx3 dy3 dx4 dy4 dx5 dy5 d6
  LET dx == a[1] + a[3] + a[5] + a[7] + a[9]
      dy == a[2] + a[4] + a[6] + a[8] + a[10]
      s1 == Curve(st, a[1], a[2], a[3], a[4], a[5], a[6])
  IN IF T2Abs(dx) > T2Abs(dy) THEN Curve(s1, a[7], a[8], a[9], a[10], a[11], -dy)
                               ELSE Curve(s1, a[7], a[8], a[9], a[10], -dx, a[11])

(* a drawing operator: legal operand count, a current point, then the segments *)
Draw(st, op) ==
  LET a == st.stk  n == Len(st.stk)
      legal ==
        CASE op = "rlineto"    -> n >= 2 /\ n % 2 = 0
          [] op = "hlineto"    -> n >= 1
          [] op = "vlineto"    -> n >= 1
          [] op = "rrcurveto"  -> n >= 6 /\ n % 6 = 0
          [] op = "hhcurveto"  -> n >= 4 /\ n % 4 \in {0, 1}
          [] op = "vvcurveto"  -> n >= 4 /\ n % 4 \in {0, 1}
          [] op = "hvcurveto"  -> n >= 4 /\ n % 8 \in {0, 1, 4, 5}
          [] op = "vhcurveto"  -> n >= 4 /\ n % 8 \in {0, 1, 4, 5}
          [] op = "rcurveline" -> n >= 8 /\ (n - 2) % 6 = 0
          [] op = "rlinecurve" -> n >= 8 /\ n % 2 = 0
          [] op = "flex"       -> n = 13
          [] op = "hflex"      -> n = 7
          [] op = "hflex1"     -> n = 9
          [] op = "flex1"      -> n = 11
  IN IF ~legal THEN Fail(st, "Arity:" \o op)
     ELSE IF ~st.moved THEN Fail(st, "Order:nomove")
     ELSE LET r ==
            CASE op = "rlineto"    -> RLines(st, a, 1)
              [] op = "hlineto"    -> AltLines(st, a, 1, TRUE)
              [] op = "vlineto"    -> AltLines(st, a, 1, FALSE)
              [] op = "rrcurveto"  -> RCurves(st, a, 1, n)
              [] op = "hhcurveto"  -> IF n % 4 = 1 THEN HHCurves(st, a, 2, a[1]) ELSE HHCurves(st, a, 1, 0)
              [] op = "vvcurveto"  -> IF n % 4 = 1 THEN VVCurves(st, a, 2, a[1]) ELSE VVCurves(st, a, 1, 0)
              [] op = "hvcurveto"  -> HVCurves(st, a, 1, TRUE)
              [] op = "vhcurveto"  -> HVCurves(st, a, 1, FALSE)
              [] op = "rcurveline" -> LET s1 == RCurves(st, a, 1, n - 2) IN Line(s1, a[n - 1], a[n])
              [] op = "rlinecurve" -> LET s1 == RLines(st, SubSeq(a, 1, n - 6), 1) IN RCurves(s1, a, n - 5, n)
              [] op = "flex"       -> Flex(st, a)
              [] op = "hflex"      -> HFlex(st, a)
              [] op = "hflex1"     -> HFlex1(st, a)
              [] op = "flex1"      -> Flex1(st, a)
          IN [r EXCEPT !.stk = <<>>]

DrawOps == {"rlineto", "hlineto", "vlineto", "rrcurveto", "hhcurveto", "vvcurveto", "hvcurveto",
            "vhcurveto", "rcurveline", "rlinecurve", "flex", "hflex", "hflex1", "flex1"}

MoveOp(cx, st, op) ==
  LET n == Len(st.stk)
      need == IF op = "rmoveto" THEN 2 ELSE 1
  IN IF n # need /\ n # need + 1 THEN Fail(st, "Arity:" \o op)
     ELSE LET s1 == TakeW(cx, st, n = need + 1) IN
          IF s1.err # "" THEN s1
          ELSE IF op = "rmoveto" THEN MoveTo(s1, s1.stk[1], s1.stk[2])
          ELSE IF op = "hmoveto" THEN MoveTo(s1, s1.stk[1], 0)
          ELSE MoveTo(s1, 0, s1.stk[1])

(* hstem / vstem / hstemhm / vstemhm:  y dy {dya dyb}*  -- pairs; hints are declared
   before the first moveto (TN5177 section 3.1 "w? {hs* vs* cm* hm* mt subpath}? ...") *)
StemOp(cx, st, op) ==
  IF st.moved THEN Fail(st, "Order:latestem")
  ELSE LET s1 == TakeW(cx, st, Len(st.stk) % 2 = 1) IN
       IF s1.err # "" THEN s1
       ELSE IF Len(s1.stk) < 2 THEN Fail(s1, "Arity:" \o op)
       ELSE [s1 EXCEPT !.nh = s1.nh + Len(s1.stk) \div 2, !.stk = <<>>]

(* hintmask / cntrmask: operands still on the stack are an implicit vstem(hm); the
   operator is followed by ceil(nh / 8) mask bytes                                    *)
MaskOp(cx, st, op) ==
  LET n == Len(st.stk)
      s1 == IF n > 0 /\ st.moved THEN Fail(st, "Arity:" \o op)
            ELSE TakeW(cx, st, n % 2 = 1)
  IN IF s1.err # "" THEN s1
     ELSE LET nh == s1.nh + Len(s1.stk) \div 2
          IN [s1 EXCEPT !.nh = nh, !.stk = <<>>, !.pend = (nh + 7) \div 8]

EndChar(cx, st) ==
  LET n == Len(st.stk) IN
  IF cx.fmt = "cff2" THEN Fail(st, "Arity:cff2-endchar")
  ELSE IF n \notin {0, 1, 4, 5} THEN Fail(st, "Arity:endchar")
  ELSE LET s1 == TakeW(cx, st, n \in {1, 5}) IN
       IF s1.err # "" THEN s1
       ELSE [s1 EXCEPT !.done = TRUE, !.seac = s1.stk, !.stk = <<>>]   \* 4 operands: deprecated seac form (TN5177 appendix C)

(* CFF2 blend: n*(k+1) operands + n; leaves the n default values, plus delta r at the
   location where only region r is active                                             *)
Blend(cx, st) ==
  LET m == Len(st.stk) IN
  IF cx.fmt # "cff2" THEN Fail(st, "Arity:blend-in-cff")
  ELSE IF m < 1 THEN Fail(st, "Arity:blend")
  ELSE IF st.vsi + 1 > Len(cx.rg) \/ st.vsi < 0 THEN Fail(st, "Arity:vsindex-range")
  ELSE LET n == st.stk[m]
           k == cx.rg[st.vsi + 1]
           base == m - 1 - n * (k + 1)      \* operands below the blend group
       IN IF n < 1 \/ base < 0 THEN Fail(st, "Arity:blend")
          ELSE LET dflt == [j \in 1..n |->
                              st.stk[base + j] +
                              (IF cx.loc >= 1 /\ cx.loc <= k
                               THEN st.stk[base + n + (j - 1) * k + cx.loc] ELSE 0)]
               IN [st EXCEPT !.stk = SubSeq(st.stk, 1, base) \o dflt]

VsIndex(cx, st) ==
  IF cx.fmt # "cff2" \/ Len(st.stk) # 1 THEN Fail(st, "Arity:vsindex")
  ELSE [st EXCEPT !.vsi = st.stk[1], !.stk = <<>>]

RECURSIVE Exec(_, _, _)

Call(cx, st, global) ==
  LET m == Len(st.stk) IN
  IF m < 1 THEN Fail(st, "Arity:callsubr")
  ELSE IF st.depth >= MaxSubrDepth THEN Fail(st, "SubrDepth")
  ELSE LET idx == st.stk[m] + Bias(IF global THEN cx.ngs ELSE cx.nls)
           hit == Lookup(IF global THEN cx.gs ELSE cx.ls, idx)
       IN IF ~hit[1] THEN Fail(st, "SubrIndex")
          ELSE LET s1 == [st EXCEPT !.stk = SubSeq(st.stk, 1, m - 1), !.depth = st.depth + 1]
                   r == Exec(cx, s1, hit[2])
               IN [r EXCEPT !.ret = FALSE, !.depth = st.depth]

DoOp(cx, st, op) ==
  IF op \in DrawOps THEN Draw(st, op)
  ELSE IF op \in {"rmoveto", "hmoveto", "vmoveto"} THEN MoveOp(cx, st, op)
  ELSE IF op \in {"hstem", "vstem", "hstemhm", "vstemhm"} THEN StemOp(cx, st, op)
  ELSE IF op \in {"hintmask", "cntrmask"} THEN MaskOp(cx, st, op)
  ELSE IF op = "endchar" THEN EndChar(cx, st)
  ELSE IF op = "callsubr" THEN Call(cx, st, FALSE)
  ELSE IF op = "callgsubr" THEN Call(cx, st, TRUE)
  ELSE IF op = "return" THEN
         (IF st.depth = 0 \/ cx.fmt = "cff2" THEN Fail(st, "Arity:return") ELSE [st EXCEPT !.ret = TRUE])
  ELSE IF op = "blend" THEN Blend(cx, st)
  ELSE IF op = "vsindex" THEN VsIndex(cx, st)
  ELSE Fail(st, "Unsupported:" \o op)      \* arithmetic / storage operators: outside the modelled domain

Halted(st) == st.err # "" \/ st.done \/ st.ret

(* operands are pushed one by one in the byte code; pushing the whole run between two
   operators at once reaches the same stack and the same maximum depth *)
PushAll(cx, st, nums) ==
  IF Halted(st) \/ Len(nums) = 0 THEN st
  ELSE IF st.pend >= 0 THEN Fail(st, "Arity:mask-bytes")
  ELSE IF Len(st.stk) + Len(nums) > cx.lim THEN Fail(st, "StackLimit")
  ELSE [st EXCEPT !.stk = st.stk \o nums, !.mx = T2Max(st.mx, Len(st.stk) + Len(nums))]

StepOp(cx, st, x) ==      \* x is an operator token or a mask token
  IF Halted(st) THEN st
  ELSE IF st.pend >= 0 THEN
         (IF x = MaskBase + st.pend THEN [st EXCEPT !.pend = -1] ELSE Fail(st, "Arity:mask-bytes"))
  ELSE IF x >= MaskBase THEN Fail(st, "Arity:straymask")
  ELSE IF x - OpBase \notin 1..Len(OpNames) THEN Fail(st, "Unsupported:opcode")
  ELSE DoOp(cx, st, OpNames[x - OpBase])

Operands(prog, lo, hi) == SubSeq(prog, lo, hi)

(* operators pos[lo..hi] of prog with the operands in front of each, threaded left to
   right; halving keeps the recursion shallow for long programs *)
RECURSIVE Range(_, _, _, _, _, _)
Range(cx, st, prog, pos, lo, hi) ==
  IF Halted(st) THEN st
  ELSE IF lo = hi THEN
         LET k == pos[lo]
             prev == IF lo = 1 THEN 0 ELSE pos[lo - 1]
         IN StepOp(cx, PushAll(cx, st, Operands(prog, prev + 1, k - 1)), prog[k])
  ELSE LET mid == (lo + hi) \div 2
       IN Range(cx, Range(cx, st, prog, pos, lo, mid), prog, pos, mid + 1, hi)

Exec(cx, st, prog) ==
  LET pos == SelectSeq([i \in 1..Len(prog) |-> i], LAMBDA i : prog[i] >= OpBase)
      n == Len(pos)
      s1 == IF n = 0 THEN st ELSE Range(cx, st, prog, pos, 1, n)
      last == IF n = 0 THEN 0 ELSE pos[n]
  IN PushAll(cx, s1, Operands(prog, last + 1, Len(prog)))

Run(cx, prog) ==
  LET st == Exec(cx, Start(cx), prog)
      err == IF st.err # "" THEN st.err
             ELSE IF st.pend >= 0 THEN "Arity:mask-bytes"
             ELSE IF st.stk # <<>> THEN "Arity:leftover"
             ELSE ""
  IN [path |-> IF st.cur = <<>> THEN st.path ELSE Append(st.path, st.cur),
      w |-> st.w, err |-> err, mx |-> st.mx, done |-> st.done, nh |-> st.nh, seac |-> st.seac]

Legal(r) == r.err = ""

Cx(fmt) == [fmt |-> fmt, lim |-> StackLimit(fmt), ls |-> <<>>, nls |-> 0, gs |-> <<>>, ngs |-> 0,
            rg |-> <<>>, vsi |-> 0, loc |-> 0]

(* ---------------------------------------------------------------------------------
   Canon: normal form of a path under the rewritings that leave the filled outline
   unchanged (DESIGN.md C12):
     (1) a curve whose control points coincide with its end points, or whose four points
         share an x or a y, is the line to its end point;
     (2) zero-length lines and curves vanish;
     (3) consecutive lines that stay on one horizontal or vertical are replaced by their
         sum (also when they retrace) and vanish if the sum is zero;
     (4) contours consisting of a lone move are dropped.
   strict (preserveTopology): only (4); the remaining point lists are compared.       *)
EndPt(s) == IF s[1] = 2 THEN <<s[6], s[7]>> ELSE <<s[2], s[3]>>

LineLike(p, s) ==
  \/ s[2] = p[1] /\ s[3] = p[2] /\ s[4] = s[6] /\ s[5] = s[7]
  \/ s[2] = p[1] /\ s[4] = p[1] /\ s[6] = p[1]
  \/ s[3] = p[2] /\ s[5] = p[2] /\ s[7] = p[2]

RECURSIVE CanonContour(_, _, _)
CanonContour(c, i, out) ==
  IF i > Len(c) THEN out
  ELSE LET n == Len(out)
           p == EndPt(out[n])
           s == IF c[i][1] = 2 /\ LineLike(p, c[i]) THEN <<1, c[i][6], c[i][7]>> ELSE c[i]
       IN IF s[1] = 2 THEN CanonContour(c, i + 1, Append(out, s))
          ELSE IF s[2] = p[1] /\ s[3] = p[2] THEN CanonContour(c, i + 1, out)
          ELSE IF n >= 2 /\ out[n][1] = 1
                  /\ LET q == EndPt(out[n - 1])
                     IN \/ q[1] = p[1] /\ p[1] = s[2]
                        \/ q[2] = p[2] /\ p[2] = s[3]
               THEN IF EndPt(out[n - 1]) = <<s[2], s[3]>>
                    THEN CanonContour(c, i + 1, SubSeq(out, 1, n - 1))
                    ELSE CanonContour(c, i + 1, Append(SubSeq(out, 1, n - 1), s))
          ELSE CanonContour(c, i + 1, Append(out, s))

Canon(path, strict) ==
  LET cs == IF strict THEN path
            ELSE [i \in 1..Len(path) |-> CanonContour(path[i], 2, <<path[i][1]>>)]
  IN SelectSeq(cs, LAMBDA c : Len(c) > 1)

SamePath(a, b, strict) == Canon(a.path, strict) = Canon(b.path, strict) /\ a.seac = b.seac

(* advance width of a charstring result under a Private DICT *)
Advance(r, dflt, nominal) == IF r.w = <<>> THEN dflt ELSE nominal + r.w[1]
=============================================================================
