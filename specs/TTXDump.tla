------------------------------ MODULE TTXDump ------------------------------
(* The layout of a TTX dump (TTFont.saveXML) under its options, and XML text transport.
   A dump of tables T with options (splitTables, splitGlyphs) is a main file whose ttFont
   element lists every requested table once, in order, either inline or as an include
   <tag src="file"/>; every include names a file holding exactly that table; with
   splitGlyphs (which implies splitTables) the glyf table file in turn includes one file
   per glyph that has outline data (empty glyphs stay inline).  ImportXML follows includes, so the dump is lossless only if this graph is
   complete and unambiguous: every include names its own file (the file holds exactly the
   table / the glyph the include stands for) and no file is named twice - not even up to
   letter case, because a dump has to survive a case-insensitive file system (the reason
   the per-glyph names come from userNameToFileName, cf. Filenames.tla).              *)
EXTENDS Integers, Sequences, FiniteSets, TLC

Range(s) == {s[i] : i \in 1..Len(s)}
NoDup(s) == \A i, j \in 1..Len(s) : i # j => s[i] # s[j]

(* what should be dumped *)
Requested(all, only, skip) == IF only # <<>> THEN only ELSE SelectSeq(all, LAMBDA t : t \notin Range(skip))

(* letter case of file names: ASCII and Latin-1 letters (glyph names come from 'post', which is Latin-1) *)
FoldC(c) == IF (c >= 65 /\ c <= 90) \/ (c >= 192 /\ c <= 222 /\ c # 215) THEN c + 32 ELSE c
Fold(s) == [i \in 1..Len(s) |-> FoldC(s[i])]

(* The per-glyph level of the include graph.
   d.glyphOrder   = the glyphs of the font (ids);
   d.glyphEntries = the entries of the glyf file, one per glyph (fontTools writes them sorted by
                    name; glyf.fromXML files each under its own name, so their order is immaterial):
                    [file |-> code points of the included file's name (<<>> = the glyph is inline),
                     holds |-> ids of the TTGlyph elements found there (inline: the element's own name;
                               a missing file holds <<>>)].
   The entries must be a bijection onto the glyphs: every entry holds exactly one glyph and every
   glyph is held by exactly one entry (an overwritten per-glyph file breaks the latter).          *)
GlyphGraph(d) ==
  LET E == d.glyphEntries
      Inc == {i \in 1..Len(E) : E[i].file # <<>>}
  IN IF Len(E) # Len(d.glyphOrder) THEN "dump:glyf-file-does-not-list-every-glyph-once"
     ELSE IF Cardinality({Fold(E[i].file) : i \in Inc}) # Cardinality(Inc) THEN "dump:per-glyph-file-names-collide-ignoring-case"
     ELSE IF \E i \in 1..Len(E) : Len(E[i].holds) # 1 THEN "dump:per-glyph-include-does-not-hold-exactly-one-glyph"
     ELSE IF {E[i].holds[1] : i \in 1..Len(E)} # Range(d.glyphOrder) THEN "dump:a-glyph-is-held-by-no-per-glyph-file"
     ELSE "ok"

(* d = [main: seq of [tag, src], files: seq of [name, tags], glyfRefs: seq of names, numGlyphFiles, numInlineGlyphs,
        numGlyphs, glyphOrder, glyphEntries, malformed: a written file could not be parsed as XML]
   present(t) = the font has table t (requested but absent tables are silently omitted) *)
WellFormed(d, requested, split, splitGlyphs, present) ==
  LET want == SelectSeq(requested, LAMBDA t : t \in present)
      mainTags == [i \in 1..Len(d.main) |-> d.main[i].tag]
      fileNames == [i \in 1..Len(d.files) |-> d.files[i].name]
      FileTags(n) == LET S == {i \in 1..Len(d.files) : d.files[i].name = n} IN IF S = {} THEN <<"?">> ELSE d.files[CHOOSE i \in S : TRUE].tags
  IN IF d.malformed THEN "dump:a-written-file-is-not-well-formed-XML"
     ELSE IF mainTags # want THEN "dump:main-file-does-not-list-the-requested-tables-in-order"
     ELSE IF ~NoDup(fileNames) THEN "dump:two-includes-share-a-file-name"
     ELSE IF (split \/ splitGlyphs) /\ \E i \in 1..Len(d.main) : d.main[i].src = "" THEN "dump:table-inline-despite-splitTables"
     ELSE IF ~(split \/ splitGlyphs) /\ \E i \in 1..Len(d.main) : d.main[i].src # "" THEN "dump:include-without-splitTables"
     ELSE IF \E i \in 1..Len(d.main) : d.main[i].src # "" /\ FileTags(d.main[i].src) # <<d.main[i].tag>> THEN "dump:include-does-not-hold-exactly-its-table"
     ELSE IF splitGlyphs /\ "glyf" \in Range(want) /\ GlyphGraph(d) # "ok" THEN GlyphGraph(d)
     ELSE IF splitGlyphs /\ "glyf" \in Range(want) /\ (~NoDup(d.glyfRefs) \/ Len(d.glyfRefs) # d.numGlyphFiles \/ Len(d.glyfRefs) + d.numInlineGlyphs # d.numGlyphs) THEN "dump:per-glyph-files-incomplete-or-colliding"
     ELSE IF ~splitGlyphs /\ Len(d.glyfRefs) # 0 THEN "dump:glyph-include-without-splitGlyphs"
     ELSE "ok"

(* ---- XML transport of free text (strings as sequences of code points) ---- *)
IsWS(c) == c \in {9, 10, 13, 32}
RECURSIVE LStrip(_)
LStrip(s) == IF s # <<>> /\ IsWS(Head(s)) THEN LStrip(Tail(s)) ELSE s
RECURSIVE RStrip(_)
RStrip(s) == IF s # <<>> /\ IsWS(s[Len(s)]) THEN RStrip(SubSeq(s, 1, Len(s) - 1)) ELSE s
(* XML 1.0 2.11 end-of-line handling: CR LF and lone CR become LF *)
RECURSIVE EOL(_)
EOL(s) == IF s = <<>> THEN <<>>
          ELSE IF Head(s) = 13 THEN <<10>> \o EOL(IF Len(s) > 1 /\ s[2] = 10 THEN Tail(Tail(s)) ELSE Tail(s))
          ELSE <<Head(s)>> \o EOL(Tail(s))
TextNorm(s) == RStrip(LStrip(EOL(s)))
(* attribute-value normalisation (XML 1.0 3.3.3): literal white space characters become spaces *)
AttrNorm(s) == [i \in 1..Len(EOL(s)) |-> IF IsWS(EOL(s)[i]) THEN 32 ELSE EOL(s)[i]]
=============================================================================
