----------------------------- MODULE TableCodec -----------------------------
(* Decoders for OpenType table encodings, written from the OpenType specification
   (cmap formats 0/4/6/12/13/14, hmtx, loca, glyf simple and composite glyph records,
   Coverage / ClassDef formats 1 and 2, UTF-16BE name strings), independent of fontTools'
   own readers.  Bytes are sequences over 0..255; positions are 0-based offsets.     *)
EXTENDS Codec

RECURSIVE Log2F(_)
Log2F(n) == IF n < 2 THEN 0 ELSE 1 + Log2F(n \div 2)
B(b, i) == b[i + 1]                                  \* byte at 0-based offset
W(b, i) == b[i + 1] * 256 + b[i + 2]                 \* uint16
SW(b, i) == LET u == W(b, i) IN IF u >= 32768 THEN u - 65536 ELSE u
U24(b, i) == b[i + 1] * 65536 + b[i + 2] * 256 + b[i + 3]
(* uint32 that is known to fit 31 bits (code points, lengths of test data); -1 if not *)
L(b, i) == IF b[i + 1] >= 128 THEN -1 ELSE b[i + 1] * 16777216 + b[i + 2] * 65536 + b[i + 3] * 256 + b[i + 4]

(* ---------------- cmap ---------------- *)
Cmap0Lookup(b, c) == IF c < 0 \/ c > 255 THEN 0 ELSE B(b, 6 + c)
Cmap0WF(b) == Len(b) = 262 /\ W(b, 0) = 0 /\ W(b, 2) = 262

Cmap6Lookup(b, c) == LET first == W(b, 6) n == W(b, 8) IN
                     IF c >= first /\ c < first + n THEN W(b, 10 + 2 * (c - first)) ELSE 0
Cmap6WF(b) == W(b, 0) = 6 /\ W(b, 2) = Len(b) /\ Len(b) = 10 + 2 * W(b, 8)

(* format 4: segment arrays *)
C4Seg(b) == W(b, 6) \div 2
C4End(b, i) == W(b, 14 + 2 * (i - 1))
C4Start(b, i) == W(b, 16 + 2 * C4Seg(b) + 2 * (i - 1))
C4Delta(b, i) == W(b, 16 + 4 * C4Seg(b) + 2 * (i - 1))
C4RangePos(b, i) == 16 + 6 * C4Seg(b) + 2 * (i - 1)
C4Range(b, i) == W(b, C4RangePos(b, i))
(* "search for the first endCode that is greater than or equal to the character code" (OpenType, cmap format 4):
   binary search, legitimate because Cmap4WF demands non-decreasing endCodes; returns n+1 when there is none *)
RECURSIVE First4(_, _, _, _)
First4(b, c, lo, hi) == IF lo >= hi THEN lo
                        ELSE LET mid == (lo + hi) \div 2 IN
                             IF C4End(b, mid) >= c THEN First4(b, c, lo, mid) ELSE First4(b, c, mid + 1, hi)
Cmap4Lookup(b, c) ==
  LET n == C4Seg(b)
      i == First4(b, c, 1, n + 1)
  IN IF i > n THEN 0
     ELSE
       IF C4Start(b, i) > c THEN 0
       ELSE IF C4Range(b, i) = 0 THEN (c + C4Delta(b, i)) % 65536
       ELSE LET addr == C4RangePos(b, i) + C4Range(b, i) + 2 * (c - C4Start(b, i)) IN
            IF addr + 2 > Len(b) THEN -1                 \* reads outside the subtable: malformed
            ELSE LET g == W(b, addr) IN IF g = 0 THEN 0 ELSE (g + C4Delta(b, i)) % 65536
Cmap4WF(b) ==
  LET n == C4Seg(b) IN
  /\ W(b, 0) = 4 /\ W(b, 2) = Len(b) /\ W(b, 6) % 2 = 0 /\ n >= 1
  /\ Len(b) >= 16 + 8 * n
  /\ C4End(b, n) = 65535
  /\ \A i \in 1..n : C4Start(b, i) <= C4End(b, i)
  \* segments disjoint and increasing; named deviation SentinelAfterFFFF: when U+FFFF itself is mapped the closing
  \* <<0xFFFF,0xFFFF,delta 1>> segment repeats endCode 0xFFFF (first-match lookup, HarfBuzz and FreeType all resolve it)
  /\ \A i \in 1..(n - 1) : \/ C4End(b, i) < C4Start(b, i + 1)
                           \/ i = n - 1 /\ C4End(b, i) = 65535 /\ C4Start(b, n) = 65535
  /\ W(b, 14 + 2 * n) = 0                                                \* reservedPad
  /\ LET p == 2 ^ Log2F(n) IN W(b, 8) = 2 * p /\ W(b, 10) = Log2F(n) /\ W(b, 12) = 2 * n - 2 * p

(* formats 12 / 13: groups of <<startCharCode, endCharCode, startGlyphID>> *)
C12N(b) == L(b, 12)
C12Group(b, k) == LET p == 16 + 12 * (k - 1) IN <<L(b, p), L(b, p + 4), L(b, p + 8)>>
(* groups are sorted by startCharCode and disjoint (Cmap12WF): binary search for the first group whose end >= c *)
RECURSIVE First12(_, _, _, _)
First12(b, c, lo, hi) == IF lo >= hi THEN lo
                         ELSE LET mid == (lo + hi) \div 2 IN
                              IF C12Group(b, mid)[2] >= c THEN First12(b, c, lo, mid) ELSE First12(b, c, mid + 1, hi)
Cmap12Lookup(b, c, many) ==
  LET k == First12(b, c, 1, C12N(b) + 1)
  IN IF k > C12N(b) THEN 0
     ELSE LET g == C12Group(b, k) IN
          IF g[1] > c THEN 0 ELSE IF many THEN g[3] ELSE g[3] + (c - g[1])
Cmap12WF(b, fmt) ==
  /\ W(b, 0) = fmt /\ W(b, 2) = 0 /\ L(b, 4) = Len(b) /\ Len(b) = 16 + 12 * C12N(b)
  /\ \A k \in 1..C12N(b) : C12Group(b, k)[1] >= 0 /\ C12Group(b, k)[1] <= C12Group(b, k)[2]
  /\ \A k \in 1..(C12N(b) - 1) : C12Group(b, k)[2] < C12Group(b, k + 1)[1]

(* format 14: result "none" | "default" | glyph id *)
Cmap14Lookup(b, vs, c) ==
  LET n == L(b, 6)
      R == {k \in 1..n : U24(b, 10 + 11 * (k - 1)) = vs}
  IN IF R = {} THEN <<"none", 0>>
     ELSE LET p == 10 + 11 * ((CHOOSE k \in R : TRUE) - 1)
              dOff == L(b, p + 3)
              ndOff == L(b, p + 7)
              inDefault == dOff # 0 /\ \E r \in 1..L(b, dOff) :
                              LET q == dOff + 4 + 4 * (r - 1) IN U24(b, q) <= c /\ c <= U24(b, q) + B(b, q + 3)
              ND == IF ndOff = 0 THEN {} ELSE {r \in 1..L(b, ndOff) : U24(b, ndOff + 4 + 5 * (r - 1)) = c}
          IN IF ND # {} THEN <<"glyph", W(b, ndOff + 4 + 5 * ((CHOOSE r \in ND : TRUE) - 1) + 3)>>
             ELSE IF inDefault THEN <<"default", 0>> ELSE <<"none", 0>>
Cmap14WF(b) == W(b, 0) = 14 /\ L(b, 2) = Len(b)
               /\ \A k \in 1..(L(b, 6) - 1) : U24(b, 10 + 11 * (k - 1)) < U24(b, 10 + 11 * k)

(* ---------------- hmtx / loca ---------------- *)
HmtxDecode(b, ng, nm) ==
  [g \in 1..ng |-> IF g <= nm THEN <<W(b, 4 * (g - 1)), SW(b, 4 * (g - 1) + 2)>>
                   ELSE <<W(b, 4 * (nm - 1)), SW(b, 4 * nm + 2 * (g - nm - 1))>>]
HmtxWF(b, ng, nm) == nm >= 1 /\ nm <= ng /\ Len(b) = 4 * nm + 2 * (ng - nm)
LocaDecode(b, long) == IF long THEN [i \in 1..(Len(b) \div 4) |-> L(b, 4 * (i - 1))]
                       ELSE [i \in 1..(Len(b) \div 2) |-> 2 * W(b, 2 * (i - 1))]

(* ---------------- glyf: simple glyph ---------------- *)
(* flags with repeat expansion: returns <<flagsSeq, nextPos>> *)
RECURSIVE GFlags(_, _, _, _)
GFlags(b, pos, n, acc) ==
  IF Len(acc) >= n THEN <<acc, pos>>
  ELSE LET f == B(b, pos) IN
    IF (f \div 8) % 2 = 1
    THEN LET r == B(b, pos + 1) IN GFlags(b, pos + 2, n, acc \o [k \in 1..(r + 1) |-> f])
    ELSE GFlags(b, pos + 1, n, Append(acc, f))
Bit(f, k) == (f \div (2 ^ k)) % 2
(* coordinates along one axis: shortBit / sameBit are the flag bit numbers (1,4 for x; 2,5 for y) *)
RECURSIVE GCoords(_, _, _, _, _, _, _)
GCoords(b, pos, flags, i, cur, shortBit, sameBit) ==
  IF i > Len(flags) THEN <<<<>>, pos>>
  ELSE LET f == flags[i]
           d == IF Bit(f, shortBit) = 1 THEN (IF Bit(f, sameBit) = 1 THEN B(b, pos) ELSE -B(b, pos))
                ELSE IF Bit(f, sameBit) = 1 THEN 0 ELSE SW(b, pos)
           used == IF Bit(f, shortBit) = 1 THEN 1 ELSE IF Bit(f, sameBit) = 1 THEN 0 ELSE 2
           rest == GCoords(b, pos + used, flags, i + 1, cur + d, shortBit, sameBit)
       IN <<<<cur + d>> \o rest[1], rest[2]>>
SimpleGlyphDecode(b) ==
  LET nc == SW(b, 0)
      ends == [k \in 1..nc |-> W(b, 10 + 2 * (k - 1))]
      ilen == W(b, 10 + 2 * nc)
      ipos == 12 + 2 * nc
      n == IF nc = 0 THEN 0 ELSE ends[nc] + 1
      fl == GFlags(b, ipos + ilen, n, <<>>)
      xs == GCoords(b, fl[2], fl[1], 1, 0, 1, 4)
      ys == GCoords(b, xs[2], fl[1], 1, 0, 2, 5)
  IN [nc |-> nc, bbox |-> <<SW(b, 2), SW(b, 4), SW(b, 6), SW(b, 8)>>, ends |-> ends,
      instr |-> [k \in 1..ilen |-> B(b, ipos + k - 1)],
      xs |-> xs[1], ys |-> ys[1], on |-> [k \in 1..n |-> fl[1][k] % 2], overlap |-> IF n > 0 THEN Bit(fl[1][1], 6) ELSE 0,
      nflags |-> Len(fl[1]), used |-> ys[2],
      reservedClear |-> \A k \in 1..n : Bit(fl[1][k], 7) = 0]

(* ---------------- glyf: composite glyph ---------------- *)
RECURSIVE Components(_, _)
Components(b, pos) ==
  LET flags == W(b, pos)
      gid == W(b, pos + 2)
      words == Bit(flags, 0) = 1
      xy == Bit(flags, 1) = 1
      a1 == IF words THEN (IF xy THEN SW(b, pos + 4) ELSE W(b, pos + 4)) ELSE (IF xy THEN S8(B(b, pos + 4)) ELSE B(b, pos + 4))
      a2 == IF words THEN (IF xy THEN SW(b, pos + 6) ELSE W(b, pos + 6)) ELSE (IF xy THEN S8(B(b, pos + 5)) ELSE B(b, pos + 5))
      p2 == pos + 4 + (IF words THEN 4 ELSE 2)
      tr == IF Bit(flags, 3) = 1 THEN <<SW(b, p2), 0, 0, SW(b, p2)>>
            ELSE IF Bit(flags, 6) = 1 THEN <<SW(b, p2), 0, 0, SW(b, p2 + 2)>>
            ELSE IF Bit(flags, 7) = 1 THEN <<SW(b, p2), SW(b, p2 + 2), SW(b, p2 + 4), SW(b, p2 + 6)>>
            ELSE <<16384, 0, 0, 16384>>
      p3 == p2 + (IF Bit(flags, 3) = 1 THEN 2 ELSE IF Bit(flags, 6) = 1 THEN 4 ELSE IF Bit(flags, 7) = 1 THEN 8 ELSE 0)
      me == [gid |-> gid, a1 |-> a1, a2 |-> a2, xy |-> xy, tr |-> tr,
             round |-> Bit(flags, 2), metrics |-> Bit(flags, 9), overlap |-> Bit(flags, 10),
             scaledOff |-> Bit(flags, 11), unscaledOff |-> Bit(flags, 12)]
  IN IF Bit(flags, 5) = 1 THEN <<me>> \o Components(b, p3) ELSE <<me>>

(* ---------------- Coverage / ClassDef ---------------- *)
CoverageDecode(b) ==
  IF W(b, 0) = 1 THEN [k \in 1..W(b, 2) |-> W(b, 4 + 2 * (k - 1))]
  ELSE LET n == W(b, 2)
           RECURSIVE Ranges(_)
           Ranges(k) == IF k > n THEN <<>>
                        ELSE LET s == W(b, 4 + 6 * (k - 1)) e == W(b, 6 + 6 * (k - 1)) IN
                             [j \in 1..(e - s + 1) |-> s + j - 1] \o Ranges(k + 1)
       IN Ranges(1)
CoverageWF(b) ==
  IF W(b, 0) = 1 THEN Len(b) = 4 + 2 * W(b, 2) /\ \A k \in 1..(W(b, 2) - 1) : W(b, 4 + 2 * (k - 1)) < W(b, 4 + 2 * k)
  ELSE /\ W(b, 0) = 2 /\ Len(b) = 4 + 6 * W(b, 2)
       /\ \A k \in 1..W(b, 2) : W(b, 4 + 6 * (k - 1)) <= W(b, 6 + 6 * (k - 1))
       /\ \A k \in 1..(W(b, 2) - 1) : W(b, 6 + 6 * (k - 1)) < W(b, 4 + 6 * k)
       (* StartCoverageIndex is the running count *)
       /\ \A k \in 1..W(b, 2) : W(b, 8 + 6 * (k - 1)) =
             LET RECURSIVE Cnt(_) Cnt(j) == IF j = 0 THEN 0 ELSE Cnt(j - 1) + (W(b, 6 + 6 * (j - 1)) - W(b, 4 + 6 * (j - 1)) + 1) IN Cnt(k - 1)
ClassOf(b, g) ==
  IF W(b, 0) = 1 THEN LET s == W(b, 2) n == W(b, 4) IN IF g >= s /\ g < s + n THEN W(b, 6 + 2 * (g - s)) ELSE 0
  ELSE LET S == {k \in 1..W(b, 2) : W(b, 4 + 6 * (k - 1)) <= g /\ g <= W(b, 6 + 6 * (k - 1))}
       IN IF S = {} THEN 0 ELSE W(b, 8 + 6 * ((CHOOSE k \in S : TRUE) - 1))
ClassDefWF(b) ==
  IF W(b, 0) = 1 THEN Len(b) = 6 + 2 * W(b, 4)
  ELSE /\ W(b, 0) = 2 /\ Len(b) = 4 + 6 * W(b, 2)
       /\ \A k \in 1..W(b, 2) : W(b, 4 + 6 * (k - 1)) <= W(b, 6 + 6 * (k - 1))
       /\ \A k \in 1..(W(b, 2) - 1) : W(b, 6 + 6 * (k - 1)) < W(b, 4 + 6 * k)

(* ---------------- UTF-16BE ---------------- *)
RECURSIVE Utf16(_, _)
Utf16(b, pos) ==
  IF pos + 2 > Len(b) THEN <<>>
  ELSE LET u == W(b, pos) IN
    IF u >= 55296 /\ u <= 56319 /\ pos + 4 <= Len(b) /\ W(b, pos + 2) >= 56320 /\ W(b, pos + 2) <= 57343
    THEN <<65536 + (u - 55296) * 1024 + (W(b, pos + 2) - 56320)>> \o Utf16(b, pos + 4)
    ELSE <<u>> \o Utf16(b, pos + 2)
=============================================================================
