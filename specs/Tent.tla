-------------------------------- MODULE Tent --------------------------------
(* Re-expressing one axis tent under new axis limits (instancer.solver.rebaseTent).

   The CONTRACT (RebaseHolds) is stated declaratively on a list of solutions
   <<scalar, tent-or-None>>: after restricting the axis to [min, max] with new default def
   and renormalising, the solutions reproduce the original tent's scalar at every point of
   the new range.  It is the conformance oracle for the real function's output.
   Solve/RebaseTent below additionally transcribe the code's case analysis; MC_Tent
   checks that the transcription satisfies the contract on a whole lattice (design-level
   check), and the harness compares it with the real output (a difference that still
   satisfies the contract is a refactoring note, not an alarm). *)
EXTENDS VarSem

(* ---- axis limit ------------------------------------------------------------------------
   lim = <<min, def, max, dNeg, dPos>>: new minimum/default/maximum in the OLD normalised
   coordinates, and the pre-normalisation (user-space) lengths of the old negative and
   positive half axes. *)
WellFormedLimit(lim) ==
  /\ RLe(RInt(-1), lim[1]) /\ RLe(lim[1], lim[2]) /\ RLe(lim[2], lim[3]) /\ RLe(lim[3], ROne)
  /\ RIsPos(lim[4]) /\ RIsPos(lim[5])

(* Tents in the property's domain: ordered, peak # 0, not straddling zero, within [-2, 2],
   and continuous as a function on the old axis range [-1, 1] (a one-sided tent
   start = peak or peak = end jumps at its peak; the jump must not be inside the range
   nor at the far edge) *)
WellFormedTent(t) ==
  /\ RLe(RInt(-2), t[1]) /\ RLe(t[1], t[2]) /\ RLe(t[2], t[3]) /\ RLe(t[3], RInt(2))
  /\ ~RIsZero(t[2])
  /\ ~(RIsNeg(t[1]) /\ RIsPos(t[3]))
  /\ (t[1] = t[2] => (RLe(t[2], RInt(-1)) \/ RLt(ROne, t[2])))
  /\ (t[2] = t[3] => (RLe(ROne, t[2]) \/ RLt(t[2], RInt(-1))))

(* Pre-normalisation distance of an old normalised coordinate from the old default: the
   old normalisation is linear on each side of 0 with different user-space lengths *)
UserDist(lim, v) == IF RIsNeg(v) THEN RMul(v, lim[4]) ELSE RMul(v, lim[5])

(* New normalised coordinate of a point v of the new range [min, max]: 'fvar' normalisation
   of the user-space coordinate against the new <<min, def, max>> *)
UserTriple(lim) == <<UserDist(lim, lim[1]), UserDist(lim, lim[2]), UserDist(lim, lim[3])>>
RenormU(lim, utr, v) == NormalizeValue(UserDist(lim, v), utr)       \* utr = UserTriple(lim), computed once
Renorm(lim, v) == RenormU(lim, UserTriple(lim), v)

(* ---- the contract ---------------------------------------------------------------------- *)
None == <<>>
SolScalarAt(sol, x) == IF sol[2] = None THEN sol[1] ELSE RMul(sol[1], AxisScalar(sol[2], x))
RECURSIVE SolsAtFrom(_, _, _, _)
SolsAtFrom(sols, x, i, acc) ==
  IF i > Len(sols) THEN acc ELSE LET a == RAdd(acc, SolScalarAt(sols[i], x)) IN SolsAtFrom(sols, x, i + 1, a)
SolsAt(sols, x) == SolsAtFrom(sols, x, 1, RZero)

InRange(lim, x) == RLe(lim[1], x) /\ RLe(x, lim[3])
(* verdict at one point: "ok", "differs" or "overflow" *)
RebaseAtU(t, lim, utr, sols, x) ==
  LET want == AxisScalar(t, x)
      got == SolsAt(sols, RenormU(lim, utr, x))
  IN IF RBad(want) \/ RBad(got) THEN "overflow" ELSE IF want = got THEN "ok" ELSE "differs"
RebaseAt(t, lim, sols, x) ==
  LET want == AxisScalar(t, x)
      got == SolsAt(sols, Renorm(lim, x))
  IN IF RBad(want) \/ RBad(got) THEN "overflow" ELSE IF want = got THEN "ok" ELSE "differs"
RebaseHolds(t, lim, sols, Pts) ==
  \A x \in Pts : InRange(lim, x) => RebaseAt(t, lim, sols, x) = "ok"
(* ---- transcription of solver._solve / rebaseTent ----------------------------------------
   Named deviations of the code from the ideal solution, kept as explicit branches:
     * EPSILON nudges (a tent's peak may not fall on the new default).  On well-formed tents
       they only touch solutions whose scalar is 0 (lower = axisDef < peak gives gain 0),
       which rebaseTent then drops; so the contract holds EXACTLY on the whole domain and
       no tolerance is stated (MC_Tent and the conformance run confirm it);
     * the "newUpper" case 3 of the code is disabled (`if False`), case 4 is always taken. *)
Epsilon == <<1, 16384>>
ReverseNegate(t) == <<RNeg(t[3]), RNeg(t[2]), RNeg(t[1])>>
LimReverse(lim) == <<RNeg(lim[3]), RNeg(lim[2]), RNeg(lim[1]), lim[5], lim[4]>>

(* NormalizedAxisTripleAndDistances.renormalizeValue(v, extrapolate=True) *)
RECURSIVE RenormCode(_, _)
RenormCode(lim, v) ==
  IF v = lim[2] THEN RZero
  ELSE IF RIsNeg(lim[2]) THEN LET rl == LimReverse(lim) rv == RNeg(v) IN RNeg(RenormCode(rl, rv))
  ELSE IF RLt(lim[2], v) THEN RDiv(RSub(v, lim[2]), RSub(lim[3], lim[2]))
  ELSE IF ~RIsNeg(lim[1]) THEN RDiv(RSub(v, lim[2]), RSub(lim[2], lim[1]))
  ELSE LET total == RAdd(RMul(lim[4], RNeg(lim[1])), RMul(lim[5], lim[2]))
           vdist == IF ~RIsNeg(v) THEN RMul(RSub(lim[2], v), lim[5])
                    ELSE RAdd(RMul(RNeg(v), lim[4]), RMul(lim[5], lim[2]))
       IN RNeg(RDiv(vdist, total))

ScaleSols(sols, m) == TLCEval([i \in 1..Len(sols) |-> <<RMul(sols[i][1], m), sols[i][2]>>])
MirrorSols(sols) == TLCEval([i \in 1..Len(sols) |->
                       <<sols[i][1], IF sols[i][2] = None THEN None ELSE ReverseNegate(sols[i][2])>>])

PositiveSide(t, lim, gain, outGain) ==
  LET lower == t[1] peak == t[2] upper == t[3] axisDef == lim[2] axisMax == lim[3] IN
  IF RGe(gain, outGain)
  THEN LET crossing == RAdd(peak, RMul(RSub(ROne, gain), RSub(upper, peak)))                  \* case:3a
           first == << <<RSub(ROne, gain), <<RMax(lower, axisDef), peak, crossing>> >> >>
       IN IF RGe(upper, axisMax)
          THEN first \o << <<RSub(outGain, gain), <<crossing, axisMax, axisMax>> >> >>        \* case:3a1
          ELSE LET up2 == IF upper = axisDef THEN RAdd(upper, Epsilon) ELSE upper             \* case:3a2
               IN first \o << <<RNeg(gain), <<crossing, up2, axisMax>> >>,
                              <<RNeg(gain), <<up2, axisMax, axisMax>> >> >>
  ELSE LET loc1 == <<RMax(axisDef, lower), peak, axisMax>>                                     \* case:4
       IN IF RLt(peak, axisMax)
          THEN << <<RSub(ROne, gain), loc1>>, <<RSub(outGain, gain), <<peak, axisMax, axisMax>> >> >>  \* case:4-two
          ELSE << <<RSub(ROne, gain), loc1>> >>                                                \* case:4-peak-at-max

NegativeSide(t, lim, gain) ==
  LET lower == t[1] axisMin == lim[1] axisDef == lim[2] IN
  IF RLe(lower, axisMin)
  THEN << <<RSub(AxisScalar(t, axisMin), gain), <<axisMin, axisMin, axisDef>> >> >>            \* case:1neg
  ELSE LET lo2 == IF lower = axisDef THEN RSub(lower, Epsilon) ELSE lower                      \* case:2neg
       IN << <<RNeg(gain), <<axisMin, lo2, axisDef>> >>, <<RNeg(gain), <<axisMin, axisMin, lo2>> >> >>

RECURSIVE Solve(_, _)
Solve(t, lim) ==
  LET lower == t[1] peak == t[2] upper == t[3] axisMin == lim[1] axisDef == lim[2] axisMax == lim[3] IN
  IF RLt(peak, axisDef) THEN LET rt == ReverseNegate(t) rl == LimReverse(lim) IN MirrorSols(Solve(rt, rl))   \* case:mirror
  ELSE IF RLe(axisMax, lower) /\ RLt(axisMax, peak) THEN <<>>                                  \* case:1
  ELSE IF RLt(axisMax, peak)
       THEN LET t2 == <<lower, axisMax, axisMax>> IN ScaleSols(Solve(t2, lim), AxisScalar(t, axisMax))   \* case:2
  ELSE LET gain == AxisScalar(t, axisDef)
           outGain == AxisScalar(t, axisMax)
       IN << <<gain, None>> >> \o PositiveSide(t, lim, gain, outGain) \o NegativeSide(t, lim, gain)

RebaseTent(t, lim) ==
  LET sols == Solve(t, lim)
      keep == SelectSeq(sols, LAMBDA s : ~RIsZero(s[1]))
  IN TLCEval([i \in 1..Len(keep) |->
        <<keep[i][1], IF keep[i][2] = None THEN None
                      ELSE <<RenormCode(lim, keep[i][2][1]), RenormCode(lim, keep[i][2][2]),
                             RenormCode(lim, keep[i][2][3])>> >>])

(* names of the cases taken by Solve (for coverage evidence) *)
RECURSIVE SolveCases(_, _)
SolveCases(t, lim) ==
  LET lower == t[1] peak == t[2] upper == t[3] axisMin == lim[1] axisDef == lim[2] axisMax == lim[3] IN
  IF RLt(peak, axisDef) THEN LET rt == ReverseNegate(t) rl == LimReverse(lim) IN {"mirror"} \cup SolveCases(rt, rl)
  ELSE IF RLe(axisMax, lower) /\ RLt(axisMax, peak) THEN {"1"}
  ELSE IF RLt(axisMax, peak) THEN LET t2 == <<lower, axisMax, axisMax>> IN {"2"} \cup SolveCases(t2, lim)
  ELSE LET gain == AxisScalar(t, axisDef)
           outGain == AxisScalar(t, axisMax)
       IN (IF RGe(gain, outGain)
           THEN (IF RGe(upper, axisMax) THEN {"3a1"} ELSE {"3a2"})
           ELSE (IF RLt(peak, axisMax) THEN {"4"} ELSE {"4-peak-at-max"}))
          \cup (IF RLe(lower, axisMin) THEN {"1neg"} ELSE {"2neg"})
=============================================================================
