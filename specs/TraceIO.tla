---------------------------- MODULE TraceIO ----------------------------
(* Batch trace input shared by every trace specification.  The harness writes a JSON
   array of recorded traces / judged cases and passes its path in the environment
   variable TRACE_FILE; each element becomes one initial state (tid) so that TLC's
   workers validate traces in parallel.  Rejections are printed by TLC itself as
   <<"REJ", tid, clause>> and collected by the harness. *)
EXTENDS Json, IOUtils, TLC, Sequences, Naturals, Integers

Traces == JsonDeserialize(IOEnv.TRACE_FILE)
NTraces == Len(Traces)

Reject(tid, clause) == PrintT(<<"REJ", tid, clause>>)
=========================================================================
