CONSTANTS
  Tag <- TrEmpty
  Blob <- TrEmpty
  Content <- TrEmpty
  NoDecoder <- TrNoDecoder
  Dep <- TrEmpty
  EnforceH2 = FALSE
INIT TInit
NEXT TNext
INVARIANT Report
CHECK_DEADLOCK FALSE
