----------------------------- MODULE Trace_C01 -----------------------------
(* C01: recompiling any readable font is lossless and reaches a fixed point.
   Each trace is the recorded life of one real TTFont object over up to three generations:
   Open(file blobs), Access(tag, content id, raw?), Edit(tag, new content id), SaveBegin, Write(tag, blob id) in the
   order the tables appear in the written file, SaveEnd, Reopen ...  Blob and content ids
   are injective internings of table bytes (head.checkSumAdjustment masked) and of the
   canonical dump of the decoded table.  The events are replayed through the actions of
   FontLifecycle; the clause that refuses an event, or an invariant that fails in any
   state, is the verdict.                                                         *)
EXTENDS FontLifecycle, Json, IOUtils

Input == JsonDeserialize(IOEnv.TRACE_FILE)
Traces == Input.traces
TrNoDecoder == {Input.meta.noDecoder[i] : i \in 1..Len(Input.meta.noDecoder)}
TrEmpty == {}

VARIABLES tid, l, verdict
tvars == <<tid, l, verdict>>
Ev == Traces[tid].events[l]
C(id) == <<"c", id>>
FileOf(e) == [t \in {e.tags[i] : i \in 1..Len(e.tags)} |-> e.blobs[CHOOSE i \in 1..Len(e.tags) : e.tags[i] = t]]

WhyAccess(e) ==
  IF phase \notin {"open", "saving"} THEN "trace:access-while-closed"
  ELSE IF e.t \notin Dom(disk) THEN "trace:access-unknown-table"
  ELSE IF e.t \in Dom(loaded) THEN "trace:access-twice"
  ELSE IF e.t \in NoDecoder /\ ~e.raw THEN "trace:decoded-without-decoder"
  ELSE IF ~e.raw /\ ~Learns(dec, <<e.t, disk[e.t]>>, C(e.c)) THEN "lossless:content-differs-from-what-was-compiled"
  ELSE "ok"
WhyWrite(e) ==
  IF phase # "saving" \/ e.t \notin todo THEN "trace:unexpected-write"
  ELSE IF e.t \notin Dom(loaded) /\ e.b # disk[e.t] THEN "passthrough:untouched-table-changed"
  ELSE IF e.t \in Dom(loaded) /\ loaded[e.t][1] = "raw" /\ e.b # loaded[e.t][2] THEN "passthrough:undecoded-table-not-verbatim"
  ELSE IF e.t \in Dom(loaded) /\ loaded[e.t][1] # "raw" /\ ~Learns(dec, <<e.t, e.b>>, loaded[e.t]) THEN "lossless:compiled-bytes-known-to-decode-differently"
  ELSE "ok"
Why(e) ==
  CASE e.a = "Open" -> IF phase = "closed" THEN "ok" ELSE "trace:open-twice"
    [] e.a = "Access" -> WhyAccess(e)
    [] e.a = "SaveBegin" -> IF phase = "open" THEN "ok" ELSE "trace:save-while-saving"
    [] e.a = "Edit" -> IF phase # "open" \/ e.t \notin Dom(loaded) THEN "trace:edit-of-unloaded-table"
                       ELSE IF loaded[e.t][1] = "raw" THEN "trace:edit-of-raw-table"
                       ELSE IF loaded[e.t] = C(e.c) THEN "trace:edit-changed-nothing"
                       ELSE "ok"
    [] e.a = "Write" -> WhyWrite(e)
    [] e.a = "SaveEnd" -> IF phase = "saving" /\ todo = {} THEN "ok" ELSE "complete:table-missing-from-output"
    [] e.a = "Reopen" -> IF phase = "open" /\ saved # << >> THEN "ok" ELSE "trace:reopen-without-save"
    [] OTHER -> "trace:unknown-event"

Act(e) ==
  CASE e.a = "Open" -> Open(FileOf(e))
    [] e.a = "Access" -> Access(e.t, IF e.raw THEN Raw(disk[e.t]) ELSE C(e.c), e.raw)
    [] e.a = "SaveBegin" -> SaveBegin
    [] e.a = "Edit" -> Edit(e.t, C(e.c))
    [] e.a = "Write" -> Write(e.t, e.b)
    [] e.a = "SaveEnd" -> SaveEnd
    [] e.a = "Reopen" -> Reopen

TInit == /\ tid \in 1..Len(Traces) /\ l = 1 /\ verdict = "pending"
         /\ phase = "closed" /\ disk = << >> /\ loaded = << >> /\ out = << >> /\ todo = {} /\ full = FALSE
         /\ saved = << >> /\ gen = 0 /\ prevFull = FALSE /\ clean = TRUE /\ dec = << >> /\ enc = << >>
Step == /\ verdict = "pending" /\ l <= Len(Traces[tid].events)
        /\ IF Why(Ev) = "ok"
           THEN Act(Ev) /\ l' = l + 1 /\ UNCHANGED <<tid, verdict>>
           ELSE verdict' = Why(Ev) /\ UNCHANGED <<tid, l>> /\ UNCHANGED vars
Finish == /\ verdict = "pending" /\ l = Len(Traces[tid].events) + 1
          /\ verdict' = "ok" /\ PrintT(<<"ACC", tid>>) /\ UNCHANGED <<tid, l>> /\ UNCHANGED vars
Stuck == /\ verdict = "pending" /\ l <= Len(Traces[tid].events) /\ Why(Ev) = "ok" /\ ~ENABLED Act(Ev)
         /\ verdict' = "model:stuck" /\ UNCHANGED <<tid, l>> /\ UNCHANGED vars
TNext == Step \/ Finish \/ Stuck

InvClause == IF ~Passthrough THEN "passthrough:invariant"
             ELSE IF ~NoDecoderVerbatim THEN "nodecoder:table-without-decoder-changed"
             ELSE IF ~FixedPoint THEN "fixedpoint:second-generation-differs"
             ELSE IF ~Complete THEN "complete:table-set-changed"
             ELSE "ok"
Report == /\ (verdict \notin {"pending", "ok"}) => PrintT(<<"REJ", tid, verdict, l>>)
          /\ (InvClause # "ok") => PrintT(<<"REJ", tid, InvClause, l>>)
=============================================================================
