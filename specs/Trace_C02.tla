----------------------------- MODULE Trace_C02 -----------------------------
(* C02: encoding any valid table content and decoding it returns that content.
   Each record holds a content (abstract), the bytes the real encoder emitted, and what the
   real decoder made of those bytes.  TLC decodes the bytes itself with TableCodec / Codec
   (decoders transcribed from the OpenType specification), checks the well-formedness the
   specification demands, and compares all three.                                   *)
EXTENDS TraceIO, TableCodec
VARIABLES tid, verdict
vars == <<tid, verdict>>
Idx(s) == 1..Len(s)

JCmap(t) ==
  LET b == t.b
      look(c) == CASE t.fmt = 0 -> Cmap0Lookup(b, c) [] t.fmt = 4 -> Cmap4Lookup(b, c) [] t.fmt = 6 -> Cmap6Lookup(b, c)
                   [] t.fmt = 12 -> Cmap12Lookup(b, c, FALSE) [] t.fmt = 13 -> Cmap12Lookup(b, c, TRUE)
      wf == CASE t.fmt = 0 -> Cmap0WF(b) [] t.fmt = 4 -> Cmap4WF(b) [] t.fmt = 6 -> Cmap6WF(b)
              [] t.fmt = 12 -> Cmap12WF(b, 12) [] t.fmt = 13 -> Cmap12WF(b, 13)
  IN IF ~wf THEN "cmap:malformed-subtable"
     ELSE IF \E i \in Idx(t.probes) : look(t.probes[i][1]) # t.probes[i][2] THEN "cmap:independent-reader-sees-other-mapping"
     ELSE IF t.back # t.probes THEN "cmap:decompile-differs"
     ELSE IF t.hb # <<>> /\ t.hb # t.probes THEN "cmap:harfbuzz-sees-other-mapping"
     ELSE "ok"
JCmap14(t) ==
  IF ~Cmap14WF(t.b) THEN "cmap14:malformed-subtable"
  ELSE IF \E i \in Idx(t.probes) : Cmap14Lookup(t.b, t.probes[i][1], t.probes[i][2]) # <<t.probes[i][3], t.probes[i][4]>> THEN "cmap14:independent-reader-sees-other-mapping"
  ELSE IF t.back # t.probes THEN "cmap14:decompile-differs"
  ELSE "ok"
JHmtx(t) ==
  IF ~HmtxWF(t.b, t.ng, t.nm) THEN "hmtx:malformed"
  ELSE IF HmtxDecode(t.b, t.ng, t.nm) # t.metrics THEN "hmtx:independent-reader-sees-other-metrics"
  ELSE IF t.back # t.metrics THEN "hmtx:decompile-differs"
  \* named observer deviation HBAdvanceInt16: HarfBuzz 12 reports advances above 32767 as negative numbers (mod 2^16)
  ELSE IF t.hb # <<>> /\ \E g \in Idx(t.metrics) : t.hb[g] # t.metrics[g][1] /\ ~(t.metrics[g][1] > 32767 /\ t.hb[g] = t.metrics[g][1] - 65536)
       THEN "hmtx:harfbuzz-sees-other-advances"
  ELSE "ok"
JLoca(t) ==
  LET d == LocaDecode(t.b, t.long) IN
  IF d # t.offs THEN "loca:independent-reader-sees-other-offsets"
  ELSE IF ~t.long /\ \E i \in Idx(t.offs) : t.offs[i] % 2 # 0 \/ t.offs[i] > 131070 THEN "loca:short-format-cannot-hold-offsets"
  ELSE IF t.headFormat # (IF t.long THEN 1 ELSE 0) THEN "loca:indexToLocFormat-disagrees"
  ELSE IF \E i \in 1..(Len(t.offs) - 1) : t.offs[i + 1] - t.offs[i] < t.lens[i] THEN "loca:glyph-does-not-fit-its-slot"
  ELSE IF \E i \in Idx(t.offs) : t.offs[i] % t.pad # 0 THEN "loca:padding"
  ELSE "ok"
JGlyph(t) ==
  LET g == SimpleGlyphDecode(t.b) IN
  IF g.nc # t.nc \/ g.ends # t.ends THEN "glyf:contours"
  ELSE IF g.nflags # Len(t.xs) THEN "glyf:flag-repeat-count"
  ELSE IF g.xs # t.xs \/ g.ys # t.ys THEN "glyf:coordinates"
  ELSE IF g.on # t.on THEN "glyf:on-curve-flags"
  ELSE IF g.instr # t.instr THEN "glyf:instructions"
  ELSE IF g.overlap # t.overlap THEN "glyf:overlap-flag"
  ELSE IF g.used > Len(t.b) \/ Len(t.b) - g.used > 3 THEN "glyf:length"
  ELSE IF ~g.reservedClear THEN "glyf:reserved-flag-bit-set"
  ELSE IF g.bbox # t.bbox THEN "glyf:bbox"
  ELSE IF t.back # [xs |-> t.xs, ys |-> t.ys, on |-> t.on, ends |-> t.ends, instr |-> t.instr] THEN "glyf:decompile-differs"
  ELSE "ok"
JComp(t) ==
  LET c == Components(t.b, 10) IN
  IF SW(t.b, 0) # -1 THEN "comp:numberOfContours"
  ELSE IF Len(c) # Len(t.comps) THEN "comp:count"
  ELSE IF \E i \in Idx(c) : c[i] # t.comps[i] THEN "comp:component-record"
  ELSE IF t.back # t.comps THEN "comp:decompile-differs"
  ELSE "ok"
JCov(t) ==
  IF ~CoverageWF(t.b) THEN "coverage:malformed"
  ELSE IF CoverageDecode(t.b) # t.glyphs THEN "coverage:independent-reader-sees-other-glyphs"
  ELSE IF t.back # t.glyphs THEN "coverage:decompile-differs"
  ELSE "ok"
JClass(t) ==
  IF ~ClassDefWF(t.b) THEN "classdef:malformed"
  ELSE IF \E i \in Idx(t.probes) : ClassOf(t.b, t.probes[i][1]) # t.probes[i][2] THEN "classdef:independent-reader-sees-other-class"
  ELSE IF t.back # t.probes THEN "classdef:decompile-differs"
  ELSE "ok"
JName(t) ==
  IF Utf16(t.b, 0) # t.s THEN "name:utf16-bytes-decode-to-other-string"
  ELSE IF t.back # t.s THEN "name:decompile-differs"
  ELSE "ok"
JTuple(t) ==
  LET p == PackedPointsDecode(t.pb)
      d == PackedDeltasDecode(t.db) IN
  IF ~p[1] \/ p[3] # Len(t.pb) THEN "tuple:points-undecodable"
  ELSE IF p[2] # t.points THEN "tuple:points"
  ELSE IF ~d[1] THEN "tuple:deltas-undecodable"
  ELSE IF d[2] # t.deltas THEN "tuple:deltas"
  ELSE IF t.back # [points |-> t.points, deltas |-> t.deltas, peaks |-> t.peaks] THEN "tuple:decompile-differs"
  ELSE IF \E i \in Idx(t.peaks) : SW(t.coordb, 2 * (i - 1)) # t.peaks[i] THEN "tuple:peak-coordinates"
  ELSE "ok"
JRt(t) == IF t.c0 = t.c1 THEN "ok" ELSE "roundtrip:" \o t.table \o ":decompile-differs"
\* the encoder or decoder raised on a content inside the format's stated domain: no action of the codec allows that
JRaised(t) == "raised-on-valid-content:" \o t.what
Judge(t) ==
  CASE t.k = "cmap" -> JCmap(t) [] t.k = "cmap14" -> JCmap14(t) [] t.k = "hmtx" -> JHmtx(t) [] t.k = "loca" -> JLoca(t)
    [] t.k = "glyph" -> JGlyph(t) [] t.k = "comp" -> JComp(t) [] t.k = "cov" -> JCov(t) [] t.k = "classdef" -> JClass(t)
    [] t.k = "name" -> JName(t) [] t.k = "tuple" -> JTuple(t) [] t.k = "rt" -> JRt(t) [] t.k = "raised" -> JRaised(t) [] OTHER -> "unknown-kind"
Init == tid \in 1..NTraces /\ verdict = "pending"
Next == verdict = "pending" /\ verdict' = Judge(Traces[tid]) /\ UNCHANGED tid
Report == (verdict \notin {"pending", "ok"}) => Reject(tid, verdict)
=============================================================================
