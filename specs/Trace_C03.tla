----------------------------- MODULE Trace_C03 -----------------------------
(* C03: TTX XML is a lossless representation of a font.
   "bytes": per-table compiled bytes (interned) of the original object model vs of the font
            obtained by importing its dump (options recorded) - must be equal for every dumped table;
   "dump":  the files a dump produced and their include graph, down to the per-glyph files of a
            splitGlyphs dump (file names as code points, glyph names found in each file) - judged by
            TTXDump.WellFormed (every include holds exactly its table / glyph; no file named twice, ignoring case);
   "text":  a free-text string pushed through a TTX channel (text node or attribute) and read back. *)
EXTENDS TraceIO, TTXDump
VARIABLES tid, verdict
vars == <<tid, verdict>>
JBytes(t) ==
  IF t.failed # "" THEN "roundtrip:" \o t.failed
  ELSE LET D == {i \in 1..Len(t.tags) : t.dumped[i]} IN
    IF \E i \in D : t.b1[i] = 0 THEN "lossless:dumped-table-missing-after-import"
    ELSE IF \E i \in D : t.b0[i] # t.b1[i] THEN "lossless:bytes-differ:" \o t.tags[CHOOSE i \in D : t.b0[i] # t.b1[i]]
    ELSE "ok"
JDump(t) == WellFormed(t.d, Requested(t.all, t.only, t.skip), t.split, t.splitGlyphs, {t.all[i] : i \in 1..Len(t.all)})
JText(t) == IF t.kind = "text" THEN (IF TextNorm(t.s) = TextNorm(t.back) THEN "ok" ELSE "text:text-node-changed")
            ELSE (IF AttrNorm(t.s) = AttrNorm(t.back) THEN "ok" ELSE "text:attribute-changed")
Judge(t) == CASE t.k = "bytes" -> JBytes(t) [] t.k = "dump" -> JDump(t) [] t.k = "text" -> JText(t) [] OTHER -> "unknown-kind"
Init == tid \in 1..NTraces /\ verdict = "pending"
Next == verdict = "pending" /\ verdict' = Judge(Traces[tid]) /\ UNCHANGED tid
Report == (verdict \notin {"pending", "ok"}) => Reject(tid, verdict)
=============================================================================
