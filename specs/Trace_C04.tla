----------------------------- MODULE Trace_C04 -----------------------------
(* C04: every saved file is a valid container with consistent derived fields.
   One record per file written by the real library; the fields were extracted from the
   bytes by the independent reader (harness/rawsfnt.py, harness/audit.py).  The clauses
   are the predicates of SfntContainer (the invariants of the writer machine checked in
   MC_SfntWriter) plus the derived-field recomputations below.                     *)
EXTENDS TraceIO, SfntContainer

VARIABLES tid, verdict
vars == <<tid, verdict>>

SetMax(S) == CHOOSE x \in S : \A y \in S : y <= x
SetMin(S) == CHOOSE x \in S : \A y \in S : x <= y
MaxOr0(S) == IF S = {} THEN 0 ELSE SetMax(S)
Idx(s) == 1..Len(s)
Entry(e) == [tag |-> e.tag, off |-> e.off, len |-> e.len]
Dir(f) == [i \in Idx(f.dir) |-> Entry(f.dir[i])]

(* ---------------- containers ---------------- *)
JDirCommon(f, fileLen, hdrEnd) ==
  IF f.n # Len(f.dir) THEN "dir:count"
  ELSE IF ~TagsUnique(Dir(f)) THEN "dir:duplicate-tag"
  ELSE IF ~DirectorySorted(Dir(f)) THEN "dir:not-sorted"
  ELSE IF ~Aligned(Dir(f)) THEN "dir:unaligned-table"
  ELSE IF ~InsideFile(Dir(f), hdrEnd, fileLen) THEN "dir:table-outside-file"
  ELSE IF ~NonOverlapping(Dir(f)) THEN "dir:overlap"
  ELSE IF \E i \in Idx(f.dir) : ~f.dir[i].padzero THEN "dir:padding-not-zero"
  ELSE IF \E i \in Idx(f.dir) : f.dir[i].cs # f.dir[i].sum THEN "checksum:table"
  ELSE "ok"

JSfnt(t) ==
  LET f == t.fonts[1]
      c == JDirCommon(f, t.fileLen, f.hdrEnd) IN
  IF c # "ok" THEN c
  ELSE IF ~SearchFields(f.n, 16, f.sr, f.es, f.rs) THEN "header:search-fields"
  ELSE IF f.adj # <<>> /\ f.adj # LSub(Magic, t.fileSum0) THEN "checksum:master"
  ELSE IF t.fileLen < t.lastEnd \/ t.fileLen > Pad4(t.lastEnd) \/ ~t.tailZero THEN "file:trailing-bytes"
  ELSE "ok"

JTTC(t) ==
  LET bad == {i \in Idx(t.fonts) : JDirCommon(t.fonts[i], t.fileLen, 12 + 4 * t.ttc.numFonts) # "ok"}
      all == [i \in Idx(t.fonts) |-> Dir(t.fonts[i])]
      RECURSIVE Cat(_)
      Cat(i) == IF i > Len(all) THEN <<>> ELSE all[i] \o Cat(i + 1)
  IN IF t.ttc.numFonts # Len(t.fonts) \/ Len(t.ttc.offsets) # Len(t.fonts) THEN "ttc:count"
     ELSE IF \E i \in Idx(t.fonts) : t.ttc.offsets[i] # t.fonts[i].dirOff \/ t.fonts[i].dirOff % 4 # 0 THEN "ttc:offsets"
     ELSE IF bad # {} THEN JDirCommon(t.fonts[SetMin(bad)], t.fileLen, 12 + 4 * t.ttc.numFonts)
     ELSE IF \E i \in Idx(t.fonts) : ~SearchFields(t.fonts[i].n, 16, t.fonts[i].sr, t.fonts[i].es, t.fonts[i].rs) THEN "header:search-fields"
     ELSE IF ~NonOverlapping(Cat(1)) THEN "ttc:overlap-across-fonts"
     (* a directory must not lie inside a table block *)
     ELSE IF \E i, j \in Idx(t.fonts) : \E k \in Idx(t.fonts[j].dir) :
              LET e == t.fonts[j].dir[k] IN
              e.len > 0 /\ e.off < t.fonts[i].hdrEnd /\ t.fonts[i].dirOff < e.off + e.len THEN "ttc:directory-inside-table"
     ELSE IF t.fileLen < t.lastEnd \/ t.fileLen > Pad4(t.lastEnd) \/ ~t.tailZero THEN "file:trailing-bytes"
     ELSE "ok"

RECURSIVE SumPadOrig(_, _)
SumPadOrig(d, i) == IF i > Len(d) THEN 0 ELSE Pad4(d[i].orig) + SumPadOrig(d, i + 1)

JWoff(t) ==
  LET f == t.fonts[1]  w == t.woff
      c == JDirCommon(f, t.fileLen, f.hdrEnd) IN
  IF c # "ok" THEN c
  ELSE IF w.length # t.fileLen THEN "woff:length-field"
  ELSE IF w.reserved # 0 THEN "woff:reserved"
  ELSE IF \E i \in Idx(f.dir) : f.dir[i].len > f.dir[i].orig \/ f.dir[i].inflated # f.dir[i].orig THEN "woff:lengths"
  ELSE IF w.totalSfntSize # 12 + 16 * f.n + SumPadOrig(f.dir, 1) THEN "woff:totalSfntSize"
  ELSE IF w.metaLength = 0 /\ w.privLength = 0 /\ (t.fileLen # w.lastEnd) THEN "file:trailing-bytes"
  ELSE IF f.adj # <<>> /\ f.adj # LSub(Magic, w.sfntSum0) THEN "checksum:master"
  ELSE IF t.problems # <<>> THEN "woff:reader-problem"
  ELSE "ok"

JWoff2(t) ==
  LET w == t.woff2 IN
  IF w.length # t.fileLen THEN "woff2:length-field"
  ELSE IF w.reserved # 0 THEN "woff2:reserved"
  ELSE IF w.n # w.entries THEN "woff2:numTables"
  ELSE IF ~w.tagsUnique THEN "dir:duplicate-tag"
  ELSE IF w.decompressed # w.dirSum THEN "woff2:decompressed-size"
  ELSE IF ~w.hasMetaOrPriv /\ (t.fileLen # Pad4(w.dataEnd) \/ ~w.padZero) THEN "file:trailing-bytes"
  ELSE IF w.hasDSIG THEN "woff2:dsig-kept"
  ELSE IF (w.glyfIdx > 0) # (w.locaIdx > 0) THEN "woff2:glyf-without-loca"
  ELSE IF w.glyfIdx > 0 /\ (w.locaIdx < w.glyfIdx \/ w.glyfTransformed # w.locaTransformed) THEN "woff2:glyf-loca-order"
  ELSE IF w.headFlags >= 0 /\ (w.headFlags \div 2048) % 2 # 1 THEN "woff2:head-flags-bit11"
  ELSE IF w.totalSfntSize # w.expectSfntSize THEN "woff2:totalSfntSize"
  ELSE "ok"

JContainer(t) == CASE t.kind = "sfnt" -> JSfnt(t) [] t.kind = "ttc" -> JTTC(t)
                   [] t.kind = "woff" -> JWoff(t) [] t.kind = "woff2" -> JWoff2(t) [] OTHER -> "kind"

(* ---------------- derived fields ---------------- *)
JMetrics(h, gl, horizontal) ==
  (* hhea/hmtx (or vhea/vmtx): h = [advanceMax, minLeading, minTrailing, maxExtent, numberOfMetrics,
     mtxLen, metrics]; gl = per-glyph records with stored bbox *)
  LET ng == Len(gl)
      nm == h.numberOfMetrics
      m == h.metrics
      B == {i \in Idx(gl) : gl[i].nc # 0 /\ gl[i].bbox # <<>>}
      ext(i) == IF horizontal THEN gl[i].bbox[3] - gl[i].bbox[1] ELSE gl[i].bbox[4] - gl[i].bbox[2]
  IN IF h.mtxLen # 4 * nm + 2 * (ng - nm) \/ nm > ng \/ (ng > 0 /\ nm < 1) \/ Len(m) # ng THEN "metrics:count-or-length"
     ELSE IF h.advanceMax # MaxOr0({m[i][1] : i \in Idx(m)}) THEN "metrics:advanceMax"
     ELSE IF B = {} THEN (IF h.minLeading = 0 /\ h.minTrailing = 0 /\ h.maxExtent = 0 THEN "ok" ELSE "metrics:empty-font-extents")
     ELSE IF horizontal /\ h.minLeading # SetMin({m[i][2] : i \in B}) THEN "metrics:minLeadingBearing"
     ELSE IF horizontal /\ h.minTrailing # SetMin({m[i][1] - m[i][2] - ext(i) : i \in B}) THEN "metrics:minTrailingBearing"
     ELSE IF horizontal /\ h.maxExtent # SetMax({m[i][2] + ext(i) : i \in B}) THEN "metrics:maxExtent"
     ELSE "ok"

JDerived(d) ==
  LET gl == d.glyphs
      S == {i \in Idx(gl) : gl[i].nc > 0}
      C == {i \in Idx(gl) : gl[i].nc < 0}
      B == {i \in Idx(gl) : gl[i].nc # 0 /\ gl[i].bbox # <<>>}
      mp == d.maxp
  IN IF mp.numGlyphs # Len(gl) THEN "maxp:numGlyphs"
     ELSE IF mp.maxPoints # MaxOr0({gl[i].np : i \in S}) THEN "maxp:maxPoints"
     ELSE IF mp.maxContours # MaxOr0({gl[i].ncn : i \in S}) THEN "maxp:maxContours"
     ELSE IF mp.maxCompositePoints # MaxOr0({gl[i].np : i \in C}) THEN "maxp:maxCompositePoints"
     ELSE IF mp.maxCompositeContours # MaxOr0({gl[i].ncn : i \in C}) THEN "maxp:maxCompositeContours"
     ELSE IF mp.maxComponentElements # MaxOr0({gl[i].ncomp : i \in C}) THEN "maxp:maxComponentElements"
     ELSE IF mp.maxComponentDepth # MaxOr0({gl[i].dep : i \in C}) THEN "maxp:maxComponentDepth"
     ELSE IF \E i \in Idx(gl) : gl[i].calc # <<>> /\ gl[i].bbox # gl[i].calc THEN "glyph:bbox"
     ELSE IF \E k \in Idx(d.pointSample) :
               LET p == d.pointSample[k]  g == gl[p.gid + 1] IN
               \/ Len(p.xs) # g.np \/ Len(p.endPts) # g.ncn \/ p.endPts[Len(p.endPts)] # g.np - 1
               \/ g.bbox # << SetMin({p.xs[j] : j \in Idx(p.xs)}), SetMin({p.ys[j] : j \in Idx(p.ys)}),
                              SetMax({p.xs[j] : j \in Idx(p.xs)}), SetMax({p.ys[j] : j \in Idx(p.ys)}) >>
          THEN "glyph:bbox-from-points"
     ELSE IF B = {} /\ <<d.head.xMin, d.head.yMin, d.head.xMax, d.head.yMax>> # <<0, 0, 0, 0>> THEN "head:bbox-empty-font"
     ELSE IF B # {} /\ <<d.head.xMin, d.head.yMin, d.head.xMax, d.head.yMax>> #
                 << SetMin({gl[i].bbox[1] : i \in B}), SetMin({gl[i].bbox[2] : i \in B}),
                    SetMax({gl[i].bbox[3] : i \in B}), SetMax({gl[i].bbox[4] : i \in B}) >> THEN "head:bbox"
     ELSE IF d.hasLoca /\ ( d.loca.n # Len(gl) + 1 \/ d.loca.first # 0 \/ ~d.loca.monotone \/ d.loca.last > d.loca.glyfLen
                            \/ ~d.loca.used_ok ) THEN "loca:offsets"
     ELSE IF d.hasLoca /\ d.head.indexToLocFormat = 0 /\ (d.loca.locaLen # 2 * d.loca.n \/ ~d.loca.allEven \/ d.loca.max > 131070) THEN "loca:short-format"
     ELSE IF d.hasLoca /\ d.head.indexToLocFormat = 1 /\ d.loca.locaLen # 4 * d.loca.n THEN "loca:long-format"
     ELSE IF d.hasLoca /\ d.head.indexToLocFormat \notin {0, 1} THEN "loca:format-field"
     \* WOFF2: the decoder rebuilds loca in the transformed glyf stream's indexFormat; head must announce that format
     ELSE IF d.w2IndexFormat # -1 /\ d.w2IndexFormat # d.head.indexToLocFormat THEN "woff2:glyf-indexFormat-disagrees-with-head"
     ELSE IF d.hasHhea /\ JMetrics(d.hhea, gl, TRUE) # "ok" THEN "h" \o JMetrics(d.hhea, gl, TRUE)
     ELSE IF d.hasVhea /\ JMetrics(d.vhea, gl, FALSE) # "ok" THEN "v" \o JMetrics(d.vhea, gl, FALSE)
     ELSE "ok"

(* ---------------- flavour neutrality ---------------- *)
JNeutral(t) ==
  (* t.base and t.other: table tag -> interned content id (head masked, glyf/loca by glyph content
     under WOFF2); same key sets except DSIG under WOFF2 *)
  IF t.tagsBase # t.tagsOther THEN "neutral:table-set"
  ELSE IF \E i \in Idx(t.idsBase) : t.idsBase[i] # t.idsOther[i] THEN "neutral:content:" \o t.names[CHOOSE i \in Idx(t.idsBase) : t.idsBase[i] # t.idsOther[i]]
  ELSE "ok"

Judge(t) ==
  IF t.what = "container" THEN
     LET c == JContainer(t) IN
     IF c # "ok" THEN c
     ELSE IF t.derivedError # "" THEN "derived:independent-reader-cannot-parse-a-written-table"
     ELSE IF t.hasDerived THEN JDerived(t.derived) ELSE "ok"
  ELSE IF t.what = "neutral" THEN JNeutral(t)
  ELSE "unknown-record"

Init == tid \in 1..NTraces /\ verdict = "pending"
Next == verdict = "pending" /\ verdict' = Judge(Traces[tid]) /\ UNCHANGED tid
Report == (verdict \notin {"pending", "ok"}) => Reject(tid, verdict)
=============================================================================
