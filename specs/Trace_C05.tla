----------------------------- MODULE Trace_C05 -----------------------------
(* C05 judge: glyph outlines and advances reported by fontTools are the font's true ones.

   One trace = one glyph of one font with everything needed to evaluate it from the RAW
   table data (t.F, read by the independent readers; for CFF/CFF2 the charstring tokens,
   subroutines and variation regions) and a list of cases, one per location:
     c.loc  user-space location, one [num, den] per fvar axis; [] = no location requested
     c.ft   what fontTools did: pen calls recorded from glyphSet[name].draw(pen) (components
            decomposed through the glyph set), glyphSet[name].width, or the exception raised
     c.hb   what HarfBuzz did at the same location (draw_glyph / get_glyph_h_advance)
   Pen calls are in PenProto's encoding with coordinates in units of 1/K (floats rounded to
   the nearest 1/K by the harness: slack 1/(2K) + float noise << Tol).

   TLC computes the reference (GlyfSem / IUP / VarSem / VarStoreSem; T2Sem for charstrings)
   and decides, per case, with TOTAL verdicts:
     "ok"
     "skip:<why>"            outside the modelled domain (counted, never validated)
     "ft:<clause>"           fontTools differs from the reference (and HarfBuzz does not side
                             with fontTools): property violation; "ft:outline:dev:<names>"
                             when the observed outline is exactly what the NAMED deviation(s)
                             of GlyfSem produce
     "oracle:<clause>"       the reference differs from fontTools AND HarfBuzz, which agree
                             with each other: suspected oracle bug (machinery failure)
     "hb:<clause>"           HarfBuzz differs from the reference and fontTools: observer anomaly
   Tolerances (derived, see the definitions below): outlines are compared on the integer grid
   of 1/(2K) units -- fontTools within 4 grid units (1/512 unit, DESIGN.md C05), HarfBuzz within
   32 (1/64: 32-bit float coordinates), the two observers against each other within 1/2 + 1/64
   (they may legitimately differ by the rounding conventions LsbRounded / AdvanceRounded named
   in GlyfSem); advances in exact rationals with the same three tolerances.
   HarfBuzz's observation is present in every third case and, in a second pass, in every case
   that failed "ft:outline" / "ft:advance" without it (the harness re-submits those).      *)
EXTENDS TraceIO, GlyfSem

PP == INSTANCE PenProto
T2 == INSTANCE T2Sem

VARIABLES tid, verdict
vars == <<tid, verdict>>

(* observations travel in units of 1/K; the comparison grid is G = 2K so that the implied
   on-curve points of quadratic runs (midpoints) stay integral.  Thresholds in grid units:
   fontTools 4 (= 1/512 unit: accepted for certain up to 3/2048, refused from 5/2048 on; the
   float -> 1/K conversion of the harness costs at most 1 grid unit), HarfBuzz 32 (= 1/64: its
   coordinates are 32-bit floats), the two observers against each other G/2 + 32 (they may
   legitimately differ by the rounding conventions LsbRounded / AdvanceRounded of GlyfSem). *)
Tol == Rat(1, 512)
HbTol == Rat(1, 64)
TriTol == Rat(33, 64)
FtT == 4
HbT == 32
TriT(K) == K + 32

(* a closed contour without on-curve point (qCurveTo(..., None)): through GlyfSem's ContourAtoms
   in rationals, then onto the grid (exact: all values are multiples of 1/(2K)) *)
GridAtomsOfAllOff(p, K) ==
  LET a == ContourAtoms([i \in 1..Len(p) |-> <<Rat(p[i][1], K), Rat(p[i][2], K), 0>>])
  IN [j \in 1..Len(a) |-> GridAtom(a[j], 2 * K)]

(* ---- observed pen calls -> outline (contours of atoms) on the grid G = 2K ------------------ *)
ObsPt(q, K) == <<2 * q[1], 2 * q[2]>>
IMid(a, b) == (a + b) \div 2          \* exact: both are even
RECURSIVE QuadChainI(_, _, _, _)
QuadChainI(p0, offs, p, i) ==
  IF i > Len(offs) THEN <<>>
  ELSE LET e == IF i = Len(offs) THEN p
                ELSE <<IMid(offs[i][1], offs[i + 1][1]), IMid(offs[i][2], offs[i + 1][2])>>
           rest == QuadChainI(e, offs, p, i + 1)
       IN << <<p0, offs[i], e>> >> \o rest
RECURSIVE ObsWalk(_, _, _, _, _, _)
ObsWalk(seq, i, p0, offs, K, acc) ==
  IF i > Len(seq) THEN acc
  ELSE IF seq[i][3] = PP!TOFF
       THEN LET o2 == Append(offs, ObsPt(seq[i], K)) IN ObsWalk(seq, i + 1, p0, o2, K, acc)
  ELSE LET p == ObsPt(seq[i], K)
           n == Len(offs)
           atoms == IF n = 0 THEN << <<p0, p>> >>
                    ELSE IF seq[i][3] = PP!TQCURVE THEN QuadChainI(p0, offs, p, 1)
                    ELSE << <<p0>> \o offs \o <<p>> >>     \* 1 control point: quadratic, 2: cubic
           a2 == acc \o atoms
       IN ObsWalk(seq, i + 1, p, <<>>, K, a2)
(* a contour of PenProto's point structure; an open contour is closed by a straight line
   (TrueType and Type 2 contours are always closed) *)
ShapeAtoms(it, K) ==
  LET p == it.pts
      f == PP!FirstOn(p)
  IN IF f = 0 THEN GridAtomsOfAllOff(p, K)
     ELSE LET rot == PP!RotateAfter(p, f)
              st == ObsPt(p[f], K)
          IN ObsWalk(rot, 1, st, <<>>, K, <<>>)
ObsOutline(calls, K) ==
  LET sh == PP!ShapeOfSeg(calls) IN
  IF ~sh.ok \/ \E i \in 1..Len(sh.items) : sh.items[i].k # "c" THEN [ok |-> FALSE, o |-> <<>>]
  ELSE [ok |-> TRUE, o |-> TLCEval([i \in 1..Len(sh.items) |-> ShapeAtoms(sh.items[i], K)])]

RLoc(l) == TLCEval([i \in 1..Len(l) |-> Rat(l[i][1], l[i][2])])
PhBad(ph) == \E i \in 1..2 : RBad(ph[i][1])

(* ---- one case of a 'glyf' glyph --------------------------------------------------------- *)
DevNames == <<"cshift", "scaled", "cshift+scaled">>
DevOpts(k) == CASE k = 1 -> [SpecOpts EXCEPT !.cshift = FALSE]
                [] k = 2 -> [SpecOpts EXCEPT !.scaled = FALSE]
                [] k = 3 -> [SpecOpts EXCEPT !.cshift = FALSE, !.scaled = FALSE]
DevApplies(F, gi, k) == CASE k = 1 -> F.glyphs[gi].k = "c"
                          [] k = 2 -> UsesScaledOffset(F, gi)
                          [] k = 3 -> F.glyphs[gi].k = "c" /\ UsesScaledOffset(F, gi)

(* "bad" when the reference does not fit the integer grid (31 bits) *)
MatchesRef(ref, obs, variable, T, K) ==
  \E s \in ShiftCandidates(ref.shift, variable) :
     LET shifted == GridOutline(ShiftOutline(ref.atoms, s), 2 * K)
     IN ~GridBad(shifted) /\ SameOutlineI(shifted, obs, T)
RefGridBad(ref, K) == GridBad(GridOutline(ShiftOutline(ref.atoms, ref.shift), 2 * K))

(* clauses of one case as a set of strings *)
OutlineClauses(F, INF, gi, nloc, variable, ref, c, K) ==
  LET ft == ObsOutline(c.ft.calls, K)
      hasHb == c.hb.has = 1
      hb == IF hasHb THEN ObsOutline(c.hb.calls, K) ELSE [ok |-> FALSE, o |-> <<>>]
      ftOK == ft.ok /\ MatchesRef(ref, ft.o, variable, FtT, K)
      hbOK == hb.ok /\ MatchesRef(ref, hb.o, FALSE, HbT, K)
  IN IF ~ft.ok THEN {"ft:pen-protocol"}
     ELSE IF ftOK THEN (IF hasHb /\ ~hbOK THEN {"hb:outline"} ELSE {})
     ELSE LET cand == {k \in 1..3 : DevApplies(F, gi, k)}
              refs == TLCEval([k \in cand |-> Reference(F, INF, gi, nloc, DevOpts(k))])
              devs == {k \in cand : refs[k].bad = "" /\ MatchesRef(refs[k], ft.o, variable, FtT, K)}
          IN IF \E k \in cand : refs[k].bad = "" /\ (OutlineBad(refs[k].atoms) \/ RefGridBad(refs[k], K))
             THEN {"skip:overflow"}      \* a named deviation cannot be evaluated in 31 bits: no verdict
             ELSE IF devs # {} THEN {"ft:outline:dev:" \o DevNames[CHOOSE k \in devs : \A j \in devs : k <= j]}
             ELSE IF hasHb /\ hb.ok /\ ~hbOK /\ SameOutlineI(ft.o, hb.o, TriT(K)) THEN {"oracle:outline"}
             ELSE {"ft:outline"}

AdvanceClauses(A, c) ==
  LET w == Rat(c.ft.w[1], c.ft.w[2])
      hasHb == c.hb.has = 1
      hw == IF hasHb THEN Rat(c.hb.w[1], c.hb.w[2]) ELSE RZero
      ftOK == AdvanceOK(w, A, Tol)
      hbOK == AdvanceOK(hw, A, HbTol)
  IN IF ftOK THEN (IF hasHb /\ ~hbOK THEN {"hb:advance"} ELSE {})
     ELSE IF hasHb /\ ~hbOK /\ RLe(RAbs(RSub(w, hw)), TriTol) THEN {"oracle:advance"}
     ELSE {"ft:advance"}

GlyfCase(F, INF, gi, c, K) ==
  LET nl == NormLoc(F, RLoc(c.loc)) IN
  IF nl.why # "" THEN {"skip:" \o nl.why}
  ELSE LET nloc == nl.loc
           variable == c.loc # <<>>
           ref == Reference(F, INF, gi, nloc, SpecOpts)
       IN IF ref.bad # "" THEN {"skip:" \o ref.bad}
          ELSE IF OutlineBad(ref.atoms) \/ PhBad(ref.ph) \/ RefGridBad(ref, K) THEN {"skip:overflow"}
          ELSE IF UsesMyMetrics(F, gi)
                  /\ LET own == Reference(F, INF, gi, nloc, [SpecOpts EXCEPT !.umm = FALSE])
                     IN own.ph[1][1] # ref.ph[1][1] \/ own.ph[2][1] # ref.ph[2][1]
               THEN {"skip:use-my-metrics-inconsistent"}     \* named domain restriction (GlyfSem opts.umm)
          ELSE IF c.ft.raised # "" THEN
                 {IF UsesPointMatching(F, gi) THEN "ft:raised:point-matched" ELSE "ft:raised"}
          ELSE LET A == RefAdvance(F, gi, nloc, ref.ph) IN
               IF RBad(A) THEN {"skip:overflow"}
               ELSE OutlineClauses(F, INF, gi, nloc, variable, ref, c, K) \cup AdvanceClauses(A, c)

(* ---- CFF / CFF2 charstrings -------------------------------------------------------------- *)
HardLimit == 513
CsCx(cs, loc) == [fmt |-> cs[1], lim |-> HardLimit, ls |-> cs[3], nls |-> cs[4], gs |-> cs[5], ngs |-> cs[6],
                  rg |-> cs[7], vsi |-> cs[8], loc |-> loc]
SameStructure(P, Q) ==
  /\ Len(P) = Len(Q)
  /\ \A k \in 1..Len(P) : Len(P[k]) = Len(Q[k]) /\ \A j \in 1..Len(P[k]) : P[k][j][1] = Q[k][j][1]
(* a coordinate of the path at a location: every coordinate the machine produces is a sum of
   operands, hence linear in the blended operands: v(L) = v0 + sum_r scalar_r(L) (v_r - v0),
   where v_r is the value with region r switched on alone *)
RECURSIVE BlendFrom(_, _, _, _, _, _, _, _)
BlendFrom(P0, PR, S, D, k, j, m, r) ==
  IF r > Len(PR) THEN RZero
  ELSE LET rest == BlendFrom(P0, PR, S, D, k, j, m, r + 1)
       IN IF RIsZero(S[r]) \/ PR[r][k][j][m] = P0[k][j][m] THEN rest
          ELSE RAdd(RMul(S[r], Rat(PR[r][k][j][m] - P0[k][j][m], D)), rest)
CoordAt(P0, PR, S, D, k, j, m) ==
  LET b == BlendFrom(P0, PR, S, D, k, j, m, 1) IN RAdd(Rat(P0[k][j][m], D), b)
SegPts(P0, PR, S, D, k, j) ==
  [q \in 1..((Len(P0[k][j]) - 1) \div 2) |-> <<CoordAt(P0, PR, S, D, k, j, 2 * q), CoordAt(P0, PR, S, D, k, j, 2 * q + 1)>>]
RECURSIVE CsContour(_, _, _, _, _, _, _, _)
CsContour(P0, PR, S, D, k, j, cur, acc) ==
  IF j > Len(P0[k]) THEN acc
  ELSE LET pts == SegPts(P0, PR, S, D, k, j)
           a2 == Append(acc, <<cur>> \o pts)
           nxt == pts[Len(pts)]
       IN CsContour(P0, PR, S, D, k, j + 1, nxt, a2)
CsOutline(P0, PR, S, D) ==
  TLCEval([k \in 1..Len(P0) |->
     LET st == SegPts(P0, PR, S, D, k, 1)[1]
         body == CsContour(P0, PR, S, D, k, 2, st, <<>>)
         en == IF body = <<>> THEN st ELSE body[Len(body)][Len(body[Len(body)])]
     IN Append(body, <<en, st>>)])     \* "charstring contours are closed": the closing line

CffCase(t, R0, RR, c) ==
  LET F == t.F
      nl == NormLoc(F, RLoc(c.loc)) IN
  IF nl.why # "" THEN {"skip:" \o nl.why}
  ELSE LET nloc == nl.loc
           S == TLCEval([r \in 1..Len(t.rgn) |->
                   RegionScalar([a \in 1..Len(t.rgn[r]) |-> <<F2(t.rgn[r][a][1]), F2(t.rgn[r][a][2]), F2(t.rgn[r][a][3])>>], nloc)])
           D == t.D
           P0 == R0.path
           PR == [r \in 1..Len(RR) |-> RR[r].path]
           ref == [bad |-> "", atoms |-> CsOutline(P0, PR, S, D), shift |-> RZero, ph |-> <<>>]
           A == IF AtDefault(nloc) \/ F.hvar.has = 0 THEN RInt(F.hmtx[1][1])
                ELSE RAdd(RInt(F.hmtx[1][1]), StoreEval(StoreOf(F.hvar.store), HvarIndex(F.hvar, F.glyphs[1].gid), nloc))
       IN IF \E r \in 1..Len(RR) : RR[r].err # "" \/ ~SameStructure(P0, PR[r]) THEN {"skip:cff2-structure"}
          ELSE IF \E r \in 1..Len(S) : RBad(S[r]) THEN {"skip:overflow"}
          ELSE IF OutlineBad(ref.atoms) \/ RBad(A) \/ GridBad(GridOutline(ref.atoms, 2 * t.K)) THEN {"skip:overflow"}
          ELSE IF c.ft.raised # "" THEN {"ft:raised"}
          ELSE LET ft == ObsOutline(c.ft.calls, t.K)
                   hasHb == c.hb.has = 1
                   hb == IF hasHb THEN ObsOutline(c.hb.calls, t.K) ELSE [ok |-> FALSE, o |-> <<>>]
                   rg == GridOutline(ref.atoms, 2 * t.K)
                   ftOK == ft.ok /\ SameOutlineI(rg, ft.o, FtT)
                   hbOK == hb.ok /\ SameOutlineI(rg, hb.o, HbT)
                   oc == IF ~ft.ok THEN {"ft:pen-protocol"}
                         ELSE IF ftOK THEN (IF hasHb /\ ~hbOK THEN {"hb:outline"} ELSE {})
                         ELSE IF hasHb /\ hb.ok /\ ~hbOK /\ SameOutlineI(ft.o, hb.o, TriT(t.K)) THEN {"oracle:outline"}
                         ELSE {"ft:outline"}
               IN oc \cup AdvanceClauses(A, c)

(* ---- the trace ---------------------------------------------------------------------------- *)
Tag(i, s) == ToString(i) \o ":" \o s
CaseTags(i, S) == {Tag(i, s) : s \in S}

JudgeGlyf(t) ==
  IF ~FontWellFormed(t.F) \/ t.gi \notin 1..Len(t.F.glyphs) THEN {"0:malformed:font"}
  ELSE LET INF == FontInferred(t.F)
       IN UNION {CaseTags(i, GlyfCase(t.F, INF, t.gi, t.cases[i], t.K)) : i \in 1..Len(t.cases)}

JudgeCff(t) ==
  LET R0 == T2!Run(CsCx(t.cs, 0), t.cs[2]) IN
  IF R0.err # "" THEN {"0:skip:t2:" \o R0.err}
  ELSE IF R0.seac # <<>> THEN {"0:skip:seac"}
  ELSE LET RR == TLCEval([r \in 1..Len(t.rgn) |-> T2!Run(CsCx(t.cs, r), t.cs[2])])
       IN UNION {CaseTags(i, CffCase(t, R0, RR, t.cases[i])) : i \in 1..Len(t.cases)}

Judge(t) == IF t.kind = "glyf" THEN JudgeGlyf(t) ELSE IF t.kind = "cff" THEN JudgeCff(t) ELSE {"0:malformed:kind"}

(* every clause is printed: <<"REJ", tid, "<case>:<clause>">> (skips and observer anomalies too:
   the harness sorts them by prefix); the verdict is computed in the invariant of the successor
   state so that the workers judge traces in parallel with cached LET values *)
Init == tid \in 1..NTraces /\ verdict = "pending"
Next == verdict = "pending" /\ verdict' = "judged" /\ UNCHANGED tid
Report == (verdict = "judged") => \A v \in Judge(Traces[tid]) : Reject(tid, v)
=============================================================================
