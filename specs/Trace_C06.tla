----------------------------- MODULE Trace_C06 -----------------------------
(* C06 judge (one case per trace; the resolution loop itself is judged step by step by Trace_C06_Loop).

   k = "pack"   (R) an offset graph rebuilt with the real OTTableWriter and packed by the real getAllData:
                g graph in bytes, mode, res / rec what the real code did, scan = the <<data, size>> headers met
                by a linear scan of the emitted bytes, walk = <<node, at, data read, size read, offsets read>> of
                a walk that follows the offsets READ FROM THE BYTES along the original tree.
   (further kinds are added below)                                                                    *)
EXTENDS TraceIO, OTLGraph

VARIABLES tid, verdict
vars == <<tid, verdict>>

-----------------------------------------------------------------------------
(* expected walk: original node n is represented, after interning, by node m *)
RECURSIVE ExpWalk(_, _, _, _)
ExpWalk(G, P, n, m) ==
  <<  <<n, P.pos[m], G[n].data, G[n].hsize, [i \in 1..Len(P.K[m]) |-> P.pos[P.K[m][i]] - P.pos[m]]>>  >>
  \o LET RECURSIVE Cat(_)
         Cat(i) == IF i > Len(G[n].kids) THEN <<>> ELSE ExpWalk(G, P, G[n].kids[i][1], P.K[m][i]) \o Cat(i + 1)
     IN Cat(1)

JPack(t) ==
  LET G == t.g
      P == Pack(G, 1, t.mode, RealLimits)
      badvisit == \E j \in 1..Len(t.walk) : t.walk[j][3] # G[t.walk[j][1]].data \/ t.walk[j][4] # G[t.walk[j][1]].hsize
  IN IF t.res = "ok" /\ P.res # "ok" THEN "NoSilentWrap:table-returned-although-an-offset-does-not-fit"
     ELSE IF t.res = "ok" /\ badvisit THEN "EdgesResolve:offset-read-from-bytes-lands-on-wrong-block"
     ELSE IF t.res # "ok" /\ P.res = "ok" THEN "pack:error-raised-although-the-layout-fits"
     ELSE IF t.res # P.res THEN "pack:wrong-kind-of-error"
     ELSE IF P.res = "overflow" /\ (t.rec[1] # P.rec[1] \/ t.rec[2] # P.K[P.rec[1]][P.rec[2]]) THEN "pack:overflow-record-names-another-edge"
     ELSE IF P.res # "ok" THEN "ok"
     ELSE IF t.len # P.total THEN "pack:emitted-length-differs"
     ELSE IF ~t.noscan /\ t.scan # [k \in 1..Len(P.order) |-> <<G[P.order[k]].data, G[P.order[k]].hsize>>] THEN "pack:emitted-order-differs"
     ELSE IF t.walk # ExpWalk(G, P, 1, 1) THEN "pack:positions-differ"
     ELSE LET c == PackClause(G, 1, P) IN IF c = "ok" THEN "ok" ELSE "pack:" \o c

Judge(t) ==
  CASE t.k = "pack" -> JPack(t)
    [] OTHER -> "unknown-kind"

Init == tid \in 1..NTraces /\ verdict = "pending"
Next == verdict = "pending" /\ verdict' = Judge(Traces[tid]) /\ UNCHANGED tid
Report == (verdict \notin {"pending", "ok"}) => Reject(tid, verdict)
=============================================================================
