----------------------------- MODULE Trace_C06 -----------------------------
(* C06 judge (one case per trace; the resolution loop itself is judged step by step by Trace_C06_Loop).

   k = "pack"   (R) an offset graph rebuilt with the real OTTableWriter and packed by the real getAllData:
                g graph in bytes, mode, res / rec what the real code did, scan = the <<data, size>> headers met
                by a linear scan of the emitted bytes, walk = <<node, at, data read, size read, offsets read>> of
                a walk that follows the offsets READ FROM THE BYTES along the original tree.
   k = "split"  (R) one (lookup list, overflow record) state exported by MC_OTLRepack, realised as real otTables
                objects; the real tryResolveOverflow (fixSubTableOverFlows / split* / fixLookupOverFlows) was
                called on it: lk / rec / sem = the exported summary, record and meaning (OTLSem layout),
                before / after = harness/otl_project.py projections of the real objects before and after the
                call, sumafter = structural summary afterwards, ok / crash = what the call returned / raised.
   k = "e2e"    (V) one font: M = projection of the in-memory tables before compile, runs = one entry per distinct
                compiled result (modes = the (repacker mode, compaction level) pairs that produced these bytes,
                err, P = projection of the tables decompiled from the bytes (sameM: P is M), hb = HarfBuzz on the
                bytes: per config and probe sequence <<>> (unchanged) or <<glyphs, adjustments>>), probes = probe
                sequences per lookup, seqs / cfgs = what HarfBuzz shaped, orig = HarfBuzz on the original file.   *)
EXTENDS TraceIO, OTLGraph, OTLResolve, OTLSem

VARIABLES tid, verdict
vars == <<tid, verdict>>

-----------------------------------------------------------------------------
(* expected walk: original node n is represented, after interning, by node m *)
RECURSIVE ExpWalk(_, _, _, _)
ExpWalk(G, P, n, m) ==
  <<  <<n, P.pos[m], G[n].data, G[n].hsize, [i \in 1..Len(P.K[m]) |-> P.pos[P.K[m][i]] - P.pos[m]]>>  >>
  \o LET RECURSIVE Cat(_)
         Cat(i) == IF i > Len(G[n].kids) THEN <<>> ELSE ExpWalk(G, P, G[n].kids[i][1], P.K[m][i]) \o Cat(i + 1)
     IN Cat(1)

JPack(t) ==
  LET G == t.g
      P == Pack(G, 1, t.mode, RealLimits)
      badvisit == \E j \in 1..Len(t.walk) : t.walk[j][3] # G[t.walk[j][1]].data \/ t.walk[j][4] # G[t.walk[j][1]].hsize
  IN IF t.res = "ok" /\ P.res # "ok" THEN "NoSilentWrap:table-returned-although-an-offset-does-not-fit"
     ELSE IF t.res = "ok" /\ badvisit THEN "EdgesResolve:offset-read-from-bytes-lands-on-wrong-block"
     ELSE IF t.res # "ok" /\ P.res = "ok" THEN "pack:error-raised-although-the-layout-fits"
     ELSE IF t.res # P.res THEN "pack:wrong-kind-of-error"
     ELSE IF P.res = "overflow" /\ (t.rec[1] # P.rec[1] \/ t.rec[2] # P.K[P.rec[1]][P.rec[2]]) THEN "pack:overflow-record-names-another-edge"
     ELSE IF P.res # "ok" THEN "ok"
     ELSE IF t.len # P.total THEN "pack:emitted-length-differs"
     ELSE IF ~t.noscan /\ t.scan # [k \in 1..Len(P.order) |-> <<G[P.order[k]].data, G[P.order[k]].hsize>>] THEN "pack:emitted-order-differs"
     ELSE IF t.walk # ExpWalk(G, P, 1, 1) THEN "pack:positions-differ"
     ELSE LET c == PackClause(G, 1, P) IN IF c = "ok" THEN "ok" ELSE "pack:" \o c

-----------------------------------------------------------------------------
(* (R) the resolution functions on small real tables *)
SmallProbes == {<<a>> : a \in 1..12} \cup {<<a, b>> : a \in 1..12, b \in {9, 10, 11}} \cup {<<a, a>> : a \in 1..8}
                 \cup {<<a, 9, 9>> : a \in {1, 4, 7}} \cup {<<a, 9, 10>> : a \in 1..2} \cup {<<a, 10, 11>> : a \in 1..2}
DenoteAll(L, S) == <<[i \in 1..Len(L.gsub.lookups) |-> <<DenoteSub(L, i, S),
                                                         [q \in {<<4>>, <<5>>, <<8>>} |-> ApplyLookup(L.gsub.lookups, L.gdef, i, [b |-> q, ps |-> <<>>], 2).b]>>],
                     [i \in 1..Len(L.gpos.lookups) |-> DenotePos(L, i, S)]>>
JSplit(t) ==
  LET r == TryResolve(t.lk, t.rec)
      d0 == DenoteAll(t.before, SmallProbes)
  IN IF ~Matches(t.lk, t.sumbefore) THEN "machinery:realised-tables-do-not-have-the-exported-structure"
     ELSE IF d0 # DenoteAll(t.sem, SmallProbes) THEN "machinery:realised-tables-do-not-mean-what-the-specification-exported"
     ELSE IF t.crash # "" THEN (IF r.crash THEN "ok" ELSE "resolve:unexpected-exception")
     ELSE IF DenoteAll(t.after, SmallProbes) # d0 THEN "DenotationPreserved:" \o r.how
     ELSE IF r.crash THEN "resolve:specification-expects-an-exception"
     ELSE IF t.ok # r.ok THEN "resolve:ok-differs-from-specification:" \o r.how
     ELSE IF ~Matches(r.lk, t.sumafter) THEN "resolve:result-differs-from-specification:" \o r.how
     ELSE "ok"

-----------------------------------------------------------------------------
(* (V) end to end *)
SeqSet(s) == {s[k] : k \in 1..Len(s)}
LayoutOf(t, r) == IF r.sameM THEN t.M ELSE r.P
LookupHead(lk) == <<lk.ty, lk.flag, lk.mfs>>
StructClause(M, P) ==
  IF M.gdef # P.gdef THEN "structure:GDEF-differs"
  ELSE IF Len(M.gsub.lookups) # Len(P.gsub.lookups) \/ Len(M.gpos.lookups) # Len(P.gpos.lookups) THEN "structure:number-of-lookups-differs"
  ELSE IF M.gsub.fl # P.gsub.fl \/ M.gpos.fl # P.gpos.fl THEN "structure:script-or-feature-list-differs"
  ELSE IF \E i \in 1..Len(M.gsub.lookups) : LookupHead(M.gsub.lookups[i]) # LookupHead(P.gsub.lookups[i]) THEN "structure:GSUB-lookup-type-or-flag-differs"
  ELSE IF \E i \in 1..Len(M.gpos.lookups) : LookupHead(M.gpos.lookups[i]) # LookupHead(P.gpos.lookups[i]) THEN "structure:GPOS-lookup-type-or-flag-differs"
  ELSE "ok"
DenoteClause(M, P, probes) ==
  IF \E i \in 1..Len(M.gsub.lookups) : LET S == SeqSet(probes.gsub[i]) IN DenoteSub(M, i, S) # DenoteSub(P, i, S)
  THEN "DenotationPreserved:GSUB-lookup-shapes-differently-after-compile"
  ELSE IF \E i \in 1..Len(M.gpos.lookups) : LET S == SeqSet(probes.gpos[i]) IN DenotePos(M, i, S) # DenotePos(P, i, S)
  THEN "DenotationPreserved:GPOS-lookup-shapes-differently-after-compile"
  ELSE "ok"

(* HarfBuzz is plain OpenType for a probe when the script is present or DFLT is (no 'latn' fallback) and, without
   GDEF glyph classes, no lookup ignores bases or ligatures (HarfBuzz then invents classes) -- as in Trace_C11 *)
PlainScript(tb, sc) == ScriptsOf(tb) = {} \/ sc \in ScriptsOf(tb) \/ "DFLT" \in ScriptsOf(tb)
PlainFlags(L) == Len(L.gdef.cls) > 0 \/ \A x \in 1..2 : LET tb == IF x = 1 THEN L.gsub ELSE L.gpos IN
                    \A i \in 1..Len(tb.lookups) : ~Bit(tb.lookups[i].flag, 2) /\ ~Bit(tb.lookups[i].flag, 4)
Plain(L, cfg) == PlainScript(L.gsub, cfg[1]) /\ PlainScript(L.gpos, cfg[1]) /\ PlainFlags(L)
Sparse(out) ==
  <<[i \in 1..Len(out) |-> out[i][1]],
    SelectSeq([i \in 1..Len(out) |-> <<i, out[i][2], out[i][3], out[i][4], out[i][5]>>],
              LAMBDA e : e[2] # 0 \/ e[3] # 0 \/ e[4] # 0 \/ e[5] # 0)>>
ObsOf(t, h, c, k) == IF h[c][k] = <<>> THEN <<t.seqs[k], <<>>>> ELSE h[c][k]
ExpHB(L, cfg, q) == Sparse(Shape(L, cfg[1], cfg[2], cfg[3], 1, "hb", q))
Shaped(t) == {i \in 1..Len(t.runs) : t.runs[i].err = "" /\ Len(t.runs[i].hb) > 0}
CK(t) == {ck \in (1..Len(t.cfgs)) \X (1..Len(t.seqs)) : TRUE}
InUniverse(obs) == \A j \in 1..Len(obs[1]) : obs[1][j] # 0
(* per probe: "ok", "gap" (OTLSem on BOTH the in-memory and the decompiled tables disagrees with HarfBuzz in the same
   way: a shaper convention outside OTLSem, counted, not a verdict), "skip" (not plain / outside the universe), "bad" *)
HBProbe(t, i, ck) ==
  LET cfg == t.cfgs[ck[1]]
      q == t.seqs[ck[2]]
      obs == ObsOf(t, t.runs[i].hb, ck[1], ck[2])
  IN IF ~Plain(t.M, cfg) \/ ~InUniverse(obs) THEN "skip"
     ELSE LET em == ExpHB(t.M, cfg, q) IN
          IF em = obs THEN "ok"
          ELSE IF t.runs[i].sameM THEN "gap"
          ELSE IF ExpHB(t.runs[i].P, cfg, q) = em THEN "gap" ELSE "bad"
(* <<clause, probes where OTLSem(in-memory) = HarfBuzz, gaps, skipped>>.  All shaped runs must show the same
   observations (and the original file's), so the probes are classified once, on the first shaped run f; a
   probe that is a gap there is still "bad" for another run whose own decompiled tables disagree with M *)
HBJudge(t) ==
  LET R == Shaped(t) IN
  IF R = {} THEN <<"ok", 0, 0, 0>>
  ELSE LET f == CHOOSE i \in R : \A j \in R : i <= j IN
       IF \E i \in R : \E ck \in CK(t) : ObsOf(t, t.runs[i].hb, ck[1], ck[2]) # ObsOf(t, t.runs[f].hb, ck[1], ck[2])
       THEN <<"shape:harfbuzz-shapes-differently-on-differently-serialised-tables", 0, 0, 0>>
       ELSE IF Len(t.orig) > 0 /\ \E ck \in CK(t) : ObsOf(t, t.orig, ck[1], ck[2]) # ObsOf(t, t.runs[f].hb, ck[1], ck[2])
       THEN <<"shape:harfbuzz-shapes-differently-on-the-original-file", 0, 0, 0>>
       ELSE LET v == TLCEval([ck \in CK(t) |-> HBProbe(t, f, ck)])        \* evaluated once per probe
                gaps == {ck \in CK(t) : v[ck] = "gap"}
                bad == \/ \E ck \in CK(t) : v[ck] = "bad"
                       \/ \E i \in R \ {f} : ~t.runs[i].sameM /\ \E ck \in gaps : HBProbe(t, i, ck) = "bad"
            IN <<IF bad THEN "shape:harfbuzz-on-compiled-bytes-differs-from-in-memory-tables" ELSE "ok",
                 Cardinality({ck \in CK(t) : v[ck] = "ok"}), Cardinality(gaps), Cardinality({ck \in CK(t) : v[ck] = "skip"})>>

RunClause(t, r) ==
  IF t.packable = "no"
  THEN (IF r.err = "" THEN "NoSilentWrap:table-returned-although-no-valid-packing-exists" ELSE "ok")
  ELSE IF r.err = "" /\ ~r.decompiled THEN "EdgesResolve:compiled-table-cannot-be-decompiled"
  ELSE IF r.err # "" THEN "ok"                              \* an error was raised: judged by Trace_C06_Loop
  ELSE LET P == LayoutOf(t, r) IN
       IF r.sameM THEN "ok"
       ELSE LET s == StructClause(t.M, P) IN
            IF s # "ok" THEN s ELSE DenoteClause(t.M, P, t.probes)
JE2E(t) ==
  LET bad == {i \in 1..Len(t.runs) : RunClause(t, t.runs[i]) # "ok"}
  IN IF bad # {} THEN [c |-> RunClause(t, t.runs[CHOOSE i \in bad : \A j \in bad : i <= j]), s |-> <<>>]
     ELSE LET h == HBJudge(t) IN [c |-> h[1], s |-> <<h[2], h[3], h[4]>>]

Judge(t) ==
  CASE t.k = "pack" -> [c |-> JPack(t), s |-> <<>>]
    [] t.k = "split" -> [c |-> JSplit(t), s |-> <<>>]
    [] t.k = "e2e" -> JE2E(t)
    [] OTHER -> [c |-> "unknown-kind", s |-> <<>>]

Pending == [c |-> "pending", s |-> <<>>]
Init == tid \in 1..NTraces /\ verdict = Pending
Next == verdict = Pending /\ verdict' = Judge(Traces[tid]) /\ UNCHANGED tid
Report == /\ (verdict.c \notin {"pending", "ok"}) => Reject(tid, verdict.c)
          /\ (verdict.c = "ok" /\ verdict.s # <<>>) => PrintT(<<"HBS", tid, verdict.s>>)
=============================================================================
