CONSTANTS
  ItemSz <- Zero2
  HeadSz <- Zero1
  Denote <- NoDenote
  Limits <- RealLimits
INIT TInit
NEXT TNext
INVARIANT Report
CHECK_DEADLOCK FALSE
