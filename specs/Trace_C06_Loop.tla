--------------------------- MODULE Trace_C06_Loop ---------------------------
(* C06 (V): the overflow-resolution loop of real BaseTTXConverter.compile calls, recorded by run-time
   wrappers around tryPackingHarfbuzz / tryPackingFontTools / getAllData / tryResolveOverflow /
   fixLookupOverFlows / fixSubTableOverFlows (harness/c06_e2e.Recorder), validated step by step against
   the actions of OTLRepack.  One trace per compile of a GSUB / GPOS table:

     tag, mode ("F" off, "N" auto, "T" required), hb (uharfbuzz importable), init = structural summary of
     the lookup list before the first attempt, events:
       [a |-> "Attempt", p |-> "ft" | "hb", hbfail, res |-> "ok" | "overflow", rec |-> [L, S, name, idx]]
       [a |-> "Resolve", ok, crash, after |-> summary after tryResolveOverflow (<<>> once the trace is cut)]
       [a |-> "Cut"]  (the recorder stops logging details after a fixed number of resolutions)
       [a |-> "Return"] | [a |-> "Raise"] | [a |-> "Crash", exc] | [a |-> "Timeout"]

   The packing outcome of an attempt is an observation (the *With actions take it as argument); the
   resolution is computed by the specification (OTLResolve!TryResolve) and compared with what the code did.
   Clauses:  loop:*      the control flow is not that of the RepackerState machine
             resolve:*   tryResolveOverflow did something else than fix* / split* as specified
             RaiseOnlyWhenStuck:*   OTLOffsetOverflowError although a resolution was applicable
             Terminates:*           the compile did not end and a resolution made no progress (Measure)
   A time-out without an observed non-progressing step is inconclusive (printed as SKP, not a rejection). *)
EXTENDS OTLRepack, Json, IOUtils

Input == JsonDeserialize(IOEnv.TRACE_FILE)
Traces == Input.traces

VARIABLES tid, l, verdict, stuck, cutmode
tvars == <<tid, l, verdict, stuck, cutmode>>
T == Traces[tid]
Ev == T.events[l]
HbOn(t) == t.hb /\ t.mode \in {"N", "T"}

Zero2(k, id) == 0
Zero1(k) == 0
NoDenote(lk) == 0

Outcome(e) == [res |-> e.res, rec |-> e.rec, clause |-> "ok"]

WhyResolve(e) ==
  LET r == TryResolve(lookups, cur) IN
  IF e.crash # "" THEN (IF r.crash THEN "ok" ELSE "resolve:unexpected-exception")
  ELSE IF r.crash THEN "resolve:specification-expects-an-exception"
  ELSE IF e.ok # r.ok THEN (IF r.ok THEN "RaiseOnlyWhenStuck:code-gives-up-where-a-resolution-applies:" \o r.how
                            ELSE "resolve:code-resolves-where-the-specification-cannot")
  ELSE IF e.after # <<>> /\ ~Matches(r.lk, e.after) THEN "resolve:result-differs-from-specification:" \o r.how
  ELSE "ok"

Why(e) ==
  CASE e.a = "Attempt" ->
         IF cutmode THEN "ok"
         ELSE IF pc # "attempt" THEN "loop:attempt-out-of-place"
         ELSE IF (e.p = "hb") # (rstate = "HB_FT") THEN "loop:packer-does-not-match-RepackerState"
         ELSE IF e.p = "hb" /\ ~e.hbfail /\ e.res # "ok" THEN "loop:overflow-from-a-successful-repack"
         ELSE "ok"
    [] e.a = "Resolve" -> IF cutmode THEN "ok" ELSE IF pc # "overflowed" THEN "loop:resolve-out-of-place" ELSE WhyResolve(e)
    [] e.a = "Cut" -> "ok"
    [] e.a = "Return" -> IF cutmode \/ (pc = "done" /\ outcome = "return") THEN "ok" ELSE "loop:return-out-of-place"
    [] e.a = "Raise" -> IF cutmode \/ (pc = "done" /\ outcome = "raise") THEN "ok"
                        ELSE "RaiseOnlyWhenStuck:OTLOffsetOverflowError-out-of-place"
    [] e.a = "Crash" -> IF cutmode \/ (pc = "done" /\ outcome = "crash") THEN "ok" ELSE "loop:unexpected-exception"
    [] e.a = "Timeout" -> IF stuck THEN "Terminates:a-resolution-makes-no-progress-and-the-compile-does-not-end"
                          ELSE "skip:compile-exceeded-the-time-budget"
    [] OTHER -> "trace:unknown-event"

NoProgress(e) == LET r == TryResolve(lookups, cur) IN r.ok /\ ~Less(Measure(r.lk), Measure(lookups))

Act(e) ==
  CASE e.a = "Attempt" /\ ~cutmode ->
         /\ IF e.p = "ft" THEN AttemptFTWith(Outcome(e)) ELSE AttemptHBWith(e.hbfail, Outcome(e))
         /\ UNCHANGED <<stuck, cutmode>>
    [] e.a = "Resolve" /\ ~cutmode -> /\ Resolve /\ stuck' = (stuck \/ NoProgress(e)) /\ UNCHANGED cutmode
    [] e.a = "Cut" -> /\ cutmode' = TRUE /\ UNCHANGED <<rvars, stuck>>
    [] OTHER -> UNCHANGED <<rvars, stuck, cutmode>>

TInit == /\ tid \in 1..Len(Traces) /\ l = 1 /\ verdict = "pending" /\ stuck = FALSE /\ cutmode = FALSE
         /\ RInit(Traces[tid].init, HbOn(Traces[tid]))
Step == /\ verdict = "pending" /\ l <= Len(T.events)
        /\ IF Why(Ev) = "ok"
           THEN Act(Ev) /\ l' = l + 1 /\ UNCHANGED <<tid, verdict>>
           ELSE verdict' = Why(Ev) /\ UNCHANGED <<tid, l, stuck, cutmode>> /\ UNCHANGED rvars
Finish == /\ verdict = "pending" /\ l = Len(T.events) + 1
          /\ verdict' = "ok" /\ PrintT(<<"ACC", tid>>) /\ UNCHANGED <<tid, l, stuck, cutmode>> /\ UNCHANGED rvars
TNext == Step \/ Finish

(* ReturnImpliesValid for these traces is established by the end-to-end judge (Trace_C06, kind "e2e"):
   the returned bytes are decompiled and shaped *)
Report == (verdict \notin {"pending", "ok"}) =>
            IF verdict = "skip:compile-exceeded-the-time-budget" THEN PrintT(<<"SKP", tid, verdict>>) ELSE PrintT(<<"REJ", tid, verdict, l>>)
=============================================================================
