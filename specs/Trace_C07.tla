----------------------------- MODULE Trace_C07 -----------------------------
(* C07: subsetting preserves the behaviour of everything it keeps.  Judge for recorded runs of the real
   fontTools Subsetter (harness/c07.py).

   Input (JSON): meta.fonts = projections of ORIGINAL fonts (schema of Subset.tla); traces = one record
   per run:
     font      1-based index into meta.fonts
     req       [unicodes, glyphs]  the request (glyph numbers = original glyph id + 1)
     opts      [retain, notdef, recommended, closure, feats, scripts, ndoutline]
     staged    the Subsetter's glyphs_requested / cmaped / mathed / gsubed / colred / glyfed / cffed /
               retained / emptied after subset(), as glyph numbers
     order     Subsetter.new_glyph_order as original glyph numbers; imap = Subsetter.glyph_index_map as an
               array over original glyph ids (0-based values, -1 = no new id); nres = glyph count of the
               saved result
     refs      << <<table tag, <<glyph numbers (NEW id + 1) the table of the saved result mentions>>>> >>
     rcmap     Unicode cmap of the saved result, << <<u, new id + 1>> >>
     mcmap     Unicode cmap of the subsetted font in memory, before it is compiled, same form; fmt2 = it holds a
               format-2 subtable all of whose codes are below 256
     shapes    HarfBuzz: << [t |-> text, a |-> original: << <<gid, xAdv, yAdv, xOff, yOff>> >>, b |-> result] >>
     kept      << [g, adv |-> <<before, after>>, lsb |-> <<before, after>>, cls |-> <<GDEF glyph class before, after>>, cw |-> <<CFF charstring width x 1000 before, after>>,
                   loc |-> << <<outline id before, after, advance before, after>> per location >>] >>
     res       (generated fonts only) the full projection of the saved result
     unreadable (only if the library cannot read the saved result back: a table or glyph fails to decompile) the exception text
     crash     (only if the subsetter raised) the exception text; req and opts are recorded as usual
   meta.fonts[i].fv = the font has FeatureVariations (their alternate lookups are outside the projection).
   The observed final state is mapped onto the variables of Subset.tla (instance S) and the clauses of the
   specification are evaluated on it; MinClosure and, for generated fonts, OTLSem shaping of both fonts (texts up
   to length 2; the model checks length 3) are computed here from the projections.  Verdicts: <<"ok", n>> accepted,
   n shaping observations compared; "domain:*" the request is outside the property's domain (counted as skipped);
   "trace:*" a malformed recording (machinery); anything else names the violated clause.  *)
EXTENDS OTLSem, TLC, Json, IOUtils, FiniteSets

Input == JsonDeserialize(IOEnv.TRACE_FILE)
Traces == Input.traces
Fonts == Input.meta.fonts

VARIABLES tid, verdict
T == Traces[tid]
SetOf(s) == {s[k] : k \in 1..Len(s)}
TF == Fonts[T.font]
Stg(name) == IF "staged" \in DOMAIN T THEN SetOf(T.staged[name]) ELSE {}
TOrder == IF "order" \in DOMAIN T THEN T.order ELSE <<>>
TRes == IF "res" \in DOMAIN T THEN T.res ELSE [n |-> 0]

(* refinement mapping: the recorded end state as a state of Subset.tla *)
S == INSTANCE Subset WITH font <- TF, req <- T.req, opts <- T.opts, pc <- "done",
       glyphs <- Stg("retained"), requested <- Stg("requested"), cmaped <- Stg("cmaped"), mathed <- Stg("mathed"),
       gsubed <- Stg("gsubed"), colred <- Stg("colred"), glyfed <- Stg("cffed"), retained <- Stg("retained"),
       emptied <- Stg("emptied"), order <- TOrder, fl <- <<>>, todo <- {}, passStart <- {}, out <- TRes

Ret == Stg("retained")
None == <<"ok", 0>>
FirstBad(Sq, P(_)) == FirstIdx({k \in 1..Len(Sq) : ~P(Sq[k])})       \* 0 if every element satisfies P

WellFormed(t) ==
  /\ Len(t.imap) = TF.n
  /\ \A k \in 1..Len(t.order) : t.order[k] >= 1 /\ t.order[k] <= TF.n
  /\ \A name \in {"requested", "cmaped", "mathed", "gsubed", "colred", "glyfed", "cffed", "retained", "emptied"} :
        SetOf(t.staged[name]) \subseteq 1..TF.n

(* the numbering every table must agree on *)
OrderClause(t) ==
  IF t.nres # Len(t.order) THEN <<"order:result-glyph-count-differs-from-new-glyph-order", t.nres>>
  ELSE IF SetOf(t.order) # Ret \cup Stg("emptied") \/ Ret \cap Stg("emptied") # {} THEN <<"order:not-retained-plus-emptied", 0>>
  ELSE IF \E k \in 1..Len(t.order) : t.imap[t.order[k]] # k - 1 THEN <<"order:index-map-disagrees-with-glyph-order", 0>>
  ELSE IF LET os == SetOf(t.order) IN \E g \in 1..TF.n : t.imap[g] >= 0 /\ g \notin os THEN <<"order:index-map-has-dropped-glyph", 0>>
  ELSE None

(* Root cause GlyphZeroLost (finding C07/no-notdef-glyph-zero): without notdef_glyph and without retain_gids the
   original glyph 0 is dropped and the first retained glyph is renumbered to glyph id 0, which every cmap
   consumer (OpenType: "glyph 0 = missing glyph"; HarfBuzz; fontTools' own cmap reader) treats as "no glyph":
   the characters of that glyph are not present in the result.  The clause is evaluated once for all requested
   characters and once leaving out those of the glyph renumbered to 0 to name the cause. *)
RequestedClause(t) ==
  IF ~(S!ReqGlyphs(TF, t.req) \subseteq Ret) THEN <<"requested:glyph-not-retained", 0>>
  ELSE IF S!RequestedPresentF(TF, t.req, Ret, LAMBDA g : t.imap[g] + 1, t.rcmap, {}) THEN None
  ELSE IF S!RequestedPresentF(TF, t.req, Ret, LAMBDA g : t.imap[g] + 1, t.rcmap, S!ZeroGlyph(t.order, t.opts))
       THEN <<"requested:character-lost-its-glyph-was-renumbered-to-glyph-0-(notdef-dropped)", t.order[1]>>
  (* Root cause Format2OneByte (finding C07/cmap-format2-one-byte-codes): the subsetter's own (in-memory) cmap has the
     character, the result holds a format-2 subtable whose codes are all one-byte, and the saved font has lost it *)
  ELSE IF t.fmt2 /\ S!RequestedPresentF(TF, t.req, Ret, LAMBDA g : t.imap[g] + 1, t.mcmap, S!ZeroGlyph(t.order, t.opts))
       THEN <<"requested:character-lost-on-save-(cmap-format-2-subtable-with-one-byte-codes-only)", 0>>
  ELSE <<"requested:character-missing-or-mapped-to-another-glyph", 0>>

MonotoneClause(t) ==
  IF ~S!MonotoneF(Stg("requested"), Stg("cmaped"), Stg("mathed"), Stg("gsubed"), Stg("colred"), Stg("glyfed"), Stg("cffed"))
     \/ ~(Stg("cffed") \subseteq Ret) THEN <<"monotone:a-stage-set-shrank", 0>>
  ELSE IF ~(S!ReqGlyphs(TF, t.req) \subseteq Stg("requested")) THEN <<"monotone:requested-stage-misses-request", 0>>
  ELSE None

ClosureClause(t) ==
  LET start == S!StartSet(TF, t.req, t.opts)
      mg == S!MinGsub(TF, t.req, t.opts)
  IN IF ~(start \subseteq Ret) THEN <<"closure:start-set-not-retained", CHOOSE g \in start \ Ret : TRUE>>
     ELSE IF ~(mg \subseteq Stg("gsubed")) THEN <<"closure:gsub-closure-insufficient", CHOOSE g \in mg \ Stg("gsubed") : TRUE>>
     ELSE LET mc == S!MinClosure(TF, t.req, t.opts)
          IN IF ~(mc \subseteq Ret) THEN <<"closure:component-closure-insufficient", CHOOSE g \in mc \ Ret : TRUE>> ELSE None

RefOK(t, x) == x >= 1 /\ x <= Len(t.order) /\ t.order[x] \in Ret
DanglingClause(t) ==
  LET k == FirstBad(t.refs, LAMBDA e : \A j \in 1..Len(e[2]) : RefOK(t, e[2][j]))
  IN IF k # 0 THEN <<"dangling:" \o t.refs[k][1], CHOOSE x \in SetOf(t.refs[k][2]) : ~RefOK(t, x)>>
     ELSE IF "res" \in DOMAIN t /\ ~S!NoDanglingF(t.res, Ret, t.order) THEN <<"dangling:projected-result", 0>>
     ELSE None

RetainClause(t) == IF S!RetainGidsF(t.opts, Ret, LAMBDA g : t.imap[g] + 1) THEN None ELSE <<"retain-gids:kept-glyph-changed-id", 0>>

(* HarfBuzz on both fonts: same glyphs through the subsetter's own index map, same advances and offsets.
   Domain rule NoClosureEscape: without layout_closure the subsetter keeps only the rules "relevant to the
   otherwise-specified glyph set" (subset --help), so shaping equality is claimed for the texts whose shaping in
   the ORIGINAL font cannot leave the glyph set the layout tables were subset to (glyphs_gsubed).  That is decided
   with an UPPER bound of what the kept features can produce from the glyphs of the text: every lookup reachable
   from a kept feature (every lookup of the table if the font has FeatureVariations) applied as a top-level lookup,
   iterated to the fixed point.  Observations outside the domain are not compared (and not counted). *)
GsubT == TF.L.gsub.lookups
UBTop(t) == IF TF.fv THEN 1..Len(GsubT) ELSE S!ReachLookups(GsubT, S!ActiveTop(TF, t.opts))
Escapes(t, o) == ~(S!GsubLfp(GsubT, UBTop(t), S!Universe(TF), S!CmapGlyphs(TF, o.t)) \subseteq Stg("gsubed"))
InDomain(t, o) == t.opts.closure \/ ~Escapes(t, o)
SameGlyphs(t, o) == /\ Len(o.a) = Len(o.b)
                    /\ \A k \in 1..Len(o.a) : o.a[k][1] >= 0 /\ o.a[k][1] < Len(t.imap) /\ o.b[k][1] = t.imap[o.a[k][1] + 1]
SamePositions(o) == \A k \in 1..Len(o.a) : \A j \in 2..5 : o.a[k][j] = o.b[k][j]
Compared(t) == {k \in 1..Len(t.shapes) : InDomain(t, t.shapes[k])}
ShapingClause(t, cmp) ==
  LET k == FirstIdx({i \in cmp : ~SameGlyphs(t, t.shapes[i])}) IN
  IF k # 0 THEN <<"shaping:glyphs-differ", k>>
  ELSE LET j == FirstIdx({i \in cmp : ~SamePositions(t.shapes[i])}) IN
       IF j # 0 THEN <<"shaping:advances-or-offsets-differ", j>>
       ELSE IF "res" \in DOMAIN t /\ t.opts.closure /\ ~S!ShapingPreservedF(TF, t.opts, t.res, t.order, 2)
            THEN <<"shaping:specification-shaping-of-projections-differs", 0>>
       ELSE None

(* named deviation NotdefOutlineDropped: with notdef_glyph and without notdef_outline (the default) glyph 0 is emptied by
   design (glyf / CFF prune_pre_subset), and with the outline goes its gvar entry (gvar.prune_pre_subset), phantom-point
   deltas included: in a font without HVAR that is the advance variation of glyph 0.  Its hmtx advance is kept. *)
Exempt(t, g) == g = 1 /\ t.opts.notdef /\ ~t.opts.ndoutline
KeptClause(t) ==
  LET ka == FirstBad(t.kept, LAMBDA r : r.adv[1] = r.adv[2])
      kl == FirstBad(t.kept, LAMBDA r : Exempt(t, r.g) \/ r.lsb[1] = r.lsb[2])
      ko == FirstBad(t.kept, LAMBDA r : Exempt(t, r.g) \/ \A j \in 1..Len(r.loc) : r.loc[j][1] = r.loc[j][2])
      kv == FirstBad(t.kept, LAMBDA r : Exempt(t, r.g) \/ \A j \in 1..Len(r.loc) : r.loc[j][3] = r.loc[j][4])
      kw == FirstBad(t.kept, LAMBDA r : "cw" \notin DOMAIN r \/ r.cw[1] = r.cw[2])     \* CFF charstring width (x 1000)
      kc == FirstBad(t.kept, LAMBDA r : r.g \notin Stg("gsubed") \/ r.cls[1] = r.cls[2])    \* layout tables cover glyphs_gsubed
  IN IF ka # 0 THEN <<"kept:advance-width-changed", t.kept[ka].g>>
     ELSE IF kl # 0 THEN <<"kept:side-bearing-changed", t.kept[kl].g>>
     ELSE IF ko # 0 THEN <<"kept:outline-or-its-variation-changed", t.kept[ko].g>>
     ELSE IF kv # 0 THEN <<"kept:advance-variation-changed", t.kept[kv].g>>
     ELSE IF kw # 0 THEN <<"kept:cff-charstring-width-changed", t.kept[kw].g>>
     ELSE IF kc # 0 THEN <<"kept:gdef-glyph-class-changed", t.kept[kc].g>>
     ELSE None

(* Domain rule EmptyGlyphSet: a request that selects no glyph at all (nothing requested, no notdef_glyph, no
   recommended glyphs) has no font as its answer (a font has at least glyph 0); the subsetter raises. *)
Judge(t) ==
  IF "crash" \in DOMAIN t THEN (IF S!StartSet(TF, t.req, t.opts) = {} THEN <<"domain:empty-glyph-set", 0>>
                                ELSE <<"subset:raised-on-a-valid-request", 0>>)
  ELSE IF "unreadable" \in DOMAIN t THEN <<"result:saved-font-cannot-be-read-back", 0>>
  ELSE IF ~WellFormed(t) THEN <<"trace:malformed", 0>>
  ELSE LET o == OrderClause(t) IN
       IF o # None THEN o
       ELSE LET r == RequestedClause(t) IN
       IF r # None THEN r
       ELSE LET m == MonotoneClause(t) IN
       IF m # None THEN m
       ELSE LET c == ClosureClause(t) IN
       IF c # None THEN c
       ELSE LET d == DanglingClause(t) IN
       IF d # None THEN d
       ELSE LET g == RetainClause(t) IN
       IF g # None THEN g
       ELSE LET cmp == Compared(t)
                s == ShapingClause(t, cmp) IN
       IF s # None THEN s
       ELSE LET k == KeptClause(t) IN
       IF k # None THEN k ELSE <<"ok", Cardinality(cmp)>>       \* accepted: number of shaping observations compared

Init == tid \in 1..Len(Traces) /\ verdict = <<"pending", 0>>
Next == verdict[1] = "pending" /\ verdict' = Judge(T) /\ UNCHANGED tid
Report == /\ (verdict[1] = "ok") => PrintT(<<"ACC", tid, verdict[2]>>)
          /\ (verdict[1] \notin {"pending", "ok"}) => PrintT(<<"REJ", tid, verdict[1], verdict[2]>>)
=============================================================================
