----------------------------- MODULE Trace_C08 -----------------------------
(* C08: instancing a variable font preserves the design space that remains.
   One judged case per trace.  The harness drives the REAL instancer and records inputs and
   raw outputs; every accept / reject decision is an operator of this module.

   k = "store"  function level (instantiateTupleVariationStore / instantiateItemVariationStore /
                instantiateGvarGlyph) on the TLC-generated lattice cases: exact rationals, the
                store-level contract of module Instancer at every half-step point of the new space
                (exactly when rounding was switched off, within the derived budget otherwise).
   k = "fv"     function level (instancer.featureVars) on TLC-generated condition boxes.
   k = "font"   whole fonts (realised model fonts and the corpus) through instantiateVariableFont:
                projected variation data of the original and of the SAVED instance, evaluated at
                the same user-space locations by the observational (F2DOT14 / fixed point)
                evaluator below, plus table presence, axes, named instances, STAT, feature
                variations.

   Verdicts: "ok"; "skip:<why>" (outside the modelled domain / 31-bit overflow: counted, never
   validated); "note:<what>" (accepted; the code's output differs from the transcription although
   the contract holds); "malformed:<why>" (harness bug); anything else names the violated clause. *)
EXTENDS TraceIO, Instancer, SequencesExt

VARIABLES tid, verdict
vars == <<tid, verdict>>

(* ======================================================================================== *)
(* function level                                                                            *)
(* ======================================================================================== *)
QD(k, D) == Rat(k, D)
TentD(t, D) == <<QD(t[1], D), QD(t[2], D), QD(t[3], D)>>
RegD(r, D) == TLCEval([a \in 1..Len(r) |-> TentD(r[a], D)])
IntSeqR(s) == TLCEval([j \in 1..Len(s) |-> RInt(s[j])])
TentJ(t) == <<Rat(t[1][1], t[1][2]), Rat(t[2][1], t[2][2]), Rat(t[3][1], t[3][2])>>
RegJ(r) == TLCEval([a \in 1..Len(r) |-> TentJ(r[a])])
NLimD(l, D) == <<QD(l[1], D), QD(l[2], D), QD(l[3], D), RInt(D * l[4]), RInt(D * l[5])>>
HalfPts(l, D) == {Rat(k, 2 * D) : k \in (2 * l[1])..(2 * l[3])}
NLocs(lims, D) ==
  IF Len(lims) = 1 THEN {<<x>> : x \in HalfPts(lims[1], D)}
  ELSE IF Len(lims) = 2 THEN {<<x, y>> : x \in HalfPts(lims[1], D), y \in HalfPts(lims[2], D)}
  ELSE {<<x, y, z>> : x \in HalfPts(lims[1], D), y \in HalfPts(lims[2], D), z \in HalfPts(lims[3], D)}
SameVarSet(a, b) == {a[k] : k \in 1..Len(a)} = {b[k] : k \in 1..Len(b)}
DropZero(vs) == SelectSeq(vs, LAMBDA v : \E j \in 1..Len(v[2]) : ~RIsZero(v[2][j]))

JStore(r) ==
  LET D == r.D
      nlims == TLCEval([a \in 1..Len(r.lims) |-> NLimD(r.lims[a], D)])
      vs == TLCEval([k \in 1..Len(r.vars) |-> <<RegD(r.vars[k][1], D), IntSeqR(r.vars[k][2])>>])
      n == r.n
      dflt == RSeq(r.dflt)
      out == TLCEval([k \in 1..Len(r.out) |-> <<RegJ(r.out[k][1]), RSeq(r.out[k][2])>>])
      nk == Len(NKept(nlims))
      res == {StorePreservedAt(vs, nlims, dflt, out, x, n, r.rounded) : x \in NLocs(r.lims, D)}
      w == Worst(res)
      spec == InstantiateVarsExact(vs, nlims, n)
      spec2 == IF r.rounded = 1 THEN RoundVars(spec[2]) ELSE spec[2]
  IN IF Len(dflt) # n \/ \E k \in 1..Len(vs) : Len(vs[k][2]) # n \/ Len(vs[k][1]) # Len(nlims) THEN "malformed:store-shape"
     ELSE IF \E a \in 1..Len(nlims) : ~WellFormedLimit(nlims[a]) THEN "malformed:limit"
     ELSE IF \E k \in 1..Len(vs) : \E a \in 1..Len(nlims) : ~RIsZero(vs[k][1][a][2]) /\ ~WellFormedTent(vs[k][1][a]) THEN "malformed:tent-domain"
     ELSE IF r.leftover = 1 THEN "PinnedAxisLeft"
     ELSE IF \E k \in 1..Len(out) : Len(out[k][1]) # nk \/ Len(out[k][2]) # n THEN "StoreShape"
     ELSE IF r.rounded = 1 /\ \E k \in 1..Len(out) : \E j \in 1..n : ~RIsInt(out[k][2][j]) THEN "DeltasNotRounded"
     ELSE IF w = "differs" THEN (IF r.rounded = 1 THEN "Preserved:beyond-rounding-budget" ELSE "PreservedExact")
     ELSE IF w = "overflow" THEN "skip:overflow"
     ELSE IF \E k \in 1..Len(out) : \E a \in 1..nk : ~(RLe(RInt(-1), out[k][1][a][1]) /\ RLe(out[k][1][a][3], ROne)) THEN "TentsInRange"
     ELSE IF r.cmp = 1 /\ (spec[1] # dflt \/ ~SameVarSet(DropZero(spec2), DropZero(out))) THEN "note:store-transcription-differs"
     ELSE "ok"

(* feature variations at function level: boxes on the 1/D lattice, result boxes as rationals *)
BoxD(b, D) == TLCEval([a \in 1..Len(b) |-> IF Len(b[a]) = 0 THEN <<>> ELSE <<QD(b[a][1], D), QD(b[a][2], D)>>])
BoxJ(b) == TLCEval([a \in 1..Len(b) |-> IF Len(b[a]) = 0 THEN <<>> ELSE <<Rat(b[a][1][1], b[a][1][2]), Rat(b[a][2][1], b[a][2][2])>>])
JFv(r) ==
  LET D == r.D
      nlims == TLCEval([a \in 1..Len(r.lims) |-> NLimD(r.lims[a], D)])
      font == [fvs |-> TLCEval([q \in 1..Len(r.fvs) |-> [box |-> BoxD(r.fvs[q], D), sub |-> q]]), defsub |-> 0]
      got == [fvs |-> TLCEval([q \in 1..Len(r.out) |-> [box |-> BoxJ(r.out[q].box), sub |-> r.out[q].sub]]), defsub |-> r.defsub]
      bad == {x \in NLocs(r.lims, D) : ActiveSubN(got, RenormLoc(nlims, x)) # ActiveSubN(font, x)}
      spec == InstantiateFvs(font, nlims)
  IN IF \E q \in 1..Len(got.fvs) : Len(got.fvs[q].box) # Len(NKept(nlims)) THEN "FvShape"
     ELSE IF bad # {} THEN (IF FvDeviation(font.fvs, nlims) THEN "FeatureVars:applied-record-without-remaining-conditions" ELSE "FeatureVars")
     ELSE IF spec # got THEN (IF InstantiateFvsIdeal(font, nlims) = got THEN "note:fv-as-ideal-not-as-transcribed" ELSE "note:fv-transcription-differs")
     ELSE "ok"

(* ======================================================================================== *)
(* observational semantics of stored fonts (D-F14): F2DOT14 coordinates, fixed-point values  *)
(* ======================================================================================== *)
F14 == 16384
FX == 1024                       \* values travel in units of 1/1024 font unit
IAbsV(x) == IF x < 0 THEN -x ELSE x

(* exact normalised coordinate (Rat) of user coordinate u on axis ax with segment map m (knots
   in F2DOT14 units) *)
MapJ14(m) == TLCEval([i \in 1..Len(m) |-> <<Rat(m[i][1], F14), Rat(m[i][2], F14)>>])
(* the segment map with the interpolation ratio taken first (keeps the rationals small) *)
PwlMapR(m, v) ==
  IF RBad(v) THEN RNaN
  ELSE IF Len(m) = 0 THEN v
  ELSE IF \E i \in 1..Len(m) : m[i][1] = v THEN m[CHOOSE i \in 1..Len(m) : m[i][1] = v][2]
  ELSE IF RLt(v, m[1][1]) \/ RLt(m[Len(m)][1], v) THEN RNaN          \* 'avar' maps cover [-1, 1]
  ELSE LET i == CHOOSE k \in 1..Len(m) - 1 : RLt(m[k][1], v) /\ RLt(v, m[k + 1][1])
           ratio == RDiv(RSub(v, m[i][1]), RSub(m[i + 1][1], m[i][1]))
       IN RAdd(m[i][2], RMul(RSub(m[i + 1][2], m[i][2]), ratio))
NormExact(ax, m, u) == PwlMapR(m, NormalizeValue(u, ax))
(* <<coordinate in F2DOT14 units (rounded), exact?>>; <<0, "bad">> on overflow *)
Norm14(ax, m, u) ==
  LET x == NormExact(ax, m, u)
      s == RMul(x, RInt(F14))
  IN IF RBad(s) \/ ~RRoundFits(s) THEN <<0, "bad">>
     ELSE <<RRoundInt(s), IF RIsInt(s) THEN "exact" ELSE "inexact">>

(* axis factor <<n, d>> of a tent (F2DOT14 integers) at x: the OpenType scalar n/d, 0 <= n <= d *)
TentValid(t) == t[2] # 0 /\ t[1] <= t[2] /\ t[2] <= t[3] /\ ~(t[1] < 0 /\ t[3] > 0)
AxisFactor(t, x) ==
  IF ~TentValid(t) THEN <<1, 1>>
  ELSE IF x < t[1] \/ x > t[3] THEN <<0, 1>>
  ELSE IF x = t[2] THEN <<1, 1>>
  ELSE IF x < t[2] THEN <<x - t[1], t[2] - t[1]>>
  ELSE <<t[3] - x, t[3] - t[2]>>
(* the non-trivial factors of a region at a location; << <<0, 1>> >> if some factor is 0 *)
RECURSIVE RegFactorsFrom(_, _, _, _)
RegFactorsFrom(reg, x, a, acc) ==
  IF a > Len(reg) THEN acc
  ELSE LET f == AxisFactor(reg[a], x[a]) IN
       IF f[1] = 0 THEN << <<0, 1>> >>
       ELSE LET acc2 == IF f[1] = f[2] THEN acc ELSE Append(acc, f) IN RegFactorsFrom(reg, x, a + 1, acc2)
RegFactors(reg, x) == RegFactorsFrom(reg, x, 1, <<>>)
IsZeroF(fs) == Len(fs) = 1 /\ fs[1][1] = 0

(* v * n/d rounded towards zero, exactly, without leaving 31 bits (n <= d <= 2^15 ... 2^16) *)
FxMulOk(f) == f[2] <= 46340 \/ MulFits(f[2], f[1])
FxMulP(v, f) == (v \div f[2]) * f[1] + ((v % f[2]) * f[1]) \div f[2]          \* v >= 0
FxMul(v, f) == IF v >= 0 THEN FxMulP(v, f) ELSE -FxMulP(-v, f)
RECURSIVE FxApply(_, _, _)
FxApply(v, fs, i) == IF i > Len(fs) THEN v ELSE LET w == FxMul(v, fs[i]) IN FxApply(w, fs, i + 1)

(* Lipschitz data of a region (D-F14): for every axis with a valid tent, the smallest width of a
   non-degenerate side.  A side of width 0 is a jump; it is harmless only at the end of the axis. *)
SideWidths(t) == {w \in {t[2] - t[1], t[3] - t[2]} : w > 0}
MinWidth(t) == LET S == SideWidths(t) IN IF S = {} THEN 0 ELSE CHOOSE w \in S : \A v \in S : w <= v
JumpAt(t) == (IF t[1] = t[2] THEN {t[2]} ELSE {}) \cup (IF t[2] = t[3] THEN {t[2]} ELSE {})
(* a location coordinate that is not exactly known must stay clear of every jump; an exact one may
   sit on a jump at the end of the axis (+-1) *)
NearJump(t, x, exact) ==
  TentValid(t) /\ \E j \in JumpAt(t) :
     \/ (IAbsV(j) < F14 /\ IAbsV(x - j) <= 3)
     \/ (IAbsV(j) >= F14 /\ x # j /\ IAbsV(x - j) <= 3)
     \/ (x = j /\ ~exact /\ IAbsV(j) < F14)

(* one font at one location: everything the item evaluation needs
     x      coordinates (F2DOT14 units), ex  exactness flags, fs  factors per region,
     lip    per region: sequence over valid axes of <<extra half-units of location error, width>> *)
LocData(font, axes, maps, u, extraErr) ==
  LET nx == TLCEval([a \in 1..Len(axes) |-> Norm14(axes[a], maps[a], u[a])])
      x == TLCEval([a \in 1..Len(axes) |-> nx[a][1]])
      bad == \E a \in 1..Len(axes) : nx[a][2] = "bad"
      fs == TLCEval([r \in 1..Len(font.regions) |-> RegFactors(font.regions[r], x)])
      lip == TLCEval([r \in 1..Len(font.regions) |->
               LET va == SelectSeq(Idx(Len(axes)), LAMBDA a : TentValid(font.regions[r][a]))
               IN TLCEval([j \in 1..Len(va) |->
                    <<(IF nx[va[j]][2] = "exact" THEN 0 ELSE 1) + extraErr[va[j]], MinWidth(font.regions[r][va[j]])>>])])
      jump == \E r \in 1..Len(font.regions) : \E a \in 1..Len(axes) :
                 NearJump(font.regions[r][a], x[a], nx[a][2] = "exact" /\ extraErr[a] = 0)
      mulbad == \E r \in 1..Len(font.regions) : ~IsZeroF(fs[r]) /\ \E i \in 1..Len(fs[r]) : ~FxMulOk(fs[r][i])
  IN [x |-> x, ex |-> TLCEval([a \in 1..Len(axes) |-> nx[a][2] = "exact" /\ extraErr[a] = 0]),
      bad |-> bad \/ mulbad, fs |-> fs, lip |-> lip, jump |-> jump]

(* value of one item: <<value, number of fixed-point multiplications>>; v = <<region index, delta>> *)
RECURSIVE ItemValFrom(_, _, _, _, _)
ItemValFrom(v, fs, k, acc, muls) ==
  IF k > Len(v) THEN <<acc, muls>>
  ELSE LET f == fs[v[k][1]] IN
       IF IsZeroF(f) \/ v[k][2] = 0 THEN ItemValFrom(v, fs, k + 1, acc, muls)
       ELSE LET a2 == acc + FxApply(v[k][2], f, 1)
                m2 == muls + Len(f)
            IN ItemValFrom(v, fs, k + 1, a2, m2)
(* rounding budget of the instance's item: W per delta set, weighted by the region scalar (rounded up) *)
RECURSIVE RoundTermFrom(_, _, _, _, _)
RoundTermFrom(v, fs, W, k, acc) ==
  IF k > Len(v) THEN acc
  ELSE LET f == fs[v[k][1]] IN
       IF IsZeroF(f) THEN RoundTermFrom(v, fs, W, k + 1, acc)
       ELSE LET a2 == acc + FxApply(W, f, 1) + Len(f) IN RoundTermFrom(v, fs, W, k + 1, a2)
(* D-F14 slack of one item: sum_k |delta_k| * sum_axes (tentErr + locErr) / (2 * (width - shrink)) *)
RECURSIVE AxisSlackFrom(_, _, _, _, _, _)
AxisSlackFrom(d, lp, tentErr, shrink, j, acc) ==
  IF j > Len(lp) THEN acc
  ELSE LET num == lp[j][1] + tentErr
           w == lp[j][2] - shrink
           a2 == IF num = 0 THEN acc
                 ELSE IF w <= 0 THEN acc + d * num
                 ELSE acc + ICeilDiv(d * num, 2 * w)
       IN AxisSlackFrom(d, lp, tentErr, shrink, j + 1, a2)
RECURSIVE CoordSlackFrom(_, _, _, _, _, _)
CoordSlackFrom(v, lip, tentErr, shrink, k, acc) ==
  IF k > Len(v) THEN acc
  ELSE LET a2 == IF v[k][2] = 0 THEN acc ELSE AxisSlackFrom(IAbsV(v[k][2]), lip[v[k][1]], tentErr, shrink, 1, acc)
       IN CoordSlackFrom(v, lip, tentErr, shrink, k + 1, a2)

(* ---- the delta sets of the EXACT instance ------------------------------------------------
   A delta set whose deltas all round to 0 is not stored at all, yet its rounding moved the value by
   up to scalar/2.  The rounding budget therefore counts the delta sets of the exact instance as
   module Instancer derives them (rebasing every region of the original under the limits; equal
   regions merge, so distinct regions are counted once), not only those that survive in the file. *)
Reg14R(reg) == TLCEval([a \in 1..Len(reg) |-> <<Rat(reg[a][1], F14), Rat(reg[a][2], F14), Rat(reg[a][3], F14)>>])
RegDomainOk(reg) == \A a \in 1..Len(reg) : reg[a][2] = 0 \/ WellFormedTent(<<Rat(reg[a][1], F14), Rat(reg[a][2], F14), Rat(reg[a][3], F14)>>)
ExactRegions(reg, nlims) ==
  LET vs == LimitAxesFrom(<< <<Reg14R(reg), <<ROne>> >> >>, nlims, 1)
      kept == NKept(nlims)
  IN {ProjRegion(vs[k][1], kept) : k \in {q \in 1..Len(vs) : ~IsDefaultRegion(vs[q][1])}}
RegBad(R) == \E a \in 1..Len(R) : TentBad(R[a])
(* 1/2 (in 1/1024 units) times the scalar of an exact region at the instance's location, rounded up *)
HalfTerm(R, yR) ==
  LET sc == RegionScalar(R, yR) IN
  IF RBad(sc) \/ ~MulFits(FX \div 2, sc[1]) THEN FX \div 2
  ELSE ICeilDiv((FX \div 2) * sc[1], sc[2])
RECURSIVE SumOver(_, _)
SumOver(S, f) == IF S = {} THEN 0 ELSE LET x == CHOOSE x \in S : TRUE
                                           rest == S \ {x}
                                       IN f[x] + SumOver(rest, f)
(* ER: per region of the original, the set of INDICES (into the sequence of all distinct exact regions) *)
ItemExactRegions(v, ER) == UNION {ER[v[k][1]] : k \in {q \in 1..Len(v) : v[q][2] # 0}}

(* ======================================================================================== *)
(* whole fonts                                                                               *)
(* ======================================================================================== *)
RJ(p) == Rat(p[1], p[2])
AxesJ(ax) == TLCEval([a \in 1..Len(ax) |-> <<RJ(ax[a][1]), RJ(ax[a][2]), RJ(ax[a][3])>>])
MapsJ(font) == TLCEval([a \in 1..Len(font.axes) |-> IF Len(font.avar) = 0 THEN <<>> ELSE MapJ14(font.avar[a])])
LimsJ(ls) == TLCEval([a \in 1..Len(ls) |-> <<RJ(ls[a][1]), RJ(ls[a][2]), RJ(ls[a][3])>>])
VarTables == {"fvar", "gvar", "HVAR", "VVAR", "MVAR", "avar", "cvar"}
HasTable(font, t) == \E i \in 1..Len(font.tables) : font.tables[i] = t

(* largest slope of a stored segment map, rounded up (knots may each be off by half a unit) *)
MaxSlope(m) ==
  IF Len(m) < 2 THEN 1
  ELSE LET S == {LET df == m[i + 1][1] - m[i][1] - 1
                     dt == m[i + 1][2] - m[i][2] + 1
                 IN IF df <= 0 THEN F14 ELSE ICeilDiv(IMax(dt, 0), df) : i \in 1..Len(m) - 1}
       IN CHOOSE s \in S : \A q \in S : q <= s
(* quantisation of the requested limits (no avar): half-units of error of the old normalised
   coordinate that corresponds to a point of the new axis, 0 when all three limits are exact.
   e1, e2 <= 1/2 unit each; the renormalisation across the old default divides user-space
   distances, which amplifies by at most 1 + max(dNeg/dPos, dPos/dNeg)  (see harness/c08.py) *)
LimErrHalf(ax, m, l) ==
  LET ex == \A i \in 1..3 : Norm14(ax, m, l[i])[2] = "exact"
      dn == RSub(ax[2], ax[1])
      dp == RSub(ax[3], ax[2])
      asym == IF RIsZero(dn) \/ RIsZero(dp) THEN RZero ELSE RMax(RDiv(dn, dp), RDiv(dp, dn))
  IN IF ex THEN 0
     ELSE IF RBad(asym) \/ ~RRoundFits(asym) THEN 64
     ELSE 3 + RRoundInt(asym)

(* active feature table at a location (F2DOT14 integers): feature list with the substitutions
   of the first matching record *)
CondHolds(box, x) == \A c \in 1..Len(box) : box[c][2] <= x[box[c][1]] /\ x[box[c][1]] <= box[c][3]
ActiveFeatures(fv, x) ==
  LET hit == {r \in 1..Len(fv.recs) : CondHolds(fv.recs[r].box, x)}
  IN IF hit = {} THEN fv.feat
     ELSE LET rec == fv.recs[CHOOSE r \in hit : \A q \in hit : r <= q]
          IN TLCEval([f \in 1..Len(fv.feat) |->
               IF \E s \in 1..Len(rec.subs) : rec.subs[s][1] = f
               THEN rec.subs[CHOOSE s \in 1..Len(rec.subs) : rec.subs[s][1] = f][2]
               ELSE fv.feat[f]])
(* a condition bound and a coordinate that are both half-unit roundings may compare either way
   when they are within 2 units of each other; an exactly known coordinate ON a bound is decisive *)
NearCond(fv, x, ex) == \E r \in 1..Len(fv.recs) : \E c \in 1..Len(fv.recs[r].box) :
   LET b == fv.recs[r].box[c]
       near(bound) == LET d == IAbsV(x[b[1]] - bound) IN (0 < d /\ d <= 2) \/ (d = 0 /\ ~ex[b[1]])
   IN near(b[2]) \/ near(b[3])
(* D-FV1 on a real font: some record of the original is satisfied on the whole new space without
   a condition on a remaining axis *)
FvDeviationFont(fv, nl14, pinned) ==
  \E r \in 1..Len(fv.recs) :
     /\ \A c \in 1..Len(fv.recs[r].box) : pinned[fv.recs[r].box[c][1]]
     /\ \A c \in 1..Len(fv.recs[r].box) :
          LET b == fv.recs[r].box[c] IN b[2] <= nl14[b[1]] /\ nl14[b[1]] <= b[3]

(* verdict of all items at one location: a set of clause names *)
AtLocFont(r, O, I, axesO, mapsO, axesI, mapsI, lims, errO, errI, ER, ERS, q) ==
  LET u == TLCEval([a \in 1..Len(r.locs[q]) |-> RJ(r.locs[q][a])])
      kept == Kept(lims)
      u2 == TLCEval([j \in 1..Len(kept) |-> u[kept[j]]])
      dO == LocData(O, axesO, mapsO, u, errO)
      dI == LocData(I, axesI, mapsI, u2, errI)
      yR == TLCEval([j \in 1..Len(kept) |-> Rat(dI.x[j], F14)])
      terms == TLCEval([i \in 1..Len(ERS) |-> HalfTerm(ERS[i], yR)])
      item(i) ==
        LET a == O.items[i]
            b == I.items[i]
            vo == ItemValFrom(a.v, dO.fs, 1, a.b, 0)
            vi == ItemValFrom(b.v, dI.fs, 1, b.b, 0)
            diff == IAbsV(vi[1] - vo[1])
            allowed == b.nb * (FX \div 2)
                       + IMax(RoundTermFrom(b.v, dI.fs, b.w * (FX \div 2) * (1 + b.o), 1, 0),
                              b.w * (1 + b.o) * SumOver(ItemExactRegions(a.v, ER), terms))
                       + vo[2] + vi[2] + a.inf + b.inf
                       + CoordSlackFrom(b.v, dI.lip, 2, 1, 1, 0)
                       + CoordSlackFrom(a.v, dO.lip, 0, 0, 1, 0)
        IN <<diff, allowed>>
      fvO == SelectSeq(ActiveFeatures(O.fv, dO.x), LAMBDA f : Len(f) > 1)     \* a feature without lookups does nothing
      fvI == SelectSeq(ActiveFeatures(I.fv, dI.x), LAMBDA f : Len(f) > 1)
      nearCond == NearCond(O.fv, dO.x, dO.ex) \/ NearCond(I.fv, dI.x, dI.ex)
      (* HarfBuzz's observations (harness/hb.py), judged by the same inequality: its advances are
         integers, i.e. one more half unit of rounding on each side *)
      hbAdvBad == \E e \in 1..Len(r.hbadv) :
                    LET da == item(r.hbadv[e][1]) IN IAbsV(r.hbadv[e][3][q] - r.hbadv[e][2][q]) * FX > da[2] + FX
      hbSubBad == Len(r.hbsub) > 0 /\ r.hbsub[q][1] # r.hbsub[q][2]
  IN IF dO.bad \/ dI.bad THEN {"skip:overflow"}
     ELSE (IF dO.jump \/ dI.jump THEN {"skip:near-discontinuity"}
           ELSE IF \E i \in 1..Len(O.items) : O.items[i].rel = 0 /\ LET da == item(i) IN da[1] > da[2] THEN {"Preserved"}
           ELSE IF hbAdvBad THEN {"Preserved:advance-observed-by-harfbuzz"} ELSE {})
          \cup (IF fvO = fvI THEN {}
                ELSE IF nearCond THEN {"skip:near-condition-boundary"}
                ELSE {"FeatureVars"})
          \cup (IF ~hbSubBad THEN {}
                ELSE IF nearCond THEN {"skip:near-condition-boundary"}
                ELSE {"FeatureVars:observed-by-harfbuzz"})

(* items compared relative to the new default location (HVAR of a 'glyf' font: the default advance
   comes from 'gvar', so only the variation part of HVAR is the instancer's) *)
AtLocRel(r, O, I, axesO, mapsO, axesI, mapsI, lims, errO, errI, ER, ERS, u) ==
  LET kept == Kept(lims)
      u2 == TLCEval([j \in 1..Len(kept) |-> u[kept[j]]])
      ud == TLCEval([a \in 1..Len(lims) |-> lims[a][2]])
      dO == LocData(O, axesO, mapsO, u, errO)
      dD == LocData(O, axesO, mapsO, ud, errO)
      dI == LocData(I, axesI, mapsI, u2, errI)
      W == FX \div 2
      yR == TLCEval([j \in 1..Len(kept) |-> Rat(dI.x[j], F14)])
      terms == TLCEval([i \in 1..Len(ERS) |-> HalfTerm(ERS[i], yR)])
      item(i) ==
        LET a == O.items[i]
            b == I.items[i]
            vo == ItemValFrom(a.v, dO.fs, 1, 0, 0)
            vd == ItemValFrom(a.v, dD.fs, 1, 0, 0)
            vi == ItemValFrom(b.v, dI.fs, 1, 0, 0)
            diff == IAbsV(vi[1] - (vo[1] - vd[1]))
            allowed == IMax(RoundTermFrom(b.v, dI.fs, b.w * W, 1, 0), b.w * SumOver(ItemExactRegions(a.v, ER), terms))
                       + vo[2] + vd[2] + vi[2]
                       + CoordSlackFrom(b.v, dI.lip, 2, 1, 1, 0)
                       + CoordSlackFrom(a.v, dO.lip, 0, 0, 1, 0) + CoordSlackFrom(a.v, dD.lip, 0, 0, 1, 0)
        IN diff <= allowed
  IN IF dO.bad \/ dI.bad \/ dD.bad THEN {"skip:overflow"}
     ELSE IF dO.jump \/ dI.jump \/ dD.jump THEN {"skip:near-discontinuity"}
     ELSE IF \E i \in 1..Len(O.items) : O.items[i].rel = 1 /\ ~item(i) THEN {"Preserved:relative"} ELSE {}

StatKeep(av, lims) == \A e \in 1..Len(av) :
   av[e][1] = 0 \/ (RLe(lims[av[e][1]][1], RJ(av[e][2])) /\ RLe(RJ(av[e][2]), lims[av[e][1]][3]))
InstKeep(co, lims) == \A a \in 1..Len(lims) :
   IF Pinned(lims[a]) THEN RJ(co[a]) = lims[a][1]
   ELSE RLe(lims[a][1], RJ(co[a])) /\ RLe(RJ(co[a]), lims[a][3])

JFont(r) ==
  LET O == r.orig
      I == r.inst
      axesO == AxesJ(O.axes)
      axesI == AxesJ(I.axes)
      mapsO == MapsJ(O)
      mapsI == MapsJ(I)
      lims == LimsJ(r.lims)
      kept == Kept(lims)
      full == AllPinned(lims)
      hasAvarO == \E a \in 1..Len(axesO) : Len(mapsO[a]) > 0
      limErr == TLCEval([a \in 1..Len(axesO) |-> LimErrHalf(axesO[a], mapsO[a], lims[a])])
      errO == limErr
      errI == TLCEval([j \in 1..Len(axesI) |-> IF Len(mapsI[j]) > 0 THEN 1 + MaxSlope(I.avar[j]) ELSE 0])
      ulocs == {TLCEval([a \in 1..Len(r.locs[q]) |-> RJ(r.locs[q][a])]) : q \in 1..Len(r.locs)}
      (* the limits as the instancer normalises them: F2DOT14, with the user-space lengths of the half axes *)
      nlims == TLCEval([a \in 1..Len(axesO) |->
                 <<Rat(Norm14(axesO[a], mapsO[a], lims[a][1])[1], F14), Rat(Norm14(axesO[a], mapsO[a], lims[a][2])[1], F14),
                   Rat(Norm14(axesO[a], mapsO[a], lims[a][3])[1], F14), RSub(axesO[a][2], axesO[a][1]), RSub(axesO[a][3], axesO[a][2])>>])
      domOk == \A q \in 1..Len(O.regions) : RegDomainOk(O.regions[q])
      ERR == IF domOk THEN TLCEval([q \in 1..Len(O.regions) |-> ExactRegions(O.regions[q], nlims)]) ELSE <<>>
      ERS == TLCEval(SetToSeq(UNION {ERR[q] : q \in 1..Len(ERR)}))          \* all distinct exact regions
      ER == TLCEval([q \in 1..Len(ERR) |-> {i \in 1..Len(ERS) : ERS[i] \in ERR[q]}])
      erBad == \E i \in 1..Len(ERS) : RegBad(ERS[i])
      res == UNION {AtLocFont(r, O, I, axesO, mapsO, axesI, mapsI, lims, errO, errI, ER, ERS, q) : q \in 1..Len(r.locs)}
      hasRel == \E i \in 1..Len(O.items) : O.items[i].rel = 1
      resRel == IF hasRel THEN UNION {AtLocRel(r, O, I, axesO, mapsO, axesI, mapsI, lims, errO, errI, ER, ERS, u) : u \in ulocs} ELSE {}
      all == res \cup resRel
      keptInst == SelectSeq(O.instances, LAMBDA co : InstKeep(co, lims))
      wantInst == TLCEval([q \in 1..Len(keptInst) |-> TLCEval([j \in 1..Len(kept) |-> RJ(keptInst[q][kept[j]])])])
      gotInst == TLCEval([q \in 1..Len(I.instances) |-> TLCEval([j \in 1..Len(I.instances[q]) |-> RJ(I.instances[q][j])])])
      wantStat == SelectSeq(O.stat, LAMBDA av : StatKeep(av, lims))
      nl14 == TLCEval([a \in 1..Len(axesO) |-> Norm14(axesO[a], mapsO[a], lims[a][2])[1]])
      pinned == TLCEval([a \in 1..Len(axesO) |-> Pinned(lims[a])])
  IN IF Len(lims) # Len(axesO) \/ Len(O.items) # Len(I.items) THEN "malformed:font-shape"
     ELSE IF ~WellFormedLimits([axes |-> axesO], lims) THEN "malformed:limits"
     ELSE IF \E q \in 1..Len(r.locs) : Len(r.locs[q]) # Len(axesO) THEN "malformed:locations"
     ELSE IF Len(r.hbsub) \notin {0, Len(r.locs)} \/ \E e \in 1..Len(r.hbadv) : Len(r.hbadv[e][2]) # Len(r.locs) \/ Len(r.hbadv[e][3]) # Len(r.locs)
          THEN "malformed:harfbuzz-observations"
     ELSE IF \E u \in ulocs : ~InNewSpace(lims, u) THEN "malformed:location-outside"
     ELSE IF hasAvarO /\ \E a \in 1..Len(axesO) : limErr[a] # 0 THEN "skip:inexact-limit-with-avar"
     ELSE IF ~domOk THEN "skip:tent-outside-domain"
     ELSE IF erBad THEN "skip:overflow"
     (* AxesCorrect *)
     ELSE IF Len(axesI) # Len(kept) THEN "AxesCorrect:axis-count"
     ELSE IF \E j \in 1..Len(kept) : axesI[j] # lims[kept[j]] THEN "AxesCorrect:min-default-max"
     ELSE IF \E j \in 1..Len(kept) : I.tags[j] # O.tags[kept[j]] THEN "AxesCorrect:axis-order"
     (* Static *)
     ELSE IF full /\ \E t \in VarTables : HasTable(I, t) THEN "Static:variation-table-left"
     ELSE IF full /\ I.otlvar # 0 THEN "Static:layout-varstore-left"
     ELSE IF full /\ Len(I.fv.recs) # 0 THEN "Static:feature-variations-left"
     ELSE IF full /\ \E i \in 1..Len(I.items) : Len(I.items[i].v) # 0 THEN "Static:deltas-left"
     ELSE IF ~full /\ ~HasTable(I, "fvar") THEN "AxesCorrect:fvar-missing"
     ELSE IF \E j \in 1..Len(I.regions) : Len(I.regions[j]) # Len(axesI) THEN "AxesCorrect:region-axis-count"
     (* named instances, STAT *)
     ELSE IF ~full /\ gotInst # wantInst THEN "AxesCorrect:named-instances"
     ELSE IF I.stat # wantStat THEN "STAT:axis-values"
     (* Preserved / FeatureVars at every location *)
     ELSE IF "Preserved" \in all THEN "Preserved"
     ELSE IF "Preserved:relative" \in all THEN "Preserved:relative"
     ELSE IF "Preserved:advance-observed-by-harfbuzz" \in all THEN "Preserved:advance-observed-by-harfbuzz"
     ELSE IF "FeatureVars" \in all \/ "FeatureVars:observed-by-harfbuzz" \in all THEN
          (IF FvDeviationFont(O.fv, nl14, pinned) THEN "FeatureVars:applied-record-without-remaining-conditions"
           ELSE IF "FeatureVars" \in all THEN "FeatureVars" ELSE "FeatureVars:observed-by-harfbuzz")
     ELSE IF \E c \in all : c = "skip:overflow" THEN "skip:overflow"
     ELSE IF \E c \in all : c = "skip:near-discontinuity" THEN "skip:near-discontinuity"
     ELSE IF \E c \in all : c = "skip:near-condition-boundary" THEN "skip:near-condition-boundary"
     ELSE "ok"

Judge(r) ==
  CASE r.k = "store" -> JStore(r)
    [] r.k = "fv" -> JFv(r)
    [] r.k = "font" -> JFont(r)
    [] OTHER -> "malformed:unknown-kind"

Init == tid \in 1..NTraces /\ verdict = "pending"
Next == verdict = "pending" /\ verdict' = Judge(Traces[tid]) /\ UNCHANGED tid
Report == (verdict \notin {"pending", "ok"}) => Reject(tid, verdict)
=============================================================================
