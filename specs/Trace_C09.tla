----------------------------- MODULE Trace_C09 -----------------------------
(* C09: variation arithmetic is exact.  One judged case per trace: the harness runs a
   real fontTools function on exact (Fraction / lattice) inputs and records inputs and
   raw outputs (floats recovered to exact rationals [num, den]); TLC evaluates the
   property clause on the code's OUTPUT with the semantic modules.
   Verdicts: "ok"; "skip:<why>" (outside the modelled domain / 31-bit overflow: counted,
   never validated); "note:<what>" (accepted; the code differs from the transcription
   although the contract holds); "malformed:<why>" (harness bug); anything else names
   the violated clause. *)
EXTENDS TraceIO, Tent, Model, IUP, VarStoreSem

VARIABLES tid, verdict
vars == <<tid, verdict>>

Q(i, D) == Rat(i, D)
Sol(s) == <<Rat(s[1], s[2]), IF Len(s[3]) = 0 THEN None ELSE RSeq(s[3])>>

(* ---- rebaseTent ---------------------------------------------------------------------- *)
JTent(r) ==
  LET t == <<Q(r.t[1], r.D), Q(r.t[2], r.D), Q(r.t[3], r.D)>>
      l == <<Q(r.l[1], r.D), Q(r.l[2], r.D), Q(r.l[3], r.D), RInt(r.l[4]), RInt(r.l[5])>>
      sols == TLCEval([i \in 1..Len(r.sols) |-> Sol(r.sols[i])])
      pts == {x \in {Q(i, r.P) : i \in (-r.P)..r.P} : InRange(l, x)}
      utr == UserTriple(l)
      vs == {RebaseAtU(t, l, utr, sols, x) : x \in pts}
  IN IF ~WellFormedTent(t) \/ ~WellFormedLimit(l) THEN "malformed:tent-domain"
     ELSE IF "differs" \in vs THEN "tent:rebase-differs"
     ELSE IF "overflow" \in vs THEN "skip:overflow"
     ELSE IF r.cmp /\ RebaseTent(t, l) # sols THEN "note:tent-transcription-differs"
     ELSE "ok"

(* ---- JSON -> semantic values ------------------------------------------------------------ *)
TentJ(t) == <<Rat(t[1][1], t[1][2]), Rat(t[2][1], t[2][2]), Rat(t[3][1], t[3][2])>>
RegionJ(r) == TLCEval([a \in 1..Len(r) |-> TentJ(r[a])])
RegionsJ(rs) == TLCEval([i \in 1..Len(rs) |-> RegionJ(rs[i])])
LocsJ(ls) == TLCEval([i \in 1..Len(ls) |-> RSeq(ls[i])])
(* a = b exactly (eps = 0), or |a - b| <= eps for float results of off-lattice corpus inputs *)
Near(a, b, eps) == IF eps = RZero THEN a = b ELSE RLe(RAbs(RSub(a, b)), eps)
NearSeq(s, t, eps) == Len(s) = Len(t) /\ \A i \in 1..Len(s) : Near(s[i], t[i], eps)
BadSeq(s) == \E i \in 1..Len(s) : RBad(s[i])
(* a float result of the code: exact [num, den] where lattice inputs bound the true denominator,
   otherwise fixed point [round(x * scale), scale, 1] with the derived slack of one unit
   (half a unit of rounding + float error); the comparison never overflows *)
Match(want, o) == IF Len(o) = 2 THEN want = Rat(o[1], o[2])
                  ELSE RLe(Rat(o[1] - 1, o[2]), want) /\ RLe(want, Rat(o[1] + 1, o[2]))

(* ---- supportScalar / normalizeValue / piecewiseLinearMap ------------------------------------ *)
(* each trace carries one region / triple / map and a list of arguments with the code's results *)
Verdicts(vs, clause) == IF "differs" \in vs THEN clause ELSE IF "overflow" \in vs THEN "skip:overflow" ELSE "ok"
Cmp(want, out) == IF RBad(want) THEN "overflow" ELSE IF want = Rat(out[1], out[2]) THEN "ok" ELSE "differs"
JScalar(r) ==
  LET reg == RegionJ(r.reg) IN
  IF Len(r.locs) # Len(r.outs) THEN "malformed:scalar"
  ELSE Verdicts({Cmp(RegionScalar(reg, RSeq(r.locs[i])), r.outs[i]) : i \in 1..Len(r.locs)}, "scalar:differs")
JNorm(r) ==
  LET tr == RSeq(r.tr) IN
  IF ~(RLe(tr[1], tr[2]) /\ RLe(tr[2], tr[3])) \/ Len(r.vs) # Len(r.outs) THEN "malformed:norm-domain"
  ELSE IF Cmp(NormalizeValue(Rat(r.vs[1][1], r.vs[1][2]), tr), r.dict[1]) = "differs"
          \/ Cmp(NormalizeValue(tr[2], tr), r.dict[2]) = "differs" THEN "norm:location-differs"
  ELSE Verdicts({Cmp(NormalizeValue(Rat(r.vs[i][1], r.vs[i][2]), tr), r.outs[i]) : i \in 1..Len(r.vs)}, "norm:differs")
JPwl(r) ==
  LET m == TLCEval([i \in 1..Len(r.m) |-> <<Rat(r.m[i][1][1], r.m[i][1][2]), Rat(r.m[i][2][1], r.m[i][2][2])>>]) IN
  IF ~PwlWellFormed(m) \/ Len(r.vs) # Len(r.outs) THEN "malformed:pwl-domain"
  ELSE Verdicts({Cmp(PiecewiseLinearMap(m, Rat(r.vs[i][1], r.vs[i][2])), r.outs[i]) : i \in 1..Len(r.vs)}, "pwl:differs")

(* ---- VariationModel ---------------------------------------------------------------------- *)
JModel(r) ==
  LET inl == LocsJ(r.inl)                       \* the caller's master locations (user order)
      locs == LocsJ(r.locs)                     \* model.locations
      sups == RegionsJ(r.sups)                  \* model.supports
      n == Len(locs)
      eps == Rat(r.eps[1], r.eps[2])
      map == r.mapping                          \* user index -> model index (0-based)
      S == ScalarMatrix(locs, sups)
      W == DeltaWeights(S)
      dw == TLCEval([i \in 1..n |-> TLCEval([j \in 1..n |->
               IF \E e \in 1..Len(r.dw[i]) : r.dw[i][e][1] = j - 1
               THEN LET e == CHOOSE e \in 1..Len(r.dw[i]) : r.dw[i][e][1] = j - 1 IN Rat(r.dw[i][e][2], r.dw[i][e][3])
               ELSE RZero])])
      ToModel(v) == TLCEval([m \in 1..n |-> v[(CHOOSE u \in 1..n : map[u] = m - 1)]])
      runs == TLCEval([q \in 1..Len(r.runs) |-> [vals |-> ToModel(RSeq(r.runs[q].vals)), deltas |-> RSeq(r.runs[q].deltas)]])
      probes == TLCEval([p \in 1..Len(r.probes) |->
                  LET loc == RSeq(r.probes[p].loc) sc == Scalars(sups, loc) IN
                  [loc |-> loc, sc |-> sc, ms |-> GetMasterScalars(W, sc)]])
  IN IF Len(inl) # n \/ Len(sups) # n \/ Len(map) # n THEN "model:lengths"
     ELSE IF {map[u] : u \in 1..n} # 0..(n - 1) \/ \E u \in 1..n : locs[map[u] + 1] # inl[u] THEN "model:mapping"
     ELSE IF AxesOf(locs[1]) # {} THEN "model:origin-not-first"
     ELSE IF \E i \in 1..n : BadSeq(S[i]) THEN "skip:overflow"
     ELSE IF ~SupportsAreBoxes(locs, sups) THEN "model:support-not-a-box"
     ELSE IF ~TriangularM(S) THEN "model:not-triangular"
     ELSE IF \E i \in 1..n : ~NearSeq(dw[i], W[i], eps) THEN "model:delta-weights"
     ELSE IF \E q \in 1..Len(runs) : BadSeq(runs[q].deltas) \/ \E m \in 1..n : RBad(Dot(S[m], runs[q].deltas)) THEN "skip:overflow"
     ELSE IF \E q \in 1..Len(runs) : \E m \in 1..n : ~Near(Dot(S[m], runs[q].deltas), runs[q].vals[m], eps) THEN "model:master-not-exact"
     ELSE IF \E p \in 1..Len(probes) : BadSeq(probes[p].sc) \/ BadSeq(probes[p].ms) THEN "skip:overflow"
     ELSE IF \E p \in 1..Len(probes) : ~NearSeq(RSeq(r.probes[p].scalars), probes[p].sc, eps) THEN "model:scalars-differ"
     ELSE IF \E p \in 1..Len(probes) : ~NearSeq(ToModel(RSeq(r.probes[p].mscalars)), probes[p].ms, eps) THEN "model:master-scalars-differ"
     ELSE IF \E p \in 1..Len(probes) : \E q \in 1..Len(runs) :
               LET want == Dot(probes[p].sc, runs[q].deltas) IN
               \/ Len(r.probes[p].interp[q][1]) # 2 \/ Len(r.probes[p].interp[q][2]) # 2
               \/ ~Near(Rat(r.probes[p].interp[q][1][1], r.probes[p].interp[q][1][2]), want, eps)
               \/ ~Near(Rat(r.probes[p].interp[q][2][1], r.probes[p].interp[q][2][2]), want, eps)
          THEN "model:weights"
     ELSE IF \E p \in 1..Len(probes) : \E m \in 1..n : probes[p].loc = locs[m] /\ \E q \in 1..Len(runs) :
               ~Near(Rat(r.probes[p].interp[q][1][1], r.probes[p].interp[q][1][2]), runs[q].vals[m], eps)
          THEN "model:master-interpolation"
     ELSE IF r.cmp /\ (SortMasters({inl[u] : u \in 1..n}) # locs \/ ModelSupports(locs) # sups)
          THEN "note:model-transcription-differs"
     ELSE "ok"

(* ---- item variation store ------------------------------------------------------------------ *)
StoreJ(s) == [regions |-> RegionsJ(s.regions), data |-> s.data]
MapJ(m) == {<< <<m[i][1], m[i][2]>>, <<m[i][3], m[i][4]>> >> : i \in 1..Len(m)}
JStore(r) ==
  LET st == StoreJ(r.before)
      st2 == StoreJ(r.after)
      locs == LocsJ(r.locs)
      L == {locs[i] : i \in 1..Len(locs)}
      map == MapJ(r.map)
  IN IF ~StoreWellFormed(st) THEN "malformed:store-before"
     ELSE IF r.op = "eval" THEN
        (LET vs == {LET want == StoreEval(st, <<r.vals[i][1], r.vals[i][2]>>, locs[r.vals[i][3] + 1])
                    IN IF RBad(want) THEN "overflow" ELSE IF Match(want, r.vals[i][4]) THEN "ok" ELSE "differs"
                      : i \in 1..Len(r.vals)}
         IN IF "differs" \in vs THEN "store:instancer-differs" ELSE IF "overflow" \in vs THEN "skip:overflow" ELSE "ok")
     ELSE IF r.op = "build" THEN
        (LET sups == RegionsJ(r.sups)
             vs == {LET a == StoreEval(st2, <<r.rows[i].idx[1], r.rows[i].idx[2]>>, loc)
                        b == EvalDeltas(TLCEval([j \in 1..Len(sups) |-> <<sups[j], RInt(r.rows[i].deltas[j])>>]), loc)
                    IN IF RBad(a) \/ RBad(b) THEN "overflow" ELSE IF a = b THEN "ok" ELSE "differs"
                      : i \in 1..Len(r.rows), loc \in L}
         IN IF ~StoreWellFormed(st2) THEN "store:build-malformed"
            ELSE IF \E i \in 1..Len(r.rows) : ~StoreHas(st2, <<r.rows[i].idx[1], r.rows[i].idx[2]>>) THEN "store:build-index-missing"
            ELSE IF "differs" \in vs THEN "store:build-differs" ELSE IF "overflow" \in vs THEN "skip:overflow" ELSE "ok")
     ELSE IF ~StoreWellFormed(st2) THEN "store:" \o r.op \o "-result-malformed"
     ELSE IF ~MapCovers({<<r.need[i][1], r.need[i][2]>> : i \in 1..Len(r.need)}, map) THEN "store:" \o r.op \o "-map-incomplete"
     ELSE IF ~MapTargetsExist(st2, map) THEN "store:" \o r.op \o "-target-missing"
     ELSE LET vs == {NeutralAt(st, st2, e, loc) : e \in map, loc \in L}
          IN IF "differs" \in vs THEN "store:" \o r.op \o "-changes-value"
             ELSE IF "overflow" \in vs THEN "skip:overflow" ELSE "ok"

(* ---- inferred deltas ----------------------------------------------------------------------- *)
PtsJ(c) == TLCEval([i \in 1..Len(c) |-> <<RInt(c[i][1]), RInt(c[i][2])>>])
DeltasJ(d) == TLCEval([i \in 1..Len(d) |-> IF Len(d[i]) = 0 THEN NoDelta ELSE <<RInt(d[i][1]), RInt(d[i][2])>>])
JIup(r) ==
  LET co == PtsJ(r.coords)
      inf == Infer(co, r.ends, DeltasJ(r.deltas))
      out == TLCEval([i \in 1..Len(r.out) |-> <<Rat(r.out[i][1][1], r.out[i][1][2]), Rat(r.out[i][2][1], r.out[i][2][2])>>])
  IN IF ~GlyphWellFormed(co, r.ends) \/ Len(r.deltas) # Len(co) THEN "malformed:glyph"
     ELSE IF \E i \in 1..Len(inf) : RBad(inf[i][1]) \/ RBad(inf[i][2]) THEN "skip:overflow"
     ELSE IF inf = out THEN "ok" ELSE "iup:inferred-differs"
JIupOpt(r) ==
  LET co == PtsJ(r.coords)
      full == DeltasJ(r.deltas)
      opt == DeltasJ(r.opt)
      v == OptimizedVerdict(co, r.ends, full, opt, Rat(r.tol[1], r.tol[2]))
      hasNone == \E i \in 1..Len(opt) : opt[i] = NoDelta
  IN IF ~GlyphWellFormed(co, r.ends) \/ Len(full) # Len(co) \/ \E i \in 1..Len(full) : full[i] = NoDelta THEN "malformed:glyph"
     ELSE IF v = "overflow" THEN "skip:overflow"
     ELSE IF v # "ok" THEN r.k \o ":" \o v
     ELSE IF r.k = "tvopt" /\ hasNone /\ ~(r.lenopt < r.lenfull) THEN "tvopt:kept-although-not-smaller"
     ELSE "ok"

Judge(r) ==
  CASE r.k = "tent" -> JTent(r)
    [] r.k = "scalar" -> JScalar(r)
    [] r.k = "norm" -> JNorm(r)
    [] r.k = "pwl" -> JPwl(r)
    [] r.k = "model" -> JModel(r)
    [] r.k = "store" -> JStore(r)
    [] r.k = "iup" -> JIup(r)
    [] r.k \in {"iupopt", "tvopt"} -> JIupOpt(r)
    [] OTHER -> "malformed:unknown-kind"

Init == tid \in 1..NTraces /\ verdict = "pending"
Next == verdict = "pending" /\ verdict' = Judge(Traces[tid]) /\ UNCHANGED tid
Report == (verdict \notin {"pending", "ok"}) => Reject(tid, verdict)
=============================================================================
