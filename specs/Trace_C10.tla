----------------------------- MODULE Trace_C10 -----------------------------
(* C10: a built variable font reproduces each of its masters.

   One trace = one call of the REAL varLib.build on a designspace whose masters are real fonts.
   The harness records the designspace (axes with map knots, source locations), whether the build
   raised, and the PROJECTION of the saved-and-reloaded font and of every master (harness/
   c10_project.py): fvar triples, avar segments, the regions in use, scalar items (advance, kerning
   value, anchor coordinate, font-wide metric: default value + rows of region x delta + the value
   each master has) and outline items (default points + tuple variations or CFF2 blends + the
   points each master has).  TLC normalises the master locations with the Build action Normalise
   (through the axis maps) and evaluates the contract of module Build on the projected font:

     AxisMapping        Normalize_VF(user) against NormalizeDesign(map(user))
     MasterReproduced   |Eval(item, location of m) - value in m| <= 1/2 (+ derived slack, below)
     SparseOK           no region of an item peaks at a master that does not supply the item

   Derived slack (nothing is tuned):
     * a font can only be evaluated at F2Dot14 coordinates, and its regions are stored in F2Dot14:
       the master location is rounded to F2Dot14 (R14); a region whose tent has the coordinate
       strictly inside one of its slopes can differ from the unrounded model's scalar by at most
       4e/width per axis, e = 2^-15 (Pert; zero when the coordinate sits on a tent knot, i.e.
       always on lattice designspaces); this times |delta| is added;
     * gvar tuples optimised with IUP (tolerance 1/2 per tuple, C09 OptimizeWithinTol) add
       1/2 * scalar of the tuple;
     * avar stores knots in F2Dot14: AxisMapping allows e * (1 + 3 L), L the steepest slope of the
       ideal normalised map (derivation at AxisTol).
   Verdicts: <<"ok">>, <<"skip:..">> (outside the modelled domain; counted, never validated),
   <<"note:..">> (accepted), <<"malformed:..">> (harness bug), else <<clause, item, source>>. *)
EXTENDS TraceIO, Build, IUP

VARIABLES tid, verdict
tvars == <<tid, verdict, pc, ds, nlocs, order, vf>>

RatJ(p) == IF p[2] = 1 THEN <<p[1], 1>> ELSE Rat(p[1], p[2])
AxisJ(a) == [min |-> RatJ(a.min), def |-> RatJ(a.def), max |-> RatJ(a.max),
             map |-> TLCEval([i \in 1..Len(a.map) |-> <<RatJ(a.map[i][1]), RatJ(a.map[i][2])>>])]
AxesJ(t) == TLCEval([a \in 1..Len(t.axes) |-> AxisJ(t.axes[a])])
(* a source coordinate: [] = not given (the default), [n, d] design, [n, d, 1] user space *)
CoordJ(ax, c) == IF Len(c) = 0 THEN MapFwd(ax, ax.def)
                 ELSE IF Len(c) = 3 THEN MapFwd(ax, Rat(c[1], c[2])) ELSE Rat(c[1], c[2])
DSJ(t) == LET axes == AxesJ(t) IN
          [axes |-> axes,
           srcs |-> TLCEval([m \in 1..Len(t.srcs) |->
                      [loc |-> TLCEval([a \in 1..Len(axes) |-> CoordJ(axes[a], t.srcs[m].loc[a])]), vals |-> <<>>]])]

(* ---- F2Dot14 ------------------------------------------------------------------------------------- *)
E15 == Rat(1, 32768)
R14(v) == IF RBad(v) THEN RNaN
          ELSE LET s == RMul(v, RInt(16384)) IN IF RBad(s) THEN RNaN ELSE Rat(RoundHalfUp(s)[1], 16384)
R14Loc(loc) == TLCEval([a \in 1..Len(loc) |-> R14(loc[a])])
OnGrid(v, den) == ROk(v) /\ den % v[2] = 0

(* ---- AxisMapping --------------------------------------------------------------------------------
   ideal normalised map f: knots (k_i, v_i) = (default-normalised user, normalised design) of the
   designspace knots; the font's g: the avar segment map with every coordinate rounded to F2Dot14
   (|k_i - k'_i|, |v_i - v'_i| <= e).  With L the largest slope of f:  g interpolates (k'_i, v'_i);
   the interpolant h of (k'_i, f(k'_i)) has |g - h| <= e (1 + L) (values moved by e, knots by e along
   a slope <= L), and |h - f| <= 2 L e (h is a chord of f whose ends moved by <= e).  Needs the knots
   to stay apart by more than 2 e after rounding (else skipped). *)
IdealKnots(ax) ==
  LET ut == UserTriple(ax) dt == DesignTriple(ax)
      K == SortedKnots(ax)
      P == {<<NormalizeValue(K[i], ut), NormalizeValue(MapFwd(ax, K[i]), dt)>> : i \in 1..Len(K)}
  IN SortSeq(SetToSeq(P), LAMBDA p, q : RLt(p[1], q[1]))
MaxSlope(ks) ==
  LET slopes == {RDiv(RSub(ks[i + 1][2], ks[i][2]), RSub(ks[i + 1][1], ks[i][1])) : i \in 1..(Len(ks) - 1)}
  IN IF slopes = {} THEN RZero ELSE CHOOSE s \in slopes : \A q \in slopes : RLe(q, s)
KnotsApart(ks) == \A i \in 1..(Len(ks) - 1) : RLt(Rat(1, 4096), RSub(ks[i + 1][1], ks[i][1]))
AxisExact(ks) == \A i \in 1..Len(ks) : OnGrid(ks[i][1], 16384) /\ OnGrid(ks[i][2], 16384)
(* an integer upper bound of the steepest slope keeps the tolerance a plain number *)
SlopeBound(ks) == LET s == MaxSlope(ks) IN IF RBad(s) THEN 0 ELSE -((-s[1]) \div s[2])
AxisTol(ks) == IF AxisExact(ks) THEN RZero ELSE RMul(E15, RInt(1 + 3 * SlopeBound(ks)))

JAxis(ax, fv, av) ==
  LET ks == IdealKnots(ax)
      tol == AxisTol(ks)
      fvt == <<RatJ(fv[1]), RatJ(fv[2]), RatJ(fv[3])>>
      seg == TLCEval([i \in 1..Len(av) |-> <<RatJ(av[i][1]), RatJ(av[i][2])>>])
      dt == DesignTriple(ax)
      obs == {<<NormalizeVF(fvt, seg, u), AxisMappingWantT(ax, dt, u)>> : u \in Probes(ax)}
  IN IF ~(OnGrid(ax.min, 65536) /\ OnGrid(ax.def, 65536) /\ OnGrid(ax.max, 65536)) THEN "skip:axis value not representable in 16.16"
     ELSE IF ~AxisExact(ks) /\ ~KnotsApart(ks) THEN "skip:map knots closer than F2Dot14 resolves"
     ELSE IF RBad(tol) \/ \E o \in obs : WithinBad(o[1], o[2], tol) THEN "skip:overflow"
     ELSE IF ~PwlWellFormed(seg) THEN "AxisMapping:avar-not-a-map"
     ELSE IF \E o \in obs : ~Within(o[1], o[2], tol) THEN "AxisMapping"
     ELSE "ok"

(* ---- regions, scalars, perturbation bounds ------------------------------------------------------- *)
TentJ(t) == <<RatJ(t[1]), RatJ(t[2]), RatJ(t[3])>>
RegionsJ(rs) == TLCEval([i \in 1..Len(rs) |-> TLCEval([a \in 1..Len(rs[i]) |-> TentJ(rs[i][a])])])
Four15 == Rat(1, 8192)            \* 4 e
AxisPert(t, x) ==
  IF TentIgnored(t) \/ x = t[2] \/ RLe(x, t[1]) \/ RLe(t[3], x) THEN RZero
  ELSE IF RLt(x, t[2]) THEN RDiv(Four15, RSub(t[2], t[1])) ELSE RDiv(Four15, RSub(t[3], t[2]))
RegionPert(reg, loc) ==
  IF RIsZero(RegionScalar(reg, loc)) THEN RZero
  ELSE RSum(TLCEval([a \in 1..Len(reg) |-> AxisPert(reg[a], loc[a])]))

(* distinct master coordinates stay distinct in F2Dot14 (else coincidence with a tent knot after
   rounding would not mean coincidence before) *)
RoundingKeepsMastersApart(nl) ==
  \A a \in 1..Len(nl[1]) : \A m, q \in 1..Len(nl) : nl[m][a] # nl[q][a] => R14(nl[m][a]) # R14(nl[q][a])

(* ---- scalar items ---------------------------------------------------------------------------------- *)
(* value of rows at a master, and the slack, from the per-master scalar / perturbation vectors *)
RECURSIVE RowSum(_, _, _, _)
RowSum(rows, vec, i, acc) ==
  IF i > Len(rows) THEN acc
  ELSE LET s == vec[rows[i][1] + 1]
           a == IF RIsZero(s) THEN acc ELSE IF s = ROne THEN RAdd(acc, RInt(rows[i][2])) ELSE RAdd(acc, RMul(s, RInt(rows[i][2])))
       IN RowSum(rows, vec, i + 1, a)
RECURSIVE RowAbsSum(_, _, _, _)
RowAbsSum(rows, vec, i, acc) ==
  IF i > Len(rows) THEN acc
  ELSE LET s == vec[rows[i][1] + 1]
           a == IF RIsZero(s) THEN acc ELSE RAdd(acc, RMul(s, RInt(IAbs(rows[i][2]))))
       IN RowAbsSum(rows, vec, i + 1, a)

(* items are integers (design units).  Slow, general path in rationals: *)
JItemRat(it, m, SMm, PMm) ==
  LET got == RAdd(RInt(it.b), RowSum(it.r, SMm, 1, RZero))
      tol == RAdd(RHalf, RowAbsSum(it.r, PMm, 1, RZero))
      want == RInt(it.v[m][1])
  IN IF RBad(tol) \/ WithinBad(got, want, tol) THEN "overflow" ELSE IF Within(got, want, tol) THEN "ok" ELSE "differs"
(* Fast path, the same inequality in integers: when no region is sloped at this master (fx.exact: the
   slack is exactly 1/2) the scalars are fx.si[r] / fx.q, and
        |b + sum si*d / q - want| <= 1/2   <=>   2 * |q*b + sum si*d - q*want| <= q.
   Used only when every product fits 31 bits (guard by division), else the general path. *)
RECURSIVE RowIntSum(_, _, _, _)
RowIntSum(rows, si, i, acc) == IF i > Len(rows) THEN acc
                               ELSE LET a == acc + si[rows[i][1] + 1] * rows[i][2] IN RowIntSum(rows, si, i + 1, a)
RECURSIVE RowIntAbs(_, _, _)
RowIntAbs(rows, i, acc) == IF i > Len(rows) THEN acc ELSE LET a == acc + IAbs(rows[i][2]) IN RowIntAbs(rows, i + 1, a)
Big == 1073741824
JItem(it, m, fx, SMm, PMm) ==
  LET mag == IAbs(it.b) + IAbs(it.v[m][1]) + RowIntAbs(it.r, 1, 0) IN
  IF fx.exact /\ mag <= Big \div fx.q
  THEN LET d == fx.q * it.b + RowIntSum(it.r, fx.si, 1, 0) - fx.q * it.v[m][1]
       IN IF 2 * IAbs(d) <= fx.q THEN "ok" ELSE "differs"
  ELSE JItemRat(it, m, SMm, PMm)
(* per master: common denominator of the scalars, integer numerators, exactness *)
RECURSIVE LcmDen(_, _, _)
LcmDen(v, i, acc) == IF i > Len(v) THEN acc
                     ELSE IF acc = 0 \/ v[i][2] = 0 THEN 0
                     ELSE LET d == v[i][2]
                              g == RGcd(acc, d)
                              a == IF acc \div g > 65536 \div d THEN 0 ELSE (acc \div g) * d
                          IN LcmDen(v, i + 1, a)
Fixed(SMm, PMm) ==
  LET q == LcmDen(SMm, 1, 1)
  IN IF q = 0 \/ \E r \in 1..Len(PMm) : ~RIsZero(PMm[r]) THEN [exact |-> FALSE, q |-> 1, si |-> <<>>]
     ELSE [exact |-> TRUE, q |-> q, si |-> TLCEval([r \in 1..Len(SMm) |-> SMm[r][1] * (q \div SMm[r][2])])]

(* no row of the item peaks at (the F2Dot14 location of) a master that does not supply it; one unit of
   F2Dot14 for a tie rounded the other way *)
Unit14 == Rat(1, 16384)
ItemAvoids(it, regions, loc) ==
  \A r \in 1..Len(it.r) : it.r[r][2] = 0 \/ ~PeaksAt(regions[it.r[r][1] + 1], loc, Unit14)

(* ---- outline items --------------------------------------------------------------------------------- *)
PtsJ(ps, den) == TLCEval([i \in 1..Len(ps) |-> <<Rat(ps[i][1], den), Rat(ps[i][2], den)>>])
DeltasJ(d, den) == TLCEval([i \in 1..Len(d) |-> IF Len(d[i]) = 0 THEN NoDelta ELSE <<Rat(d[i][1], den), Rat(d[i][2], den)>>])
Optimised(tv) == \E i \in 1..Len(tv.d) : Len(tv.d[i]) = 0
TupleAvoids(g, regions, loc) ==
  \A t \in 1..Len(g.tv) :
     (\A i \in 1..Len(g.tv[t].d) : Len(g.tv[t].d[i]) = 0 \/ (g.tv[t].d[i][1] = 0 /\ g.tv[t].d[i][2] = 0))
     \/ ~PeaksAt(regions[g.tv[t].r + 1], loc, Unit14)

(* full (inferred) deltas of every tuple, computed once per glyph *)
GlyphDeltas(g) ==
  LET co == PtsJ(g.pts, g.den) IN
  TLCEval([t \in 1..Len(g.tv) |->
     LET d == DeltasJ(g.tv[t].d, g.den) IN IF Optimised(g.tv[t]) THEN Infer(co, g.ends, d) ELSE d])

JGlyphAt(g, full, m, SMm, PMm) ==
  LET want == PtsJ(g.m[m], g.den)
      co == PtsJ(g.pts, g.den)
      nt == Len(g.tv)
      sc == TLCEval([t \in 1..nt |-> SMm[g.tv[t].r + 1]])
      pe == TLCEval([t \in 1..nt |-> PMm[g.tv[t].r + 1]])
      iup == RMul(RHalf, RSum(TLCEval([t \in 1..nt |-> IF Optimised(g.tv[t]) THEN sc[t] ELSE RZero])))
      Coord(p, c) == RAdd(co[p][c], RSum(TLCEval([t \in 1..nt |-> RMul(sc[t], full[t][p][c])])))
      Tol(p, c) == RAdd(RAdd(RHalf, iup), RSum(TLCEval([t \in 1..nt |-> RMul(pe[t], RAbs(full[t][p][c]))])))
      vs == {LET got == Coord(p, c) tol == Tol(p, c) IN
             IF RBad(tol) \/ WithinBad(got, want[p][c], tol) THEN "overflow" ELSE IF Within(got, want[p][c], tol) THEN "ok" ELSE "differs"
               : p \in 1..g.cmp, c \in 1..2}
  IN IF Len(want) # g.cmp THEN "structure"
     ELSE IF "differs" \in vs THEN "differs" ELSE IF "overflow" \in vs THEN "overflow" ELSE "ok"

(* the same inequality in integers (coordinates are integers / g.den): no optimised tuple, no sloped
   region at this master, and q * g.mag fits (g.mag: largest |coordinate| + sum of the largest |delta|
   of each tuple, supplied with the glyph; a wrong bound makes TLC abort, never mis-judge) *)
RECURSIVE TupSum(_, _, _, _, _, _)
TupSum(g, si, p, c, t, acc) ==
  IF t > Len(g.tv) THEN acc
  ELSE LET a == acc + si[g.tv[t].r + 1] * g.tv[t].d[p][c] IN TupSum(g, si, p, c, t + 1, a)
JGlyphAtInt(g, m, fx) ==
  IF Len(g.m[m]) # g.cmp THEN "structure"
  ELSE IF \E p \in 1..g.cmp : \E c \in 1..2 :
            2 * IAbs(TupSum(g, fx.si, p, c, 1, fx.q * g.pts[p][c]) - fx.q * g.m[m][p][c]) > g.den * fx.q
       THEN "differs" ELSE "ok"
JGlyph(g, full, m, fx, SMm, PMm) ==
  IF fx.exact /\ g.mag <= Big \div fx.q /\ g.den <= 65536 /\ \A t \in 1..Len(g.tv) : ~Optimised(g.tv[t])
  THEN JGlyphAtInt(g, m, fx) ELSE JGlyphAt(g, full, m, SMm, PMm)

GlyphOK(g) == /\ Len(g.pts) >= g.cmp
              /\ \A t \in 1..Len(g.tv) : Len(g.tv[t].d) = Len(g.pts)
              /\ (\E t \in 1..Len(g.tv) : Optimised(g.tv[t])) => GlyphWellFormed(PtsJ(g.pts, g.den), g.ends)

(* ---- HarfBuzz as an observer ------------------------------------------------------------------------
   h == [m: source, u: user coordinates of that master, adv: <<glyph, advance in the font at u, advance in
   the static master>>, pts: <<glyph, drawn points of the font at u, of the static master>> (x 1024)].
   HarfBuzz normalises u itself (fvar, avar, all in F2Dot14): its coordinate can differ from R14(ideal) by
     eps = e * (2 + 4 L)     (AxisTol e (1 + 3 L), the input rounded by e through a slope <= L, the output by e)
   which moves the scalar of a region by at most eps / (narrowest slope of its tent) per axis (HBPert,
   whatever the position, also next to a knot).  It rounds an advance to an integer (one more 1/2), draws
   outlines in float32 (coordinates < 2^14: 2^-7 covers the arithmetic and the 1/1024 quantisation). *)
HBEps(ax) == RMul(E15, RInt(2 + 4 * SlopeBound(IdealKnots(ax))))
AxisHBPert(t, eps) ==
  IF TentIgnored(t) THEN RZero
  ELSE LET w1 == RSub(t[2], t[1]) w2 == RSub(t[3], t[2])
           w == IF RIsZero(w1) THEN w2 ELSE IF RIsZero(w2) THEN w1 ELSE RMin(w1, w2)
       IN RDiv(eps, w)
RegionHBPert(reg, eps) == RSum(TLCEval([a \in 1..Len(reg) |-> AxisHBPert(reg[a], eps[a])]))
FloatSlack == Rat(1, 128)
MaxAbsDelta(tv) == LET S == {IAbs(tv.d[i][c]) : i \in {j \in 1..Len(tv.d) : Len(tv.d[j]) > 0}, c \in 1..2}
                   IN IF S = {} THEN 0 ELSE CHOOSE x \in S : \A y \in S : y <= x
ItemIndex(t, name) == {i \in 1..Len(t.items) : t.items[i].n = name}
GlyphIndex(t, name) == {i \in 1..Len(t.glyphs) : t.glyphs[i].n = name}

JHBRecord(t, h, regions, SM, PM, HP) ==
  LET m == h.m
      axes == ds.axes
      here == \A a \in 1..Len(axes) : MapFwd(axes[a], RatJ(h.u[a])) = ds.srcs[m].loc[a]
      both == TLCEval([r \in 1..Len(regions) |-> RAdd(PM[m][r], HP[r])])
      (* a glyph is observed only if HarfBuzz and the projection agree on the static master's advance
         (a partial master, e.g. without hhea, is not a font HarfBuzz can be asked about) *)
      Trusted(name, madv) == LET idx == ItemIndex(t, "HVAR:" \o name) IN
                             idx # {} /\ LET it == t.items[CHOOSE k \in idx : TRUE] IN Len(it.v[m]) > 0 /\ it.v[m][1] = madv
      MasterAdv(name) == LET S == {i \in 1..Len(h.adv) : h.adv[i][1] = name} IN
                         IF S = {} THEN -1 ELSE h.adv[CHOOSE i \in S : TRUE][3]
      advbad == {i \in 1..Len(h.adv) :
                  Trusted(h.adv[i][1], h.adv[i][3]) /\
                  LET it == t.items[CHOOSE k \in ItemIndex(t, "HVAR:" \o h.adv[i][1]) : TRUE]
                      tol == RAdd(ROne, RowAbsSum(it.r, both, 1, RZero))
                  IN ROk(tol) /\ ~WithinBad(RInt(h.adv[i][2]), RInt(h.adv[i][3]), tol)
                     /\ ~Within(RInt(h.adv[i][2]), RInt(h.adv[i][3]), tol)}
      ptsbad == {i \in 1..Len(h.pts) :
                  LET idx == GlyphIndex(t, h.pts[i][1]) IN
                  idx # {} /\ Trusted(h.pts[i][1], MasterAdv(h.pts[i][1])) /\
                  LET g == t.glyphs[CHOOSE k \in idx : TRUE]
                      nt == Len(g.tv)
                      iup == RMul(RHalf, RSum(TLCEval([k \in 1..nt |-> IF Optimised(g.tv[k]) THEN SM[m][g.tv[k].r + 1] ELSE RZero])))
                      pert == RSum(TLCEval([k \in 1..nt |-> RMul(both[g.tv[k].r + 1], Rat(MaxAbsDelta(g.tv[k]), g.den))]))
                      (* TrueType: HarfBuzz shifts the outline by the (interpolated) left phantom point: one more 1/2 *)
                      shift == IF g.den = 1 /\ Len(g.pts) = g.cmp + 2 THEN RHalf ELSE RZero
                      tol == RMul(RInt(1024), RAdd(RAdd(RAdd(RAdd(RHalf, shift), iup), pert), FloatSlack))
                      a == h.pts[i][2]
                      b == h.pts[i][3]
                  IN ROk(tol) /\ (Len(a) # Len(b) \/ \E p \in 1..Len(a) : \E c \in 1..2 : RLt(tol, RInt(IAbs(a[p][c] - b[p][c]))))}
  IN IF ~here THEN <<"elsewhere", "">>
     ELSE IF advbad # {} THEN <<"HB:advance", h.adv[CHOOSE i \in advbad : TRUE][1]>>
     ELSE IF ptsbad # {} THEN <<"HB:outline", h.pts[CHOOSE i \in ptsbad : TRUE][1]>>
     ELSE <<"ok", "">>

(* ---- the verdict ------------------------------------------------------------------------------------ *)
AxisSkips == {"skip:axis value not representable in 16.16", "skip:map knots closer than F2Dot14 resolves", "skip:overflow"}

JudgeVF(t, nl) ==
  LET axes == ds.axes
      n == Len(nl)
      locs == TLCEval([m \in 1..n |-> R14Loc(nl[m])])
      regions == RegionsJ(t.regions)
      SM == TLCEval([m \in 1..n |-> TLCEval([r \in 1..Len(regions) |-> RegionScalar(regions[r], locs[m])])])
      PM == TLCEval([m \in 1..n |-> TLCEval([r \in 1..Len(regions) |-> RegionPert(regions[r], locs[m])])])
      axv == TLCEval([a \in 1..Len(axes) |-> JAxis(axes[a], t.fvar[a], t.avar[a])])
      Supplies(v, m) == Len(v[m]) > 0
      SharedLoc(v, m) == \E p \in 1..n : Supplies(v, p) /\ nl[p] = nl[m]
      FX == TLCEval([m \in 1..n |-> Fixed(SM[m], PM[m])])
      iv == UNION {{<<JItem(t.items[i], m, FX[m], SM[m], PM[m]), t.items[i].n, m>> : m \in {q \in 1..n : Supplies(t.items[i].v, q)}}
                     : i \in 1..Len(t.items)}
      gv == UNION {LET g == t.glyphs[i] full == GlyphDeltas(g) IN
                   {<<JGlyph(g, full, m, FX[m], SM[m], PM[m]), g.n, m>> : m \in {q \in 1..n : Supplies(g.m, q)}}
                     : i \in 1..Len(t.glyphs)}
      HP == TLCEval([r \in 1..Len(regions) |-> RegionHBPert(regions[r], TLCEval([a \in 1..Len(axes) |-> HBEps(axes[a])]))])
      hbv == {<<JHBRecord(t, t.hb[i], regions, SM, PM, HP), t.hb[i].m>> : i \in 1..Len(t.hb)}
      hbbad == {x \in hbv : x[1][1] \notin {"ok", "elsewhere"}}
      ibad == {x \in iv : x[1] = "differs"}
      gbad == {x \in gv : x[1] \in {"differs", "structure"}}
      sparsebad == {x \in {<<i, m>> : i \in 1..Len(t.items), m \in 1..n} :
                      ~Supplies(t.items[x[1]].v, x[2]) /\ ~SharedLoc(t.items[x[1]].v, x[2])
                      /\ ~ItemAvoids(t.items[x[1]], regions, locs[x[2]])}
      gsparsebad == {x \in {<<i, m>> : i \in 1..Len(t.glyphs), m \in 1..n} :
                      ~Supplies(t.glyphs[x[1]].m, x[2]) /\ ~SharedLoc(t.glyphs[x[1]].m, x[2])
                      /\ ~TupleAvoids(t.glyphs[x[1]], regions, locs[x[2]])}
  IN IF Len(t.fvar) # Len(axes) \/ Len(t.avar) # Len(axes) THEN <<"AxisMapping:axis-count", "fvar", 0>>
     ELSE IF \E a \in 1..Len(axes) : axv[a] \notin ({"ok"} \cup AxisSkips)
          THEN LET a == CHOOSE a \in 1..Len(axes) : axv[a] \notin ({"ok"} \cup AxisSkips) IN <<axv[a], "axis", a>>
     ELSE IF \E a \in 1..Len(axes) : axv[a] # "ok" THEN <<axv[CHOOSE a \in 1..Len(axes) : axv[a] # "ok"]>>
     ELSE IF \E r \in 1..Len(regions) : Len(regions[r]) # Len(axes) THEN <<"malformed:region-arity">>
     ELSE IF \E m \in 1..n : AnyBad(locs[m]) \/ AnyBad(SM[m]) \/ AnyBad(PM[m]) THEN <<"skip:overflow">>
     ELSE IF ~RoundingKeepsMastersApart(nl) THEN <<"skip:master coordinates closer than F2Dot14 resolves">>
     ELSE IF \E i \in 1..Len(t.items) : Len(t.items[i].v) # n THEN <<"malformed:item-values">>
     ELSE IF \E i \in 1..Len(t.glyphs) : Len(t.glyphs[i].m) # n \/ ~GlyphOK(t.glyphs[i]) THEN <<"malformed:glyph">>
     ELSE IF ibad # {} THEN LET x == CHOOSE x \in ibad : TRUE IN <<"MasterReproduced", x[2], x[3]>>
     ELSE IF gbad # {} THEN LET x == CHOOSE x \in gbad : TRUE IN
                            <<IF x[1] = "structure" THEN "MasterReproduced:outline-structure" ELSE "MasterReproduced", "outline:" \o x[2], x[3]>>
     ELSE IF sparsebad # {} THEN LET x == CHOOSE x \in sparsebad : TRUE IN <<"SparseOK", t.items[x[1]].n, x[2]>>
     ELSE IF gsparsebad # {} THEN LET x == CHOOSE x \in gsparsebad : TRUE IN <<"SparseOK", "outline:" \o t.glyphs[x[1]].n, x[2]>>
     ELSE IF hbbad # {} THEN LET x == CHOOSE x \in hbbad : TRUE IN <<x[1][1], "HarfBuzz:" \o x[1][2], x[2]>>
     ELSE IF (\E x \in iv : x[1] = "overflow") \/ (\E x \in gv : x[1] = "overflow")
          THEN <<"note:some comparisons of the build skipped (31-bit overflow), the others hold">>
     ELSE <<"ok">>

Judge(t, nl, p) ==
  IF p = "refused" THEN (IF t.err # "" THEN <<"ok">> ELSE <<"note:built although the spec refuses the designspace">>)
  ELSE IF t.err # "" THEN <<"build:exception", t.err, 0>>
  ELSE JudgeVF(t, nl)

Init == /\ tid \in 1..NTraces /\ verdict = <<"pending">>
        /\ BuildInit(DSJ(Traces[tid]))
Next == \/ Normalise /\ UNCHANGED <<tid, verdict>>
        \/ /\ pc \in {"model", "refused"} /\ verdict = <<"pending">>
           /\ verdict' = Judge(Traces[tid], nlocs, pc)
           /\ pc' = "judged"
           /\ UNCHANGED <<tid, ds, nlocs, order, vf>>
Report == (verdict[1] \notin {"pending", "ok"}) => Reject(tid, verdict)
=============================================================================
