----------------------------- MODULE Trace_C10 -----------------------------
(* C10: a built variable font reproduces each of its masters.

   One trace = one call of the REAL varLib.build on a designspace whose masters are real fonts.
   The harness records the designspace (axes with map knots, source locations), whether the build
   raised, and the PROJECTION of the saved-and-reloaded font and of every master (harness/
   c10_project.py): fvar triples, avar segments, the regions in use, scalar items (advance, kerning
   value, anchor coordinate, font-wide metric: default value + rows of region x delta + the value
   each master has) and outline items (default points + tuple variations or CFF2 blends + the
   points each master has).  TLC normalises the master locations with the Build action Normalise
   (through the axis maps) and evaluates the contract of module Build on the projected font:

     AxisMapping        Normalize_VF(user) against NormalizeDesign(map(user))
     MasterReproduced   |Eval(item, location of m) - value in m| <= 1/2 (+ derived slack, below)
     SparseOK           no region of an item peaks at a master that does not supply the item

   Derived slack (nothing is tuned):
     * a font can only be evaluated at F2Dot14 coordinates, and its regions are stored in F2Dot14:
       the master location is rounded to F2Dot14 (R14); a region whose tent has the coordinate
       strictly inside one of its slopes can differ from the unrounded model's scalar by at most
       4e/width per axis, e = 2^-15 (Pert; zero when the coordinate sits on a tent knot, i.e.
       always on lattice designspaces); this times |delta| is added;
     * gvar tuples optimised with IUP (tolerance 1/2 per tuple, C09 OptimizeWithinTol) add
       1/2 * scalar of the tuple;
     * avar stores knots in F2Dot14: AxisMapping allows e * (1 + 3 L), L the steepest slope of the
       ideal normalised map (derivation at AxisTol).
   Verdicts: <<"ok">>, <<"skip:..">> (outside the modelled domain; counted, never validated),
   <<"note:..">> (accepted), <<"malformed:..">> (harness bug), else <<clause, item, source>>. *)
EXTENDS TraceIO, Build, IUP

VARIABLES tid, verdict
tvars == <<tid, verdict, pc, ds, nlocs, order, vf>>

RatJ(p) == Rat(p[1], p[2])
AxisJ(a) == [min |-> RatJ(a.min), def |-> RatJ(a.def), max |-> RatJ(a.max),
             map |-> TLCEval([i \in 1..Len(a.map) |-> <<RatJ(a.map[i][1]), RatJ(a.map[i][2])>>])]
AxesJ(t) == TLCEval([a \in 1..Len(t.axes) |-> AxisJ(t.axes[a])])
(* a source coordinate: [] = not given (the default), [n, d] design, [n, d, 1] user space *)
CoordJ(ax, c) == IF Len(c) = 0 THEN MapFwd(ax, ax.def)
                 ELSE IF Len(c) = 3 THEN MapFwd(ax, Rat(c[1], c[2])) ELSE Rat(c[1], c[2])
DSJ(t) == LET axes == AxesJ(t) IN
          [axes |-> axes,
           srcs |-> TLCEval([m \in 1..Len(t.srcs) |->
                      [loc |-> TLCEval([a \in 1..Len(axes) |-> CoordJ(axes[a], t.srcs[m].loc[a])]), vals |-> <<>>]])]

(* ---- F2Dot14 ------------------------------------------------------------------------------------- *)
E15 == Rat(1, 32768)
R14(v) == IF RBad(v) THEN RNaN
          ELSE LET s == RMul(v, RInt(16384)) IN IF RBad(s) THEN RNaN ELSE Rat(RoundHalfUp(s)[1], 16384)
R14Loc(loc) == TLCEval([a \in 1..Len(loc) |-> R14(loc[a])])
OnGrid(v, den) == ROk(v) /\ den % v[2] = 0

(* ---- AxisMapping --------------------------------------------------------------------------------
   ideal normalised map f: knots (k_i, v_i) = (default-normalised user, normalised design) of the
   designspace knots; the font's g: the avar segment map with every coordinate rounded to F2Dot14
   (|k_i - k'_i|, |v_i - v'_i| <= e).  With L the largest slope of f:  g interpolates (k'_i, v'_i);
   the interpolant h of (k'_i, f(k'_i)) has |g - h| <= e (1 + L) (values moved by e, knots by e along
   a slope <= L), and |h - f| <= 2 L e (h is a chord of f whose ends moved by <= e).  Needs the knots
   to stay apart by more than 2 e after rounding (else skipped). *)
IdealKnots(ax) ==
  LET ut == UserTriple(ax) dt == DesignTriple(ax)
      K == SetToSeq({k \in KnotUsers(ax) : RLe(ax.min, k) /\ RLe(k, ax.max)})
      P == {<<NormalizeValue(K[i], ut), NormalizeValue(MapFwd(ax, K[i]), dt)>> : i \in 1..Len(K)}
  IN SortSeq(SetToSeq(P), LAMBDA p, q : RLt(p[1], q[1]))
MaxSlope(ks) ==
  LET slopes == {RDiv(RSub(ks[i + 1][2], ks[i][2]), RSub(ks[i + 1][1], ks[i][1])) : i \in 1..(Len(ks) - 1)}
  IN IF slopes = {} THEN RZero ELSE CHOOSE s \in slopes : \A q \in slopes : RLe(q, s)
KnotsApart(ks) == \A i \in 1..(Len(ks) - 1) : RLt(Rat(1, 4096), RSub(ks[i + 1][1], ks[i][1]))
AxisExact(ks) == \A i \in 1..Len(ks) : OnGrid(ks[i][1], 16384) /\ OnGrid(ks[i][2], 16384)
AxisTol(ks) == IF AxisExact(ks) THEN RZero ELSE RMul(E15, RAdd(ROne, RMul(RInt(3), MaxSlope(ks))))

JAxis(ax, fv, av) ==
  LET ks == IdealKnots(ax)
      tol == AxisTol(ks)
      fvt == <<RatJ(fv[1]), RatJ(fv[2]), RatJ(fv[3])>>
      seg == TLCEval([i \in 1..Len(av) |-> <<RatJ(av[i][1]), RatJ(av[i][2])>>])
      bad == {u \in Probes(ax) : ~AxisMappingAt(ax, fvt, seg, u, tol)}
  IN IF ~(OnGrid(ax.min, 65536) /\ OnGrid(ax.def, 65536) /\ OnGrid(ax.max, 65536)) THEN "skip:axis value not representable in 16.16"
     ELSE IF ~AxisExact(ks) /\ ~KnotsApart(ks) THEN "skip:map knots closer than F2Dot14 resolves"
     ELSE IF RBad(tol) \/ \E u \in Probes(ax) : WithinBad(NormalizeVF(fvt, seg, u), AxisMappingWant(ax, u), tol) THEN "skip:overflow"
     ELSE IF ~PwlWellFormed(seg) THEN "AxisMapping:avar-not-a-map"
     ELSE IF bad # {} THEN "AxisMapping"
     ELSE "ok"

(* ---- regions, scalars, perturbation bounds ------------------------------------------------------- *)
TentJ(t) == <<RatJ(t[1]), RatJ(t[2]), RatJ(t[3])>>
RegionsJ(rs) == TLCEval([i \in 1..Len(rs) |-> TLCEval([a \in 1..Len(rs[i]) |-> TentJ(rs[i][a])])])
Four15 == Rat(1, 8192)            \* 4 e
AxisPert(t, x) ==
  IF TentIgnored(t) \/ x = t[2] \/ RLe(x, t[1]) \/ RLe(t[3], x) THEN RZero
  ELSE IF RLt(x, t[2]) THEN RDiv(Four15, RSub(t[2], t[1])) ELSE RDiv(Four15, RSub(t[3], t[2]))
RegionPert(reg, loc) ==
  IF RIsZero(RegionScalar(reg, loc)) THEN RZero
  ELSE RSum(TLCEval([a \in 1..Len(reg) |-> AxisPert(reg[a], loc[a])]))

(* distinct master coordinates stay distinct in F2Dot14 (else coincidence with a tent knot after
   rounding would not mean coincidence before) *)
RoundingKeepsMastersApart(nl) ==
  \A a \in 1..Len(nl[1]) : \A m, q \in 1..Len(nl) : nl[m][a] # nl[q][a] => R14(nl[m][a]) # R14(nl[q][a])

(* ---- scalar items ---------------------------------------------------------------------------------- *)
(* value of rows at a master, and the slack, from the per-master scalar / perturbation vectors *)
RECURSIVE RowSum(_, _, _, _)
RowSum(rows, vec, i, acc) ==
  IF i > Len(rows) THEN acc
  ELSE LET a == RAdd(acc, RMul(vec[rows[i][1] + 1], RatJ(rows[i][2]))) IN RowSum(rows, vec, i + 1, a)
RECURSIVE RowAbsSum(_, _, _, _)
RowAbsSum(rows, vec, i, acc) ==
  IF i > Len(rows) THEN acc
  ELSE LET a == RAdd(acc, RMul(vec[rows[i][1] + 1], RAbs(RatJ(rows[i][2])))) IN RowAbsSum(rows, vec, i + 1, a)

JItem(it, m, SMm, PMm) ==
  LET got == RAdd(RatJ(it.b), RowSum(it.r, SMm, 1, RZero))
      tol == RAdd(RHalf, RowAbsSum(it.r, PMm, 1, RZero))
      want == RatJ(it.v[m])
  IN IF RBad(tol) \/ WithinBad(got, want, tol) THEN "overflow" ELSE IF Within(got, want, tol) THEN "ok" ELSE "differs"
(* no row of the item peaks at (the F2Dot14 location of) a master that does not supply it; one unit of
   F2Dot14 for a tie rounded the other way *)
Unit14 == Rat(1, 16384)
ItemAvoids(it, regions, loc) ==
  \A r \in 1..Len(it.r) : it.r[r][2][1] = 0 \/ ~PeaksAt(regions[it.r[r][1] + 1], loc, Unit14)

(* ---- outline items --------------------------------------------------------------------------------- *)
PtsJ(ps, den) == TLCEval([i \in 1..Len(ps) |-> <<Rat(ps[i][1], den), Rat(ps[i][2], den)>>])
DeltasJ(d, den) == TLCEval([i \in 1..Len(d) |-> IF Len(d[i]) = 0 THEN NoDelta ELSE <<Rat(d[i][1], den), Rat(d[i][2], den)>>])
Optimised(tv) == \E i \in 1..Len(tv.d) : Len(tv.d[i]) = 0
TupleAvoids(g, regions, loc) ==
  \A t \in 1..Len(g.tv) :
     (\A i \in 1..Len(g.tv[t].d) : Len(g.tv[t].d[i]) = 0 \/ (g.tv[t].d[i][1] = 0 /\ g.tv[t].d[i][2] = 0))
     \/ ~PeaksAt(regions[g.tv[t].r + 1], loc, Unit14)

(* full (inferred) deltas of every tuple, computed once per glyph *)
GlyphDeltas(g) ==
  LET co == PtsJ(g.pts, g.den) IN
  TLCEval([t \in 1..Len(g.tv) |->
     LET d == DeltasJ(g.tv[t].d, g.den) IN IF Optimised(g.tv[t]) THEN Infer(co, g.ends, d) ELSE d])

JGlyphAt(g, full, m, SMm, PMm) ==
  LET want == PtsJ(g.m[m], g.den)
      co == PtsJ(g.pts, g.den)
      nt == Len(g.tv)
      sc == TLCEval([t \in 1..nt |-> SMm[g.tv[t].r + 1]])
      pe == TLCEval([t \in 1..nt |-> PMm[g.tv[t].r + 1]])
      iup == RMul(RHalf, RSum(TLCEval([t \in 1..nt |-> IF Optimised(g.tv[t]) THEN sc[t] ELSE RZero])))
      Coord(p, c) == RAdd(co[p][c], RSum(TLCEval([t \in 1..nt |-> RMul(sc[t], full[t][p][c])])))
      Tol(p, c) == RAdd(RAdd(RHalf, iup), RSum(TLCEval([t \in 1..nt |-> RMul(pe[t], RAbs(full[t][p][c]))])))
      vs == {LET got == Coord(p, c) tol == Tol(p, c) IN
             IF RBad(tol) \/ WithinBad(got, want[p][c], tol) THEN "overflow" ELSE IF Within(got, want[p][c], tol) THEN "ok" ELSE "differs"
               : p \in 1..g.cmp, c \in 1..2}
  IN IF Len(want) # g.cmp THEN "structure"
     ELSE IF "differs" \in vs THEN "differs" ELSE IF "overflow" \in vs THEN "overflow" ELSE "ok"

GlyphOK(g) == /\ Len(g.pts) >= g.cmp
              /\ \A t \in 1..Len(g.tv) : Len(g.tv[t].d) = Len(g.pts)
              /\ (\E t \in 1..Len(g.tv) : Optimised(g.tv[t])) => GlyphWellFormed(PtsJ(g.pts, g.den), g.ends)

(* ---- the verdict ------------------------------------------------------------------------------------ *)
AxisSkips == {"skip:axis value not representable in 16.16", "skip:map knots closer than F2Dot14 resolves", "skip:overflow"}

JudgeVF(t, nl) ==
  LET axes == ds.axes
      n == Len(nl)
      locs == TLCEval([m \in 1..n |-> R14Loc(nl[m])])
      regions == RegionsJ(t.regions)
      SM == TLCEval([m \in 1..n |-> TLCEval([r \in 1..Len(regions) |-> RegionScalar(regions[r], locs[m])])])
      PM == TLCEval([m \in 1..n |-> TLCEval([r \in 1..Len(regions) |-> RegionPert(regions[r], locs[m])])])
      axv == TLCEval([a \in 1..Len(axes) |-> JAxis(axes[a], t.fvar[a], t.avar[a])])
      Supplies(v, m) == Len(v[m]) > 0
      SharedLoc(v, m) == \E p \in 1..n : Supplies(v, p) /\ nl[p] = nl[m]
      iv == UNION {{<<JItem(t.items[i], m, SM[m], PM[m]), t.items[i].n, m>> : m \in {q \in 1..n : Supplies(t.items[i].v, q)}}
                     : i \in 1..Len(t.items)}
      gv == UNION {LET g == t.glyphs[i] full == GlyphDeltas(g) IN
                   {<<JGlyphAt(g, full, m, SM[m], PM[m]), g.n, m>> : m \in {q \in 1..n : Supplies(g.m, q)}}
                     : i \in 1..Len(t.glyphs)}
      ibad == {x \in iv : x[1] = "differs"}
      gbad == {x \in gv : x[1] \in {"differs", "structure"}}
      sparsebad == {x \in {<<i, m>> : i \in 1..Len(t.items), m \in 1..n} :
                      ~Supplies(t.items[x[1]].v, x[2]) /\ ~SharedLoc(t.items[x[1]].v, x[2])
                      /\ ~ItemAvoids(t.items[x[1]], regions, locs[x[2]])}
      gsparsebad == {x \in {<<i, m>> : i \in 1..Len(t.glyphs), m \in 1..n} :
                      ~Supplies(t.glyphs[x[1]].m, x[2]) /\ ~SharedLoc(t.glyphs[x[1]].m, x[2])
                      /\ ~TupleAvoids(t.glyphs[x[1]], regions, locs[x[2]])}
  IN IF Len(t.fvar) # Len(axes) \/ Len(t.avar) # Len(axes) THEN <<"AxisMapping:axis-count", "fvar", 0>>
     ELSE IF \E a \in 1..Len(axes) : axv[a] \notin ({"ok"} \cup AxisSkips)
          THEN LET a == CHOOSE a \in 1..Len(axes) : axv[a] \notin ({"ok"} \cup AxisSkips) IN <<axv[a], "axis", a>>
     ELSE IF \E a \in 1..Len(axes) : axv[a] # "ok" THEN <<axv[CHOOSE a \in 1..Len(axes) : axv[a] # "ok"]>>
     ELSE IF \E r \in 1..Len(regions) : Len(regions[r]) # Len(axes) THEN <<"malformed:region-arity">>
     ELSE IF \E m \in 1..n : AnyBad(locs[m]) \/ AnyBad(SM[m]) \/ AnyBad(PM[m]) THEN <<"skip:overflow">>
     ELSE IF ~RoundingKeepsMastersApart(nl) THEN <<"skip:master coordinates closer than F2Dot14 resolves">>
     ELSE IF \E i \in 1..Len(t.items) : Len(t.items[i].v) # n THEN <<"malformed:item-values">>
     ELSE IF \E i \in 1..Len(t.glyphs) : Len(t.glyphs[i].m) # n \/ ~GlyphOK(t.glyphs[i]) THEN <<"malformed:glyph">>
     ELSE IF ibad # {} THEN LET x == CHOOSE x \in ibad : TRUE IN <<"MasterReproduced", x[2], x[3]>>
     ELSE IF gbad # {} THEN LET x == CHOOSE x \in gbad : TRUE IN
                            <<IF x[1] = "structure" THEN "MasterReproduced:outline-structure" ELSE "MasterReproduced", "outline:" \o x[2], x[3]>>
     ELSE IF sparsebad # {} THEN LET x == CHOOSE x \in sparsebad : TRUE IN <<"SparseOK", t.items[x[1]].n, x[2]>>
     ELSE IF gsparsebad # {} THEN LET x == CHOOSE x \in gsparsebad : TRUE IN <<"SparseOK", "outline:" \o t.glyphs[x[1]].n, x[2]>>
     ELSE IF (\E x \in iv : x[1] = "overflow") \/ (\E x \in gv : x[1] = "overflow") THEN <<"skip:overflow">>
     ELSE <<"ok">>

Judge(t, nl, p) ==
  IF p = "refused" THEN (IF t.err # "" THEN <<"ok">> ELSE <<"note:built although the spec refuses the designspace">>)
  ELSE IF t.err # "" THEN <<"build:exception", t.err, 0>>
  ELSE JudgeVF(t, nl)

Init == /\ tid \in 1..NTraces /\ verdict = <<"pending">>
        /\ BuildInit(DSJ(Traces[tid]))
Next == \/ Normalise /\ UNCHANGED <<tid, verdict>>
        \/ /\ pc \in {"model", "refused"} /\ verdict = <<"pending">>
           /\ verdict' = Judge(Traces[tid], nlocs, pc)
           /\ pc' = "judged"
           /\ UNCHANGED <<tid, ds, nlocs, order, vf>>
Report == (verdict[1] \notin {"pending", "ok"}) => Reject(tid, verdict)
=============================================================================
