----------------------------- MODULE Trace_C12 -----------------------------
(* C12 judge: rewriting a CFF charstring never changes what it draws.
   One trace = one original charstring (token list, its subroutines) plus the token lists
   the REAL rewritings produced from it (specializeProgram, generalizeProgram,
   compile/decompile, desubroutinize, remove_hints, CFF<->CFF2, T2CharStringPen, cffsubr ...).
   t.progs holds the distinct programs (progs[1] is the original; rewritings that returned
   token-identical programs share an entry), t.outs one record per rewriting pointing at
   its program.  TLC interprets every program with T2Sem and decides per rewriting
     Legal (OutputLegal)  the emitted program is a well-formed Type 2 / CFF2 program and stays
                  within the operand-stack limit of its format (or the maxstack requested),
     SamePath     Canon(Run(out)) = Canon(Run(in))  (strict form under preserveTopology),
     SameWidth    same advance width under the respective Private DICTs,
     SamePathRegion  (CFF2) the same again with each variation region switched on alone.
   An original that is itself ill-formed or uses unmodelled operators is outside the
   domain: verdict "skip:..." (counted by the harness, never validated, never alarmed). *)
EXTENDS TraceIO, T2Sem

VARIABLES tid, verdict
vars == <<tid, verdict>>

\* positional fields of a program side and of a rewriting record (arrays parse faster than objects)
PFmt(sd) == sd[1]    PProg(sd) == sd[2]   PLs(sd) == sd[3]   PNls(sd) == sd[4]
PGs(sd) == sd[5]     PNgs(sd) == sd[6]    PRg(sd) == sd[7]   PVsi(sd) == sd[8]
OName(o) == o[1]     OIdx(o) == o[2]      OStrict(o) == o[3] OLim(o) == o[4]   OWm(o) == o[5]
\* the tail is omitted when it is the default: the original's Private widths, no absolute advance,
\* endchar not required, no region check, did not raise
OExt(o) == Len(o) > 5
ODw(t, o) == IF OExt(o) THEN o[6] ELSE t.dw
ONw(t, o) == IF OExt(o) THEN o[7] ELSE t.nw
OAdv(o) == IF OExt(o) THEN o[8] ELSE 0
OEnd(o) == IF OExt(o) THEN o[9] ELSE 0
ONl(o) == IF OExt(o) THEN o[10] ELSE 0
ORaised(o) == IF OExt(o) THEN o[11] ELSE 0

HardLimit == 513     \* Run never refuses below this; the declared limit is compared with mx

CxOf(sd, loc) ==
  [fmt |-> PFmt(sd), lim |-> HardLimit, ls |-> PLs(sd), nls |-> PNls(sd), gs |-> PGs(sd), ngs |-> PNgs(sd),
   rg |-> PRg(sd), vsi |-> PVsi(sd), loc |-> loc]

WidthOK(t, a, b, o) ==
  CASE OWm(o) = "same" -> b.w = a.w
    [] OWm(o) = "adv"  -> Advance(b, ODw(t, o), ONw(t, o)) = Advance(a, t.dw, t.nw)
    [] OWm(o) = "abs"  -> Advance(b, ODw(t, o), ONw(t, o)) = OAdv(o)
    [] OWm(o) = "none" -> b.w = <<>>
    [] OWm(o) = "skip" -> TRUE

JudgeOut(t, R, C, RR, o) ==
  LET a == R[1]  b == R[OIdx(o)]  k == OStrict(o) + 1 IN
  IF ORaised(o) = 1 THEN "Raised"       \* the real rewriting raised on a well-formed original
  ELSE IF b.err # "" THEN "Legal:" \o b.err
  ELSE IF b.mx > OLim(o) THEN "Legal:StackLimit"
  ELSE IF OEnd(o) = 1 /\ ~b.done THEN "Legal:no-endchar"
  \* TN5177 4.3: endchar "must be the last operator in a character's outline" -- a Type 2 rewriting of a
  \* charstring that ended with it must end with it too (CFF2 has no endchar: OEnd covers CFF2 -> CFF)
  ELSE IF PFmt(t.progs[OIdx(o)]) = "cff" /\ a.done /\ ~b.done THEN "Legal:no-endchar"
  ELSE IF C[k][OIdx(o)] # C[k][1] \/ a.seac # b.seac THEN "SamePath"
  ELSE IF ~WidthOK(t, a, b, o) THEN "SameWidth"
  ELSE IF \E r \in 1..ONl(o) : ~SamePath(RR[r][1], RR[r][OIdx(o)], OStrict(o) = 1) THEN "SamePathRegion"
  ELSE "ok"

\* every failing rewriting is named: << "name:clause", ... >>  (<<>> if none)
RECURSIVE Fails(_, _, _, _, _)
Fails(t, R, C, RR, i) ==
  IF i > Len(t.outs) THEN <<>>
  ELSE LET v == JudgeOut(t, R, C, RR, t.outs[i])
           rest == Fails(t, R, C, RR, i + 1)
       IN IF v = "ok" THEN rest ELSE <<OName(t.outs[i]) \o ":" \o v>> \o rest

(* Every program is interpreted once: the results are bound as VALUES through a singleton
   set (TLC re-evaluates LET definitions at each use, bound variables it does not).
   R[i] = Run of program i at the default location, C[1][i] / C[2][i] its loose / strict
   normal form, RR[r][i] = Run with region r switched on alone.                        *)
JudgeR(t, R) ==
  IF R[1].err # "" THEN <<"skip:input:" \o R[1].err>>
  ELSE IF R[1].mx > StackLimit(PFmt(t.progs[1])) THEN <<"skip:input:StackLimit">>
  ELSE LET np == Len(t.progs) IN
       CHOOSE v \in { Fails(t, R, C, RR, 1) :
                        C \in { << [i \in 1..np |-> Canon(R[i].path, FALSE)],
                                   [i \in 1..np |-> Canon(R[i].path, TRUE)] >> },
                        RR \in { [r \in 1..t.nl |-> [i \in 1..np |-> Run(CxOf(t.progs[i], r), PProg(t.progs[i]))]] } } : TRUE

Judge(t) ==
  CHOOSE v \in { JudgeR(t, R) : R \in { [i \in 1..Len(t.progs) |-> Run(CxOf(t.progs[i], 0), PProg(t.progs[i]))] } } : TRUE

(* The verdict is computed in the invariant of the successor state (evaluated by the worker
   that generated it, so traces are judged in parallel); in an action TLC does not cache
   operator arguments, which makes the recursive interpreter orders of magnitude slower. *)
Init == tid \in 1..NTraces /\ verdict = "pending"
Next == verdict = "pending" /\ verdict' = "judged" /\ UNCHANGED tid
\* one short line per failing clause (TLC wraps printed values longer than 80 columns)
Report == (verdict = "judged") => \A v \in {Judge(Traces[tid])} : \A i \in 1..Len(v) : Reject(tid, v[i])
=============================================================================
